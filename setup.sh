#!/bin/sh
# Offline setup: regenerate harness/go.sum and pre-build every check package
# into the Go build cache. Fetches nothing.
set -e
cd "$(dirname "$0")"
export GOFLAGS=-mod=mod GOPROXY=off
unset GOSUMDB
cat /repo/go.sum harness/go.sum.extra > harness/go.sum
mkdir -p .build evidence replays logs .work
cd harness
for p in $(python3 -c "
import sys; sys.path.insert(0,'..')
from checks_table import CHECKS
print(' '.join(sorted({c['pkg']+(':race' if c.get('race') else '') for c in CHECKS.values()})))"); do
  pkg=${p%%:*}
  if [ "$pkg" != "$p" ]; then
    go test -tags verif -vet=off -race -c -o ../.build/$(echo $pkg | tr / _).race.test ./$pkg
  else
    go test -tags verif -vet=off -c -o ../.build/$(echo $pkg | tr / _).test ./$pkg
  fi
done
echo setup ok
