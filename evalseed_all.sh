#!/bin/sh
# evaluates every finished seed (out/X/meta.json present) not yet kept under /verif/seeded, 4 at a time
cd /verif
for m in /tmp/seed/*/out/*/meta.json; do
  id=$(echo $m | cut -d/ -f4); x=$(echo $m | cut -d/ -f6)
  [ -f /verif/seeded/$id-$x/meta.json ] && continue
  case " $SKIP " in *" $id "*) continue;; esac
  echo "$id $x"
done | xargs -P 4 -L 1 sh -c './evalseed.py $0 $1 --seeds 2 --keep > /verif/logs/evalseed.$0-$1.log 2>&1; echo "done $0 $1: $(grep -A3 caught_by /verif/logs/evalseed.$0-$1.log | tr -d "\n " | cut -c1-80)"'
