# id -> how ./check runs it and what MANIFEST.json says about it. pkg is relative to harness/.
HOOK_COMMITS = ["a54a4c24", "b49957b1", "19f8d813"]
NOT_APPLICABLE = {}
CHECKS = {
    "C42": {
        "pkg": "timingchk",
        "technique": "property-based testing (rapid): generated (freq,time,n) vs math/big oracle",
        "level": "Generated-input search: 100k (quick) / 16M (thorough) (frequency, time, n) triples weighted to period boundaries and the top of the 64-bit range, each compared with exact math/big arithmetic. Finds any arithmetic slip that shows on a sampled triple; does not prove all 2^64 x 10^12 inputs.",
        "note": "Trusts math/big and the harness' reading of 'results fit in 64 bits' (each operation is only judged when its exact result < 2^64).",
    },
    "C16": {
        "pkg": "memsyschk", "floor_quick": 20,
        "technique": "property-based testing (rapid): generated assembly + workload vs flat reference memory",
        "level": "Generated-input search over compositions of the real caches/ROB/memories with small geometries and generated request streams; every read checked against a flat reference memory, every request checked for exactly one matching response, quiescence decided by the empty event queue. Exploration only: bounded geometries and stream lengths.",
        "note": "Trusts the harness requester (stalls instead of overlapping in-flight bytes), the reference memory, and the reading that a masked write does not touch masked-off bytes. DRAM bottoms are exercised by C22's harness.",
    },
}
