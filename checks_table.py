# id -> how ./check runs it and what MANIFEST.json says about it. pkg is relative to harness/.
HOOK_COMMITS = ["a54a4c24", "b49957b1", "19f8d813"]
NOT_APPLICABLE = {}
CHECKS = {
    "C42": {
        "pkg": "timingchk",
        "technique": "property-based testing (rapid): generated (freq,time,n) vs math/big oracle",
        "level": "Generated-input search: 100k (quick) / 16M (thorough) (frequency, time, n) triples weighted to period boundaries and the top of the 64-bit range, each compared with exact math/big arithmetic. Finds any arithmetic slip that shows on a sampled triple; does not prove all 2^64 x 10^12 inputs.",
        "note": "Trusts math/big and the harness' reading of 'results fit in 64 bits' (each operation is only judged when its exact result < 2^64).",
    },
    "C16": {
        "pkg": "memsyschk", "floor_quick": 20,
        "technique": "property-based testing (rapid): generated assembly + workload vs flat reference memory",
        "level": "Generated-input search over compositions of the real caches/ROB/memories with small geometries and generated request streams; every read checked against a flat reference memory, every request checked for exactly one matching response, quiescence decided by the empty event queue. Exploration only: bounded geometries and stream lengths.",
        "note": "Trusts the harness requester (stalls instead of overlapping in-flight bytes), the reference memory, and the reading that a masked write does not touch masked-off bytes. DRAM bottoms are exercised by C22's harness.",
    },
    "C19": {
        "pkg": "memsyschk", "floor_quick": 20,
        "technique": "property-based testing (rapid): per-event directory invariants on generated hierarchies + model-based test of the directory operations",
        "level": "Generated-input search: the directory invariants are evaluated after every handled event of generated cache hierarchies (hundreds of runs, ~10^5 events per quick run), and the exported directory operations (victim choice, visit, lookup) are driven by generated histories against a recency model. Exploration: small geometries, bounded histories.",
        "note": "The victim clause is judged on DirectoryFindVictim directly and, at system level, only through its consequences (negative reader count, duplicate lines, C16 data mismatches): a per-event snapshot cannot soundly attribute a same-tick unlock-then-replace.",
    },
    "C17": {
        "pkg": "memsyschk", "floor_quick": 20,
        "technique": "property-based testing (rapid): generated hierarchy + workload + flush filter vs reference memory and pre-flush directory snapshot",
        "level": "Generated-input search: (a) any hierarchy with a write-back cache, workload optionally interrupted by a mid-run drain/flush/enable, then drain+flush of all caches, backing memory compared byte-for-byte with the reference; (b) a single write-back cache with generated address/PID flush filters judged against the set of dirty lines read before the flush. Exploration with small geometries.",
        "note": "Trusts C16's reference memory; cases whose C16 data oracle already fails with a listed C16 finding are not judged (counted as a class).",
    },
    "C20": {"pkg": "memutilchk", "floor_quick": 1000,
        "technique": "model-based PBT (rapid): generated (capacity, unit, read/write/checkpoint history) vs byte-array model",
        "level": "Generated-input search: 20k (quick) / 3.2M (thorough) histories of up to 24 ops over capacities 1 B-64 KiB, 2^20..2^63 and 2^64-1-k, unit sizes 1/prime/pow2/>capacity, addresses weighted to capacity+-3, unit boundaries and 2^64-k; every op judged against the model and the contents re-compared after every op. Does not prove all inputs.",
        "note": "Trusts the byte-array model and the input-class computation; lengths <= 128KiB+8; unit size 0 / capacity 0 outside the domain; for capacities > 128 KiB 'contents unchanged' is checked on every range ever written plus windows around the access ends, 0 and capacity."},
    "C24": {"pkg": "memutilchk", "floor_quick": 5000,
        "technique": "PBT (rapid) + complete enumeration of small configurations: closed-form / counting rank oracle for both converters, differential agreement with InterleavedAddressPortMapper",
        "level": "Generated-input search: 100k (quick) / 16M (thorough) (size, n, element, offset, address set) cases incl. non-power-of-two sizes, offsets and addresses near 2^64, each address judged for acceptance/rejection and exact internal address; plus every configuration with size<=8, n<=5, offset<=2 rounds+1 over all addresses up to 3 rounds (exhaustive for that sub-space only).",
        "note": "Offset read as the first external address of the region (from the code's own belongsTo arithmetic); rejection = log.Panic; mapper compared only where it can express the region (offset multiple of round size)."},
    "C26": {"pkg": "memutilchk", "floor_quick": 500,
        "technique": "model-based state-machine PBT (rapid): map model, second instance replaying the history, 16x repeated lookups, checkpoint round trip",
        "level": "Generated-input search: 10k (quick) / 1.6M (thorough) histories of up to 40 ops over 1-6 processes with deliberately shared frames; every Find/ReverseLookup judged against the model, repeated 16 times and compared with a second table; checkpoint save->load->save byte-identical and all answers preserved. Nondeterminism is detected probabilistically (~88% per shared-frame lookup).",
        "note": "Keys are page-aligned (only Find aligns); documented misuse panics are asserted; checkpoint reached via type assertion as the repo's own test does; no concurrency."},
}
