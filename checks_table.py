# id -> how ./check runs it and what MANIFEST.json says about it. pkg is relative to harness/.
HOOK_COMMITS = ["a54a4c24", "b49957b1", "19f8d813"]
NOT_APPLICABLE = {}
CHECKS = {
    "C42": {
        "pkg": "timingchk",
        "technique": "property-based testing (rapid): generated (freq,time,n) vs math/big oracle",
        "level": "Generated-input search: 100k (quick) / 16M (thorough) (frequency, time, n) triples weighted to period boundaries and the top of the 64-bit range, each compared with exact math/big arithmetic. Finds any arithmetic slip that shows on a sampled triple; does not prove all 2^64 x 10^12 inputs.",
        "note": "Trusts math/big and the harness' reading of 'results fit in 64 bits' (each operation is only judged when its exact result < 2^64).",
    },
}
