#!/usr/bin/env python3
"""evalseed.py <ID> <X> [--checks C16,C19] [--seeds 3] [--keep]

Confirms one seeded change produced by an independent sub-agent
(/tmp/seed/<ID>/out/<X>/{patch.diff,meta.json,demo*}) and runs our checks on it.

1. in the scratch worktree /tmp/seed/<ID>/wt: apply the patch, build, run the
   demonstration (must fail), run the touched packages' own tests (must pass),
   revert, run the demonstration again (must pass);
2. apply the patch to /repo, run `./check <id> --tier quick` for the property
   (and any extra checks) at several seeds, undo the patch straight afterwards;
3. with --keep: store it as /verif/seeded/<ID>-<X>/ (patch.diff, demo, meta.json
   incl. what we ran and what caught it).
Nothing is ever committed to /repo.
"""
import argparse, glob, json, os, re, shutil, subprocess, sys, time

ENV = dict(os.environ, GOFLAGS="-mod=mod", GOPROXY="off")
ENV.pop("GOSUMDB", None)


def sh(cmd, cwd=None, timeout=1800, env=None):
    p = subprocess.run(cmd, cwd=cwd, shell=isinstance(cmd, str), env=env or ENV, stdout=subprocess.PIPE,
                       stderr=subprocess.STDOUT, text=True, timeout=timeout)
    return p.returncode, p.stdout


def main():
    ap = argparse.ArgumentParser()
    ap.add_argument("id")
    ap.add_argument("x")
    ap.add_argument("--checks", default="")
    ap.add_argument("--seeds", type=int, default=2)
    ap.add_argument("--keep", action="store_true")
    ap.add_argument("--skip-confirm", action="store_true")
    ap.add_argument("--only", action="store_true", help="run only --checks (not the property's own check); earlier results kept in meta.json are merged")
    a = ap.parse_args()
    sd = "/tmp/seed/%s" % a.id
    out = "%s/out/%s" % (sd, a.x)
    # private copy of the (clean) seed worktree, so A and B can be evaluated side by side
    os.makedirs("/tmp/evalv", exist_ok=True)
    wt = "/tmp/evalv/%s-%s-repo" % (a.id, a.x)
    shutil.rmtree(wt, ignore_errors=True)
    # worktree bookkeeping of /repo is shared by parallel evaluations: serialise it
    sh("flock /tmp/evalv/.wtlock git -C /repo worktree add --detach %s HEAD" % wt)
    if not os.path.exists(os.path.join(wt, "go.mod")):
        print("cannot create worktree", wt)
        sys.exit(3)
    patch = out + "/patch.diff"
    meta = json.load(open(out + "/meta.json"))
    report = {"property": a.id, "variant": a.x, "summary": meta.get("summary"), "needs": meta.get("needs")}

    touched = sorted({os.path.dirname(m) for m in re.findall(r"^\+\+\+ b/(\S+)", open(patch).read(), re.M)})
    report["touched_packages"] = touched

    if not a.skip_confirm:
        sh("git checkout -- . && git clean -fdq", cwd=wt)
        rc, o = sh(["git", "apply", patch], cwd=wt)
        if rc != 0:
            rc, o = sh(["git", "apply", "-3", patch], cwd=wt)
        if rc != 0:
            print("PATCH DOES NOT APPLY", o)
            sys.exit(3)
        rc, o = sh("go build " + (" ".join("./%s/..." % t for t in touched) if os.environ.get("EVALSEED_FAST") else "./..."), cwd=wt)
        report["builds"] = rc == 0
        if rc != 0:
            print("DOES NOT BUILD\n", o[-2000:])
            sh("git checkout -- . && git clean -fdq", cwd=wt)
            sys.exit(3)
        # existing tests of touched packages
        pk = " ".join("./" + t for t in touched if glob.glob(os.path.join(wt, t, "*_test.go")))
        if pk:
            rc, o = sh("go test -vet=off -count=1 -timeout 20m %s 2>&1 | tail -30" % pk, cwd=wt)
            fails = [l for l in o.splitlines() if l.startswith("FAIL") or l.startswith("--- FAIL")]
            build_fail = [l for l in fails if "[build failed]" in l]
            report["existing_tests"] = "pass" if not [f for f in fails if f not in build_fail and f.strip() != "FAIL"] else "FAIL: " + "; ".join(fails[:5])
        # demo with the patch
        demo_dir = os.path.join(wt, (meta.get("demo_dir", ".").split() or ["."])[0])
        demos = [f for f in glob.glob(out + "/*") if os.path.basename(f) not in ("patch.diff", "meta.json") and not f.endswith(".log") and not f.endswith(".md") and not f.endswith(".txt")]
        copied = []
        for f in demos:
            if os.path.isdir(f):
                dst = os.path.join(demo_dir, os.path.basename(f))
                shutil.copytree(f, dst, dirs_exist_ok=True)
            else:
                os.makedirs(demo_dir, exist_ok=True)
                base = os.path.basename(f)
                if base.endswith("_test.go"):
                    base = "zz_seed_" + base
                dst = os.path.join(demo_dir, base)
                shutil.copy(f, dst)
            copied.append(dst)
        cmd = meta.get("demo_cmd", "go test -vet=off -count=1 .")
        m = re.search(r"(go (?:test|run|vet) .*)$", cmd)
        if m:
            cmd = m.group(1)
        rc_with, o_with = sh(cmd, cwd=wt, timeout=1800)
        sh(["git", "apply", "-R", patch], cwd=wt)
        rc_without, o_without = sh(cmd, cwd=wt, timeout=1800)
        for c in copied:
            if os.path.isdir(c):
                shutil.rmtree(c, ignore_errors=True)
            elif os.path.exists(c):
                os.remove(c)
        sh("git checkout -- . && git clean -fdq", cwd=wt)
        report["demo_fails_with_patch"] = rc_with != 0
        report["demo_passes_without_patch"] = rc_without == 0
        if not (rc_with != 0 and rc_without == 0):
            print("DEMO NOT CONFIRMED: with=%s without=%s\n--with--\n%s\n--without--\n%s" % (rc_with, rc_without, o_with[-1500:], o_without[-1500:]))

    # our checks against it: an isolated copy of /verif (committed + working
    # files, no build output) is pointed at the seed's own worktree with the
    # patch applied (VERIF_REPO), so /repo itself is never touched and several
    # evaluations can run side by side.
    checks = ([] if a.only else [a.id]) + [c for c in a.checks.split(",") if c]
    iso = "/tmp/evalv/%s-%s" % (a.id, a.x)
    shutil.rmtree(iso, ignore_errors=True)
    os.makedirs(iso)
    sh("rsync -a --exclude .git --exclude .build --exclude .work --exclude logs --exclude replays --exclude evidence /verif/ %s/" % iso)
    sh("git checkout -- . && git clean -fdq", cwd=wt)
    rc, o = sh(["git", "apply", patch], cwd=wt)
    if rc != 0:
        rc, o = sh(["git", "apply", "-3", patch], cwd=wt)
    if rc != 0:
        print("cannot apply:", o)
        sys.exit(3)
    results = {}
    try:
        for c in checks:
            for i in range(a.seeds):
                env = dict(ENV, VERIF_REPO=wt)
                if i:
                    env["VERIF_SEED"] = str(1000 + 17 * i)
                t0 = time.time()
                rc, o = sh(["./check", c, "--tier", "quick"], cwd=iso, env=env, timeout=5400)
                det = [l for l in o.splitlines() if l.startswith("VIOLATION-DETAIL")]
                results.setdefault(c, []).append({"seed": env.get("VERIF_SEED", "default"), "exit": rc, "wall_s": round(time.time() - t0, 1),
                                                  "detail": det[0][:300] if det else (o.strip().splitlines()[-1][:200] if rc == 2 and o.strip() else "")})
                if rc == 1:
                    break
    finally:
        shutil.rmtree(iso, ignore_errors=True)
        sh("flock /tmp/evalv/.wtlock git -C /repo worktree remove --force %s" % wt)
    kd = "/verif/seeded/%s-%s" % (a.id, a.x)
    if os.path.exists(kd + "/meta.json"):
        prev = json.load(open(kd + "/meta.json")).get("confirmed", {})
        for k, v in prev.items():
            report.setdefault(k, v)
        merged = dict(prev.get("checks", {}))
        merged.update(results)
        results = merged
    report["checks"] = results
    report["caught_by"] = [c for c, rs in results.items() if any(r["exit"] == 1 for r in rs)]
    print(json.dumps(report, indent=1))
    if a.keep:
        kd = "/verif/seeded/%s-%s" % (a.id, a.x)
        os.makedirs(kd, exist_ok=True)
        shutil.copy(patch, kd + "/patch.diff")
        for f in glob.glob(out + "/*"):
            if os.path.basename(f) not in ("patch.diff", "meta.json"):
                if os.path.isdir(f):
                    shutil.copytree(f, os.path.join(kd, os.path.basename(f)), dirs_exist_ok=True)
                else:
                    shutil.copy(f, kd)
        meta.update({"confirmed": report, "ran": "evalseed.py %s %s" % (a.id, a.x)})
        json.dump(meta, open(kd + "/meta.json", "w"), indent=1)


if __name__ == "__main__":
    main()
