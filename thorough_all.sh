#!/bin/sh
# Runs every check's thorough tier once (used through `vp run`, against a snapshot of /repo).
[ -n "$VP_RUN_REPO" ] && export VERIF_REPO=$VP_RUN_REPO
ids=${1:-$(python3 -c "
import sys; sys.path.insert(0,'.')
from checks_table import CHECKS
print(' '.join(sorted(CHECKS)))")}
./setup.sh >/dev/null 2>&1
for id in $ids; do
  t0=$(date +%s)
  out=$(./check $id --tier thorough 2>&1 | grep -v '^KNOWN-FINDING' | tail -3 | tr '\n' ' ')
  echo "$id rc=$? $(( $(date +%s) - t0 ))s :: $out"
done
