#!/usr/bin/env python3
"""Regenerates MANIFEST.json from checks_table.py (single source of truth)."""
import json, os, subprocess, sys
sys.path.insert(0, os.path.dirname(os.path.abspath(__file__)))
from checks_table import CHECKS, NOT_APPLICABLE, HOOK_COMMITS

props = [json.loads(l) for l in open(os.path.join(os.path.dirname(os.path.abspath(__file__)), "properties.jsonl"))]
ids = [p["id"] for p in props]
checks = []
for pid in ids:
    if pid not in CHECKS:
        continue
    c = CHECKS[pid]
    entry = {
        "property_id": pid,
        "quick_cmd": "./check %s --tier quick" % pid,
        "thorough_cmd": "./check %s --tier thorough" % pid,
        "evidence_file": "/verif/evidence/%s.json" % pid,
        "replay_cmd_template": "./check %s --replay {path}" % pid,
        "engine": "harness/" + c["pkg"],
        "level_claimed": {
            "category": "exploration",
            "text": c["level"],
            "design_ref": "DESIGN.md §3 " + pid,
        },
        "level_note": c["note"],
        "technique": c["technique"],
    }
    checks.append(entry)
na = [{"property_id": pid, "reason": NOT_APPLICABLE.get(pid, "check not built yet in this session; no claim is made")} for pid in ids if pid not in CHECKS]
m = {
    "version": 1,
    "setup_cmd": "./setup.sh",
    "hooks": {
        "guard": "verif",
        "enable": "go test -tags verif (the harness module replaces github.com/sarchlab/akita/v5 with /repo and always builds with -tags verif)",
        "baseline_off_cmd": "for m in $(cat /w/out/gomods.txt); do MF=$(cd /repo/$m && . /w/out/goenv.sh && gomodflag); (cd /repo/$m && go test $MF -json -vet=off -count=1 -timeout 25m ./...); done",
        "source_commits": HOOK_COMMITS,
        "add_only": True,
    },
    "engines": [
        {"name": "check", "path": "/verif/check", "serves_properties": [c["property_id"] for c in checks],
         "kind_free_text": "python driver: rebuilds the harness test binary against /repo's working tree, replays saved cases, runs rapid (pgregory.net/rapid v1.3.0) searches sharded by seed, native go fuzzing in the thorough tier, merges evidence"},
        {"name": "harness", "path": "/verif/harness", "serves_properties": [c["property_id"] for c in checks],
         "kind_free_text": "Go module of property-based tests (rapid generators, reference models, differential and metamorphic oracles) driving the real code"},
    ],
    "checks": checks,
    "not_applicable": na,
    "notes": "All checks are property-based tests / fuzzing against the real code built from /repo. Known findings: KNOWN_FINDINGS.txt. See DESIGN.md.",
}
json.dump(m, open(os.path.join(os.path.dirname(os.path.abspath(__file__)), "MANIFEST.json"), "w"), indent=1)
print("checks:", len(checks), "not_applicable:", len(na))
