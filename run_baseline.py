#!/usr/bin/env python3
"""run_baseline.py [repo-dir] [-p N]

Runs the repository's pinned test suite (the command of /root/.vp/BASELINE.json,
pointed at repo-dir, default /repo) and compares the set of passing tests with
BASELINE.json's stable_pass list. Exit 0 iff every stable test passes.
"""
import ast, json, os, subprocess, sys

repo = "/repo"
par = None
args = sys.argv[1:]
while args:
    a = args.pop(0)
    if a == "-p":
        par = args.pop(0)
    else:
        repo = a
base = json.load(open("/root/.vp/BASELINE.json"))
stable = base["stable_pass"]
if isinstance(stable, str):
    stable = ast.literal_eval(stable)
stable = set(stable)
env = dict(os.environ, GOFLAGS="-mod=mod", GOPROXY="off")
env.pop("GOSUMDB", None)
cmd = ["go", "test", "-mod=mod", "-json", "-vet=off", "-count=1", "-timeout", "25m"]
if par:
    cmd += ["-p", par]
cmd += ["./..."]
p = subprocess.Popen(cmd, cwd=repo, env=env, stdout=subprocess.PIPE, stderr=subprocess.DEVNULL, text=True)
passed, failed = set(), set()
for line in p.stdout:
    try:
        e = json.loads(line)
    except Exception:
        continue
    if e.get("Test") and e.get("Action") in ("pass", "fail"):
        k = "%s::%s" % (e["Package"], e["Test"])
        (passed if e["Action"] == "pass" else failed).add(k)
p.wait()
missing = sorted(stable - passed)
print("stable=%d passed_of_stable=%d failed_total=%d" % (len(stable), len(stable & passed), len(failed)))
for m in missing[:40]:
    print("NOT PASSING:", m, "(failed)" if m in failed else "(not run)")
sys.exit(0 if not missing else 1)
