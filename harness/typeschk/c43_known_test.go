package typeschk

// Deterministic reproductions of the listed C43 findings, each through the
// real constructor (Builder.Build must accept the State type) and the real
// checkpoint path (Component.SaveCheckpoint -> LoadCheckpoint into a second
// built component), with hand-written minimal types. Plus the library's own
// Spec/State types run through the same oracle.

import (
	"bytes"
	"encoding/json"
	"fmt"
	"reflect"
	"strings"
	"testing"

	"github.com/sarchlab/akita/v5/modeling"
	"github.com/sarchlab/akita/v5/timing"
	"pgregory.net/rapid"

	"verif/harness/kit"
)

// ---- minimal types

type knMixed struct {
	A int
	b int
}

type knDupTag struct {
	A int `json:"x"`
	B int `json:"x"`
}

type KnBase struct{ A int }
type knShadow struct {
	KnBase
	A int
}

type knPair struct{ v int }

func (p knPair) MarshalJSON() ([]byte, error)  { return json.Marshal(p.v) }
func (p *knPair) UnmarshalJSON(b []byte) error { return json.Unmarshal(b, &p.v) }

type knPromoted struct {
	knPair
	N int
}

type knPtrRecv struct{ A int }

type knPtrRecvDTO struct {
	Payload int `json:"payload"`
}

func (p *knPtrRecv) MarshalJSON() ([]byte, error) { return json.Marshal(knPtrRecvDTO{p.A}) }
func (p *knPtrRecv) UnmarshalJSON(b []byte) error {
	var d knPtrRecvDTO
	if err := json.Unmarshal(b, &d); err != nil {
		return err
	}
	p.A = d.Payload
	return nil
}

type knUnmarshalOnly struct{ A int }

func (p *knUnmarshalOnly) UnmarshalJSON(b []byte) error {
	var d knPtrRecvDTO
	if err := json.Unmarshal(b, &d); err != nil {
		return err
	}
	p.A = d.Payload
	return nil
}

type knLossyPair struct{ A, B int }

func (p knLossyPair) MarshalJSON() ([]byte, error) { return json.Marshal(knPtrRecvDTO{p.A}) }
func (p *knLossyPair) UnmarshalJSON(b []byte) error {
	var d knPtrRecvDTO
	if err := json.Unmarshal(b, &d); err != nil {
		return err
	}
	p.A = d.Payload
	return nil
}

type knLevelMarshalOnly int

func (l knLevelMarshalOnly) MarshalJSON() ([]byte, error) {
	return json.Marshal(map[string]int{"level": int(l)})
}

type knNamedMarshalOnly struct{ V knLevelMarshalOnly }

type knLevelPtr int

func (l *knLevelPtr) MarshalJSON() ([]byte, error) {
	return json.Marshal(map[string]int{"level": int(*l)})
}
func (l *knLevelPtr) UnmarshalJSON(b []byte) error {
	var m map[string]int
	if err := json.Unmarshal(b, &m); err != nil {
		return err
	}
	*l = knLevelPtr(m["level"])
	return nil
}

type knNamedPtr struct{ V knLevelPtr }

type knNameUnmarshalOnly string

func (n *knNameUnmarshalOnly) UnmarshalJSON(b []byte) error {
	var m map[string]string
	if err := json.Unmarshal(b, &m); err != nil {
		return err
	}
	*n = knNameUnmarshalOnly(m["name"])
	return nil
}

type knNamedUnmarshalOnly struct{ V knNameUnmarshalOnly }

// stateOf extracts the "state" member of a component checkpoint (the envelope
// with the spec hash is noise in a one-line message).
func stateOf(checkpoint []byte) string {
	var env struct {
		State json.RawMessage `json:"state"`
	}
	if json.Unmarshal(checkpoint, &env) != nil || env.State == nil {
		return string(bytes.TrimSpace(checkpoint))
	}
	return string(env.State)
}

func c43Known[T any](t *testing.T, sub, sig string, v T, what string) {
	s := kit.Begin(t, "C43", sub, "deterministic: "+what+"; Builder.Build must accept the type, then Component.SaveCheckpoint -> LoadCheckpoint into a second built component; same oracle as the generated sub-checks")
	defer s.End()
	if kit.ReplayMode() {
		t.Skip()
	}
	s.Exhaustive()
	build := func() *modeling.Component[modeling.None, T, modeling.None] {
		return modeling.NewBuilder[modeling.None, T, modeling.None]().
			WithEngine(timing.NewSerialEngine()).WithFreq(1 * timing.GHz).Build("KnownComp")
	}
	var c1 *modeling.Component[modeling.None, T, modeling.None]
	if ok, odd := guardBuild(func() { c1 = build() }); !ok {
		if odd != "" {
			s.Fail(t, sub, "build-panics-otherwise", "%s", odd)
			return
		}
		s.Note(sub, true, "holds:type-now-rejected")
		return
	}
	c1.State = v
	var buf bytes.Buffer
	err := c1.SaveCheckpoint(&buf)
	saved := append([]byte(nil), buf.Bytes()...)
	c2 := build()
	if err == nil {
		err = c2.LoadCheckpoint(bytes.NewReader(saved))
	}
	if err != nil {
		if !strings.HasPrefix(sig, "accepted-roundtrip-error:") {
			s.Fail(t, sub, "accepted-roundtrip-error:unexpected", "%v", err)
			return
		}
		s.Note(sub, true, "reproduces")
		s.KnownStillFails(t, sub, sig, fmt.Sprintf("Build accepts %s; %+v -> state %s -> LoadCheckpoint: %v", what, v, stateOf(saved), err))
		return
	}
	if d := diffTop(v, c2.State, nil); d != nil {
		got := classify(d)
		if strings.HasPrefix(sig, "accepted-roundtrip-error:") || got != sig {
			s.Fail(t, sub, got, "%T: %+v -> %s -> %+v differs at %s", v, v, saved, c2.State, d.Path)
			return
		}
		s.Note(sub, true, "reproduces")
		s.KnownStillFails(t, sub, sig, fmt.Sprintf("Build accepts %s; %+v -> state %s -> %+v (%s: %s)", what, v, stateOf(saved), c2.State, d.Path, d.Detail))
		return
	}
	s.Note(sub, true, "holds:round-trips")
}

func TestC43Known_MixedExportedUnexported(t *testing.T) {
	c43Known(t, "known-mixed", "mixed-exported-unexported-accepted", knMixed{A: 1, b: 2}, "State struct{A int; b int}")
}

// The same hole for a Spec: two components whose Specs differ only in the
// unexported field have the same spec hash, so a checkpoint of one loads into
// the other although LoadCheckpoint is documented to refuse a different config.
func TestC43Known_MixedSpecHash(t *testing.T) {
	const sig = "mixed-exported-unexported-accepted"
	s := kit.Begin(t, "C43", "known-mixed-spec", "deterministic: Spec struct{A int; b int}; checkpoint of a component built with {1,2} loaded into one built with {1,3}")
	defer s.End()
	if kit.ReplayMode() {
		t.Skip()
	}
	s.Exhaustive()
	build := func(sp knMixed) *modeling.Component[knMixed, plainState, modeling.None] {
		return modeling.NewBuilder[knMixed, plainState, modeling.None]().
			WithEngine(timing.NewSerialEngine()).WithFreq(1 * timing.GHz).WithSpec(sp).Build("KnownComp")
	}
	var c1, c2 *modeling.Component[knMixed, plainState, modeling.None]
	if ok, odd := guardBuild(func() { c1, c2 = build(knMixed{1, 2}), build(knMixed{1, 3}) }); !ok {
		if odd != "" {
			s.Fail(t, "spec", "build-panics-otherwise", "%s", odd)
			return
		}
		s.Note("spec", true, "holds:type-now-rejected")
		return
	}
	var buf bytes.Buffer
	if err := c1.SaveCheckpoint(&buf); err != nil {
		t.Fatal(err)
	}
	if err := c2.LoadCheckpoint(&buf); err != nil {
		s.Note("spec", true, "holds:load-refused")
		return
	}
	s.Note("spec", true, "reproduces")
	s.KnownStillFails(t, "spec", sig, "Build accepts Spec struct{A int; b int}; a checkpoint saved with Spec{1,2} loads without error into a component built with Spec{1,3}: the spec hash (sha256 of json.Marshal(spec)) cannot see b")
}

func TestC43Known_DuplicateJSONName(t *testing.T) {
	c43Known(t, "known-dup-json-name", "json-name-conflict-accepted", knDupTag{A: 1, B: 2}, "State struct{A int `json:\"x\"`; B int `json:\"x\"`}")
}

func TestC43Known_EmbeddedShadowedField(t *testing.T) {
	c43Known(t, "known-embedded-shadow", "json-name-conflict-accepted", knShadow{KnBase: KnBase{A: 1}, A: 2}, "State struct{KnBase; A int}, KnBase{A int}")
}

func TestC43Known_EmbeddedMarshalerPromoted(t *testing.T) {
	c43Known(t, "known-embedded-promoted", "embedded-custom-json-promoted-accepted", knPromoted{knPair: knPair{v: 1}, N: 2}, "State struct{knPair; N int}, knPair has a Marshal/UnmarshalJSON pair")
}

func TestC43Known_PointerReceiverMarshalJSON(t *testing.T) {
	c43Known(t, "known-ptr-receiver", "ptr-receiver-marshaljson-accepted", knPtrRecv{A: 1}, "State struct{A int} with (*T).MarshalJSON+UnmarshalJSON")
}

func TestC43Known_UnmarshalJSONOnly(t *testing.T) {
	c43Known(t, "known-unmarshal-only", "unmarshaljson-without-marshaljson-accepted", knUnmarshalOnly{A: 1}, "State struct{A int} with UnmarshalJSON only")
}

func TestC43Known_LossyCustomPair(t *testing.T) {
	c43Known(t, "known-lossy-pair", "custom-json-pair-loses-data", knLossyPair{A: 1, B: 2}, "State struct{A,B int} whose Marshal/UnmarshalJSON pair forgets B")
}

func TestC43Known_NamedIntMarshalOnly(t *testing.T) {
	c43Known(t, "known-named-marshal-only", "accepted-roundtrip-error:named-nonstruct-marshaljson-without-unmarshaljson", knNamedMarshalOnly{V: 3}, "State struct{V Level}, Level int with MarshalJSON only")
}

func TestC43Known_NamedIntPointerReceiver(t *testing.T) {
	c43Known(t, "known-named-ptr-receiver", "accepted-roundtrip-error:named-nonstruct-ptr-receiver-marshaljson", knNamedPtr{V: 3}, "State struct{V Level}, Level int with (*Level).MarshalJSON+UnmarshalJSON")
}

func TestC43Known_NamedStringUnmarshalOnly(t *testing.T) {
	c43Known(t, "known-named-unmarshal-only", "accepted-roundtrip-error:named-nonstruct-unmarshaljson-without-marshaljson", knNamedUnmarshalOnly{V: "n"}, "State struct{V Name}, Name string with UnmarshalJSON only")
}

// ------------------------------------------------------------ the library's own Spec / State types

type c43LibCase struct {
	Kind   string   `json:"kind"` // "spec" | "state"
	Type   int      `json:"type"`
	Name   string   `json:"name"`
	Stream []uint64 `json:"stream"`
}

// unexportedOutsideCustomJSON lists fields that the stricter rule proposed for
// the mixed-field finding ("refuse any unexported field in a struct that does
// not customise its JSON") would refuse inside t.
func unexportedOutsideCustomJSON(t reflect.Type, path string, seen map[reflect.Type]bool, out *[]string) {
	switch t.Kind() {
	case reflect.Struct:
		if seen[t] || customJSONClass(t) != "" {
			return
		}
		seen[t] = true
		for i := 0; i < t.NumField(); i++ {
			f := t.Field(i)
			if _, _, dash := jsonTag(f); dash {
				continue
			}
			if f.PkgPath != "" {
				*out = append(*out, path+"."+f.Name)
			}
			unexportedOutsideCustomJSON(f.Type, path+"."+f.Name, seen, out)
		}
	case reflect.Slice, reflect.Array, reflect.Ptr, reflect.Map:
		unexportedOutsideCustomJSON(t.Elem(), path+"[]", seen, out)
	}
}

func TestC43LibraryTypes(t *testing.T) {
	s := kit.Begin(t, "C43", "library-types",
		"type = one of the library's own component Spec / State types (16 packages calling modeling.NewBuilder); value by reflection over exported plain-data fields (opaque containers left zero and not compared). Oracle: the C43 oracle (accepted => lossless, omitempty nil/empty waiver); every one of these types must of course be accepted (the library builds them). Also records, as evidence for the proposed fix, every unexported field of these types outside custom-JSON structs (expected: none). Non-trivial: >=3 non-zero leaves and a non-empty slice or map")
	defer s.End()

	var offenders []string
	for _, e := range libStates {
		unexportedOutsideCustomJSON(e.Typ, e.Name, map[reflect.Type]bool{}, &offenders)
	}
	for _, e := range libSpecs {
		unexportedOutsideCustomJSON(reflect.TypeOf(e.Zero), e.Name, map[reflect.Type]bool{}, &offenders)
	}
	s.Extra("library_unexported_fields_outside_custom_json", offenders)
	s.Extra("library_types_with_json_name_conflict", func() []string {
		var out []string
		for _, e := range libStates {
			if anyConflict(e.Typ, map[reflect.Type]bool{}) {
				out = append(out, e.Name)
			}
		}
		for _, e := range libSpecs {
			if anyConflict(reflect.TypeOf(e.Zero), map[reflect.Type]bool{}) {
				out = append(out, e.Name)
			}
		}
		return out
	}())

	rejectedLib := map[string]string{}
	defer func() {
		s.Extra("library_types_rejected_by_validator", rejectedLib)
		for n, e := range rejectedLib {
			t.Logf("WARNING: the validator refuses library type %s: %s", n, e)
		}
	}()

	run := func(f kit.Failer, c c43LibCase) {
		var T reflect.Type
		var verr error
		if c.Kind == "spec" {
			if c.Type >= len(libSpecs) || libSpecs[c.Type].Name != c.Name {
				f.Fatalf("harness: unknown library type %s", c.Name)
			}
			T = reflect.TypeOf(libSpecs[c.Type].Zero)
			verr = modeling.ValidateSpec(libSpecs[c.Type].Zero)
		} else {
			if c.Type >= len(libStates) || libStates[c.Type].Name != c.Name {
				f.Fatalf("harness: unknown library type %s", c.Name)
			}
			T = libStates[c.Type].Typ
			verr = modeling.ValidateState(reflect.Zero(T).Interface())
		}
		if verr != nil {
			// Not a C43 violation (refusing is always safe) and nothing to
			// round-trip - but a validator that refuses a type the library
			// itself builds breaks that component, so say it loudly (this is
			// what a too-strict fix of validate.go would trip).
			rejectedLib[c.Name] = verr.Error()
			s.Note(c, false, "rejected:"+c.Name)
			return
		}
		v := newFilled(T, replayStream(c.Stream), &fillOpts{skipCustom: true, hook: lruSetHook})
		out, data, stage, err := roundTripPlain(v)
		if err != nil {
			s.Fail(f, c, "accepted-roundtrip-error:"+stage, "%s: %s of %s failed: %v", c.Name, stage, render(v), err)
			return
		}
		if d := diffValues(v, out, "", false, nil, nil, &diffOpts{skipOpaque: true}); d != nil {
			s.Fail(f, c, classify(d)+":"+c.Name, "%s accepted; %s -> %s -> %s differs at %s (%s: %s)", c.Name, render(v), data, render(out), d.Path, d.Kind, d.Detail)
			return
		}
		var sh valueShape
		shapeOf(v, 0, &sh)
		s.Note(c, sh.NonZero >= 3 && sh.NonEmptyColl > 0, "kind:"+c.Kind, "type:"+c.Name)
	}

	var c c43LibCase
	if ok, err := kit.LoadReplay("C43", "library-types", &c); ok {
		if err != nil {
			t.Fatal(err)
		}
		run(t, c)
		return
	} else if kit.ReplayMode() {
		t.Skip()
	}
	kit.SetChecks(10_000, 50_000)
	rapid.Check(t, func(rt *rapid.T) {
		c := c43LibCase{Kind: rapid.SampledFrom([]string{"spec", "state", "state"}).Draw(rt, "kind")}
		var T reflect.Type
		if c.Kind == "spec" {
			c.Type = rapid.IntRange(0, len(libSpecs)-1).Draw(rt, "type")
			c.Name, T = libSpecs[c.Type].Name, reflect.TypeOf(libSpecs[c.Type].Zero)
		} else {
			c.Type = rapid.IntRange(0, len(libStates)-1).Draw(rt, "type")
			c.Name, T = libStates[c.Type].Name, libStates[c.Type].Typ
		}
		st := genStream(rt)
		newFilled(T, st, &fillOpts{skipCustom: true, hook: lruSetHook})
		c.Stream = st.rec
		run(rt, c)
	})
}
