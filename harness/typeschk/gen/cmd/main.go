// Command cmd rewrites typeschk/gentypes_test.go from the catalogue in package gen.
//
//	cd /verif/harness && go run ./typeschk/gen/cmd            # writes typeschk/gentypes_test.go
//	cd /verif/harness && go run ./typeschk/gen/cmd -o <file>
package main

import (
	"flag"
	"fmt"
	"os"

	"verif/harness/typeschk/gen"
)

func main() {
	out := flag.String("o", "typeschk/gentypes_test.go", "output file")
	flag.Parse()
	src := gen.Source()
	if err := os.WriteFile(*out, src, 0o644); err != nil {
		fmt.Fprintln(os.Stderr, err)
		os.Exit(1)
	}
	fmt.Printf("wrote %s (%d bytes, %d types)\n", *out, len(src), len(gen.Catalogue()))
}
