// Package gen emits the C43 type catalogue: Go source for a few hundred struct
// types that reflect.StructOf cannot build (unexported fields, embedded types
// with methods, custom JSON marshalers), plus a registry of them.
//
// The catalogue is a deterministic function of this file (no seed, no clock):
// `go run ./typeschk/gen/cmd` rewrites typeschk/gentypes_test.go, and
// TestC43CatalogueFresh compares the checked-in file with Source() so a stale
// file is noticed.
//
// Grammar
//
//	leaf   L<n>  = struct { fields } , fields drawn from the accepted leaf kinds
//	               visibility  E (exported only) | U (unexported only) | M (mixed)
//	               json        none | pair | marshalonly | ptrpair | lossypair | unmarshalonly
//	               (+ a few leaves holding a kind validate.go must refuse)
//	twin   l<n>  = unexported defined type with the field list of a method-less leaf
//	named  N<n>  = defined non-struct types (int / string) with the same json flavours
//	wrap   W<n>  = one of 18 wrappers around a leaf: nested, nested+sibling,
//	               unexported nested, embedded, embedded+sibling, embedded+shadowing
//	               sibling, []L, map[string]L, map[int]L, [2]L, *L, `json:"-"`,
//	               omitempty, duplicate json names, two embedded leaves, the
//	               map+nested+slice combination, embedded unexported twin (+sibling)
//	deep   D<n>  = wrappers around wrappers (slice of W, map of W, nested W)
//
// Custom marshalers write a DTO whose keys (x0,x1,…) differ from the default
// encoding of the type, so a half-applied pair (pointer-receiver MarshalJSON that
// json.Marshal(value) never calls, UnmarshalJSON without MarshalJSON) is visible
// as lost data rather than accidentally compatible.
package gen

import (
	"bytes"
	"fmt"
	"go/format"
	"strings"
)

type field struct {
	Name     string
	Type     string
	Tag      string
	Embedded bool
}

type typ struct {
	Name   string
	Fields []field
	Flavor string // json flavour for struct types
	Feats  []string
	// MustReject: state only in unexported fields, no usable custom JSON.
	MustReject bool
	// Path: how the harness drives the type. "plain": ValidateSpec/ValidateState +
	// encoding/json only; "state": also through Builder.Build and a component
	// checkpoint; "spec": additionally EventDrivenBuilder.Build and as a Spec.
	// Only a representative subset takes the component paths: every generic
	// Component instantiation costs about half a second of compile time.
	Path string
}

// leaf kinds validate.go documents as acceptable
var okKinds = []string{
	"bool", "int", "int8", "int64", "uint8", "uint32", "uint64", "float32", "float64", "string",
	"[]byte", "[]int", "[]string", "[]float64", "[3]uint8", "[2]string", "[0]int",
	"map[string]int", "map[uint64]bool", "map[int32]string", "map[string][]uint32", "map[int]float64",
	"time.Duration", "PlainLevel", "[][]int", "map[string]map[string]int",
}

// kinds validate.go documents as refused
var badKinds = []string{
	"*int", "any", "chan int", "func()", "map[bool]int", "map[float64]int", "map[int8]int",
	"complex128", "uintptr", "error", "[]*int", "map[string]any", "unsafe.Pointer", "map[[2]int]int",
}

type lcg struct{ s uint64 }

func (l *lcg) next(n int) int {
	l.s = l.s*6364136223846793005 + 1442695040888963407
	return int((l.s >> 33) % uint64(n))
}

var flavors = []string{"none", "pair", "marshalonly", "ptrpair", "lossypair", "unmarshalonly"}
var visibilities = []string{"E", "U", "M"}

func leafFields(vis string, variant int, r *lcg) []field {
	// field 0 is always named A/a and is an int so that shadowing wrappers have
	// something to shadow; the rest vary.
	n := 1 + variant%3
	if vis == "M" && n < 2 {
		n = 2
	}
	exported := make([]bool, n)
	switch vis {
	case "E":
		for i := range exported {
			exported[i] = true
		}
	case "U":
	case "M":
		// A exported, at least one unexported; position of the unexported field varies
		exported[0] = true
		for i := 1; i < n; i++ {
			exported[i] = r.next(2) == 0
		}
		hasU := false
		for i := 1; i < n; i++ {
			if !exported[i] {
				hasU = true
			}
		}
		if !hasU {
			exported[1+r.next(n-1)] = false
		}
	}
	names := []string{"A", "B", "C", "D"}
	fs := make([]field, n)
	for i := 0; i < n; i++ {
		nm := names[i]
		if !exported[i] {
			nm = strings.ToLower(nm)
		}
		t := "int"
		if i > 0 {
			t = okKinds[r.next(len(okKinds))]
		}
		fs[i] = field{Name: nm, Type: t}
	}
	return fs
}

// Catalogue builds the full list of types.
func Catalogue() []typ {
	r := &lcg{s: 43}
	var all []typ
	leafByKey := map[string][]int{} // vis/flavor -> indices in all

	// ---- leaves
	for _, vis := range visibilities {
		for _, fl := range flavors {
			for variant := 0; variant < 4; variant++ {
				t := typ{
					Name:   fmt.Sprintf("L%d", len(all)),
					Fields: leafFields(vis, variant, r),
					Flavor: fl,
					Feats:  []string{"leaf", "vis:" + vis, "json:" + fl},
					Path:   "plain",
				}
				if variant == 0 {
					t.Path = "state"
					if vis == "M" || fl == "none" || fl == "pair" {
						t.Path = "spec"
					}
				}
				if vis == "U" && (fl == "none" || fl == "marshalonly") {
					t.MustReject = true
				}
				leafByKey[vis+"/"+fl] = append(leafByKey[vis+"/"+fl], len(all))
				all = append(all, t)
			}
		}
	}
	// leaves with one refused kind: always as an exported field, and for every
	// other kind also as an unexported field or behind json:"-"
	for i, bk := range badKinds {
		variants := []string{"exported"}
		switch i % 3 {
		case 1:
			variants = append(variants, "unexported")
		case 2:
			variants = append(variants, "dash")
		}
		for _, vr := range variants {
			nm, tag := "B", ""
			switch vr {
			case "unexported":
				nm = "b"
			case "dash":
				tag = `json:"-"`
			}
			path := "plain"
			if i < 3 && vr == "exported" {
				path = "spec"
			}
			all = append(all, typ{
				Name:   fmt.Sprintf("L%d", len(all)),
				Fields: []field{{Name: "A", Type: "int"}, {Name: nm, Type: bk, Tag: tag}},
				Flavor: "none",
				Feats:  []string{"leaf", "vis:E", "json:none", "badkind:" + vr},
				Path:   path,
			})
		}
	}
	// leaves with json tags on accepted kinds
	tagShapes := [][]field{
		{{Name: "A", Type: "int", Tag: `json:"a"`}, {Name: "B", Type: "[]int", Tag: `json:"b,omitempty"`}},
		{{Name: "A", Type: "int"}, {Name: "B", Type: "map[string]int", Tag: `json:",omitempty"`}, {Name: "C", Type: "string", Tag: `json:"-"`}},
		{{Name: "A", Type: "int", Tag: `json:"x"`}, {Name: "B", Type: "string", Tag: `json:"x"`}},
		{{Name: "A", Type: "int"}, {Name: "B", Type: "string", Tag: `json:"A"`}},
		{{Name: "A", Type: "int", Tag: `json:"-,"`}, {Name: "B", Type: "[]byte", Tag: `json:"b,omitempty"`}},
		{{Name: "A", Type: "int"}, {Name: "b", Type: "string", Tag: `json:"-"`}},
		{{Name: "A", Type: "int", Tag: `json:"a"`}, {Name: "b", Type: "string", Tag: `json:"b"`}},
		{{Name: "A", Type: "uint64", Tag: `json:"a,omitempty"`}, {Name: "B", Type: "[]string", Tag: `json:"b,omitempty"`}, {Name: "C", Type: "float64", Tag: `json:"c,omitempty"`}},
	}
	for _, fs := range tagShapes {
		vis := "E"
		for _, f := range fs {
			if f.Name == strings.ToLower(f.Name) {
				vis = "M"
			}
		}
		all = append(all, typ{
			Name: fmt.Sprintf("L%d", len(all)), Fields: fs, Flavor: "none",
			Feats: []string{"leaf", "vis:" + vis, "json:none", "tags"}, Path: map[bool]string{true: "spec", false: "plain"}[len(all)%4 == 0],
		})
	}
	// leaves using the defined non-struct types with methods
	for _, n := range namedTypes {
		all = append(all, typ{
			Name:   fmt.Sprintf("L%d", len(all)),
			Fields: []field{{Name: "A", Type: "int"}, {Name: "V", Type: n.Name}, {Name: "Vs", Type: "[]" + n.Name}},
			Flavor: "none", Feats: []string{"leaf", "vis:E", "json:none", "named:" + n.Flavor + ":" + n.Base}, Path: "state",
		})
	}
	nLeaves := len(all)

	// ---- wrappers
	pick := func(vis, fl string, k int) typ {
		idx := leafByKey[vis+"/"+fl]
		return all[idx[k%len(idx)]]
	}
	type wrapper struct {
		name string
		mk   func(l, l2 typ) []field
		flat bool
	}
	wrappers := []wrapper{
		{"nested", func(l, _ typ) []field { return []field{{Name: "F", Type: l.Name}} }, false},
		{"nested+sibling", func(l, _ typ) []field { return []field{{Name: "F", Type: l.Name}, {Name: "N", Type: "int"}} }, false},
		{"unexported-nested+sibling", func(l, _ typ) []field { return []field{{Name: "f", Type: l.Name}, {Name: "N", Type: "int"}} }, false},
		{"embedded", func(l, _ typ) []field { return []field{{Name: l.Name, Type: l.Name, Embedded: true}} }, false},
		{"embedded+sibling", func(l, _ typ) []field {
			return []field{{Name: l.Name, Type: l.Name, Embedded: true}, {Name: "N", Type: "int"}}
		}, false},
		{"embedded+shadow", func(l, _ typ) []field {
			return []field{{Name: l.Name, Type: l.Name, Embedded: true}, {Name: "A", Type: "int"}}
		}, false},
		{"slice", func(l, _ typ) []field { return []field{{Name: "S", Type: "[]" + l.Name}} }, false},
		{"map-string", func(l, _ typ) []field { return []field{{Name: "M", Type: "map[string]" + l.Name}} }, false},
		{"map-int", func(l, _ typ) []field {
			return []field{{Name: "M", Type: "map[int]" + l.Name}, {Name: "N", Type: "int"}}
		}, false},
		{"array", func(l, _ typ) []field { return []field{{Name: "Arr", Type: "[2]" + l.Name}} }, false},
		{"pointer", func(l, _ typ) []field { return []field{{Name: "P", Type: "*" + l.Name}, {Name: "N", Type: "int"}} }, false},
		{"dash", func(l, _ typ) []field {
			return []field{{Name: "F", Type: l.Name, Tag: `json:"-"`}, {Name: "N", Type: "int"}}
		}, false},
		{"omitempty", func(l, _ typ) []field {
			return []field{{Name: "F", Type: l.Name, Tag: `json:"f,omitempty"`}, {Name: "S", Type: "[]" + l.Name, Tag: `json:"s,omitempty"`}, {Name: "N", Type: "int"}}
		}, false},
		{"dup-json-name", func(l, _ typ) []field {
			return []field{{Name: "X", Type: "int", Tag: `json:"n"`}, {Name: "Y", Type: "int", Tag: `json:"n"`}, {Name: "F", Type: l.Name}}
		}, false},
		{"two-embedded", func(l, l2 typ) []field {
			return []field{{Name: l.Name, Type: l.Name, Embedded: true}, {Name: l2.Name, Type: l2.Name, Embedded: true}}
		}, false},
		{"combo", func(l, _ typ) []field {
			return []field{{Name: "M", Type: "map[string]" + l.Name}, {Name: "F", Type: l.Name}, {Name: "S", Type: "[]" + l.Name}, {Name: "N", Type: "uint64"}, {Name: "Q", Type: "map[uint64][]" + l.Name}}
		}, false},
	}
	k := 0
	for _, vis := range visibilities {
		for _, fl := range flavors {
			for wi, w := range wrappers {
				l := pick(vis, fl, k+wi)
				l2 := pick("E", "none", k+wi+1)
				if w.name == "two-embedded" && l2.Name == l.Name {
					l2 = pick("E", "none", k+wi+2)
				}
				t := typ{
					Name:   fmt.Sprintf("W%d", len(all)),
					Fields: w.mk(l, l2),
					Flavor: "none",
					Feats:  []string{"wrap:" + w.name, "inner-vis:" + vis, "inner-json:" + fl},
					Path:   "plain",
				}
				// component path: every wrapper around a plain exported leaf, and
				// one wrapper (rotating) for each other leaf class
				if (vis == "E" && fl == "none") || wi == k%len(wrappers) {
					t.Path = "state"
				}
				if l.MustReject && w.name != "dash" && w.name != "pointer" {
					t.MustReject = true
				}
				all = append(all, t)
			}
			k++
		}
	}
	// unexported twins of method-less leaves, embedded
	for vi, vis := range visibilities {
		for v := 0; v < 2; v++ {
			l := pick(vis, "none", v)
			tw := "l" + strings.TrimPrefix(l.Name, "L") + fmt.Sprintf("t%d", v)
			all = append(all, typ{Name: tw, Fields: l.Fields, Flavor: "none", Feats: []string{"twin", "vis:" + vis, "json:none"}, Path: "plain"})
			fs := []field{{Name: tw, Type: tw, Embedded: true}}
			name := "embedded-unexported-type"
			if v == 1 {
				fs = append(fs, field{Name: "N", Type: "int"})
				name += "+sibling"
			}
			all = append(all, typ{
				Name: fmt.Sprintf("W%d", len(all)), Fields: fs, Flavor: "none",
				Feats: []string{"wrap:" + name, "inner-vis:" + vis, "inner-json:none"},
				// the twin with only unexported fields nested in another struct
				// keeps no serialisable state at all
				MustReject: vis == "U",
				Path:       map[bool]string{true: "state", false: "plain"}[v == 1],
			})
			_ = vi
		}
	}
	nWrapEnd := len(all)

	// ---- deep: wrappers around wrappers
	j := 0
	for i := nLeaves; i < nWrapEnd; i += 7 {
		w := all[i]
		if !strings.HasPrefix(w.Name, "W") {
			continue
		}
		var fs []field
		var name string
		switch j % 3 {
		case 0:
			fs, name = []field{{Name: "S", Type: "[]" + w.Name}, {Name: "N", Type: "int"}}, "slice-of-wrap"
		case 1:
			fs, name = []field{{Name: "M", Type: "map[uint64]" + w.Name}}, "map-of-wrap"
		default:
			fs, name = []field{{Name: "F", Type: w.Name}, {Name: "G", Type: "[1][]" + w.Name}}, "nested-wrap"
		}
		all = append(all, typ{
			Name: fmt.Sprintf("D%d", len(all)), Fields: fs, Flavor: "none",
			Feats:      append([]string{"deep:" + name}, w.Feats...),
			MustReject: w.MustReject,
			Path:       map[bool]string{true: "state", false: "plain"}[j%10 == 0],
		})
		j++
	}
	return all
}

type named struct {
	Name, Base, Flavor string
}

var namedTypes = []named{
	{"NIntPair", "int", "pair"},
	{"NIntMarshalOnly", "int", "marshalonly"},
	{"NIntPtrPair", "int", "ptrpair"},
	{"NStrPair", "string", "pair"},
	{"NStrUnmarshalOnly", "string", "unmarshalonly"},
}

func emitNamed(b *bytes.Buffer, n named) {
	fmt.Fprintf(b, "type %s %s\n\n", n.Name, n.Base)
	dto := fmt.Sprintf("struct{ X %s `json:\"x\"` }", n.Base)
	marshal := func(recv string) {
		deref := "v"
		if strings.HasPrefix(recv, "*") {
			deref = "*v"
		}
		fmt.Fprintf(b, "func (v %s%s) MarshalJSON() ([]byte, error) { return json.Marshal(%s{X: %s(%s)}) }\n", recv, n.Name, dto, n.Base, deref)
	}
	unmarshal := func() {
		fmt.Fprintf(b, "func (v *%s) UnmarshalJSON(b []byte) error { var d %s; if err := json.Unmarshal(b, &d); err != nil { return err }; *v = %s(d.X); return nil }\n", n.Name, dto, n.Name)
	}
	switch n.Flavor {
	case "pair":
		marshal("")
		unmarshal()
	case "marshalonly":
		marshal("")
	case "ptrpair":
		marshal("*")
		unmarshal()
	case "unmarshalonly":
		unmarshal()
	}
	b.WriteString("\n")
}

func emitType(b *bytes.Buffer, t typ) {
	fmt.Fprintf(b, "// %s: %s\n", t.Name, strings.Join(t.Feats, " "))
	fmt.Fprintf(b, "type %s struct {\n", t.Name)
	for _, f := range t.Fields {
		tag := ""
		if f.Tag != "" {
			tag = " `" + f.Tag + "`"
		}
		if f.Embedded {
			fmt.Fprintf(b, "\t%s%s\n", f.Type, tag)
		} else {
			fmt.Fprintf(b, "\t%s %s%s\n", f.Name, f.Type, tag)
		}
	}
	b.WriteString("}\n\n")
	if t.Flavor == "none" {
		return
	}
	dtoFields := t.Fields
	if t.Flavor == "lossypair" {
		dtoFields = dtoFields[:len(dtoFields)-1]
	}
	dto := strings.ToLower(t.Name[:1]) + t.Name[1:] + "DTO"
	fmt.Fprintf(b, "type %s struct {\n", dto)
	for i, f := range dtoFields {
		fmt.Fprintf(b, "\tX%d %s `json:\"x%d\"`\n", i, f.Type, i)
	}
	b.WriteString("}\n\n")
	marshal := func(recv string) {
		fmt.Fprintf(b, "func (v %s%s) MarshalJSON() ([]byte, error) {\n\treturn json.Marshal(%s{", recv, t.Name, dto)
		for i, f := range dtoFields {
			if i > 0 {
				b.WriteString(", ")
			}
			fmt.Fprintf(b, "X%d: v.%s", i, f.Name)
		}
		b.WriteString("})\n}\n\n")
	}
	unmarshal := func() {
		fmt.Fprintf(b, "func (v *%s) UnmarshalJSON(b []byte) error {\n\tvar d %s\n\tif err := json.Unmarshal(b, &d); err != nil {\n\t\treturn err\n\t}\n", t.Name, dto)
		for i, f := range dtoFields {
			fmt.Fprintf(b, "\tv.%s = d.X%d\n", f.Name, i)
		}
		b.WriteString("\treturn nil\n}\n\n")
	}
	switch t.Flavor {
	case "pair", "lossypair":
		marshal("")
		unmarshal()
	case "marshalonly":
		marshal("")
	case "ptrpair":
		marshal("*")
		unmarshal()
	case "unmarshalonly":
		unmarshal()
	}
}

// Source returns the generated file.
func Source() []byte {
	var b bytes.Buffer
	b.WriteString("// Code generated by verif/harness/typeschk/gen; DO NOT EDIT.\n")
	b.WriteString("// Regenerate: cd /verif/harness && go run ./typeschk/gen/cmd\n\n")
	b.WriteString("package typeschk\n\n")
	b.WriteString("import (\n\t\"encoding/json\"\n\t\"time\"\n\t\"unsafe\"\n)\n\n")
	b.WriteString("var _ = time.Second\nvar _ unsafe.Pointer\nvar _ = json.Marshal\n\n")
	b.WriteString("// PlainLevel is a defined integer type without methods.\ntype PlainLevel int\n\n")
	for _, n := range namedTypes {
		emitNamed(&b, n)
	}
	cat := Catalogue()
	for _, t := range cat {
		emitType(&b, t)
	}
	b.WriteString("// genRegistry lists every catalogue type (see c43_test.go for genEntry / mkGen).\n")
	b.WriteString("var genRegistry = []genEntry{\n")
	for _, t := range cat {
		feats := make([]string, len(t.Feats))
		for i, f := range t.Feats {
			feats[i] = fmt.Sprintf("%q", f)
		}
		fn := map[string]string{"plain": "mkPlain", "state": "mkGen", "spec": "mkGenSpec"}[t.Path]
		fmt.Fprintf(&b, "\t%s[%s](%q, %v, %s),\n", fn, t.Name, t.Name, t.MustReject, strings.Join(feats, ", "))
	}
	b.WriteString("}\n")
	out, err := format.Source(b.Bytes())
	if err != nil {
		panic(fmt.Sprintf("gen: generated source does not parse: %v\n%s", err, b.String()))
	}
	return out
}
