package typeschk

import (
	"fmt"
	"sort"
	"strings"
	"testing"
)

func TestSurvey(t *testing.T) {
	bySig := map[string][]string{}
	for _, e := range genRegistry {
		sig := ""
		msg := ""
		acc := false
		for p := 0; p < 4 && sig == ""; p++ {
			o := c43GenJudge(e, patternStream(p).rec)
			acc = o.Accepted
			if o.Harness != "" {
				sig = "HARNESS:" + o.Harness
			}
			if o.Sig != "" {
				sig = o.Sig
				msg = o.Msg
			}
		}
		if sig == "" {
			sig = fmt.Sprintf("ok(accepted=%v)", acc)
		}
		bySig[sig] = append(bySig[sig], e.Name+"["+strings.Join(e.Feats, " ")+"] "+msg)
	}
	keys := []string{}
	for k := range bySig {
		keys = append(keys, k)
	}
	sort.Strings(keys)
	for _, k := range keys {
		fmt.Printf("== %s: %d\n", k, len(bySig[k]))
		for i, n := range bySig[k] {
			if i < 6 || !strings.HasPrefix(k, "ok") && i < 400 {
				if len(n) > 330 {
					n = n[:330]
				}
				fmt.Printf("     %s\n", n)
			}
		}
	}
}
