package typeschk

// Shared machinery of the C43 / C08 value checks:
//
//   - stream: a recorded list of draws. In generation mode every draw comes from
//     rapid and is appended to the record; the record is stored in the Case, and
//     run() rebuilds the very same value from it (replay mode). A value is thus a
//     pure function of (type, []uint64), which keeps Cases plain data although
//     the values under test are exactly the ones whose JSON form is in question.
//   - fill: reflection-driven value builder over every kind, including
//     unexported fields (made settable through unsafe; the harness needs to put
//     data there to see whether it is lost).
//   - diffValues: a DeepEqual that reports *where* two values differ and what
//     kind of field that is, so failures get a signature naming the input class.

import (
	"encoding/json"
	"fmt"
	"math"
	"reflect"
	"strings"
	"unicode/utf8"
	"unsafe"

	"pgregory.net/rapid"
)

// ---------------------------------------------------------------- stream

type stream struct {
	rt  *rapid.T // nil in replay mode
	rec []uint64
	pos int
}

func genStream(rt *rapid.T) *stream     { return &stream{rt: rt} }
func replayStream(rec []uint64) *stream { return &stream{rec: rec} }

// n returns a number in [0,k).
func (s *stream) n(k uint64) uint64 {
	if k <= 1 {
		return 0
	}
	if s.rt != nil {
		v := rapid.Uint64Range(0, k-1).Draw(s.rt, "d")
		s.rec = append(s.rec, v)
		return v
	}
	if s.pos >= len(s.rec) {
		return 0
	}
	v := s.rec[s.pos] % k
	s.pos++
	return v
}

// raw returns 64 arbitrary bits (rapid biases them to small / boundary values).
func (s *stream) raw() uint64 {
	if s.rt != nil {
		v := rapid.Uint64().Draw(s.rt, "r")
		s.rec = append(s.rec, v)
		return v
	}
	if s.pos >= len(s.rec) {
		return 0
	}
	v := s.rec[s.pos]
	s.pos++
	return v
}

// ---------------------------------------------------------------- fill

// Runes used for strings: ASCII, JSON/HTML-special characters, NUL and other
// controls, U+2028/U+2029 (escaped by encoding/json), 2/3/4-byte sequences,
// U+FFFD itself (valid), DEL, the largest code point.
var runePool = []rune{'a', 'Z', '0', ' ', '"', '\\', '/', 0, '\n', '\t', 0x1f, 0x7f, '<', '>', '&', '\'', 0x2028, 0x2029,
	'é', 'ß', '日', '本', 0xFFFD, 0xFEFF, '😀', 0x10FFFF, '{', '}', '[', ']', ':', ',', 'n', 'u'}

type fillOpts struct {
	// invalidUTF8 makes string generation append invalid byte sequences (only
	// the labelled, non-asserting sub-check sets it).
	invalidUTF8 bool
	// maxLen bounds slice / map / string lengths.
	maxLen int
	// depth guard (types are finite, but keeps values small)
	depth int
	// skipCustom leaves struct types that customise their JSON *and* hide their
	// fields (library containers) at their zero value; they are driven through
	// their API elsewhere.
	skipCustom bool
	// hook lets a caller take over a type (return true when handled).
	hook func(v reflect.Value, s *stream) bool
	// steerOmitEmpty is asked, when an empty non-nil slice/map is about to be
	// put into a field tagged omitempty, whether to store nil instead (used
	// to steer around listed nil-vs-empty findings). path is the dotted field
	// path from the root.
	// fillDash: when set, fields tagged `json:"-"` are filled too unless the
	// function says the exclusion is a documented one. (C08: a value must come
	// back equal, so a field silently excluded from the encoding is lost data
	// unless the library documents the exclusion; C43 leaves it nil: there the
	// tag is the type author's explicit opt-out.)
	fillDash       func(owner reflect.Type, f reflect.StructField) (documentedExclusion bool)
	steerOmitEmpty func(path string) bool
	steered        int
	path           []string
	pendingOmit    bool
}

func settable(v reflect.Value) reflect.Value {
	if v.CanSet() {
		return v
	}
	if !v.CanAddr() {
		panic("harness: value not addressable: " + v.Type().String())
	}
	return reflect.NewAt(v.Type(), unsafe.Pointer(v.UnsafeAddr())).Elem()
}

func jsonTag(f reflect.StructField) (name string, opts string, dash bool) {
	tag, ok := f.Tag.Lookup("json")
	if !ok {
		return "", "", false
	}
	if tag == "-" {
		return "", "", true
	}
	name, opts, _ = strings.Cut(tag, ",")
	return name, opts, false
}

func hasOpt(opts, o string) bool {
	for _, x := range strings.Split(opts, ",") {
		if x == o {
			return true
		}
	}
	return false
}

var (
	marshalerT   = reflect.TypeOf((*json.Marshaler)(nil)).Elem()
	unmarshalerT = reflect.TypeOf((*json.Unmarshaler)(nil)).Elem()
)

func hasUnexportedField(t reflect.Type) bool {
	for i := 0; i < t.NumField(); i++ {
		if t.Field(i).PkgPath != "" && !t.Field(i).Anonymous {
			return true
		}
	}
	return false
}

// isOpaqueCustom: a struct that customises its JSON and keeps its state in
// unexported fields (queueing.Buffer, queueing.Pipeline, lruset.Set).
func isOpaqueCustom(t reflect.Type) bool {
	return t.Kind() == reflect.Struct && t.Implements(marshalerT) && hasUnexportedField(t)
}

func fillInt(s *stream, bits int) int64 {
	min := int64(-1) << (bits - 1)
	max := -(min + 1)
	switch s.n(8) {
	case 0:
		return 0
	case 1:
		return 1
	case 2:
		return -1
	case 3:
		return min
	case 4:
		return max
	case 5:
		return int64(s.n(1000))
	default:
		x := int64(s.raw())
		if bits < 64 {
			x = x << (64 - bits) >> (64 - bits)
		}
		return x
	}
}

func fillUint(s *stream, bits int) uint64 {
	max := ^uint64(0)
	if bits < 64 {
		max = (uint64(1) << bits) - 1
	}
	switch s.n(8) {
	case 0:
		return 0
	case 1:
		return 1
	case 2:
		return max
	case 3:
		return max - 1
	case 4:
		return (uint64(1)<<53 + 1) & max // not representable in a float64
	case 5:
		return s.n(1000) & max
	default:
		return s.raw() & max
	}
}

func fillFloat(s *stream, bits int) float64 {
	fix := func(f float64) float64 {
		if math.IsNaN(f) || math.IsInf(f, 0) {
			return 0.1 // JSON cannot carry NaN/Inf: the encoder errors (not silent)
		}
		return f
	}
	switch s.n(10) {
	case 0:
		return 0
	case 1:
		return math.Copysign(0, -1)
	case 2:
		return 1.5
	case 3:
		if bits == 32 {
			return math.MaxFloat32
		}
		return math.MaxFloat64
	case 4:
		if bits == 32 {
			return -math.SmallestNonzeroFloat32
		}
		return -math.SmallestNonzeroFloat64
	case 5:
		return 0.1
	case 6:
		return float64(uint64(1)<<53) + 2
	case 7:
		return 1e21 // switches the encoder to exponent form
	default:
		if bits == 32 {
			return fix(float64(math.Float32frombits(uint32(s.raw()))))
		}
		return fix(math.Float64frombits(s.raw()))
	}
}

func fillString(s *stream, o *fillOpts) string {
	n := int(s.n(uint64(o.maxLen + 2)))
	if n > o.maxLen { // a second chance for the empty string keeps "" frequent
		n = 0
	}
	var b strings.Builder
	for i := 0; i < n; i++ {
		b.WriteRune(runePool[s.n(uint64(len(runePool)))])
	}
	if o.invalidUTF8 {
		switch s.n(4) {
		case 0:
			b.WriteByte(0xff)
		case 1:
			b.WriteString("\xc3") // truncated 2-byte sequence
		case 2:
			b.WriteString("\xed\xa0\x80") // surrogate half
		}
	}
	return b.String()
}

func collLen(s *stream, o *fillOpts) (n int, isNil bool) {
	switch s.n(5) {
	case 0:
		return 0, true
	case 1:
		return 0, false
	default:
		return 1 + int(s.n(uint64(o.maxLen))), false
	}
}

// fill sets v (addressable) to a drawn value. Fields tagged `json:"-"` stay
// zero: that tag is the explicit, documented opt-out (memprotocol's Info).
func fill(v reflect.Value, s *stream, o *fillOpts) {
	v = settable(v)
	omit := o.pendingOmit
	o.pendingOmit = false
	steerEmpty := func() bool {
		if omit && o.steerOmitEmpty != nil && o.steerOmitEmpty(strings.Join(o.path, ".")) {
			o.steered++
			return true
		}
		return false
	}
	if o.hook != nil && o.hook(v, s) {
		return
	}
	t := v.Type()
	switch t.Kind() {
	case reflect.Bool:
		v.SetBool(s.n(2) == 1)
	case reflect.Int, reflect.Int8, reflect.Int16, reflect.Int32, reflect.Int64:
		v.SetInt(fillInt(s, t.Bits()))
	case reflect.Uint, reflect.Uint8, reflect.Uint16, reflect.Uint32, reflect.Uint64, reflect.Uintptr:
		v.SetUint(fillUint(s, t.Bits()))
	case reflect.Float32, reflect.Float64:
		v.SetFloat(fillFloat(s, t.Bits()))
	case reflect.Complex64, reflect.Complex128:
		v.SetComplex(complex(fillFloat(s, 64), 1))
	case reflect.String:
		v.SetString(fillString(s, o))
	case reflect.Slice:
		n, isNil := collLen(s, o)
		if isNil || (n == 0 && steerEmpty()) {
			v.SetZero()
			return
		}
		sl := reflect.MakeSlice(t, n, n)
		if t.Elem().Kind() == reflect.Uint8 {
			for i := 0; i < n; i++ {
				sl.Index(i).SetUint(s.raw() & 0xff)
			}
		} else if o.depth < 6 {
			o.depth++
			for i := 0; i < n; i++ {
				fill(sl.Index(i), s, o)
			}
			o.depth--
		}
		v.Set(sl)
	case reflect.Array:
		o.depth++
		for i := 0; i < t.Len(); i++ {
			fill(v.Index(i), s, o)
		}
		o.depth--
	case reflect.Map:
		n, isNil := collLen(s, o)
		if isNil || (n == 0 && steerEmpty()) {
			v.SetZero()
			return
		}
		m := reflect.MakeMapWithSize(t, n)
		if o.depth < 6 {
			o.depth++
			for i := 0; i < n; i++ {
				k := reflect.New(t.Key()).Elem()
				fill(k, s, o)
				e := reflect.New(t.Elem()).Elem()
				fill(e, s, o)
				m.SetMapIndex(k, e)
			}
			o.depth--
		}
		v.Set(m)
	case reflect.Struct:
		if o.skipCustom && isOpaqueCustom(t) {
			return
		}
		for i := 0; i < t.NumField(); i++ {
			_, opts, dash := jsonTag(t.Field(i))
			if dash && (o.fillDash == nil || o.fillDash(t, t.Field(i))) {
				continue
			}
			o.path = append(o.path, t.Field(i).Name)
			o.pendingOmit = hasOpt(opts, "omitempty")
			fill(v.Field(i), s, o)
			o.pendingOmit = false
			o.path = o.path[:len(o.path)-1]
		}
	case reflect.Ptr:
		if s.n(3) == 0 || o.depth >= 6 {
			v.SetZero()
			return
		}
		o.depth++
		p := reflect.New(t.Elem())
		fill(p.Elem(), s, o)
		o.depth--
		v.Set(p)
	case reflect.Interface:
		// only ever inside rejected types; a few concrete dynamic values
		if t.NumMethod() != 0 {
			return
		}
		switch s.n(4) {
		case 1:
			v.Set(reflect.ValueOf(fillString(s, o)))
		case 2:
			v.Set(reflect.ValueOf(int(fillInt(s, 64))))
		case 3:
			v.Set(reflect.ValueOf(fillUint(s, 64)))
		}
	default: // chan, func, unsafe pointer: zero
	}
}

// newFilled builds a fresh addressable value of type t.
func newFilled(t reflect.Type, s *stream, o *fillOpts) reflect.Value {
	v := reflect.New(t).Elem()
	if o.maxLen == 0 {
		o.maxLen = 3
	}
	fill(v, s, o)
	return v
}

// ---------------------------------------------------------------- diff

type vdiff struct {
	Path    string
	Kind    string // "nil-vs-empty", "len", "value", "type", "mapkeys", "custom-bytes"
	Detail  string
	Owner   reflect.Type // innermost struct type on the path (nil at top)
	Field   *reflect.StructField
	Parents []reflect.Type        // struct types from outermost to innermost
	Leaf    reflect.Type          // type of the value that differs
	Chain   []reflect.StructField // Chain[i] is the field of Parents[i] the path goes through
}

// toleratedOmitEmpty counts nil-vs-empty differences waived on omitempty fields.
var toleratedOmitEmpty int

type diffOpts struct {
	// opaqueByBytes compares opaque custom-JSON containers by their marshalled
	// form instead of field by field (used for library State values, where a
	// restored lruset.Set deliberately has a non-nil empty key map).
	opaqueByBytes bool
	// skipOpaque does not compare such containers at all.
	skipOpaque bool
	// noOmitEmptyWaiver reports nil-vs-empty even on omitempty fields (C08:
	// the statement says "equal value").
	noOmitEmptyWaiver bool
}

func addressableCopy(v reflect.Value) reflect.Value {
	c := reflect.New(v.Type()).Elem()
	c.Set(v)
	return c
}

func clean(v reflect.Value) reflect.Value {
	if v.CanInterface() {
		return v
	}
	if v.CanAddr() {
		return reflect.NewAt(v.Type(), unsafe.Pointer(v.UnsafeAddr())).Elem()
	}
	return v
}

// diffValues returns nil when a and b (same static type) are deeply equal.
// omitEmpty is true when the value sits in a struct field tagged omitempty: a
// nil and an empty slice/map are then the same JSON (the key is absent) and the
// difference cannot be told apart by any reader of the checkpoint.
func diffValues(a, b reflect.Value, path string, omitEmpty bool, parents []reflect.Type, fld *reflect.StructField, do *diffOpts) *vdiff {
	return diffValuesC(a, b, path, omitEmpty, parents, nil, fld, do)
}

func diffValuesC(a, b reflect.Value, path string, omitEmpty bool, parents []reflect.Type, chain []reflect.StructField, fld *reflect.StructField, do *diffOpts) *vdiff {
	mk := func(kind, detail string) *vdiff {
		var owner reflect.Type
		if len(parents) > 0 {
			owner = parents[len(parents)-1]
		}
		return &vdiff{Path: path, Kind: kind, Detail: detail, Owner: owner, Field: fld, Parents: append([]reflect.Type(nil), parents...), Leaf: a.Type(), Chain: append([]reflect.StructField(nil), chain...)}
	}
	if a.Type() != b.Type() {
		return mk("type", fmt.Sprintf("%s vs %s", a.Type(), b.Type()))
	}
	a, b = clean(a), clean(b)
	t := a.Type()
	switch t.Kind() {
	case reflect.Bool:
		if a.Bool() != b.Bool() {
			return mk("value", fmt.Sprintf("%v -> %v", a.Bool(), b.Bool()))
		}
	case reflect.Int, reflect.Int8, reflect.Int16, reflect.Int32, reflect.Int64:
		if a.Int() != b.Int() {
			return mk("value", fmt.Sprintf("%d -> %d", a.Int(), b.Int()))
		}
	case reflect.Uint, reflect.Uint8, reflect.Uint16, reflect.Uint32, reflect.Uint64, reflect.Uintptr:
		if a.Uint() != b.Uint() {
			return mk("value", fmt.Sprintf("%d -> %d", a.Uint(), b.Uint()))
		}
	case reflect.Float32, reflect.Float64:
		if a.Float() != b.Float() { // == as reflect.DeepEqual does (-0 equals +0)
			return mk("value", fmt.Sprintf("%v -> %v", a.Float(), b.Float()))
		}
	case reflect.Complex64, reflect.Complex128:
		if a.Complex() != b.Complex() {
			return mk("value", fmt.Sprintf("%v -> %v", a.Complex(), b.Complex()))
		}
	case reflect.String:
		if a.String() != b.String() {
			return mk("value", fmt.Sprintf("%q -> %q", a.String(), b.String()))
		}
	case reflect.Slice:
		if a.IsNil() != b.IsNil() {
			if a.Len() == 0 && b.Len() == 0 {
				if omitEmpty && !(do != nil && do.noOmitEmptyWaiver) {
					toleratedOmitEmpty++
					return nil
				}
				return mk("nil-vs-empty", fmt.Sprintf("nil=%v -> nil=%v", a.IsNil(), b.IsNil()))
			}
		}
		if a.Len() != b.Len() {
			return mk("len", fmt.Sprintf("len %d -> %d", a.Len(), b.Len()))
		}
		for i := 0; i < a.Len(); i++ {
			if d := diffValuesC(a.Index(i), b.Index(i), fmt.Sprintf("%s[%d]", path, i), false, parents, chain, fld, do); d != nil {
				return d
			}
		}
	case reflect.Array:
		if !a.CanAddr() {
			a = addressableCopy(a)
		}
		if !b.CanAddr() {
			b = addressableCopy(b)
		}
		for i := 0; i < t.Len(); i++ {
			if d := diffValuesC(a.Index(i), b.Index(i), fmt.Sprintf("%s[%d]", path, i), false, parents, chain, fld, do); d != nil {
				return d
			}
		}
	case reflect.Map:
		if a.IsNil() != b.IsNil() {
			if a.Len() == 0 && b.Len() == 0 {
				if omitEmpty && !(do != nil && do.noOmitEmptyWaiver) {
					toleratedOmitEmpty++
					return nil
				}
				return mk("nil-vs-empty", fmt.Sprintf("nil=%v -> nil=%v", a.IsNil(), b.IsNil()))
			}
		}
		if a.Len() != b.Len() {
			return mk("len", fmt.Sprintf("map len %d -> %d", a.Len(), b.Len()))
		}
		// order-independent: look every key of a up in b
		it := a.MapRange()
		for it.Next() {
			bv := b.MapIndex(it.Key())
			if !bv.IsValid() {
				return mk("mapkeys", fmt.Sprintf("key %v missing after the round trip", it.Key()))
			}
			if d := diffValuesC(addressableCopy(it.Value()), addressableCopy(bv), fmt.Sprintf("%s[%v]", path, it.Key()), false, parents, chain, fld, do); d != nil {
				return d
			}
		}
	case reflect.Struct:
		if do != nil && do.skipOpaque && isOpaqueCustom(t) {
			return nil
		}
		if do != nil && do.opaqueByBytes && isOpaqueCustom(t) {
			ab, e1 := json.Marshal(a.Interface())
			bb, e2 := json.Marshal(b.Interface())
			if e1 != nil || e2 != nil || string(ab) != string(bb) {
				return mk("custom-bytes", fmt.Sprintf("%s -> %s (%v %v)", ab, bb, e1, e2))
			}
			return nil
		}
		if !a.CanAddr() {
			a = addressableCopy(a)
		}
		if !b.CanAddr() {
			b = addressableCopy(b)
		}
		np := append(append([]reflect.Type(nil), parents...), t)
		for i := 0; i < t.NumField(); i++ {
			f := t.Field(i)
			_, opts, _ := jsonTag(f)
			if d := diffValuesC(a.Field(i), b.Field(i), path+"."+f.Name, hasOpt(opts, "omitempty"), np, append(append([]reflect.StructField(nil), chain...), f), &f, do); d != nil {
				return d
			}
		}
	case reflect.Ptr:
		if a.IsNil() != b.IsNil() {
			return mk("value", "nil pointer vs non-nil")
		}
		if !a.IsNil() {
			return diffValuesC(a.Elem(), b.Elem(), path+".*", false, parents, chain, fld, do)
		}
	case reflect.Interface:
		if a.IsNil() != b.IsNil() {
			return mk("value", "nil interface vs non-nil")
		}
		if !a.IsNil() {
			if a.Elem().Type() != b.Elem().Type() {
				return mk("type", fmt.Sprintf("dynamic type %s -> %s", a.Elem().Type(), b.Elem().Type()))
			}
			return diffValuesC(addressableCopy(a.Elem()), addressableCopy(b.Elem()), path+".(dyn)", false, parents, chain, fld, do)
		}
	default:
		// chan / func / unsafe pointer: only nil is ever generated
	}
	return nil
}

// diffTop compares two values of the same type held in interfaces.
func diffTop(a, b any, do *diffOpts) *vdiff {
	ta, tb := reflect.TypeOf(a), reflect.TypeOf(b)
	if ta != tb {
		return &vdiff{Path: "", Kind: "type", Detail: fmt.Sprintf("dynamic type %v -> %v", ta, tb)}
	}
	return diffValues(addressableCopy(reflect.ValueOf(a)), addressableCopy(reflect.ValueOf(b)), "", false, nil, nil, do)
}

// nonZeroLeaves counts leaves holding something other than the zero value
// (used for the non-triviality rules), plus whether nil and empty collections
// both occur.
type valueShape struct {
	NonZero, NilColl, EmptyColl, NonEmptyColl, NestedNonZero int
}

func shapeOf(v reflect.Value, depth int, sh *valueShape) {
	v = clean(v)
	switch v.Kind() {
	case reflect.Slice, reflect.Map:
		switch {
		case v.IsNil():
			sh.NilColl++
		case v.Len() == 0:
			sh.EmptyColl++
		default:
			sh.NonEmptyColl++
			sh.NonZero++
			if v.Kind() == reflect.Slice {
				for i := 0; i < v.Len(); i++ {
					shapeOf(v.Index(i), depth+1, sh)
				}
			} else {
				it := v.MapRange()
				for it.Next() {
					shapeOf(addressableCopy(it.Value()), depth+1, sh)
				}
			}
		}
	case reflect.Array:
		if !v.CanAddr() {
			v = addressableCopy(v)
		}
		for i := 0; i < v.Len(); i++ {
			shapeOf(v.Index(i), depth+1, sh)
		}
	case reflect.Struct:
		if !v.CanAddr() {
			v = addressableCopy(v)
		}
		for i := 0; i < v.NumField(); i++ {
			shapeOf(v.Field(i), depth+1, sh)
		}
	case reflect.Ptr, reflect.Interface:
		if !v.IsNil() {
			sh.NonZero++
		}
	case reflect.Chan, reflect.Func, reflect.UnsafePointer:
	default:
		if !v.IsZero() {
			sh.NonZero++
			if depth >= 2 {
				sh.NestedNonZero++
			}
		}
	}
}

// render prints a value including unexported fields (for failure messages).
func render(v reflect.Value) string {
	s := fmt.Sprintf("%+v", renderAny(v))
	if len(s) > 600 {
		s = s[:600] + "…"
	}
	return s
}

func renderAny(v reflect.Value) any {
	v = clean(v)
	switch v.Kind() {
	case reflect.Struct:
		if !v.CanAddr() {
			v = addressableCopy(v)
		}
		m := make([]string, 0, v.NumField())
		for i := 0; i < v.NumField(); i++ {
			m = append(m, fmt.Sprintf("%s:%v", v.Type().Field(i).Name, renderAny(v.Field(i))))
		}
		return "{" + strings.Join(m, " ") + "}"
	case reflect.Slice:
		if v.IsNil() {
			return "nil"
		}
		if v.Type().Elem().Kind() == reflect.Uint8 {
			return fmt.Sprintf("%x", v.Bytes())
		}
		out := []string{}
		for i := 0; i < v.Len(); i++ {
			out = append(out, fmt.Sprint(renderAny(v.Index(i))))
		}
		return "[" + strings.Join(out, " ") + "]"
	case reflect.Array:
		if !v.CanAddr() {
			v = addressableCopy(v)
		}
		out := []string{}
		for i := 0; i < v.Len(); i++ {
			out = append(out, fmt.Sprint(renderAny(v.Index(i))))
		}
		return "[" + strings.Join(out, " ") + "]"
	case reflect.Map:
		if v.IsNil() {
			return "nil"
		}
		out := []string{}
		for _, k := range v.MapKeys() {
			out = append(out, fmt.Sprintf("%v:%v", renderAny(k), renderAny(addressableCopy(v.MapIndex(k)))))
		}
		// order is irrelevant to any verdict; sort for stable messages
		sortStrings(out)
		return "map[" + strings.Join(out, " ") + "]"
	case reflect.String:
		return fmt.Sprintf("%q", v.String())
	case reflect.Ptr, reflect.Interface:
		if v.IsNil() {
			return "nil"
		}
		return renderAny(v.Elem())
	case reflect.Bool:
		return v.Bool()
	case reflect.Int, reflect.Int8, reflect.Int16, reflect.Int32, reflect.Int64:
		return v.Int()
	case reflect.Uint, reflect.Uint8, reflect.Uint16, reflect.Uint32, reflect.Uint64, reflect.Uintptr:
		return v.Uint()
	case reflect.Float32, reflect.Float64:
		return v.Float()
	}
	return "?"
}

func sortStrings(s []string) {
	for i := 1; i < len(s); i++ {
		for j := i; j > 0 && s[j] < s[j-1]; j-- {
			s[j], s[j-1] = s[j-1], s[j]
		}
	}
}

func validUTF8Deep(v reflect.Value) bool {
	ok := true
	var walk func(v reflect.Value)
	walk = func(v reflect.Value) {
		v = clean(v)
		switch v.Kind() {
		case reflect.String:
			if !utf8.ValidString(v.String()) {
				ok = false
			}
		case reflect.Struct:
			if !v.CanAddr() {
				v = addressableCopy(v)
			}
			for i := 0; i < v.NumField(); i++ {
				walk(v.Field(i))
			}
		case reflect.Slice, reflect.Array:
			if v.Kind() == reflect.Array && !v.CanAddr() {
				v = addressableCopy(v)
			}
			for i := 0; i < v.Len(); i++ {
				walk(v.Index(i))
			}
		case reflect.Map:
			it := v.MapRange()
			for it.Next() {
				walk(it.Key())
				walk(addressableCopy(it.Value()))
			}
		}
	}
	walk(v)
	return ok
}

// touch
