package typeschk

// The library's own component Spec / State types: every package under /repo
// (outside examples/ and tests) that calls modeling.NewBuilder. The one
// omission is mem/acceptancetests/pagemigration, whose migSpec/migState are
// unexported.

import (
	"bytes"
	"fmt"
	"reflect"

	"github.com/sarchlab/akita/v5/mem/acceptancetests/memaccessagent"
	"github.com/sarchlab/akita/v5/mem/cache/writeback"
	"github.com/sarchlab/akita/v5/mem/cache/writethroughcache"
	"github.com/sarchlab/akita/v5/mem/datamover"
	"github.com/sarchlab/akita/v5/mem/dram"
	"github.com/sarchlab/akita/v5/mem/idealmemcontroller"
	"github.com/sarchlab/akita/v5/mem/rob"
	"github.com/sarchlab/akita/v5/mem/simplebankedmemory"
	"github.com/sarchlab/akita/v5/mem/vm/addresstranslator"
	"github.com/sarchlab/akita/v5/mem/vm/gmmu"
	"github.com/sarchlab/akita/v5/mem/vm/mmu"
	"github.com/sarchlab/akita/v5/mem/vm/mmuCache"
	"github.com/sarchlab/akita/v5/mem/vm/tlb"
	"github.com/sarchlab/akita/v5/modeling"
	"github.com/sarchlab/akita/v5/noc/directconnection"
	"github.com/sarchlab/akita/v5/noc/networking/switching/endpoint"
	"github.com/sarchlab/akita/v5/noc/networking/switching/switches"
	"github.com/sarchlab/akita/v5/timing"
)

type libEntry struct {
	Name string
	Typ  reflect.Type
	// RT: State through Builder.Build + SaveCheckpoint/LoadCheckpoint; also
	// returns the checkpoint and the checkpoint re-saved by the restored component.
	RT func(v any) (out any, saved, resaved []byte, err error)
}

func mkLib[T any](name string) libEntry {
	var zero T
	build := func() *modeling.Component[modeling.None, T, modeling.None] {
		return modeling.NewBuilder[modeling.None, T, modeling.None]().
			WithEngine(timing.NewSerialEngine()).WithFreq(1 * timing.GHz).Build("LibComp")
	}
	return libEntry{Name: name, Typ: reflect.TypeOf(zero), RT: func(v any) (any, []byte, []byte, error) {
		c1 := build()
		c1.State = v.(T)
		var b1 bytes.Buffer
		if err := c1.SaveCheckpoint(&b1); err != nil {
			return nil, nil, nil, fmt.Errorf("save: %w", err)
		}
		saved := append([]byte(nil), b1.Bytes()...)
		c2 := build()
		if err := c2.LoadCheckpoint(bytes.NewReader(saved)); err != nil {
			return nil, saved, nil, fmt.Errorf("load: %w", err)
		}
		var b2 bytes.Buffer
		if err := c2.SaveCheckpoint(&b2); err != nil {
			return nil, saved, nil, fmt.Errorf("re-save: %w", err)
		}
		return c2.State, saved, b2.Bytes(), nil
	}}
}

var libStates = []libEntry{
	mkLib[writeback.State]("writeback.State"),
	mkLib[writethroughcache.State]("writethroughcache.State"),
	mkLib[datamover.State]("datamover.State"),
	mkLib[dram.State]("dram.State"),
	mkLib[idealmemcontroller.State]("idealmemcontroller.State"),
	mkLib[rob.State]("rob.State"),
	mkLib[simplebankedmemory.State]("simplebankedmemory.State"),
	mkLib[addresstranslator.State]("addresstranslator.State"),
	mkLib[gmmu.State]("gmmu.State"),
	mkLib[mmu.State]("mmu.State"),
	mkLib[mmuCache.State]("mmuCache.State"),
	mkLib[tlb.State]("tlb.State"),
	mkLib[memaccessagent.State]("memaccessagent.State"),
	mkLib[directconnection.State]("directconnection.State"),
	mkLib[endpoint.State]("endpoint.State"),
	mkLib[switches.State]("switches.State"),
}

type libSpec struct {
	Name string
	Zero any
}

var libSpecs = []libSpec{
	{"writeback.Spec", writeback.Spec{}},
	{"writethroughcache.Spec", writethroughcache.Spec{}},
	{"datamover.Spec", datamover.Spec{}},
	{"dram.Spec", dram.Spec{}},
	{"idealmemcontroller.Spec", idealmemcontroller.Spec{}},
	{"rob.Spec", rob.Spec{}},
	{"simplebankedmemory.Spec", simplebankedmemory.Spec{}},
	{"addresstranslator.Spec", addresstranslator.Spec{}},
	{"gmmu.Spec", gmmu.Spec{}},
	{"mmu.Spec", mmu.Spec{}},
	{"mmuCache.Spec", mmuCache.Spec{}},
	{"tlb.Spec", tlb.Spec{}},
	{"memaccessagent.Spec", memaccessagent.Spec{}},
	{"directconnection.Spec", directconnection.Spec{}},
	{"endpoint.Spec", endpoint.Spec{}},
	{"switches.Spec", switches.Spec{}},
}
