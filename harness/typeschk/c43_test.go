package typeschk

// C43 — Spec/State validation admits only losslessly serializable types.
//
// Reading of the statement used by every sub-check ("lossless"):
//
//	For a type T that construction accepts (modeling.ValidateSpec/ValidateState
//	return nil; Builder.Build / EventDrivenBuilder.Build do not panic) and any
//	value v of T inside JSON's domain (valid UTF-8 strings, finite floats),
//	v' = decode(encode(v)) into a fresh zero T — the exact path
//	Component.SaveCheckpoint/LoadCheckpoint takes: json.Marshal(State) then
//	json.Unmarshal into `var state T` — is reflect.DeepEqual to v, where
//	  * fields tagged `json:"-"` are generated as zero: the tag is the
//	    documented explicit opt-out (memprotocol's Info), not a silent loss;
//	  * nil slice/map -> null -> nil and empty -> []/{} -> empty are required
//	    to stay what they were; nil and empty may only be confused on a field
//	    tagged `omitempty`, where both produce the same bytes (the key is
//	    absent) so no reader of the checkpoint can tell them apart;
//	  * unexported fields count as data: the statement names "structs whose
//	    state is only in unexported fields" as the thing to refuse, so state
//	    put in an unexported field that does not come back is lost data.
//	A rejected type is never a violation (refusing more than necessary is safe).
//	A marshal/unmarshal *error* on an accepted type is reported too (the value
//	did not round-trip) but under its own signature: it is loud, not silent.

import (
	"bytes"
	"encoding/json"
	"fmt"
	"os"
	"reflect"
	"strings"
	"testing"
	"time"
	"unsafe"

	"github.com/sarchlab/akita/v5/modeling"
	"github.com/sarchlab/akita/v5/timing"
	"pgregory.net/rapid"

	"verif/harness/kit"
	"verif/harness/typeschk/gen"
)

// ------------------------------------------------------------ catalogue entries

type genEntry struct {
	Name       string
	MustReject bool
	Feats      []string
	Typ        reflect.Type
	// Build paths (real constructors). ok=false: Build panicked with the
	// documented "cannot be checkpointed" message; other panics are returned
	// as odd!=""
	BuildState   func() (ok bool, odd string)
	BuildStateED func() (ok bool, odd string) // event-driven builder (leaves only)
	BuildSpec    func(v any) (ok bool, odd string)
	// RTState: put v into a built component's State, SaveCheckpoint, build a
	// second component, LoadCheckpoint, return its State.
	RTState func(v any) (any, error)
	// SpecLoad: checkpoint of a component with Spec a loaded into one with Spec b.
	SpecLoad func(a, b any) error
}

type plainState struct {
	N int
}

func guardBuild(fn func()) (ok bool, odd string) {
	done, _, msg := kit.Guard(fn)
	if done {
		return true, ""
	}
	if strings.Contains(msg, "cannot be checkpointed") {
		return false, ""
	}
	return false, msg
}

// mkPlain: catalogue type driven through ValidateSpec/ValidateState and
// encoding/json only (no generic Component instantiation: each one costs
// about half a second of compile time, so only a representative subset of the
// catalogue takes the real Build/checkpoint path; on that subset the two
// paths are asserted to agree).
func mkPlain[T any](name string, mustReject bool, feats ...string) genEntry {
	var zero T
	return genEntry{Name: name, MustReject: mustReject, Feats: feats, Typ: reflect.TypeOf(zero)}
}

func mkGen[T any](name string, mustReject bool, feats ...string) genEntry {
	e := mkPlain[T](name, mustReject, feats...)
	build := func() *modeling.Component[modeling.None, T, modeling.None] {
		return modeling.NewBuilder[modeling.None, T, modeling.None]().
			WithEngine(timing.NewSerialEngine()).WithFreq(1 * timing.GHz).Build("GenComp")
	}
	e.BuildState = func() (bool, string) { return guardBuild(func() { build() }) }
	e.RTState = func(v any) (any, error) {
		c1 := build()
		c1.State = v.(T)
		var buf bytes.Buffer
		if err := c1.SaveCheckpoint(&buf); err != nil {
			return nil, fmt.Errorf("save: %w", err)
		}
		c2 := build()
		if err := c2.LoadCheckpoint(&buf); err != nil {
			return nil, fmt.Errorf("load: %w", err)
		}
		return c2.State, nil
	}
	return e
}

func mkGenSpec[T any](name string, mustReject bool, feats ...string) genEntry {
	e := mkGen[T](name, mustReject, feats...)
	e.BuildStateED = func() (bool, string) {
		return guardBuild(func() {
			modeling.NewEventDrivenBuilder[modeling.None, T, modeling.None]().
				WithEngine(timing.NewSerialEngine()).Build("GenComp")
		})
	}
	buildSpec := func(v any) *modeling.Component[T, plainState, modeling.None] {
		return modeling.NewBuilder[T, plainState, modeling.None]().
			WithEngine(timing.NewSerialEngine()).WithFreq(1 * timing.GHz).WithSpec(v.(T)).Build("GenComp")
	}
	e.BuildSpec = func(v any) (bool, string) { return guardBuild(func() { buildSpec(v) }) }
	e.SpecLoad = func(a, b any) error {
		c1 := buildSpec(a)
		var buf bytes.Buffer
		if err := c1.SaveCheckpoint(&buf); err != nil {
			return err
		}
		return buildSpec(b).LoadCheckpoint(&buf)
	}
	return e
}

// ------------------------------------------------------------ classification

// customJSONClass says how a struct type customises its JSON ("" = not at all).
func customJSONClass(t reflect.Type) string {
	if t.Kind() != reflect.Struct {
		return ""
	}
	valM := t.Implements(marshalerT)
	ptrM := reflect.PointerTo(t).Implements(marshalerT)
	ptrU := reflect.PointerTo(t).Implements(unmarshalerT)
	if !ptrM && !ptrU {
		return ""
	}
	// promoted from an embedded field? (catalogue wrappers never declare
	// methods themselves, library types never embed a marshaler)
	if t.NumField() > 1 {
		for i := 0; i < t.NumField(); i++ {
			f := t.Field(i)
			if !f.Anonymous {
				continue
			}
			ft := f.Type
			if ft.Kind() == reflect.Ptr {
				ft = ft.Elem()
			}
			if reflect.PointerTo(ft).Implements(marshalerT) || reflect.PointerTo(ft).Implements(unmarshalerT) {
				return "embedded-custom-json-promoted"
			}
		}
	}
	switch {
	case valM && ptrU:
		return "custom-json-pair"
	case valM:
		return "marshaljson-without-unmarshaljson"
	case ptrM && ptrU:
		return "ptr-receiver-marshaljson"
	case ptrM:
		return "ptr-receiver-marshaljson-without-unmarshaljson"
	default:
		return "unmarshaljson-without-marshaljson"
	}
}

func namedCustomClass(t reflect.Type) string {
	if t.Kind() == reflect.Struct || t.PkgPath() == "" {
		return ""
	}
	valM := t.Implements(marshalerT)
	ptrM := reflect.PointerTo(t).Implements(marshalerT)
	ptrU := reflect.PointerTo(t).Implements(unmarshalerT)
	switch {
	case !ptrM && !ptrU:
		return ""
	case valM && ptrU:
		return "named-nonstruct-custom-json-pair"
	case valM:
		return "named-nonstruct-marshaljson-without-unmarshaljson"
	case ptrM && ptrU:
		return "named-nonstruct-ptr-receiver-marshaljson"
	case ptrM:
		return "named-nonstruct-ptr-receiver-marshaljson-without-unmarshaljson"
	default:
		return "named-nonstruct-unmarshaljson-without-marshaljson"
	}
}

// jsonNames lists (JSON name, depth) of the fields encoding/json would
// consider for struct t, flattening untagged embedded structs as it does.
func jsonNames(t reflect.Type, depth int, out map[string][]int, seen map[reflect.Type]bool) {
	if seen[t] {
		return
	}
	seen[t] = true
	for i := 0; i < t.NumField(); i++ {
		f := t.Field(i)
		name, _, dash := jsonTag(f)
		if dash {
			continue
		}
		if f.Anonymous {
			ft := f.Type
			if ft.Kind() == reflect.Ptr {
				ft = ft.Elem()
			}
			if f.PkgPath != "" && ft.Kind() != reflect.Struct {
				continue
			}
			if name == "" && ft.Kind() == reflect.Struct && customJSONClass(ft) == "" {
				jsonNames(ft, depth+1, out, seen)
				continue
			}
		} else if f.PkgPath != "" {
			continue
		}
		if name == "" {
			name = f.Name
		}
		out[name] = append(out[name], depth)
	}
}

func hasJSONNameConflict(t reflect.Type) bool {
	names := map[string][]int{}
	jsonNames(t, 0, names, map[reflect.Type]bool{})
	for _, d := range names {
		if len(d) > 1 {
			return true
		}
	}
	return false
}

func serialisableFieldCount(t reflect.Type) int {
	names := map[string][]int{}
	jsonNames(t, 0, names, map[reflect.Type]bool{})
	return len(names)
}

// classify turns the location of a difference into a signature naming the
// class of type that lost the data.
func classify(d *vdiff) string {
	for _, p := range d.Parents { // outermost custom JSON governs everything below it
		if c := customJSONClass(p); c != "" {
			if c == "custom-json-pair" {
				return "custom-json-pair-loses-data"
			}
			return c + "-accepted"
		}
	}
	if d.Leaf != nil {
		if c := namedCustomClass(d.Leaf); c != "" {
			return c + "-accepted"
		}
	}
	for i, f := range d.Chain {
		if f.PkgPath != "" && !f.Anonymous {
			// the path goes through an unexported field of a struct that
			// does not customise its JSON: encoding/json never writes it
			if serialisableFieldCount(d.Parents[i]) > 0 {
				return "mixed-exported-unexported-accepted"
			}
			return "unexported-only-accepted"
		}
	}
	for _, p := range d.Parents {
		if hasJSONNameConflict(p) {
			return "json-name-conflict-accepted"
		}
	}
	kind := "?"
	if d.Leaf != nil {
		kind = d.Leaf.Kind().String()
	}
	if d.Kind == "nil-vs-empty" {
		return "nil-vs-empty:" + kind
	}
	return "value-altered:" + kind
}

// firstHalfCustom names the first type inside t (through fields encoding/json
// would look at) whose JSON customisation is not a value-receiver MarshalJSON
// + UnmarshalJSON pair; "none" when there is no such type. Used to label
// round-trip *errors* of accepted types by the class of type causing them.
func firstHalfCustom(t reflect.Type, seen map[reflect.Type]bool) string {
	if seen[t] {
		return "none"
	}
	seen[t] = true
	if c := namedCustomClass(t); c != "" {
		if c == "named-nonstruct-custom-json-pair" {
			return "none"
		}
		return c
	}
	switch t.Kind() {
	case reflect.Struct:
		if c := customJSONClass(t); c != "" {
			if c == "custom-json-pair" {
				return "none"
			}
			return c
		}
		for i := 0; i < t.NumField(); i++ {
			f := t.Field(i)
			if _, _, dash := jsonTag(f); dash || (f.PkgPath != "" && !f.Anonymous) {
				continue
			}
			if c := firstHalfCustom(f.Type, seen); c != "none" {
				return c
			}
		}
	case reflect.Slice, reflect.Array, reflect.Ptr, reflect.Map:
		return firstHalfCustom(t.Elem(), seen)
	}
	return "none"
}

// refusedKind reports a documented-refused kind inside t (fields tagged
// `json:"-"` are skipped by validate.go and by encoding/json alike; types
// that customise their JSON are trusted by validate.go and not descended).
func refusedKind(t reflect.Type, nestedStructsRefused bool, top bool, seen map[reflect.Type]bool) string {
	switch t.Kind() {
	case reflect.Ptr, reflect.Interface, reflect.Chan, reflect.Func:
		return t.Kind().String()
	case reflect.Slice, reflect.Array:
		return refusedKind(t.Elem(), nestedStructsRefused, false, seen)
	case reflect.Map:
		return refusedKind(t.Elem(), nestedStructsRefused, false, seen)
	case reflect.Struct:
		if !top && nestedStructsRefused {
			return "nested-struct-in-spec"
		}
		if seen[t] {
			return ""
		}
		seen[t] = true
		if t.Implements(marshalerT) {
			return ""
		}
		for i := 0; i < t.NumField(); i++ {
			if _, _, dash := jsonTag(t.Field(i)); dash {
				continue
			}
			if k := refusedKind(t.Field(i).Type, nestedStructsRefused, false, seen); k != "" {
				return k
			}
		}
	}
	return ""
}

// roundTripPlain is the checkpoint's JSON path without a component around it:
// json.Marshal of the value held in an interface (not addressable — exactly
// like `json.Marshal(c.State)`), json.Unmarshal into a fresh zero value.
func roundTripPlain(v reflect.Value) (out reflect.Value, data []byte, stage string, err error) {
	ok, _, msg := kit.Guard(func() { data, err = json.Marshal(v.Interface()) })
	if !ok {
		return out, nil, "marshal-panic", fmt.Errorf("%s", msg)
	}
	if err != nil {
		return out, nil, "marshal", err
	}
	p := reflect.New(v.Type())
	ok, _, msg = kit.Guard(func() { err = json.Unmarshal(data, p.Interface()) })
	if !ok {
		return out, data, "unmarshal-panic", fmt.Errorf("%s", msg)
	}
	if err != nil {
		return out, data, "unmarshal", err
	}
	return p.Elem(), data, "", nil
}

func typeFeatures(t reflect.Type) (hasMap, hasNested, hasSliceOfStruct, hasSlice bool) {
	seen := map[reflect.Type]bool{}
	var walk func(t reflect.Type, top bool)
	walk = func(t reflect.Type, top bool) {
		switch t.Kind() {
		case reflect.Map:
			hasMap = true
			walk(t.Elem(), false)
		case reflect.Slice:
			hasSlice = true
			if t.Elem().Kind() == reflect.Struct {
				hasSliceOfStruct = true
			}
			walk(t.Elem(), false)
		case reflect.Array, reflect.Ptr:
			walk(t.Elem(), false)
		case reflect.Struct:
			if !top {
				hasNested = true
			}
			if seen[t] {
				return
			}
			seen[t] = true
			for i := 0; i < t.NumField(); i++ {
				walk(t.Field(i).Type, false)
			}
		}
	}
	walk(t, true)
	return
}

// ------------------------------------------------------------ (a) reflect.StructOf types

type fdesc struct {
	Name string `json:"name"`
	Tag  string `json:"tag,omitempty"`
	Anon bool   `json:"anon,omitempty"`
	T    tdesc  `json:"t"`
}

type tdesc struct {
	K      string  `json:"k"`
	N      int     `json:"n,omitempty"`
	Key    *tdesc  `json:"key,omitempty"`
	Elem   *tdesc  `json:"elem,omitempty"`
	Fields []fdesc `json:"fields,omitempty"`
}

var primTypes = map[string]reflect.Type{
	"bool": reflect.TypeOf(false), "int": reflect.TypeOf(int(0)), "int8": reflect.TypeOf(int8(0)),
	"int16": reflect.TypeOf(int16(0)), "int32": reflect.TypeOf(int32(0)), "int64": reflect.TypeOf(int64(0)),
	"uint": reflect.TypeOf(uint(0)), "uint8": reflect.TypeOf(uint8(0)), "uint16": reflect.TypeOf(uint16(0)),
	"uint32": reflect.TypeOf(uint32(0)), "uint64": reflect.TypeOf(uint64(0)),
	"float32": reflect.TypeOf(float32(0)), "float64": reflect.TypeOf(float64(0)), "string": reflect.TypeOf(""),
	"duration": reflect.TypeOf(time.Duration(0)), "vtime": reflect.TypeOf(timing.VTimeInPicoSec(0)),
	// refused kinds
	"complex128": reflect.TypeOf(complex128(0)), "uintptr": reflect.TypeOf(uintptr(0)),
	"iface": reflect.TypeOf((*any)(nil)).Elem(), "error": reflect.TypeOf((*error)(nil)).Elem(),
	"chan": reflect.TypeOf((chan int)(nil)), "func": reflect.TypeOf((func())(nil)),
	"unsafeptr": reflect.TypeOf(unsafe.Pointer(nil)),
}

var okPrims = []string{"bool", "int", "int8", "int16", "int32", "int64", "uint", "uint8", "uint16", "uint32", "uint64",
	"float32", "float64", "string", "string", "duration", "vtime"}
var badPrims = []string{"complex128", "uintptr", "iface", "error", "chan", "func", "unsafeptr"}
var okKeys = []string{"string", "string", "string", "int", "uint64", "int32", "uint32", "int64", "uint", "vtime", "duration"}
var badKeys = []string{"int8", "int16", "uint8", "uint16", "bool", "float64", "arraykey"}

func buildType(d tdesc) reflect.Type {
	if t, ok := primTypes[d.K]; ok {
		return t
	}
	switch d.K {
	case "arraykey":
		return reflect.TypeOf([2]int{})
	case "slice":
		return reflect.SliceOf(buildType(*d.Elem))
	case "array":
		return reflect.ArrayOf(d.N, buildType(*d.Elem))
	case "ptr":
		return reflect.PointerTo(buildType(*d.Elem))
	case "map":
		return reflect.MapOf(buildType(*d.Key), buildType(*d.Elem))
	case "struct":
		fs := make([]reflect.StructField, len(d.Fields))
		for i, f := range d.Fields {
			fs[i] = reflect.StructField{Name: f.Name, Type: buildType(f.T), Tag: reflect.StructTag(f.Tag), Anonymous: f.Anon}
		}
		return reflect.StructOf(fs)
	}
	panic("harness: unknown type descriptor kind " + d.K)
}

var tagNames = []string{"a", "b", "A", "B", "n", "x_y", "é"}

func genTag(rt *rapid.T) string {
	switch rapid.IntRange(0, 19).Draw(rt, "tag") {
	case 0, 1, 2, 3:
		return `json:"` + rapid.SampledFrom(tagNames).Draw(rt, "tn") + `"`
	case 4, 5:
		return `json:"-"`
	case 6, 7:
		return `json:"` + rapid.SampledFrom(tagNames).Draw(rt, "tn") + `,omitempty"`
	case 8, 9:
		return `json:",omitempty"`
	case 10:
		return `json:"-,"`
	default:
		return ""
	}
}

func genTDesc(rt *rapid.T, depth int, spec, allowBad bool) tdesc {
	k := rapid.IntRange(0, 99).Draw(rt, "kind")
	if depth >= 3 && k >= 42 && k < 92 {
		k = 0
	}
	switch {
	case k < 42:
		return tdesc{K: rapid.SampledFrom(okPrims).Draw(rt, "prim")}
	case k < 58:
		e := genTDesc(rt, depth+1, spec, allowBad)
		return tdesc{K: "slice", Elem: &e}
	case k < 63:
		e := genTDesc(rt, depth+1, spec, allowBad)
		return tdesc{K: "array", N: rapid.IntRange(0, 3).Draw(rt, "alen"), Elem: &e}
	case k < 77:
		key := tdesc{K: rapid.SampledFrom(okKeys).Draw(rt, "key")}
		if allowBad && rapid.IntRange(0, 5).Draw(rt, "badkey") == 0 {
			key = tdesc{K: rapid.SampledFrom(badKeys).Draw(rt, "bkey")}
		}
		e := genTDesc(rt, depth+1, spec, allowBad)
		return tdesc{K: "map", Key: &key, Elem: &e}
	case k < 92:
		if spec && !allowBad { // nested structs are refused in a Spec
			return tdesc{K: rapid.SampledFrom(okPrims).Draw(rt, "prim")}
		}
		return genStructDesc(rt, depth+1, spec, allowBad)
	default:
		if !allowBad {
			return tdesc{K: rapid.SampledFrom(okPrims).Draw(rt, "prim")}
		}
		if rapid.IntRange(0, 3).Draw(rt, "ptr") == 0 {
			e := genTDesc(rt, depth+1, spec, allowBad)
			return tdesc{K: "ptr", Elem: &e}
		}
		return tdesc{K: rapid.SampledFrom(badPrims).Draw(rt, "bad")}
	}
}

func genStructDesc(rt *rapid.T, depth int, spec, allowBad bool) tdesc {
	n := rapid.IntRange(0, 4).Draw(rt, "nfields")
	if depth == 0 {
		n = rapid.IntRange(1, 6).Draw(rt, "ntop")
	}
	d := tdesc{K: "struct"}
	for i := 0; i < n; i++ {
		f := fdesc{Name: string(rune('A' + i)), T: genTDesc(rt, depth, spec, allowBad), Tag: genTag(rt)}
		if f.T.K == "struct" && rapid.IntRange(0, 2).Draw(rt, "anon") == 0 {
			f.Anon = true
		}
		d.Fields = append(d.Fields, f)
	}
	return d
}

// uniquifyJSONNames removes every JSON name conflict by construction: each
// field of each struct gets its own tag name and embedding is dropped.
func uniquifyJSONNames(d *tdesc, ctr *int) {
	switch d.K {
	case "struct":
		for i := range d.Fields {
			f := &d.Fields[i]
			f.Anon = false
			_, opts, dash := jsonTag(reflect.StructField{Tag: reflect.StructTag(f.Tag)})
			if !dash {
				*ctr++
				f.Tag = fmt.Sprintf(`json:"f%d"`, *ctr)
				if hasOpt(opts, "omitempty") {
					f.Tag = fmt.Sprintf(`json:"f%d,omitempty"`, *ctr)
				}
			}
			uniquifyJSONNames(&f.T, ctr)
		}
	case "slice", "array", "ptr":
		uniquifyJSONNames(d.Elem, ctr)
	case "map":
		uniquifyJSONNames(d.Elem, ctr)
	}
}

func anyConflict(t reflect.Type, seen map[reflect.Type]bool) bool {
	switch t.Kind() {
	case reflect.Struct:
		if seen[t] {
			return false
		}
		seen[t] = true
		if hasJSONNameConflict(t) {
			return true
		}
		for i := 0; i < t.NumField(); i++ {
			if _, _, dash := jsonTag(t.Field(i)); dash {
				continue
			}
			if anyConflict(t.Field(i).Type, seen) {
				return true
			}
		}
	case reflect.Slice, reflect.Array, reflect.Ptr, reflect.Map:
		return anyConflict(t.Elem(), seen)
	}
	return false
}

type c43StructOfCase struct {
	Mode   string   `json:"mode"` // "spec" | "state"
	Type   tdesc    `json:"type"`
	Stream []uint64 `json:"stream"`
}

func validateMode(mode string, v any) error {
	if mode == "spec" {
		return modeling.ValidateSpec(v)
	}
	return modeling.ValidateState(v)
}

func TestC43StructOf(t *testing.T) {
	s := kit.Begin(t, "C43", "structof",
		"type = reflect.StructOf tree (depth<=3, 1-5 exported fields per struct; kinds: all primitives, time.Duration, timing.VTimeInPicoSec, slices, arrays len 0-3, maps over every key kind, nested and embedded structs; half of the cases may also contain refused kinds: pointer, interface, chan, func, complex, uintptr, unsafe.Pointer, non-integer map keys; json tags none|name (7-name pool, so duplicates happen)|-|name,omitempty|,omitempty|'-,'); mode spec|state; value by reflection from a recorded draw stream (nil/empty/1-3 element collections, boundary ints, finite floats, valid UTF-8 strings with quotes/NUL/<>&/U+2028/4-byte runes). Oracle: accepted => decode(encode(v)) deeply equal to v (see file header), acceptance independent of the value, documented refusals (pointer/interface/chan/func, nested struct in a Spec) really refused. Non-trivial: accepted, a non-zero leaf below a slice/map/array/nested struct")
	defer s.End()
	s.Assume("encoding/json is the checkpoint codec (component_checkpoint.go: json.Marshal(c.State) / json.Unmarshal into a zero T); StructOf types stand for source-declared types with exported fields only")

	conflictKnown := false
	if _, ok := s.IsKnown("json-name-conflict-accepted"); ok {
		conflictKnown = true
	}

	run := func(f kit.Failer, c c43StructOfCase) {
		var T reflect.Type
		if ok, _, msg := kit.Guard(func() { T = buildType(c.Type) }); !ok {
			f.Fatalf("harness: reflect.StructOf refused a generated descriptor: %s", msg)
		}
		zero := reflect.Zero(T).Interface()
		var verr error
		if ok, sig, msg := kit.Guard(func() { verr = validateMode(c.Mode, zero) }); !ok {
			s.Fail(f, c, sig, "Validate panicked on %s: %s", T, msg)
			return
		}
		accepted := verr == nil
		v := newFilled(T, replayStream(c.Stream), &fillOpts{})
		// acceptance is a property of the type
		var verr2 error
		if ok, sig, msg := kit.Guard(func() { verr2 = validateMode(c.Mode, v.Interface()) }); !ok {
			s.Fail(f, c, sig, "Validate panicked on a value of %s: %s", T, msg)
			return
		}
		if (verr2 == nil) != accepted {
			s.Fail(f, c, "validate-depends-on-value", "%s: zero value -> %v, value %s -> %v", T, verr, render(v), verr2)
			return
		}
		if k := refusedKind(T, c.Mode == "spec", true, map[reflect.Type]bool{}); k != "" && accepted {
			s.Fail(f, c, "documented-refusal-accepted:"+k, "Validate(%s) accepted %s although it contains a %s", c.Mode, T, k)
			return
		}
		hasMap, hasNested, hasSoS, hasSlice := typeFeatures(T)
		classes := []string{"mode:" + c.Mode}
		if hasMap {
			classes = append(classes, "has-map")
		}
		if hasNested {
			classes = append(classes, "has-nested")
		}
		if hasSoS {
			classes = append(classes, "has-slice-of-struct")
		}
		if hasMap && hasNested && hasSoS {
			classes = append(classes, "map+nested+slice-of-struct")
		}
		var sh valueShape
		shapeOf(v, 0, &sh)
		if sh.NilColl > 0 && sh.EmptyColl > 0 {
			classes = append(classes, "nil-and-empty-collections")
		}

		out, data, stage, err := roundTripPlain(v)
		if !accepted {
			cl := "rejected:round-trips-anyway"
			if err != nil {
				cl = "rejected:cannot-" + stage
			} else if diffValues(v, out, "", false, nil, nil, nil) != nil {
				cl = "rejected:lossy"
			}
			s.Note(c, false, append(classes, "rejected", cl)...)
			return
		}
		if err != nil {
			s.Fail(f, c, "accepted-roundtrip-error:"+stage, "Validate(%s) accepted %s but %s failed for %s: %v", c.Mode, T, stage, render(v), err)
			return
		}
		tol0 := toleratedOmitEmpty
		if d := diffValues(v, out, "", false, nil, nil, nil); d != nil {
			s.Fail(f, c, classify(d), "Validate(%s) accepted %s; value %s -> JSON %s -> %s; differs at %s (%s: %s)",
				c.Mode, T, render(v), data, render(out), d.Path, d.Kind, d.Detail)
			return
		}
		if toleratedOmitEmpty != tol0 {
			classes = append(classes, "omitempty-nil-empty-waived")
		} else if !reflect.DeepEqual(v.Interface(), out.Interface()) {
			f.Fatalf("harness: diffValues found nothing but reflect.DeepEqual disagrees for %s: %s vs %s", T, render(v), render(out))
		}
		again, err := json.Marshal(out.Interface())
		if err != nil || !bytes.Equal(again, data) {
			s.Fail(f, c, "reencode-differs", "%s: first encoding %s, encoding of the decoded value %s (%v)", T, data, again, err)
			return
		}
		composite := hasMap || hasNested || hasSlice
		s.Note(c, sh.NonZero > 0 && composite && sh.NestedNonZero > 0, append(classes, "accepted")...)
	}

	var c c43StructOfCase
	if ok, err := kit.LoadReplay("C43", "structof", &c); ok {
		if err != nil {
			t.Fatal(err)
		}
		run(t, c)
		return
	} else if kit.ReplayMode() {
		t.Skip()
	}

	kit.SetChecks(60_000, 300_000)
	rapid.Check(t, func(rt *rapid.T) {
		c := c43StructOfCase{Mode: rapid.SampledFrom([]string{"state", "state", "spec"}).Draw(rt, "mode")}
		allowBad := rapid.IntRange(0, 2).Draw(rt, "allowBad") == 0
		c.Type = genStructDesc(rt, 0, c.Mode == "spec", allowBad)
		T := buildType(c.Type)
		if conflictKnown && anyConflict(T, map[reflect.Type]bool{}) {
			// listed finding: duplicate JSON names. Steer by construction.
			n := 0
			uniquifyJSONNames(&c.Type, &n)
			T = buildType(c.Type)
			s.Excluded(1)
		}
		st := genStream(rt)
		newFilled(T, st, &fillOpts{})
		c.Stream = st.rec
		run(rt, c)
	})
}

// ------------------------------------------------------------ (b) generated source types

type c43GenCase struct {
	Index  int      `json:"index"`
	Name   string   `json:"name"`
	Stream []uint64 `json:"stream"`
}

// canonical draw patterns used to probe each catalogue type once, so that
// types falling into a *listed* finding class can be steered around.
func patternStream(p int) *stream {
	rec := make([]uint64, 4096)
	for i := range rec {
		switch p {
		case 0:
			rec[i] = ^uint64(0) - 1 // n(k) = (2^64-2)%k : large choices
		case 1:
			rec[i] = 2
		case 2:
			rec[i] = 3
		default:
			rec[i] = uint64(5 + i%7)
		}
	}
	return replayStream(rec)
}

type c43GenOutcome struct {
	Accepted bool
	Sig      string // "" = held
	Msg      string
	Harness  string // harness-level problem (not a verdict)
	Classes  []string
	NonTriv  bool
}

// c43GenJudge runs the whole oracle for one catalogue type and one value.
func c43GenJudge(e genEntry, rec []uint64) (o c43GenOutcome) {
	T := e.Typ
	zero := reflect.Zero(T).Interface()
	verr := modeling.ValidateState(zero)
	okB := verr == nil
	if e.BuildState != nil {
		var odd string
		okB, odd = e.BuildState()
		if odd != "" {
			return c43GenOutcome{Sig: "build-panics-otherwise", Msg: odd}
		}
		if okB != (verr == nil) {
			return c43GenOutcome{Sig: "build-validate-disagree", Msg: fmt.Sprintf("%s: Build accepted=%v, ValidateState=%v", e.Name, okB, verr)}
		}
		o.Classes = append(o.Classes, "path:component")
	} else {
		o.Classes = append(o.Classes, "path:plain-json")
	}
	if e.BuildStateED != nil {
		okED, odd := e.BuildStateED()
		if odd != "" {
			return c43GenOutcome{Sig: "build-panics-otherwise", Msg: odd}
		}
		if okED != okB {
			return c43GenOutcome{Sig: "builders-disagree", Msg: fmt.Sprintf("%s: Builder accepted=%v, EventDrivenBuilder accepted=%v", e.Name, okB, okED)}
		}
	}
	o.Accepted = okB
	o.Classes = append(o.Classes, e.Feats...)
	if e.RTState == nil {
		e.RTState = func(v any) (any, error) {
			out, _, stage, err := roundTripPlain(reflect.ValueOf(v))
			if err != nil {
				return nil, fmt.Errorf("%s: %w", stage, err)
			}
			return out.Interface(), nil
		}
	}
	v := newFilled(T, replayStream(rec), &fillOpts{})
	var sh valueShape
	shapeOf(v, 0, &sh)

	if k := refusedKind(T, false, true, map[reflect.Type]bool{}); k != "" && okB {
		return c43GenOutcome{Accepted: true, Sig: "documented-refusal-accepted:" + k,
			Msg: fmt.Sprintf("Build/ValidateState accept %s although it contains a %s (validate.go: \"Pointers, interfaces, channels, and functions are not allowed\")", e.Name, k)}
	}
	if e.MustReject && okB {
		return c43GenOutcome{Accepted: true, Sig: "unexported-only-accepted",
			Msg: fmt.Sprintf("%s keeps its state only in unexported fields and has no usable custom JSON, yet Build/ValidateState accept it", e.Name)}
	}

	// --- as State
	if okB {
		o.Classes = append(o.Classes, "state:accepted")
		var out any
		var rerr error
		if ok, sig, msg := kit.Guard(func() { out, rerr = e.RTState(v.Interface()) }); !ok {
			return c43GenOutcome{Accepted: true, Sig: sig, Msg: msg}
		}
		if rerr != nil {
			cls := firstHalfCustom(T, map[reflect.Type]bool{})
			return c43GenOutcome{Accepted: true, Sig: "accepted-roundtrip-error:" + cls,
				Msg: fmt.Sprintf("Build accepted State type %s but the component checkpoint round trip of %s failed: %v", e.Name, render(v), rerr)}
		}
		if d := diffTop(v.Interface(), out, nil); d != nil {
			data, _ := json.Marshal(v.Interface())
			return c43GenOutcome{Accepted: true, Sig: classify(d),
				Msg: fmt.Sprintf("Build accepted State type %s; State %s -> checkpoint state %s -> %s; differs at %s (%s: %s)",
					e.Name, render(v), data, render(reflect.ValueOf(out)), d.Path, d.Kind, d.Detail)}
		}
		// the component path and the plain JSON path are the same path
		pv, _, stage, perr := roundTripPlain(v)
		if perr != nil || diffTop(pv.Interface(), out, nil) != nil {
			o.Harness = fmt.Sprintf("component round trip and plain json round trip disagree for %s (%s %v)", e.Name, stage, perr)
			return
		}
	} else {
		pv, _, stage, perr := roundTripPlain(v)
		switch {
		case perr != nil:
			o.Classes = append(o.Classes, "state:rejected:cannot-"+stage)
		case diffTop(v.Interface(), pv.Interface(), nil) != nil:
			o.Classes = append(o.Classes, "state:rejected:lossy")
		default:
			o.Classes = append(o.Classes, "state:rejected:round-trips-anyway")
		}
	}

	// --- as Spec (flat catalogue types only)
	if e.BuildSpec != nil {
		okS, odd := e.BuildSpec(v.Interface())
		if odd != "" {
			return c43GenOutcome{Sig: "build-panics-otherwise", Msg: odd}
		}
		serr := modeling.ValidateSpec(zero)
		if okS != (serr == nil) {
			return c43GenOutcome{Sig: "build-validate-disagree", Msg: fmt.Sprintf("%s as Spec: Build accepted=%v, ValidateSpec(zero)=%v", e.Name, okS, serr)}
		}
		if okS {
			o.Classes = append(o.Classes, "spec:accepted")
			pv, data, stage, perr := roundTripPlain(v)
			if perr != nil {
				return c43GenOutcome{Accepted: true, Sig: "accepted-roundtrip-error:spec:" + stage,
					Msg: fmt.Sprintf("Build accepted Spec type %s but %s of %s failed: %v", e.Name, stage, render(v), perr)}
			}
			if d := diffTop(v.Interface(), pv.Interface(), nil); d != nil {
				return c43GenOutcome{Accepted: true, Sig: classify(d),
					Msg: fmt.Sprintf("Build accepted Spec type %s; Spec %s -> JSON %s -> %s; differs at %s (%s: %s)",
						e.Name, render(v), data, render(pv), d.Path, d.Kind, d.Detail)}
			}
		} else {
			o.Classes = append(o.Classes, "spec:rejected")
		}
	}
	hasMap, hasNested, hasSoS, _ := typeFeatures(T)
	if hasMap && hasNested && hasSoS && okB {
		o.Classes = append(o.Classes, "accepted:map+nested+slice-of-struct")
	}
	o.NonTriv = okB && sh.NonZero > 0 && (sh.NonEmptyColl > 0 || hasNested)
	return o
}

func gcd(a, b int) int {
	for b != 0 {
		a, b = b, a%b
	}
	return a
}

func TestC43Generated(t *testing.T) {
	s := kit.Begin(t, "C43", "generated",
		"type = one of the checked-in catalogue types emitted by typeschk/gen (leaves: exported-only / unexported-only / mixed fields x {no custom JSON, correct Marshal+Unmarshal pair, MarshalJSON only, pointer-receiver MarshalJSON, pair that drops a field, UnmarshalJSON only}; refused kinds; json tags incl. duplicates; defined int/string types with the same marshaler flavours; 16 wrappers (nested, unexported nested, embedded, embedded+sibling, embedded+shadowing sibling, slice, map[string], map[int], array, pointer, json:\"-\", omitempty, duplicate json names, two embedded, map+nested+slice combination) + embedded unexported twins + wrappers of wrappers); value = reflection fill of ALL fields incl. unexported ones from a recorded draw stream. Real path: Builder.Build / EventDrivenBuilder.Build accept or panic; accepted State goes Component.SaveCheckpoint -> LoadCheckpoint into a second built component; Spec through Build + the same JSON. Oracle as in the file header; Build and Validate* must agree. Types that a canonical probe value shows to fall in a *listed* finding class are replaced (excluded_known). Non-trivial: accepted type, non-zero value, with a non-empty collection or a nested struct")
	defer s.End()

	// the checked-in catalogue must be what the generator produces
	cur, err := os.ReadFile("gentypes_test.go")
	if err != nil {
		t.Fatalf("harness: cannot read gentypes_test.go: %v", err)
	}
	if !bytes.Equal(cur, gen.Source()) {
		t.Fatalf("harness: gentypes_test.go is stale; run `cd /verif/harness && go run ./typeschk/gen/cmd`")
	}
	if len(gen.Catalogue()) != len(genRegistry) {
		t.Fatalf("harness: registry has %d entries, catalogue %d", len(genRegistry), len(gen.Catalogue()))
	}
	s.Extra("catalogue_types", len(genRegistry))

	// probe every type with canonical values: which listed finding class (if any) is it in?
	steer := make([]string, len(genRegistry))
	var clean []int
	accepted := 0
	for i, e := range genRegistry {
		for p := 0; p < 4 && steer[i] == ""; p++ {
			o := c43GenJudge(e, patternStream(p).rec)
			if p == 0 && o.Accepted {
				accepted++
			}
			if o.Sig != "" {
				if _, known := s.IsKnown(o.Sig); known {
					steer[i] = o.Sig
				}
			}
		}
		if steer[i] == "" {
			clean = append(clean, i)
		}
	}
	s.Extra("catalogue_types_accepted", accepted)
	s.Extra("catalogue_types_in_listed_finding_classes", len(genRegistry)-len(clean))

	run := func(f kit.Failer, c c43GenCase) {
		if c.Index < 0 || c.Index >= len(genRegistry) || genRegistry[c.Index].Name != c.Name {
			f.Fatalf("harness: case names catalogue type %d/%s which is not in this catalogue", c.Index, c.Name)
		}
		e := genRegistry[c.Index]
		o := c43GenJudge(e, c.Stream)
		if o.Harness != "" {
			f.Fatalf("harness: %s", o.Harness)
		}
		if o.Sig != "" {
			s.Fail(f, c, o.Sig, "%s [%s]", o.Msg, strings.Join(e.Feats, " "))
			return
		}
		s.Note(c, o.NonTriv, o.Classes...)
	}

	var c c43GenCase
	if ok, err := kit.LoadReplay("C43", "generated", &c); ok {
		if err != nil {
			t.Fatal(err)
		}
		run(t, c)
		return
	} else if kit.ReplayMode() {
		t.Skip()
	}

	kit.SetChecks(100_000, 400_000)
	rapid.Check(t, func(rt *rapid.T) {
		// rapid favours small numbers; spread them over the catalogue (which is
		// ordered leaves, wrappers, deep) with a multiplier coprime to its size
		idx := rapid.IntRange(0, len(genRegistry)-1).Draw(rt, "type")
		for _, k := range []int{200, 211, 223, 227} {
			if gcd(k, len(genRegistry)) == 1 {
				idx = (idx * k) % len(genRegistry)
				break
			}
		}
		if steer[idx] != "" {
			s.Excluded(1)
			// replace by the next type outside every listed class
			idx = clean[(idx*7919)%len(clean)]
		}
		c := c43GenCase{Index: idx, Name: genRegistry[idx].Name}
		st := genStream(rt)
		newFilled(genRegistry[idx].Typ, st, &fillOpts{})
		c.Stream = st.rec
		run(rt, c)
	})
}
