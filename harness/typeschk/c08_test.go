package typeschk

// C08 (value level) — runtime values survive serialization unchanged.
//
// Sub-checks (all test names start with TestC08Values; the component-state
// "states reached by workloads" part of C08 lives in another package):
//
//	TestC08ValuesMessages            every message type of every library protocol through a real port checkpoint
//	TestC08ValuesMessagesInvalidUTF8 labelled, NON-ASSERTING: strings JSON cannot carry
//	TestC08ValuesEvents              the registered event types through a SerialEngine checkpoint
//	TestC08ValuesContainers          queueing.Buffer / queueing.Pipeline / lruset.Set inside a component State
//	TestC08ValuesLibState            reflection-generated values of every library component's State type
//
// Oracle everywhere: the decoded value has the identical dynamic type and is
// reflect.DeepEqual to the original (no nil/empty waiver here: the statement
// says "equal value"; a nil-vs-empty divergence gets its own signature so it
// can be triaged on how the field is consumed), and re-encoding the restored
// object yields byte-identical checkpoint data.

import (
	"bytes"
	"encoding/json"
	"fmt"
	"io"
	"reflect"
	"sort"
	"strings"
	"testing"

	"github.com/sarchlab/akita/v5/hooking"
	"github.com/sarchlab/akita/v5/mem/datamoverprotocol"
	"github.com/sarchlab/akita/v5/mem/memcontrolprotocol"
	"github.com/sarchlab/akita/v5/mem/memprotocol"
	"github.com/sarchlab/akita/v5/mem/vm/lruset"
	"github.com/sarchlab/akita/v5/mem/vm/vmprotocol"
	"github.com/sarchlab/akita/v5/messaging"
	"github.com/sarchlab/akita/v5/modeling"
	"github.com/sarchlab/akita/v5/noc/acceptance"
	"github.com/sarchlab/akita/v5/noc/packetization"
	"github.com/sarchlab/akita/v5/queueing"
	"github.com/sarchlab/akita/v5/timing"
	"pgregory.net/rapid"

	"verif/harness/kit"
)

// documentedDash: the only fields the library documents as excluded from a
// checkpoint are memprotocol's Info ("The Info field on these messages is
// tagged json:\"-\" and is not checkpointed", mem/memprotocol/protocol.go).
// Every other field is expected to come back, whatever its tag says.
func documentedDash(owner reflect.Type, f reflect.StructField) bool {
	return f.Name == "Info" && strings.HasSuffix(owner.PkgPath(), "/mem/memprotocol")
}

type checkpointable interface {
	SaveCheckpoint(w io.Writer) error
	LoadCheckpoint(r io.Reader) error
}

// ------------------------------------------------------------ messages

// c08Protocols is every library protocol (grep DefineProtocol in /repo, non-test,
// non-example). The message types are taken from Protocol.Messages(), so a type
// added to one of these protocols is covered without touching this file.
var c08Protocols = []*messaging.Protocol{
	memprotocol.Protocol,
	memcontrolprotocol.Protocol,
	vmprotocol.Protocol,
	datamoverprotocol.Protocol,
	packetization.Protocol,
	acceptance.Protocol,
}

type c08MsgType struct {
	Name string
	Typ  reflect.Type
}

func c08MsgTypes() []c08MsgType {
	var out []c08MsgType
	seen := map[reflect.Type]bool{}
	for _, p := range c08Protocols {
		for _, m := range p.Messages() {
			t := reflect.TypeOf(m)
			if seen[t] {
				continue
			}
			seen[t] = true
			out = append(out, c08MsgType{Name: t.String(), Typ: t})
		}
	}
	return out
}

type stubConn struct {
	hooking.HookableBase
}

func (c *stubConn) Name() string                        { return "StubConn" }
func (c *stubConn) PlugIn(port messaging.Port)          {}
func (c *stubConn) Unplug(port messaging.Port)          {}
func (c *stubConn) NotifyAvailable(port messaging.Port) {}
func (c *stubConn) NotifySend()                         {}

type stubComp struct {
	hooking.HookableBase
	*messaging.PortOwnerBase
}

func (c *stubComp) Name() string                       { return "StubComp" }
func (c *stubComp) NotifyRecv(port messaging.Port)     {}
func (c *stubComp) NotifyPortFree(port messaging.Port) {}

func newStubPort(name string, in, out int) messaging.Port {
	p := messaging.NewPort(&stubComp{PortOwnerBase: messaging.NewPortOwnerBase()}, in, out, name)
	p.SetConnection(&stubConn{})
	return p
}

type c08MsgVal struct {
	Type   int      `json:"type"`
	Name   string   `json:"name"`
	Stream []uint64 `json:"stream"`
}

type c08MsgCase struct {
	Port     string      `json:"port"`
	InCap    int         `json:"in_cap"`
	OutCap   int         `json:"out_cap"`
	Incoming []c08MsgVal `json:"incoming"`
	Outgoing []c08MsgVal `json:"outgoing"`
}

var c08PortNames = []string{"Comp.Port", "GPU[1].L1V[3].TopPort", "p", "端口\"<&>"}

// buildMsg rebuilds a message from its recorded draws. Outgoing messages must
// satisfy Send's documented preconditions (Src is the sending port, Dst is set
// and differs), so those two fields are overwritten for them.
func buildMsg(types []c08MsgType, mv c08MsgVal, st *stream, o *fillOpts, outgoingFrom string) (messaging.Msg, reflect.Value) {
	v := newFilled(types[mv.Type].Typ, st, o)
	if outgoingFrom != "" {
		meta := v.FieldByName("MsgMeta")
		meta.FieldByName("Src").SetString(outgoingFrom)
		dst := meta.FieldByName("Dst")
		if dst.String() == "" || dst.String() == outgoingFrom {
			dst.SetString(outgoingFrom + ".peer")
		}
	}
	return v.Interface().(messaging.Msg), v
}

func fieldOfPath(path string) string {
	// ".MsgMeta.Src" -> "MsgMeta.Src"; indices are dropped
	p := strings.TrimPrefix(path, ".")
	var b strings.Builder
	depth := 0
	for _, r := range p {
		switch {
		case r == '[':
			depth++
		case r == ']':
			depth--
		case depth == 0:
			b.WriteRune(r)
		}
	}
	return b.String()
}

func msgDiffSig(prefix string, typeName string, d *vdiff) string {
	kind := "altered"
	if d.Kind == "nil-vs-empty" {
		kind = "nil-vs-empty"
	}
	if d.Kind == "type" {
		return prefix + "-dynamic-type-changed:" + typeName
	}
	return prefix + "-" + kind + ":" + typeName + "." + fieldOfPath(d.Path)
}

// c08PortRoundTrip drives the real path. It returns the restored messages.
type c08PortResult struct {
	Sig, Msg string
	In, Out  []messaging.Msg
	Bytes    []byte
}

func c08PortRoundTrip(c c08MsgCase, in, out []messaging.Msg, compareBytes bool) (r c08PortResult) {
	ok, sig, msg := kit.Guard(func() {
		p1 := newStubPort(c.Port, c.InCap, c.OutCap)
		for _, m := range in {
			if !p1.CanDeliver() {
				r.Sig, r.Msg = "harness", "generated more incoming messages than the port holds"
				return
			}
			p1.Deliver(m)
		}
		for _, m := range out {
			if !p1.CanSend() {
				r.Sig, r.Msg = "harness", "generated more outgoing messages than the port holds"
				return
			}
			p1.Send(m)
		}
		var b1 bytes.Buffer
		if err := p1.(checkpointable).SaveCheckpoint(&b1); err != nil {
			r.Sig, r.Msg = "port-save-error", err.Error()
			return
		}
		r.Bytes = append([]byte(nil), b1.Bytes()...)
		p2 := newStubPort(c.Port, c.InCap, c.OutCap)
		if err := p2.(checkpointable).LoadCheckpoint(bytes.NewReader(r.Bytes)); err != nil {
			r.Sig, r.Msg = "port-load-error", err.Error()
			return
		}
		var b2 bytes.Buffer
		if err := p2.(checkpointable).SaveCheckpoint(&b2); err != nil {
			r.Sig, r.Msg = "port-resave-error", err.Error()
			return
		}
		if compareBytes && !bytes.Equal(b2.Bytes(), r.Bytes) {
			r.Sig, r.Msg = "port-reencode-differs", fmt.Sprintf("first checkpoint %s, checkpoint of the restored port %s", r.Bytes, b2.Bytes())
			return
		}
		if p2.NumIncoming() != len(in) || p2.NumOutgoing() != len(out) {
			r.Sig, r.Msg = "port-count-differs", fmt.Sprintf("restored port holds %d/%d messages, original %d/%d", p2.NumIncoming(), p2.NumOutgoing(), len(in), len(out))
			return
		}
		for range in {
			r.In = append(r.In, p2.RetrieveIncoming())
		}
		for range out {
			r.Out = append(r.Out, p2.RetrieveOutgoing())
		}
		if m := p2.RetrieveIncoming(); m != nil {
			r.Sig, r.Msg = "port-count-differs", "restored port yields an extra incoming message"
		}
	})
	if !ok {
		r.Sig, r.Msg = sig, msg
	}
	return r
}

func genMsgCase(rt *rapid.T, types []c08MsgType, o func() *fillOpts) c08MsgCase {
	c := c08MsgCase{Port: rapid.SampledFrom(c08PortNames).Draw(rt, "port")}
	nIn := rapid.IntRange(0, 3).Draw(rt, "nIn")
	nOut := rapid.IntRange(0, 2).Draw(rt, "nOut")
	if nIn+nOut == 0 {
		nIn = 1
	}
	// capacity equal to the load exercises the "full buffer" retrieve paths
	c.InCap = nIn + rapid.IntRange(0, 2).Draw(rt, "inSlack")
	c.OutCap = nOut + rapid.IntRange(0, 2).Draw(rt, "outSlack")
	mk := func(label string) c08MsgVal {
		ti := rapid.IntRange(0, len(types)-1).Draw(rt, label)
		st := genStream(rt)
		newFilled(types[ti].Typ, st, o())
		return c08MsgVal{Type: ti, Name: types[ti].Name, Stream: st.rec}
	}
	for i := 0; i < nIn; i++ {
		c.Incoming = append(c.Incoming, mk("inType"))
	}
	for i := 0; i < nOut; i++ {
		c.Outgoing = append(c.Outgoing, mk("outType"))
	}
	return c
}

func TestC08ValuesMessages(t *testing.T) {
	types := c08MsgTypes()
	names := make([]string, len(types))
	for i, mt := range types {
		names[i] = mt.Name
	}
	s := kit.Begin(t, "C08", "values-messages",
		"1-5 messages of types drawn from Protocol.Messages() of every library protocol ("+strings.Join(names, ", ")+"), each value filled by reflection over all fields from a recorded draw stream (nil / empty / 1-3 element slices, []byte arbitrary, 0/1/max/max-1/2^53+1/raw integers, valid-UTF-8 strings from a pool with quotes, backslash, NUL, controls, <>&, U+2028, BOM, 2-4 byte runes; fields tagged json:\"-\" left zero). Real path: Deliver / Send into a messaging.NewPort port (capacity = load + 0..2) -> SaveCheckpoint -> LoadCheckpoint into a fresh port of equal capacity -> RetrieveIncoming / RetrieveOutgoing. Oracle: same dynamic type, deeply equal, same order, SaveCheckpoint of the restored port byte-identical. Non-trivial: a message with >=3 non-zero leaves, and for types with slice fields a non-empty slice")
	defer s.End()
	s.Assume("protocol list = the six DefineProtocol call sites in /repo outside examples/ and tests; bare MsgMeta belongs to no protocol and is not registered")
	s.Extra("message_types", names)
	sites := countCallSites("DefineProtocol(", "RegisterMsg(")
	s.Extra("source_scan_DefineProtocol_call_sites", sites["DefineProtocol("])
	s.Extra("source_scan_RegisterMsg_call_sites", sites["RegisterMsg("])
	s.Extra("protocols_covered", len(c08Protocols))
	if n := len(sites["DefineProtocol("]); n != 0 && n != len(c08Protocols) {
		t.Logf("WARNING: %d DefineProtocol call sites in the library sources but c08Protocols lists %d protocols: %v", n, len(c08Protocols), sites["DefineProtocol("])
	}

	run := func(f kit.Failer, c c08MsgCase) {
		var in, out []messaging.Msg
		var orig []reflect.Value
		for _, mv := range c.Incoming {
			if mv.Type >= len(types) || types[mv.Type].Name != mv.Name {
				f.Fatalf("harness: case names message type %d/%s unknown to this tree", mv.Type, mv.Name)
			}
			m, v := buildMsg(types, mv, replayStream(mv.Stream), &fillOpts{fillDash: documentedDash}, "")
			in = append(in, m)
			orig = append(orig, v)
		}
		for _, mv := range c.Outgoing {
			if mv.Type >= len(types) || types[mv.Type].Name != mv.Name {
				f.Fatalf("harness: case names message type %d/%s unknown to this tree", mv.Type, mv.Name)
			}
			m, v := buildMsg(types, mv, replayStream(mv.Stream), &fillOpts{fillDash: documentedDash}, c.Port)
			out = append(out, m)
			orig = append(orig, v)
		}
		r := c08PortRoundTrip(c, in, out, true)
		if r.Sig == "harness" {
			f.Fatalf("harness: %s", r.Msg)
		}
		if r.Sig != "" {
			s.Fail(f, c, r.Sig, "%s", r.Msg)
			return
		}
		all := append(append([]messaging.Msg(nil), in...), out...)
		got := append(append([]messaging.Msg(nil), r.In...), r.Out...)
		nontrivial := false
		classes := []string{}
		for i := range all {
			tn := reflect.TypeOf(all[i]).String()
			if got[i] == nil {
				s.Fail(f, c, "msg-missing:"+tn, "message %d (%s) did not come back from the restored port", i, tn)
				return
			}
			if d := diffTop(all[i], got[i], &diffOpts{noOmitEmptyWaiver: true}); d != nil {
				s.Fail(f, c, msgDiffSig("msg", tn, d), "%s %s -> checkpoint %s -> %s; differs at %s (%s: %s)",
					tn, render(orig[i]), r.Bytes, render(reflect.ValueOf(got[i])), d.Path, d.Kind, d.Detail)
				return
			}
			if !reflect.DeepEqual(all[i], got[i]) {
				f.Fatalf("harness: diffTop found nothing but reflect.DeepEqual disagrees for %s", tn)
			}
			var sh valueShape
			shapeOf(orig[i], 0, &sh)
			_, _, _, hasSlice := typeFeatures(orig[i].Type())
			if sh.NonZero >= 3 && (!hasSlice || sh.NonEmptyColl > 0) {
				nontrivial = true
			}
			classes = append(classes, "type:"+tn)
			if sh.NilColl > 0 {
				classes = append(classes, "nil-slice")
			}
			if sh.EmptyColl > 0 {
				classes = append(classes, "empty-slice")
			}
			if sh.NonEmptyColl > 0 {
				classes = append(classes, "nonempty-slice")
			}
		}
		if len(out) > 0 {
			classes = append(classes, "outgoing-buffer")
		}
		if len(in) == c.InCap && len(in) > 0 {
			classes = append(classes, "incoming-full")
		}
		if len(all) > 1 {
			classes = append(classes, "heterogeneous-buffer")
		}
		s.Note(c, nontrivial, classes...)
	}

	var c c08MsgCase
	if ok, err := kit.LoadReplay("C08", "values-messages", &c); ok {
		if err != nil {
			t.Fatal(err)
		}
		run(t, c)
		return
	} else if kit.ReplayMode() {
		t.Skip()
	}

	kit.SetChecks(30_000, 150_000)
	rapid.Check(t, func(rt *rapid.T) {
		run(rt, genMsgCase(rt, types, func() *fillOpts { return &fillOpts{fillDash: documentedDash} }))
	})
}

// TestC08ValuesMessagesInvalidUTF8 is the separate, labelled, NON-ASSERTING
// sub-check: Go strings that are not valid UTF-8 cannot be carried by JSON
// (encoding/json replaces the bad bytes by U+FFFD), so such values are kept out
// of the main generator. This sub-check only measures what happens to them.
func TestC08ValuesMessagesInvalidUTF8(t *testing.T) {
	types := c08MsgTypes()
	s := kit.Begin(t, "C08", "values-messages-invalid-utf8",
		"NON-ASSERTING, labelled side class: the messages sub-check with byte sequences that are not valid UTF-8 (0xff, truncated 2-byte sequence, surrogate half) appended to every string field. JSON cannot represent such strings; the sub-check never fails and only counts, per string field, whether the value came back altered. Non-trivial: a message that actually held an invalid string")
	defer s.End()
	if kit.ReplayMode() {
		t.Skip()
	}
	altered := map[string]int{}
	kit.SetChecks(3_000, 10_000)
	rapid.Check(t, func(rt *rapid.T) {
		c := genMsgCase(rt, types, func() *fillOpts { return &fillOpts{invalidUTF8: true, fillDash: documentedDash} })
		var in, out []messaging.Msg
		var orig []reflect.Value
		for _, mv := range c.Incoming {
			m, v := buildMsg(types, mv, replayStream(mv.Stream), &fillOpts{invalidUTF8: true, fillDash: documentedDash}, "")
			in, orig = append(in, m), append(orig, v)
		}
		for _, mv := range c.Outgoing {
			m, v := buildMsg(types, mv, replayStream(mv.Stream), &fillOpts{invalidUTF8: true, fillDash: documentedDash}, c.Port)
			out, orig = append(out, m), append(orig, v)
		}
		// (byte comparison off: encoding/json writes an invalid byte as the
		// escape \ufffd but the restored, now valid, U+FFFD as raw UTF-8)
		r := c08PortRoundTrip(c, in, out, false)
		if r.Sig != "" {
			s.Note(c, true, "outcome:"+r.Sig)
			return
		}
		all := append(append([]messaging.Msg(nil), in...), out...)
		got := append(append([]messaging.Msg(nil), r.In...), r.Out...)
		invalid := false
		classes := []string{}
		for i := range all {
			if !validUTF8Deep(orig[i]) {
				invalid = true
			}
			if d := diffTop(all[i], got[i], nil); d != nil {
				k := reflect.TypeOf(all[i]).String() + "." + fieldOfPath(d.Path)
				altered[k]++
				classes = append(classes, "altered:"+k)
			} else {
				classes = append(classes, "preserved")
			}
		}
		s.Note(c, invalid, classes...)
	})
	s.Extra("fields_altered_by_invalid_utf8", altered)
}

// ------------------------------------------------------------ events

// c08EventTypes: the registered event types (grep RegisterEvent in /repo,
// non-test: timing/eventcodec.go and modeling/eventcodec.go), all value forms.
var c08EventTypes = []reflect.Type{
	reflect.TypeOf(timing.EventBase{}),
	reflect.TypeOf(modeling.TickEvent{}),
	reflect.TypeOf(modeling.TimerFiredEvent{}),
}

var c08Handlers = []string{"H", "GPU[0].Core", "", "h\"<é>\x00", "Engine"}

type c08EvVal struct {
	Type    int      `json:"type"`
	Handler int      `json:"handler"`
	Stream  []uint64 `json:"stream"`
}

type c08EvCase struct {
	T0     uint64     `json:"t0"`
	Events []c08EvVal `json:"events"`
}

type captureHandler struct {
	got *[]timing.Event
}

func (h captureHandler) Handle(e timing.Event) error {
	*h.got = append(*h.got, e)
	return nil
}

func buildEvent(ev c08EvVal, t0 uint64) (timing.Event, reflect.Value) {
	v := newFilled(c08EventTypes[ev.Type], replayStream(ev.Stream), &fillOpts{fillDash: documentedDash})
	base := v
	if f := v.FieldByName("EventBase"); f.IsValid() {
		base = f
	}
	base.FieldByName("HandlerID_").SetString(c08Handlers[ev.Handler%len(c08Handlers)])
	// Schedule's documented precondition: not earlier than the current time
	tm := base.FieldByName("Time_")
	if tm.Uint() < t0 {
		span := ^uint64(0) - t0
		x := tm.Uint()
		if span != ^uint64(0) {
			x %= span + 1
		}
		tm.SetUint(t0 + x)
	}
	return v.Interface().(timing.Event), v
}

func newCaptureEngine(got *[]timing.Event) *timing.SerialEngine {
	e := timing.NewSerialEngine()
	for _, h := range c08Handlers {
		e.RegisterHandler(h, captureHandler{got: got})
	}
	e.RegisterHandler("init", captureHandler{got: new([]timing.Event)})
	return e
}

func TestC08ValuesEvents(t *testing.T) {
	s := kit.Begin(t, "C08", "values-events",
		"0-6 events of the registered event types (timing.EventBase, modeling.TickEvent, modeling.TimerFiredEvent), all fields by reflection (ID, Secondary, time >= engine time incl. 2^64-1, handler id from a pool incl. empty / quoted / NUL / non-ASCII names) scheduled into a SerialEngine whose clock was first advanced to a drawn t0 by running one event; SaveCheckpoint -> LoadCheckpoint into a fresh engine with the same handlers -> Run with capturing handlers. Oracle: restored engine time equal; re-saved checkpoint byte-identical; dispatched sequence equals, element by element (dynamic type, DeepEqual), the sequence the original engine dispatches, and has the original length. Non-trivial: >=2 events, a secondary one or two at the same time")
	defer s.End()
	evSites := countCallSites("RegisterEvent(")
	s.Extra("source_scan_RegisterEvent_call_sites", evSites["RegisterEvent("])
	s.Extra("event_types_covered", len(c08EventTypes))
	if n := len(evSites["RegisterEvent("]); n != 0 && n != len(c08EventTypes) {
		t.Logf("WARNING: %d RegisterEvent call sites in the library sources but c08EventTypes lists %d types: %v", n, len(c08EventTypes), evSites["RegisterEvent("])
	}
	s.Assume("event type list = the three RegisterEvent call sites in /repo (timing/eventcodec.go, modeling/eventcodec.go); the codec's registry cannot be enumerated through exported API")

	run := func(f kit.Failer, c c08EvCase) {
		timing.ResetIDGenerator()
		var evs []timing.Event
		for _, ev := range c.Events {
			e, _ := buildEvent(ev, c.T0)
			evs = append(evs, e)
		}
		var gotA, gotB []timing.Event
		var b1, b2 []byte
		var timeB timing.VTimeInPicoSec
		var stage string
		var err error
		ok, sig, msg := kit.Guard(func() {
			a := newCaptureEngine(&gotA)
			a.Schedule(timing.EventBase{Time_: timing.VTimeInPicoSec(c.T0), HandlerID_: "init"})
			if err = a.Run(); err != nil {
				stage = "run-init"
				return
			}
			for _, e := range evs {
				a.Schedule(e)
			}
			var buf bytes.Buffer
			if err = a.SaveCheckpoint(&buf); err != nil {
				stage = "engine-save-error"
				return
			}
			b1 = append([]byte(nil), buf.Bytes()...)
			b := newCaptureEngine(&gotB)
			if err = b.LoadCheckpoint(bytes.NewReader(b1)); err != nil {
				stage = "engine-load-error"
				return
			}
			timeB = b.CurrentTime()
			var buf2 bytes.Buffer
			if err = b.SaveCheckpoint(&buf2); err != nil {
				stage = "engine-resave-error"
				return
			}
			b2 = buf2.Bytes()
			if err = a.Run(); err != nil {
				stage = "run-a"
				return
			}
			if err = b.Run(); err != nil {
				stage = "run-b"
			}
		})
		if !ok {
			s.Fail(f, c, sig, "%s", msg)
			return
		}
		if err != nil {
			s.Fail(f, c, stage, "%v", err)
			return
		}
		if uint64(timeB) != c.T0 {
			s.Fail(f, c, "engine-time-differs", "engine time %d restored as %d", c.T0, timeB)
			return
		}
		if !bytes.Equal(b1, b2) {
			s.Fail(f, c, "engine-reencode-differs", "first checkpoint %s, checkpoint of the restored engine %s", b1, b2)
			return
		}
		if len(gotA) != len(evs) {
			f.Fatalf("harness: the original engine dispatched %d of %d events", len(gotA), len(evs))
		}
		if len(gotB) != len(gotA) {
			s.Fail(f, c, "event-count-differs", "original engine dispatched %d events, restored engine %d (checkpoint %s)", len(gotA), len(gotB), b1)
			return
		}
		sameTime, secondary := false, false
		seen := map[uint64]bool{}
		for i := range gotA {
			tn := reflect.TypeOf(gotA[i]).String()
			if d := diffTop(gotA[i], gotB[i], &diffOpts{noOmitEmptyWaiver: true}); d != nil {
				s.Fail(f, c, msgDiffSig("event", tn, d), "dispatch #%d: original engine %s, restored engine %s; differs at %s (%s: %s); checkpoint %s",
					i, render(reflect.ValueOf(gotA[i])), render(reflect.ValueOf(gotB[i])), d.Path, d.Kind, d.Detail, b1)
				return
			}
			if seen[uint64(gotA[i].Time())] {
				sameTime = true
			}
			seen[uint64(gotA[i].Time())] = true
			if gotA[i].IsSecondary() {
				secondary = true
			}
		}
		classes := []string{fmt.Sprintf("events:%d", len(evs))}
		if sameTime {
			classes = append(classes, "same-time")
		}
		if secondary {
			classes = append(classes, "secondary")
		}
		for _, e := range evs {
			classes = append(classes, "type:"+reflect.TypeOf(e).String())
		}
		s.Note(c, len(evs) >= 2 && (sameTime || secondary), classes...)
	}

	var c c08EvCase
	if ok, err := kit.LoadReplay("C08", "values-events", &c); ok {
		if err != nil {
			t.Fatal(err)
		}
		run(t, c)
		return
	} else if kit.ReplayMode() {
		t.Skip()
	}

	kit.SetChecks(30_000, 150_000)
	rapid.Check(t, func(rt *rapid.T) {
		var c c08EvCase
		switch rapid.IntRange(0, 3).Draw(rt, "t0class") {
		case 0:
			c.T0 = 0
		case 1:
			c.T0 = rapid.Uint64Range(0, 10_000).Draw(rt, "t0")
		case 2:
			c.T0 = ^uint64(0) - rapid.Uint64Range(0, 3).Draw(rt, "t0top")
		default:
			c.T0 = rapid.Uint64().Draw(rt, "t0")
		}
		n := rapid.IntRange(0, 6).Draw(rt, "n")
		for i := 0; i < n; i++ {
			ev := c08EvVal{Type: rapid.IntRange(0, len(c08EventTypes)-1).Draw(rt, "etype"), Handler: rapid.IntRange(0, len(c08Handlers)-1).Draw(rt, "handler")}
			st := genStream(rt)
			newFilled(c08EventTypes[ev.Type], st, &fillOpts{fillDash: documentedDash})
			ev.Stream = st.rec
			c.Events = append(c.Events, ev)
		}
		run(rt, c)
	})
}

// ------------------------------------------------------------ containers

type c08Item struct {
	ID   uint64
	Tag  string
	Data []byte
}

type c08Bank struct {
	Pipe queueing.Pipeline[c08Item]
	Post queueing.Buffer[c08Item]
}

type c08SetHolder struct {
	LRU   lruset.Set
	Valid []bool
}

// c08State embeds the containers the way library States do (tlb: Sets[].LRU,
// Pipeline, BufferItems; simplebankedmemory: Banks[].Pipeline / PostPipelineBuf).
type c08State struct {
	Buf   queueing.Buffer[c08Item]
	Banks []c08Bank
	Sets  []c08SetHolder
	Count uint64
}

type c08Op struct {
	K     string `json:"k"` // push pop clear upd | accept tick pclear postpop | visit evict setkey rmkey lookup
	I     int    `json:"i,omitempty"`
	Way   int    `json:"way,omitempty"`
	Key   int    `json:"key,omitempty"`
	Old   int    `json:"old,omitempty"`
	Delay int    `json:"delay,omitempty"`
	Item  int    `json:"item,omitempty"`
}

type c08BankGeom struct {
	Width, Stages, PostCap int
}

type c08ContCase struct {
	BufName string        `json:"buf_name"`
	BufCap  int           `json:"buf_cap"`
	Banks   []c08BankGeom `json:"banks"`
	Ways    []int         `json:"ways"`
	Pre     []c08Op       `json:"pre"`
	Post    []c08Op       `json:"post"`
}

var c08Keys = []string{lruset.KeyString(0, 0), lruset.KeyString(1, 0x1000), lruset.KeyString(12, ^uint64(0)), "", "k\"é\x00"}
var c08ItemPool = []c08Item{
	{}, {ID: 1, Tag: "a"}, {ID: ^uint64(0), Tag: "\"<&>\x00 ", Data: []byte{}}, {ID: 1<<53 + 1, Data: []byte{0, 255, 34}}, {Tag: "日本", Data: nil},
}

func newC08State(c c08ContCase) *c08State {
	st := &c08State{Buf: queueing.NewBuffer[c08Item](c.BufName, c.BufCap)}
	for _, g := range c.Banks {
		st.Banks = append(st.Banks, c08Bank{Pipe: queueing.NewPipeline[c08Item](g.Width, g.Stages), Post: queueing.NewBuffer[c08Item]("post", g.PostCap)})
	}
	for _, w := range c.Ways {
		st.Sets = append(st.Sets, c08SetHolder{LRU: lruset.NewSet(w), Valid: make([]bool, w)})
	}
	return st
}

// apply executes one op through the containers' exported API only and returns
// the observable answer. Documented preconditions are respected (push only
// when CanPush, accept only when CanAccept, way ids inside the set).
func (st *c08State) apply(c c08ContCase, op c08Op) string {
	switch op.K {
	case "push":
		if !st.Buf.CanPush() {
			return "buffer:push:full"
		}
		st.Buf.PushTyped(c08ItemPool[op.Item%len(c08ItemPool)])
		st.Count++
		return fmt.Sprintf("buffer:push:size=%d", st.Buf.Size())
	case "pop":
		return fmt.Sprintf("buffer:pop:%+v size=%d", st.Buf.Pop(), st.Buf.Size())
	case "clear":
		st.Buf.Clear()
		return fmt.Sprintf("buffer:clear:size=%d canpush=%v", st.Buf.Size(), st.Buf.CanPush())
	case "upd":
		st.Buf.UpdateFront(c08ItemPool[op.Item%len(c08ItemPool)])
		return fmt.Sprintf("buffer:upd:peek=%+v", st.Buf.Peek())
	}
	if len(st.Banks) > 0 {
		b := &st.Banks[op.I%len(st.Banks)]
		switch op.K {
		case "accept":
			if !b.Pipe.CanAccept() {
				return "pipeline:accept:busy"
			}
			b.Pipe.AcceptWithDelay(c08ItemPool[op.Item%len(c08ItemPool)], op.Delay)
			return fmt.Sprintf("pipeline:accept:%+v", b.Pipe.Stages())
		case "tick":
			moved := b.Pipe.Tick(&b.Post)
			return fmt.Sprintf("pipeline:tick:moved=%v stages=%+v post=%+v", moved, b.Pipe.Stages(), b.Post.Elements())
		case "pclear":
			b.Pipe.Clear()
			return fmt.Sprintf("pipeline:clear:canaccept=%v", b.Pipe.CanAccept())
		case "postpop":
			return fmt.Sprintf("buffer:postpop:%+v canpush=%v", b.Post.Pop(), b.Post.CanPush())
		}
	}
	if len(st.Sets) > 0 {
		h := &st.Sets[op.I%len(st.Sets)]
		ways := c.Ways[op.I%len(st.Sets)]
		switch op.K {
		case "visit":
			h.LRU.Visit(op.Way % ways)
			return "lruset:visit"
		case "evict":
			w, ok := h.LRU.Evict()
			return fmt.Sprintf("lruset:evict:%d,%v", w, ok)
		case "setkey":
			h.LRU.UpdateKey(op.Way%ways, c08Keys[op.Old%len(c08Keys)], c08Keys[op.Key%len(c08Keys)])
			h.Valid[op.Way%ways] = true
			return "lruset:setkey"
		case "rmkey":
			h.LRU.Remove(c08Keys[op.Key%len(c08Keys)])
			return "lruset:rmkey"
		case "lookup":
			w, ok := h.LRU.Lookup(c08Keys[op.Key%len(c08Keys)])
			return fmt.Sprintf("lruset:lookup:%d,%v", w, ok)
		}
	}
	return "noop"
}

// view lists what the exported API shows of the whole state.
func (st *c08State) view() []string {
	out := []string{fmt.Sprintf("buffer:main name=%q cap=%d size=%d canpush=%v peek=%+v elems=%+v",
		st.Buf.Name(), st.Buf.Capacity(), st.Buf.Size(), st.Buf.CanPush(), st.Buf.Peek(), st.Buf.Elements())}
	for i := range st.Banks {
		b := &st.Banks[i]
		out = append(out, fmt.Sprintf("pipeline:bank%d canaccept=%v stages=%+v", i, b.Pipe.CanAccept(), b.Pipe.Stages()))
		out = append(out, fmt.Sprintf("buffer:bank%d.post name=%q cap=%d elems=%+v", i, b.Post.Name(), b.Post.Capacity(), b.Post.Elements()))
	}
	for i := range st.Sets {
		h := &st.Sets[i]
		var ks []string
		for _, k := range c08Keys {
			w, ok := h.LRU.Lookup(k)
			ks = append(ks, fmt.Sprintf("%d,%v", w, ok))
		}
		out = append(out, fmt.Sprintf("lruset:set%d lookups=%v valid=%v", i, ks, h.Valid))
	}
	out = append(out, fmt.Sprintf("state:count=%d", st.Count))
	return out
}

func (st *c08State) drain() []string {
	var out []string
	for i := range st.Sets {
		var order []int
		for {
			w, ok := st.Sets[i].LRU.Evict()
			if !ok {
				break
			}
			order = append(order, w)
		}
		out = append(out, fmt.Sprintf("lruset:set%d evict-order=%v", i, order))
	}
	return out
}

func kindOfOp(k string) string {
	switch k {
	case "push", "pop", "clear", "upd", "postpop":
		return "buffer"
	case "accept", "tick", "pclear":
		return "pipeline"
	}
	return "lruset"
}

func kindOf(answer string) string {
	k, _, _ := strings.Cut(answer, ":")
	return k
}

func buildC08Comp() *modeling.Component[modeling.None, c08State, modeling.None] {
	return modeling.NewBuilder[modeling.None, c08State, modeling.None]().
		WithEngine(timing.NewSerialEngine()).WithFreq(1 * timing.GHz).Build("ContComp")
}

func TestC08ValuesContainers(t *testing.T) {
	s := kit.Begin(t, "C08", "values-containers",
		"State struct holding queueing.Buffer[item] (name from a pool, capacity 0-4), 1-2 banks of {queueing.Pipeline[item] (width 1-3, 1-4 stages), queueing.Buffer post (capacity 0-3)}, 1-2 {lruset.Set (1-4 ways), []bool} holders, as library States embed them; driven through the exported API by 0-20 drawn operations (push/pop/clear/update-front; accept with delay 0-3 / tick into the post buffer / clear / pop; visit/evict/update-key/remove/lookup with keys incl. KeyString forms, empty and non-ASCII keys), preconditions respected. Then the State goes through Builder.Build + Component.SaveCheckpoint -> LoadCheckpoint into a second built component, and each container additionally through a stand-alone json.Marshal/Unmarshal. Oracle (by behaviour): identical API views right after the restore, identical answers to every one of 0-10 further drawn operations applied to both the original and the restored State, identical final views, identical LRU drain order, byte-identical re-marshalling. Non-trivial: at the cut a buffer or pipeline is non-empty or an LRU set was re-ordered")
	defer s.End()

	run := func(f kit.Failer, c c08ContCase) {
		orig := newC08State(c)
		classes := []string{}
		okG, sig, msg := kit.Guard(func() {
			for _, op := range c.Pre {
				orig.apply(c, op)
			}
		})
		if !okG {
			// A container that panics while being driven inside its documented
			// preconditions is some other property's business (C14/C15/C28),
			// not a serialization verdict: no state to round-trip.
			_ = msg
			s.Note(c, false, "no-verdict:pre-ops-panicked:"+sig)
			return
		}
		// what the cut looks like
		nontrivial := false
		if orig.Buf.Size() > 0 {
			classes = append(classes, "cut:buffer-nonempty")
			nontrivial = true
		}
		for i := range orig.Banks {
			for _, stg := range orig.Banks[i].Pipe.Stages() {
				classes = append(classes, "cut:pipeline-nonempty")
				nontrivial = true
				if stg.CycleLeft > 0 {
					classes = append(classes, "cut:pipeline-dwell>0")
				}
				if stg.Stage > 0 {
					classes = append(classes, "cut:pipeline-advanced")
				}
			}
			if orig.Banks[i].Post.Size() > 0 {
				classes = append(classes, "cut:post-buffer-nonempty")
			}
		}
		for _, op := range c.Pre {
			switch op.K {
			case "visit", "evict":
				if len(c.Ways) > 0 {
					classes = append(classes, "cut:lru-"+op.K)
					nontrivial = true
				}
			case "setkey":
				if len(c.Ways) > 0 {
					classes = append(classes, "cut:lru-keys")
				}
			}
		}

		// --- the component checkpoint path
		c1 := buildC08Comp()
		c1.State = *orig
		var b1 bytes.Buffer
		if err := c1.SaveCheckpoint(&b1); err != nil {
			s.Fail(f, c, "state-save-error", "%v", err)
			return
		}
		saved := append([]byte(nil), b1.Bytes()...)
		c2 := buildC08Comp()
		if err := c2.LoadCheckpoint(bytes.NewReader(saved)); err != nil {
			s.Fail(f, c, "state-load-error", "%v (checkpoint %s)", err, saved)
			return
		}
		rest := &c2.State
		var b2 bytes.Buffer
		if err := c2.SaveCheckpoint(&b2); err != nil || !bytes.Equal(b2.Bytes(), saved) {
			s.Fail(f, c, "state-reencode-differs", "first checkpoint %s, checkpoint of the restored component %s (%v)", saved, b2.Bytes(), err)
			return
		}

		// --- stand-alone JSON of each container (value receiver MarshalJSON, pointer UnmarshalJSON)
		alone := func(kind string, v any, fresh any) bool {
			d1, err := json.Marshal(v)
			if err == nil {
				err = json.Unmarshal(d1, fresh)
			}
			var d2 []byte
			if err == nil {
				d2, err = json.Marshal(fresh)
			}
			if err != nil || !bytes.Equal(d1, d2) {
				s.Fail(f, c, kind+"-json-remarshal-differs", "stand-alone %s: %s -> %s (%v)", kind, d1, d2, err)
				return false
			}
			return true
		}
		if !alone("buffer", orig.Buf, new(queueing.Buffer[c08Item])) {
			return
		}
		for i := range orig.Banks {
			if !alone("pipeline", orig.Banks[i].Pipe, new(queueing.Pipeline[c08Item])) || !alone("buffer", &orig.Banks[i].Post, new(queueing.Buffer[c08Item])) {
				return
			}
		}
		for i := range orig.Sets {
			if !alone("lruset", orig.Sets[i].LRU, new(lruset.Set)) {
				return
			}
		}

		// --- behaviour (failures are collected inside the guard and reported outside it)
		var bSig, bMsg string
		cmp := func(when string, a, b []string) bool {
			for i := range a {
				if i >= len(b) || a[i] != b[i] {
					bb := "<missing>"
					if i < len(b) {
						bb = b[i]
					}
					bSig = kindOf(a[i]) + "-diverges-after-restore:" + when
					bMsg = fmt.Sprintf("%s: original answers %q, restored answers %q (checkpoint %s)", when, a[i], bb, saved)
					return false
				}
			}
			return true
		}
		okG, sig, msg = kit.Guard(func() {
			if !cmp("view-at-restore", orig.view(), rest.view()) {
				return
			}
			for _, op := range c.Post {
				// a panic is an answer like any other: both sides must give it
				guarded := func(st *c08State) (ans string) {
					if ok, sig, _ := kit.Guard(func() { ans = st.apply(c, op) }); !ok {
						return kindOfOp(op.K) + ":PANIC:" + sig
					}
					return ans
				}
				a := guarded(orig)
				b := guarded(rest)
				if !cmp(fmt.Sprintf("op:%s", op.K), []string{a}, []string{b}) {
					return
				}
			}
			if !cmp("final-view", orig.view(), rest.view()) {
				return
			}
			// re-marshal before the destructive drain
			d1, e1 := json.Marshal(orig)
			d2, e2 := json.Marshal(rest)
			if e1 != nil || e2 != nil || !bytes.Equal(d1, d2) {
				bSig = "state-final-remarshal-differs"
				bMsg = fmt.Sprintf("after the same operations: original %s, restored %s (%v %v)", d1, d2, e1, e2)
				return
			}
			cmp("lru-drain", orig.drain(), rest.drain())
		})
		if !okG {
			s.Fail(f, c, sig, "%s", msg)
			return
		}
		if bSig != "" {
			s.Fail(f, c, bSig, "%s", bMsg)
			return
		}
		if len(c.Post) > 0 {
			classes = append(classes, "post-ops")
		}
		s.Note(c, nontrivial, classes...)
	}

	var c c08ContCase
	if ok, err := kit.LoadReplay("C08", "values-containers", &c); ok {
		if err != nil {
			t.Fatal(err)
		}
		run(t, c)
		return
	} else if kit.ReplayMode() {
		t.Skip()
	}

	genOp := func(rt *rapid.T, label string) c08Op {
		k := rapid.SampledFrom([]string{"push", "push", "pop", "clear", "upd", "accept", "accept", "accept", "tick", "tick", "tick", "tick", "tick", "tick", "pclear", "postpop",
			"visit", "visit", "visit", "evict", "evict", "setkey", "setkey", "rmkey", "lookup"}).Draw(rt, label)
		return c08Op{K: k, I: rapid.IntRange(0, 1).Draw(rt, "i"), Way: rapid.IntRange(0, 3).Draw(rt, "way"),
			Key: rapid.IntRange(0, len(c08Keys)-1).Draw(rt, "key"), Old: rapid.IntRange(0, len(c08Keys)-1).Draw(rt, "old"),
			Delay: rapid.IntRange(0, 3).Draw(rt, "delay"), Item: rapid.IntRange(0, len(c08ItemPool)-1).Draw(rt, "item")}
	}
	kit.SetChecks(20_000, 100_000)
	rapid.Check(t, func(rt *rapid.T) {
		c := c08ContCase{
			BufName: rapid.SampledFrom([]string{"Buf", "", "GPU[0].\"Buf\"<é>"}).Draw(rt, "bufName"),
			BufCap:  rapid.IntRange(0, 4).Draw(rt, "bufCap"),
		}
		nb := rapid.IntRange(1, 2).Draw(rt, "banks")
		for i := 0; i < nb; i++ {
			c.Banks = append(c.Banks, c08BankGeom{Width: rapid.IntRange(1, 3).Draw(rt, "width"), Stages: rapid.IntRange(1, 4).Draw(rt, "stages"), PostCap: rapid.IntRange(0, 3).Draw(rt, "postCap")})
		}
		ns := rapid.IntRange(1, 2).Draw(rt, "sets")
		for i := 0; i < ns; i++ {
			c.Ways = append(c.Ways, rapid.IntRange(1, 4).Draw(rt, "ways"))
		}
		npre := rapid.IntRange(0, 20).Draw(rt, "npre")
		for i := 0; i < npre; i++ {
			c.Pre = append(c.Pre, genOp(rt, "pre"))
		}
		npost := rapid.IntRange(0, 10).Draw(rt, "npost")
		for i := 0; i < npost; i++ {
			c.Post = append(c.Post, genOp(rt, "post"))
		}
		run(rt, c)
	})
}

// ------------------------------------------------------------ library State values

// lruSetHook builds lruset.Set values through the constructor: the zero Set
// (nil key map) is not a state the API can reach - NewSet is the only
// constructor - and UnmarshalJSON deliberately restores a non-nil map.
func lruSetHook(v reflect.Value, s *stream) bool {
	if v.Type() != reflect.TypeOf(lruset.Set{}) {
		return false
	}
	ways := 1 + int(s.n(4))
	set := lruset.NewSet(ways)
	for i := int(s.n(4)); i > 0; i-- {
		set.Visit(int(s.n(uint64(ways))))
	}
	if s.n(2) == 1 {
		set.UpdateKey(int(s.n(uint64(ways))), "", lruset.KeyString(s.n(3), s.raw()))
	}
	v.Set(reflect.ValueOf(set))
	return true
}

type c08LibCase struct {
	Type   int      `json:"type"`
	Name   string   `json:"name"`
	Stream []uint64 `json:"stream"`
}

func sortedCopy(s []string) []string {
	out := append([]string(nil), s...)
	sort.Strings(out)
	return out
}

func TestC08ValuesLibState(t *testing.T) {
	names := make([]string, len(libStates))
	for i, e := range libStates {
		names[i] = e.Name
	}
	s := kit.Begin(t, "C08", "values-libstate",
		"a library component State type ("+strings.Join(names, ", ")+") filled by reflection over its exported plain-data fields from a recorded draw stream (same value classes as the messages sub-check: nil / empty / non-empty slices and maps, boundary integers, special-character strings); queueing.Buffer / queueing.Pipeline / lruset.Set inside are left at their zero value and not compared (they hide their fields; the containers sub-check drives them through their API). Real path: modeling.Builder[None, <pkg>.State, None].Build -> SaveCheckpoint -> LoadCheckpoint into a second built component. Oracle: State deeply equal (no nil/empty waiver: a divergence on an omitempty field is reported as state-nil-vs-empty:<field>), re-saved checkpoint byte-identical. Non-trivial: >=3 non-zero leaves and a non-empty slice or map")
	defer s.End()
	s.Assume("State type list = the component packages that call modeling.NewBuilder in /repo outside examples/ and tests, minus the unexported migState of mem/acceptancetests/pagemigration")

	// Listed nil-vs-empty findings are steered around by construction: where
	// the draw asks for an empty non-nil slice in such an omitempty field, nil
	// is stored instead (counted as excluded). The same rule applies when a
	// case is rebuilt from its recorded draws.
	libFill := func(typeName string, steered *int) *fillOpts {
		return &fillOpts{skipCustom: true, hook: lruSetHook, fillDash: documentedDash, steerOmitEmpty: func(path string) bool {
			if _, known := s.IsKnown("state-nil-vs-empty:" + typeName + "." + path); known {
				if steered != nil {
					*steered++
				}
				return true
			}
			return false
		}}
	}

	run := func(f kit.Failer, c c08LibCase) {
		if c.Type >= len(libStates) || libStates[c.Type].Name != c.Name {
			f.Fatalf("harness: case names State type %d/%s unknown to this tree", c.Type, c.Name)
		}
		e := libStates[c.Type]
		v := newFilled(e.Typ, replayStream(c.Stream), libFill(e.Name, nil))
		var out any
		var saved, resaved []byte
		var err error
		ok, sig, msg := kit.Guard(func() { out, saved, resaved, err = e.RT(v.Interface()) })
		if !ok {
			s.Fail(f, c, sig, "%s", msg)
			return
		}
		if err != nil {
			s.Fail(f, c, "state-roundtrip-error:"+e.Name, "%s: %v (value %s)", e.Name, err, render(v))
			return
		}
		if d := diffTop(v.Interface(), out, &diffOpts{noOmitEmptyWaiver: true, skipOpaque: true}); d != nil {
			s.Fail(f, c, msgDiffSig("state", e.Name, d), "%s -> checkpoint %s -> differs at %s (%s: %s)", e.Name, saved, d.Path, d.Kind, d.Detail)
			return
		}
		if !bytes.Equal(saved, resaved) {
			s.Fail(f, c, "state-reencode-differs:"+e.Name, "first checkpoint %s, checkpoint of the restored component %s", saved, resaved)
			return
		}
		var sh valueShape
		shapeOf(v, 0, &sh)
		classes := []string{"type:" + e.Name}
		if sh.NilColl > 0 && sh.EmptyColl > 0 {
			classes = append(classes, "nil-and-empty-collections")
		}
		s.Note(c, sh.NonZero >= 3 && sh.NonEmptyColl > 0, classes...)
	}

	var c c08LibCase
	if ok, err := kit.LoadReplay("C08", "values-libstate", &c); ok {
		if err != nil {
			t.Fatal(err)
		}
		run(t, c)
		return
	} else if kit.ReplayMode() {
		t.Skip()
	}

	kit.SetChecks(12_000, 60_000)
	rapid.Check(t, func(rt *rapid.T) {
		c := c08LibCase{Type: rapid.IntRange(0, len(libStates)-1).Draw(rt, "type")}
		c.Name = libStates[c.Type].Name
		st := genStream(rt)
		steered := 0
		newFilled(libStates[c.Type].Typ, st, libFill(c.Name, &steered))
		c.Stream = st.rec
		if steered > 0 {
			s.Excluded(1)
		}
		run(rt, c)
	})
}

// c08KnownNilEmpty reproduces one listed nil-vs-empty finding deterministically.
func c08KnownNilEmpty(t *testing.T, sub, typeName, path string) {
	sig := "state-nil-vs-empty:" + typeName + "." + path
	s := kit.Begin(t, "C08", sub, "deterministic: "+typeName+" with one element in every slice on the path to "+path+" and that field set to an empty non-nil slice; component checkpoint round trip; same oracle as values-libstate")
	defer s.End()
	if kit.ReplayMode() {
		t.Skip()
	}
	s.Exhaustive()
	var e libEntry
	for _, x := range libStates {
		if x.Name == typeName {
			e = x
		}
	}
	v := reflect.New(e.Typ).Elem()
	cur := v
	parts := strings.Split(path, ".")
	for i, p := range parts {
		f := cur.FieldByName(p)
		if !f.IsValid() {
			t.Fatalf("harness: %s has no field path %s", typeName, path)
		}
		if i == len(parts)-1 {
			f.Set(reflect.MakeSlice(f.Type(), 0, 0))
			break
		}
		f.Set(reflect.MakeSlice(f.Type(), 1, 1))
		cur = f.Index(0)
	}
	out, _, _, err := e.RT(v.Interface())
	if err != nil {
		s.Fail(t, path, "state-roundtrip-error:"+typeName, "%v", err)
		return
	}
	if d := diffTop(v.Interface(), out, &diffOpts{noOmitEmptyWaiver: true, skipOpaque: true}); d != nil {
		got := msgDiffSig("state", typeName, d)
		if got != sig {
			s.Fail(t, path, got, "differs at %s (%s)", d.Path, d.Detail)
			return
		}
		s.Note(path, true, "reproduces")
		s.KnownStillFails(t, path, sig, fmt.Sprintf("%s: %s = empty non-nil slice is omitted from the checkpoint (omitempty) and restored as nil", typeName, path))
		return
	}
	s.Note(path, true, "holds")
}

func TestC08ValuesKnown_IdealMemDirtyMask(t *testing.T) {
	c08KnownNilEmpty(t, "known-nil-empty-idealmem-dirtymask", "idealmemcontroller.State", "InflightTransactions.DirtyMask")
}
func TestC08ValuesKnown_IdealMemData(t *testing.T) {
	c08KnownNilEmpty(t, "known-nil-empty-idealmem-data", "idealmemcontroller.State", "InflightTransactions.Data")
}
func TestC08ValuesKnown_RobRspData(t *testing.T) {
	c08KnownNilEmpty(t, "known-nil-empty-rob-rspdata", "rob.State", "Transactions.RspData")
}
func TestC08ValuesKnown_AddrTransData(t *testing.T) {
	c08KnownNilEmpty(t, "known-nil-empty-addrtrans-data", "addresstranslator.State", "Transactions.IncomingReqs.Data")
}
func TestC08ValuesKnown_AddrTransDirtyMask(t *testing.T) {
	c08KnownNilEmpty(t, "known-nil-empty-addrtrans-dirtymask", "addresstranslator.State", "Transactions.IncomingReqs.DirtyMask")
}
