package typeschk

import (
	"os"
	"path/filepath"
	"reflect"
	"runtime"
	"strings"

	"github.com/sarchlab/akita/v5/timing"
)

// repoRoot finds the source tree the test binary was built from (the module
// the harness' replace directive points at) from the file name recorded for a
// library function.
func repoRoot() string {
	f := runtime.FuncForPC(reflect.ValueOf(timing.NewSerialEngine).Pointer())
	if f == nil {
		return ""
	}
	file, _ := f.FileLine(f.Entry())
	return filepath.Dir(filepath.Dir(file)) // <root>/timing/serialengine.go
}

// countCallSites counts lines in non-test library sources (examples/ excluded)
// that call one of the given functions. It is only used to report, in the
// evidence, whether the hand-maintained protocol / event lists of this package
// still match the registration sites in the tree; it is never an oracle.
func countCallSites(needles ...string) map[string][]string {
	out := map[string][]string{}
	root := repoRoot()
	if root == "" {
		return out
	}
	_ = filepath.Walk(root, func(p string, info os.FileInfo, err error) error {
		if err != nil {
			return nil
		}
		if info.IsDir() {
			n := info.Name()
			if n == "examples" || n == ".git" || n == "node_modules" || n == "testdata" {
				return filepath.SkipDir
			}
			return nil
		}
		if !strings.HasSuffix(p, ".go") || strings.HasSuffix(p, "_test.go") {
			return nil
		}
		b, err := os.ReadFile(p)
		if err != nil {
			return nil
		}
		for _, line := range strings.Split(string(b), "\n") {
			t := strings.TrimSpace(line)
			if strings.HasPrefix(t, "//") || strings.HasPrefix(t, "func ") {
				continue
			}
			for _, n := range needles {
				if strings.Contains(t, n) {
					rel, _ := filepath.Rel(root, p)
					out[n] = append(out[n], rel)
				}
			}
		}
		return nil
	})
	return out
}
