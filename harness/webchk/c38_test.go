package webchk

import (
	"context"
	"encoding/binary"
	"errors"
	"fmt"
	"io"
	"net"
	"net/http"
	"net/netip"
	"net/url"
	"os"
	"strconv"
	"strings"
	"sync"
	"sync/atomic"
	"testing"
	"time"

	"github.com/sarchlab/akita/v5/daisen2"
	"pgregory.net/rapid"

	"verif/harness/kit"
)

// ---------------------------------------------------------------------------
// Independent classifier (CIDR tables written from the RFCs, not from net.IP).
// ---------------------------------------------------------------------------

type cidrClass struct {
	class string
	pfx   []string
}

// Classes the property lists: loopback, private, link-local, unspecified.
// Link-local multicast is a link-local-scope address and is listed in the design.
var internalTables = []cidrClass{
	{"loopback", []string{"127.0.0.0/8", "::1/128"}},
	{"private", []string{"10.0.0.0/8", "172.16.0.0/12", "192.168.0.0/16", "fc00::/7"}},
	{"linklocal", []string{"169.254.0.0/16", "fe80::/10"}},
	{"unspecified", []string{"0.0.0.0/32", "::/128"}},
	{"ll-multicast", []string{"224.0.0.0/24", "ff02::/16"}},
}

// Special-purpose ranges that are neither listed by the property nor clearly
// public: nothing is asserted about them ("gray").
var grayV4 = []string{"0.0.0.0/8", "100.64.0.0/10", "192.0.0.0/24", "192.0.2.0/24", "192.88.99.0/24",
	"198.18.0.0/15", "198.51.100.0/24", "203.0.113.0/24", "224.0.0.0/3"}
var grayV6Inside2000 = []string{"2001::/23", "2001:db8::/32", "2002::/16", "3fff::/20"}

func mustPrefixes(ss []string) []netip.Prefix {
	out := make([]netip.Prefix, len(ss))
	for i, s := range ss {
		out[i] = netip.MustParsePrefix(s)
	}
	return out
}

var (
	grayV4P  = mustPrefixes(grayV4)
	grayV6P  = mustPrefixes(grayV6Inside2000)
	global6  = netip.MustParsePrefix("2000::/3")
	intTable = func() map[string][]netip.Prefix {
		m := map[string][]netip.Prefix{}
		for _, c := range internalTables {
			m[c.class] = mustPrefixes(c.pfx)
		}
		return m
	}()
)

// classify returns the class of the destination address: one of the internal
// classes, "public" (certainly public unicast) or "gray".
func classify(a netip.Addr) string {
	a = a.WithZone("")
	if a.Is4In6() {
		a = a.Unmap()
	}
	for _, c := range internalTables {
		for _, p := range intTable[c.class] {
			if p.Contains(a) {
				return c.class
			}
		}
	}
	if a.Is4() {
		for _, p := range grayV4P {
			if p.Contains(a) {
				return "gray"
			}
		}
		return "public"
	}
	if global6.Contains(a) {
		for _, p := range grayV6P {
			if p.Contains(a) {
				return "gray"
			}
		}
		return "public"
	}
	return "gray"
}

func isInternalClass(c string) bool { return c != "public" && c != "gray" }

// ---------------------------------------------------------------------------
// Case
// ---------------------------------------------------------------------------

type c38Case struct {
	Mode     string `json:"mode"`  // url | redirect | dial | client | client-redirect
	Addr     string `json:"addr"`  // canonical destination address ("" for a hosts-file name)
	Class    string `json:"class"` // classification of Addr by the harness tables
	Enc      string `json:"enc"`   // encoding family used to render Host
	Host     string `json:"host"`  // host literal as written (no brackets)
	GoLit    bool   `json:"golit"` // Host is an IP literal for Go (netip.ParseAddr) equal to Addr
	Scheme   string `json:"scheme"`
	User     string `json:"user"`
	Port     int    `json:"port"` // -1: the harness listener's port; 0: none
	Path     string `json:"path"`
	Allow    string `json:"allow"` // value of DAISEN_ALLOW_PRIVATE_LLM_URL; "<unset>" = unset
	ProxyKey string `json:"proxy_key"`
	ProxyVal string `json:"proxy_val"`
	Via      int    `json:"via"`  // redirect: number of previous hops
	Code     int    `json:"code"` // client-redirect: status code
}

var guardActiveValues = []string{"<unset>", "", "0", "false", "no", "off"}
var guardOffValues = []string{"1", "true", "yes", "YES", " 1 ", "True"}

func (c c38Case) guardActive() bool {
	for _, v := range guardActiveValues {
		if c.Allow == v {
			return true
		}
	}
	return false
}

// ---------------------------------------------------------------------------
// Generators
// ---------------------------------------------------------------------------

func randInPrefix(rt *rapid.T, p netip.Prefix) netip.Addr {
	b := p.Addr().AsSlice()
	nbits := len(b) * 8
	mode := rapid.IntRange(0, 5).Draw(rt, "hostbits")
	for i := p.Bits(); i < nbits; i++ {
		var bit bool
		switch mode {
		case 0: // first address
			bit = false
		case 1: // last address
			bit = true
		case 2: // ...1
			bit = i == nbits-1
		default:
			bit = rapid.Bool().Draw(rt, "b")
		}
		if bit {
			b[i/8] |= 1 << (7 - i%8)
		} else {
			b[i/8] &^= 1 << (7 - i%8)
		}
	}
	a, _ := netip.AddrFromSlice(b)
	return a
}

// neighbours just outside the internal ranges, and assorted gray addresses.
var boundaryAddrs = []string{
	"126.255.255.255", "128.0.0.0", "9.255.255.255", "11.0.0.0", "172.15.255.255", "172.32.0.0",
	"192.167.255.255", "192.169.0.0", "169.253.255.255", "169.255.0.0", "1.0.0.0", "223.255.255.255",
	"0.0.0.1", "0.1.2.3", "100.64.0.1", "192.0.2.2", "198.18.0.1", "224.0.1.0", "223.255.255.254", "255.255.255.255", "240.0.0.1",
	"fbff:ffff:ffff:ffff:ffff:ffff:ffff:ffff", "fe00::", "fe7f:ffff:ffff:ffff:ffff:ffff:ffff:ffff", "fec0::1",
	"::2", "::0.0.0.1", "::127.0.0.1", "64:ff9b::7f00:1", "2002:7f00:1::1", "2001:db8::1", "ff01::1", "ff05::2", "ff12::1",
	"2000::", "3ffe:ffff:ffff:ffff:ffff:ffff:ffff:ffff", "2606:4700:4700::1111", "2a00:1450:4001:81b::200e",
	"::fffe:127.0.0.1", "::ffff:0:127.0.0.1", "1::ffff:127.0.0.1",
}

func genAddr(rt *rapid.T) netip.Addr {
	switch rapid.IntRange(0, 9).Draw(rt, "aclass") {
	case 0, 1, 2, 3, 4, 5: // internal
		cl := internalTables[rapid.IntRange(0, len(internalTables)-1).Draw(rt, "icl")]
		p := netip.MustParsePrefix(cl.pfx[rapid.IntRange(0, len(cl.pfx)-1).Draw(rt, "pfx")])
		return randInPrefix(rt, p)
	case 6: // boundary / gray
		return netip.MustParseAddr(rapid.SampledFrom(boundaryAddrs).Draw(rt, "bnd"))
	case 7: // public v6
		for {
			a := randInPrefix(rt, global6)
			if classify(a) == "public" {
				return a
			}
			// re-draw the top bits by going through rapid again (bounded: gray part of 2000::/3 is tiny)
		}
	default: // uniform v4
		var b [4]byte
		binary.BigEndian.PutUint32(b[:], rapid.Uint32().Draw(rt, "v4"))
		return netip.AddrFrom4(b)
	}
}

func hex4(x uint16, upper bool, pad bool) string {
	s := strconv.FormatUint(uint64(x), 16)
	if pad {
		s = strings.Repeat("0", 4-len(s)) + s
	}
	if upper {
		s = strings.ToUpper(s)
	}
	return s
}

// renderV6 renders 8 groups. style: 0 canonical (netip), 1 fully expanded,
// 2 no compression / no padding, 3 compress another zero run (or a single
// zero group written as 0), 4 dotted-quad tail for the low 32 bits.
func renderV6(a netip.Addr, style int, upper, pad bool, pick int) string {
	b := a.As16()
	var g [8]uint16
	for i := range g {
		g[i] = binary.BigEndian.Uint16(b[2*i:])
	}
	groups := func(from, to int) []string {
		var out []string
		for i := from; i < to; i++ {
			out = append(out, hex4(g[i], upper, pad))
		}
		return out
	}
	switch style {
	case 1:
		var out []string
		for i := 0; i < 8; i++ {
			out = append(out, hex4(g[i], upper, true))
		}
		return strings.Join(out, ":")
	case 2:
		return strings.Join(groups(0, 8), ":")
	case 3, 4:
		n := 8
		tail := ""
		if style == 4 {
			n = 6
			tail = fmt.Sprintf("%d.%d.%d.%d", b[12], b[13], b[14], b[15])
		}
		// zero runs among the first n groups
		type run struct{ s, e int }
		var runs []run
		for i := 0; i < n; {
			if g[i] != 0 {
				i++
				continue
			}
			j := i
			for j < n && g[j] == 0 {
				j++
			}
			runs = append(runs, run{i, j})
			i = j
		}
		var s string
		if len(runs) == 0 {
			s = strings.Join(groups(0, n), ":")
			if tail != "" {
				s += ":" + tail
			}
			return s
		}
		r := runs[pick%len(runs)]
		// optionally compress only part of the run (leave leading zeros of the run explicit)
		if r.e-r.s > 1 && (pick/len(runs))%2 == 1 {
			r.s++
		}
		left := strings.Join(groups(0, r.s), ":")
		right := strings.Join(groups(r.e, n), ":")
		if tail != "" {
			if right != "" {
				right += ":" + tail
			} else {
				right = tail
			}
		}
		return left + "::" + right
	default:
		s := a.String()
		if upper {
			s = strings.ToUpper(s)
		}
		return s
	}
}

// genHost renders the address in one of the encodings. Returns host, enc family.
func genHost(rt *rapid.T, a netip.Addr) (string, string) {
	upper := rapid.Bool().Draw(rt, "upper")
	pad := rapid.Bool().Draw(rt, "pad")
	pick := rapid.IntRange(0, 7).Draw(rt, "pick")
	if a.Is4() {
		b := a.As4()
		u := binary.BigEndian.Uint32(b[:])
		switch rapid.IntRange(0, 11).Draw(rt, "enc4") {
		case 0, 1, 2:
			return a.String(), "dotted"
		case 3, 4:
			return "::ffff:" + a.String(), "mapped-dotted"
		case 5:
			m := netip.AddrFrom16(a.As16())
			return renderV6(m, 3, upper, pad, pick), "mapped-hex"
		case 6:
			m := netip.AddrFrom16(a.As16())
			return renderV6(m, 1, upper, true, 0), "mapped-expanded"
		case 7:
			m := netip.AddrFrom16(a.As16())
			st := rapid.SampledFrom([]int{2, 4}).Draw(rt, "st")
			return renderV6(m, st, upper, pad, pick), "mapped-alt"
		case 8:
			if upper {
				return "0:0:0:0:0:FFFF:" + a.String(), "mapped-alt"
			}
			return "0::ffff:" + a.String(), "mapped-alt"
		default: // inet_aton-only spellings (not IP literals for Go)
			switch rapid.IntRange(0, 5).Draw(rt, "aton") {
			case 0:
				return strconv.FormatUint(uint64(u), 10), "aton-decimal"
			case 1:
				return "0x" + strconv.FormatUint(uint64(u), 16), "aton-hex"
			case 2:
				return fmt.Sprintf("0%o.0%o.0%o.0%o", b[0], b[1], b[2], b[3]), "aton-octal"
			case 3:
				return fmt.Sprintf("%d.%d", b[0], u&0xffffff), "aton-short"
			case 4:
				return fmt.Sprintf("0x%x.0x%x.0x%x.0x%x", b[0], b[1], b[2], b[3]), "aton-hexdotted"
			default:
				return a.String() + ".", "trailing-dot"
			}
		}
	}
	zone := ""
	cl := classify(a)
	if isInternalClass(cl) && rapid.IntRange(0, 5).Draw(rt, "zone") == 0 {
		zone = "%" + rapid.SampledFrom([]string{"eth0", "lo", "1", "2"}).Draw(rt, "zn")
	}
	switch rapid.IntRange(0, 6).Draw(rt, "enc6") {
	case 0, 1:
		return renderV6(a, 0, false, false, 0) + zone, "v6-canonical"
	case 2:
		return renderV6(a, 0, true, false, 0) + zone, "v6-upper"
	case 3:
		return renderV6(a, 1, upper, true, 0) + zone, "v6-expanded"
	case 4:
		return renderV6(a, 2, upper, pad, 0) + zone, "v6-uncompressed"
	case 5:
		return renderV6(a, 3, upper, pad, pick) + zone, "v6-altcompress"
	default:
		return renderV6(a, 4, upper, pad, pick) + zone, "v6-v4tail"
	}
}

func hostsFileNames() []string {
	b, err := os.ReadFile("/etc/hosts")
	if err != nil {
		return nil
	}
	var out []string
	for _, l := range strings.Split(string(b), "\n") {
		if i := strings.IndexByte(l, '#'); i >= 0 {
			l = l[:i]
		}
		f := strings.Fields(l)
		if len(f) < 2 {
			continue
		}
		a, err := netip.ParseAddr(f[0])
		if err != nil || !isInternalClass(classify(a)) {
			continue
		}
		out = append(out, f[1:]...)
	}
	return out
}

var internalNames = hostsFileNames()

func genC38(rt *rapid.T) c38Case {
	var c c38Case
	c.Mode = rapid.SampledFrom([]string{"url", "url", "url", "redirect", "redirect", "dial", "dial", "dial", "client", "client-redirect"}).Draw(rt, "mode")
	if len(internalNames) > 0 && rapid.IntRange(0, 24).Draw(rt, "name") == 0 {
		n := rapid.SampledFrom(internalNames).Draw(rt, "hn")
		if rapid.Bool().Draw(rt, "nup") {
			n = strings.ToUpper(n)
		}
		c.Host, c.Enc, c.Class = n, "hosts-name", "loopback"
	} else {
		a := genAddr(rt)
		c.Addr = a.String()
		c.Class = classify(a)
		c.Host, c.Enc = genHost(rt, a)
		aton := strings.HasPrefix(c.Enc, "aton-") || c.Enc == "trailing-dot"
		p, err := netip.ParseAddr(c.Host)
		if err == nil {
			pp, aa := p.WithZone(""), a
			if pp.Is4In6() {
				pp = pp.Unmap()
			}
			if aa.Is4In6() {
				aa = aa.Unmap()
			}
			if pp != aa {
				panic(fmt.Sprintf("harness bug: %q (%s) parses to %s, want %s", c.Host, c.Enc, p, a))
			}
			c.GoLit = true
		} else if !aton {
			panic(fmt.Sprintf("harness bug: %q (%s of %s) is not an IP literal: %v", c.Host, c.Enc, a, err))
		}
	}
	c.Scheme = rapid.SampledFrom([]string{"http", "http", "https", "https", "HTTP", "hTTps", "ftp", "file", "ws", ""}).Draw(rt, "scheme")
	c.User = rapid.SampledFrom([]string{"", "", "", "user", "user:pw", "8.8.8.8", "127.0.0.1", "u%40x:p%3Aw", "1.1.1.1:80"}).Draw(rt, "user")
	c.Port = rapid.SampledFrom([]int{-1, -1, 0, 80, 443, 8080, 11434, 65535, 1}).Draw(rt, "port")
	c.Path = rapid.SampledFrom([]string{"", "/", "/v1/chat/completions", "/v1?x=http://8.8.8.8/", "/#@8.8.8.8", "?q=1", "#frag", "/a%2Fb"}).Draw(rt, "path")
	if rapid.IntRange(0, 3).Draw(rt, "allowon") == 0 {
		c.Allow = rapid.SampledFrom(guardOffValues).Draw(rt, "allow")
	} else {
		c.Allow = rapid.SampledFrom(guardActiveValues).Draw(rt, "allow")
	}
	if c.Mode == "dial" && rapid.IntRange(0, 3).Draw(rt, "proxy") == 0 {
		c.ProxyKey = rapid.SampledFrom(proxyEnvKeys[:6]).Draw(rt, "pk")
		c.ProxyVal = rapid.SampledFrom([]string{"http://203.0.113.77:3128", "203.0.113.77:3128", "http://proxy.example:3128", "http://10.255.255.1:8080", "socks5://192.0.2.200:1080", "http://user:pw@203.0.113.77:3128/"}).Draw(rt, "pv")
	}
	c.Via = rapid.IntRange(1, 9).Draw(rt, "via")
	c.Code = rapid.SampledFrom([]int{301, 302, 303, 307, 308}).Draw(rt, "code")
	if c.Mode == "client" || c.Mode == "client-redirect" {
		// these go through net/http end to end: always aim at the harness listener
		c.Port = -1
		c.Scheme = "http"
	}
	return c
}

// ---------------------------------------------------------------------------
// Listener: counts accepted connections; serves /mark, /redir and a default 200.
// ---------------------------------------------------------------------------

type countingListener struct {
	net.Listener
	p     *probeServer
	count bool // feeds the accepts counter (the all-addresses listener only)
}

func (l countingListener) Accept() (net.Conn, error) {
	c, err := l.Listener.Accept()
	if err == nil {
		if l.count {
			l.p.accepts.Add(1)
		}
		l.p.logAccept(c)
	}
	return c, err
}

// acceptRec is one accepted connection: local is the destination address the
// peer connected to, remote the peer's address.
type acceptRec struct {
	local, remote string
	marker        bool
}

type probeServer struct {
	port    int
	accepts atomic.Int64
	marks   atomic.Int64
	plain   *http.Client
	// locals: addresses of this machine (and loopback/unspecified) that reach the listener
	ownAddrs map[netip.Addr]bool
	// firstHop: a literal of this machine that the harness classifies as not internal
	firstHop string
	// ownInternal: addresses of this machine (other than loopback) in an internal class
	ownInternal []netip.Addr
	// log of accepted connections since the last beginWindow (see c38_dns_test.go)
	logMu sync.Mutex
	log   []acceptRec
	// loPort: a second port that is bound on the loopback addresses ONLY
	// (127.0.0.1 and, where available, ::1): any other address of this machine
	// refuses a connection to it at once. 0 if it could not be set up.
	loPort  int
	loMarks []string // marker URLs, one per loopback-only listener
}

func (p *probeServer) logAccept(c net.Conn) {
	p.logMu.Lock()
	if len(p.log) > 8192 { // no window ever holds that many: keep the tail only
		p.log = append(p.log[:0], p.log[len(p.log)-1024:]...)
	}
	p.log = append(p.log, acceptRec{local: c.LocalAddr().String(), remote: c.RemoteAddr().String()})
	p.logMu.Unlock()
}

// flagMarker marks the newest logged connection from remote as a marker
// (barrier) connection of the harness itself.
func (p *probeServer) flagMarker(remote string) {
	p.logMu.Lock()
	for i := len(p.log) - 1; i >= 0; i-- {
		if p.log[i].remote == remote && !p.log[i].marker {
			p.log[i].marker = true
			break
		}
	}
	p.logMu.Unlock()
}

// settleAll is the barrier over every listener (each has its own accept queue).
func (p *probeServer) settleAll() {
	p.settledAccepts()
	for _, u := range p.loMarks {
		resp, err := p.plain.Get(u)
		if err != nil {
			panic("loopback-only probe listener unreachable: " + err.Error())
		}
		io.Copy(io.Discard, resp.Body)
		resp.Body.Close()
	}
}

// beginWindow waits until every connection made so far has been accepted and
// logged, then empties the log.
func (p *probeServer) beginWindow() {
	p.settleAll()
	p.logMu.Lock()
	p.log = p.log[:0]
	p.logMu.Unlock()
}

// endWindow waits until every connection made so far has been accepted and
// returns the non-marker connections logged since beginWindow.
func (p *probeServer) endWindow() []acceptRec {
	p.settleAll()
	p.logMu.Lock()
	defer p.logMu.Unlock()
	var out []acceptRec
	for _, r := range p.log {
		if !r.marker {
			out = append(out, r)
		}
	}
	return out
}

var (
	psOnce sync.Once
	ps     *probeServer
)

func getProbeServer() *probeServer {
	psOnce.Do(func() {
		ln, err := net.Listen("tcp", "[::]:0")
		if err != nil {
			ln, err = net.Listen("tcp4", "0.0.0.0:0")
			if err != nil {
				panic(err)
			}
		}
		p := &probeServer{ownAddrs: map[netip.Addr]bool{}}
		p.port = ln.Addr().(*net.TCPAddr).Port
		mux := http.NewServeMux()
		mux.HandleFunc("/mark", func(w http.ResponseWriter, r *http.Request) {
			p.marks.Add(1)
			p.flagMarker(r.RemoteAddr)
			w.Header().Set("Connection", "close")
			io.WriteString(w, "mark")
		})
		mux.HandleFunc("/mark2", func(w http.ResponseWriter, r *http.Request) { // barrier of the loopback-only listeners
			p.flagMarker(r.RemoteAddr)
			w.Header().Set("Connection", "close")
			io.WriteString(w, "mark")
		})
		mux.HandleFunc("/redir", func(w http.ResponseWriter, r *http.Request) {
			code, _ := strconv.Atoi(r.URL.Query().Get("code"))
			w.Header().Set("Connection", "close")
			w.Header().Set("Location", r.URL.Query().Get("to"))
			w.WriteHeader(code)
		})
		mux.HandleFunc("/", func(w http.ResponseWriter, r *http.Request) {
			w.Header().Set("Connection", "close")
			// the body names the address this connection was accepted on
			local := "?"
			if la, ok := r.Context().Value(http.LocalAddrContextKey).(net.Addr); ok {
				local = la.String()
			}
			io.WriteString(w, "ok local="+local)
		})
		srv := &http.Server{Handler: mux}
		go srv.Serve(countingListener{ln, p, true})
		// the loopback-only port: same number on 127.0.0.1 and ::1
		for try := 0; try < 20 && p.loPort == 0; try++ {
			l4, err := net.Listen("tcp4", "127.0.0.1:0")
			if err != nil {
				break
			}
			port := l4.Addr().(*net.TCPAddr).Port
			lns := []net.Listener{l4}
			marks := []string{fmt.Sprintf("http://127.0.0.1:%d/mark2", port)}
			if hasLoopback6() {
				l6, err := net.Listen("tcp6", fmt.Sprintf("[::1]:%d", port))
				if err != nil {
					l4.Close() // port taken on ::1: try another one
					continue
				}
				lns = append(lns, l6)
				marks = append(marks, fmt.Sprintf("http://[::1]:%d/mark2", port))
			}
			for _, l := range lns {
				go (&http.Server{Handler: mux}).Serve(countingListener{l, p, false})
			}
			p.loPort, p.loMarks = port, marks
		}
		p.plain = &http.Client{Transport: &http.Transport{DisableKeepAlives: true, Proxy: nil}}
		if addrs, err := net.InterfaceAddrs(); err == nil {
			for _, a := range addrs {
				if ipn, ok := a.(*net.IPNet); ok {
					if na, ok := netip.AddrFromSlice(ipn.IP); ok {
						na = na.Unmap()
						p.ownAddrs[na] = true
						if p.firstHop == "" && !isInternalClass(classify(na)) {
							p.firstHop = na.String()
						}
						if cl := classify(na); cl == "private" {
							p.ownInternal = append(p.ownInternal, na)
						}
					}
				}
			}
		}
		ps = p
	})
	return ps
}

func hasLoopback6() bool {
	l, err := net.Listen("tcp6", "[::1]:0")
	if err != nil {
		return false
	}
	l.Close()
	return true
}

// settledAccepts returns the number of non-marker connections accepted so far.
// It first pushes a marker request through the listener: Accept is serial, so
// when the marker's handler has run every earlier connection has been counted.
func (p *probeServer) settledAccepts() int64 {
	resp, err := p.plain.Get(fmt.Sprintf("http://127.0.0.1:%d/mark", p.port))
	if err != nil {
		panic("probe listener unreachable: " + err.Error())
	}
	io.Copy(io.Discard, resp.Body)
	resp.Body.Close()
	return p.accepts.Load() - p.marks.Load()
}

// reachesThisMachine: a connection to addr would arrive at this machine (so a
// missing guard is observable as an accept, and a dial cannot hang).
func (p *probeServer) reachesThisMachine(a netip.Addr) bool {
	a = a.WithZone("")
	if a.Is4In6() {
		a = a.Unmap()
	}
	cl := classify(a)
	return cl == "loopback" || cl == "unspecified" || p.ownAddrs[a]
}

// ---------------------------------------------------------------------------
// Execution
// ---------------------------------------------------------------------------

func (c c38Case) hostPort(p *probeServer) string {
	port := c.Port
	if port == -1 {
		port = p.port
	}
	h := c.Host
	if strings.Contains(h, ":") {
		h = "[" + strings.ReplaceAll(h, "%", "%25") + "]"
	}
	if port != 0 {
		return h + ":" + strconv.Itoa(port)
	}
	return h
}

func (c c38Case) url(p *probeServer) string {
	var sb strings.Builder
	if c.Scheme != "" {
		sb.WriteString(c.Scheme + "://")
	} else {
		sb.WriteString("//")
	}
	if c.User != "" {
		sb.WriteString(c.User + "@")
	}
	sb.WriteString(c.hostPort(p))
	sb.WriteString(c.Path)
	return sb.String()
}

func applyEnv(c c38Case) {
	for _, k := range proxyEnvKeys {
		os.Unsetenv(k)
	}
	if c.Allow == "<unset>" {
		os.Unsetenv(allowEnvKey)
	} else {
		os.Setenv(allowEnvKey, c.Allow)
	}
	if c.ProxyKey != "" {
		os.Setenv(c.ProxyKey, c.ProxyVal)
	}
}

func resetEnv() {
	for _, k := range proxyEnvKeys {
		os.Unsetenv(k)
	}
	os.Unsetenv(allowEnvKey)
}

func isDialOpError(err error) bool {
	var oe *net.OpError
	return errors.As(err, &oe) && oe.Op == "dial"
}

func schemeIsHTTP(s string) bool {
	l := strings.ToLower(s)
	return l == "http" || l == "https"
}

func runC38(s *kit.Session, f kit.Failer, c c38Case) {
	p := getProbeServer()
	applyEnv(c)
	defer resetEnv()
	client := daisen2.VerifGuardedLLMClient()
	defer client.Transport.(*http.Transport).CloseIdleConnections()

	internal := isInternalClass(c.Class)
	active := c.guardActive()
	var dest netip.Addr
	local := c.Enc == "hosts-name"
	if c.Addr != "" {
		dest = netip.MustParseAddr(c.Addr)
		local = p.reachesThisMachine(dest)
	}
	sigBase := c.Mode + ":" + c.Class + ":" + c.Enc
	// non-trivial: an internal destination written in a non-canonical form, with the guard on
	canonical := c.Enc == "dotted" || c.Enc == "v6-canonical"
	nt := internal && active && !canonical
	classes := []string{"mode:" + c.Mode, "class:" + c.Class, "enc:" + c.Enc}
	if !active {
		classes = append(classes, "allow-switch-on")
	}
	if c.ProxyKey != "" {
		classes = append(classes, "proxy-configured")
	}

	before := int64(0)
	observe := c.Port == -1 && (c.Mode == "dial" || c.Mode == "client" || c.Mode == "client-redirect")
	if observe {
		before = p.settledAccepts()
	}
	acceptsDelta := func() int64 { return p.settledAccepts() - before }

	switch c.Mode {
	case "url":
		u := c.url(p)
		err := daisen2.VerifGuardLLMURL(u)
		if active && internal && err == nil {
			s.Fail(f, c, "accepted-internal:"+sigBase, "guardLLMURL(%q) = nil although host %q is %s (%s)", u, c.Host, c.Addr, c.Class)
			return
		}
		if active && c.Class == "public" && c.GoLit && schemeIsHTTP(c.Scheme) {
			if _, perr := url.Parse(u); perr == nil && err != nil {
				s.Fail(f, c, "refused-public:"+sigBase, "guardLLMURL(%q) = %v although %s is a public address", u, err, c.Addr)
				return
			}
		}
		if err == nil {
			classes = append(classes, "guard-accepted")
		} else {
			classes = append(classes, "guard-refused")
		}

	case "redirect":
		u := c.url(p)
		req, perr := http.NewRequest("GET", u, nil)
		if perr != nil {
			s.Note(c, false, append(classes, "unparsable-url")...)
			return
		}
		via := make([]*http.Request, c.Via)
		for i := range via {
			via[i], _ = http.NewRequest("GET", "http://93.184.216.34/start", nil)
		}
		err := client.CheckRedirect(req, via)
		if active && internal && err == nil {
			s.Fail(f, c, "redirect-accepted-internal:"+sigBase, "CheckRedirect to %q = nil although host %q is %s (%s)", u, c.Host, c.Addr, c.Class)
			return
		}
		if active && c.Class == "public" && c.GoLit && schemeIsHTTP(c.Scheme) && err != nil {
			s.Fail(f, c, "redirect-refused-public:"+sigBase, "CheckRedirect to %q = %v although %s is public and only %d hops were made", u, err, c.Addr, c.Via)
			return
		}
		if err == nil {
			classes = append(classes, "guard-accepted")
		} else {
			classes = append(classes, "guard-refused")
		}

	case "dial":
		port := c.Port
		if port == -1 {
			port = p.port
		} else if port == 0 {
			port = 80
		}
		addr := net.JoinHostPort(c.Host, strconv.Itoa(port))
		proxyHost := ""
		if c.ProxyVal != "" {
			v := c.ProxyVal
			if !strings.Contains(v, "://") {
				v = "http://" + v
			}
			if pu, err := url.Parse(v); err == nil {
				proxyHost = pu.Hostname()
			}
		}
		if proxyHost != "" && proxyHost == c.Host {
			// dialing the configured proxy itself is exempt by design
			s.Note(c, false, append(classes, "dial-target-is-proxy")...)
			return
		}
		// A live context only where the connection cannot leave this machine;
		// otherwise an already-cancelled one: a dial that gets past the guard then
		// fails at once with a *net.OpError{Op:"dial"}, which is how "the guard let
		// it through" is told from "the guard refused" without touching the network.
		ctx, cancel := context.WithCancel(context.Background())
		live := local && c.Port == -1
		if !live {
			cancel()
		} else {
			var c2 context.CancelFunc
			ctx, c2 = context.WithTimeout(ctx, 5*time.Second) // safety net only, never an oracle
			defer c2()
		}
		conn, err := daisen2.VerifGuardedDialContext(ctx, "tcp", addr)
		cancel()
		connected := conn != nil
		if conn != nil {
			conn.Close()
		}
		attempted := connected || isDialOpError(err)
		if active && internal {
			if attempted {
				s.Fail(f, c, "dial-attempted-internal:"+sigBase, "guardedDialContext(%q) connected=%v err=%v: a connection to %s (%s) was attempted", addr, connected, err, c.Addr, c.Class)
				return
			}
			if observe && acceptsDelta() != 0 {
				s.Fail(f, c, "dial-reached-listener:"+sigBase, "guardedDialContext(%q): the loopback listener accepted a connection", addr)
				return
			}
		}
		if active && c.Class == "public" && c.GoLit && !attempted {
			s.Fail(f, c, "dial-refused-public:"+sigBase, "guardedDialContext(%q) = %v: refused before dialing although %s is public", addr, err, c.Addr)
			return
		}
		switch {
		case connected:
			classes = append(classes, "dial-connected")
		case attempted:
			classes = append(classes, "dial-attempted")
		default:
			classes = append(classes, "dial-refused")
		}
		if live {
			classes = append(classes, "dial-live-ctx")
		}

	case "client":
		if !local {
			// a request that passes the guard would leave the machine: only the decision functions are exercised for those
			s.Note(c, false, append(classes, "client-skipped-nonlocal")...)
			return
		}
		u := c.url(p)
		ctx, cancel := context.WithTimeout(context.Background(), 5*time.Second)
		defer cancel()
		req, perr := http.NewRequestWithContext(ctx, "GET", u, nil)
		if perr != nil {
			s.Note(c, false, append(classes, "unparsable-url")...)
			return
		}
		resp, err := client.Do(req)
		if resp != nil {
			io.Copy(io.Discard, resp.Body)
			resp.Body.Close()
		}
		d := acceptsDelta()
		if active && internal && (err == nil || d != 0) {
			s.Fail(f, c, "client-reached-internal:"+sigBase, "client GET %q: err=%v, listener accepted %d connection(s); destination %s is %s", u, err, d, c.Addr, c.Class)
			return
		}
		if err == nil {
			classes = append(classes, "client-connected")
		} else {
			classes = append(classes, "client-refused")
		}

	case "client-redirect":
		if p.firstHop == "" {
			s.Note(c, false, append(classes, "no-nonprivate-local-address")...)
			return
		}
		if !local || !internal {
			s.Note(c, false, append(classes, "client-skipped-nonlocal")...)
			return
		}
		target := c.url(p)
		first := "http://" + net.JoinHostPort(p.firstHop, strconv.Itoa(p.port)) + "/redir?code=" + strconv.Itoa(c.Code) + "&to=" + url.QueryEscape(target)
		ctx, cancel := context.WithTimeout(context.Background(), 5*time.Second)
		defer cancel()
		req, _ := http.NewRequestWithContext(ctx, "GET", first, nil)
		resp, err := client.Do(req)
		if resp != nil {
			io.Copy(io.Discard, resp.Body)
			resp.Body.Close()
		}
		d := acceptsDelta()
		if active {
			if d == 0 {
				// the first hop itself was refused (its address is gray for the harness): nothing to judge
				s.Note(c, false, append(classes, "first-hop-refused")...)
				return
			}
			if err == nil || d != 1 {
				s.Fail(f, c, "redirect-followed-internal:"+sigBase, "client GET %q (redirects with %d to %q): err=%v, listener accepted %d connection(s), want 1 (the first hop only)", first, c.Code, target, err, d)
				return
			}
			classes = append(classes, "redirect-refused-after-first-hop")
		} else if err == nil {
			classes = append(classes, "redirect-followed(allowed)")
		}
		s.Note(c, nt && active, classes...)
		return
	}
	s.Note(c, nt, classes...)
}

func TestC38Guard(t *testing.T) {
	s := kit.Begin(t, "C38", "guard",
		"destination address drawn from CIDR tables (loopback, RFC1918+ULA, link-local v4/v6, unspecified, link-local multicast, neighbours just outside each range, gray special-purpose ranges, certainly-public unicast) or a /etc/hosts name; rendered as dotted quad, IPv4-mapped IPv6 in 6 spellings, IPv6 canonical/expanded/upper/uncompressed/alternative-compression/dotted-tail with optional zone, or inet_aton-only spellings; used as URL (scheme, userinfo, port, path/fragment decoys) for guardLLMURL, as redirect target for the client's CheckRedirect, as dial address for guardedDialContext (live context when the target is this machine and the port is the harness listener, else a cancelled context), and end-to-end through the guarded http.Client (direct and via a 30x from a non-private local address); allow switch drawn from off-values/on-values, proxy variables optionally set for dials. Oracle: harness CIDR classifier; internal+guard on => error, no dial attempt (*net.OpError dial), no accept on the listener; certainly-public Go literal => not refused by the guard. Non-trivial: internal destination in a non-canonical spelling with the guard on")
	defer s.End()
	s.Assume("this sub-check uses the system resolver and the sandbox has no DNS: names are limited to /etc/hosts entries; unresolvable spellings being refused is counted as correct (generated DNS answers: sub-check rebind)")
	s.Assume("link-local multicast (224.0.0.0/24, ff02::/16) is treated as 'link-local' of the statement; other special-purpose ranges are gray (nothing asserted)")

	var c c38Case
	if ok, err := kit.LoadReplay("C38", "guard", &c); ok {
		if err != nil {
			t.Fatal(err)
		}
		runC38(s, t, c)
		return
	} else if kit.ReplayMode() {
		t.Skip()
	}
	getProbeServer()
	kit.SetChecks(20_000, 100_000)
	rapid.Check(t, func(rt *rapid.T) {
		c := genC38(rt)
		runC38(s, rt, c)
	})
}

// TestC38Exhaustive16 enumerates every IPv4 /16 (first, last and one inner
// address of each) and checks isInternalIP-driven decisions of the URL guard
// against the tables, in dotted and mapped form.
func TestC38Slash16(t *testing.T) {
	s := kit.Begin(t, "C38", "slash16",
		"every IPv4 /16 block x {first, last, .1.1} address x {dotted, ::ffff:dotted, ::ffff:hex} as http URL for guardLLMURL with the switch unset; plus the same for every fc00::/7, fe80::/10 16-bit prefix. Oracle: harness CIDR classifier (internal => refused; certainly public => accepted). Non-trivial: internal address")
	defer s.End()
	if kit.ReplayMode() {
		var c c38Case
		if ok, err := kit.LoadReplay("C38", "slash16", &c); ok {
			if err != nil {
				t.Fatal(err)
			}
			runC38(s, t, c)
			return
		}
		t.Skip()
	}
	if !shard0() {
		t.Skip("complete enumeration: first shard only")
	}
	s.Exhaustive()
	resetEnv()
	check := func(a netip.Addr, host, enc string) {
		c := c38Case{Mode: "url", Addr: a.String(), Class: classify(a), Enc: enc, Host: host, GoLit: true, Scheme: "http", Port: 0, Path: "/v1", Allow: "<unset>"}
		runC38(s, t, c)
	}
	for hi := 0; hi < 65536; hi++ {
		for _, lo := range []uint16{0, 0xffff, 0x0101} {
			a := netip.AddrFrom4([4]byte{byte(hi >> 8), byte(hi), byte(lo >> 8), byte(lo)})
			check(a, a.String(), "dotted")
			check(a, "::ffff:"+a.String(), "mapped-dotted")
			check(a, fmt.Sprintf("::ffff:%x:%x", hi, lo), "mapped-hex")
		}
	}
	for hi := 0; hi < 65536; hi++ {
		for _, tail := range []string{"::", "::1", ":ffff:ffff:ffff:ffff:ffff:ffff:ffff"} {
			a, err := netip.ParseAddr(fmt.Sprintf("%x%s", hi, tail))
			if err != nil {
				continue
			}
			check(a, a.String(), "v6-canonical")
		}
	}
}
