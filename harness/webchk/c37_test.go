package webchk

import (
	"context"
	"crypto/sha256"
	"database/sql"
	"encoding/hex"
	"errors"
	"fmt"
	"io"
	"os"
	"path/filepath"
	"regexp"
	"sort"
	"strconv"
	"strings"
	"sync"
	"testing"
	"time"
	"unicode/utf8"

	"github.com/sarchlab/akita/v5/daisen2"
	"pgregory.net/rapid"

	"verif/harness/kit"
)

// ---------------------------------------------------------------------------
// Template trace databases (deterministic content, built once per process and
// copied for every case).
// ---------------------------------------------------------------------------

const c37Templates = 4

var (
	tmplMu    sync.Mutex
	tmplPaths = map[int]string{}
)

func c37BuildTemplate(idx int) string {
	tmplMu.Lock()
	defer tmplMu.Unlock()
	if p, ok := tmplPaths[idx]; ok {
		return p
	}
	dir := filepath.Join(workDir(), "templates")
	_ = os.MkdirAll(dir, 0o755)
	p := filepath.Join(dir, fmt.Sprintf("t%d.sqlite3", idx))
	_ = os.Remove(p)
	db, err := sql.Open("sqlite3", p)
	if err != nil {
		panic(err)
	}
	db.SetMaxOpenConns(1)
	exec := func(q string, args ...any) {
		if _, err := db.Exec(q, args...); err != nil {
			panic(fmt.Sprintf("template %d: %q: %v", idx, q, err))
		}
	}
	// the replay server switches the file to WAL on open; doing it here makes that a no-op
	exec("PRAGMA journal_mode=WAL")
	exec("BEGIN")
	exec(`CREATE TABLE trace (ID INTEGER, ParentID INTEGER, Kind TEXT, What TEXT, Location INTEGER, StartTime REAL, EndTime REAL)`)
	exec(`CREATE TABLE location (ID INTEGER, Locale TEXT)`)
	if idx != 2 {
		exec(`CREATE TABLE milestone (ID INTEGER, TaskID INTEGER, Time REAL, Kind TEXT, What TEXT)`)
	}
	nTrace, nLoc, nMil := 0, 0, 0
	switch idx {
	case 0:
		nTrace, nLoc, nMil = 3, 2, 2
	case 1:
		nTrace, nLoc, nMil = 40, 6, 30
	case 2:
		nTrace, nLoc = 12, 3
	}
	kinds := []string{"read", "write", "req_in", "req,out", "multi\nline", "quo'te", "ünï©ode", ""}
	for i := 1; i <= nLoc; i++ {
		exec(`INSERT INTO location VALUES (?,?)`, i, fmt.Sprintf("GPU[%d].L%d,Cache", i/2, i%3))
	}
	for i := 1; i <= nTrace; i++ {
		var what any = fmt.Sprintf("*mem.ReadReq#%d", i)
		switch i % 10 {
		case 3:
			what = nil
		case 5:
			what = []byte{0, 1, 2, ',', '\n', 0xff, byte(i)}
		case 7:
			what = strings.Repeat("x", 5000) // longer than the per-cell clip
		}
		exec(`INSERT INTO trace VALUES (?,?,?,?,?,?,?)`, i, i/3, kinds[i%len(kinds)], what, 1+i%max(nLoc, 1), float64(i)*1.5, float64(i)*1.5+float64(i%7))
	}
	for i := 1; i <= nMil; i++ {
		exec(`INSERT INTO milestone VALUES (?,?,?,?,?)`, i, 1+i%max(nTrace, 1), float64(i)*0.25, kinds[i%len(kinds)], fmt.Sprintf("m%d", i))
	}
	if idx == 2 {
		exec(`CREATE TABLE "daisen$segments" (StartTime REAL, EndTime REAL)`)
		exec(`INSERT INTO "daisen$segments" VALUES (0, 100)`)
		exec(`CREATE INDEX trace_loc ON trace(Location)`)
		exec(`CREATE VIEW v_trace AS SELECT ID, Kind FROM trace`)
	}
	exec("COMMIT")
	if err := db.Close(); err != nil { // checkpoints and removes the -wal file
		panic(err)
	}
	tmplPaths[idx] = p
	return p
}

func copyFile(dst, src string) {
	b, err := os.ReadFile(src)
	if err != nil {
		panic(err)
	}
	if err := os.WriteFile(dst, b, 0o644); err != nil {
		panic(err)
	}
}

// ---------------------------------------------------------------------------
// Case
// ---------------------------------------------------------------------------

type c37Query struct {
	SQL string `json:"sql"` // "{DIR}" is replaced by the case directory
	Raw []byte `json:"raw,omitempty"`
	// Via: "direct" (runDataQuery), "tool" (agentTool.run with {"sql":..}),
	// "tool-nosql" (argument missing), "tool-badtype" (argument not a string)
	Via string `json:"via"`
	// DeadlineUS: <0 no caller deadline (the tool's own 15 s timeout applies);
	// otherwise the caller context expires after that many microseconds.
	DeadlineUS int    `json:"deadline_us"`
	Kind       string `json:"kind"` // generator class, for the histogram only
}

type c37Case struct {
	Template int        `json:"template"`
	Queries  []c37Query `json:"queries"`
}

func (q c37Query) text(dir string) string {
	if q.Raw != nil {
		return strings.ReplaceAll(string(q.Raw), "{DIR}", dir)
	}
	return strings.ReplaceAll(q.SQL, "{DIR}", dir)
}

// files a hostile statement could create with a relative name (looked for in the cwd)
var evilRelNames = []string{"verif_evil_rel.db", "verif_evil_rel2.db"}

// ---------------------------------------------------------------------------
// Snapshot of the trace: directory listing, file bytes (main + WAL), logical dump.
// ---------------------------------------------------------------------------

type c37Snap struct {
	Listing  string
	MainSHA  string
	WalSHA   string
	Dump     string
	Sentinel string
}

func c37Dump(side *sql.DB) (string, error) {
	h := sha256.New()
	rows, err := side.Query(`SELECT type, name, tbl_name, coalesce(sql,'') FROM sqlite_master ORDER BY type, name`)
	if err != nil {
		return "", err
	}
	var tables []string
	for rows.Next() {
		var ty, name, tbl, q string
		if err := rows.Scan(&ty, &name, &tbl, &q); err != nil {
			rows.Close()
			return "", err
		}
		fmt.Fprintf(h, "M|%s|%s|%s|%s\n", ty, name, tbl, q)
		if ty == "table" {
			tables = append(tables, name)
		}
	}
	rows.Close()
	if err := rows.Err(); err != nil {
		return "", err
	}
	for _, p := range []string{"user_version", "application_id", "schema_version", "page_count", "freelist_count"} {
		var v int64
		if err := side.QueryRow("PRAGMA " + p).Scan(&v); err != nil {
			return "", err
		}
		fmt.Fprintf(h, "P|%s|%d\n", p, v)
	}
	for _, t := range tables {
		rs, err := side.Query(`SELECT rowid, * FROM "` + strings.ReplaceAll(t, `"`, `""`) + `" ORDER BY rowid`)
		if err != nil {
			return "", err
		}
		cols, _ := rs.Columns()
		fmt.Fprintf(h, "T|%s|%d\n", t, len(cols))
		for rs.Next() {
			vals := make([]any, len(cols))
			ptrs := make([]any, len(cols))
			for i := range vals {
				ptrs[i] = &vals[i]
			}
			if err := rs.Scan(ptrs...); err != nil {
				rs.Close()
				return "", err
			}
			for _, v := range vals {
				switch x := v.(type) {
				case []byte:
					fmt.Fprintf(h, "b:%x|", x)
				default:
					fmt.Fprintf(h, "%T:%v|", v, v)
				}
			}
			h.Write([]byte{'\n'})
		}
		rs.Close()
		if err := rs.Err(); err != nil {
			return "", err
		}
	}
	return hex.EncodeToString(h.Sum(nil)), nil
}

func fileSHA(p string) string {
	b, err := os.ReadFile(p)
	if err != nil {
		if os.IsNotExist(err) {
			return "absent"
		}
		return "err:" + err.Error()
	}
	return sha(b)
}

func c37Snapshot(dir, dbPath string, side *sql.DB) (c37Snap, error) {
	var sn c37Snap
	es, err := os.ReadDir(dir)
	if err != nil {
		return sn, err
	}
	var names []string
	for _, e := range es {
		names = append(names, e.Name())
	}
	sort.Strings(names)
	sn.Listing = strings.Join(names, " ")
	sn.MainSHA = fileSHA(dbPath)
	sn.WalSHA = fileSHA(dbPath + "-wal")
	sn.Sentinel = fileSHA(filepath.Join(dir, "sentinel.txt"))
	sn.Dump, err = c37Dump(side)
	return sn, err
}

// ---------------------------------------------------------------------------
// Execution of one case
// ---------------------------------------------------------------------------

var summaryRe = regexp.MustCompile(`^\[(\d+) rows( shown; result truncated[^\]]*)?\]$`)

func errClass(err error) string {
	if err == nil {
		return "ok"
	}
	m := err.Error()
	switch {
	case m == "empty query":
		return "filter-empty"
	case m == "only a single statement is allowed":
		return "filter-multi-statement"
	case m == "only read-only SELECT/WITH queries are allowed":
		return "filter-prefix"
	case errors.Is(err, context.DeadlineExceeded) || strings.Contains(m, "deadline exceeded") || strings.Contains(m, "interrupted") || strings.Contains(m, "context canceled"):
		return "engine-timeout"
	case strings.Contains(m, "readonly database") || strings.Contains(m, "read-only"):
		return "engine-readonly-refusal"
	case strings.Contains(m, "syntax error") || strings.Contains(m, "unrecognized token") || strings.Contains(m, "incomplete input"):
		return "engine-syntax-error"
	case strings.HasPrefix(m, "query failed:"):
		return "engine-other-error"
	default:
		return "other-error"
	}
}

func reachedEngine(class string) bool {
	return class == "ok" || strings.HasPrefix(class, "engine-") || class == "other-error"
}

func runC37(s *kit.Session, f kit.Failer, c c37Case, ntTimeout bool) {
	rowCap, byteCap := daisen2.VerifDataQueryCaps()
	dir := caseDir("c37")
	defer os.RemoveAll(dir)
	dbPath := filepath.Join(dir, "trace.sqlite3")
	copyFile(dbPath, c37BuildTemplate(c.Template%c37Templates))
	if err := os.WriteFile(filepath.Join(dir, "sentinel.txt"), []byte("sentinel-c37\n"), 0o644); err != nil {
		panic(err)
	}
	var srv *daisen2.Server
	if ok, sig, msg := kit.Guard(func() { srv = daisen2.NewReplayServer(dbPath, "") }); !ok {
		s.Fail(f, c, sig, "%s", msg)
		return
	}
	pool := daisen2.VerifDB(srv)
	defer pool.Close()
	// harness-side speed-up only: no fsync for the probe writes / final checkpoint
	_, _ = pool.Exec("PRAGMA synchronous=OFF")
	// independent observer connection, kept open for the whole case so that no
	// connection open/close (and hence no checkpoint) happens between snapshots
	side, err := sql.Open("sqlite3", dbPath)
	if err != nil {
		panic(err)
	}
	side.SetMaxOpenConns(1)
	defer side.Close()
	_, _ = side.Exec("PRAGMA synchronous=OFF")
	if _, err := c37Dump(side); err != nil {
		panic("observer connection: " + err.Error())
	}

	anyEngine, anyTimeout := false, false
	var classes []string
	for qi, q := range c.Queries {
		text := q.text(dir)
		before, err := c37Snapshot(dir, dbPath, side)
		if err != nil {
			panic("snapshot before: " + err.Error())
		}
		ctx := context.Background()
		cancel := func() {}
		if q.DeadlineUS >= 0 {
			ctx, cancel = context.WithTimeout(ctx, time.Duration(q.DeadlineUS)*time.Microsecond)
		}
		var out string
		var qerr error
		ok, sig, msg := kit.Guard(func() {
			switch q.Via {
			case "tool":
				out, qerr = daisen2.VerifRunDataQueryTool(ctx, srv, map[string]interface{}{"reason": "verif", "sql": text})
			case "tool-nosql":
				out, qerr = daisen2.VerifRunDataQueryTool(ctx, srv, map[string]interface{}{"reason": text})
			case "tool-badtype":
				out, qerr = daisen2.VerifRunDataQueryTool(ctx, srv, map[string]interface{}{"sql": []interface{}{text}, "reason": 1.5})
			default:
				out, qerr = daisen2.VerifRunDataQuery(ctx, srv, text)
			}
		})
		cancel()
		if !ok {
			s.Fail(f, c, sig, "query %d %q: %s", qi, clipStr(text, 300), msg)
			return
		}
		ec := errClass(qerr)
		classes = append(classes, "outcome:"+ec, "gen:"+q.Kind)
		if q.DeadlineUS >= 0 && q.DeadlineUS < 1000 {
			classes = append(classes, "deadline<1ms")
		}
		if reachedEngine(ec) {
			anyEngine = true
		}
		if ec == "engine-timeout" {
			anyTimeout = true
		}
		where := ec
		if ec == "ok" {
			where = "after-ok-query"
		}

		// 1. the trace and its directory are unchanged
		after, err := c37Snapshot(dir, dbPath, side)
		if err != nil {
			s.Fail(f, c, "trace-unreadable:"+where, "query %d %q (%s): the trace can no longer be dumped: %v", qi, clipStr(text, 300), ec, err)
			return
		}
		switch {
		case after.Dump != before.Dump:
			s.Fail(f, c, "trace-content-changed:"+q.Kind, "query %d %q (outcome %s): logical dump of the trace changed", qi, clipStr(text, 400), ec)
			return
		case after.Listing != before.Listing:
			s.Fail(f, c, "directory-changed:"+q.Kind, "query %d %q (outcome %s): directory listing %q -> %q", qi, clipStr(text, 400), ec, before.Listing, after.Listing)
			return
		case after.MainSHA != before.MainSHA || after.WalSHA != before.WalSHA:
			s.Fail(f, c, "trace-file-bytes-changed:"+q.Kind, "query %d %q (outcome %s): sha256 main %s->%s wal %s->%s", qi, clipStr(text, 400), ec, before.MainSHA[:12], after.MainSHA[:12], before.WalSHA[:12], after.WalSHA[:12])
			return
		case after.Sentinel != before.Sentinel:
			s.Fail(f, c, "other-file-changed:"+q.Kind, "query %d %q: sentinel file changed", qi, clipStr(text, 400))
			return
		}
		for _, n := range evilRelNames {
			if _, err := os.Stat(n); err == nil {
				_ = os.Remove(n)
				s.Fail(f, c, "file-created-in-cwd:"+q.Kind, "query %d %q (outcome %s): file %s was created in the working directory", qi, clipStr(text, 400), ec, n)
				return
			}
		}

		// 2. output within the documented caps
		if qerr == nil {
			i := strings.IndexByte(out, '\n')
			if i < 0 {
				s.Fail(f, c, "output-shape", "query %d %q: output without summary line: %q", qi, clipStr(text, 300), clipStr(out, 200))
				return
			}
			summary, body := out[:i], out[i+1:]
			m := summaryRe.FindStringSubmatch(summary)
			if m == nil {
				s.Fail(f, c, "output-shape", "query %d %q: unexpected summary line %q", qi, clipStr(text, 300), clipStr(summary, 200))
				return
			}
			n, _ := strconv.Atoi(m[1])
			if m[2] != "" {
				classes = append(classes, "result-truncated")
			}
			if n == rowCap {
				classes = append(classes, "rows==cap")
			}
			if n > rowCap {
				s.Fail(f, c, "row-cap", "query %d %q: %d rows returned, cap is %d", qi, clipStr(text, 300), n, rowCap)
				return
			}
			if lines := strings.Count(body, "\n"); lines < n+1 {
				s.Fail(f, c, "output-shape", "query %d %q: summary says %d rows but the body has %d lines", qi, clipStr(text, 300), n, lines)
				return
			}
			if len(body) > byteCap {
				hl := strings.IndexByte(body, '\n') + 1
				sig := "byte-cap:rows"
				if hl > byteCap {
					sig = "byte-cap:header-line"
				}
				s.Fail(f, c, sig, "query %d %q…: CSV body is %d bytes (header line %d bytes, %d rows), documented cap is %d", qi, clipStr(text, 120), len(body), hl, n, byteCap)
				if _, known := s.IsKnown(sig); !known {
					return
				}
				classes = append(classes, "known:"+sig)
			} else if len(body) > byteCap-5000 {
				classes = append(classes, "body-near-byte-cap")
			}
		} else {
			if out != "" {
				s.Fail(f, c, "output-with-error", "query %d %q: error %v together with %d bytes of output", qi, clipStr(text, 300), qerr, len(out))
				return
			}
			if len(qerr.Error()) > byteCap {
				classes = append(classes, "error-text>byte-cap(not-asserted)")
			}
		}

		// 3. the pool is left usable: a write through the same *sql.DB succeeds.
		// (Done after the comparison above; it changes the trace, the next
		// query's "before" snapshot is taken after it.)
		_, perr := pool.Exec(`CREATE TABLE IF NOT EXISTS verif_scratch (x)`)
		if perr == nil {
			_, perr = pool.Exec(`INSERT INTO verif_scratch VALUES (?)`, qi)
		}
		if perr != nil {
			pe := "other"
			switch {
			case strings.Contains(perr.Error(), "readonly"):
				pe = "readonly"
			case strings.Contains(perr.Error(), "interrupted"):
				pe = "interrupted"
			case strings.Contains(perr.Error(), "locked") || strings.Contains(perr.Error(), "busy"):
				pe = "locked"
			}
			s.Fail(f, c, "pool-unusable:"+pe+":"+where, "after query %d %q (outcome %s) a write through the server's pool fails: %v", qi, clipStr(text, 300), ec, perr)
			return
		}
		var qo int
		if err := pool.QueryRow(`PRAGMA query_only`).Scan(&qo); err != nil || qo != 0 {
			s.Fail(f, c, "pool-query-only-left-on:"+where, "after query %d %q (outcome %s): PRAGMA query_only = %d err=%v on the pooled connection", qi, clipStr(text, 300), ec, qo, err)
			return
		}
	}
	if ntTimeout {
		s.Note(c, anyTimeout, classes...)
		return
	}
	s.Note(c, anyEngine, classes...)
}

// ---------------------------------------------------------------------------
// SQL grammar
// ---------------------------------------------------------------------------

type sqlGen struct {
	rt       *rapid.T
	template int
	// header steering (only when the header-line finding is listed as known):
	// text that can end up in a result-column name is drawn from a per-query
	// budget, so that the header line stays below the byte cap by construction
	// (<= 30 000 bytes of names from the text + <= 2000 schema columns).
	steer    bool
	inResult int
	budget   int
	steered  bool
	noAgg    int
	rowsBig  int
}

// nameLen clamps a drawn length of text that may become (part of) a column name.
func (g *sqlGen) nameLen(n int) int {
	if !g.steer || g.inResult == 0 {
		return n
	}
	if n > g.budget {
		n = g.budget
		g.steered = true
	}
	g.budget -= n
	return n
}

func (g *sqlGen) pick(label string, opts ...string) string {
	return rapid.SampledFrom(opts).Draw(g.rt, label)
}
func (g *sqlGen) n(label string, lo, hi int) int { return rapid.IntRange(lo, hi).Draw(g.rt, label) }
func (g *sqlGen) chance(label string, oneIn int) bool {
	return rapid.IntRange(0, oneIn-1).Draw(g.rt, label) == 0
}

var traceCols = []string{"ID", "ParentID", "Kind", "What", "Location", "StartTime", "EndTime"}
var tableCols = map[string][]string{
	"trace":     traceCols,
	"location":  {"ID", "Locale"},
	"milestone": {"ID", "TaskID", "Time", "Kind", "What"},
}

func (g *sqlGen) table() string {
	opts := []string{"trace", "trace", "trace", "location", "sqlite_master", "pragma_table_info('trace')", "pragma_database_list"}
	if g.template%c37Templates == 2 {
		opts = append(opts, "v_trace", "\"daisen$segments\"", "nosuchtable")
	} else {
		opts = append(opts, "milestone", "milestone")
	}
	return rapid.SampledFrom(opts).Draw(g.rt, "table")
}

func (g *sqlGen) hasMilestone() bool { return g.template%c37Templates != 2 }

// sizeN draws a size for zeroblob/printf/literals/aliases. Behind a cross join
// (tens of thousands of rows) only small per-row values are generated, so that
// DISTINCT/ORDER BY/group_concat over them stay in the tens of megabytes.
func (g *sqlGen) sizeN() int {
	if g.rowsBig > 0 {
		return rapid.SampledFrom([]int{0, 1, 7, 100}).Draw(g.rt, "size")
	}
	return rapid.SampledFrom([]int{0, 1, 7, 100, 4095, 4096, 4097, 20000, 65535, 65536, 65537, 70000, 300000, 2000000}).Draw(g.rt, "size")
}

func (g *sqlGen) fill() string {
	return g.pick("fill", "a", "x", "Z", "é", "0", "_", " ", "'", ",", "\n")
}

// ident returns a quoted identifier/alias of the given length.
func (g *sqlGen) longName(n int) string {
	ch := g.pick("namech", "a", "b", "é", "_", " ", ",")
	n = g.nameLen(n)
	if n < 1 {
		n = 1
	}
	body := strings.Repeat(ch, n/len(ch)+1)[:n]
	for !utf8.ValidString(body) {
		body = body[:len(body)-1]
	}
	switch g.n("quote", 0, 2) {
	case 0:
		return `"` + body + `"`
	case 1:
		return "[" + body + "]"
	default:
		return "`" + body + "`"
	}
}

func (g *sqlGen) lit() string {
	switch g.n("lit", 0, 8) {
	case 0:
		return strconv.Itoa(g.n("int", -3, 1000))
	case 1:
		return "1.5e3"
	case 2:
		return "NULL"
	case 3:
		return "'" + g.pick("str", "read", "write", "a,b", "x''y", "line\nbreak", "-- not a comment", "/* nor this */", "limit 5", "ünï") + "'"
	case 4:
		return "x'00ff2c0a'"
	case 5: // long literal
		n := g.sizeN()
		if n > 300000 {
			n = 300000
		}
		n = g.nameLen(n)
		f := g.fill()
		if f == "'" {
			f = "''"
		}
		return "'" + strings.Repeat(f, n/len(f)) + "'"
	case 6:
		return "9223372036854775807"
	default:
		return strconv.Itoa(g.n("small", 0, 9))
	}
}

func (g *sqlGen) col(tbl string) string {
	cols, ok := tableCols[tbl]
	if !ok {
		switch tbl {
		case "sqlite_master":
			return g.pick("mcol", "name", "type", "sql", "rowid")
		case "pragma_table_info('trace')":
			return g.pick("pcol", "name", "type", "cid", "pk")
		case "pragma_database_list":
			return g.pick("dcol", "name", "file", "seq")
		case "v_trace":
			return g.pick("vcol", "ID", "Kind")
		case "daisen$segments":
			return g.pick("scol", "StartTime", "EndTime")
		}
		return g.pick("anycol", "1", "2", "'k'", "NULL", "nosuchcol")
	}
	return rapid.SampledFrom(cols).Draw(g.rt, "col")
}

func (g *sqlGen) expr(tbl string, depth int) string {
	if depth <= 0 {
		if g.chance("leaf-lit", 3) {
			return g.lit()
		}
		return g.col(tbl)
	}
	switch g.n("expr", 0, 16) {
	case 0:
		return g.lit()
	case 1, 2:
		return g.col(tbl)
	case 3:
		return fmt.Sprintf("%s(%s)", g.pick("fn1", "length", "upper", "lower", "typeof", "abs", "hex", "quote", "trim", "unicode", "round"), g.expr(tbl, depth-1))
	case 4:
		if g.noAgg > 0 && !g.chance("agg-anyway", 10) {
			return g.col(tbl)
		}
		g.noAgg++
		defer func() { g.noAgg-- }()
		return fmt.Sprintf("%s(%s)", g.pick("agg", "count", "sum", "min", "max", "avg", "total", "group_concat"), g.expr(tbl, depth-1))
	case 5:
		if g.noAgg > 0 && !g.chance("agg-anyway", 10) {
			return g.lit()
		}
		return "count(*)"
	case 6:
		return fmt.Sprintf("(%s %s %s)", g.expr(tbl, depth-1), g.pick("op", "+", "-", "*", "/", "%", "||", "=", "<>", "<", ">=", "AND", "OR", "LIKE", "IS", "IS NOT", "&", "|", "<<"), g.expr(tbl, depth-1))
	case 7:
		return fmt.Sprintf("zeroblob(%d)", g.sizeN())
	case 8:
		return fmt.Sprintf("hex(zeroblob(%d))", g.sizeN())
	case 9:
		return fmt.Sprintf("printf('%%.*c', %d, '%s')", g.sizeN(), g.pick("pc", "x", ",", "y"))
	case 10:
		return fmt.Sprintf("replace(hex(zeroblob(%d)), '00', '%s')", g.sizeN()/4, g.pick("rep", "ab", ",", "\n", "xyz"))
	case 11:
		return fmt.Sprintf("CASE WHEN %s THEN %s ELSE %s END", g.expr(tbl, depth-1), g.expr(tbl, depth-1), g.lit())
	case 12:
		return fmt.Sprintf("CAST(%s AS %s)", g.expr(tbl, depth-1), g.pick("ty", "TEXT", "INTEGER", "REAL", "BLOB", "NUMERIC"))
	case 13:
		return fmt.Sprintf("(SELECT %s FROM %s LIMIT 1)", g.pick("sub", "count(*)", "max(ID)", "Locale", "1"), g.pick("subt", "trace", "location"))
	case 14:
		return fmt.Sprintf("substr(%s, %d, %d)", g.expr(tbl, depth-1), g.n("s1", -2, 5), g.n("s2", 0, 5000))
	case 15:
		return fmt.Sprintf("coalesce(%s, %s)", g.expr(tbl, depth-1), g.lit())
	default:
		return g.pick("misc", "random()", "randomblob(16)", "sqlite_version()", "changes()", "total_changes()", "last_insert_rowid()", "load_extension('x')", "sqlite_source_id()", "rowid", "json('[1]')", "current_timestamp", "likelihood(1,0.5)")
	}
}

func (g *sqlGen) resultCols(tbl string) string {
	g.inResult++
	defer func() { g.inResult-- }()
	switch g.n("rc", 0, 9) {
	case 0, 1:
		return "*"
	case 2: // many stars / many columns
		k := rapid.SampledFrom([]int{2, 10, 100, 285, 286, 400}).Draw(g.rt, "stars")
		return strings.TrimSuffix(strings.Repeat("*,", k), ",")
	case 3: // many literal columns
		k := rapid.SampledFrom([]int{50, 1000, 1999, 2000, 2001, 5000}).Draw(g.rt, "ncols")
		return strings.TrimSuffix(strings.Repeat("1,", k), ",")
	case 4: // long alias(es): the header line
		k := g.n("naliases", 1, 4)
		var parts []string
		for i := 0; i < k; i++ {
			parts = append(parts, g.expr(tbl, 1)+" AS "+g.longName(g.sizeN()/k))
		}
		return strings.Join(parts, ", ")
	default:
		k := g.n("k", 1, 5)
		var parts []string
		for i := 0; i < k; i++ {
			e := g.expr(tbl, g.n("d", 0, 2))
			if g.chance("alias", 3) {
				e += " AS " + g.pick("al", "n", "c1", "\"a b\"", "[x,y]", "\"multi\nline\"", "`q`")
			}
			parts = append(parts, e)
		}
		return strings.Join(parts, ", ")
	}
}

func (g *sqlGen) from() (string, string) {
	switch g.n("from", 0, 8) {
	case 0, 1, 2:
		t := g.table()
		return t, strings.Trim(t, `"`)
	case 3:
		return "trace t JOIN location l ON t.Location = l.ID", "?"
	case 4: // cross join: large results (template 1: 40 rows each -> up to 64 000 rows)
		g.rowsBig++
		k := g.n("cross", 2, 3)
		parts := []string{}
		for i := 0; i < k; i++ {
			ct := g.pick("ct", "trace", "trace", "location", "milestone")
			if ct == "milestone" && !g.hasMilestone() {
				ct = "trace"
			}
			parts = append(parts, fmt.Sprintf("%s t%d", ct, i))
		}
		return strings.Join(parts, ", "), "?"
	case 5:
		sub, _ := g.selectCore(1)
		return "(" + sub + ") sq", "?"
	case 6:
		return "(VALUES (1,'a'),(2,'b'),(3,NULL)) v", "?"
	case 7:
		if !g.hasMilestone() {
			return "trace t LEFT JOIN location m ON m.ID = t.Location", "?"
		}
		return "trace t LEFT JOIN milestone m ON m.TaskID = t.ID", "?"
	default:
		return "trace NATURAL JOIN location", "?"
	}
}

func (g *sqlGen) limitClause() string {
	switch g.n("lim", 0, 7) {
	case 0, 1, 2:
		return ""
	case 3:
		return fmt.Sprintf(" LIMIT %d", rapid.SampledFrom([]int{0, 1, 5, 999, 1000, 1001, 5000, 100000}).Draw(g.rt, "limn"))
	case 4:
		return fmt.Sprintf(" limit %d offset %d", g.n("l", 0, 2000), g.n("o", 0, 50))
	case 5:
		return " LIMIT -1"
	case 6:
		return " /* limit 1 */" // fools the LIMIT detector only
	default:
		return " LIMIT 100000"
	}
}

// selectCore returns a SELECT statement (no WITH) and whether it may produce many rows.
func (g *sqlGen) selectCore(depth int) (string, bool) {
	from, tbl := g.from()
	var sb strings.Builder
	sb.WriteString(g.pick("selkw", "SELECT", "SELECT", "select", "SeLeCt", "SELECT DISTINCT", "SELECT ALL"))
	sb.WriteString(" ")
	sb.WriteString(g.resultCols(tbl))
	sb.WriteString(" FROM ")
	sb.WriteString(from)
	if g.chance("where", 3) {
		g.noAgg++
		sb.WriteString(" WHERE " + g.expr(tbl, 2))
		g.noAgg--
	}
	if g.chance("group", 5) {
		sb.WriteString(" GROUP BY " + g.col(tbl))
		if g.chance("having", 3) {
			sb.WriteString(" HAVING count(*) > 0")
		}
	}
	if depth > 0 && g.chance("compound", 8) {
		// a compound with matching arity
		sb.Reset()
		sb.WriteString("SELECT ID, Kind FROM trace")
		sb.WriteString(g.pick("cop", " UNION ", " UNION ALL ", " EXCEPT ", " INTERSECT "))
		sb.WriteString(g.pick("cright", "SELECT ID, Locale FROM location", "SELECT ParentID, What FROM trace", "SELECT 1, "+g.lit(), "VALUES (1, 'read')"))
	}
	if g.chance("order", 4) {
		sb.WriteString(" ORDER BY " + g.pick("ob", "1", "1 DESC", "2", "random()", "ID"))
	}
	if depth > 0 {
		sb.WriteString(g.limitClause())
	}
	return sb.String(), true
}

func (g *sqlGen) recursiveCTE() string {
	bound := rapid.SampledFrom([]int{0, 10, 999, 1000, 1001, 5000, 200000}).Draw(g.rt, "rbound")
	final := g.pick("rfinal", "SELECT x FROM c", "SELECT count(*), sum(x) FROM c", "SELECT x, x*x, hex(zeroblob(x%100)) FROM c", "SELECT x FROM c ORDER BY x DESC", "SELECT group_concat(x) FROM c")
	if bound == 0 { // unbounded recursion: only the LIMIT stops it
		return "WITH RECURSIVE c(x) AS (SELECT 1 UNION ALL SELECT x+1 FROM c) SELECT x FROM c" + g.pick("rlim", "", " LIMIT 10", " LIMIT 1000", " LIMIT 1001", " LIMIT 5000")
	}
	return fmt.Sprintf("WITH RECURSIVE c(x) AS (SELECT 1 UNION ALL SELECT x+1 FROM c WHERE x < %d) %s%s", bound, final, g.limitClause())
}

func (g *sqlGen) ctePrefix() string {
	return g.pick("cte",
		"WITH x(a) AS (SELECT 1 LIMIT 1) ",
		"WITH x(a) AS (VALUES(1)) /* limit 1 */ ",
		"with x(a) as (select ID from trace limit 2), y as (select 1) ",
		"WITH RECURSIVE x(a) AS (SELECT 1 UNION ALL SELECT a+1 FROM x LIMIT 3) ",
		"WITH x(a) AS (SELECT 1) ", // no LIMIT anywhere: the injected LIMIT breaks a write (syntax error)
		"WITH x(a) AS MATERIALIZED (SELECT ID FROM trace LIMIT 9) ",
	)
}

func (g *sqlGen) writeStmt() string {
	switch g.n("w", 0, 11) {
	case 0:
		return "INSERT INTO trace VALUES (999,0,'evil','w',1,0,1)"
	case 1:
		return "INSERT INTO trace SELECT * FROM trace"
	case 2:
		return "INSERT OR REPLACE INTO location(ID, Locale) VALUES (1, 'evil')"
	case 3:
		return "REPLACE INTO location VALUES (77, 'evil')"
	case 4:
		return "UPDATE trace SET Kind = 'evil'"
	case 5:
		return "UPDATE location SET Locale = Locale || 'y' WHERE ID >= 0"
	case 6:
		return "DELETE FROM trace"
	case 7:
		return "DELETE FROM location WHERE ID IN (SELECT a FROM x)"
	case 8:
		return "INSERT INTO location SELECT a, 'evil' FROM x"
	case 9:
		return "UPDATE trace SET What = (SELECT max(a) FROM x) WHERE ID = 1"
	case 10:
		return "INSERT INTO location DEFAULT VALUES"
	default:
		return "DELETE FROM trace WHERE ID = (SELECT min(ID) FROM trace)"
	}
}

func (g *sqlGen) smuggledWrite() string {
	q := g.ctePrefix() + g.writeStmt()
	q += g.pick("ret", "", " RETURNING *", " RETURNING ID", " RETURNING 1 /* limit 1 */", " RETURNING rowid")
	return q
}

var evilStatements = []string{
	"PRAGMA query_only = OFF; DELETE FROM trace",
	"PRAGMA query_only=0; UPDATE location SET Locale='evil'",
	"PRAGMA query_only=false; INSERT INTO trace VALUES (1,2,'e','e',1,0,0)",
	"PRAGMA query_only=0; DROP TABLE location",
	"PRAGMA query_only=0; CREATE TABLE verif_t(x)",
	"PRAGMA query_only=0; ALTER TABLE trace ADD COLUMN z",
	"PRAGMA query_only=0; ATTACH DATABASE '{DIR}/verif_evil_abs.db' AS e; CREATE TABLE e.t(x)",
	"PRAGMA query_only=0; ATTACH DATABASE 'verif_evil_rel.db' AS e; CREATE TABLE e.t(x)",
	"PRAGMA query_only=0; VACUUM INTO '{DIR}/verif_evil_vac.db'",
	"VACUUM INTO '{DIR}/verif_evil_vac.db'",
	"VACUUM INTO 'verif_evil_rel2.db'",
	"PRAGMA query_only=0; VACUUM",
	"PRAGMA journal_mode=DELETE",
	"PRAGMA wal_checkpoint(TRUNCATE)",
	"PRAGMA query_only=0; PRAGMA user_version=7; SELECT 1",
	"PRAGMA query_only=0; PRAGMA user_version=7",
	"PRAGMA query_only=0; ANALYZE",
	"PRAGMA query_only=0; CREATE INDEX verif_i ON trace(ID)",
	"PRAGMA query_only=0; PRAGMA writable_schema=ON; DELETE FROM sqlite_master",
	"DELETE FROM trace",
	"DROP TABLE trace",
	"ATTACH DATABASE '{DIR}/verif_evil_abs.db' AS e",
}

func (g *sqlGen) multiStatement() string {
	first := g.pick("ms-first", "SELECT 1", "SELECT * FROM trace", "select count(*) from trace", "WITH x AS (SELECT 1) SELECT * FROM x", "SELECT 'a'", "SELECT 1 LIMIT 1")
	hider := g.pick("ms-hider", "", "", " ", " -- c\n", " /* c */ ", "\n", " --\n", " /* ; */ ", " -- ; \n", "\t")
	switch g.n("ms-shape", 0, 9) {
	case 0: // string literal containing comment openers in front
		first = "SELECT '--'"
	case 1:
		first = "SELECT '/*'"
	case 2:
		first = `SELECT 1 AS "a;b"`
	case 3:
		first = "SELECT ';'"
	case 4: // the rest hidden from a naive comment stripper, not from sqlite
		first = "SELECT '/*' AS a"
		hider = " "
	}
	evil := rapid.SampledFrom(evilStatements).Draw(g.rt, "evil")
	tail := g.pick("ms-tail", "", ";", "; ", " -- x", "; SELECT 1", " /* */")
	return first + hider + ";" + g.pick("ms-sp", "", " ", "\n") + evil + tail
}

func (g *sqlGen) nonSelect() string {
	switch g.n("ns", 0, 6) {
	case 0, 1:
		return rapid.SampledFrom(evilStatements).Draw(g.rt, "evil1")
	case 2:
		return g.pick("ns2", "", " ", ";", ";;;", "\n\t ", "()", "(", "((((")
	case 3:
		return g.pick("ns3", "/* c */ SELECT 1", "-- c\nSELECT 1", "EXPLAIN SELECT 1", "VALUES (1)", "EXPLAIN QUERY PLAN SELECT * FROM trace", "BEGIN", "COMMIT", "SAVEPOINT s", "PRAGMA table_info(trace)", "PRAGMA query_only=0")
	case 4:
		return g.pick("ns4", "SELECTED", "WITHOUT", "SELECT", "WITH", "WITH x", "SELECT;", "((SELECT 1))", "(SELECT 1)", "( SELECT 1 ) UNION ALL SELECT 2", "SELECT 1;", "SELECT 1 ; ", "SELECT 1;;;\n", "\ufeffSELECT 1", " SELECT 1")
	case 5:
		return "SELECT 1 UNION ALL " + g.writeStmt()
	default:
		return g.writeStmt()
	}
}

var mutationTokens = []string{";", "--", "/*", "*/", "'", "\"", "\x00", " LIMIT 5", " limit 0", " RETURNING *", "(", ")", "SELECT ", "WITH ", ";PRAGMA query_only=0;", "\n", " ", ",", "*", "DELETE FROM trace", "x'", "||", "\\", "é", " ", "0", "9999999"}

func (g *sqlGen) mutate(q string) string {
	r := []rune(q)
	if len(r) > 4000 { // keep huge texts as they are apart from head/tail edits
		head := g.mutate(string(r[:200]))
		return head + string(r[200:])
	}
	k := g.n("mut-n", 1, 4)
	for i := 0; i < k; i++ {
		if len(r) == 0 {
			r = []rune("SELECT 1")
		}
		pos := g.n("mut-pos", 0, len(r))
		switch g.n("mut-op", 0, 5) {
		case 0: // delete a range
			end := min(len(r), pos+g.n("mut-len", 1, 8))
			r = append(r[:pos:pos], r[end:]...)
		case 1, 2: // insert a token
			tok := []rune(rapid.SampledFrom(mutationTokens).Draw(g.rt, "mut-tok"))
			r = append(r[:pos:pos], append(tok, r[pos:]...)...)
		case 3: // duplicate a range
			end := min(len(r), pos+g.n("mut-len", 1, 12))
			dup := append([]rune{}, r[pos:end]...)
			r = append(r[:end:end], append(dup, r[end:]...)...)
		case 4: // replace one rune
			if pos < len(r) {
				r[pos] = rapid.SampledFrom([]rune{';', '\'', '"', '(', ')', ' ', '-', '*', '0', 'x', '\n'}).Draw(g.rt, "mut-r")
			}
		default: // truncate
			r = r[:pos]
		}
	}
	return string(r)
}

func genC37Query(rt *rapid.T, template int, steer bool) (c37Query, bool) {
	g := &sqlGen{rt: rt, template: template, steer: steer, budget: 30000}
	var q c37Query
	q.DeadlineUS = -1
	switch g.n("qclass", 0, 15) {
	case 0, 1, 2, 3:
		q.SQL, _ = g.selectCore(1)
		q.Kind = "select"
	case 4:
		sel, _ := g.selectCore(1)
		q.SQL = g.ctePrefix() + sel
		q.Kind = "with-select"
	case 5:
		q.SQL = g.recursiveCTE()
		q.Kind = "recursive-cte"
	case 6, 7, 8:
		q.SQL = g.smuggledWrite()
		q.Kind = "cte-smuggled-write"
	case 9, 10:
		q.SQL = g.multiStatement()
		q.Kind = "multi-statement"
	case 11:
		q.SQL = g.nonSelect()
		q.Kind = "non-select"
	case 12: // header / size extremes
		q.SQL = "SELECT " + g.resultCols("trace") + g.pick("hx-from", "", " FROM trace", " FROM trace, location")
		q.Kind = "size-extreme"
	default:
		var base string
		switch g.n("mut-base", 0, 3) {
		case 0:
			base, _ = g.selectCore(1)
		case 1:
			base = g.smuggledWrite()
		case 2:
			base = g.multiStatement()
		default:
			base = g.recursiveCTE()
		}
		q.SQL = g.mutate(base)
		q.Kind = "mutated"
		q.DeadlineUS = 400_000 // a mutated bound can make a query long; the oracle does not depend on whether it finishes
	}
	q.Via = g.pick("via", "direct", "direct", "tool", "tool", "tool", "tool-nosql", "tool-badtype")
	if q.Via == "tool-nosql" || q.Via == "tool-badtype" {
		if !g.chance("keep-via", 4) {
			q.Via = "tool"
		}
	}
	if q.DeadlineUS < 0 && g.chance("deadline", 6) {
		q.DeadlineUS = rapid.SampledFrom([]int{0, 1, 20, 50, 100, 200, 400, 1000, 5000, 50_000, 2_000_000}).Draw(rt, "deadline-us")
	}
	return q, g.steered
}

func genC37(rt *rapid.T, s *kit.Session) c37Case {
	var c c37Case
	c.Template = rapid.IntRange(0, c37Templates-1).Draw(rt, "template")
	n := rapid.SampledFrom([]int{1, 1, 1, 2, 3}).Draw(rt, "nq")
	_, headerKnown := s.IsKnown("byte-cap:header-line")
	for i := 0; i < n; i++ {
		q, steered := genC37Query(rt, c.Template, headerKnown)
		if steered {
			s.Excluded(1)
		}
		c.Queries = append(c.Queries, q)
	}
	return c
}

func TestC37SQL(t *testing.T) {
	s := kit.Begin(t, "C37", "sql",
		"1-3 SQL texts per case run against a fresh copy of one of 4 generated trace databases through runDataQuery or the agent-tool entry point, with no caller deadline or a drawn one (0 us .. 2 s). Texts come from a grammar: SELECT (joins, cross joins up to 64 000 rows, subselects, compound, aggregates, zeroblob/hex/printf/replace size extremes, up to 5000 result columns, aliases up to 2 MB), WITH incl. recursive CTEs (bounded, or unbounded and stopped by LIMIT), CTE-smuggled INSERT/UPDATE/DELETE/REPLACE [RETURNING] with and without a LIMIT that defeats the injected one, multi-statement texts (PRAGMA query_only=OFF; write / ATTACH / VACUUM INTO / journal_mode / checkpoint ...) behind comment and string-literal hiders, non-SELECT prefixes, and rune-level mutations of all of these (token insertion incl. ; -- /* NUL, deletion, duplication, truncation). Oracle per query: logical dump of every table + sqlite_master + header pragmas via an independent connection unchanged, sha256 of main file and WAL unchanged, directory listing and a sentinel file unchanged, no file with a hostile relative name in the cwd; on success the summary says <= 1000 rows and the CSV body (text after the summary line) is <= 65536 bytes; afterwards CREATE TABLE/INSERT through the server's own *sql.DB succeeds and PRAGMA query_only reads 0. Non-trivial: at least one text passed the prefix/semicolon filter and reached SQLite")
	defer s.End()
	s.Assume("the -shm sidecar is not compared byte-wise (readers legitimately update it); error texts are not held to the byte cap")

	var c c37Case
	if ok, err := kit.LoadReplay("C37", "sql", &c); ok {
		if err != nil {
			t.Fatal(err)
		}
		runC37(s, t, c, false)
		return
	} else if kit.ReplayMode() {
		t.Skip()
	}
	kit.SetChecks(1_200, 10_000)
	rapid.Check(t, func(rt *rapid.T) {
		c := genC37(rt, s)
		runC37(s, rt, c, false)
	})
}

// ---------------------------------------------------------------------------
// Deadline sub-check: long-running statements cut by the caller's context.
// ---------------------------------------------------------------------------

// Heavy statements are long but finite: the driver interrupts a statement only
// once, when the context fires, and that interrupt is lost when it arrives
// before sqlite3_step has started (sub-millisecond deadlines) - an endless
// statement would then hang the harness. {N} is the recursion bound, {X} the
// cross-join: small for the sub-millisecond sweep (the statement then simply
// runs to its end, 10-50 ms), large for the 1-20 ms deadlines (0.3-2 s if left alone).
var heavyQueries = []string{
	"WITH RECURSIVE c(x) AS (SELECT 1 UNION ALL SELECT x+1 FROM c WHERE x < {N}) SELECT count(*) FROM c",
	"WITH RECURSIVE c(x) AS (SELECT 1 UNION ALL SELECT x+1 FROM c LIMIT {N}) SELECT sum(x) FROM c",
	"SELECT count(*) FROM {X}",
	"SELECT a.ID, b.ID, c.ID FROM {X} ORDER BY random() LIMIT 5",
	"WITH RECURSIVE c(x) AS (SELECT 1 UNION ALL SELECT x+1 FROM c LIMIT {N}) SELECT x, hex(zeroblob(100)) FROM c ORDER BY x DESC",
	"WITH RECURSIVE c(x) AS (SELECT 1 UNION ALL SELECT x+1 FROM c LIMIT {N}) INSERT INTO trace SELECT x,0,'e','e',1,0,0 FROM c RETURNING ID",
	"WITH RECURSIVE c(x) AS (SELECT 1 UNION ALL SELECT x+1 FROM c LIMIT {N}) UPDATE trace SET Kind = (SELECT max(x) FROM c)",
	"SELECT hex(zeroblob({N})) FROM trace",
	"SELECT max(length(hex(zeroblob(1000)))) FROM {X}",
}

func heavySQL(tmpl string, big bool) string {
	n, x := "100000", "trace a, trace b, trace c"
	if big {
		n, x = "3000000", "trace a, trace b, trace c, trace d"
	}
	return strings.ReplaceAll(strings.ReplaceAll(tmpl, "{N}", n), "{X}", x)
}

var lightQueries = []string{
	"SELECT count(*) FROM trace",
	"SELECT * FROM trace",
	"WITH x AS (SELECT 1 LIMIT 1) DELETE FROM trace RETURNING ID",
	"SELECT * FROM pragma_query_only",
	"SELECT 1; PRAGMA query_only=0; DELETE FROM trace",
}

func TestC37Deadline(t *testing.T) {
	s := kit.Begin(t, "C37", "deadline",
		"1-3 statements per case on a fresh copy of the 40-row trace: heavy ones (recursive CTEs to 1e5/3e6, 3-4-way cross joins, multi-MB cells, smuggled writes fed by a long CTE) each with a caller deadline drawn from 0..500 us (sweep across connection checkout / PRAGMA / first step), 1 ms, 5 ms, 20 ms, interleaved with light ones; same oracle as sub-check sql, in particular the write probe and PRAGMA query_only=0 through the server's pool after every timeout. Non-trivial: at least one statement was cut by the deadline after it had passed the filter")
	defer s.End()

	var c c37Case
	if ok, err := kit.LoadReplay("C37", "deadline", &c); ok {
		if err != nil {
			t.Fatal(err)
		}
		runC37Deadline(s, t, c)
		return
	} else if kit.ReplayMode() {
		t.Skip()
	}
	kit.SetChecks(200, 1_600)
	rapid.Check(t, func(rt *rapid.T) {
		c := c37Case{Template: 1}
		n := rapid.IntRange(1, 3).Draw(rt, "n")
		for i := 0; i < n; i++ {
			var q c37Query
			q.Via = rapid.SampledFrom([]string{"direct", "tool"}).Draw(rt, "via")
			if i > 0 && rapid.Bool().Draw(rt, "light") {
				q.SQL = rapid.SampledFrom(lightQueries).Draw(rt, "lq")
				q.Kind = "light"
				q.DeadlineUS = -1
			} else {
				hq := rapid.SampledFrom(heavyQueries).Draw(rt, "hq")
				q.Kind = "heavy"
				if rapid.Bool().Draw(rt, "sweep") {
					q.DeadlineUS = rapid.IntRange(0, 500).Draw(rt, "us")
					q.SQL = heavySQL(hq, false)
				} else {
					q.DeadlineUS = rapid.SampledFrom([]int{1000, 5000, 20000}).Draw(rt, "us")
					q.SQL = heavySQL(hq, true)
				}
			}
			c.Queries = append(c.Queries, q)
		}
		runC37Deadline(s, rt, c)
	})
}

// runC37Deadline is runC37 with the non-triviality rule of the deadline sub-check.
func runC37Deadline(s *kit.Session, f kit.Failer, c c37Case) {
	runC37(s, f, c, true)
}

// ---------------------------------------------------------------------------
// Dedicated reproduction of the listed finding(s)
// ---------------------------------------------------------------------------

func TestC37Known_HeaderLine(t *testing.T) {
	s := kit.Begin(t, "C37", "known-header-line", "deterministic reproduction: one result column whose alias is 65 536 bytes long")
	defer s.End()
	if kit.ReplayMode() {
		t.Skip()
	}
	_, byteCap := daisen2.VerifDataQueryCaps()
	dir := caseDir("c37k")
	defer os.RemoveAll(dir)
	dbPath := filepath.Join(dir, "trace.sqlite3")
	copyFile(dbPath, c37BuildTemplate(0))
	srv := daisen2.NewReplayServer(dbPath, "")
	defer daisen2.VerifDB(srv).Close()
	q := `SELECT 1 AS "` + strings.Repeat("a", byteCap) + `"`
	out, err := daisen2.VerifRunDataQuery(context.Background(), srv, q)
	c := c37Case{Template: 0, Queries: []c37Query{{SQL: q, Via: "direct", DeadlineUS: -1, Kind: "size-extreme"}}}
	if err != nil {
		t.Fatalf("unexpected error %v", err)
	}
	body := out[strings.IndexByte(out, '\n')+1:]
	if len(body) > byteCap {
		s.KnownStillFails(t, c, "byte-cap:header-line", fmt.Sprintf(`SELECT 1 AS "<%d x a>" returns a CSV body of %d bytes (> %d): formatRows writes the header line before any byte-cap test`, byteCap, len(body), byteCap))
	}
	s.Note(c, true, "known-repro")
}

// TestC37Known_PoolReadOnly hammers the narrow window of the listed
// pool-unusable finding: a tiny query with caller deadlines swept over
// 0..150 us. The window is a race inside the driver, so a run may not hit it;
// then nothing is reported (the finding stays listed).
func TestC37Known_PoolReadOnly(t *testing.T) {
	s := kit.Begin(t, "C37", "known-pool-readonly", "reproduction attempt: SELECT 1 with caller deadlines 0..149 us, up to 30 000 (quick) / 200 000 (thorough) attempts, PRAGMA query_only read back through the pool after each")
	defer s.End()
	if kit.ReplayMode() {
		t.Skip()
	}
	dir := caseDir("c37k")
	defer os.RemoveAll(dir)
	dbPath := filepath.Join(dir, "trace.sqlite3")
	copyFile(dbPath, c37BuildTemplate(0))
	srv := daisen2.NewReplayServer(dbPath, "")
	pool := daisen2.VerifDB(srv)
	defer pool.Close()
	_, _ = pool.Exec("PRAGMA synchronous=OFF")
	attempts := kit.Scale(30_000, 200_000)
	for i := 0; i < attempts; i++ {
		us := i % 150
		ctx, cancel := context.WithTimeout(context.Background(), time.Duration(us)*time.Microsecond)
		_, qerr := daisen2.VerifRunDataQuery(ctx, srv, "SELECT 1")
		cancel()
		_, werr := pool.Exec(`CREATE TABLE IF NOT EXISTS verif_scratch (x)`)
		if werr != nil && strings.Contains(werr.Error(), "readonly") {
			c := c37Case{Template: 0, Queries: []c37Query{{SQL: "SELECT 1", Via: "direct", DeadlineUS: us, Kind: "select"}}}
			s.KnownStillFails(t, c, "pool-unusable:readonly:engine-timeout", fmt.Sprintf("attempt %d: SELECT 1 with a %d us caller deadline returned %v and left the pooled connection read-only: %v", i, us, qerr, werr))
			s.Note(c, true, "known-repro")
			s.Extra("attempts_until_hit", i+1)
			return
		}
	}
	s.Note(c37Case{}, false, "not-reproduced-this-run")
}

var _ = io.Discard
