package webchk

import (
	"context"
	"database/sql"
	"encoding/base64"
	"encoding/json"
	"fmt"
	"io/fs"
	"net/http"
	"net/http/httptest"
	"net/url"
	"os"
	"path"
	"path/filepath"
	"sort"
	"strings"
	"testing"

	"github.com/sarchlab/akita/v5/daisen2"
	"pgregory.net/rapid"

	"verif/harness/kit"
)

// ---------------------------------------------------------------------------
// Sub-check "serve": what /api/code/ls, /api/code/read and the agent tools
// code_ls / code_read / code_search return for any path, on a trace whose
// source table holds generated (partly hostile) archives.
// ---------------------------------------------------------------------------

const c39Marker = "VERIF-SENTINEL-7f3a9c51-must-never-be-served"

type c39Row struct {
	Root    string     `json:"root"`
	Archive c39Archive `json:"archive"`
	Bad     string     `json:"bad,omitempty"` // "" | "bad-base64" (the Content column is not base64)
}

type c39Req struct {
	Kind   string `json:"kind"` // http-read | http-ls | tool-read | tool-ls | tool-search
	Path   string `json:"path"` // {SENTINEL} / {SENTINEL_REL} are replaced at run time
	Post   bool   `json:"post"` // http: send the path as a POST form value
	Start  int    `json:"start"`
	End    int    `json:"end"`
	Query  string `json:"query"`
	Filter string `json:"filter"`
}

type c39ServeCase struct {
	NoTable bool     `json:"no_table"`
	Rows    []c39Row `json:"rows"`
	Reqs    []c39Req `json:"reqs"`
}

// c39Model is what the trace records, as a path -> candidate contents map.
type c39Model struct {
	files map[string][][]byte
	dirs  map[string]bool
	roots []string
	empty bool
}

func (m *c39Model) ambiguous(p string) bool {
	if _, ok := m.files["."]; ok {
		return true
	}
	_, f := m.files[p]
	return f && m.dirs[p]
}

type c39Child struct {
	file, dir bool
}

func (m *c39Model) children(dir string) map[string]*c39Child {
	out := map[string]*c39Child{}
	for k := range m.files {
		rest := k
		if dir != "." {
			if !strings.HasPrefix(k, dir+"/") {
				continue
			}
			rest = k[len(dir)+1:]
		}
		if rest == "." {
			continue
		}
		seg, more, deeper := strings.Cut(rest, "/")
		_ = more
		c := out[seg]
		if c == nil {
			c = &c39Child{}
			out[seg] = c
		}
		if deeper {
			c.dir = true
		} else {
			c.file = true
		}
	}
	return out
}

// keysOf computes, without running any code under test, the paths the rows
// would record (used by the request generator to aim at existing files).
func keysOf(rows []c39Row) (files []string, dirs []string) {
	fset, dset := map[string]bool{}, map[string]bool{}
	for _, r := range rows {
		for _, e := range r.Archive.Entries {
			if !e.isRegular() {
				continue
			}
			k := path.Join(r.Root, e.Name)
			if fs.ValidPath(k) && k != "." {
				fset[k] = true
				for d := path.Dir(k); d != "."; d = path.Dir(d) {
					dset[d] = true
				}
			}
		}
	}
	for k := range fset {
		files = append(files, k)
	}
	for k := range dset {
		dirs = append(dirs, k)
	}
	sort.Strings(files)
	sort.Strings(dirs)
	return
}

func jsonCoerce(b []byte) string {
	j, _ := json.Marshal(string(b))
	var s string
	_ = json.Unmarshal(j, &s)
	return s
}

func countLinesModel(b []byte) int {
	if len(b) == 0 {
		return 0
	}
	n := strings.Count(string(b), "\n")
	if b[len(b)-1] != '\n' {
		n++
	}
	return n
}

func splitLinesModel(b []byte) []string {
	if len(b) == 0 {
		return nil
	}
	l := strings.Split(string(b), "\n")
	if l[len(l)-1] == "" {
		l = l[:len(l)-1]
	}
	return l
}

// normTool mirrors what the tool descriptions promise about path spelling:
// surrounding blanks and a leading "./" are ignored (and a trailing "/" for ls).
func normTool(p string, ls bool) string {
	p = strings.TrimSpace(p)
	p = strings.TrimPrefix(p, "./")
	if ls {
		p = strings.TrimSuffix(p, "/")
	}
	return p
}

var sentinelOnce = map[string]bool{}

func runC39Serve(s *kit.Session, f kit.Failer, c c39ServeCase) {
	dir := caseDir("c39")
	defer os.RemoveAll(dir)
	dbPath := filepath.Join(dir, "trace.sqlite3")
	sentinel := filepath.Join(dir, "sentinel.go")
	if err := os.WriteFile(sentinel, []byte("package sentinel // "+c39Marker+"\n"), 0o644); err != nil {
		panic(err)
	}
	if !sentinelOnce[workDir()] {
		sentinelOnce[workDir()] = true
		_ = os.WriteFile(filepath.Join(workDir(), "sentinel.go"), []byte("package sentinel // "+c39Marker+"\n"), 0o644)
	}
	cwd, _ := os.Getwd()
	rel, _ := filepath.Rel(cwd, sentinel)

	// ---- build the trace and the model ----
	db, err := sql.Open("sqlite3", dbPath)
	if err != nil {
		panic(err)
	}
	db.SetMaxOpenConns(1)
	mustExec := func(q string, args ...any) {
		if _, err := db.Exec(q, args...); err != nil {
			panic(fmt.Sprintf("%s: %v", q, err))
		}
	}
	mustExec("PRAGMA synchronous=OFF")
	mustExec(`CREATE TABLE trace (ID INTEGER, ParentID INTEGER, Kind TEXT, What TEXT, Location INTEGER, StartTime REAL, EndTime REAL)`)
	model := &c39Model{files: map[string][][]byte{}, dirs: map[string]bool{}}
	broken := false
	if !c.NoTable {
		mustExec(`CREATE TABLE source (Root TEXT, Format TEXT, Content TEXT)`)
		rootSet := map[string]bool{}
		for _, r := range c.Rows {
			data := r.Archive.build()
			content := base64.StdEncoding.EncodeToString(data)
			if r.Bad == "bad-base64" {
				content = "!!! not base64 !!!" + content
			}
			mustExec(`INSERT INTO source VALUES (?,?,?)`, r.Root, "tar.gz;base64", content)
			if r.Bad != "" {
				broken = true
				continue
			}
			files, rejected, failed, _ := checkReadArchive(s, f, c, r.Archive, data, false)
			if failed {
				db.Close()
				return
			}
			if rejected {
				broken = true
				continue
			}
			rootSet[r.Root] = true
			seen := map[string]bool{}
			for name, b := range files {
				k := path.Join(r.Root, name)
				if !fs.ValidPath(k) {
					continue
				}
				if !seen[k] {
					seen[k] = true
					model.files[k] = nil // a later row replaces what earlier rows recorded
				}
				model.files[k] = append(model.files[k], b)
			}
		}
		for r := range rootSet {
			model.roots = append(model.roots, r)
		}
		sort.Strings(model.roots)
	}
	db.Close()
	if broken { // one unreadable row makes the server fall back to "no source"
		model.files = map[string][][]byte{}
		model.roots = nil
	}
	for k := range model.files {
		if k == "." {
			continue
		}
		for d := path.Dir(k); d != "."; d = path.Dir(d) {
			model.dirs[d] = true
		}
	}
	model.dirs["."] = true
	model.empty = len(model.files) == 0
	// the archives must not contain the marker themselves
	for _, cs := range model.files {
		for _, b := range cs {
			if strings.Contains(string(b), c39Marker) {
				panic("harness bug: marker inside generated content")
			}
		}
	}

	var srv *daisen2.Server
	if ok, sig, msg := kit.Guard(func() { srv = daisen2.NewReplayServer(dbPath, "") }); !ok {
		s.Fail(f, c, sig, "opening the trace: %s", msg)
		return
	}
	defer daisen2.VerifDB(srv).Close()
	src := srv.CodeSource()
	mux := http.NewServeMux()
	srv.RegisterTraceAPIRoutes(mux)

	classes := []string{fmt.Sprintf("recorded-files:%s", bucket(len(model.files)))}
	if broken {
		classes = append(classes, "unreadable-row")
	}
	nt := false

	for ri, rq := range c.Reqs {
		p := strings.ReplaceAll(strings.ReplaceAll(rq.Path, "{SENTINEL_REL}", rel), "{SENTINEL}", sentinel)
		ls := rq.Kind == "http-ls" || rq.Kind == "tool-ls"
		eff := p
		if strings.HasPrefix(rq.Kind, "tool-") {
			eff = normTool(p, ls)
		}
		clean := path.Clean(eff)
		escapes := !fs.ValidPath(clean)
		if rq.Kind != "tool-search" {
			if escapes {
				classes = append(classes, "path:escaping")
			} else if clean != p {
				classes = append(classes, "path:cleans-to-different")
			} else {
				classes = append(classes, "path:canonical")
			}
		}
		fail := func(sig, format string, args ...any) bool {
			s.Fail(f, c, sig, "request %d %s path=%q: %s", ri, rq.Kind, clipStr(p, 200), fmt.Sprintf(format, args...))
			return true
		}

		switch rq.Kind {
		case "http-read", "http-ls":
			route := "/api/code/read"
			if ls {
				route = "/api/code/ls"
			}
			var req *http.Request
			if rq.Post {
				req = httptest.NewRequest("POST", route, strings.NewReader(url.Values{"path": {p}}.Encode()))
				req.Header.Set("Content-Type", "application/x-www-form-urlencoded")
			} else {
				req = httptest.NewRequest("GET", route, nil)
				req.URL.RawQuery = "path=" + url.QueryEscape(p)
			}
			rec := httptest.NewRecorder()
			if ok, sig, msg := kit.Guard(func() { mux.ServeHTTP(rec, req) }); !ok {
				if fail(sig, "%s", msg) {
					return
				}
			}
			body := rec.Body.String()
			if strings.Contains(body, c39Marker) {
				fail("served-file-from-disk", "the response contains the on-disk sentinel")
				return
			}
			classes = append(classes, fmt.Sprintf("%s:%d", rq.Kind, rec.Code))
			if rec.Code != 200 {
				if escapes && !(ls && (p == "" || p == ".")) && (rec.Code < 400 || rec.Code > 499) {
					fail("escaping-path-not-refused-with-4xx:"+rq.Kind, "status %d body %q for a path that cleans to %q", rec.Code, clipStr(body, 200), clean)
					return
				}
				// positive leg: an existing recorded path must be served
				if !escapes && p != "" && !model.ambiguous(clean) {
					if cs, ok := model.files[clean]; ok && !ls && len(cs) == 1 && len(cs[0]) <= 4<<20 {
						fail("recorded-file-refused:"+rq.Kind, "status %d although %q is a recorded file (%d bytes)", rec.Code, clean, len(cs[0]))
						return
					}
					if ls && model.dirs[clean] && clean != "." {
						fail("recorded-dir-refused:"+rq.Kind, "status %d although %q is a recorded directory", rec.Code, clean)
						return
					}
				}
				continue
			}
			if !ls {
				var resp struct {
					Path    string `json:"path"`
					Content string `json:"content"`
					Lines   int    `json:"lines"`
				}
				if err := json.Unmarshal(rec.Body.Bytes(), &resp); err != nil {
					fail("bad-json", "%v", err)
					return
				}
				if escapes {
					fail("escaping-path-served:http-read", "200 for a path that cleans to %q", clean)
					return
				}
				cs, ok := model.files[resp.Path]
				if !ok || resp.Path != clean {
					fail("unrecorded-content-served:http-read", "200 with path=%q (request cleans to %q) which is not a recorded file", resp.Path, clean)
					return
				}
				match := false
				for _, b := range cs {
					if jsonCoerce(b) == resp.Content && countLinesModel(b) == resp.Lines {
						match = true
					}
				}
				if !match {
					fail("content-differs:http-read", "content (%d bytes, %d lines) is not the recorded file %q", len(resp.Content), resp.Lines, clean)
					return
				}
				if clean != p {
					nt = true
				}
				continue
			}
			// ---- http ls ----
			var resp struct {
				Path    string   `json:"path"`
				Roots   []string `json:"roots"`
				Entries []struct {
					Name  string `json:"name"`
					IsDir bool   `json:"is_dir"`
					Size  int64  `json:"size"`
				} `json:"entries"`
			}
			if err := json.Unmarshal(rec.Body.Bytes(), &resp); err != nil {
				fail("bad-json", "%v", err)
				return
			}
			if fmt.Sprint(resp.Roots) != fmt.Sprint(model.roots) && !(len(resp.Roots) == 0 && len(model.roots) == 0) {
				// roots of an unreadable trace are empty; otherwise they are the Root column
				fail("roots-differ:http-ls", "roots %q, recorded %q", resp.Roots, model.roots)
				return
			}
			if model.empty || p == "" || p == "." {
				want := map[string]bool{}
				if !model.empty {
					for _, r := range model.roots {
						want[r] = true
					}
				}
				for _, e := range resp.Entries {
					if !want[e.Name] || !e.IsDir {
						fail("unrecorded-entry:http-ls-root", "root listing has entry %q dir=%v; recorded roots %q", e.Name, e.IsDir, model.roots)
						return
					}
				}
				continue
			}
			if escapes {
				fail("escaping-path-served:http-ls", "200 for a path that cleans to %q", clean)
				return
			}
			ch := model.children(clean)
			if !model.dirs[clean] && !model.ambiguous(clean) {
				fail("unrecorded-dir-listed:http-ls", "200 for %q which is not a recorded directory", clean)
				return
			}
			for _, e := range resp.Entries {
				cc := ch[e.Name]
				if cc == nil {
					fail("unrecorded-entry:http-ls", "entry %q under %q is not recorded", e.Name, clean)
					return
				}
				if !(cc.dir && cc.file) && cc.dir != e.IsDir {
					fail("entry-kind:http-ls", "entry %q under %q: is_dir=%v, recorded dir=%v", e.Name, clean, e.IsDir, cc.dir)
					return
				}
				if !e.IsDir {
					okSize := false
					for _, b := range model.files[path.Join(clean, e.Name)] {
						if int64(len(b)) == e.Size {
							okSize = true
						}
					}
					if !okSize {
						fail("entry-size:http-ls", "entry %q under %q has size %d, not the recorded size", e.Name, clean, e.Size)
						return
					}
				}
			}
			if len(resp.Entries) != len(ch) && !model.ambiguous(clean) {
				fail("entry-count:http-ls", "%d entries under %q, recorded %d", len(resp.Entries), clean, len(ch))
				return
			}
			if clean != p {
				nt = true
			}

		case "tool-read", "tool-ls", "tool-search":
			name := map[string]string{"tool-read": "code_read", "tool-ls": "code_ls", "tool-search": "code_search"}[rq.Kind]
			args := map[string]interface{}{"reason": "verif"}
			switch rq.Kind {
			case "tool-read":
				args["path"] = p
				if rq.Start != 0 {
					args["start_line"] = float64(rq.Start)
				}
				if rq.End != 0 {
					args["end_line"] = float64(rq.End)
				}
			case "tool-ls":
				args["path"] = p
			default:
				args["query"] = rq.Query
				if rq.Filter != "" {
					args["path_contains"] = rq.Filter
				}
			}
			var out string
			var terr error
			if ok, sig, msg := kit.Guard(func() { out, terr = daisen2.VerifRunCodeTool(context.Background(), src, name, args) }); !ok {
				fail(sig, "%s", msg)
				return
			}
			if strings.Contains(out, c39Marker) || (terr != nil && strings.Contains(terr.Error(), c39Marker)) {
				fail("served-file-from-disk", "the tool output contains the on-disk sentinel")
				return
			}
			var sig, msg string
			switch rq.Kind {
			case "tool-read":
				sig, msg = judgeToolRead(model, p, eff, clean, escapes, rq, out, terr)
			case "tool-ls":
				sig, msg = judgeToolLs(model, p, eff, clean, escapes, out, terr)
			default:
				sig, msg = judgeToolSearch(model, rq, out, terr)
			}
			if sig != "" {
				fail(sig, "%s\noutput: %q err=%v", msg, clipStr(out, 400), terr)
				return
			}
			switch {
			case terr != nil:
				classes = append(classes, rq.Kind+":error")
			case strings.HasPrefix(out, "File not found") || strings.HasPrefix(out, "Directory not found") || strings.HasPrefix(out, "No matches") || strings.HasPrefix(out, "No simulator source"):
				classes = append(classes, rq.Kind+":nothing")
			default:
				classes = append(classes, rq.Kind+":content")
				if rq.Kind == "tool-search" || clean != p {
					nt = true
				}
			}
		}
	}
	s.Note(c, nt && len(model.files) >= 3, dedup(classes)...)
}

// ---------------------------------------------------------------------------
// Generators
// ---------------------------------------------------------------------------

var c39Roots = []string{"github.com/sarchlab/akita/v5", "example.com/m", "sim", "a/b", "", ".", "a/../b", "../up", "/abs", "..", "a//b", "日本", "with space", "a/./b"}

// rare is true about once in n draws (the middle value of the range: rapid
// favours the ends of integer ranges).
func rare(rt *rapid.T, label string, n int) bool {
	return rapid.IntRange(0, n-1).Draw(rt, label) == n/2
}

func genServeEntry(rt *rapid.T) c39Entry {
	switch rapid.IntRange(0, 15).Draw(rt, "hostile-entry") {
	case 7:
		return genEntry(rt, false)
	case 8, 9: // hostile name or type, but a well-formed archive
		e := c39Entry{Declared: -1, Content: genContent(rt, false)}
		e.Name = rapid.SampledFrom(hostileNames).Draw(rt, "hname")
		e.Type = rapid.SampledFrom([]string{"reg", "reg", "reg", "dir", "symlink"}).Draw(rt, "htype")
		if e.Type == "symlink" {
			e.Link = "/etc/passwd"
		}
		e.Raw = len(e.Name) <= 100 && rapid.Bool().Draw(rt, "raw")
		return e
	}
	e := c39Entry{Type: "reg", Declared: -1}
	e.Name = genValidName(rt)
	e.Content = genContent(rt, false)
	if rapid.IntRange(0, 19).Draw(rt, "manylines") == 0 { // beyond the read window / byte caps
		e.Content = c39Content{Kind: "text", Seed: rapid.IntRange(0, 99).Draw(rt, "seed"), Len: rapid.SampledFrom([]int{30_000, 100_000}).Draw(rt, "biglen")}
	}
	return e
}

func genReqPath(rt *rapid.T, files, dirs []string) string {
	var base string
	switch rapid.IntRange(0, 11).Draw(rt, "base") {
	case 0, 1, 2, 3, 4:
		if len(files) > 0 {
			base = rapid.SampledFrom(files).Draw(rt, "file")
		} else {
			base = "x.go"
		}
	case 5, 6:
		if len(dirs) > 0 {
			base = rapid.SampledFrom(dirs).Draw(rt, "dir")
		} else {
			base = "pkg"
		}
	case 7:
		base = rapid.SampledFrom(c39Roots).Draw(rt, "rootpath")
	case 8:
		base = rapid.SampledFrom([]string{"", ".", "..", "/", "nosuch.go", "nosuch/dir", "trace.sqlite3", "sentinel.go", "../sentinel.go", "go.mod"}).Draw(rt, "fixed")
	case 9:
		base = "{SENTINEL}"
	case 10:
		base = "{SENTINEL_REL}"
	default:
		base = genValidName(rt)
	}
	k := rapid.SampledFrom([]int{0, 0, 1, 1, 2, 3}).Draw(rt, "ntrans")
	for i := 0; i < k; i++ {
		last := path.Base(base)
		switch rapid.IntRange(0, 21).Draw(rt, "trans") {
		case 0:
			base = "./" + base
		case 1:
			base = "/" + base
		case 2:
			base = "../" + base
		case 3:
			base = "zz/../" + base
		case 4:
			base = base + "/"
		case 5:
			base = base + "/."
		case 6:
			base = base + "/../" + last
		case 7:
			base = strings.Replace(base, "/", "//", 1)
		case 8:
			base = strings.ReplaceAll(base, "/", "/./")
		case 9:
			base = strings.Replace(base, "/", "/q/../", 1)
		case 10:
			base = "%2e%2e/" + base
		case 11:
			base = strings.ReplaceAll(base, "/", "%2f")
		case 12:
			base = strings.ReplaceAll(base, "/", "\\")
		case 13:
			base = " " + base + " "
		case 14:
			base = base + "\x00"
		case 15:
			base = strings.ToUpper(base)
		case 16:
			base = strings.Repeat("a/", rapid.SampledFrom([]int{10, 500, 5000}).Draw(rt, "deep")) + base
		case 17:
			base = strings.Repeat("../", rapid.SampledFrom([]int{1, 8, 40, 3000}).Draw(rt, "ups")) + strings.TrimPrefix(base, "/")
		case 18:
			base = "....//" + base
		case 19:
			base = "．．／" + base
		case 20:
			base = base + "/../../" + base
		default:
			base = "./" + base + "/.."
		}
	}
	return base
}

func genServeCase(rt *rapid.T) c39ServeCase {
	var c c39ServeCase
	c.NoTable = rare(rt, "notable", 40)
	nrows := rapid.SampledFrom([]int{1, 1, 2, 1, 2, 3, 0}).Draw(rt, "nrows")
	for i := 0; i < nrows; i++ {
		var r c39Row
		if rare(rt, "weird-root", 5) {
			r.Root = rapid.SampledFrom(c39Roots).Draw(rt, "root")
		} else {
			r.Root = rapid.SampledFrom(c39Roots[:4]).Draw(rt, "root")
		}
		n := rapid.SampledFrom([]int{3, 4, 6, 2, 8, 10, 1, 0}).Draw(rt, "nentries")
		for j := 0; j < n; j++ {
			r.Archive.Entries = append(r.Archive.Entries, genServeEntry(rt))
		}
		if rare(rt, "rowbad", 30) {
			switch rapid.IntRange(0, 2).Draw(rt, "badkind") {
			case 0:
				r.Bad = "bad-base64"
			case 1:
				r.Archive.Corrupt = "not-gzip"
			default:
				r.Archive.Corrupt = "truncated-gzip"
			}
		}
		c.Rows = append(c.Rows, r)
	}
	files, dirs := keysOf(c.Rows)
	nreq := rapid.IntRange(1, 8).Draw(rt, "nreq")
	for i := 0; i < nreq; i++ {
		var rq c39Req
		rq.Kind = rapid.SampledFrom([]string{"http-read", "http-read", "http-ls", "tool-read", "tool-read", "tool-ls", "tool-search"}).Draw(rt, "rkind")
		rq.Post = rapid.IntRange(0, 4).Draw(rt, "post") == 0
		if rq.Kind == "tool-search" {
			rq.Query = rapid.SampledFrom([]string{"func", "ReadReq", "package|type", "^package", ".", "(?i)readreq", "(", "", "\\x00", "\\t", "日本", "if err != nil \\{", "a+", "\\[truncated", "^$", "x := 1"}).Draw(rt, "query")
			if rapid.Bool().Draw(rt, "filtered") {
				if len(files) > 0 && rapid.Bool().Draw(rt, "filter-from-file") {
					fl := rapid.SampledFrom(files).Draw(rt, "ffile")
					rq.Filter = fl[:rapid.IntRange(0, len(fl)).Draw(rt, "fcut")]
				} else {
					rq.Filter = rapid.SampledFrom([]string{"mem", ".go", "/", "..", "nosuch", "akita"}).Draw(rt, "filter")
				}
			}
		} else {
			rq.Path = genReqPath(rt, files, dirs)
			if rq.Kind == "tool-read" && rapid.IntRange(0, 2).Draw(rt, "ranged") == 0 {
				rq.Start = rapid.SampledFrom([]int{-5, 1, 2, 3, 10, 199, 200, 201, 400, 401, 5000}).Draw(rt, "start")
				rq.End = rapid.SampledFrom([]int{0, -1, 1, 2, 5, 200, 401, 1000, 100000}).Draw(rt, "end")
			}
		}
		c.Reqs = append(c.Reqs, rq)
	}
	return c
}

func TestC39Serve(t *testing.T) {
	s := kit.Begin(t, "C39", "serve",
		"a trace database whose source table has 0-3 rows (roots incl. empty, '.', 'a/../b', '../up', absolute), each an archive of 0-10 entries (valid unicode/long/odd names, some hostile: traversal/absolute/NUL names, directories, links, duplicates; rarely an undecodable row), opened with NewReplayServer; then 1-8 requests: GET/POST /api/code/read and /api/code/ls through the server's own route registration (httptest), and the agent tools code_read (with line ranges), code_ls, code_search through the shim. Paths aim at recorded files/dirs/roots, missing names, the database file, and an on-disk sentinel (absolute and relative to the cwd), with 0-3 rewrites: ./ / ../ x/../ prefixes, trailing / /. /../name, // /./ q/../ insertions, %2e%2e and %2f spellings, backslashes, blanks, NUL, upper case, 10-5000 leading a/ or ../ segments, ....//, full-width dots. Oracle: model = path.Join(root, name) -> bytes of the spec-verified archives (later rows replace earlier, fs.ValidPath keys only); every 200/JSON body and every tool text is parsed completely and each path, name, size, line count, numbered line and search snippet must be that of the recorded file at the cleaned path; the sentinel marker never appears; a path that cleans outside the tree gets 4xx / an error; a path that cleans to a recorded file or directory is served. Non-trivial: >= 3 recorded files and content was served for a path that differs from its cleaned form, or search results were verified")
	defer s.End()
	s.Assume("text the JSON encoder cannot carry (invalid UTF-8) is compared after the encoder's U+FFFD substitution")
	var c c39ServeCase
	if ok, err := kit.LoadReplay("C39", "serve", &c); ok {
		if err != nil {
			t.Fatal(err)
		}
		runC39Serve(s, t, c)
		return
	} else if kit.ReplayMode() {
		t.Skip()
	}
	kit.SetChecks(1_000, 8_000)
	rapid.Check(t, func(rt *rapid.T) {
		runC39Serve(s, rt, genServeCase(rt))
	})
}
