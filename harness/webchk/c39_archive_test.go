package webchk

import (
	"archive/tar"
	"bytes"
	"compress/gzip"
	"fmt"
	"io/fs"
	"runtime"
	"sort"
	"strings"
	"sync"
	"testing"
	"unicode/utf8"

	"github.com/sarchlab/akita/v5/sourcefs"
	"pgregory.net/rapid"

	"verif/harness/kit"
)

// Limits documented in sourcefs/sourcefs.go (unexported there).
const (
	c39MaxFileBytes  = 8 << 20
	c39MaxTotalBytes = 96 << 20
)

// ---------------------------------------------------------------------------
// File contents are described, not stored: (kind, seed, len) -> bytes.
// ---------------------------------------------------------------------------

type c39Content struct {
	Kind string `json:"kind"` // text | crlf | nolf | binary | zeros | longline | empty
	Seed int    `json:"seed"`
	Len  int    `json:"len"`
}

var c39Words = []string{"package", "func", "return", "ReadReq", "WriteReq", "cache", "tick", "if err != nil {", "}", "// comment", "x := 1", "\t", "    ", "type", "struct", "mshr", "日本語", "é", "\"str\"", "[truncated", "1\tfake", "(lines 1-2 of 3):"}

func (c c39Content) bytes() []byte {
	if c.Len <= 0 || c.Kind == "empty" {
		return []byte{}
	}
	x := uint64(c.Seed)*2654435761 + 88172645463325252
	next := func() uint64 {
		x ^= x << 13
		x ^= x >> 7
		x ^= x << 17
		return x
	}
	switch c.Kind {
	case "zeros":
		return make([]byte, c.Len)
	case "binary":
		b := make([]byte, c.Len)
		for i := range b {
			b[i] = byte(next() >> 11)
		}
		return b
	case "longline":
		return bytes.Repeat([]byte{'a' + byte(c.Seed%26)}, c.Len)
	}
	var sb bytes.Buffer
	nl := "\n"
	if c.Kind == "crlf" {
		nl = "\r\n"
	}
	for sb.Len() < c.Len {
		k := int(next()%6) + 1
		for i := 0; i < k; i++ {
			sb.WriteString(c39Words[next()%uint64(len(c39Words))])
			sb.WriteByte(' ')
		}
		sb.WriteString(nl)
	}
	b := sb.Bytes()[:c.Len]
	for !utf8.Valid(b) {
		b = b[:len(b)-1]
	}
	if c.Kind == "nolf" {
		b = bytes.TrimRight(b, "\r\n")
	}
	return b
}

func genContent(rt *rapid.T, allowBig bool) c39Content {
	c := c39Content{Seed: rapid.IntRange(0, 9999).Draw(rt, "seed")}
	c.Kind = rapid.SampledFrom([]string{"text", "text", "text", "crlf", "nolf", "binary", "longline", "empty", "zeros"}).Draw(rt, "ckind")
	switch rapid.IntRange(0, 19).Draw(rt, "clen") {
	case 0:
		c.Len = 0
	case 13, 14, 15, 16:
		c.Len = rapid.IntRange(400, 8_000).Draw(rt, "len")
	case 17:
		c.Len = rapid.SampledFrom([]int{24 << 10, 25 << 10, 65536}).Draw(rt, "len")
	case 18:
		if allowBig {
			c.Len = rapid.SampledFrom([]int{300_000, 1 << 20}).Draw(rt, "len")
		} else {
			c.Len = rapid.IntRange(1, 100).Draw(rt, "len")
		}
	default:
		c.Len = rapid.IntRange(1, 400).Draw(rt, "len")
	}
	return c
}

// ---------------------------------------------------------------------------
// Names
// ---------------------------------------------------------------------------

var c39Segs = []string{"a", "b", "mem", "cache", "v5", "main.go", "mshr.go", "go.mod", "x.go", "日本語", "é", "with space", ".hidden", "a..b", "...", "UPPER", "upper", "-dash", "a:b", "a\\b", "%2e%2e", "tab\there", "q?x=1", "#frag", "a&b", "'q'", "\"dq\"", "*", "~"}

func genSeg(rt *rapid.T) string {
	switch rapid.IntRange(0, 11).Draw(rt, "segk") {
	case 0: // long segment
		n := rapid.SampledFrom([]int{50, 99, 100, 101, 155, 200, 255}).Draw(rt, "seglen")
		return strings.Repeat(rapid.SampledFrom([]string{"n", "L", "ü"}).Draw(rt, "segch"), n)
	case 1:
		return rapid.StringMatching(`[a-z]{1,6}\.go`).Draw(rt, "seggo")
	default:
		return rapid.SampledFrom(c39Segs).Draw(rt, "seg")
	}
}

func genValidName(rt *rapid.T) string {
	n := rapid.IntRange(1, 4).Draw(rt, "nseg")
	segs := make([]string, n)
	for i := range segs {
		segs[i] = genSeg(rt)
	}
	name := strings.Join(segs, "/")
	if !fs.ValidPath(name) || name == "." {
		return "fallback.go"
	}
	return name
}

// ---------------------------------------------------------------------------
// Sub-check 1: WriteArchive is deterministic, ReadArchive returns the same files.
// ---------------------------------------------------------------------------

type c39File struct {
	Name    string     `json:"name"`
	Content c39Content `json:"content"`
}

type c39RoundTripCase struct {
	Files []c39File `json:"files"`
}

func runC39RoundTrip(s *kit.Session, f kit.Failer, c c39RoundTripCase) {
	files := map[string][]byte{}
	total := 0
	for _, fl := range c.Files {
		files[fl.Name] = fl.Content.bytes()
	}
	for _, b := range files {
		total += len(b)
	}
	// second map with a different insertion history (Go randomises iteration anyway)
	files2 := map[string][]byte{}
	for i := len(c.Files) - 1; i >= 0; i-- {
		if _, ok := files2[c.Files[i].Name]; !ok {
			files2[c.Files[i].Name] = files[c.Files[i].Name]
		}
	}
	var b1, b2 bytes.Buffer
	var e1, e2 error
	if ok, sig, msg := kit.Guard(func() {
		e1 = sourcefs.WriteArchive(&b1, files)
		e2 = sourcefs.WriteArchive(&b2, files2)
	}); !ok {
		s.Fail(f, c, sig, "%s", msg)
		return
	}
	if e1 != nil || e2 != nil {
		s.Fail(f, c, "write-error", "WriteArchive failed on valid names: %v / %v", e1, e2)
		return
	}
	if !bytes.Equal(b1.Bytes(), b2.Bytes()) {
		s.Fail(f, c, "write-nondeterministic", "two WriteArchive calls on equal maps (%d files) produced different bytes (%d vs %d bytes, sha %s vs %s)", len(files), b1.Len(), b2.Len(), sha(b1.Bytes())[:12], sha(b2.Bytes())[:12])
		return
	}
	var got map[string][]byte
	var err error
	if ok, sig, msg := kit.Guard(func() { got, err = sourcefs.ReadArchive(b1.Bytes()) }); !ok {
		s.Fail(f, c, sig, "%s", msg)
		return
	}
	if err != nil {
		s.Fail(f, c, "read-error-on-own-archive", "ReadArchive(WriteArchive(files)) = %v (%d files, %d bytes)", err, len(files), total)
		return
	}
	if len(got) != len(files) {
		s.Fail(f, c, "roundtrip-file-set", "wrote %d files, read %d back", len(files), len(got))
		return
	}
	for n, want := range files {
		g, ok := got[n]
		if !ok {
			s.Fail(f, c, "roundtrip-file-set", "file %q missing after the round trip", n)
			return
		}
		if !bytes.Equal(g, want) {
			s.Fail(f, c, "roundtrip-content", "file %q: %d bytes written, %d read back, contents differ", n, len(want), len(g))
			return
		}
	}
	cl := []string{fmt.Sprintf("files:%s", bucket(len(files)))}
	long := false
	for n := range files {
		if len(n) > 100 {
			long = true
		}
	}
	if long {
		cl = append(cl, "name>100(pax)")
	}
	s.Note(c, len(files) >= 3, cl...)
}

func bucket(n int) string {
	switch {
	case n == 0:
		return "0"
	case n <= 2:
		return "1-2"
	case n <= 9:
		return "3-9"
	default:
		return "10+"
	}
}

func TestC39RoundTrip(t *testing.T) {
	s := kit.Begin(t, "C39", "roundtrip",
		"0-25 files with fs.ValidPath names of 1-4 segments (ASCII, unicode, spaces, dots, URL metacharacters, segments up to 255 bytes so that PAX headers are needed) and described contents (text/CRLF/no final newline/binary/zeros/one long line, 0 B .. 1 MiB); WriteArchive twice on equal maps built in opposite insertion order must give identical bytes, ReadArchive must give back exactly the files. Non-trivial: >= 3 files")
	defer s.End()
	var c c39RoundTripCase
	if ok, err := kit.LoadReplay("C39", "roundtrip", &c); ok {
		if err != nil {
			t.Fatal(err)
		}
		runC39RoundTrip(s, t, c)
		return
	} else if kit.ReplayMode() {
		t.Skip()
	}
	kit.SetChecks(700, 6_000)
	rapid.Check(t, func(rt *rapid.T) {
		var c c39RoundTripCase
		n := rapid.IntRange(0, 25).Draw(rt, "nfiles")
		if rapid.IntRange(0, 3).Draw(rt, "few") == 0 {
			n = rapid.IntRange(0, 3).Draw(rt, "nfiles-few")
		}
		for i := 0; i < n; i++ {
			c.Files = append(c.Files, c39File{Name: genValidName(rt), Content: genContent(rt, true)})
		}
		runC39RoundTrip(s, rt, c)
	})
}

// ---------------------------------------------------------------------------
// Hostile archives, built header by header.
// ---------------------------------------------------------------------------

type c39Entry struct {
	Name    string     `json:"name"`
	Type    string     `json:"type"` // reg | rega | dir | symlink | hardlink | char | fifo | xglobal
	Link    string     `json:"link,omitempty"`
	Content c39Content `json:"content"`
	// Declared: size written in the header; -1 = the real content length. A
	// larger value than the content makes the archive end inside this entry.
	Declared int64 `json:"declared"`
	// Raw: hand-written 512-byte ustar header (any name up to 100 bytes, no
	// validation); otherwise archive/tar's Writer (PAX for long names).
	Raw bool `json:"raw"`
}

type c39Archive struct {
	Entries   []c39Entry `json:"entries"`
	NoTrailer bool       `json:"no_trailer"` // omit the two zero blocks
	Garbage   int        `json:"garbage"`    // bytes of 0xAA appended inside the gzip stream
	Corrupt   string     `json:"corrupt"`    // "" | "not-gzip" | "truncated-gzip" | "empty"
}

func (e c39Entry) isRegular() bool { return e.Type == "reg" || e.Type == "rega" }

func typeFlag(t string) byte {
	switch t {
	case "reg":
		return tar.TypeReg
	case "rega":
		return 0
	case "dir":
		return tar.TypeDir
	case "symlink":
		return tar.TypeSymlink
	case "hardlink":
		return tar.TypeLink
	case "char":
		return tar.TypeChar
	case "fifo":
		return tar.TypeFifo
	case "xglobal":
		return tar.TypeXGlobalHeader
	}
	return tar.TypeReg
}

func rawHeader(name string, flag byte, size int64, link string) []byte {
	h := make([]byte, 512)
	copy(h[0:100], name)
	copy(h[100:108], "0000644\x00")
	copy(h[108:116], "0000000\x00")
	copy(h[116:124], "0000000\x00")
	if size < 1<<33 {
		copy(h[124:136], fmt.Sprintf("%011o\x00", size))
	} else { // base-256
		h[124] = 0x80
		for i := 0; i < 8; i++ {
			h[135-i] = byte(size >> (8 * i))
		}
	}
	copy(h[136:148], "00000000000\x00")
	copy(h[148:156], "        ")
	h[156] = flag
	copy(h[157:257], link)
	copy(h[257:263], "ustar\x00")
	copy(h[263:265], "00")
	sum := 0
	for _, b := range h {
		sum += int(b)
	}
	copy(h[148:156], fmt.Sprintf("%06o\x00 ", sum))
	return h
}

var (
	archCacheMu sync.Mutex
	archCache   = map[string][]byte{}
)

// build renders the archive. Large ones are cached per process (they are
// costly to compress and only a handful of distinct specs exist).
func (a c39Archive) build() []byte {
	key := ""
	big := false
	for _, e := range a.Entries {
		if e.Content.Len > 1<<20 {
			big = true
		}
	}
	if big {
		key = fmt.Sprintf("%+v", a)
		archCacheMu.Lock()
		b, ok := archCache[key]
		archCacheMu.Unlock()
		if ok {
			return b
		}
	}
	switch a.Corrupt {
	case "empty":
		return nil
	case "not-gzip":
		return []byte("this is not a gzip stream, just text that is long enough to look like something")
	}
	var buf bytes.Buffer
	gz, _ := gzip.NewWriterLevel(&buf, gzip.BestSpeed)
	tw := tar.NewWriter(gz)
	for _, e := range a.Entries {
		content := e.Content.bytes()
		size := int64(len(content))
		if e.Declared >= 0 {
			size = e.Declared
		}
		if !e.isRegular() && e.Declared < 0 {
			size = 0
			content = nil
		}
		if e.Raw {
			_ = tw.Flush()
			gz.Write(rawHeader(e.Name, typeFlag(e.Type), size, e.Link))
			gz.Write(content)
			if pad := (512 - len(content)%512) % 512; pad > 0 && int64(len(content)) == size {
				gz.Write(make([]byte, pad))
			}
			continue
		}
		hdr := &tar.Header{Name: e.Name, Typeflag: typeFlag(e.Type), Mode: 0o644, Size: size, Linkname: e.Link}
		if e.Type == "xglobal" {
			hdr.Size = 0
			hdr.PAXRecords = map[string]string{"comment": "x"}
			hdr.Name = ""
		}
		if !e.isRegular() {
			hdr.Size = 0
		}
		if err := tw.WriteHeader(hdr); err != nil {
			continue // names the Writer refuses are simply left out
		}
		if e.isRegular() {
			if int64(len(content)) > size {
				content = content[:size]
			}
			tw.Write(content)
		}
	}
	if a.NoTrailer {
		tw.Flush()
	} else {
		tw.Close()
	}
	if a.Garbage > 0 {
		gz.Write(bytes.Repeat([]byte{0xAA}, a.Garbage))
	}
	gz.Close()
	out := buf.Bytes()
	if a.Corrupt == "truncated-gzip" && len(out) > 20 {
		out = out[:len(out)*2/3]
	}
	if big {
		archCacheMu.Lock()
		archCache[key] = out
		archCacheMu.Unlock()
	}
	return out
}

// checkReadArchive runs ReadArchive on the built archive and judges the result
// against the spec. It returns the files (nil when rejected) for further use.
func checkReadArchive(s *kit.Session, f kit.Failer, c any, a c39Archive, data []byte, measure bool) (files map[string][]byte, rejected bool, failed bool, allocMB float64) {
	var err error
	var m0, m1 runtime.MemStats
	if measure {
		runtime.GC()
		runtime.ReadMemStats(&m0)
	}
	if ok, sig, msg := kit.Guard(func() { files, err = sourcefs.ReadArchive(data) }); !ok {
		s.Fail(f, c, sig, "%s", msg)
		return nil, false, true, 0
	}
	if measure {
		runtime.ReadMemStats(&m1)
		allocMB = float64(m1.TotalAlloc-m0.TotalAlloc) / (1 << 20)
		// The reader may hold at most the limits (96 MiB total + one 8 MiB entry in
		// flight); growing the buffers by doubling/1.25x costs a small multiple of
		// that in cumulative allocation. 4x the total limit (measured: 208 MiB on the 13 x 7.9 MiB archive) is far below what
		// reading an unbounded entry costs (the bombs below are 1-3 GiB cumulative).
		if allocMB > 4*96 {
			s.Fail(f, c, "read-archive-unbounded-allocation", "ReadArchive allocated %.0f MiB in total on a %d-byte archive (limits: 8 MiB per file, 96 MiB per archive)", allocMB, len(data))
			return nil, false, true, allocMB
		}
	}
	if err != nil {
		return nil, true, false, allocMB
	}
	// accepted: every returned file must be a regular entry of the spec with exactly its bytes
	type want struct{ contents [][]byte }
	byName := map[string]*want{}
	for _, e := range a.Entries {
		if !e.isRegular() {
			continue
		}
		name := e.Name
		if i := strings.IndexByte(name, 0); i >= 0 && e.Raw {
			name = name[:i]
		}
		if e.Raw && len(name) > 100 {
			name = name[:100]
		}
		content := e.Content.bytes()
		if e.Declared >= 0 && int64(len(content)) > e.Declared {
			content = content[:e.Declared]
		}
		w := byName[name]
		if w == nil {
			w = &want{}
			byName[name] = w
		}
		w.contents = append(w.contents, content)
	}
	opaquePayload := false
	for _, e := range a.Entries {
		if !e.isRegular() && e.Raw && e.Declared > 0 {
			opaquePayload = true
		}
	}
	total := 0
	for name, got := range files {
		total += len(got)
		if len(got) > c39MaxFileBytes {
			s.Fail(f, c, "oversized-entry-returned", "ReadArchive returned %q with %d bytes (> %d)", clipStr(name, 80), len(got), c39MaxFileBytes)
			return nil, false, true, allocMB
		}
		w := byName[name]
		if w == nil && strings.HasSuffix(name, "/") {
			w = byName[strings.TrimSuffix(name, "/")]
		}
		if w == nil && opaquePayload {
			// The bytes that follow the header of a non-regular entry are not
			// file data to a tar reader: it parses them as the next header(s).
			// Whatever entry they happen to spell (the legacy signed checksum of
			// a mostly-zero block matches now and then) is part of the archive
			// as archive/tar defines it, not something ReadArchive made up.
			continue
		}
		if w == nil {
			s.Fail(f, c, "non-regular-or-unknown-entry-returned", "ReadArchive returned %q (%d bytes) which is not a regular entry of the archive", clipStr(name, 80), len(got))
			return nil, false, true, allocMB
		}
		match := false
		for _, wc := range w.contents {
			if bytes.Equal(wc, got) {
				match = true
			}
		}
		if !match {
			s.Fail(f, c, "entry-content-differs", "ReadArchive returned %q with %d bytes that are not the bytes of that entry", clipStr(name, 80), len(got))
			return nil, false, true, allocMB
		}
	}
	if total > c39MaxTotalBytes {
		s.Fail(f, c, "oversized-archive-returned", "ReadArchive returned %d bytes in total (> %d)", total, c39MaxTotalBytes)
		return nil, false, true, allocMB
	}
	return files, false, false, allocMB
}

var hostileNames = []string{"../escape.go", "../../../../etc/passwd", "/etc/passwd", "/abs.go", "", ".", "..", "./x.go", "a/../../b.go", "a/./b.go", "a//b.go", "dir/", "a/b/../../../c.go",
	"..\\win.go", "C:\\x.go", "a\x00hidden", "nul\x00", "\xff\xfe.go", "ok.go", "pkg/ok.go", "pkg/ok.go", "pkg", "日本/語.go", " lead.go", "trail.go ", "a/b/c/d/e/f.go"}

func genEntry(rt *rapid.T, allowBig bool) c39Entry {
	var e c39Entry
	e.Declared = -1
	e.Raw = rapid.Bool().Draw(rt, "raw")
	switch rapid.IntRange(0, 3).Draw(rt, "namek") {
	case 0, 1:
		e.Name = rapid.SampledFrom(hostileNames).Draw(rt, "hname")
	default:
		e.Name = genValidName(rt)
	}
	if e.Raw && len(e.Name) > 100 {
		e.Raw = false
	}
	e.Type = rapid.SampledFrom([]string{"reg", "reg", "reg", "reg", "rega", "dir", "symlink", "hardlink", "char", "fifo", "xglobal"}).Draw(rt, "type")
	if e.Type == "symlink" || e.Type == "hardlink" {
		e.Link = rapid.SampledFrom([]string{"/etc/passwd", "../../sentinel.txt", "ok.go", "."}).Draw(rt, "link")
	}
	e.Content = genContent(rt, false)
	if e.Content.Len > 70_000 {
		e.Content.Len = 70_000
	}
	if !e.isRegular() && e.Raw && rapid.Bool().Draw(rt, "nonreg-payload") {
		e.Declared = int64(e.Content.Len) // a non-regular entry that carries bytes
	}
	return e
}

type c39HostileCase struct {
	Archive c39Archive `json:"archive"`
}

var c39MaxAllocMiB int

func runC39Hostile(s *kit.Session, f kit.Failer, c c39HostileCase, measure bool) (files map[string][]byte, rejected, failed bool) {
	data := c.Archive.build()
	var alloc float64
	files, rejected, failed, alloc = checkReadArchive(s, f, c, c.Archive, data, measure)
	if failed {
		return
	}
	cl := []string{}
	hostile := false
	for _, e := range c.Archive.Entries {
		if !e.isRegular() {
			cl = append(cl, "has-nonregular")
			hostile = true
		}
		if !fs.ValidPath(e.Name) || e.Name == "." {
			cl = append(cl, "has-invalid-name")
			hostile = true
		}
		if e.Content.Len > c39MaxFileBytes || e.Declared > c39MaxFileBytes {
			cl = append(cl, "has-oversized")
			hostile = true
		}
	}
	cl = dedup(cl)
	if rejected {
		cl = append(cl, "rejected")
	} else {
		cl = append(cl, "accepted", "returned:"+bucket(len(files)))
	}
	if measure {
		if int(alloc) > c39MaxAllocMiB {
			c39MaxAllocMiB = int(alloc)
		}
		s.Extra("max_total_alloc_mib_of_one_call", c39MaxAllocMiB)
		hostile = true
	}
	s.Note(c, hostile, cl...)
	return
}

func dedup(in []string) []string {
	sort.Strings(in)
	out := in[:0]
	for i, v := range in {
		if i == 0 || v != in[i-1] {
			out = append(out, v)
		}
	}
	return out
}

func genHostileArchive(rt *rapid.T) c39Archive {
	var a c39Archive
	n := rapid.IntRange(0, 8).Draw(rt, "nentries")
	for i := 0; i < n; i++ {
		a.Entries = append(a.Entries, genEntry(rt, false))
	}
	switch rapid.IntRange(0, 11).Draw(rt, "shape") {
	case 0:
		a.NoTrailer = true
	case 1:
		a.Garbage = rapid.SampledFrom([]int{1, 511, 512, 1024, 5000}).Draw(rt, "garbage")
	case 2:
		a.Corrupt = rapid.SampledFrom([]string{"not-gzip", "truncated-gzip", "empty"}).Draw(rt, "corrupt")
	case 3: // the archive ends inside the last entry, whose header declares more
		if len(a.Entries) > 0 {
			last := &a.Entries[len(a.Entries)-1]
			last.Raw = len(last.Name) <= 100
			if last.Raw {
				last.Type = "reg"
				last.Declared = rapid.SampledFrom([]int64{int64(last.Content.Len) + 1, 1 << 20, 8<<20 + 1, 1 << 33, 1 << 40}).Draw(rt, "declared")
				a.NoTrailer = true
			}
		}
	}
	return a
}

func TestC39Hostile(t *testing.T) {
	s := kit.Begin(t, "C39", "hostile-archive",
		"gzip+tar streams built header by header: 0-8 entries with names from {../x, absolute, empty, ., .., a/../../b, a//b, dir/, backslashes, embedded NUL, invalid UTF-8, duplicates, valid unicode paths}, types {regular, old-style regular, directory, symlink, hard link, char device, fifo, PAX global}, non-regular entries carrying payload, hand-written ustar headers or archive/tar's writer; missing trailer, trailing garbage, last header declaring up to 1 TiB more than present, non-gzip / truncated gzip / empty input. Oracle: ReadArchive either rejects, or every returned (name, bytes) is a regular entry of the spec with exactly its bytes, <= 8 MiB each and <= 96 MiB in total. Non-trivial: the archive contains a non-regular entry, an invalid name or an oversized entry")
	defer s.End()
	var c c39HostileCase
	if ok, err := kit.LoadReplay("C39", "hostile-archive", &c); ok {
		if err != nil {
			t.Fatal(err)
		}
		runC39Hostile(s, t, c, false)
		return
	} else if kit.ReplayMode() {
		t.Skip()
	}
	kit.SetChecks(3_000, 30_000)
	rapid.Check(t, func(rt *rapid.T) {
		runC39Hostile(s, rt, c39HostileCase{Archive: genHostileArchive(rt)}, false)
	})
}

// TestC39Limits: the few heavy cases (size limits and allocation bound).
func TestC39Limits(t *testing.T) {
	s := kit.Begin(t, "C39", "limits",
		"fixed list of heavy archives: one regular entry of 8 MiB-1 / 8 MiB / 8 MiB+1 / 20 MiB / 300 MiB (zeros: a gzip bomb) alone or after small files; 13 entries of 7.9 MiB (total > 96 MiB, each below the per-file limit); a header declaring 1 TiB followed by 1 MiB. Oracle as in hostile-archive plus: cumulative allocation of the call (runtime.MemStats.TotalAlloc delta) <= 4 x 96 MiB. Non-trivial: every case")
	defer s.End()
	var rc c39HostileCase
	if ok, err := kit.LoadReplay("C39", "limits", &rc); ok {
		if err != nil {
			t.Fatal(err)
		}
		runC39Hostile(s, t, rc, true)
		return
	} else if kit.ReplayMode() {
		t.Skip()
	}
	if !shard0() {
		t.Skip("fixed list: first shard only")
	}
	s.Exhaustive()
	small := c39Entry{Name: "pkg/small.go", Type: "reg", Content: c39Content{Kind: "text", Seed: 1, Len: 300}, Declared: -1}
	one := func(n int, kind string) c39Entry {
		return c39Entry{Name: "pkg/big.go", Type: "reg", Content: c39Content{Kind: kind, Seed: 2, Len: n}, Declared: -1}
	}
	var cases []c39HostileCase
	for _, n := range []int{c39MaxFileBytes - 1, c39MaxFileBytes, c39MaxFileBytes + 1, 20 << 20} {
		cases = append(cases, c39HostileCase{c39Archive{Entries: []c39Entry{small, one(n, "zeros")}}})
	}
	cases = append(cases, c39HostileCase{c39Archive{Entries: []c39Entry{one(c39MaxFileBytes+1, "longline")}}})
	if kit.Thorough() {
		cases = append(cases, c39HostileCase{c39Archive{Entries: []c39Entry{one(1<<30, "zeros")}}})
	}
	cases = append(cases, c39HostileCase{c39Archive{Entries: []c39Entry{small, one(300<<20, "zeros"), small}}})
	var many []c39Entry
	for i := 0; i < 13; i++ {
		many = append(many, c39Entry{Name: fmt.Sprintf("pkg/f%02d.go", i), Type: "reg", Content: c39Content{Kind: "zeros", Seed: i, Len: 7900 << 10}, Declared: -1})
	}
	cases = append(cases, c39HostileCase{c39Archive{Entries: many}})
	cases = append(cases, c39HostileCase{c39Archive{NoTrailer: true, Entries: []c39Entry{small, {Name: "pkg/liar.go", Type: "reg", Raw: true, Content: c39Content{Kind: "zeros", Len: 1 << 20}, Declared: 1 << 40}}}})
	for _, c := range cases {
		files, rejected, failed := runC39Hostile(s, t, c, true)
		if failed {
			return
		}
		// positive leg: an archive within both limits is read back completely
		within := true
		tot := 0
		for _, e := range c.Archive.Entries {
			tot += e.Content.Len
			if e.Content.Len > c39MaxFileBytes || e.Declared > int64(e.Content.Len) {
				within = false
			}
		}
		if tot > c39MaxTotalBytes {
			within = false
		}
		if within && (rejected || len(files) != 2) {
			s.Fail(t, c, "within-limits-rejected", "archive with entries of %d bytes (<= 8 MiB, total %d) was rejected=%v / returned %d files", c.Archive.Entries[len(c.Archive.Entries)-1].Content.Len, tot, rejected, len(files))
			return
		}
	}
}
