package webchk

import (
	"context"
	"encoding/binary"
	"fmt"
	"io"
	"net"
	"net/http"
	"net/netip"
	"net/url"
	"strconv"
	"strings"
	"sync"
	"testing"
	"time"

	"github.com/sarchlab/akita/v5/daisen2"
	"pgregory.net/rapid"

	"verif/harness/kit"
)

// ---------------------------------------------------------------------------
// C38 "rebind": host NAMES whose DNS answers are generated per case and may
// change from one query to the next.
//
// The sandbox has no DNS, so the harness brings its own: an in-process
// responder is installed as net.DefaultResolver (pure-Go resolver whose Dial
// function returns one end of a net.Pipe; the other end is served by the
// responder over the DNS stream framing). No socket, no packet loss, no
// resolver timeouts. net.DefaultResolver is process-global: these cases run
// strictly one after another and the original resolver is put back after each.
// ---------------------------------------------------------------------------

const dnsZone = "c38v.test"

// dnsStep is the answer set served to the k-th lookup of the name.
type dnsStep struct {
	A    []string `json:"a,omitempty"`    // IPv4 addresses (A records)
	AAAA []string `json:"aaaa,omitempty"` // IPv6 addresses (AAAA records; may be IPv4-mapped)
}

type c38DNSCase struct {
	Mode    string    `json:"mode"`    // url | redirect-check | dial | client | guard-client | client-redirect
	Shape   string    `json:"shape"`   // what the generator aimed for (informational; classes are recomputed from Steps)
	Label   string    `json:"label"`   // host label inside the zone
	Spell   string    `json:"spell"`   // lower | upper | mixed | rooted
	Port    string    `json:"port"`    // all: the port bound on every address of this machine | lo: the port bound on 127.0.0.1/::1 only (any other local address refuses at once)
	Literal string    `json:"literal"` // non-empty: an IP literal is used instead of a name (no DNS involved)
	Steps   []dnsStep `json:"steps"`   // answer schedule: query k (per record type) gets Steps[min(k, len-1)]
	Allow   string    `json:"allow"`
	Path    string    `json:"path"`
	Code    int       `json:"code"`
}

func (c c38DNSCase) active() bool { return c38Case{Allow: c.Allow}.guardActive() }

func (c c38DNSCase) fqdn() string { return c.Label + "." + dnsZone }

// host is the host as written in URLs / dial addresses (no brackets).
func (c c38DNSCase) host() string {
	if c.Literal != "" {
		return c.Literal
	}
	n := c.fqdn()
	switch c.Spell {
	case "upper":
		return strings.ToUpper(n)
	case "mixed":
		b := []byte(n)
		for i := 0; i < len(b); i += 2 {
			if b[i] >= 'a' && b[i] <= 'z' {
				b[i] -= 32
			}
		}
		return string(b)
	case "rooted":
		return n + "."
	}
	return n
}

func (c c38DNSCase) hostPort(port int) string {
	return net.JoinHostPort(c.host(), strconv.Itoa(port))
}

func stepAddrs(st dnsStep) []netip.Addr {
	var out []netip.Addr
	for _, a := range st.A {
		out = append(out, netip.MustParseAddr(a))
	}
	for _, a := range st.AAAA {
		out = append(out, netip.MustParseAddr(a))
	}
	return out
}

func hasInternal(as []netip.Addr) bool {
	for _, a := range as {
		if isInternalClass(classify(a)) {
			return true
		}
	}
	return false
}

func hasNonInternal(as []netip.Addr) bool {
	for _, a := range as {
		if !isInternalClass(classify(a)) {
			return true
		}
	}
	return false
}

// families of the non-internal addresses of a step, the way the resolver's
// caller sees them (an IPv4-mapped AAAA answer counts as IPv4).
func nonInternalFamilies(st dnsStep) (v4, v6 bool) {
	for _, a := range stepAddrs(st) {
		if isInternalClass(classify(a)) {
			continue
		}
		if a.Is4() || a.Is4In6() {
			v4 = true
		} else {
			v6 = true
		}
	}
	return
}

// schedClass names the schedule by what it holds.
func (c c38DNSCase) schedClass() string {
	if c.Literal != "" {
		return "literal-ip"
	}
	anyInt, anyPub := false, false
	for _, st := range c.Steps {
		as := stepAddrs(st)
		anyInt = anyInt || hasInternal(as)
		anyPub = anyPub || hasNonInternal(as)
	}
	first := stepAddrs(c.Steps[0])
	switch {
	case !anyInt && !anyPub:
		return "no-answers"
	case !anyInt:
		return "stable-public"
	case !anyPub:
		return "all-internal"
	case len(first) == 0:
		return "empty-first-answer"
	case hasInternal(first) && hasNonInternal(first):
		return "mixed-internal-first-answer"
	case hasInternal(first):
		return "internal-first-then-public"
	}
	// first answer all non-internal, a later one holds an internal address
	v4, v6 := nonInternalFamilies(c.Steps[0])
	if v4 && v6 {
		return "dual-stack-public-then-internal"
	}
	return "single-family-rebind"
}

// answersDiffer: at least two steps of the schedule differ.
func (c c38DNSCase) answersDiffer() bool {
	for i := 1; i < len(c.Steps); i++ {
		if fmt.Sprint(c.Steps[i]) != fmt.Sprint(c.Steps[0]) {
			return true
		}
	}
	return false
}

// ---------------------------------------------------------------------------
// The responder
// ---------------------------------------------------------------------------

type dnsServed struct {
	qtype uint16
	index int // how many queries of this type for the name came before
	addrs []netip.Addr
}

type fakeDNS struct {
	name  string // lower case, no trailing dot
	steps []dnsStep

	mu     sync.Mutex
	count  map[uint16]int
	served []dnsServed
	other  int // queries for other names (NXDOMAIN)
}

func (d *fakeDNS) dial(ctx context.Context, network, address string) (net.Conn, error) {
	c1, c2 := net.Pipe()
	go d.serveStream(c2)
	return c1, nil
}

// serveStream speaks DNS-over-stream framing (2-byte length prefix): a conn
// that is not a net.PacketConn makes Go's resolver use it.
func (d *fakeDNS) serveStream(c net.Conn) {
	defer c.Close()
	for {
		var lb [2]byte
		if _, err := io.ReadFull(c, lb[:]); err != nil {
			return
		}
		q := make([]byte, binary.BigEndian.Uint16(lb[:]))
		if _, err := io.ReadFull(c, q); err != nil {
			return
		}
		resp := d.answer(q)
		if resp == nil {
			return
		}
		out := make([]byte, 2, 2+len(resp))
		binary.BigEndian.PutUint16(out, uint16(len(resp)))
		if _, err := c.Write(append(out, resp...)); err != nil {
			return
		}
	}
}

func (d *fakeDNS) answer(q []byte) []byte {
	if len(q) < 12 || binary.BigEndian.Uint16(q[4:6]) != 1 {
		return nil
	}
	i := 12
	var labels []string
	for {
		if i >= len(q) {
			return nil
		}
		l := int(q[i])
		i++
		if l == 0 {
			break
		}
		if l&0xc0 != 0 || i+l > len(q) {
			return nil
		}
		labels = append(labels, strings.ToLower(string(q[i:i+l])))
		i += l
	}
	if i+4 > len(q) {
		return nil
	}
	qtype := binary.BigEndian.Uint16(q[i : i+2])
	qend := i + 4
	name := strings.Join(labels, ".")

	var rdata [][]byte
	rcode := byte(0)
	d.mu.Lock()
	if name != d.name {
		rcode = 3 // NXDOMAIN: search-list expansions and anything else
		d.other++
	} else if (qtype == 1 || qtype == 28) && len(d.steps) > 0 {
		k := d.count[qtype]
		d.count[qtype] = k + 1
		idx := k
		if idx >= len(d.steps) {
			idx = len(d.steps) - 1
		}
		list := d.steps[idx].A
		if qtype == 28 {
			list = d.steps[idx].AAAA
		}
		sv := dnsServed{qtype: qtype, index: k}
		for _, s := range list {
			a := netip.MustParseAddr(s)
			sv.addrs = append(sv.addrs, a)
			if qtype == 1 {
				b := a.As4()
				rdata = append(rdata, b[:])
			} else {
				b := a.As16()
				rdata = append(rdata, b[:])
			}
		}
		d.served = append(d.served, sv)
	}
	d.mu.Unlock()

	resp := make([]byte, 0, 64+len(q)+28*len(rdata))
	resp = append(resp, q[0], q[1])       // ID
	resp = append(resp, 0x81, 0x80|rcode) // QR RD | RA rcode
	resp = append(resp, 0, 1)             // QDCOUNT
	resp = append(resp, 0, byte(len(rdata)))
	resp = append(resp, 0, 0, 0, 0) // NSCOUNT, ARCOUNT
	resp = append(resp, q[12:qend]...)
	for _, rd := range rdata {
		resp = append(resp, 0xc0, 0x0c) // pointer to the question name
		resp = append(resp, byte(qtype>>8), byte(qtype))
		resp = append(resp, 0, 1)       // IN
		resp = append(resp, 0, 0, 0, 0) // TTL 0
		resp = append(resp, 0, byte(len(rd)))
		resp = append(resp, rd...)
	}
	return resp
}

// lookups returns, per lookup index, the addresses served so far (A and AAAA
// answers of the k-th query of each type together), in lookup order.
func (d *fakeDNS) lookups() [][]netip.Addr {
	d.mu.Lock()
	defer d.mu.Unlock()
	n := 0
	for _, sv := range d.served {
		if sv.index+1 > n {
			n = sv.index + 1
		}
	}
	out := make([][]netip.Addr, n)
	for _, sv := range d.served {
		out[sv.index] = append(out[sv.index], sv.addrs...)
	}
	return out
}

// install makes d the process-wide resolver; the returned func puts the
// previous one back.
func (d *fakeDNS) install() func() {
	orig := net.DefaultResolver
	net.DefaultResolver = &net.Resolver{PreferGo: true, Dial: d.dial}
	return func() { net.DefaultResolver = orig }
}

// ---------------------------------------------------------------------------
// Generator
// ---------------------------------------------------------------------------

// Address pools. "live" cases really dial: everything non-internal there is
// either an address of this machine that the harness does not class as internal
// (connects at once, to the harness listener) or a documentation address
// (203.0.113.0/24, 2001:db8::/32: never routable; the dial fails or runs into the
// short context deadline). Decision-only cases (url, redirect-check) may use
// real public addresses as nothing is dialed.
func genPub4(rt *rapid.T, live bool) string {
	p := getProbeServer()
	k := rapid.IntRange(0, 9).Draw(rt, "p4")
	fhOK := p.firstHop != "" && netip.MustParseAddr(p.firstHop).Is4()
	if live {
		// a live dial to the local non-internal address completes (or is refused)
		// at once; a documentation address may wait for the deadline: keep those few
		// (k == 6 rather than an edge value: rapid favours the edges of a range)
		if fhOK && k != 6 {
			return p.firstHop
		}
	} else if fhOK && k < 3 {
		return p.firstHop
	} else if k < 7 {
		return rapid.SampledFrom([]string{"93.184.216.34", "8.8.8.8", "1.1.1.1", "151.101.1.69", "126.255.255.255", "172.32.0.1", "11.0.0.1"}).Draw(rt, "real4")
	}
	return fmt.Sprintf("203.0.113.%d", rapid.IntRange(1, 254).Draw(rt, "doc4"))
}

func genPub6(rt *rapid.T, live bool) string {
	if !live && rapid.IntRange(0, 3).Draw(rt, "p6") == 0 {
		return rapid.SampledFrom([]string{"2606:4700:4700::1111", "2a00:1450:4001:81b::200e", "2620:fe::fe", "fec0::1", "2000::"}).Draw(rt, "real6")
	}
	return genDoc6(rt, live)
}

// genDoc6: a non-internal IPv6 address that is safe to dial: a documentation
// address (the dial may hang until the deadline) or, for most live cases, a
// global-scope multicast address (ff0e::/16: not link-local, so not covered by
// the statement; a TCP connect to it fails at once, which keeps cases fast).
func genDoc6(rt *rapid.T, live bool) string {
	if live && rapid.IntRange(0, 9).Draw(rt, "mc6") != 4 {
		return fmt.Sprintf("ff0e::%x", rapid.IntRange(1, 0xffff).Draw(rt, "mc"))
	}
	return fmt.Sprintf("2001:db8::%x", rapid.IntRange(1, 0xffff).Draw(rt, "doc6"))
}

// internal addresses that arrive at this machine (the listener sees the connection)
func genInt4Reach(rt *rapid.T, lo bool) string {
	if lo { // only what arrives at the listeners bound on 127.0.0.1 / ::1
		return rapid.SampledFrom([]string{"127.0.0.1", "127.0.0.1", "127.0.0.1", "0.0.0.0"}).Draw(rt, "i4lo")
	}
	switch rapid.IntRange(0, 5).Draw(rt, "i4") {
	case 0, 1, 2:
		return "127.0.0.1"
	case 3:
		return fmt.Sprintf("127.%d.%d.%d", rapid.IntRange(0, 255).Draw(rt, "b"), rapid.IntRange(0, 255).Draw(rt, "c"), rapid.IntRange(1, 254).Draw(rt, "d"))
	case 4:
		return "0.0.0.0"
	default:
		for _, a := range getProbeServer().ownInternal {
			if a.Is4() {
				return a.String()
			}
		}
		return "127.0.0.1"
	}
}

func genInt6Reach(rt *rapid.T, lo bool) string {
	if lo {
		return rapid.SampledFrom([]string{"::1", "::1", "::ffff:127.0.0.1", "::", "::ffff:0.0.0.0"}).Draw(rt, "i6lo")
	}
	switch rapid.IntRange(0, 6).Draw(rt, "i6") {
	case 0, 1, 2:
		return "::1"
	case 3:
		return "::ffff:127.0.0.1" // IPv4-mapped loopback in an AAAA record
	case 4:
		return "::"
	case 5:
		return "::ffff:0.0.0.0"
	default:
		for _, a := range getProbeServer().ownInternal {
			if a.Is6() {
				return a.String()
			}
		}
		return "::1"
	}
}

// internal addresses that do not arrive here: only the guard's decision on them is observable
func genInt4Dead(rt *rapid.T) string {
	return rapid.SampledFrom([]string{"10.0.0.1", "10.255.255.254", "172.16.0.1", "172.31.255.254", "192.168.1.1", "169.254.169.254", "169.254.0.1"}).Draw(rt, "d4")
}

func genInt6Dead(rt *rapid.T) string {
	return rapid.SampledFrom([]string{"fc00::1", "fd12:3456:789a::1", "fe80::1", "febf::1", "::ffff:10.0.0.1", "::ffff:169.254.169.254", "::ffff:192.168.0.1"}).Draw(rt, "d6")
}

func genStepPublic(rt *rapid.T, live bool, fam int) dnsStep { // fam: 0 both, 4, 6
	var st dnsStep
	if fam != 6 {
		for i, n := 0, rapid.IntRange(1, 2).Draw(rt, "n4"); i < n; i++ {
			st.A = append(st.A, genPub4(rt, live))
		}
	}
	if fam != 4 {
		for i, n := 0, rapid.IntRange(1, 2).Draw(rt, "n6"); i < n; i++ {
			st.AAAA = append(st.AAAA, genPub6(rt, live))
		}
	}
	return st
}

// genStepUnreachable: used with the loopback-only port, so that every vetted
// address fails to connect (what a dialer does after that is then observable).
func genStepUnreachable(rt *rapid.T) dnsStep {
	var st dnsStep
	fam := rapid.SampledFrom([]int{4, 4, 0, 4, 6, 0, 4, 4}).Draw(rt, "ufam")
	if fam != 6 {
		for i, n := 0, rapid.IntRange(1, 2).Draw(rt, "n4"); i < n; i++ {
			// on the loopback-only port the non-internal local address refuses at
			// once; a documentation address fails at once or hangs until the deadline
			if fh := getProbeServer().firstHop; fh != "" && netip.MustParseAddr(fh).Is4() && rapid.IntRange(0, 11).Draw(rt, "ufh") != 7 {
				st.A = append(st.A, fh)
			} else {
				st.A = append(st.A, fmt.Sprintf("203.0.113.%d", rapid.IntRange(1, 254).Draw(rt, "doc4")))
			}
		}
	}
	if fam != 4 {
		st.AAAA = append(st.AAAA, genDoc6(rt, true))
	}
	return st
}

func genStepInternal(rt *rapid.T, reachOnly, lo bool) dnsStep {
	var st dnsStep
	k := rapid.IntRange(0, 5).Draw(rt, "ik")
	if k <= 2 || k == 5 {
		st.A = append(st.A, genInt4Reach(rt, lo))
	}
	if k >= 3 && k != 5 || k == 2 {
		st.AAAA = append(st.AAAA, genInt6Reach(rt, lo))
	}
	if !reachOnly && rapid.IntRange(0, 2).Draw(rt, "dead") == 0 {
		if rapid.Bool().Draw(rt, "d46") {
			st.A = append(st.A, genInt4Dead(rt))
		} else {
			st.AAAA = append(st.AAAA, genInt6Dead(rt))
		}
	}
	return st
}

func genStepMixed(rt *rapid.T, live, lo bool) dnsStep {
	st := genStepPublic(rt, live, rapid.SampledFrom([]int{0, 4, 6}).Draw(rt, "mf"))
	in := genStepInternal(rt, false, lo)
	// the internal address goes first or last
	if rapid.Bool().Draw(rt, "ifirst") {
		st.A = append(in.A, st.A...)
		st.AAAA = append(in.AAAA, st.AAAA...)
	} else {
		st.A = append(st.A, in.A...)
		st.AAAA = append(st.AAAA, in.AAAA...)
	}
	return st
}

var c38DNSModes = []string{"dial", "dial", "dial", "client", "client", "guard-client", "guard-client", "client-redirect", "url", "redirect-check"}

func genC38DNS(rt *rapid.T) c38DNSCase {
	var c c38DNSCase
	c.Mode = rapid.SampledFrom(c38DNSModes).Draw(rt, "mode")
	live := c.Mode != "url" && c.Mode != "redirect-check"
	c.Label = "n" + strconv.Itoa(rapid.IntRange(0, 99).Draw(rt, "label"))
	c.Spell = rapid.SampledFrom([]string{"lower", "lower", "lower", "upper", "mixed", "rooted"}).Draw(rt, "spell")
	c.Path = rapid.SampledFrom([]string{"/", "/v1/models", "/v1/chat/completions", "/v1?x=http://8.8.8.8/"}).Draw(rt, "path")
	c.Code = rapid.SampledFrom([]int{301, 302, 303, 307, 308}).Draw(rt, "code")
	if rapid.IntRange(0, 9).Draw(rt, "allowon") == 0 {
		c.Allow = rapid.SampledFrom(guardOffValues).Draw(rt, "allow")
	} else {
		c.Allow = rapid.SampledFrom(guardActiveValues).Draw(rt, "allow")
	}
	c.Shape = rapid.SampledFrom([]string{
		"dual-then-internal", "dual-then-internal", "dual-then-internal", "dual-then-internal", "dual-then-internal", "dual-then-internal",
		"single-rebind", "single-rebind", "single-rebind", "single-rebind",
		"unreachable-then-internal", "unreachable-then-internal", "unreachable-then-internal",
		"all-internal", "all-internal", "mixed-first", "mixed-first", "stable-public", "stable-public",
		"free", "free", "free", "literal"}).Draw(rt, "shape")
	repeat := func(st dnsStep) []dnsStep { // the public answer is served once or twice before it changes
		if rapid.IntRange(0, 2).Draw(rt, "rep") == 0 {
			return []dnsStep{st, st}
		}
		return []dnsStep{st}
	}
	c.Port = "all"
	lo := false
	if getProbeServer().loPort != 0 && (c.Shape == "unreachable-then-internal" || rapid.IntRange(0, 9).Draw(rt, "lo") == 6) {
		c.Port, lo = "lo", true
	}
	switch c.Shape {
	case "dual-then-internal":
		c.Steps = append(repeat(genStepPublic(rt, live, 0)), genStepInternal(rt, true, lo))
	case "single-rebind":
		c.Steps = append(repeat(genStepPublic(rt, live, rapid.SampledFrom([]int{4, 4, 6, 4, 4, 6}).Draw(rt, "fam"))), genStepInternal(rt, true, lo))
	case "unreachable-then-internal":
		c.Steps = append(repeat(genStepUnreachable(rt)), genStepInternal(rt, true, lo))
	case "all-internal":
		for i, n := 0, rapid.IntRange(1, 3).Draw(rt, "ns"); i < n; i++ {
			c.Steps = append(c.Steps, genStepInternal(rt, i > 0, lo))
		}
	case "mixed-first":
		c.Steps = []dnsStep{genStepMixed(rt, live, lo)}
		if rapid.Bool().Draw(rt, "more") {
			c.Steps = append(c.Steps, genStepInternal(rt, true, lo))
		}
	case "stable-public":
		c.Steps = repeat(genStepPublic(rt, live, rapid.SampledFrom([]int{0, 0, 4, 4, 6}).Draw(rt, "fam")))
	case "free":
		for i, n := 0, rapid.IntRange(1, 4).Draw(rt, "ns"); i < n; i++ {
			switch rapid.IntRange(0, 5).Draw(rt, "kind") {
			case 0:
				c.Steps = append(c.Steps, genStepPublic(rt, live, 0))
			case 1:
				c.Steps = append(c.Steps, genStepPublic(rt, live, rapid.SampledFrom([]int{4, 6}).Draw(rt, "fam")))
			case 2, 3:
				c.Steps = append(c.Steps, genStepInternal(rt, false, lo))
			case 4:
				c.Steps = append(c.Steps, genStepMixed(rt, live, lo))
			default:
				c.Steps = append(c.Steps, dnsStep{})
			}
		}
	default: // literal
		lits := []string{"127.0.0.1", "::1", "::ffff:127.0.0.1", "0.0.0.0", "::", "127.1.2.3", "203.0.113.9"}
		if fh := getProbeServer().firstHop; fh != "" {
			lits = append(lits, fh, fh)
		}
		for _, a := range getProbeServer().ownInternal {
			lits = append(lits, a.String())
		}
		c.Literal = rapid.SampledFrom(lits).Draw(rt, "lit")
	}
	return c
}

// ---------------------------------------------------------------------------
// Execution
// ---------------------------------------------------------------------------

// Deadlines only bound the time a case may take (a dial to a documentation
// address may hang); no verdict depends on them: a violation is always a
// connection that was positively observed.
const (
	dnsDialDeadline   = 60 * time.Millisecond
	dnsClientDeadline = 100 * time.Millisecond
)

func localOfBody(b string) (netip.Addr, bool) {
	i := strings.Index(b, "ok local=")
	if i < 0 {
		return netip.Addr{}, false
	}
	ap, err := netip.ParseAddrPort(strings.TrimSpace(b[i+len("ok local="):]))
	if err != nil {
		return netip.Addr{}, false
	}
	return ap.Addr(), true
}

func runC38DNS(s *kit.Session, f kit.Failer, c c38DNSCase) {
	p := getProbeServer()
	applyEnv(c38Case{Allow: c.Allow})
	defer resetEnv()
	client := daisen2.VerifGuardedLLMClient()
	defer client.Transport.(*http.Transport).CloseIdleConnections()

	d := &fakeDNS{name: c.fqdn(), steps: c.Steps, count: map[uint16]int{}}
	restore := d.install()
	defer restore()

	active := c.active()
	sc := c.schedClass()
	sigBase := c.Mode + ":" + sc
	classes := []string{"mode:" + c.Mode, "sched:" + sc, "shape:" + c.Shape, "spell:" + c.Spell, "port:" + c.Port}
	if !active {
		classes = append(classes, "allow-switch-on")
	}
	var litAddr netip.Addr
	if c.Literal != "" {
		litAddr = netip.MustParseAddr(c.Literal)
	}
	port := p.port
	if c.Port == "lo" {
		if p.loPort == 0 {
			s.Note(c, false, "no-loopback-only-port")
			return
		}
		port = p.loPort
	}
	u := "http://" + c.hostPort(port) + c.Path

	p.beginWindow()
	t0 := time.Now()

	// what the resolver was told, judged on what was actually served
	firstServedInternal := func(from int) (looked, internal, allPublic bool) {
		if c.Literal != "" {
			cl := classify(litAddr)
			return true, isInternalClass(cl), cl == "public"
		}
		ls := d.lookups()
		if len(ls) <= from {
			return false, false, false
		}
		as := ls[from]
		allPublic = len(as) > 0
		for _, a := range as {
			if classify(a) != "public" {
				allPublic = false
			}
		}
		return true, hasInternal(as), allPublic
	}
	// every resolution made in this case held an internal address
	everyLookupInternal := func() bool {
		if c.Literal != "" {
			return isInternalClass(classify(litAddr))
		}
		ls := d.lookups()
		if len(ls) == 0 {
			return false
		}
		for _, as := range ls {
			if !hasInternal(as) {
				return false
			}
		}
		return true
	}
	// judgeWindow: no connection may have arrived at the listener on an internal address
	judgeWindow := func() bool {
		for _, r := range p.endWindow() {
			ap, err := netip.ParseAddrPort(r.local)
			if err != nil {
				continue
			}
			if cl := classify(ap.Addr()); isInternalClass(cl) && active {
				s.Fail(f, c, "dns-reached-internal:"+sigBase, "%s %q: a connection arrived at the internal listener address %s (%s) from %s; DNS answers served per lookup: %v",
					c.Mode, c.host(), ap.Addr(), cl, r.remote, d.lookups())
				return true
			}
		}
		return false
	}
	doClient := func(target string) (bodyLocal netip.Addr, haveBody bool, err error) {
		ctx, cancel := context.WithTimeout(context.Background(), dnsClientDeadline)
		defer cancel()
		req, perr := http.NewRequestWithContext(ctx, "GET", target, nil)
		if perr != nil {
			return netip.Addr{}, false, perr
		}
		resp, err := client.Do(req)
		if err != nil {
			return netip.Addr{}, false, err
		}
		b, _ := io.ReadAll(io.LimitReader(resp.Body, 4096))
		resp.Body.Close()
		bodyLocal, haveBody = localOfBody(string(b))
		return bodyLocal, haveBody, nil
	}
	judgeClient := func(target string, bodyLocal netip.Addr, haveBody bool, err error) bool {
		if !active {
			return false
		}
		if err == nil && haveBody && isInternalClass(classify(bodyLocal)) {
			s.Fail(f, c, "dns-served-by-internal:"+sigBase, "client GET %q succeeded with a body served on the internal address %s; DNS answers served per lookup: %v", target, bodyLocal, d.lookups())
			return true
		}
		if err == nil && everyLookupInternal() {
			s.Fail(f, c, "dns-success-despite-internal:"+sigBase, "client GET %q succeeded although every resolution of %q held an internal address: %v", target, c.host(), d.lookups())
			return true
		}
		return false
	}
	outcome := func(err error) string {
		switch {
		case err == nil:
			return "connected"
		case strings.Contains(err.Error(), "refusing to connect to internal address"),
			strings.Contains(err.Error(), "resolves to a private/loopback address"):
			return "refused-by-guard"
		case strings.Contains(err.Error(), "no such host"):
			return "no-such-host"
		case isDialOpError(err) || strings.Contains(err.Error(), "deadline exceeded") || strings.Contains(err.Error(), "i/o timeout"):
			return "dial-failed-or-timed-out"
		default:
			return "other-error"
		}
	}
	judgeDecision := func(what string, from int, err error) bool {
		looked, internal, allPublic := firstServedInternal(from)
		if !active || !looked {
			return false
		}
		if internal && err == nil {
			s.Fail(f, c, "dns-accepted-internal:"+sigBase, "%s(%q) = nil although the answer served for %q holds an internal address: %v", what, u, c.host(), d.lookups())
			return true
		}
		if allPublic && err != nil {
			s.Fail(f, c, "dns-refused-public:"+sigBase, "%s(%q) = %v although every address served for %q is public: %v", what, u, err, c.host(), d.lookups())
			return true
		}
		return false
	}

	switch c.Mode {
	case "url":
		err := daisen2.VerifGuardLLMURL(u)
		if judgeDecision("guardLLMURL", 0, err) {
			return
		}
		classes = append(classes, "guard:"+strings.Replace(outcome(err), "connected", "accepted", 1))

	case "redirect-check":
		req, perr := http.NewRequest("GET", u, nil)
		if perr != nil {
			s.Note(c, false, append(classes, "unparsable-url")...)
			return
		}
		via, _ := http.NewRequest("GET", "http://93.184.216.34/start", nil)
		err := client.CheckRedirect(req, []*http.Request{via})
		if judgeDecision("CheckRedirect", 0, err) {
			return
		}
		classes = append(classes, "guard:"+strings.Replace(outcome(err), "connected", "accepted", 1))

	case "dial":
		ctx, cancel := context.WithTimeout(context.Background(), dnsDialDeadline)
		conn, err := daisen2.VerifGuardedDialContext(ctx, "tcp", c.hostPort(port))
		cancel()
		var remote netip.Addr
		if conn != nil {
			if ap, perr := netip.ParseAddrPort(conn.RemoteAddr().String()); perr == nil {
				remote = ap.Addr()
			}
			conn.Close()
		}
		if active && conn != nil {
			if remote.IsValid() && isInternalClass(classify(remote)) {
				s.Fail(f, c, "dns-dial-connected-internal:"+sigBase, "guardedDialContext(%q) returned a connection to %s (%s); DNS answers served per lookup: %v", c.hostPort(port), remote, classify(remote), d.lookups())
				return
			}
			if everyLookupInternal() {
				s.Fail(f, c, "dns-success-despite-internal:"+sigBase, "guardedDialContext(%q) connected (to %s) although every resolution held an internal address: %v", c.hostPort(port), remote, d.lookups())
				return
			}
		}
		if judgeWindow() {
			return
		}
		classes = append(classes, "dial:"+outcome(err))

	case "client":
		bl, hb, err := doClient(u)
		if judgeClient(u, bl, hb, err) || judgeWindow() {
			return
		}
		classes = append(classes, "client:"+outcome(err))

	case "guard-client": // the order the HTTP handlers use: URL guard first, then the client
		gerr := daisen2.VerifGuardLLMURL(u)
		if judgeDecision("guardLLMURL", 0, gerr) {
			return
		}
		classes = append(classes, "guard:"+strings.Replace(outcome(gerr), "connected", "accepted", 1))
		if gerr == nil {
			bl, hb, err := doClient(u)
			if judgeClient(u, bl, hb, err) {
				return
			}
			classes = append(classes, "client:"+outcome(err))
		}
		if judgeWindow() {
			return
		}

	case "client-redirect":
		if p.firstHop == "" {
			s.Note(c, false, append(classes, "no-nonprivate-local-address")...)
			return
		}
		first := "http://" + net.JoinHostPort(p.firstHop, strconv.Itoa(p.port)) + "/redir?code=" + strconv.Itoa(c.Code) + "&to=" + url.QueryEscape(u)
		bl, hb, err := doClient(first)
		if judgeClient(first, bl, hb, err) || judgeWindow() {
			return
		}
		classes = append(classes, "client:"+outcome(err))
	}

	// classes and non-triviality from what the resolver was actually asked
	ls := d.lookups()
	n := len(ls)
	if n > 4 {
		n = 4
	}
	classes = append(classes, "lookups:"+strconv.Itoa(n))
	rebindServed := false
	seenClean := false
	for _, as := range ls {
		if hasInternal(as) && seenClean {
			rebindServed = true
		}
		if len(as) > 0 && !hasInternal(as) {
			seenClean = true
		}
	}
	if rebindServed {
		classes = append(classes, "rebind-served(public answer, then internal answer)")
	}
	anyInt := false
	for _, st := range c.Steps {
		anyInt = anyInt || hasInternal(stepAddrs(st))
	}
	nt := active && c.Literal == "" && len(ls) > 0 && c.answersDiffer() && anyInt
	if el := time.Since(t0); el > 40*time.Millisecond {
		// bounded waits on unroutable public addresses: counted, never judged
		classes = append(classes, "waited-on-unroutable-public(>40ms)")
		s.AddExtra("ms-waited-on-unroutable-public", int(el.Milliseconds()))
	}
	s.Note(c, nt, classes...)
}

func TestC38Rebind(t *testing.T) {
	s := kit.Begin(t, "C38", "rebind",
		"host NAMES resolved by an in-process DNS responder installed as net.DefaultResolver (pure-Go resolver over an in-memory pipe; zone generated per case): a name has an answer schedule (the k-th lookup gets the k-th A/AAAA sets) drawn from shapes dual-stack-public-then-internal, single-family-rebind, unreachable-public-then-internal, all-internal, mixed-internal-first-answer, stable-public, free mixtures (incl. empty answers), IP literal. Non-internal answers: a non-internal address of this machine, documentation addresses (203.0.113.0/24, 2001:db8::/32), global-scope multicast ff0e::/16 (connect fails at once), real public addresses where nothing is dialed; internal answers: addresses that arrive at the harness listeners (127/8, 0.0.0.0, ::1, ::, IPv4-mapped loopback/unspecified in AAAA, own private addresses) plus unreachable RFC1918/link-local/ULA decoys. The URL/dial port is the port of a listener bound on every local address (a vetted local address connects) or of listeners bound on 127.0.0.1/::1 only (every vetted address fails at once, what the dialer does next is observable). Name spelled lower/upper/mixed/rooted; run through guardLLMURL, CheckRedirect, guardedDialContext, the guarded client, guard-then-client and a 30x redirect to the name. Oracle (guard on): every listener logs the local address of each accepted connection: none may be internal; no returned conn has an internal RemoteAddr; no successful response is served from an internal address (the body names the accepting address) or while every resolution held an internal address; guard decisions: served answer holds an internal address => error, all served addresses certainly public => nil. Failed/timed-out dials to public addresses are counted, never judged. Non-trivial: a name with at least one lookup served whose schedule changes between queries and holds an internal address")
	defer s.End()
	s.Assume("the Go resolver (PreferGo) with a custom Dial is the resolver the code under test uses via net.DefaultResolver; answers are served from memory, so no verdict depends on time: deadlines (60/100 ms) only bound dials to unroutable documentation addresses, and a violation is always a positively observed connection")
	s.Assume("net.DefaultResolver is swapped per case and restored; cases run sequentially in one process")

	var c c38DNSCase
	if ok, err := kit.LoadReplay("C38", "rebind", &c); ok {
		if err != nil {
			t.Fatal(err)
		}
		runC38DNS(s, t, c)
		return
	} else if kit.ReplayMode() {
		t.Skip()
	}
	getProbeServer()
	kit.SetChecks(1200, 6000)
	rapid.Check(t, func(rt *rapid.T) {
		c := genC38DNS(rt)
		runC38DNS(s, rt, c)
	})
}
