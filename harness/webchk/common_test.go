// Package webchk holds the checks for the daisen2 web/assistant properties
// C37 (data-query tool is read-only and capped), C38 (outbound LLM connections
// never reach internal addresses) and C39 (source tools only serve the recorded
// source, within bounds).
package webchk

import (
	"crypto/sha256"
	"encoding/hex"
	"encoding/json"
	"fmt"
	"io"
	"log"
	"os"
	"path/filepath"
	"sync"
	"sync/atomic"
	"testing"

	"verif/harness/kit"
)

var proxyEnvKeys = []string{"HTTPS_PROXY", "https_proxy", "HTTP_PROXY", "http_proxy", "ALL_PROXY", "all_proxy", "NO_PROXY", "no_proxy"}

const allowEnvKey = "DAISEN_ALLOW_PRIVATE_LLM_URL"

// TestMain clears the process-global knobs the code under test reads (proxy
// variables are cached by net/http on first use, so they must be gone before
// any client call) and silences the server's log lines.
func TestMain(m *testing.M) {
	for _, k := range proxyEnvKeys {
		os.Unsetenv(k)
	}
	os.Unsetenv(allowEnvKey)
	log.SetOutput(io.Discard)
	code := m.Run()
	cleanupWork()
	os.Exit(code)
}

var (
	workOnce sync.Once
	workRoot string
	workSeq  atomic.Int64
)

// workDir returns a process-private scratch directory under $VERIF_WORK (or
// the system temp dir).
func workDir() string {
	workOnce.Do(func() {
		base := os.Getenv("VERIF_WORK")
		if base == "" {
			base = os.TempDir()
		}
		d, err := os.MkdirTemp(base, "webchk-")
		if err != nil {
			panic(err)
		}
		workRoot = d
	})
	return workRoot
}

func cleanupWork() {
	if workRoot != "" {
		_ = os.RemoveAll(workRoot)
	}
}

// caseDir creates a fresh empty directory for one case.
func caseDir(prefix string) string {
	d := filepath.Join(workDir(), fmt.Sprintf("%s-%d", prefix, workSeq.Add(1)))
	if err := os.MkdirAll(d, 0o755); err != nil {
		panic(err)
	}
	return d
}

func sha(b []byte) string {
	h := sha256.Sum256(b)
	return hex.EncodeToString(h[:])
}

func clipStr(s string, n int) string {
	if len(s) <= n {
		return s
	}
	return fmt.Sprintf("%s…(%d bytes)", s[:n], len(s))
}

// fuzzFailer lets a native fuzz target report through kit.Session.Fail: it
// stores the failing case as a kit replay file (so `./check <ID> --replay`
// works on it) and puts a VIOLATION line into the failure message.
type fuzzFailer struct {
	t    *testing.T
	id   string
	sub  string
	c    any
	done *bool
}

func (f fuzzFailer) Fatalf(format string, args ...any) {
	msg := fmt.Sprintf(format, args...)
	cb, _ := json.Marshal(f.c)
	r := kit.Replay{Property: f.id, Sub: f.sub, Sig: "fuzz", Message: msg, Case: cb}
	b, _ := json.MarshalIndent(r, "", " ")
	dir := os.Getenv("VERIF_REPLAY_DIR")
	if dir == "" {
		dir = filepath.Join(kit.VerifDir(), "replays", f.id)
	}
	_ = os.MkdirAll(dir, 0o755)
	p := filepath.Join(dir, "fuzz-"+f.sub+"-"+sha(b)[:12]+".json")
	_ = os.WriteFile(p, b, 0o644)
	// unindented copy for the driver (visible when the failing process is the
	// coordinator, e.g. on a seed-corpus entry; worker stdout is not relayed)
	fmt.Printf("VIOLATION property=%s replay=%s\n", f.id, p)
	f.t.Fatalf("\nVIOLATION property=%s replay=%s\n%s", f.id, p, msg)
}

// shard0 is true in the single quick-tier process and in the first of the
// thorough tier's shard processes: deterministic enumerations run only there.
func shard0() bool {
	v := os.Getenv("VERIF_SHARD")
	return v == "" || v == "0"
}
