package webchk

import (
	"context"
	"fmt"
	"os"
	"path/filepath"
	"regexp"
	"sort"
	"testing"

	"github.com/sarchlab/akita/v5/daisen2"
	"pgregory.net/rapid"
)

func TestDbgErrors(t *testing.T) {
	dir := caseDir("dbg")
	defer os.RemoveAll(dir)
	hist := map[string]int{}
	ex := map[string]string{}
	num := regexp.MustCompile(`[0-9]+`)
	srvs := map[int]*daisen2.Server{}
	for i := 0; i < 4; i++ {
		p := filepath.Join(dir, fmt.Sprintf("t%d.sqlite3", i))
		copyFile(p, c37BuildTemplate(i))
		srvs[i] = daisen2.NewReplayServer(p, "")
	}
	rapid.Check(t, func(rt *rapid.T) {
		tm := rapid.IntRange(0, 3).Draw(rt, "t")
		q, _ := genC37Query(rt, tm, true)
		if q.Kind == "mutated" || q.Kind == "multi-statement" || q.Kind == "non-select" {
			return
		}
		_, err := daisen2.VerifRunDataQuery(context.Background(), srvs[tm], q.text(dir))
		k := q.Kind + ": ok"
		if err != nil {
			m := err.Error()
			if len(m) > 70 {
				m = m[:70]
			}
			k = q.Kind + ": " + num.ReplaceAllString(m, "N")
		}
		hist[k]++
		if _, ok := ex[k]; !ok {
			ex[k] = clipStr(q.SQL, 200)
		}
	})
	var ks []string
	for k := range hist {
		ks = append(ks, k)
	}
	sort.Slice(ks, func(i, j int) bool { return hist[ks[i]] > hist[ks[j]] })
	for _, k := range ks {
		fmt.Printf("%5d %s\n        e.g. %q\n", hist[k], k, ex[k])
	}
}
