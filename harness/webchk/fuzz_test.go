package webchk

import (
	"archive/tar"
	"bytes"
	"compress/gzip"
	"context"
	"database/sql"
	"encoding/base64"
	"io"
	"io/fs"
	"net"
	"net/http"
	"net/netip"
	"net/url"
	"path"
	"runtime"
	"strings"
	"testing"
	"unicode/utf8"

	"github.com/sarchlab/akita/v5/daisen2"
	"github.com/sarchlab/akita/v5/sourcefs"

	"verif/harness/kit"
)

// Native fuzz targets (thorough tier: `go test -tags verif -fuzz '^FuzzX$'`).
// Each carries the oracle of its property inside the target. A failure is
// stored as a kit replay of the matching rapid sub-check where one exists.

// ---------------------------------------------------------------------------
// C37
// ---------------------------------------------------------------------------

func FuzzDataQuery(f *testing.F) {
	s := kit.Begin(f, "C37", "fuzz-dataquery", "native fuzzing of the SQL text (bytes) given to runDataQuery on a fresh copy of the 40-row trace with a 300 ms caller deadline; oracle of sub-check sql")
	defer s.End()
	seeds := []string{
		"SELECT * FROM trace",
		"SELECT loc.Locale, COUNT(*) AS n FROM trace t JOIN location loc ON t.Location = loc.ID GROUP BY loc.Locale ORDER BY 1",
		"WITH x(a) AS (SELECT 1 LIMIT 1) DELETE FROM trace RETURNING ID",
		"WITH x(a) AS (VALUES(1)) /* limit 1 */ INSERT INTO location SELECT a, 'evil' FROM x RETURNING *",
		"WITH RECURSIVE c(x) AS (SELECT 1 UNION ALL SELECT x+1 FROM c WHERE x < 5000) SELECT x, hex(zeroblob(x%100)) FROM c",
		"SELECT 1; PRAGMA query_only=0; DELETE FROM trace",
		"SELECT '--'; PRAGMA query_only = OFF; DROP TABLE location",
		"SELECT 1 -- c\n; PRAGMA query_only=0; ATTACH DATABASE '{DIR}/verif_evil_abs.db' AS e; CREATE TABLE e.t(x)",
		"SELECT 1 /* ; */ ; VACUUM INTO '{DIR}/verif_evil_vac.db'",
		"PRAGMA journal_mode=DELETE",
		"ATTACH DATABASE 'verif_evil_rel.db' AS e",
		"SELECT hex(zeroblob(70000)) AS \"" + strings.Repeat("h", 300) + "\", * FROM trace a, trace b",
		"SELECT *,*,*,*,*,*,*,* FROM trace, location LIMIT 100000",
		"select * from pragma_table_info('trace')",
		"SELECT 1\x00; DROP TABLE trace",
		"((SELECT 1))",
		"SELECT load_extension('x')",
	}
	for _, q := range seeds {
		f.Add([]byte(q))
	}
	f.Fuzz(func(t *testing.T, data []byte) {
		if len(data) > 20_000 {
			return
		}
		resetEnv()
		c := c37Case{Template: 1, Queries: []c37Query{{Raw: data, Via: "direct", DeadlineUS: 300_000, Kind: "fuzz"}}}
		runC37(s, fuzzFailer{t: t, id: "C37", sub: "sql", c: c}, c, false)
	})
}

// ---------------------------------------------------------------------------
// C38
// ---------------------------------------------------------------------------

func hostIsInternal(host string) (bool, string) {
	h := host
	if i := strings.IndexByte(h, '%'); i >= 0 {
		h = h[:i]
	}
	if a, err := netip.ParseAddr(h); err == nil {
		cl := classify(a)
		return isInternalClass(cl), cl
	}
	for _, n := range internalNames {
		if strings.EqualFold(n, host) || strings.EqualFold(n+".", host) {
			return true, "hosts-name"
		}
	}
	return false, ""
}

func FuzzGuardURL(f *testing.F) {
	s := kit.Begin(f, "C38", "fuzz-guardurl", "native fuzzing of the URL string given to guardLLMURL / CheckRedirect / (host:port of it) guardedDialContext with the allow switch unset; whenever one of them lets the URL through, the host that net/url extracts must not be an internal literal (harness CIDR tables) or an internal /etc/hosts name")
	defer s.End()
	for _, u := range []string{
		"http://127.0.0.1:11434/v1/chat/completions", "http://[::ffff:127.0.0.1]/", "http://[::FFFF:7F00:1]:80/", "https://8.8.8.8/v1",
		"http://localhost/", "http://LOCALHOST:8080/x", "http://user:pw@10.0.0.1/", "http://8.8.8.8@192.168.1.1/", "http://192.168.1.1#@8.8.8.8/",
		"http://[fe80::1%25eth0]:1/", "http://[fd00::2]/", "http://0.0.0.0/", "http://[::]/", "http://169.254.169.254/latest/meta-data/",
		"HTTP://[0:0:0:0:0:ffff:10.1.2.3]/", "http://2130706433/", "http://0x7f.1/", "http://127.1/", "http://[::ffff:a9fe:a9fe]/", "https://[2606:4700:4700::1111]/",
		"http://224.0.0.1/", "http://[ff02::1]/", "//127.0.0.1/", "http:127.0.0.1", "http://127.0.0.1.:80/", "http://[::1]:", "http://%31%32%37.0.0.1/",
	} {
		f.Add(u)
	}
	f.Fuzz(func(t *testing.T, u string) {
		if len(u) > 2000 {
			return
		}
		c := c38Case{Mode: "fuzz-url", Host: u, Allow: "<unset>"}
		c38FuzzBody(s, fuzzFailer{t: t, id: "C38", sub: "fuzz-guardurl", c: c}, c)
	})
}

// TestC38FuzzReplay re-runs a failing input of FuzzGuardURL saved as a kit replay.
func TestC38FuzzReplay(t *testing.T) {
	var c c38Case
	ok, err := kit.LoadReplay("C38", "fuzz-guardurl", &c)
	if !ok {
		t.Skip()
	}
	if err != nil {
		t.Fatal(err)
	}
	s := kit.Begin(t, "C38", "fuzz-guardurl", "replay of a FuzzGuardURL input")
	defer s.End()
	c38FuzzBody(s, t, c)
}

func c38FuzzBody(s *kit.Session, ff kit.Failer, c c38Case) {
	{
		u := c.Host
		resetEnv()
		pu, perr := url.Parse(u)
		if perr != nil || pu.Hostname() == "" {
			// net/http would not send such a request; the guard may answer anything
			if err := daisen2.VerifGuardLLMURL(u); err == nil && perr != nil {
				s.Fail(ff, c, "fuzz:accepted-unparsable-url", "guardLLMURL(%q) = nil although net/url rejects it: %v", u, perr)
				return
			}
			s.Note(c, false, "unparsable-or-hostless")
			return
		}
		host := pu.Hostname()
		internal, cl := hostIsInternal(host)
		gerr := daisen2.VerifGuardLLMURL(u)
		if internal && gerr == nil {
			s.Fail(ff, c, "fuzz:accepted-internal:url:"+cl, "guardLLMURL(%q) = nil, host %q is %s", u, host, cl)
			return
		}
		if req, err := http.NewRequest("GET", u, nil); err == nil {
			via := []*http.Request{req}
			if rerr := daisen2.VerifGuardedLLMClient().CheckRedirect(req, via); internal && rerr == nil {
				s.Fail(ff, c, "fuzz:accepted-internal:redirect:"+cl, "CheckRedirect(%q) = nil, host %q is %s", u, host, cl)
				return
			}
		}
		port := pu.Port()
		if port == "" {
			port = "80"
		}
		if internal {
			ctx, cancel := context.WithCancel(context.Background())
			cancel()
			conn, derr := daisen2.VerifGuardedDialContext(ctx, "tcp", net.JoinHostPort(host, port))
			if conn != nil {
				conn.Close()
			}
			if conn != nil || isDialOpError(derr) {
				s.Fail(ff, c, "fuzz:dial-attempted-internal:"+cl, "guardedDialContext(%q) attempted a connection (err=%v), host is %s", net.JoinHostPort(host, port), derr, cl)
				return
			}
		}
		s.Note(c, internal, "class:"+cl)
	}
}

// ---------------------------------------------------------------------------
// C39
// ---------------------------------------------------------------------------

// ownParse reads the archive with the standard library directly.
func ownParse(data []byte) (map[string][][]byte, bool) {
	gz, err := gzip.NewReader(bytes.NewReader(data))
	if err != nil {
		return nil, false
	}
	tr := tar.NewReader(gz)
	out := map[string][][]byte{}
	for {
		hdr, err := tr.Next()
		if err == io.EOF {
			return out, true
		}
		if err != nil {
			return out, false
		}
		if hdr.Typeflag != tar.TypeReg {
			continue
		}
		b, err := io.ReadAll(io.LimitReader(tr, c39MaxFileBytes+2))
		if err != nil {
			return out, false
		}
		out[hdr.Name] = append(out[hdr.Name], b)
	}
}

func FuzzReadArchive(f *testing.F) {
	s := kit.Begin(f, "C39", "fuzz-readarchive", "native fuzzing of the archive bytes given to sourcefs.ReadArchive and (as the single row of a source table, with a fuzzed root) to OpenTraceSource; accepted archives must return only regular entries that an independent gzip+tar walk also finds, byte for byte, within the 8 MiB / 96 MiB limits; every file of the resulting tree has an fs.ValidPath key equal to path.Join(root, entry name) and that entry's bytes; cumulative allocation of ReadArchive <= 4 x 96 MiB")
	defer s.End()
	var valid bytes.Buffer
	_ = sourcefs.WriteArchive(&valid, map[string][]byte{"a.go": []byte("package a\n"), "b/c.go": []byte("package c\nfunc F() {}\n"), "go.mod": []byte("module m\n")})
	f.Add(valid.Bytes(), "example.com/m")
	small := c39Entry{Name: "pkg/ok.go", Type: "reg", Content: c39Content{Kind: "text", Seed: 3, Len: 200}, Declared: -1}
	for _, a := range []c39Archive{
		{Entries: []c39Entry{small, {Name: "../escape.go", Type: "reg", Raw: true, Content: c39Content{Kind: "text", Seed: 1, Len: 50}, Declared: -1}}},
		{Entries: []c39Entry{{Name: "/etc/passwd", Type: "reg", Raw: true, Content: c39Content{Kind: "text", Seed: 2, Len: 50}, Declared: -1}, small}},
		{Entries: []c39Entry{{Name: "link", Type: "symlink", Link: "/etc/passwd", Declared: -1}, {Name: "dir/", Type: "dir", Declared: -1}, small}},
		{Entries: []c39Entry{small, {Name: "pkg/liar.go", Type: "reg", Raw: true, Content: c39Content{Kind: "zeros", Len: 600}, Declared: 1 << 40}}, NoTrailer: true},
		{Entries: []c39Entry{{Name: "bomb.go", Type: "reg", Content: c39Content{Kind: "zeros", Len: 9 << 20}, Declared: -1}}},
		{Entries: []c39Entry{{Name: strings.Repeat("n", 200) + "/x.go", Type: "reg", Content: c39Content{Kind: "text", Seed: 5, Len: 80}, Declared: -1}}},
		{Corrupt: "truncated-gzip", Entries: []c39Entry{small, small}},
	} {
		f.Add(a.build(), "root")
	}
	f.Add([]byte("not gzip"), "")
	f.Add([]byte{0x1f, 0x8b, 8, 0, 0, 0, 0, 0, 0, 0xff}, "../up")
	f.Fuzz(func(t *testing.T, data []byte, root string) {
		if len(data) > 1<<20 || len(root) > 300 {
			return
		}
		c := c39FuzzCase{base64.StdEncoding.EncodeToString(data), root}
		c39FuzzBody(s, fuzzFailer{t: t, id: "C39", sub: "fuzz-readarchive", c: c}, c)
	})
}

type c39FuzzCase struct {
	Archive string `json:"archive_b64"`
	Root    string `json:"root"`
}

// TestC39FuzzReplay re-runs a failing input of FuzzReadArchive saved as a kit replay.
func TestC39FuzzReplay(t *testing.T) {
	var c c39FuzzCase
	ok, err := kit.LoadReplay("C39", "fuzz-readarchive", &c)
	if !ok {
		t.Skip()
	}
	if err != nil {
		t.Fatal(err)
	}
	s := kit.Begin(t, "C39", "fuzz-readarchive", "replay of a FuzzReadArchive input")
	defer s.End()
	c39FuzzBody(s, t, c)
}

func c39FuzzBody(s *kit.Session, ff kit.Failer, c c39FuzzCase) {
	{
		data, _ := base64.StdEncoding.DecodeString(c.Archive)
		root := c.Root
		var m0, m1 runtime.MemStats
		runtime.ReadMemStats(&m0)
		var files map[string][]byte
		var err error
		if ok, sig, msg := kit.Guard(func() { files, err = sourcefs.ReadArchive(data) }); !ok {
			s.Fail(ff, c, sig, "%s", msg)
			return
		}
		runtime.ReadMemStats(&m1)
		if mb := float64(m1.TotalAlloc-m0.TotalAlloc) / (1 << 20); mb > 4*96 {
			s.Fail(ff, c, "read-archive-unbounded-allocation", "ReadArchive allocated %.0f MiB on a %d-byte input", mb, len(data))
			return
		}
		if err != nil {
			s.Note(c, false, "rejected")
			return
		}
		own, _ := ownParse(data)
		total := 0
		for name, b := range files {
			total += len(b)
			ok := false
			for _, ob := range own[name] {
				if bytes.Equal(ob, b) {
					ok = true
				}
			}
			if !ok {
				s.Fail(ff, c, "fuzz:entry-not-in-archive", "ReadArchive returned %q (%d bytes) which an independent walk of the archive does not find as a regular entry with these bytes", clipStr(name, 80), len(b))
				return
			}
			if len(b) > c39MaxFileBytes {
				s.Fail(ff, c, "oversized-entry-returned", "%q has %d bytes", clipStr(name, 80), len(b))
				return
			}
		}
		if total > c39MaxTotalBytes {
			s.Fail(ff, c, "oversized-archive-returned", "%d bytes in total", total)
			return
		}
		// the tree a server would serve from this archive
		db, derr := sql.Open("sqlite3", ":memory:")
		if derr != nil {
			return
		}
		db.SetMaxOpenConns(1)
		defer db.Close()
		if _, derr = db.Exec(`CREATE TABLE source (Root TEXT, Format TEXT, Content TEXT)`); derr != nil {
			return
		}
		if strings.ContainsRune(root, 0) || !utf8.ValidString(root) {
			root = "r"
		}
		if _, derr = db.Exec(`INSERT INTO source VALUES (?,?,?)`, root, "tar.gz;base64", base64.StdEncoding.EncodeToString(data)); derr != nil {
			return
		}
		var src *sourcefs.Source
		var oerr error
		if ok, sig, msg := kit.Guard(func() { src, oerr = sourcefs.OpenTraceSource(db) }); !ok {
			s.Fail(ff, c, sig, "OpenTraceSource: %s", msg)
			return
		}
		if oerr != nil || src.IsEmpty() {
			s.Note(c, len(files) > 0, "accepted", "tree-empty")
			return
		}
		n := 0
		werr := fs.WalkDir(src.FS(), ".", func(p string, d fs.DirEntry, err error) error {
			if err != nil || d.IsDir() {
				return err
			}
			n++
			b, rerr := fs.ReadFile(src.FS(), p)
			if rerr != nil {
				return nil
			}
			if !fs.ValidPath(p) {
				s.Fail(ff, c, "fuzz:invalid-key-served", "tree contains %q", p)
				return fs.SkipAll
			}
			ok := false
			for name, fb := range files {
				if path.Join(root, name) == p && bytes.Equal(fb, b) {
					ok = true
				}
			}
			if !ok {
				s.Fail(ff, c, "fuzz:unrecorded-file-served", "tree file %q (%d bytes) is not path.Join(root, name) of an archive entry with these bytes", p, len(b))
				return fs.SkipAll
			}
			return nil
		})
		_ = werr
		s.Note(c, n > 0, "accepted", "tree-files:"+bucket(n))
	}
}
