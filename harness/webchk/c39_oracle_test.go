package webchk

import (
	"fmt"
	"regexp"
	"strconv"
	"strings"

	"github.com/sarchlab/akita/v5/daisen2"
)

// Judges of the agent tools' text output. Each returns ("", "") when the
// output only carries recorded content (or is a refusal), else a signature and
// a message.

func isRefusal(out string, terr error) bool {
	return terr != nil || strings.HasPrefix(out, "File not found") || strings.HasPrefix(out, "Directory not found") ||
		strings.HasPrefix(out, "No simulator source is recorded")
}

func recordedFile(m *c39Model, clean string) bool {
	_, ok := m.files[clean]
	return ok && !m.ambiguous(clean)
}

var readHeaderRe = regexp.MustCompile(`^ \(lines (\d+)-(\d+) of (\d+)\):\n`)

func verifyRead(out, clean string, b []byte, caps map[string]int) string {
	lines := splitLinesModel(b)
	if len(lines) == 0 {
		if out == clean+" is empty (0 lines)." {
			return ""
		}
		return "recorded file is empty but the output is not the empty notice"
	}
	if strings.HasPrefix(out, clean+" has ") && strings.HasSuffix(out, " is past the end.") {
		if strings.HasPrefix(out, fmt.Sprintf("%s has %d lines; start_line ", clean, len(lines))) {
			return ""
		}
		return "past-the-end notice with a wrong line count"
	}
	if !strings.HasPrefix(out, clean) {
		return "output does not start with the cleaned path"
	}
	rest := out[len(clean):]
	m := readHeaderRe.FindStringSubmatch(rest)
	if m == nil {
		return "no '(lines a-b of n):' header"
	}
	from, _ := strconv.Atoi(m[1])
	to, _ := strconv.Atoi(m[2])
	total, _ := strconv.Atoi(m[3])
	if total != len(lines) {
		return fmt.Sprintf("header says %d lines, recorded file has %d", total, len(lines))
	}
	if from < 1 || to < from || to > total {
		return fmt.Sprintf("window %d-%d outside 1..%d", from, to, total)
	}
	if to-from+1 > caps["codeReadMaxLines"] {
		return fmt.Sprintf("window of %d lines exceeds the %d-line cap", to-from+1, caps["codeReadMaxLines"])
	}
	rest = rest[len(m[0]):]
	width := len(strconv.Itoa(to))
	consumed := len(clean) + len(m[0])
	for i := from; i <= to; i++ {
		row := fmt.Sprintf("%*d\t%s\n", width, i, lines[i-1])
		if !strings.HasPrefix(rest, row) {
			break
		}
		rest = rest[len(row):]
		consumed += len(row)
	}
	if consumed > caps["codeReadMaxBytes"] {
		return fmt.Sprintf("%d bytes of header+content exceed the %d-byte cap", consumed, caps["codeReadMaxBytes"])
	}
	if rest == "" {
		return ""
	}
	if strings.HasPrefix(rest, "[") && strings.HasSuffix(rest, "]\n") && strings.Count(rest, "\n") == 1 {
		return ""
	}
	return fmt.Sprintf("text that is neither a numbered line of the recorded file nor a footer: %q", clipStr(rest, 120))
}

func judgeToolRead(m *c39Model, p, eff, clean string, escapes bool, rq c39Req, out string, terr error) (string, string) {
	caps := daisen2.VerifCodeToolCaps()
	if m.empty {
		if isRefusal(out, terr) {
			return "", ""
		}
		return "unrecorded-content-served:tool-read", "nothing is recorded but the tool returned text"
	}
	if escapes || eff == "" {
		if isRefusal(out, terr) {
			return "", ""
		}
		return "escaping-path-served:tool-read", fmt.Sprintf("path cleans to %q, yet the tool returned text", clean)
	}
	if isRefusal(out, terr) {
		if recordedFile(m, clean) {
			return "recorded-file-refused:tool-read", fmt.Sprintf("%q is a recorded file", clean)
		}
		return "", ""
	}
	cs, ok := m.files[clean]
	if !ok {
		return "unrecorded-content-served:tool-read", fmt.Sprintf("%q is not a recorded file", clean)
	}
	why := ""
	for _, b := range cs {
		if why = verifyRead(out, clean, b, caps); why == "" {
			return "", ""
		}
	}
	return "content-differs:tool-read", why
}

var lsHeaderRe = regexp.MustCompile(`^(.*) — (\d+) dir\(s\), (\d+) file\(s\):$`)
var lsAnnotRe = regexp.MustCompile(`^(\d+) lines, [0-9.]+ (B|KB|MB)$`)

func judgeToolLs(m *c39Model, p, eff, clean string, escapes bool, out string, terr error) (string, string) {
	caps := daisen2.VerifCodeToolCaps()
	if m.empty {
		if isRefusal(out, terr) {
			return "", ""
		}
		return "unrecorded-content-served:tool-ls", "nothing is recorded but the tool returned a listing"
	}
	rootListing := eff == "" || eff == "."
	if !rootListing && escapes {
		if isRefusal(out, terr) {
			return "", ""
		}
		return "escaping-path-served:tool-ls", fmt.Sprintf("path cleans to %q, yet the tool returned text", clean)
	}
	if isRefusal(out, terr) {
		if !rootListing && m.dirs[clean] && !m.ambiguous(clean) {
			return "recorded-dir-refused:tool-ls", fmt.Sprintf("%q is a recorded directory", clean)
		}
		return "", ""
	}
	if strings.HasPrefix(out, "Recorded module root(s) — ") {
		if !rootListing {
			return "unrecorded-content-served:tool-ls", "root listing for a non-root path"
		}
		ls := strings.Split(strings.TrimSuffix(out, "\n"), "\n")
		roots := map[string]bool{}
		for _, r := range m.roots {
			roots[r+"/"] = true
		}
		for _, l := range ls[1:] {
			if !roots[l] {
				return "unrecorded-entry:tool-ls-root", fmt.Sprintf("root listing line %q is not a recorded root (%q)", l, m.roots)
			}
		}
		return "", ""
	}
	if rootListing {
		clean = "."
	}
	if out == clean+" is a file, not a directory. Use code_read to read it." {
		if _, ok := m.files[clean]; ok {
			return "", ""
		}
		return "unrecorded-content-served:tool-ls", fmt.Sprintf("%q is not a recorded file", clean)
	}
	if strings.HasPrefix(out, "Could not list ") {
		return "", ""
	}
	ls := strings.Split(strings.TrimSuffix(out, "\n"), "\n")
	h := lsHeaderRe.FindStringSubmatch(ls[0])
	label := clean
	if clean == "." {
		label = "(root)"
	}
	if h == nil || h[1] != label {
		return "content-differs:tool-ls", fmt.Sprintf("first line %q is not the listing header of %q", clipStr(ls[0], 100), label)
	}
	if !m.dirs[clean] && !m.ambiguous(clean) {
		return "unrecorded-dir-listed:tool-ls", fmt.Sprintf("%q is not a recorded directory", clean)
	}
	ch := m.children(clean)
	nd, nf, amb := 0, 0, m.ambiguous(clean)
	for _, c := range ch {
		if c.dir && c.file {
			amb = true
		}
		if c.dir {
			nd++
		} else {
			nf++
		}
	}
	d, _ := strconv.Atoi(h[2])
	fcount, _ := strconv.Atoi(h[3])
	if !amb && (d != nd || fcount != nf) {
		return "entry-count:tool-ls", fmt.Sprintf("header says %d dirs / %d files, recorded %d / %d", d, fcount, nd, nf)
	}
	body := ls[1:]
	if len(body) > 0 && strings.HasPrefix(body[len(body)-1], "[truncated") {
		body = body[:len(body)-1]
	}
	if len(body) > caps["codeLsMaxEntries"] {
		return "ls-cap", fmt.Sprintf("%d entries listed, cap %d", len(body), caps["codeLsMaxEntries"])
	}
	for _, l := range body {
		if strings.HasSuffix(l, "/") {
			if c := ch[strings.TrimSuffix(l, "/")]; c != nil && c.dir {
				continue
			}
			if !strings.Contains(l, "\t") {
				return "unrecorded-entry:tool-ls", fmt.Sprintf("directory entry %q under %q is not recorded", l, clean)
			}
		}
		i := strings.LastIndex(l, "\t")
		if i < 0 {
			return "content-differs:tool-ls", fmt.Sprintf("unparsable listing line %q", clipStr(l, 100))
		}
		name, annot := l[:i], l[i+1:]
		c := ch[name]
		if c == nil || !c.file {
			return "unrecorded-entry:tool-ls", fmt.Sprintf("file entry %q under %q is not recorded", name, clean)
		}
		if annot == "?" {
			continue
		}
		am := lsAnnotRe.FindStringSubmatch(annot)
		if am == nil {
			return "content-differs:tool-ls", fmt.Sprintf("unparsable annotation %q", annot)
		}
		n, _ := strconv.Atoi(am[1])
		ok := false
		key := name
		if clean != "." {
			key = clean + "/" + name
		}
		for _, b := range m.files[key] {
			if countLinesModel(b) == n {
				ok = true
			}
		}
		if !ok {
			return "content-differs:tool-ls", fmt.Sprintf("entry %q annotated with %d lines, not the recorded file's", name, n)
		}
	}
	return "", ""
}

var searchHeaderRe = regexp.MustCompile(`^(\d+) match\(es\):$`)

func judgeToolSearch(m *c39Model, rq c39Req, out string, terr error) (string, string) {
	caps := daisen2.VerifCodeToolCaps()
	if terr != nil || strings.HasPrefix(out, "No simulator source is recorded") || strings.HasPrefix(out, "No matches for ") {
		return "", ""
	}
	if m.empty {
		return "unrecorded-content-served:tool-search", "nothing is recorded but the search returned matches"
	}
	re, err := regexp.Compile(rq.Query)
	if err != nil {
		return "content-differs:tool-search", "matches returned for a query that is not a valid regular expression"
	}
	ls := strings.Split(strings.TrimSuffix(out, "\n"), "\n")
	h := searchHeaderRe.FindStringSubmatch(ls[0])
	if h == nil {
		return "content-differs:tool-search", fmt.Sprintf("first line %q is not a match-count header", clipStr(ls[0], 100))
	}
	body := ls[1:]
	if len(body) > 0 && strings.HasPrefix(body[len(body)-1], "[truncated") {
		body = body[:len(body)-1]
	}
	n, _ := strconv.Atoi(h[1])
	if n != len(body) || n > caps["codeSearchMaxMatches"] {
		return "search-cap", fmt.Sprintf("header says %d matches, %d lines follow, cap %d", n, len(body), caps["codeSearchMaxMatches"])
	}
	size := 0
	for _, l := range body {
		size += len(l) + 1
		found := false
		for p, cs := range m.files {
			if !strings.HasPrefix(l, p+":") || (rq.Filter != "" && !strings.Contains(p, rq.Filter)) {
				continue
			}
			rest := l[len(p)+1:]
			i := strings.Index(rest, ": ")
			if i < 0 {
				continue
			}
			ln, err := strconv.Atoi(rest[:i])
			if err != nil || ln < 1 {
				continue
			}
			snippet := rest[i+2:]
			for _, b := range cs {
				lines := strings.Split(string(b), "\n")
				if ln > len(lines) {
					continue
				}
				line := strings.TrimSuffix(lines[ln-1], "\r")
				if !re.MatchString(line) {
					continue
				}
				want := strings.TrimSpace(line)
				if len(want) > caps["codeSearchMaxLineBytes"] {
					want = want[:caps["codeSearchMaxLineBytes"]] + "…"
				}
				if want == snippet {
					found = true
				}
			}
			if found {
				break
			}
		}
		if !found {
			return "unrecorded-content-served:tool-search", fmt.Sprintf("match line %q is not path:line: text of a recorded file line matching %q (filter %q)", clipStr(l, 160), rq.Query, rq.Filter)
		}
	}
	if size > caps["codeSearchMaxBytes"] {
		return "search-cap", fmt.Sprintf("%d bytes of matches, cap %d", size, caps["codeSearchMaxBytes"])
	}
	return "", ""
}
