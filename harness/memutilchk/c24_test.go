package memutilchk

import (
	"fmt"
	"io"
	"log"
	"math"
	"runtime"
	"sort"
	"testing"

	"github.com/sarchlab/akita/v5/mem"
	"github.com/sarchlab/akita/v5/messaging"
	"pgregory.net/rapid"

	"verif/harness/kit"
)

// ---------------------------------------------------------------------------
// C24 — interleaved address conversion is consistent and order preserving.
//
// Reading of the configuration (from mem/addressconverter.go, mem/addrconv.go
// and the Spec comment in mem/simplebankedmemory/comp.go): the interleaved
// region starts at external address Offset; stripe k is
// [Offset+k*Size, Offset+(k+1)*Size) and belongs to element k mod N (that is
// how both converters compute `belongsTo`). Addresses below Offset belong to
// nobody. The element's internal space is the concatenation of its stripes.
// No caller in the repository uses a non-zero offset, so offsets that are not a
// multiple of the interleaving size are labelled as their own class.
// ---------------------------------------------------------------------------

func init() {
	// log.Panic prints every rejection message on stderr before panicking.
	log.SetOutput(io.Discard)
}

type c24Case struct {
	Size   uint64   `json:"size"`
	N      int      `json:"n"`
	Elem   int      `json:"elem"`
	Offset uint64   `json:"offset"`
	Addrs  []uint64 `json:"addrs"`
	Mapper bool     `json:"mapper,omitempty"` // also compare with InterleavedAddressPortMapper (Offset is a multiple of Size*N)
	Limit  bool     `json:"limit,omitempty"`  // mapper uses [Offset, High) as its address space
	High   uint64   `json:"high,omitempty"`
	Only   string   `json:"only,omitempty"` // judge this call site only (the other one has a listed finding for this input class)
}

const (
	c24SiteConv = "InterleavingConverter"
	c24SiteFunc = "ConvertAddress"
)

// c24Call runs a converter call. A log.Panic (string / error value that is not
// a runtime.Error) is the converter's way of rejecting an address; a
// runtime.Error (division by zero, index out of range, ...) is an accident.
func c24Call(fn func() uint64) (v uint64, rejected bool, accident string) {
	defer func() {
		if r := recover(); r != nil {
			if re, ok := r.(runtime.Error); ok {
				accident = re.Error()
				return
			}
			rejected = true
		}
	}()
	v = fn()
	return
}

// c24Oracle: owner of an external address and its rank among the addresses of
// that owner (closed form of "number of addresses of the same element below e").
func c24Oracle(size uint64, n int, offset, e uint64) (owned bool, owner int, internal uint64) {
	if e < offset {
		return false, -1, 0
	}
	a := e - offset
	stripe := a / size
	return true, int(stripe % uint64(n)), (stripe/uint64(n))*size + a%size
}

type c24Stats struct {
	accepted, rejected, belowOffset int
	deepAccepted                    bool // accepted address in round >= 1 with a non-zero position in its stripe
	boundaryPair                    bool // two accepted addresses in different stripes compared for order
	inStripePair                    bool
	mapperChecked, mapperOther      int
}

func c24Sites(c c24Case) map[string]func(uint64) uint64 {
	conv := mem.InterleavingConverter{
		InterleavingSize:    c.Size,
		TotalNumOfElements:  c.N,
		CurrentElementIndex: c.Elem,
		Offset:              c.Offset,
	}
	return map[string]func(uint64) uint64{
		c24SiteConv: func(e uint64) uint64 { return conv.ConvertExternalToInternal(e) },
		c24SiteFunc: func(e uint64) uint64 {
			return mem.ConvertAddress("interleaving", c.Offset, c.Size, c.N, c.Elem, e)
		},
	}
}

func c24Suffix(c c24Case) string {
	if c.Offset%c.Size != 0 {
		return ",offset%size!=0"
	}
	return ""
}

// c24Exec judges one case. only: restrict to one call site ("" = both).
func c24Exec(c c24Case, only string) (sig, msg string, st c24Stats) {
	if c.Size == 0 || c.N <= 0 || c.Elem < 0 || c.Elem >= c.N {
		return "", "", st // outside the domain
	}
	addrs := append([]uint64(nil), c.Addrs...)
	sort.Slice(addrs, func(i, j int) bool { return addrs[i] < addrs[j] })
	cfg := fmt.Sprintf("size=%d n=%d elem=%d offset=%d", c.Size, c.N, c.Elem, c.Offset)
	sfx := c24Suffix(c)
	sites := c24Sites(c)

	for _, site := range []string{c24SiteConv, c24SiteFunc} {
		if only != "" && only != site {
			continue
		}
		f := sites[site]
		var prevE, prevV uint64
		havePrev := false
		for i, e := range addrs {
			if i > 0 && e == addrs[i-1] {
				continue
			}
			owned, owner, want := c24Oracle(c.Size, c.N, c.Offset, e)
			v, rejected, accident := c24Call(func() uint64 { return f(e) })
			if accident != "" {
				return site + ":runtime-panic" + sfx, fmt.Sprintf("%s(%s) address %d: %s", site, cfg, e, accident), st
			}
			mine := owned && owner == c.Elem
			if !mine {
				if !rejected {
					kind := "foreign-address-accepted"
					if !owned {
						kind = "address-below-offset-accepted"
					}
					return site + ":" + kind + sfx, fmt.Sprintf("%s(%s): address %d (owner %d) was converted to %d instead of being rejected", site, cfg, e, owner, v), st
				}
				if site == c24SiteConv {
					st.rejected++
					if !owned {
						st.belowOffset++
					}
				}
				continue
			}
			if rejected {
				return site + ":owned-address-rejected" + sfx, fmt.Sprintf("%s(%s): address %d belongs to element %d but was rejected", site, cfg, e, c.Elem), st
			}
			// order / contiguity against the previous accepted address (reported first: they are the property's own words)
			if havePrev {
				sameStripe := (e-c.Offset)/c.Size == (prevE-c.Offset)/c.Size
				if sameStripe && v-prevV != e-prevE {
					return site + ":wrong-internal-address" + sfx, fmt.Sprintf("%s(%s): addresses %d and %d lie in one stripe but map to %d and %d", site, cfg, prevE, e, prevV, v), st
				}
				if v <= prevV {
					return site + ":wrong-internal-address" + sfx, fmt.Sprintf("%s(%s): owned addresses %d < %d map to %d and %d", site, cfg, prevE, e, prevV, v), st
				}
				if site == c24SiteConv {
					if sameStripe {
						st.inStripePair = true
					} else {
						st.boundaryPair = true
					}
				}
			}
			if v != want {
				return site + ":wrong-internal-address" + sfx, fmt.Sprintf("%s(%s): address %d is the element's address number %d but maps to %d", site, cfg, e, want, v), st
			}
			if site == c24SiteConv {
				st.accepted++
				if (e-c.Offset)/c.Size >= uint64(c.N) && (e-c.Offset)%c.Size != 0 {
					st.deepAccepted = true
				}
			}
			prevE, prevV, havePrev = e, v, true
		}
	}

	// kind "" is documented as the identity
	if only == "" || only == c24SiteFunc {
		for _, e := range addrs {
			v, rejected, accident := c24Call(func() uint64 { return mem.ConvertAddress("", c.Offset, c.Size, c.N, c.Elem, e) })
			if rejected || accident != "" || v != e {
				return "ConvertAddress:empty-kind-not-identity", fmt.Sprintf("ConvertAddress(\"\", %s, %d) = %d rejected=%v %s", cfg, e, v, rejected, accident), st
			}
		}
	}

	if c.Mapper && only == "" && c.Offset%(c.Size*uint64(c.N)) == 0 {
		ports := make([]messaging.RemotePort, c.N)
		for i := range ports {
			ports[i] = messaging.RemotePort(fmt.Sprintf("Element[%d].Top", i))
		}
		other := messaging.RemotePort("Other.Top")
		mp := mem.NewInterleavedAddressPortMapper(c.Size)
		mp.LowModules = append(mp.LowModules, ports...)
		if c.Limit {
			mp.UseAddressSpaceLimitation = true
			mp.LowAddress = c.Offset
			mp.HighAddress = c.High
			mp.ModuleForOtherAddresses = other
		}
		for _, e := range addrs {
			var got messaging.RemotePort
			if ok, psig, pmsg := kit.Guard(func() { got = mp.Find(e) }); !ok {
				return "mapper:" + psig, pmsg, st
			}
			if c.Limit && (e < c.Offset || e >= c.High) {
				if got != other {
					return "mapper:outside-limits-not-other", fmt.Sprintf("mapper(%s low=%d high=%d).Find(%d)=%q want %q", cfg, c.Offset, c.High, e, got, other), st
				}
				st.mapperOther++
				continue
			}
			owned, owner, _ := c24Oracle(c.Size, c.N, c.Offset, e)
			if !owned {
				continue // no limits and below the converter's offset: nothing to compare
			}
			if got != ports[owner] {
				return "mapper:disagrees-with-converter", fmt.Sprintf("mapper(%s).Find(%d)=%q but the converters assign the address to element %d", cfg, e, got, owner), st
			}
			// and the converter of exactly that element accepts it
			conv := mem.InterleavingConverter{InterleavingSize: c.Size, TotalNumOfElements: c.N, CurrentElementIndex: owner, Offset: c.Offset}
			if _, rejected, accident := c24Call(func() uint64 { return conv.ConvertExternalToInternal(e) }); rejected || accident != "" {
				return "mapper:target-element-rejects", fmt.Sprintf("mapper(%s).Find(%d) chose element %d whose converter rejects the address %s", cfg, e, owner, accident), st
			}
			st.mapperChecked++
		}
	}
	return "", "", st
}

// ------------------------------ generator ---------------------------------

func genC24Size(rt *rapid.T) uint64 {
	switch rapid.IntRange(0, 4).Draw(rt, "sclass") {
	case 0:
		return uint64(1) << rapid.IntRange(0, 20).Draw(rt, "slog2")
	case 1:
		return rapid.Uint64Range(1, 16).Draw(rt, "size")
	case 2:
		return rapid.SampledFrom([]uint64{3, 5, 7, 12, 48, 63, 65, 96, 100, 127, 129, 1000, 4095, 4097, 65537, 1<<20 - 1}).Draw(rt, "size")
	default:
		return rapid.Uint64Range(1, 1<<20).Draw(rt, "size")
	}
}

func genC24(rt *rapid.T, s *kit.Session) c24Case {
	c := c24Case{}
	c.Size = genC24Size(rt)
	c.N = rapid.IntRange(1, 16).Draw(rt, "n")
	c.Elem = rapid.IntRange(0, c.N-1).Draw(rt, "elem")
	round := c.Size * uint64(c.N)

	c.Mapper = rapid.IntRange(0, 2).Draw(rt, "mapper") == 0
	switch oc := rapid.IntRange(0, 6).Draw(rt, "oclass"); {
	case c.Mapper: // what the mapper can express: region starts on a round boundary
		if rapid.Bool().Draw(rt, "limit") {
			c.Limit = true
			c.Offset = rapid.Uint64Range(0, 64).Draw(rt, "oround") * round
			if rapid.IntRange(0, 5).Draw(rt, "ohigh") == 0 {
				c.Offset = (math.MaxUint64/round - rapid.Uint64Range(1, 6).Draw(rt, "oround2")) * round
			}
		}
	case oc == 0:
		c.Offset = 0
	case oc == 1: // multiple of the round size
		c.Offset = rapid.Uint64Range(0, 1<<20).Draw(rt, "oround") * round
	case oc == 2: // multiple of the stripe size only
		c.Offset = rapid.Uint64Range(0, 1<<20).Draw(rt, "ostripe") * c.Size
	case oc == 3: // near the top of the address space
		c.Offset = math.MaxUint64 - rapid.Uint64Range(0, 4*round).Draw(rt, "otop")
	case oc == 4:
		c.Offset = rapid.Uint64().Draw(rt, "offset")
	default: // small, typically unaligned
		c.Offset = rapid.Uint64Range(0, 3*round).Draw(rt, "offset")
	}
	if c.Offset%c.Size != 0 {
		_, k1 := s.IsKnown(c24SiteConv + ":wrong-internal-address,offset%size!=0")
		_, k2 := s.IsKnown(c24SiteFunc + ":wrong-internal-address,offset%size!=0")
		switch {
		case k1 && k2:
			s.Excluded(1)
			c.Offset -= c.Offset % c.Size
		case k1:
			c.Only = c24SiteFunc
		case k2:
			c.Only = c24SiteConv
		}
	}

	room := math.MaxUint64 - c.Offset // number of addresses above the offset
	// a slice of address groups (SliceOfN: rapid shrinks by dropping groups)
	group := rapid.Custom(func(rt *rapid.T) []uint64 {
		var e uint64
		d := uint64(rapid.Int64Range(-2, 2).Draw(rt, "ad"))
		switch rapid.IntRange(0, 8).Draw(rt, "aclass") {
		case 0, 1, 2: // boundary of one of the element's own stripes, low rounds
			r := rapid.Uint64Range(0, 5).Draw(rt, "around")
			e = c.Offset + (r*uint64(c.N)+uint64(c.Elem)+uint64(rapid.IntRange(0, 1).Draw(rt, "aend")))*c.Size + d
		case 3: // any stripe boundary
			k := rapid.Uint64Range(0, 6*uint64(c.N)).Draw(rt, "astripe")
			e = c.Offset + k*c.Size + d
		case 4: // far round
			r := rapid.Uint64Range(0, room/round).Draw(rt, "around")
			e = c.Offset + r*round + uint64(c.Elem)*c.Size + rapid.Uint64Range(0, c.Size-1).Draw(rt, "apos")
		case 5: // top of the address space
			e = math.MaxUint64 - rapid.Uint64Range(0, 2*round).Draw(rt, "atop")
		case 6: // around / below the offset
			e = c.Offset + d*3
		case 7: // inside a stripe of the element
			r := rapid.Uint64Range(0, 3).Draw(rt, "around")
			e = c.Offset + (r*uint64(c.N)+uint64(c.Elem))*c.Size + rapid.Uint64Range(0, c.Size-1).Draw(rt, "apos")
		default:
			e = rapid.Uint64().Draw(rt, "a")
		}
		if rapid.Bool().Draw(rt, "arun") { // a short run of consecutive addresses
			return []uint64{e, e + 1, e + 2}
		}
		return []uint64{e}
	})
	for _, g := range rapid.SliceOfN(group, 1, 10).Draw(rt, "addrs") {
		c.Addrs = append(c.Addrs, g...)
	}
	if c.Limit {
		switch rapid.IntRange(0, 2).Draw(rt, "hclass") {
		case 0: // cuts inside a round
			c.High = c.Offset + rapid.Uint64Range(0, 6*round).Draw(rt, "high")
		case 1:
			c.High = c.Addrs[rapid.IntRange(0, len(c.Addrs)-1).Draw(rt, "hidx")] + uint64(rapid.Int64Range(-1, 1).Draw(rt, "hd"))
		default:
			c.High = math.MaxUint64
		}
		if c.High < c.Offset {
			c.High = c.Offset
		}
	}
	return c
}

func TestC24Converter(t *testing.T) {
	s := kit.Begin(t, "C24", "converter",
		"interleaving size from {2^0..2^20, 1..16, odd/non-power-of-two constants, uniform 1..2^20}; 1..16 elements, every element index; "+
			"offset from {0, multiple of the round size, multiple of the stripe size only, within 4 rounds of 2^64, uniform, 0..3 rounds (usually unaligned)}; "+
			"1..30 addresses from {first/last bytes of the element's own stripes +-2, any stripe boundary +-2, far rounds, 2^64-1-k, around/below the offset, inside own stripes, uniform}, with runs e,e+1,e+2. "+
			"Oracle, for mem.InterleavingConverter and mem.ConvertAddress(\"interleaving\"): address below the offset or in a stripe of another element => rejected (log.Panic); otherwise the result equals the rank of the address "+
			"among the element's addresses ((stripe/n)*size + position in stripe), two addresses of one stripe keep their distance, results strictly increase; ConvertAddress with kind \"\" is the identity. "+
			"One third of the cases use an offset that is a multiple of the round size and also compare InterleavedAddressPortMapper.Find (with and without [offset, high) limits) with the owner element. "+
			"Offsets that are not a multiple of the interleaving size are aligned down (and counted as excluded) while that class is a listed finding. "+
			"Non-trivial: >= 2 elements, an address accepted in round >= 1 at a non-zero stripe position, a rejected address, and an order comparison across two stripes")
	defer s.End()
	s.Assume("Offset is read as the first external address of the interleaved region (stripe k = [Offset+k*Size, Offset+(k+1)*Size)), as both converters compute belongsTo from external-Offset; no caller in the repository sets a non-zero offset")
	s.Assume("size 0, 0 elements and element index outside [0,n) are outside the domain")

	run := func(f kit.Failer, c c24Case) {
		sig, msg, st := c24Exec(c, c.Only)
		if sig != "" {
			s.Fail(f, c, sig, "%s", msg)
			return
		}
		var classes []string
		if c.Offset%c.Size != 0 {
			classes = append(classes, "offset:unaligned-to-stripe")
		} else if c.Offset%(c.Size*uint64(c.N)) != 0 {
			classes = append(classes, "offset:stripe-aligned-only")
		} else if c.Offset != 0 {
			classes = append(classes, "offset:round-aligned")
		} else {
			classes = append(classes, "offset:0")
		}
		if c.Size&(c.Size-1) != 0 {
			classes = append(classes, "size:non-pow2")
		}
		if c.Offset > math.MaxUint64-(8*c.Size*uint64(c.N)) {
			classes = append(classes, "offset-near-2^64")
		}
		if st.belowOffset > 0 {
			classes = append(classes, "below-offset-rejected")
		}
		if st.rejected > st.belowOffset {
			classes = append(classes, "foreign-rejected")
		}
		if st.inStripePair {
			classes = append(classes, "in-stripe-pair")
		}
		if st.boundaryPair {
			classes = append(classes, "cross-stripe-pair")
		}
		if st.mapperChecked > 0 {
			classes = append(classes, "mapper-agreed")
		}
		if st.mapperOther > 0 {
			classes = append(classes, "mapper-outside-limits")
		}
		s.Note(c, c.N >= 2 && st.deepAccepted && st.rejected > 0 && st.boundaryPair, classes...)
	}

	var c c24Case
	if ok, err := kit.LoadReplay("C24", "converter", &c); ok {
		if err != nil {
			t.Fatal(err)
		}
		run(t, c)
		return
	} else if kit.ReplayMode() {
		t.Skip()
	}

	kit.SetChecks(100_000, 1_000_000)
	rapid.Check(t, func(rt *rapid.T) {
		c := genC24(rt, s)
		run(rt, c)
	})
}

// TestC24Exhaustive enumerates every small configuration completely and
// judges it with a rank computed by counting (independent of the closed form).
func TestC24Exhaustive(t *testing.T) {
	s := kit.Begin(t, "C24", "small-exhaustive",
		"every (size 1..8, n 1..5, element, offset 0..2*size*n+1) and every address 0..offset+3*size*n+2; oracle by counting: the i-th address (from the offset upwards) whose stripe belongs to the element must map to i, "+
			"every other address must be rejected; both call sites. Offsets that are not a multiple of the size are skipped (counted as excluded) while that class is a listed finding. Non-trivial: n >= 2 and offset > 0")
	defer s.End()
	s.Exhaustive()
	if kit.ReplayMode() {
		var c c24Case
		if ok, err := kit.LoadReplay("C24", "small-exhaustive", &c); ok {
			if err != nil {
				t.Fatal(err)
			}
			if sig, msg, _ := c24Exec(c, c.Only); sig != "" {
				s.Fail(t, c, sig, "%s", msg)
			}
			return
		}
		t.Skip()
	}
	_, convKnown := s.IsKnown(c24SiteConv + ":wrong-internal-address,offset%size!=0")
	_, funcKnown := s.IsKnown(c24SiteFunc + ":wrong-internal-address,offset%size!=0")
	for size := uint64(1); size <= 8; size++ {
		for n := 1; n <= 5; n++ {
			round := size * uint64(n)
			for offset := uint64(0); offset <= 2*round+1; offset++ {
				only := ""
				if offset%size != 0 {
					switch {
					case convKnown && funcKnown:
						s.Excluded(n)
						continue
					case convKnown:
						only = c24SiteFunc
					case funcKnown:
						only = c24SiteConv
					}
				}
				for elem := 0; elem < n; elem++ {
					c := c24Case{Size: size, N: n, Elem: elem, Offset: offset, Only: only}
					top := offset + 3*round + 2
					for e := uint64(0); e <= top; e++ {
						c.Addrs = append(c.Addrs, e)
					}
					// counting oracle, compared with the closed form used by c24Exec
					count := uint64(0)
					for e := offset; e <= top; e++ {
						owned, owner, want := c24Oracle(size, n, offset, e)
						if int(((e-offset)/size)%uint64(n)) != owner || !owned {
							t.Fatalf("harness oracle inconsistent at %+v address %d", c, e)
						}
						if owner == elem {
							if want != count {
								t.Fatalf("harness oracle: closed form %d != count %d at %+v address %d", want, count, c, e)
							}
							count++
						}
					}
					if sig, msg, _ := c24Exec(c, only); sig != "" {
						s.Fail(t, c, sig, "%s", msg)
						return
					}
					s.Note(c24Case{Size: size, N: n, Elem: elem, Offset: offset}, n >= 2 && offset > 0)
				}
			}
		}
	}
}

// ------------------- dedicated reproductions of listed findings -------------------

func c24Known(t *testing.T, name, site string, c c24Case) {
	sig := site + ":wrong-internal-address,offset%size!=0"
	s := kit.Begin(t, "C24", "known-"+name, "dedicated deterministic reproduction of the finding with signature "+sig)
	defer s.End()
	if kit.ReplayMode() {
		t.Skip()
	}
	got, msg, _ := c24Exec(c, site)
	switch got {
	case sig:
		s.KnownStillFails(t, c, sig, msg)
	case "":
		fmt.Printf("KNOWN-FINDING-GONE: property=C24 sig=%s no longer reproduces on %+v\n", sig, c)
	default:
		s.Fail(t, c, got, "%s", msg)
	}
}

// The probe of DESIGN.md: offset 10, size 64, one element: 10 -> 10 and 73 -> 9.
func TestC24Known_ConverterUnalignedOffset(t *testing.T) {
	c24Known(t, "converter-unaligned-offset", c24SiteConv,
		c24Case{Size: 64, N: 1, Elem: 0, Offset: 10, Addrs: []uint64{10, 73}})
}

func TestC24Known_ConverterUnalignedOffsetMinimal(t *testing.T) {
	c24Known(t, "converter-unaligned-offset-minimal", c24SiteConv,
		c24Case{Size: 2, N: 1, Elem: 0, Offset: 1, Addrs: []uint64{1}})
}

func TestC24Known_ConvertAddressUnalignedOffset(t *testing.T) {
	c24Known(t, "convertaddress-unaligned-offset", c24SiteFunc,
		c24Case{Size: 64, N: 2, Elem: 1, Offset: 10, Addrs: []uint64{74, 137, 138, 202}})
}
