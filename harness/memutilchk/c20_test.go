package memutilchk

import (
	"bytes"
	"flag"
	"fmt"
	"math"
	"strings"
	"testing"

	"github.com/sarchlab/akita/v5/mem"
	"pgregory.net/rapid"

	"verif/harness/kit"
)

// ---------------------------------------------------------------------------
// C20 — mem.Storage is a bounded flat byte array.
//
// Case = (capacity, unit size, history of read / write / checkpoint ops).
// Oracle = byte-array model (dense for capacities <= 128 KiB, sparse above).
// ---------------------------------------------------------------------------

type c20Op struct {
	// "r" read, "w" write, "c" checkpoint save -> load into a rebuilt storage,
	// "s" save an archive (and the model) for later, "l" load the last saved
	// archive (saving first when there is none) into the storage named by Mode;
	// the history continues on that storage with the model as of save time.
	Kind string `json:"k"`
	Addr uint64 `json:"a"`
	Len  uint64 `json:"n"`
	Seed uint8  `json:"s,omitempty"` // write payload = f(seed, index), all bytes non-zero
	// "l" only: "fresh" rebuilt storage, "same" the current (since modified)
	// storage, "used" another storage of the same shape that received the write
	// (Addr, Len, Seed) first.
	Mode string `json:"m,omitempty"`
}

type c20Case struct {
	Capacity uint64 `json:"capacity"`
	Unit     uint64 `json:"unit"`
	// Lazy: the harness does not read the whole storage after every op (a
	// read allocates every unit it touches, so eager comparison makes every
	// archive dense). Instead a write is read back on its own range only and
	// the whole contents are compared before and after each load and at the end.
	Lazy bool    `json:"lazy,omitempty"`
	Ops  []c20Op `json:"ops"`
}

// Input classes of one access (computed from the case only, never from the code).
const (
	c20Zero       = "zero-len"
	c20In         = "inrange"
	c20Beyond     = "start>capacity"
	c20AtCap      = "start==capacity,within-unit"
	c20AtCapLater = "start==capacity,into-later-unit"
	c20Mid        = "straddle-mid-unit"
	c20AtUnit     = "straddle-at-unit-boundary"
	c20Later      = "straddle-into-later-unit"
	c20TopWithin  = "reaches-2^64,start<=capacity,capacity-in-top-unit"
	c20TopLater   = "reaches-2^64,start<=capacity,unit-start-above-capacity"
	c20TopBeyond  = "reaches-2^64,start>capacity"
)

// Signatures of the failure classes seen on the tree as first examined.
const (
	c20SigAtCap     = "oob-accepted:start==capacity"
	c20SigMid       = "oob-accepted:straddles-capacity-mid-unit"
	c20SigAtUnit    = "oob-accepted:straddles-capacity-at-unit-boundary"
	c20SigReadTop   = "read-accepted:range-reaches-2^64"
	c20SigWriteTop  = "write-accepted:range-reaches-2^64,start<=capacity"
	c20SigPartial   = "write-error-partial-modification"
	c20DenseLimit   = uint64(1) << 17
	c20MaxLen       = uint64(1)<<17 + 8
	c20MaxUnitHuge  = uint64(4096)
	c20MaxUnitSmall = uint64(1) << 16
)

// c20Class classifies the byte range [addr, addr+n) against (capacity, unit).
func c20Class(capacity, unit, addr, n uint64) string {
	if n == 0 {
		return c20Zero
	}
	if n > math.MaxUint64-addr { // addr+n >= 2^64: touches address 2^64-1 (always >= capacity) or wraps
		if addr <= capacity {
			// base of the unit that holds address 2^64-1
			topBase := uint64(math.MaxUint64) - uint64(math.MaxUint64)%unit
			if capacity >= topBase || addr >= topBase {
				return c20TopWithin // no unit starts above the capacity between addr and 2^64
			}
			return c20TopLater
		}
		return c20TopBeyond
	}
	end := addr + n
	if addr < capacity && end <= capacity {
		return c20In
	}
	if addr > capacity {
		return c20Beyond
	}
	r := capacity % unit
	base := capacity - r // base of the unit that holds address `capacity`
	within := end-base <= unit
	if addr == capacity {
		if within {
			return c20AtCap
		}
		return c20AtCapLater
	}
	// addr < capacity < end
	if !within {
		return c20Later
	}
	if r == 0 {
		return c20AtUnit
	}
	return c20Mid
}

// c20AcceptedSig names the failure "an out-of-range access returned a nil error".
func c20AcceptedSig(kind, class string) string {
	switch class {
	case c20AtCap, c20AtCapLater:
		return c20SigAtCap
	case c20Mid:
		return c20SigMid
	case c20AtUnit:
		return c20SigAtUnit
	case c20TopWithin, c20TopLater, c20TopBeyond:
		if kind == "r" {
			return c20SigReadTop
		}
		if class == c20TopWithin {
			return c20SigWriteTop
		}
	}
	return "oob-accepted:" + kind + ":" + class
}

// c20CandidateSigs lists the listed-finding signatures an access of this class
// can trigger; used only to steer the generator away from listed findings.
func c20CandidateSigs(kind, class string) []string {
	switch class {
	case c20AtCap:
		return []string{c20SigAtCap}
	case c20Mid:
		return []string{c20SigMid}
	case c20AtUnit:
		return []string{c20SigAtUnit}
	case c20Later:
		if kind == "w" {
			return []string{c20SigPartial}
		}
	case c20TopWithin:
		if kind == "r" {
			return []string{c20SigReadTop}
		}
		return []string{c20SigWriteTop}
	case c20TopLater:
		if kind == "r" {
			return []string{c20SigReadTop}
		}
		return []string{c20SigPartial}
	case c20TopBeyond:
		if kind == "r" {
			return []string{c20SigReadTop}
		}
	}
	return nil
}

func c20Payload(seed uint8, n uint64) []byte {
	b := make([]byte, n)
	for i := range b {
		b[i] = byte((uint64(seed)+uint64(i)*37)%255) + 1
	}
	return b
}

type c20Model struct {
	capacity uint64
	dense    []byte
	sparse   map[uint64]byte
	written  [][2]uint64 // (addr, len) of every successful write (sparse mode only)
}

func newC20Model(capacity uint64) *c20Model {
	m := &c20Model{capacity: capacity}
	if capacity <= c20DenseLimit {
		m.dense = make([]byte, capacity)
	} else {
		m.sparse = map[uint64]byte{}
	}
	return m
}

func (m *c20Model) clone() *c20Model {
	n := &c20Model{capacity: m.capacity}
	if m.dense != nil {
		n.dense = append([]byte(nil), m.dense...)
	} else {
		n.sparse = make(map[uint64]byte, len(m.sparse))
		for k, v := range m.sparse {
			n.sparse[k] = v
		}
		n.written = append([][2]uint64(nil), m.written...)
	}
	return n
}

// rollbackKinds compares the model now (m) with the model at save time (snap):
// undo = some byte differs (a load has something to roll back); freshUnit = a
// differing byte lies in a unit that was all zero at save time.
func (m *c20Model) rollbackKinds(snap *c20Model, unit uint64) (undo, freshUnit bool) {
	unitZero := map[uint64]bool{}
	isZero := func(u uint64) bool {
		if z, ok := unitZero[u]; ok {
			return z
		}
		z := true
		for i := uint64(0); i < unit; i++ {
			a := u*unit + i
			if a < u*unit || a >= m.capacity { // wrapped past 2^64 or beyond the capacity
				break
			}
			if snap.get(a) != 0 {
				z = false
				break
			}
		}
		unitZero[u] = z
		return z
	}
	visit := func(a uint64) {
		if m.get(a) != snap.get(a) {
			undo = true
			if !freshUnit && isZero(a/unit) {
				freshUnit = true
			}
		}
	}
	if m.dense != nil {
		for a := uint64(0); a < m.capacity; a++ {
			visit(a)
		}
		return
	}
	for _, w := range m.written {
		for i := uint64(0); i < w[1]; i++ {
			visit(w[0] + i)
		}
	}
	return
}

func (m *c20Model) get(a uint64) byte {
	if m.dense != nil {
		return m.dense[a]
	}
	return m.sparse[a]
}

func (m *c20Model) write(addr uint64, data []byte) {
	for i, b := range data {
		if m.dense != nil {
			m.dense[addr+uint64(i)] = b
		} else {
			m.sparse[addr+uint64(i)] = b
		}
	}
	if m.dense == nil {
		m.written = append(m.written, [2]uint64{addr, uint64(len(data))})
	}
}

func (m *c20Model) slice(addr, n uint64) []byte {
	out := make([]byte, n)
	for i := range out {
		out[i] = m.get(addr + uint64(i))
	}
	return out
}

type c20Stats struct {
	classes      map[string]bool
	oobRejected  int
	oobExecuted  int
	readBackData bool // an in-range read returned a previously written non-zero byte
	multiUnitIn  bool // an in-range access spanned >= 2 units
	ckpts        int
	ckptNonEmpty bool
	loads        map[string]bool // load modes executed, with what the rollback had to undo
}

// c20Compare reads [lo, lo+n) (must be in range) from st and compares with the model.
func c20Compare(st *mem.Storage, m *c20Model, lo, n uint64) (sig, msg string) {
	if n == 0 {
		return "", ""
	}
	var got []byte
	var err error
	ok, psig, pmsg := kit.Guard(func() { got, err = st.Read(lo, n) })
	if !ok {
		return psig, pmsg
	}
	if err != nil {
		return "inrange-read-error", fmt.Sprintf("Read(%d,%d) on capacity %d: unexpected error %v", lo, n, m.capacity, err)
	}
	if uint64(len(got)) != n {
		return "inrange-read-length", fmt.Sprintf("Read(%d,%d) returned %d bytes", lo, n, len(got))
	}
	if m.dense != nil {
		if !bytes.Equal(got, m.dense[lo:lo+n]) {
			for i := range got {
				if got[i] != m.dense[lo+uint64(i)] {
					return "contents", fmt.Sprintf("address %d holds %d, model %d", lo+uint64(i), got[i], m.dense[lo+uint64(i)])
				}
			}
		}
		return "", ""
	}
	for i := range got {
		if w := m.get(lo + uint64(i)); got[i] != w {
			return "contents", fmt.Sprintf("address %d holds %d, model %d", lo+uint64(i), got[i], w)
		}
	}
	return "", ""
}

// c20Verify compares the storage contents with the model: everything for dense
// models; for sparse ones every range ever written plus windows around the
// given points, around 0 and around the capacity.
func c20Verify(st *mem.Storage, m *c20Model, unit uint64, points ...uint64) (sig, msg string) {
	if m.dense != nil {
		return c20Compare(st, m, 0, m.capacity)
	}
	for _, w := range m.written {
		if sig, msg = c20Compare(st, m, w[0], w[1]); sig != "" {
			return
		}
	}
	win := 2*unit + 2
	points = append(points, 0, m.capacity)
	for _, p := range points {
		lo := uint64(0)
		if p > win {
			lo = p - win
		}
		hi := uint64(math.MaxUint64)
		if p <= math.MaxUint64-win {
			hi = p + win
		}
		if hi > m.capacity {
			hi = m.capacity
		}
		if lo < hi {
			if sig, msg = c20Compare(st, m, lo, hi-lo); sig != "" {
				return
			}
		}
	}
	return "", ""
}

// c20Exec runs the history against the real storage and the model and returns
// the first violation (sig == "" when the property held on this case).
func c20Exec(c c20Case) (sig, msg string, stt c20Stats) {
	stt.classes = map[string]bool{}
	if c.Unit == 0 || c.Capacity == 0 {
		return "", "", stt // outside the domain (unit size 0 divides by zero; never generated)
	}
	var st *mem.Storage
	if ok, psig, pmsg := kit.Guard(func() { st = mem.NewStorageWithUnitSize(c.Capacity, c.Unit) }); !ok {
		return psig, pmsg, stt
	}
	if st.Capacity() != c.Capacity {
		return "capacity-accessor", fmt.Sprintf("Capacity()=%d want %d", st.Capacity(), c.Capacity), stt
	}
	m := newC20Model(c.Capacity)
	wrote := false
	stt.loads = map[string]bool{}
	var savedArchive []byte // last "s" archive and the model at that moment
	var savedModel *c20Model
	savedSparse := false // no whole-storage read happened on the storage before that save
	fullReads := 0       // whole-contents comparisons done on the current storage object
	full := func(points ...uint64) (string, string) {
		fullReads++
		return c20Verify(st, m, c.Unit, points...)
	}
	// after: the comparison that follows a read/write op
	after := func(op c20Op, class string, points ...uint64) (string, string) {
		if !c.Lazy {
			return full(points...)
		}
		if class == c20In && op.Kind == "w" {
			return c20Compare(st, m, op.Addr, op.Len)
		}
		return "", ""
	}
	save := func(where string) ([]byte, string, string) {
		var buf bytes.Buffer
		var err error
		if ok, psig, pmsg := kit.Guard(func() { err = st.SaveCheckpoint(&buf) }); !ok {
			return nil, psig, pmsg
		}
		if err != nil {
			return nil, "checkpoint-save-error", fmt.Sprintf("%s: %v", where, err)
		}
		return buf.Bytes(), "", ""
	}

	for i, op := range c.Ops {
		where := fmt.Sprintf("op#%d %s(addr=%d,len=%d) capacity=%d unit=%d", i, op.Kind, op.Addr, op.Len, c.Capacity, c.Unit)
		switch op.Kind {
		case "c":
			var buf bytes.Buffer
			var err error
			if ok, psig, pmsg := kit.Guard(func() { err = st.SaveCheckpoint(&buf) }); !ok {
				return psig, pmsg, stt
			}
			if err != nil {
				return "checkpoint-save-error", fmt.Sprintf("%s: %v", where, err), stt
			}
			var fresh *mem.Storage
			if ok, psig, pmsg := kit.Guard(func() {
				fresh = mem.NewStorageWithUnitSize(c.Capacity, c.Unit)
				err = fresh.LoadCheckpoint(bytes.NewReader(buf.Bytes()))
			}); !ok {
				return psig, pmsg, stt
			}
			if err != nil {
				return "checkpoint-load-error", fmt.Sprintf("%s: %v", where, err), stt
			}
			st, fullReads = fresh, 0
			if c.Lazy { // compare on a second copy loaded from the same archive; continue on the unread one
				var obs *mem.Storage
				if ok, psig, pmsg := kit.Guard(func() {
					obs = mem.NewStorageWithUnitSize(c.Capacity, c.Unit)
					err = obs.LoadCheckpoint(bytes.NewReader(buf.Bytes()))
				}); !ok {
					return psig, pmsg, stt
				}
				if err != nil {
					return "checkpoint-load-error", fmt.Sprintf("%s: %v", where, err), stt
				}
				if s2, m2 := c20Verify(obs, m, c.Unit); s2 != "" {
					return "checkpoint-" + s2, fmt.Sprintf("%s: after save->load: %s", where, m2), stt
				}
			} else if s2, m2 := full(); s2 != "" {
				return "checkpoint-" + s2, fmt.Sprintf("%s: after save->load: %s", where, m2), stt
			}
			stt.ckpts++
			if wrote {
				stt.ckptNonEmpty = true
			}
			stt.classes["ckpt"] = true
			continue
		case "s":
			b, s2, m2 := save(where)
			if s2 != "" {
				return s2, m2, stt
			}
			savedArchive, savedModel, savedSparse = b, m.clone(), fullReads == 0
			stt.classes["ckpt-save"] = true
			continue
		case "l":
			if c.Lazy { // whatever went wrong since the last whole comparison is not the load's doing
				if s2, m2 := full(); s2 != "" {
					return "deferred-" + s2, fmt.Sprintf("%s: before the load: %s", where, m2), stt
				}
			}
			if savedArchive == nil {
				b, s2, m2 := save(where)
				if s2 != "" {
					return s2, m2, stt
				}
				savedArchive, savedModel, savedSparse = b, m.clone(), fullReads == 0
			}
			mode := op.Mode
			if mode != "same" && mode != "used" {
				mode = "fresh"
			}
			where = fmt.Sprintf("op#%d load[%s] capacity=%d unit=%d", i, mode, c.Capacity, c.Unit)
			target := st
			restored := savedModel.clone()
			if restored.dense == nil { // sparse: also re-check every range written since (now rolled back)
				restored.written = append(restored.written, m.written...)
			}
			undo, freshUnit := false, false
			var err error
			switch mode {
			case "same":
				undo, freshUnit = m.rollbackKinds(savedModel, c.Unit)
			case "used", "fresh":
				if ok, psig, pmsg := kit.Guard(func() { target = mem.NewStorageWithUnitSize(c.Capacity, c.Unit) }); !ok {
					return psig, pmsg, stt
				}
				if mode == "used" && op.Len <= c20MaxLen && c20Class(c.Capacity, c.Unit, op.Addr, op.Len) == c20In {
					junk := c20Payload(op.Seed, op.Len)
					if ok, psig, pmsg := kit.Guard(func() { err = target.Write(op.Addr, junk) }); !ok {
						return psig, where + ": " + pmsg, stt
					}
					if err != nil {
						return "inrange-error", fmt.Sprintf("%s: in-range write(%d,%d) on the second storage failed: %v", where, op.Addr, op.Len, err), stt
					}
					jm := newC20Model(c.Capacity)
					jm.write(op.Addr, junk)
					undo, freshUnit = jm.rollbackKinds(savedModel, c.Unit)
					if restored.dense == nil {
						restored.written = append(restored.written, [2]uint64{op.Addr, op.Len})
					}
				}
			}
			if ok, psig, pmsg := kit.Guard(func() { err = target.LoadCheckpoint(bytes.NewReader(savedArchive)) }); !ok {
				return psig, where + ": " + pmsg, stt
			}
			if err != nil {
				return "checkpoint-load-error", fmt.Sprintf("%s: %v", where, err), stt
			}
			if target != st {
				fullReads = 0
			}
			st, m = target, restored
			if s2, m2 := full(); s2 != "" {
				return "checkpoint-load-" + mode + "-" + s2, fmt.Sprintf("%s: contents after the load differ from the contents at save time: %s", where, m2), stt
			}
			stt.ckpts++
			stt.loads["load:"+mode] = true
			if undo {
				stt.loads["load:"+mode+",undoes-later-writes"] = true
			}
			if freshUnit {
				stt.loads["load:"+mode+",undoes-write-to-unit-zero-at-save"] = true
				if mode == "same" && savedSparse {
					stt.loads["load:same,undoes-write-to-unit-zero-at-save,no-whole-read-before-save"] = true
				}
			}
			continue
		case "r", "w":
		default:
			continue
		}

		if op.Len > c20MaxLen {
			continue // never generated; keeps replayed hand-written cases from allocating wildly
		}
		class := c20Class(c.Capacity, c.Unit, op.Addr, op.Len)
		stt.classes[op.Kind+":"+class] = true

		var data []byte
		var err error
		var payload []byte
		if op.Kind == "w" {
			payload = c20Payload(op.Seed, op.Len)
		}
		ok, psig, pmsg := kit.Guard(func() {
			if op.Kind == "r" {
				data, err = st.Read(op.Addr, op.Len)
			} else {
				err = st.Write(op.Addr, payload)
			}
		})
		if !ok {
			return psig, where + ": " + pmsg, stt
		}
		end := op.Addr + op.Len // may wrap; only used as a probe point

		switch class {
		case c20Zero:
			// error / no error not asserted; contents must still equal the model
			if s2, m2 := after(op, class, op.Addr); s2 != "" {
				return "zero-len-" + s2, fmt.Sprintf("%s: %s", where, m2), stt
			}
		case c20In:
			if err != nil {
				return "inrange-error", fmt.Sprintf("%s: in-range access failed: %v", where, err), stt
			}
			if (op.Addr+op.Len-1)/c.Unit != op.Addr/c.Unit {
				stt.multiUnitIn = true
			}
			if op.Kind == "r" {
				if uint64(len(data)) != op.Len {
					return "inrange-read-length", fmt.Sprintf("%s: got %d bytes", where, len(data)), stt
				}
				want := m.slice(op.Addr, op.Len)
				for j := range want {
					if data[j] != want[j] {
						return "inrange-read-data", fmt.Sprintf("%s: byte %d (address %d) is %d, model %d", where, j, op.Addr+uint64(j), data[j], want[j]), stt
					}
					if want[j] != 0 {
						stt.readBackData = true
					}
				}
			} else {
				m.write(op.Addr, payload)
				wrote = true
			}
			if s2, m2 := after(op, class, op.Addr, end); s2 != "" {
				return "inrange-" + op.Kind + "-" + s2, fmt.Sprintf("%s: contents differ from the model afterwards: %s", where, m2), stt
			}
		default: // touches an address >= capacity with length >= 1
			stt.oobExecuted++
			if err == nil {
				return c20AcceptedSig(op.Kind, class), fmt.Sprintf("%s [%s]: touches an address >= capacity but returned a nil error (data=%v)", where, class, clip(data)), stt
			}
			if s2, m2 := after(op, class, op.Addr, end); s2 != "" {
				if op.Kind == "w" && s2 == "contents" {
					return c20SigPartial, fmt.Sprintf("%s [%s]: returned error %q but changed the contents: %s", where, class, err, m2), stt
				}
				return "oob-" + op.Kind + "-" + s2, fmt.Sprintf("%s [%s]: after the rejected access: %s", where, class, m2), stt
			}
			stt.oobRejected++
		}
	}
	if c.Lazy {
		stt.classes["lazy-comparison"] = true
		if s2, m2 := full(); s2 != "" {
			return "deferred-" + s2, fmt.Sprintf("capacity=%d unit=%d: at the end of the history: %s", c.Capacity, c.Unit, m2), stt
		}
	}
	return "", "", stt
}

func clip(b []byte) []byte {
	if len(b) > 16 {
		return b[:16]
	}
	return b
}

// ------------------------------ generator ---------------------------------

var c20Primes = []uint64{2, 3, 5, 7, 11, 13, 31, 61, 127, 251, 509, 1021, 4093}

func genC20Unit(rt *rapid.T, max uint64) uint64 {
	var u uint64
	switch rapid.IntRange(0, 5).Draw(rt, "uclass") {
	case 0:
		u = 1
	case 1:
		u = rapid.SampledFrom(c20Primes).Draw(rt, "uprime")
	case 2, 3:
		u = uint64(1) << rapid.IntRange(0, 16).Draw(rt, "ulog2")
	default:
		u = rapid.Uint64Range(1, 300).Draw(rt, "u")
	}
	for u > max {
		u = u/2 + 1
	}
	return u
}

func genC20Shape(rt *rapid.T) (capacity, unit uint64) {
	switch rapid.IntRange(0, 9).Draw(rt, "cclass") {
	case 0: // tiny
		unit = genC20Unit(rt, c20MaxUnitSmall)
		capacity = rapid.Uint64Range(1, 16).Draw(rt, "cap")
	case 1, 2, 3: // a few units +- a few bytes
		unit = genC20Unit(rt, c20MaxUnitSmall)
		k := rapid.Uint64Range(0, 8).Draw(rt, "k")
		if unit*k > 65536 {
			k = 65536 / unit
		}
		d := rapid.Int64Range(-2, 2).Draw(rt, "d")
		capacity = unit*k + uint64(d)
		if capacity == 0 || capacity > 1<<40 {
			capacity = unit
		}
	case 4: // uniform up to 64 KiB, at most 2048 units
		unit = genC20Unit(rt, c20MaxUnitSmall)
		capacity = rapid.Uint64Range(1, 65536).Draw(rt, "cap")
		if capacity/unit > 2048 {
			capacity = unit*2048 - rapid.Uint64Range(0, 3).Draw(rt, "capd")
		}
	case 5: // unit larger than the capacity
		unit = genC20Unit(rt, c20MaxUnitSmall)
		if unit == 1 {
			unit = 2
		}
		capacity = rapid.Uint64Range(1, unit-1).Draw(rt, "cap")
		if capacity > 65536 {
			capacity = 65536
		}
	case 6, 7: // within a few bytes of 2^64
		unit = genC20Unit(rt, c20MaxUnitHuge)
		k := rapid.Uint64Range(0, 8).Draw(rt, "k")
		if rapid.IntRange(0, 3).Draw(rt, "kwide") == 0 {
			k = rapid.Uint64Range(0, 2*unit+2).Draw(rt, "k2")
		}
		capacity = math.MaxUint64 - k
	default: // large but far from 2^64
		unit = genC20Unit(rt, c20MaxUnitHuge)
		b := rapid.SampledFrom([]uint64{1 << 20, 1 << 32, 1 << 40, 1 << 63, 3 << 61}).Draw(rt, "capbase")
		capacity = b + uint64(rapid.Int64Range(-5, 5).Draw(rt, "d"))
	}
	return
}

func genC20Addr(rt *rapid.T, capacity, unit uint64) uint64 {
	switch rapid.IntRange(0, 9).Draw(rt, "aclass") {
	case 0, 1: // around the capacity
		return capacity + uint64(rapid.Int64Range(-3, 3).Draw(rt, "ad"))
	case 2, 3: // around a unit boundary at or below the first boundary above the capacity
		maxK := capacity/unit + 2
		k := rapid.Uint64Range(0, maxK).Draw(rt, "ak")
		if rapid.Bool().Draw(rt, "aktop") {
			if maxK > 4 {
				k = maxK - rapid.Uint64Range(0, 4).Draw(rt, "ak2")
			}
		}
		return k*unit + uint64(rapid.Int64Range(-2, 2).Draw(rt, "ad"))
	case 4, 5, 6: // in range (low part weighted so histories overlap)
		hi := capacity - 1
		if rapid.Bool().Draw(rt, "alow") && hi > 4*unit+8 {
			hi = 4*unit + 8
		}
		return rapid.Uint64Range(0, hi).Draw(rt, "a")
	case 7: // a few units below the capacity
		return capacity - rapid.Uint64Range(0, 3).Draw(rt, "ak")*unit + uint64(rapid.Int64Range(-2, 2).Draw(rt, "ad"))
	case 8: // top of the address space
		return math.MaxUint64 - rapid.Uint64Range(0, 3*unit+4).Draw(rt, "atop")
	default:
		return rapid.Uint64().Draw(rt, "a")
	}
}

func genC20Len(rt *rapid.T, capacity, unit, addr uint64) uint64 {
	var n uint64
	switch rapid.IntRange(0, 7).Draw(rt, "lclass") {
	case 0, 1:
		n = rapid.Uint64Range(0, 3).Draw(rt, "n")
	case 2, 3:
		n = rapid.Uint64Range(0, 3).Draw(rt, "nj")*unit + uint64(rapid.Int64Range(-2, 2).Draw(rt, "nd"))
	case 4: // up to the next unit boundary +- 1
		n = unit - addr%unit + uint64(rapid.Int64Range(-1, 1).Draw(rt, "nd"))
	case 5, 6: // up to the capacity +- 2
		if addr < capacity {
			n = capacity - addr + uint64(rapid.Int64Range(-2, 2).Draw(rt, "nd"))
		} else {
			n = rapid.Uint64Range(1, unit+1).Draw(rt, "n")
		}
	default: // up to 2^64 -1 .. +3
		n = -addr + uint64(rapid.Int64Range(-1, 3).Draw(rt, "nd"))
	}
	if n > c20MaxLen { // includes "negative" results of the arithmetic above
		n = rapid.Uint64Range(0, 2*unit+2).Draw(rt, "nfallback")
	}
	return n
}

// genC20Safe draws an access outside every class that has a listed finding.
func genC20Safe(rt *rapid.T, capacity, unit uint64) (addr, n uint64) {
	if capacity < math.MaxUint64-64 && rapid.IntRange(0, 2).Draw(rt, "safebeyond") == 0 {
		addr = capacity + 1 + rapid.Uint64Range(0, 8).Draw(rt, "sa")
		n = rapid.Uint64Range(1, 2*unit+2).Draw(rt, "sn")
		if n > math.MaxUint64-addr {
			n = math.MaxUint64 - addr
		}
		return
	}
	addr = genC20Addr(rt, capacity, unit)
	if addr >= capacity {
		addr = rapid.Uint64Range(0, capacity-1).Draw(rt, "sa")
	}
	maxN := capacity - addr
	if maxN > 3*unit+2 {
		maxN = 3*unit + 2
	}
	n = rapid.Uint64Range(1, maxN).Draw(rt, "sn")
	if rapid.IntRange(0, 3).Draw(rt, "sfull") == 0 && capacity-addr <= c20MaxLen {
		n = capacity - addr
	}
	return
}

const c20MaxOps = 24

// genC20 draws the shape and then the history with rt.Repeat (average 10 ops,
// at most 24), so that rapid can shrink a failing history by dropping single ops.
func genC20(rt *rapid.T, s *kit.Session) c20Case {
	c := c20Case{}
	c.Capacity, c.Unit = genC20Shape(rt)
	c.Lazy = rapid.Bool().Draw(rt, "lazy")
	one := func(t *rapid.T) {
		if len(c.Ops) >= c20MaxOps {
			return
		}
		var op c20Op
		switch k := rapid.IntRange(0, 19).Draw(t, "kind"); {
		case k < 1:
			op.Kind = "c"
			c.Ops = append(c.Ops, op)
			return
		case k < 3:
			op.Kind = "s"
			c.Ops = append(c.Ops, op)
			return
		case k < 5:
			op.Kind = "l"
			op.Mode = rapid.SampledFrom([]string{"fresh", "same", "same", "used"}).Draw(t, "mode")
			if op.Mode == "used" { // the write the other storage receives before the load (in range)
				op.Addr, op.Len = genC20Safe(t, c.Capacity, c.Unit)
				if op.Addr >= c.Capacity {
					op.Addr, op.Len = 0, 1
				}
				op.Seed = rapid.Uint8().Draw(t, "seed")
			}
			c.Ops = append(c.Ops, op)
			return
		case k < 13:
			op.Kind = "w"
			op.Seed = rapid.Uint8().Draw(t, "seed")
		default:
			op.Kind = "r"
		}
		op.Addr = genC20Addr(t, c.Capacity, c.Unit)
		if len(c.Ops) > 0 && rapid.IntRange(0, 3).Draw(t, "reuse") == 0 { // revisit an earlier access
			op.Addr = c.Ops[rapid.IntRange(0, len(c.Ops)-1).Draw(t, "reuseidx")].Addr + uint64(rapid.Int64Range(-2, 2).Draw(t, "reused"))
		}
		op.Len = genC20Len(t, c.Capacity, c.Unit, op.Addr)
		class := c20Class(c.Capacity, c.Unit, op.Addr, op.Len)
		for _, sig := range c20CandidateSigs(op.Kind, class) {
			if _, known := s.IsKnown(sig); known {
				s.Excluded(1)
				op.Addr, op.Len = genC20Safe(t, c.Capacity, c.Unit)
				break
			}
		}
		c.Ops = append(c.Ops, op)
	}
	rt.Repeat(map[string]func(*rapid.T){"op": one})
	if len(c.Ops) == 0 {
		one(rt)
	}
	return c
}

func c20ShapeClasses(c c20Case) []string {
	var out []string
	switch {
	case c.Capacity >= math.MaxUint64-8*c20MaxUnitHuge-8:
		out = append(out, "cap:near-2^64")
	case c.Capacity > c20DenseLimit:
		out = append(out, "cap:large")
	default:
		out = append(out, "cap:<=64KiB")
	}
	switch {
	case c.Unit > c.Capacity:
		out = append(out, "unit>capacity")
	case c.Unit == 1:
		out = append(out, "unit:1")
	case c.Unit&(c.Unit-1) == 0:
		out = append(out, "unit:pow2")
	default:
		out = append(out, "unit:non-pow2")
	}
	if c.Capacity%c.Unit != 0 {
		out = append(out, "capacity-not-multiple-of-unit")
	}
	return out
}

func TestC20Storage(t *testing.T) {
	s := kit.Begin(t, "C20", "storage",
		"capacity from {1..16, k*unit+-2 (k<=8), uniform<=64KiB (<=2048 units), <unit, 2^64-1-k (k<=8 or <=2*unit+2), {2^20,2^32,2^40,2^63,3*2^61}+-5}; "+
			"unit from {1, primes<=4093, 2^0..2^16, 1..300} (<=4096 for capacities >128KiB); 1..24 ops (rt.Repeat, average 10; 40% write, 35% read, 5% checkpoint save->load into a rebuilt storage, 10% save an archive, 10% load the last archive (saving first if none) into {a rebuilt storage, the same since-modified storage (x2), another storage of the same shape that received an in-range write}); "+
			"addresses from {capacity+-3, unit boundary+-2, in range, capacity-k*unit+-2, 2^64-1-k, uniform, an earlier op's address+-2}; lengths from {0..3, j*unit+-2 (j<=3), to next unit boundary+-1, to capacity+-2, to 2^64 -1..+3}, never above 128KiB+8. "+
			"Oracle: byte-array model; in-range access => nil error and exact bytes; access of length>=1 touching an address >= capacity (or reaching 2^64) => error and contents equal to the model "+
			"(whole contents for capacities <=128KiB, else every range ever written plus 2*unit+2 windows around the access ends, 0 and capacity); contents compared after every op (half of the cases: \"lazy\" -- a read allocates the units it touches, so there a write is only read back on its own range and the whole contents are compared before and after each load and at the end, which keeps archives sparse); zero-length accesses: only contents compared; after a load the storage must equal the model as of save time (everything written since is rolled back) and the history continues from there. "+
			"Accesses in an input class with a listed finding are replaced by in-range or start>capacity accesses and counted as excluded. "+
			"Non-trivial: the history executed >=1 out-of-range access of length>=1 and >=1 in-range read that returned previously written non-zero bytes")
	defer s.End()
	s.Assume("unit size 0 and capacity 0 are outside the domain (unit size 0 divides by zero in parseAddress; nothing documents it as legal)")
	s.Assume("lengths are bounded by 128KiB+8 because Read allocates its result before checking anything")

	run := func(f kit.Failer, c c20Case) {
		sig, msg, st := c20Exec(c)
		if sig != "" {
			s.Fail(f, c, sig, "%s", msg)
			return
		}
		classes := c20ShapeClasses(c)
		for k := range st.classes {
			classes = append(classes, k)
		}
		for k := range st.loads {
			classes = append(classes, k)
		}
		if st.multiUnitIn {
			classes = append(classes, "inrange-multi-unit")
		}
		if st.ckptNonEmpty {
			classes = append(classes, "ckpt-after-write")
		}
		if st.oobRejected > 0 {
			classes = append(classes, "oob-rejected-and-contents-compared")
		}
		s.Note(c, st.oobExecuted > 0 && st.readBackData, classes...)
	}

	var c c20Case
	if ok, err := kit.LoadReplay("C20", "storage", &c); ok {
		if err != nil {
			t.Fatal(err)
		}
		run(t, c)
		return
	} else if kit.ReplayMode() {
		t.Skip()
	}

	kit.SetChecks(20_000, 200_000)
	_ = flag.Set("rapid.steps", "10")
	rapid.Check(t, func(rt *rapid.T) {
		c := genC20(rt, s)
		run(rt, c)
	})
}

// TestC20FixedRollback is a fixed history of the rollback shape: save, write
// into a unit that was untouched at save time, load the archive into the same
// storage, read. It runs through the same executor and oracle as the search.
func TestC20FixedRollback(t *testing.T) {
	s := kit.Begin(t, "C20", "fixed-rollback", "three fixed histories: save, write to a unit untouched at save time, load into {same, used, fresh} storage, read back")
	defer s.End()
	if kit.ReplayMode() {
		t.Skip()
	}
	for _, mode := range []string{"same", "used", "fresh", "same-eager"} {
		c := c20Case{Capacity: 8192, Unit: 1024, Lazy: mode != "same-eager", Ops: []c20Op{
			{Kind: "w", Addr: 10, Len: 4, Seed: 1},
			{Kind: "s"},
			{Kind: "w", Addr: 2563, Len: 3, Seed: 9},
			{Kind: "w", Addr: 11, Len: 2, Seed: 5},
			{Kind: "l", Mode: strings.TrimSuffix(mode, "-eager"), Addr: 5000, Len: 40, Seed: 7},
			{Kind: "r", Addr: 2560, Len: 16},
			{Kind: "r", Addr: 5000, Len: 16},
			{Kind: "r", Addr: 8, Len: 8},
		}}
		sig, msg, _ := c20Exec(c)
		if sig != "" {
			s.Fail(t, c, sig, "%s", msg)
			return
		}
		s.Note(c, false, "fixed-rollback:"+mode)
	}
}

// ------------------- dedicated reproductions of listed findings -------------------

// c20Known runs one fixed case. A listed finding that still reproduces prints
// KNOWN-FINDING; an unlisted one is a violation; one that no longer fails is
// reported as gone (and passes: the lead then drops the listing).
func c20Known(t *testing.T, name, sig string, c c20Case) {
	s := kit.Begin(t, "C20", "known-"+name, "dedicated deterministic reproduction of the finding with signature "+sig)
	defer s.End()
	if kit.ReplayMode() {
		t.Skip()
	}
	got, msg, _ := c20Exec(c)
	switch got {
	case sig:
		s.KnownStillFails(t, c, sig, msg)
	case "":
		fmt.Printf("KNOWN-FINDING-GONE: property=C20 sig=%s no longer reproduces on %+v\n", sig, c)
	default:
		s.Fail(t, c, got, "%s", msg)
	}
}

func TestC20Known_StartAtCapacity(t *testing.T) {
	c20Known(t, "start-at-capacity", c20SigAtCap,
		c20Case{Capacity: 1, Unit: 1, Ops: []c20Op{{Kind: "w", Addr: 1, Len: 1}}})
}

func TestC20Known_StraddleAtUnitBoundary(t *testing.T) {
	c20Known(t, "straddle-at-unit-boundary", c20SigAtUnit,
		c20Case{Capacity: 1, Unit: 1, Ops: []c20Op{{Kind: "w", Addr: 0, Len: 2}}})
}

func TestC20Known_StraddleMidUnit(t *testing.T) {
	c20Known(t, "straddle-mid-unit", c20SigMid,
		c20Case{Capacity: 1, Unit: 2, Ops: []c20Op{{Kind: "w", Addr: 0, Len: 2}}})
}

func TestC20Known_PartialWriteOnError(t *testing.T) {
	c20Known(t, "partial-write-on-error", c20SigPartial,
		c20Case{Capacity: 1, Unit: 2, Ops: []c20Op{{Kind: "w", Addr: 0, Len: 3}}})
}

func TestC20Known_ReadReaches2p64(t *testing.T) {
	c20Known(t, "read-reaches-2p64", c20SigReadTop,
		c20Case{Capacity: 1, Unit: 1, Ops: []c20Op{{Kind: "r", Addr: math.MaxUint64, Len: 1}}})
}

func TestC20Known_ReadWraps(t *testing.T) { // the probe of DESIGN.md: Read(2^64-2, 4)
	c20Known(t, "read-wraps", c20SigReadTop,
		c20Case{Capacity: 4096, Unit: 4096, Ops: []c20Op{{Kind: "r", Addr: math.MaxUint64 - 1, Len: 4}}})
}

func TestC20Known_WriteReaches2p64(t *testing.T) {
	c20Known(t, "write-reaches-2p64", c20SigWriteTop,
		c20Case{Capacity: math.MaxUint64, Unit: 1, Ops: []c20Op{{Kind: "w", Addr: math.MaxUint64, Len: 1}}})
}

func TestC20Known_WriteWrapsToZero(t *testing.T) {
	c20Known(t, "write-wraps-to-zero", c20SigWriteTop,
		c20Case{Capacity: math.MaxUint64 - 1, Unit: 16, Ops: []c20Op{{Kind: "w", Addr: math.MaxUint64 - 1, Len: 4}}})
}
