package memutilchk

import (
	"bytes"
	"flag"
	"fmt"
	"io"
	"math"
	"sort"
	"testing"

	"github.com/sarchlab/akita/v5/mem/vm"
	"pgregory.net/rapid"

	"verif/harness/kit"
)

// ---------------------------------------------------------------------------
// C26 — page tables behave as a per-process map with deterministic lookups.
//
// Case = (log2 page size, history of insert/update/remove/find/reverse-lookup/
// checkpoint ops). Two instances replay the history; a map is the model.
// Contract learned from mem/vm/pagetable.go and its tests: Insert and Remove
// take the page-aligned virtual address as is (only Find aligns), Insert of a
// present key panics ("page exist", unit-tested), Update/Remove of an absent
// key panic (pageMustExist); checkpointing is reached by asserting the table
// to SaveCheckpoint/LoadCheckpoint (as pagetable_checkpoint_test.go does) and
// loading into a freshly built table.
// ---------------------------------------------------------------------------

type c26Op struct {
	Kind     string `json:"k"` // ins upd rem find rl ckpt
	PID      uint32 `json:"pid,omitempty"`
	VAddr    uint64 `json:"va,omitempty"` // page aligned for ins/upd/rem, arbitrary for find
	PAddr    uint64 `json:"pa,omitempty"`
	DeviceID uint64 `json:"dev,omitempty"`
	Flags    uint8  `json:"fl,omitempty"` // bit0 Valid, bit1 Unified, bit2 IsMigrating, bit3 IsPinned
}

type c26Case struct {
	Log2 uint64  `json:"log2_page_size"`
	Ops  []c26Op `json:"ops"`
}

const (
	c26SigShared = "reverselookup-shared-frame-nondeterministic"
	c26Repeats   = 16
	c26MaxLog2   = 30
	c26MaxOps    = 40
)

type c26Key struct {
	pid   vm.PID
	vaddr uint64
}

type c26Ans struct {
	page  vm.Page
	found bool
}

type c26Checkpointable interface {
	SaveCheckpoint(w io.Writer) error
	LoadCheckpoint(r io.Reader) error
}

func (op c26Op) page(log2 uint64) vm.Page {
	return vm.Page{
		PID: vm.PID(op.PID), VAddr: op.VAddr, PAddr: op.PAddr, PageSize: uint64(1) << log2,
		Valid: op.Flags&1 != 0, Unified: op.Flags&2 != 0, IsMigrating: op.Flags&4 != 0, IsPinned: op.Flags&8 != 0,
		DeviceID: op.DeviceID,
	}
}

type c26Model map[c26Key]vm.Page

func (m c26Model) sortedKeys() []c26Key {
	keys := make([]c26Key, 0, len(m))
	for k := range m {
		keys = append(keys, k)
	}
	sort.Slice(keys, func(i, j int) bool {
		if keys[i].pid != keys[j].pid {
			return keys[i].pid < keys[j].pid
		}
		return keys[i].vaddr < keys[j].vaddr
	})
	return keys
}

// holders returns the pages with this physical address (sorted by key) and the number of distinct processes holding them.
func (m c26Model) holders(paddr uint64) (pages []vm.Page, pids int) {
	seen := map[vm.PID]bool{}
	for _, k := range m.sortedKeys() {
		if p := m[k]; p.PAddr == paddr {
			pages = append(pages, p)
			seen[k.pid] = true
		}
	}
	return pages, len(seen)
}

func (m c26Model) sharedAcrossProcesses() bool {
	byFrame := map[uint64]vm.PID{}
	for k, p := range m {
		if first, ok := byFrame[p.PAddr]; ok && first != k.pid {
			return true
		} else if !ok {
			byFrame[p.PAddr] = k.pid
		}
	}
	return false
}

func (m c26Model) processes() int {
	seen := map[vm.PID]bool{}
	for k := range m {
		seen[k.pid] = true
	}
	return len(seen)
}

type c26Stats struct {
	sharedExisted    bool // at some point two processes held pages with one physical address
	maxProcs         int
	rlHits, rlMisses int
	rlCrossAsked     int // reverse lookups of a frame shared across processes (determinism asserted unless listed)
	findHits         int
	findUnaligned    int
	updates, removes int
	misuse           int
	ckpts            int
	ckptNonEmpty     bool
	// one process maps one frame at >= 2 virtual addresses:
	rlSameProcAlias    int  // ... and ReverseLookup was asked for that frame
	ckptAliasNonAsc    bool // ... inserted in non-ascending address order, at a checkpoint
	rlAliasAfterNonAsc int  // ... ReverseLookup of such a frame on a table restored from that checkpoint
}

// c26Exec replays the history on two instances and the model.
// assertShared: also demand determinism for reverse lookups of frames shared by several processes.
func c26Exec(c c26Case, assertShared bool) (sig, msg string, st c26Stats) {
	if c.Log2 > 63 {
		return "", "", st
	}
	var a, b vm.PageTable
	if ok, psig, pmsg := kit.Guard(func() { a, b = vm.NewPageTable(c.Log2), vm.NewPageTable(c.Log2) }); !ok {
		return psig, pmsg, st
	}
	m := c26Model{}
	seq := map[c26Key]int{} // insertion order of the present keys (Update keeps the position)
	nextSeq := 0
	// aliases(paddr): does one process hold the frame at >= 2 addresses, and is their insertion order non-ascending?
	aliases := func(paddr uint64) (same, nonAsc bool) {
		last := map[vm.PID]c26Key{}
		for _, k := range m.sortedKeys() { // ascending vaddr within a pid
			if m[k].PAddr != paddr {
				continue
			}
			if prev, ok := last[k.pid]; ok {
				same = true
				if seq[prev] > seq[k] {
					nonAsc = true
				}
			}
			last[k.pid] = k
		}
		return
	}
	restoredWithNonAsc := false
	align := func(x uint64) uint64 { return (x >> c.Log2) << c.Log2 }
	asked := map[uint64]bool{} // frames asked for so far (swept again after a checkpoint)

	// judgeRL checks one reverse-lookup answer against the model.
	judgeRL := func(where string, paddr uint64, r c26Ans) (string, string) {
		pages, _ := m.holders(paddr)
		if r.found != (len(pages) > 0) {
			return "reverselookup-found-flag", fmt.Sprintf("%s: found=%v but the model has %d page(s) with that physical address", where, r.found, len(pages))
		}
		if !r.found {
			return "", ""
		}
		if r.page.PAddr != paddr {
			return "reverselookup-wrong-frame", fmt.Sprintf("%s: returned %+v", where, r.page)
		}
		for _, p := range pages {
			if p == r.page {
				return "", ""
			}
		}
		return "reverselookup-unknown-page", fmt.Sprintf("%s: returned %+v which is not a page of the model (%+v)", where, r.page, pages)
	}
	rl := func(pt vm.PageTable, paddr uint64) (r c26Ans, sig, msg string) {
		if ok, psig, pmsg := kit.Guard(func() { r.page, r.found = pt.ReverseLookup(paddr) }); !ok {
			return r, psig, pmsg
		}
		return r, "", ""
	}
	find := func(pt vm.PageTable, pid vm.PID, addr uint64) (r c26Ans, sig, msg string) {
		if ok, psig, pmsg := kit.Guard(func() { r.page, r.found = pt.Find(pid, addr) }); !ok {
			return r, psig, pmsg
		}
		return r, "", ""
	}
	// checkRL: repeated calls on pt, the model, and (optionally) a second table.
	checkRL := func(where string, pt, other vm.PageTable, paddr uint64, repeats int) (string, string) {
		_, pids := m.holders(paddr)
		shared := pids >= 2
		var first c26Ans
		for i := 0; i < repeats; i++ {
			r, s1, m1 := rl(pt, paddr)
			if s1 != "" {
				return s1, where + ": " + m1
			}
			if s2, m2 := judgeRL(where, paddr, r); s2 != "" {
				return s2, m2
			}
			if i == 0 {
				first = r
			} else if r != first && (!shared || assertShared) {
				nsig := "nondeterministic:reverselookup"
				if shared {
					nsig = c26SigShared
				}
				return nsig, fmt.Sprintf("%s: call #1 returned %+v, call #%d returned %+v (frame held by %d processes)", where, first.page, i+1, r.page, pids)
			}
		}
		if other != nil {
			r, s1, m1 := rl(other, paddr)
			if s1 != "" {
				return s1, where + ": " + m1
			}
			if s2, m2 := judgeRL(where+" [second table]", paddr, r); s2 != "" {
				return s2, m2
			}
			if r != first && (!shared || assertShared) {
				nsig := "history-dependent:reverselookup"
				if shared {
					nsig = c26SigShared
				}
				return nsig, fmt.Sprintf("%s: this table returned %+v, a table with the same history returned %+v (frame held by %d processes)", where, first.page, r.page, pids)
			}
		}
		return "", ""
	}
	checkFind := func(where string, pt, other vm.PageTable, pid vm.PID, addr uint64, repeats int) (string, string, bool) {
		want, present := m[c26Key{pid, align(addr)}]
		for i := 0; i < repeats; i++ {
			r, s1, m1 := find(pt, pid, addr)
			if s1 != "" {
				return s1, where + ": " + m1, false
			}
			if r.found != present || (present && r.page != want) {
				return "find-disagrees-with-model", fmt.Sprintf("%s: got (%+v,%v), model (%+v,%v)", where, r.page, r.found, want, present), false
			}
		}
		if other != nil {
			r, s1, m1 := find(other, pid, addr)
			if s1 != "" {
				return s1, where + ": " + m1, false
			}
			if r.found != present || (present && r.page != want) {
				return "find-disagrees-with-model", fmt.Sprintf("%s [second table]: got (%+v,%v), model (%+v,%v)", where, r.page, r.found, want, present), false
			}
		}
		return "", "", present
	}
	// mutate applies a mutating op to one table; wantPanic says whether the documented misuse panic is due.
	mutate := func(where string, pt vm.PageTable, op c26Op, wantPanic bool) (string, string) {
		ok, psig, pmsg := kit.Guard(func() {
			switch op.Kind {
			case "ins":
				pt.Insert(op.page(c.Log2))
			case "upd":
				pt.Update(op.page(c.Log2))
			case "rem":
				pt.Remove(vm.PID(op.PID), op.VAddr)
			}
		})
		if ok && wantPanic {
			return op.Kind + "-misuse-no-panic", where + ": the documented panic did not happen"
		}
		if !ok && !wantPanic {
			return psig, where + ": " + pmsg
		}
		return "", ""
	}

	for i, op := range c.Ops {
		where := fmt.Sprintf("op#%d %s(pid=%d va=%#x pa=%#x) log2=%d", i, op.Kind, op.PID, op.VAddr, op.PAddr, c.Log2)
		key := c26Key{vm.PID(op.PID), op.VAddr}
		_, present := m[key]
		switch op.Kind {
		case "ins", "upd", "rem":
			if op.VAddr != align(op.VAddr) {
				continue // outside the domain: keys are page-aligned addresses
			}
			wantPanic := present == (op.Kind == "ins")
			for _, pt := range []vm.PageTable{a, b} {
				if s1, m1 := mutate(where, pt, op, wantPanic); s1 != "" {
					return s1, m1, st
				}
			}
			if wantPanic {
				st.misuse++
			} else {
				switch op.Kind {
				case "ins":
					m[key] = op.page(c.Log2)
					seq[key] = nextSeq
					nextSeq++
				case "upd":
					m[key] = op.page(c.Log2)
					st.updates++
				case "rem":
					delete(m, key)
					st.removes++
				}
			}
			if m.sharedAcrossProcesses() {
				st.sharedExisted = true
			}
			if n := m.processes(); n > st.maxProcs {
				st.maxProcs = n
			}
			// the touched key and its frame answer as the model says, on both tables
			if s1, m1, _ := checkFind(where+" then Find", a, b, key.pid, key.vaddr, 1); s1 != "" {
				return s1, m1, st
			}
		case "find":
			s1, m1, hit := checkFind(where, a, b, vm.PID(op.PID), op.VAddr, c26Repeats)
			if s1 != "" {
				return s1, m1, st
			}
			if hit {
				st.findHits++
				if op.VAddr != align(op.VAddr) {
					st.findUnaligned++
				}
			}
		case "rl":
			asked[op.PAddr] = true
			pages, pids := m.holders(op.PAddr)
			if s1, m1 := checkRL(where, a, b, op.PAddr, c26Repeats); s1 != "" {
				return s1, m1, st
			}
			if len(pages) > 0 {
				st.rlHits++
			} else {
				st.rlMisses++
			}
			if same, nonAsc := aliases(op.PAddr); same {
				st.rlSameProcAlias++
				if nonAsc && restoredWithNonAsc {
					st.rlAliasAfterNonAsc++
				}
			}
			if pids >= 2 {
				st.rlCrossAsked++
			}
		case "ckpt":
			ca, ok1 := a.(c26Checkpointable)
			if !ok1 {
				return "not-checkpointable", "vm.NewPageTable result does not expose SaveCheckpoint/LoadCheckpoint", st
			}
			var b1, b2 bytes.Buffer
			var err error
			fresh := vm.NewPageTable(c.Log2)
			if ok, psig, pmsg := kit.Guard(func() {
				if err = ca.SaveCheckpoint(&b1); err != nil {
					return
				}
				if err = fresh.(c26Checkpointable).LoadCheckpoint(bytes.NewReader(b1.Bytes())); err != nil {
					return
				}
				err = fresh.(c26Checkpointable).SaveCheckpoint(&b2)
			}); !ok {
				return psig, where + ": " + pmsg, st
			}
			if err != nil {
				return "checkpoint-error", fmt.Sprintf("%s: %v", where, err), st
			}
			if !bytes.Equal(b1.Bytes(), b2.Bytes()) {
				return "checkpoint-second-save-differs", fmt.Sprintf("%s: save after load differs:\n%s\n%s", where, b1.String(), b2.String()), st
			}
			// every answer of the restored table: the model for Find, and the never-checkpointed table b for both
			for _, k := range m.sortedKeys() {
				if s1, m1, _ := checkFind(where+" restored Find", fresh, b, k.pid, k.vaddr|(((uint64(1)<<c.Log2)-1)&0x155), 1); s1 != "" {
					return "checkpoint-" + s1, m1, st
				}
			}
			frames := map[uint64]bool{}
			for pa := range asked {
				frames[pa] = true
			}
			for _, p := range m {
				frames[p.PAddr] = true
			}
			sorted := make([]uint64, 0, len(frames))
			for pa := range frames {
				sorted = append(sorted, pa)
			}
			sort.Slice(sorted, func(i, j int) bool { return sorted[i] < sorted[j] })
			for _, pa := range sorted {
				if s1, m1 := checkRL(fmt.Sprintf("%s restored ReverseLookup(%#x)", where, pa), fresh, b, pa, 2); s1 != "" {
					if s1 != c26SigShared {
						s1 = "checkpoint-" + s1
					}
					return s1, m1, st
				}
			}
			for _, pa := range sorted {
				if _, nonAsc := aliases(pa); nonAsc {
					st.ckptAliasNonAsc = true
					restoredWithNonAsc = true
				}
			}
			a = fresh
			st.ckpts++
			if len(m) > 0 {
				st.ckptNonEmpty = true
			}
		}
	}
	return "", "", st
}

// ------------------------------ generator ---------------------------------

func genC26(rt *rapid.T, s *kit.Session) c26Case {
	c := c26Case{}
	switch rapid.IntRange(0, 3).Draw(rt, "lclass") {
	case 0:
		c.Log2 = 12
	case 1:
		c.Log2 = rapid.SampledFrom([]uint64{0, 1, 6, 14, 16, 21, 30}).Draw(rt, "log2")
	default:
		c.Log2 = rapid.Uint64Range(0, c26MaxLog2).Draw(rt, "log2")
	}
	ps := uint64(1) << c.Log2
	nproc := rapid.IntRange(1, 6).Draw(rt, "nproc")
	pidPool := []uint32{1, 2, 3, 0, 7, math.MaxUint32}[:nproc]
	if rapid.Bool().Draw(rt, "pidperm") { // iteration order of the table's map must not matter: vary which PIDs exist
		pidPool = []uint32{math.MaxUint32, 100, 5, 2, 1, 0}[:nproc]
	}
	nvp := rapid.IntRange(1, 4).Draw(rt, "nvpages")
	vPool := []uint64{0, ps, 2 * ps, (math.MaxUint64 >> c.Log2) << c.Log2}[:nvp]
	nfr := rapid.IntRange(1, 4).Draw(rt, "nframes")
	fPool := []uint64{ps, 0, 5 * ps, (math.MaxUint64>>c.Log2)<<c.Log2 - ps + ps/2}[:nfr]
	_, sharedKnown := s.IsKnown(c26SigShared)

	type gkey struct {
		pid uint32
		va  uint64
	}
	present := map[gkey]uint64{} // -> frame
	var order []gkey             // present keys in insertion order (no map iteration in the generator)
	holders := func(pa uint64) int {
		seen := map[uint32]bool{}
		for _, k := range order {
			if present[k] == pa {
				seen[k.pid] = true
			}
		}
		return len(seen)
	}
	removeKey := func(k gkey) {
		delete(present, k)
		for i := range order {
			if order[i] == k {
				order = append(order[:i:i], order[i+1:]...)
				break
			}
		}
	}

	one := func(rt *rapid.T) {
		if len(c.Ops) >= c26MaxOps {
			return
		}
		op := c26Op{}
		pid := rapid.SampledFrom(pidPool).Draw(rt, "pid")
		va := rapid.SampledFrom(vPool).Draw(rt, "va")
		k := gkey{pid, va}
		_, has := present[k]
		kind := rapid.IntRange(0, 19).Draw(rt, "kind")
		switch {
		case kind < 7: // insert (absent key) -- or, when the key is present, update it
			op = c26Op{Kind: "ins", PID: pid, VAddr: va,
				PAddr:    rapid.SampledFrom(fPool).Draw(rt, "pa"),
				Flags:    uint8(rapid.IntRange(0, 15).Draw(rt, "flags")),
				DeviceID: rapid.SampledFrom([]uint64{0, 1, 3, math.MaxUint64}).Draw(rt, "dev")}
			if has {
				op.Kind = "upd"
				if rapid.IntRange(0, 9).Draw(rt, "misuse") == 0 {
					op.Kind = "ins" // documented panic
				}
			}
			if op.Kind == "ins" && has {
				break
			}
			if !has {
				order = append(order, k)
			}
			present[k] = op.PAddr
		case kind < 9: // remove a present key (or misuse on an absent one, rarely)
			if len(order) == 0 || rapid.IntRange(0, 9).Draw(rt, "misuse") == 0 {
				if has {
					removeKey(k)
				}
				op = c26Op{Kind: "rem", PID: pid, VAddr: va}
				break
			}
			k = order[rapid.IntRange(0, len(order)-1).Draw(rt, "which")]
			op = c26Op{Kind: "rem", PID: k.pid, VAddr: k.va}
			removeKey(k)
		case kind < 10: // update of an absent key: documented panic
			op = c26Op{Kind: "upd", PID: pid, VAddr: va, PAddr: rapid.SampledFrom(fPool).Draw(rt, "pa")}
			if has {
				present[k] = op.PAddr
			}
		case kind < 14: // find with an arbitrary address inside (or next to) a pool page
			op = c26Op{Kind: "find", PID: pid, VAddr: va + rapid.Uint64Range(0, ps-1).Draw(rt, "off")}
			if rapid.IntRange(0, 7).Draw(rt, "far") == 0 {
				op.VAddr = rapid.Uint64().Draw(rt, "anyva")
			}
			if rapid.IntRange(0, 9).Draw(rt, "otherpid") == 0 {
				op.PID = rapid.Uint32().Draw(rt, "anypid")
			}
		case kind < 19: // reverse lookup
			op = c26Op{Kind: "rl", PAddr: rapid.SampledFrom(fPool).Draw(rt, "pa")}
			if rapid.IntRange(0, 7).Draw(rt, "absent") == 0 {
				op.PAddr += 1 + rapid.Uint64Range(0, 2).Draw(rt, "pad")
			}
			if sharedKnown && holders(op.PAddr) >= 2 {
				// listed finding: steer to a frame that is not shared across processes, else to a Find
				s.Excluded(1)
				replaced := false
				for _, f := range fPool {
					if holders(f) < 2 {
						op.PAddr, replaced = f, true
						break
					}
				}
				if !replaced {
					op = c26Op{Kind: "find", PID: pid, VAddr: va + rapid.Uint64Range(0, ps-1).Draw(rt, "off")}
				}
			}
		default:
			op = c26Op{Kind: "ckpt"}
		}
		c.Ops = append(c.Ops, op)
	}
	// rt.Repeat (average 16 ops, at most 40): rapid shrinks a failing history by dropping single ops
	rt.Repeat(map[string]func(*rapid.T){"op": one})
	if len(c.Ops) == 0 {
		one(rt)
	}
	return c
}

func TestC26PageTable(t *testing.T) {
	s := kit.Begin(t, "C26", "pagetable",
		"log2 page size from {12, {0,1,6,14,16,21,30}, 0..30}; 1..6 processes (PIDs incl. 0 and 2^32-1), 1..4 virtual pages (incl. the top page), 1..4 frames shared freely between processes and between the virtual pages of one process (same-process aliases, inserted in any address order; one frame unaligned); "+
			"1..40 ops (rt.Repeat, average 16): insert of an absent key (update when present), remove/update of a present key, rare misuse (insert present / update, remove absent: documented panic asserted, state unchanged), "+
			"Find at arbitrary unaligned addresses and unknown PIDs, ReverseLookup of pool frames and of absent addresses, checkpoint save -> load into a fresh table. "+
			"Oracle: map model for Find/Insert/Update/Remove on two tables replaying the history; ReverseLookup found iff a model page has that PAddr and the returned page is one of them; "+
			"every lookup repeated 16 times and compared with the second table; after a checkpoint the second save is byte-identical, every key and every frame answers as before (against the never-checkpointed second table), and the history continues on the restored table. "+
			"While the shared-frame finding is listed, reverse lookups of frames held by >= 2 processes are redirected (counted as excluded) and the restore sweep only checks membership for such frames. "+
			"Non-trivial: >= 2 processes hold pages, a frame was shared across processes, >= 1 reverse lookup hit, >= 1 update or remove")
	defer s.End()
	s.Assume("Insert/Update/Remove keys are page-aligned virtual addresses (only Find aligns its argument); checkpoints are loaded into a freshly built table, as LoadCheckpoint documents")

	run := func(f kit.Failer, c c26Case) {
		_, sharedKnown := s.IsKnown(c26SigShared)
		sig, msg, st := c26Exec(c, !sharedKnown)
		if sig != "" {
			s.Fail(f, c, sig, "%s", msg)
			return
		}
		var classes []string
		add := func(b bool, name string) {
			if b {
				classes = append(classes, name)
			}
		}
		add(st.sharedExisted, "frame-shared-across-processes")
		add(st.rlCrossAsked > 0, "reverselookup-of-cross-shared-frame")
		add(st.rlHits > 0, "reverselookup-hit")
		add(st.rlMisses > 0, "reverselookup-miss")
		add(st.findUnaligned > 0, "find-hit-unaligned")
		add(st.misuse > 0, "misuse-panic-asserted")
		add(st.ckptNonEmpty, "ckpt-non-empty")
		add(st.rlSameProcAlias > 0, "reverselookup-of-same-process-alias")
		add(st.ckptAliasNonAsc, "ckpt-with-same-process-alias-inserted-non-ascending")
		add(st.rlAliasAfterNonAsc > 0, "reverselookup-of-non-ascending-alias-after-restore")
		add(st.removes > 0, "remove")
		add(st.updates > 0, "update")
		add(st.maxProcs >= 3, "procs>=3")
		s.Note(c, st.maxProcs >= 2 && st.sharedExisted && st.rlHits > 0 && st.updates+st.removes > 0, classes...)
	}

	var c c26Case
	if ok, err := kit.LoadReplay("C26", "pagetable", &c); ok {
		if err != nil {
			t.Fatal(err)
		}
		run(t, c)
		return
	} else if kit.ReplayMode() {
		t.Skip()
	}

	kit.SetChecks(10_000, 100_000)
	_ = flag.Set("rapid.steps", "16")
	rapid.Check(t, func(rt *rapid.T) {
		c := genC26(rt, s)
		run(rt, c)
	})
}

// ------------------- dedicated reproduction of the listed finding -------------------

// TestC26Known_SharedFrameReverseLookup: four processes map one frame; the
// same ReverseLookup is repeated 250 x 16 times on one table and compared with
// a second table built by the same history. (The outcome depends on Go's
// randomized map iteration: the chance that 4000 iterations over a 4-entry map
// all start at the same entry is negligible.)
func TestC26Known_SharedFrameReverseLookup(t *testing.T) {
	s := kit.Begin(t, "C26", "known-shared-frame", "dedicated reproduction of the finding with signature "+c26SigShared)
	defer s.End()
	if kit.ReplayMode() {
		t.Skip()
	}
	c := c26Case{Log2: 12}
	for pid := uint32(1); pid <= 4; pid++ {
		c.Ops = append(c.Ops, c26Op{Kind: "ins", PID: pid, VAddr: 0, PAddr: 0x1000, Flags: 1})
	}
	for i := 0; i < 250; i++ {
		c.Ops = append(c.Ops, c26Op{Kind: "rl", PAddr: 0x1000})
	}
	got, msg, _ := c26Exec(c, true)
	c.Ops = c.Ops[:5] // what is printed / stored: the four inserts and one lookup
	switch got {
	case c26SigShared:
		s.KnownStillFails(t, c, got, msg)
	case "":
		fmt.Printf("KNOWN-FINDING-GONE: property=C26 sig=%s no longer reproduces (4 processes sharing frame 0x1000, 4000 lookups)\n", c26SigShared)
	default:
		s.Fail(t, c, got, "%s", msg)
	}
}
