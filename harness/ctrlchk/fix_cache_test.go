package ctrlchk

import (
	"fmt"

	"github.com/sarchlab/akita/v5/mem"
	"github.com/sarchlab/akita/v5/mem/cache/writeback"
	"github.com/sarchlab/akita/v5/mem/cache/writethroughcache"
	"github.com/sarchlab/akita/v5/mem/memcontrolprotocol"
)

// Fixtures of the two caches. Wiring follows control_behavior_test.go of each
// package, with the no-op connection replaced by a real ideal memory
// controller behind a direct connection. Geometry is tiny on purpose (2-4 sets,
// 1-4 ways, 1-4 MSHR entries over a 12-line pool) so misses, MSHR coalescing,
// evictions and write-backs are in flight when the verbs land.

// values of the unexported writeback cacheState enum as exported through
// State.CacheState (an int): running / pre-flushing / flushing / paused /
// draining. The fixture asserts the initial value is `running` so a renumbering
// shows up as a harness failure, not as a verdict.
const (
	wbRunning     = 1
	wbPreFlushing = 2
	wbFlushing    = 3
	wbPaused      = 4
	wbDraining    = 5
)

func init() {
	fixtureBuilders["writeback"] = func(e *env) *fixture {
		lower := newIdealMem(e, "Low", e.cfg.LowLat, 1+e.cfg.Var%2, mem.NewStorage(1*mem.MB))

		ways := []int{1, 2, 4}[e.cfg.Var%3]
		sets := []int{2, 4}[(e.cfg.Var/3)%2]
		spec := writeback.DefaultSpec()
		spec.TotalByteSize = uint64(sets * ways * lineSize)
		spec.WayAssociativity = ways
		spec.Log2BlockSize = 6
		spec.NumBanks = 1
		spec.NumMSHREntry = []int{1, 2, 4}[(e.cfg.Var+e.cfg.Width)%3]
		spec.NumReqPerCycle = e.cfg.Width
		spec.BankLatency = 1 + e.cfg.Lat%4
		spec.DirLatency = 1 + (e.cfg.Lat/2)%3

		comp := writeback.MakeBuilder().
			WithRegistrar(e.reg).
			WithSpec(spec).
			WithResources(writeback.Resources{
				Storage:             mem.NewStorage(1 * mem.MB),
				AddressToPortMapper: &mem.SinglePortMapper{Port: lower.GetPortByName("Top").AsRemote()},
			}).
			Build("Agent")
		if comp.State.CacheState != wbRunning {
			panic(fmt.Sprintf("harness: writeback initial CacheState=%d, expected %d (enum renumbered?)", comp.State.CacheState, wbRunning))
		}
		fx := &fixture{
			agent:   comp.Name(),
			top:     e.assign(comp, "Top", e.cfg.TopBuf),
			ctrl:    e.assign(comp, "Control", e.cfg.CtlBuf),
			support: memcontrolprotocol.CacheLike(),
			quiescent: func() (bool, string) {
				st := &comp.State
				for i := range st.Transactions {
					if !st.Transactions[i].Removed {
						return false, fmt.Sprintf("transaction %d is live", i)
					}
				}
				if n := st.WriteBufferBuf.Size(); n != 0 {
					return false, fmt.Sprintf("write buffer holds %d", n)
				}
				for i, c := range st.BankInflightTransCounts {
					if c != 0 {
						return false, fmt.Sprintf("BankInflightTransCounts[%d]=%d", i, c)
					}
				}
				for i, c := range st.BankDownwardInflightTransCounts {
					if c != 0 {
						return false, fmt.Sprintf("BankDownwardInflightTransCounts[%d]=%d", i, c)
					}
				}
				return true, ""
			},
			ctlState: func() string {
				switch comp.State.CacheState {
				case wbRunning:
					return "enabled"
				case wbPaused:
					return "paused"
				case wbPreFlushing:
					return "pre-flushing"
				case wbFlushing:
					return "flushing"
				case wbDraining:
					return "draining"
				}
				return fmt.Sprintf("state(%d)", comp.State.CacheState)
			},
			filterAddr: func(s uint64) uint64 { return s*lineSize + (s%5)*4 }, // not always line aligned
		}
		fx.mkData = memData(e, func(s uint64) uint64 { return s * lineSize }, slotPID)
		e.assign(comp, "Bottom", 4)
		return fx
	}

	fixtureBuilders["writethrough"] = func(e *env) *fixture {
		lower := newIdealMem(e, "Low", e.cfg.LowLat, 1+e.cfg.Var%2, mem.NewStorage(1*mem.MB))

		ways := []int{1, 2, 4}[e.cfg.Var%3]
		sets := []int{2, 4}[(e.cfg.Var/3)%2]
		spec := writethroughcache.DefaultSpec()
		spec.TotalByteSize = uint64(sets * ways * lineSize)
		spec.WayAssociativity = ways
		spec.Log2BlockSize = 6
		spec.NumBanks = 1
		spec.NumMSHREntry = []int{1, 2, 4}[(e.cfg.Var+e.cfg.Width)%3]
		spec.NumReqPerCycle = e.cfg.Width
		spec.BankLatency = 1 + e.cfg.Lat%4
		spec.DirLatency = 1 + (e.cfg.Lat/2)%3
		spec.MaxNumConcurrentTrans = []int{4, 16}[e.cfg.Width%2]
		spec.WritePolicyType = []string{"write-around", "write-evict", "write-through"}[(e.cfg.Var+e.cfg.Lat)%3]

		comp := writethroughcache.MakeBuilder().
			WithRegistrar(e.reg).
			WithSpec(spec).
			WithResources(writethroughcache.Resources{
				Storage:       mem.NewStorage(1 * mem.MB),
				AddressMapper: &mem.SinglePortMapper{Port: lower.GetPortByName("Top").AsRemote()},
			}).
			Build("Agent")
		fx := &fixture{
			agent:   comp.Name(),
			top:     e.assign(comp, "Top", e.cfg.TopBuf),
			ctrl:    e.assign(comp, "Control", e.cfg.CtlBuf),
			support: memcontrolprotocol.CacheLike(),
			quiescent: func() (bool, string) {
				for i := range comp.State.Transactions {
					if !comp.State.Transactions[i].Removed {
						return false, fmt.Sprintf("transaction %d is not retired", i)
					}
				}
				return true, ""
			},
			ctlState: func() string {
				st := &comp.State
				switch {
				case st.IsPaused && !st.IsDraining:
					return "paused"
				case !st.IsPaused && !st.IsDraining:
					return "enabled"
				case st.IsDraining && !st.IsPaused:
					return "draining"
				}
				return "paused+draining"
			},
			filterAddr: func(s uint64) uint64 { return s*lineSize + (s%5)*4 },
		}
		fx.mkData = memData(e, func(s uint64) uint64 { return s * lineSize }, slotPID)
		e.assign(comp, "Bottom", 4)
		return fx
	}
}
