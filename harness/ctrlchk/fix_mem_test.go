package ctrlchk

import (
	"fmt"

	"github.com/sarchlab/akita/v5/mem"
	"github.com/sarchlab/akita/v5/mem/dram"
	"github.com/sarchlab/akita/v5/mem/idealmemcontroller"
	"github.com/sarchlab/akita/v5/mem/memcontrolprotocol"
	"github.com/sarchlab/akita/v5/mem/memprotocol"
	"github.com/sarchlab/akita/v5/mem/simplebankedmemory"
	"github.com/sarchlab/akita/v5/mem/vm"
	"github.com/sarchlab/akita/v5/messaging"
)

// Fixtures of the leaf memories: ideal memory controller, DRAM, simple banked
// memory. Wiring idioms follow each package's control_contract_test.go /
// control_behavior_test.go (builder + externally assigned Top/Control ports).

const lineSize = 64

// memAddr maps a pool slot to a line-aligned address. spread > 0 scatters the
// slots over distant regions (DRAM rows / banks).
func memAddr(slot uint64, spread uint64) uint64 {
	return slot*lineSize + (slot%3)*spread
}

func stateName(s memcontrolprotocol.State) string {
	switch s {
	case memcontrolprotocol.StateEnabled:
		return "enabled"
	case memcontrolprotocol.StatePaused:
		return "paused"
	}
	return s.String()
}

// memData builds a read or write of 4*N bytes inside the line of the slot. The
// PID is a function of the slot (caches tag by PID).
func memData(e *env, addrOf func(slot uint64) uint64, pidOf func(slot int) vm.PID) func(st c18Step, idx int) messaging.Msg {
	return func(st c18Step, idx int) messaging.Msg {
		n := 4 * st.N
		if n < 4 {
			n = 4
		}
		if n > 16 {
			n = 16
		}
		addr := addrOf(uint64(st.Slot)) + uint64(idx%4)*16
		if st.W {
			data := make([]byte, n)
			for i := range data {
				data[i] = byte(idx*7 + i + 1)
			}
			req := memprotocol.WriteReq{Address: addr, Data: data, PID: pidOf(st.Slot)}
			req.MsgMeta = e.drv.meta("memprotocol.WriteReq")
			req.TrafficBytes = n + 12
			return req
		}
		req := memprotocol.ReadReq{Address: addr, AccessByteSize: uint64(n), PID: pidOf(st.Slot)}
		req.MsgMeta = e.drv.meta("memprotocol.ReadReq")
		req.TrafficBytes = 12
		return req
	}
}

func noPID(int) vm.PID        { return 0 }
func slotPID(slot int) vm.PID { return vm.PID(1 + slot%2) }

// newIdealMem builds an ideal memory controller used as a lower neighbour.
func newIdealMem(e *env, name string, latency, width int, storage *mem.Storage) *idealmemcontroller.Comp {
	spec := idealmemcontroller.DefaultSpec()
	spec.Width = width
	spec.Latency = latency
	spec.CacheLineSize = lineSize
	comp := idealmemcontroller.MakeBuilder().
		WithRegistrar(e.reg).
		WithResources(idealmemcontroller.Resources{Storage: storage}).
		WithSpec(spec).
		Build(name)
	e.assign(comp, "Top", 8)
	e.assign(comp, "Control", 1)
	return comp
}

func init() {
	// idealmemcontroller: Lat+LowLat → Latency 0..17, Width 1..4.
	fixtureBuilders["idealmem"] = func(e *env) *fixture {
		spec := idealmemcontroller.DefaultSpec()
		spec.Width = e.cfg.Width
		spec.Latency = e.cfg.Lat + e.cfg.LowLat
		spec.CacheLineSize = lineSize
		comp := idealmemcontroller.MakeBuilder().
			WithRegistrar(e.reg).
			WithResources(idealmemcontroller.Resources{Storage: mem.NewStorage(1 * mem.MB)}).
			WithSpec(spec).
			Build("Agent")
		addr := func(s uint64) uint64 { return memAddr(s, 4096) }
		return &fixture{
			agent:   comp.Name(),
			top:     e.assign(comp, "Top", e.cfg.TopBuf),
			ctrl:    e.assign(comp, "Control", e.cfg.CtlBuf),
			support: memcontrolprotocol.Universal(),
			quiescent: func() (bool, string) {
				n := len(comp.State.InflightTransactions)
				return n == 0, fmt.Sprintf("len(State.InflightTransactions)=%d", n)
			},
			ctlState:   func() string { return stateName(comp.State.ControlState) },
			mkData:     memData(e, addr, noPID),
			filterAddr: addr,
		}
	}

	// dram: default DDR3 spec; Var selects page policy and command queue
	// capacity (values used by memcontroller_test.go).
	fixtureBuilders["dram"] = func(e *env) *fixture {
		spec := dram.DefaultSpec()
		if e.cfg.Var%2 == 1 {
			spec.PagePolicy = dram.PagePolicyOpen
		}
		spec.CommandQueueCapacity = []int{4, 8, 16}[e.cfg.Var%3]
		comp := dram.MakeBuilder().
			WithRegistrar(e.reg).
			WithSpec(spec).
			WithResources(dram.Resources{Storage: mem.NewStorage(16 * mem.MB)}).
			Build("Agent")
		addr := func(s uint64) uint64 { return memAddr(s, 1<<21) }
		return &fixture{
			agent:   comp.Name(),
			top:     e.assign(comp, "Top", e.cfg.TopBuf),
			ctrl:    e.assign(comp, "Control", e.cfg.CtlBuf),
			support: memcontrolprotocol.Universal(),
			quiescent: func() (bool, string) {
				n := len(comp.State.Transactions)
				return n == 0, fmt.Sprintf("len(State.Transactions)=%d", n)
			},
			ctlState:   func() string { return stateName(comp.State.ControlState) },
			mkData:     memData(e, addr, noPID),
			filterAddr: addr,
		}
	}

	// simplebankedmemory: 1..4 banks, pipeline width = Width, depth 1..2,
	// stage latency 1..6 (tests use 2..10), post-pipeline buffer 1..2.
	fixtureBuilders["sbm"] = func(e *env) *fixture {
		spec := simplebankedmemory.DefaultSpec()
		spec.NumBanks = 1 + e.cfg.Var%4
		spec.BankPipelineWidth = e.cfg.Width
		spec.BankPipelineDepth = 1 + e.cfg.Var%2
		spec.StageLatency = 1 + e.cfg.Lat
		spec.PostPipelineBufSize = 1 + (e.cfg.Var/2)%2
		comp := simplebankedmemory.MakeBuilder().
			WithRegistrar(e.reg).
			WithSpec(spec).
			WithResources(simplebankedmemory.Resources{Storage: mem.NewStorage(1 * mem.MB)}).
			Build("Agent")
		addr := func(s uint64) uint64 { return memAddr(s, 4096) }
		return &fixture{
			agent:   comp.Name(),
			top:     e.assign(comp, "Top", e.cfg.TopBuf),
			ctrl:    e.assign(comp, "Control", e.cfg.CtlBuf),
			support: memcontrolprotocol.Universal(),
			quiescent: func() (bool, string) {
				for i := range comp.State.Banks {
					b := &comp.State.Banks[i]
					if n := len(b.Pipeline.Stages()); n != 0 {
						return false, fmt.Sprintf("bank %d pipeline holds %d item(s)", i, n)
					}
					if n := b.PostPipelineBuf.Size(); n != 0 {
						return false, fmt.Sprintf("bank %d post-pipeline buffer holds %d item(s)", i, n)
					}
				}
				return true, ""
			},
			ctlState:   func() string { return stateName(comp.State.ControlState) },
			mkData:     memData(e, addr, noPID),
			filterAddr: addr,
		}
	}
}
