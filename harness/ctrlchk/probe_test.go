package ctrlchk

import (
	"encoding/json"
	"fmt"
	"os"
	"sort"
	"testing"
)

// TestXProbe runs one literal case given as JSON in C18_CASE and prints the
// outcome (development aid; skipped otherwise).
func TestXProbe(t *testing.T) {
	js := os.Getenv("C18_CASE")
	if js == "" {
		t.Skip()
	}
	var c c18Case
	if err := json.Unmarshal([]byte(js), &c); err != nil {
		t.Fatal(err)
	}
	out := execC18(c, nil)
	if out.viol != nil {
		fmt.Printf("VIOL %s\n%s\n", out.viol.sig, out.viol.msg)
	} else {
		fmt.Println("OK")
	}
	keys := make([]string, 0)
	for k := range out.cls {
		keys = append(keys, k)
	}
	sort.Strings(keys)
	for _, k := range keys {
		fmt.Printf("  %s=%d\n", k, out.cls[k])
	}
	for k, v := range out.known {
		fmt.Printf("  tolerated %s=%d\n", k, v)
	}
}
