package ctrlchk

import (
	"fmt"

	"github.com/sarchlab/akita/v5/hooking"
	"github.com/sarchlab/akita/v5/mem"
	"github.com/sarchlab/akita/v5/mem/memcontrolprotocol"
	"github.com/sarchlab/akita/v5/mem/vm"
	"github.com/sarchlab/akita/v5/mem/vm/addresstranslator"
	"github.com/sarchlab/akita/v5/mem/vm/gmmu"
	"github.com/sarchlab/akita/v5/mem/vm/mmu"
	"github.com/sarchlab/akita/v5/mem/vm/mmuCache"
	"github.com/sarchlab/akita/v5/mem/vm/tlb"
	"github.com/sarchlab/akita/v5/mem/vm/vmprotocol"
	"github.com/sarchlab/akita/v5/messaging"
)

// Fixtures of the virtual-memory agents: TLB, MMU cache, MMU, GMMU, address
// translator. Lower neighbours are a real MMU (shared page table, drawn walk
// latency) and, for the address translator, a real ideal memory controller.

const (
	log2Page   = 12
	pageSize   = 1 << log2Page
	localDev   = 1
	remoteDev  = 2
	numVMPIDs  = 2
	remoteStep = 3 // GMMU fixture: every third page lives on the remote device
)

// newPageTable maps every (pid 1..2, page 0..poolSlots-1). Translation
// requests are always page aligned (the address translator, the only in-tree
// requester, aligns them; the TLB keys its MSHR by the exact VAddr).
func newPageTable(remote bool) vm.PageTable {
	pt := vm.NewPageTable(log2Page)
	for pid := 1; pid <= numVMPIDs; pid++ {
		for s := 0; s < poolSlots; s++ {
			dev := uint64(localDev)
			if remote && s%remoteStep == 0 {
				dev = remoteDev
			}
			pt.Insert(vm.Page{
				PID: vm.PID(pid), VAddr: uint64(s) << log2Page,
				PAddr:    uint64(pid*16+s) << log2Page,
				PageSize: pageSize, Valid: true, DeviceID: dev,
			})
		}
	}
	return pt
}

func newMMU(e *env, name string, latency, maxInflight int, pt vm.PageTable, topBuf int) *mmu.Comp {
	spec := mmu.DefaultSpec()
	spec.Latency = latency
	spec.MaxRequestsInFlight = maxInflight
	spec.Log2PageSize = log2Page
	comp := mmu.MakeBuilder().
		WithRegistrar(e.reg).
		WithSpec(spec).
		WithResources(mmu.Resources{PageTable: pt}).
		Build(name)
	return comp
}

func transData(e *env) func(st c18Step, idx int) messaging.Msg {
	return func(st c18Step, idx int) messaging.Msg {
		req := vmprotocol.TranslationReq{
			VAddr:    uint64(st.Slot) << log2Page,
			PID:      vm.PID(1 + st.Slot2%numVMPIDs),
			DeviceID: localDev,
		}
		req.MsgMeta = e.drv.meta("vmprotocol.TranslationReq")
		return req
	}
}

func pageAddr(s uint64) uint64 { return s<<log2Page + (s%3)*8 } // filters need not be aligned

func init() {
	// mmu (leaf): Latency = Lat+LowLat (0..17, default 10), MaxRequestsInFlight
	// {1,2,16}.
	fixtureBuilders["mmu"] = func(e *env) *fixture {
		comp := newMMU(e, "Agent", e.cfg.Lat+e.cfg.LowLat, []int{1, 2, 16}[e.cfg.Var%3], newPageTable(false), 0)
		return &fixture{
			agent:   comp.Name(),
			top:     e.assign(comp, "Top", e.cfg.TopBuf),
			ctrl:    e.assign(comp, "Control", e.cfg.CtlBuf),
			support: memcontrolprotocol.Universal(),
			quiescent: func() (bool, string) {
				n := len(comp.State.WalkingTranslations)
				return n == 0, fmt.Sprintf("len(State.WalkingTranslations)=%d", n)
			},
			ctlState:   func() string { return stateName(comp.State.ControlState) },
			mkData:     transData(e),
			filterAddr: pageAddr,
		}
	}

	// tlb over a real MMU. Latency 2..4 (1 would build the single-stage
	// pipeline of the C15 defect), sets {1,2}, ways {1,2,4}, MSHR {1,2,4}.
	fixtureBuilders["tlb"] = func(e *env) *fixture {
		pt := newPageTable(false)
		low := newMMU(e, "Low", e.cfg.LowLat, 16, pt, 0)
		e.assign(low, "Top", 4)
		e.assign(low, "Control", 1)

		spec := tlb.DefaultSpec()
		spec.NumReqPerCycle = e.cfg.Width
		spec.NumSets = 1 + e.cfg.Var%2
		spec.NumWays = []int{1, 2, 4}[e.cfg.Var%3]
		spec.MSHRSize = []int{1, 2, 4}[(e.cfg.Var+e.cfg.Width)%3]
		spec.Latency = 2 + e.cfg.Lat%3
		spec.Log2PageSize = log2Page
		comp := tlb.MakeBuilder().
			WithRegistrar(e.reg).
			WithSpec(spec).
			WithResources(tlb.Resources{
				TranslationProviderMapper: &mem.SinglePortMapper{Port: low.GetPortByName("Top").AsRemote()},
			}).
			Build("Agent")
		fx := &fixture{
			agent:   comp.Name(),
			top:     e.assign(comp, "Top", e.cfg.TopBuf),
			ctrl:    e.assign(comp, "Control", e.cfg.CtlBuf),
			support: memcontrolprotocol.TranslationCacheLike(),
			quiescent: func() (bool, string) {
				st := &comp.State
				if len(st.MSHREntries) != 0 {
					return false, fmt.Sprintf("len(State.MSHREntries)=%d", len(st.MSHREntries))
				}
				if st.HasRespondingMSHR {
					return false, "State.HasRespondingMSHR"
				}
				return true, ""
			},
			ctlState: func() string {
				switch comp.State.TLBState {
				case "enable":
					return "enabled"
				case "pause":
					return "paused"
				}
				return comp.State.TLBState
			},
			mkData:     transData(e),
			filterAddr: pageAddr,
		}
		e.assign(comp, "Bottom", 4)
		return fx
	}

	// mmuCache over a real MMU. NumBlocks {1,2,4}, NumLevels {2,5}.
	fixtureBuilders["mmucache"] = func(e *env) *fixture {
		pt := newPageTable(false)
		low := newMMU(e, "Low", e.cfg.LowLat, 16, pt, 0)
		e.assign(low, "Top", 4)
		e.assign(low, "Control", 1)

		spec := mmuCache.DefaultSpec()
		spec.NumReqPerCycle = e.cfg.Width
		spec.NumBlocks = []int{1, 2, 4}[e.cfg.Var%3]
		spec.NumLevels = []int{2, 5}[(e.cfg.Var/3)%2]
		spec.LatencyPerLevel = uint64(1 + e.cfg.Lat)
		spec.Log2PageSize = log2Page
		comp := mmuCache.MakeBuilder().
			WithRegistrar(e.reg).
			WithSpec(spec).
			WithResources(mmuCache.Resources{
				LowModulePort: low.GetPortByName("Top").AsRemote(),
				UpModulePort:  e.drv.data.AsRemote(),
			}).
			Build("Agent")
		fx := &fixture{
			agent:   comp.Name(),
			top:     e.assign(comp, "Top", e.cfg.TopBuf),
			ctrl:    e.assign(comp, "Control", e.cfg.CtlBuf),
			support: memcontrolprotocol.TranslationCacheLike(),
			quiescent: func() (bool, string) {
				n := len(comp.State.OutstandingBottomReqs)
				return n == 0, fmt.Sprintf("len(State.OutstandingBottomReqs)=%d", n)
			},
			ctlState: func() string {
				switch comp.State.CurrentState {
				case "enable":
					return "enabled"
				case "pause":
					return "paused"
				}
				return comp.State.CurrentState
			},
			mkData:     transData(e),
			filterAddr: pageAddr,
			// The MMU cache copies the RspTo of the *bottom* response (its own
			// forwarded request's ID) into the response it sends up. While the
			// response is being sent State.InflightReqs still maps that ID to
			// the Top request it answers.
			resolveRspTo: func(rspTo uint64) (uint64, bool) {
				if in, ok := comp.State.InflightReqs[rspTo]; ok {
					return in.TopReqID, true
				}
				return 0, false
			},
		}
		e.assign(comp, "Bottom", 4)
		return fx
	}

	// gmmu: local walks answered directly, pages on the remote device are
	// forwarded to a real MMU (LowModule). Latency 0..5, MaxRequestsInFlight
	// {1,2,16}.
	fixtureBuilders["gmmu"] = func(e *env) *fixture {
		pt := newPageTable(true)
		low := newMMU(e, "Low", e.cfg.LowLat, 16, pt, 0)
		e.assign(low, "Top", 4)
		e.assign(low, "Control", 1)

		spec := gmmu.DefaultSpec()
		spec.DeviceID = localDev
		spec.Latency = e.cfg.Lat
		spec.MaxRequestsInFlight = []int{1, 2, 16}[e.cfg.Var%3]
		spec.Log2PageSize = log2Page
		spec.LowModule = low.GetPortByName("Top").AsRemote()
		comp := gmmu.MakeBuilder().
			WithRegistrar(e.reg).
			WithSpec(spec).
			WithResources(gmmu.Resources{PageTable: pt}).
			Build("Agent")
		var lastBottomRsp messaging.MsgMeta
		fx := &fixture{
			agent:   comp.Name(),
			top:     e.assign(comp, "Top", e.cfg.TopBuf),
			ctrl:    e.assign(comp, "Control", e.cfg.CtlBuf),
			support: memcontrolprotocol.Universal(),
			quiescent: func() (bool, string) {
				w, r := len(comp.State.WalkingTranslations), len(comp.State.RemoteMemReqs)
				return w == 0 && r == 0, fmt.Sprintf("len(WalkingTranslations)=%d len(RemoteMemReqs)=%d", w, r)
			},
			ctlState:   func() string { return stateName(comp.State.ControlState) },
			mkData:     transData(e),
			filterAddr: pageAddr,
			// On the remote path the GMMU puts the ID of the bottom *response*
			// into RspTo. The bottom response just retrieved names (in its own
			// RspTo) the forwarded request, which State.RemoteMemReqs still
			// maps to the Top request while the response is being sent.
			resolveRspTo: func(rspTo uint64) (uint64, bool) {
				if rspTo != lastBottomRsp.ID {
					return 0, false
				}
				if tr, ok := comp.State.RemoteMemReqs[lastBottomRsp.RspTo]; ok {
					return tr.ReqID, true
				}
				return 0, false
			},
		}
		bottom := e.assign(comp, "Bottom", 4)
		fx.watch = map[string]messaging.Port{"Bottom": bottom}
		fx.onWatch = func(_ string, pos *hooking.HookPos, msg messaging.Msg) {
			if pos == messaging.HookPosPortMsgRetrieveIncoming {
				lastBottomRsp = msg.Meta()
			}
		}
		return fx
	}

	// addresstranslator: Translation → real MMU, Bottom → real ideal memory
	// controller. NumReqPerCycle = Width.
	fixtureBuilders["addrtrans"] = func(e *env) *fixture {
		pt := newPageTable(false)
		low := newMMU(e, "LowMMU", e.cfg.Lat, []int{2, 16}[e.cfg.Var%2], pt, 0)
		e.assign(low, "Top", 4)
		e.assign(low, "Control", 1)
		lowMem := newIdealMem(e, "LowMem", e.cfg.LowLat, 1+e.cfg.Var%3, mem.NewStorage(1*mem.MB))

		spec := addresstranslator.DefaultSpec()
		spec.Log2PageSize = log2Page
		spec.NumReqPerCycle = e.cfg.Width
		spec.DeviceID = localDev
		comp := addresstranslator.MakeBuilder().
			WithRegistrar(e.reg).
			WithSpec(spec).
			WithResources(addresstranslator.Resources{
				MemProviderMapper:         &mem.SinglePortMapper{Port: lowMem.GetPortByName("Top").AsRemote()},
				TranslationProviderMapper: &mem.SinglePortMapper{Port: low.GetPortByName("Top").AsRemote()},
			}).
			Build("Agent")
		fx := &fixture{
			agent:   comp.Name(),
			top:     e.assign(comp, "Top", e.cfg.TopBuf),
			ctrl:    e.assign(comp, "Control", e.cfg.CtlBuf),
			support: memcontrolprotocol.Universal(),
			quiescent: func() (bool, string) {
				t, b := len(comp.State.Transactions), len(comp.State.InflightReqToBottom)
				return t == 0 && b == 0, fmt.Sprintf("len(Transactions)=%d len(InflightReqToBottom)=%d", t, b)
			},
			ctlState:   func() string { return stateName(comp.State.ControlState) },
			filterAddr: pageAddr,
		}
		fx.mkData = memData(e, func(s uint64) uint64 { return s << log2Page }, slotPID)
		e.assign(comp, "Bottom", 4)
		e.assign(comp, "Translation", 4)
		return fx
	}
}
