package ctrlchk

import (
	"fmt"

	"github.com/sarchlab/akita/v5/mem"
	"github.com/sarchlab/akita/v5/mem/datamover"
	"github.com/sarchlab/akita/v5/mem/datamoverprotocol"
	"github.com/sarchlab/akita/v5/mem/memcontrolprotocol"
	"github.com/sarchlab/akita/v5/mem/rob"
	"github.com/sarchlab/akita/v5/messaging"
)

// Fixtures of the reorder buffer and the data mover, each over real ideal
// memory controllers (wiring as in rob/milestone_test.go and
// datamover/datamoving_test.go).

func init() {
	// rob over an ideal memory controller. BufferSize {2,4,128},
	// NumReqPerCycle = Width.
	fixtureBuilders["rob"] = func(e *env) *fixture {
		lower := newIdealMem(e, "Low", e.cfg.LowLat+e.cfg.Lat, 1+e.cfg.Var%3, mem.NewStorage(1*mem.MB))
		spec := rob.DefaultSpec()
		spec.BufferSize = []int{2, 4, 128}[e.cfg.Var%3]
		spec.NumReqPerCycle = e.cfg.Width
		spec.BottomUnit = lower.GetPortByName("Top").AsRemote()
		comp := rob.MakeBuilder().WithRegistrar(e.reg).WithSpec(spec).Build("Agent")
		addr := func(s uint64) uint64 { return memAddr(s, 4096) }
		fx := &fixture{
			agent:   comp.Name(),
			top:     e.assign(comp, "Top", e.cfg.TopBuf),
			ctrl:    e.assign(comp, "Control", e.cfg.CtlBuf),
			support: memcontrolprotocol.Universal(),
			quiescent: func() (bool, string) {
				n := len(comp.State.Transactions)
				return n == 0, fmt.Sprintf("len(State.Transactions)=%d", n)
			},
			ctlState:   func() string { return stateName(comp.State.ControlState) },
			mkData:     memData(e, addr, noPID),
			filterAddr: addr,
		}
		e.assign(comp, "Bottom", 4)
		return fx
	}

	// datamover between two ideal memory controllers. Granularities 64/64 or
	// 64/256 (datamoving_test.go), BufferSize 2048; a move copies N granules of
	// the source side from slot to slot2; W selects the direction, and one move
	// in five stays on one side.
	fixtureBuilders["datamover"] = func(e *env) *fixture {
		inside := newIdealMem(e, "InsideMem", e.cfg.LowLat, 1+e.cfg.Var%3, mem.NewStorage(1*mem.MB))
		outside := newIdealMem(e, "OutsideMem", e.cfg.Lat, 1+e.cfg.Width%3, mem.NewStorage(1*mem.MB))
		spec := datamover.DefaultSpec()
		spec.BufferSize = 2048
		spec.InsideByteGranularity = 64
		spec.OutsideByteGranularity = []uint64{64, 256}[e.cfg.Var%2]
		comp := datamover.MakeBuilder().
			WithRegistrar(e.reg).
			WithSpec(spec).
			WithResources(datamover.Resources{
				InsideMapper:  &mem.SinglePortMapper{Port: inside.GetPortByName("Top").AsRemote()},
				OutsideMapper: &mem.SinglePortMapper{Port: outside.GetPortByName("Top").AsRemote()},
			}).
			Build("Agent")
		fx := &fixture{
			agent:   comp.Name(),
			top:     e.assign(comp, "Top", e.cfg.TopBuf),
			ctrl:    e.assign(comp, "Control", e.cfg.CtlBuf),
			support: memcontrolprotocol.Universal(),
			quiescent: func() (bool, string) {
				return !comp.State.CurrentTransaction.Active, "State.CurrentTransaction.Active"
			},
			ctlState:   func() string { return stateName(comp.State.ControlState) },
			filterAddr: func(s uint64) uint64 { return s * 1024 },
		}
		gran := func(side datamoverprotocol.DataMovePort) uint64 {
			if side == "inside" {
				return spec.InsideByteGranularity
			}
			return spec.OutsideByteGranularity
		}
		fx.mkData = func(st c18Step, idx int) messaging.Msg {
			src, dst := datamoverprotocol.DataMovePort("outside"), datamoverprotocol.DataMovePort("inside")
			if st.W {
				src, dst = dst, src
			}
			if idx%5 == 4 {
				dst = src
			}
			// slots are 1 KiB apart: aligned to both granularities, and the
			// size is a multiple of both (all in-tree moves are).
			unit := max(gran(src), gran(dst))
			req := datamoverprotocol.DataMoveRequest{
				SrcAddress: uint64(st.Slot) * 1024,
				DstAddress: uint64(st.Slot2)*1024 + 16*1024,
				ByteSize:   unit * uint64(st.N),
				SrcSide:    src,
				DstSide:    dst,
			}
			req.MsgMeta = e.drv.meta("datamoverprotocol.DataMoveRequest")
			return req
		}
		e.assign(comp, "Inside", 8)
		e.assign(comp, "Outside", 8)
		return fx
	}
}
