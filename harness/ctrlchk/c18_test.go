// Package ctrlchk decides property C18: every memory agent follows the uniform
// control protocol (mem/CONTROL_PROTOCOL.md) under generated histories of
// control verbs interleaved with live data traffic.
//
// Layout: this file holds the case type, the generator, the scripted driver,
// the observer/oracle and the test functions; fix_*_test.go hold one fixture
// builder per agent family.
package ctrlchk

import (
	"fmt"
	"os"
	"sort"
	"strings"
	"testing"

	"github.com/sarchlab/akita/v5/hooking"
	"github.com/sarchlab/akita/v5/mem/memcontrolprotocol"
	"github.com/sarchlab/akita/v5/mem/vm"
	"github.com/sarchlab/akita/v5/messaging"
	"github.com/sarchlab/akita/v5/modeling"
	"github.com/sarchlab/akita/v5/noc/directconnection"
	"github.com/sarchlab/akita/v5/timing"
	"pgregory.net/rapid"

	"verif/harness/kit"
)

// ---------------------------------------------------------------------------
// Case (plain data)
// ---------------------------------------------------------------------------

// c18Step is one scripted action of the driver.
//
//	K="ctl":   send control verb Verb (filters Addrs/PID) on the Control link
//	K="dat":   send one data request on the Top link (meaning of W/Slot/Slot2/N
//	           is per agent: read/write of N bytes at pool slot, translation of
//	           page Slot under PID, or a data move Slot→Slot2 of N granules)
//	K="gap":   nothing (only the Gap counts)
//	K="stall": the driver stops draining responses from link Verb (0 data,
//	           1 control, 2 both) for N cycles (back-pressure on the agent)
//
// Gap is the number of cycles after the previous step (0 = same cycle).
type c18Step struct {
	K     string   `json:"k"`
	Gap   int      `json:"gap,omitempty"`
	Verb  int      `json:"verb,omitempty"`
	Addrs []uint64 `json:"addrs,omitempty"`
	PID   uint32   `json:"pid,omitempty"`
	W     bool     `json:"w,omitempty"`
	Slot  int      `json:"slot,omitempty"`
	Slot2 int      `json:"slot2,omitempty"`
	N     int      `json:"n,omitempty"`
}

// c18Cfg are the drawn knobs of a fixture. Every fixture documents how it maps
// them onto the agent's Spec (always inside the ranges the repository's own
// tests use, see the evidence rule).
type c18Cfg struct {
	Lat    int `json:"lat"`     // agent-internal latency knob, 0..5
	LowLat int `json:"low_lat"` // latency of the lower neighbour(s), 0..12
	Width  int `json:"width"`   // requests per cycle, 1..4
	TopBuf int `json:"top_buf"` // agent Top port buffer, 1..8
	CtlBuf int `json:"ctl_buf"` // agent Control port buffer, 1..4
	Var    int `json:"var"`     // variant selector 0..5 (policy / geometry)
}

type c18Case struct {
	Agent string    `json:"agent"`
	Cfg   c18Cfg    `json:"cfg"`
	Steps []c18Step `json:"steps"`
}

var c18Agents = []string{
	"idealmem", "dram", "sbm", "writeback", "writethrough", "tlb",
	"mmucache", "mmu", "gmmu", "addrtrans", "rob", "datamover",
}

var verbName = map[int]string{0: "pause", 1: "drain", 2: "enable", 3: "reset", 4: "invalidate", 5: "flush"}

const (
	vPause = iota
	vDrain
	vEnable
	vReset
	vInvalidate
	vFlush
)

// ---------------------------------------------------------------------------
// Generator
// ---------------------------------------------------------------------------

const poolSlots = 12 // data address / page pool size (small on purpose)

func genC18(rt *rapid.T, agents []string) c18Case {
	c := c18Case{}
	// rapid's index/int generators favour small values (SampledFrom gave the
	// first agents 3x the cases of the last); hashing a drawn word spreads the
	// choice evenly while staying a pure function of the drawn bits.
	h := uint64(0)
	for i := 0; i < 4; i++ {
		h = mix64(h ^ rapid.Uint64().Draw(rt, "agent#"))
	}
	c.Agent = agents[h%uint64(len(agents))]
	c.Cfg = c18Cfg{
		Lat:    rapid.IntRange(0, 5).Draw(rt, "lat"),
		LowLat: rapid.IntRange(0, 12).Draw(rt, "lowlat"),
		Width:  rapid.IntRange(1, 4).Draw(rt, "width"),
		TopBuf: rapid.SampledFrom([]int{1, 2, 4, 8}).Draw(rt, "topbuf"),
		CtlBuf: rapid.SampledFrom([]int{1, 2, 4}).Draw(rt, "ctlbuf"),
		Var:    rapid.IntRange(0, 5).Draw(rt, "var"),
	}
	n := rapid.IntRange(5, 60).Draw(rt, "nsteps")
	// A per-case bias keeps some histories traffic-heavy and some verb-heavy.
	ctlW := rapid.IntRange(15, 55).Draw(rt, "ctlw")
	for i := 0; i < n; i++ {
		st := c18Step{}
		switch g := rapid.IntRange(0, 9).Draw(rt, "gapc"); {
		case g <= 3:
			st.Gap = 0
		case g <= 6:
			st.Gap = rapid.IntRange(1, 4).Draw(rt, "gap")
		case g <= 8:
			st.Gap = rapid.IntRange(5, 25).Draw(rt, "gap")
		default:
			st.Gap = rapid.IntRange(26, 120).Draw(rt, "gap")
		}
		r := rapid.IntRange(0, 99).Draw(rt, "kind")
		switch {
		case r < ctlW:
			st.K = "ctl"
			st.Verb = rapid.SampledFrom([]int{
				vPause, vPause, vPause, vDrain, vDrain, vDrain, vDrain,
				vEnable, vEnable, vEnable, vEnable, vReset, vReset,
				vInvalidate, vInvalidate, vFlush, vFlush,
			}).Draw(rt, "verb")
			if st.Verb == vInvalidate || st.Verb == vFlush {
				k := rapid.IntRange(0, 3).Draw(rt, "nfilter")
				for j := 0; j < k; j++ {
					st.Addrs = append(st.Addrs, uint64(rapid.IntRange(0, poolSlots-1).Draw(rt, "fslot")))
				}
				st.PID = uint32(rapid.IntRange(0, 2).Draw(rt, "fpid"))
			}
		case r < 92:
			st.K = "dat"
			st.W = rapid.Bool().Draw(rt, "w")
			st.Slot = rapid.IntRange(0, poolSlots-1).Draw(rt, "slot")
			st.Slot2 = rapid.IntRange(0, poolSlots-1).Draw(rt, "slot2")
			st.N = rapid.IntRange(1, 4).Draw(rt, "n")
		case r < 96:
			st.K = "stall"
			st.Verb = rapid.IntRange(0, 2).Draw(rt, "which")
			st.N = rapid.IntRange(1, 30).Draw(rt, "ncyc")
		default:
			st.K = "gap"
		}
		c.Steps = append(c.Steps, st)
	}
	return c
}

func mix64(x uint64) uint64 { // splitmix64 finalizer
	x += 0x9e3779b97f4a7c15
	x = (x ^ (x >> 30)) * 0xbf58476d1ce4e5b9
	x = (x ^ (x >> 27)) * 0x94d049bb133111eb
	return x ^ (x >> 31)
}

// ---------------------------------------------------------------------------
// Fixture
// ---------------------------------------------------------------------------

// env is what a fixture builder gets: the engine, one direct connection, a
// registrar and the driver's ports (so the agent can be told who is above).
type env struct {
	engine *timing.SerialEngine
	reg    modeling.Registrar
	conn   *directconnection.Comp
	drv    *driver
	cfg    c18Cfg
}

func (e *env) port(comp messaging.Component, name string, buf int) messaging.Port {
	if buf < 1 {
		buf = 1
	}
	return messaging.NewPort(comp, buf, buf, comp.Name()+"."+name)
}

// assign creates a port, assigns it to the declared slot and plugs it in.
func (e *env) assign(comp messaging.Component, name string, buf int) messaging.Port {
	p := e.port(comp, name, buf)
	comp.AssignPort(name, p)
	e.conn.PlugIn(p)
	return p
}

// fixture is the agent under test plus everything the oracle needs to know.
type fixture struct {
	agent   string // handler name of the agent (engine event HandlerID)
	top     messaging.Port
	ctrl    messaging.Port
	support memcontrolprotocol.VerbSupport
	// quiescent evaluates the document's per-agent quiescence condition on the
	// exported State; why names the part that is not quiescent.
	quiescent func() (ok bool, why string)
	// ctlState maps the exported control state to "enabled"/"paused"/other.
	ctlState func() string
	// mkData turns a "dat" step into a request message (ID/Src/Dst are filled
	// by the driver).
	mkData func(st c18Step, idx int) messaging.Msg
	// filterAddr maps a pool slot in an Invalidate/Flush filter to an address.
	filterAddr func(slot uint64) uint64
	// resolveRspTo lets a fixture translate the RspTo of a Top response into
	// the request ID it really answers when the agent is known to put another
	// ID there (C25 candidates). It is consulted only when RspTo matches no
	// request of the driver. Called from inside the Top Send hook.
	resolveRspTo func(rspTo uint64) (uint64, bool)
	// extra ports the observer should watch (name → port), e.g. Bottom.
	watch map[string]messaging.Port
	// onWatch is called for hooks on watched ports.
	onWatch func(port string, pos *hooking.HookPos, msg messaging.Msg)
}

type fixtureBuilder func(e *env) *fixture

var fixtureBuilders = map[string]fixtureBuilder{}

// ---------------------------------------------------------------------------
// Driver: the Top-side and Control-side requester (one component, two ports)
// ---------------------------------------------------------------------------

type driver struct {
	*modeling.TickingComponent
	data, ctl messaging.Port
	fx        *fixture
	ob        *observer

	steps   []c18Step
	next    int
	wait    int
	cycle   int
	stallTo [2]int // cycle until which link i is not drained
	sendErr string
}

func newDriver(engine *timing.SerialEngine, nsteps int) *driver {
	d := &driver{}
	d.TickingComponent = modeling.NewTickingComponent("Drv", engine, 1*timing.GHz, d)
	// Outgoing buffers hold the whole script so the driver itself never
	// blocks: requests and verbs queue towards the agent in order, exactly the
	// "issue before the previous ack" pattern the document declares safe.
	d.data = messaging.NewPort(d, 4, nsteps+8, "Drv.Data")
	d.ctl = messaging.NewPort(d, 4, nsteps+8, "Drv.Ctl")
	d.DeclarePort("Data")
	d.DeclarePort("Ctl")
	d.AssignPort("Data", d.data)
	d.AssignPort("Ctl", d.ctl)
	return d
}

func (d *driver) Tick() bool {
	progress := false
	d.cycle++
	if d.cycle > d.stallTo[0] {
		for m := d.data.RetrieveIncoming(); m != nil; m = d.data.RetrieveIncoming() {
			progress = true
		}
	}
	if d.cycle > d.stallTo[1] {
		for m := d.ctl.RetrieveIncoming(); m != nil; m = d.ctl.RetrieveIncoming() {
			progress = true
		}
	}
	if d.cycle <= d.stallTo[0] || d.cycle <= d.stallTo[1] {
		progress = true // keep ticking until the stall expires
	}
	for d.next < len(d.steps) {
		progress = true
		if d.wait > 0 {
			d.wait--
			break
		}
		d.issue(d.next)
		d.next++
		if d.next < len(d.steps) {
			d.wait = d.steps[d.next].Gap
		}
	}
	return progress
}

func (d *driver) issue(i int) {
	st := d.steps[i]
	switch st.K {
	case "ctl":
		req := memcontrolprotocol.Req{Command: memcontrolprotocol.Command(st.Verb), PID: vm.PID(st.PID)}
		for _, s := range st.Addrs {
			req.Addresses = append(req.Addresses, d.fx.filterAddr(s))
		}
		req.ID = timing.GetIDGenerator().Generate()
		req.Src = d.ctl.AsRemote()
		req.Dst = d.fx.ctrl.AsRemote()
		req.TrafficClass = "memcontrolprotocol.Req"
		if !d.ctl.CanSend() { // cannot happen: buffer holds the whole script
			d.sendErr = "driver control buffer full"
			return
		}
		d.ob.ctlIssued(req, i)
		d.ctl.Send(req)
	case "dat":
		msg := d.fx.mkData(st, i)
		if msg == nil {
			return
		}
		if !d.data.CanSend() {
			d.sendErr = "driver data buffer full"
			return
		}
		d.ob.dataIssued(msg, i)
		d.data.Send(msg)
	case "stall":
		until := d.cycle + st.N
		if st.Verb == 0 || st.Verb == 2 {
			d.stallTo[0] = max(d.stallTo[0], until)
		}
		if st.Verb == 1 || st.Verb == 2 {
			d.stallTo[1] = max(d.stallTo[1], until)
		}
	}
}

// fill sets the routing fields of a data request.
func (d *driver) meta(class string) messaging.MsgMeta {
	return messaging.MsgMeta{
		ID:           timing.GetIDGenerator().Generate(),
		Src:          d.data.AsRemote(),
		Dst:          d.fx.top.AsRemote(),
		TrafficClass: class,
	}
}

// ---------------------------------------------------------------------------
// Observer / oracle. Everything is judged from hooks on the agent's own ports
// (total order inside the serial engine) plus the exported State.
// ---------------------------------------------------------------------------

const (
	rSent = iota
	rDelivered
	rAccepted
	rAnswered
	rDead      // accepted / queued before a Reset: must never be answered
	rAmbiguous // retrieved in a Reset tick after the handler finished
)

type reqInfo struct {
	id          uint64
	step        int
	state       int
	duringPause bool
}

type ctlInfo struct {
	id        uint64
	step      int
	verb      int
	delivered bool
	retrieved bool
	acked     bool
	landed    bool
	inflight  int // accepted-unanswered data requests when the verb landed
}

type violation struct{ sig, msg string }

type suspect struct {
	r    *reqInfo
	what string
}

type stateCheck struct {
	c         *ctlInfo
	cancelled bool
}

type observer struct {
	fx   *fixture
	seq  int
	viol *violation

	ctl     []*ctlInfo
	ctlByID map[uint64]*ctlInfo
	nextAck int
	nextRet int

	data        map[uint64]*reqInfo
	outstanding map[uint64]*reqInfo // accepted, not answered, not dead

	modelPaused bool
	window      bool     // paused window open
	async       *ctlInfo // Drain/Flush dequeued and not yet acknowledged
	resetBusy   *ctlInfo // first hook of a Reset seen, second not yet
	resetTick   bool     // a Reset handler completed in the current agent tick
	check       *stateCheck
	// Top requests retrieved in the current tick while the agent was
	// acknowledged paused / had a Drain pending. Legitimate only as part of a
	// Reset handler (some handlers drain Top before the first Reset hook), so
	// they are judged at the end of the tick.
	suspects []suspect
	tickAcc  int // requests moved to `outstanding` during the current agent tick

	events int
	budget int

	// tolerate reports whether a clause signature is a listed known finding
	// that the oracle can step over (count it and keep judging the rest).
	tolerate func(sig string) bool
	known    map[string]int

	// what happened (non-triviality, classes)
	cls map[string]int
}

func newObserver(fx *fixture) *observer {
	return &observer{
		fx: fx, ctlByID: map[uint64]*ctlInfo{}, data: map[uint64]*reqInfo{},
		outstanding: map[uint64]*reqInfo{}, cls: map[string]int{}, budget: 3_000_000,
	}
}

// soft reports a violation of a clause the oracle can continue behind. It
// returns true when the caller should stop processing (unlisted: a verdict).
func (o *observer) soft(sig, format string, a ...any) bool {
	if o.tolerate != nil && o.tolerate(sig) {
		if o.known == nil {
			o.known = map[string]int{}
		}
		o.known[sig]++
		return false
	}
	o.fail(sig, format, a...)
	return true
}

func (o *observer) fail(sig, format string, a ...any) {
	if o.viol == nil {
		o.viol = &violation{sig: sig, msg: fmt.Sprintf(format, a...)}
	}
}

func (o *observer) ctlIssued(req memcontrolprotocol.Req, step int) {
	c := &ctlInfo{id: req.ID, step: step, verb: int(req.Command)}
	o.ctl = append(o.ctl, c)
	o.ctlByID[req.ID] = c
}

func (o *observer) dataIssued(msg messaging.Msg, step int) {
	id := msg.Meta().ID
	o.data[id] = &reqInfo{id: id, step: step}
}

// a distinct hook value per AcceptHook call (the library rejects duplicates by
// equality, funcs are not comparable, so wrap in a pointer).
type hookBox struct{ f func(ctx hooking.HookCtx) }

func (h *hookBox) Func(ctx hooking.HookCtx) { h.f(ctx) }

type livelock struct{ events int }

func (o *observer) attach(engine *timing.SerialEngine) {
	o.fx.ctrl.AcceptHook(&hookBox{o.onCtrlPort})
	o.fx.top.AcceptHook(&hookBox{o.onTopPort})
	names := make([]string, 0, len(o.fx.watch))
	for n := range o.fx.watch {
		names = append(names, n)
	}
	sort.Strings(names)
	for _, n := range names {
		n := n
		o.fx.watch[n].AcceptHook(&hookBox{func(ctx hooking.HookCtx) {
			if m, ok := ctx.Item.(messaging.Msg); ok && o.fx.onWatch != nil {
				o.fx.onWatch(n, ctx.Pos, m)
			}
		}})
	}
	engine.AcceptHook(&hookBox{func(ctx hooking.HookCtx) {
		evt, _ := ctx.Item.(timing.Event)
		switch ctx.Pos {
		case timing.HookPosBeforeEvent:
			o.events++
			if o.events > o.budget {
				panic(livelock{o.events})
			}
		case timing.HookPosAfterEvent:
			if evt != nil && evt.HandlerID() == o.fx.agent {
				o.afterAgentTick()
			}
		}
	}})
}

func (o *observer) land(c *ctlInfo) {
	if c.landed {
		return
	}
	c.landed = true
	// Control runs before the data path inside a tick, so anything taken from
	// Top earlier in this same tick was taken by this verb's own handler (a
	// Reset draining the port), not accepted as work.
	c.inflight = len(o.outstanding) - o.tickAcc
}

func (o *observer) killOutstanding() {
	o.suspects = nil // retrieved by (or just before) a Reset handler: wiped, not accepted
	for id, r := range o.outstanding {
		r.state = rDead
		delete(o.outstanding, id)
	}
}

// closesWindow: dequeuing one of these ends a paused window (the agent is
// about to run again, or to finish in-flight work on request).
func (o *observer) closesWindow(verb int) bool {
	switch verb {
	case vEnable, vReset, vDrain:
		return true
	case vFlush:
		return o.fx.support.Flush
	}
	return false
}

func (o *observer) onCtrlPort(ctx hooking.HookCtx) {
	o.seq++
	switch ctx.Pos {
	case messaging.HookPosPortMsgRecvd:
		req, ok := ctx.Item.(memcontrolprotocol.Req)
		if !ok {
			return
		}
		if c := o.ctlByID[req.ID]; c != nil {
			c.delivered = true
			if o.async != nil {
				o.cls["verb-arrived-while-"+verbName[o.async.verb]+"-pending"]++
			}
		}
	case messaging.HookPosPortMsgRetrieveIncoming:
		req, ok := ctx.Item.(memcontrolprotocol.Req)
		if !ok {
			return
		}
		c := o.ctlByID[req.ID]
		if c == nil {
			return
		}
		if c.retrieved {
			o.fail("ctl-req-dequeued-twice", "control request step %d dequeued twice", c.step)
			return
		}
		if o.nextRet >= len(o.ctl) || o.ctl[o.nextRet] != c {
			o.fail("ctl-req-dequeued-out-of-order", "control request of step %d dequeued out of order", c.step)
			return
		}
		o.nextRet++
		c.retrieved = true
		o.land(c)
		if o.check != nil && o.check.c != c {
			o.check.cancelled = true // a later command ran in the same tick
		}
		if !c.acked && o.closesWindow(c.verb) {
			o.window = false
		}
		if c.verb == vReset {
			o.killOutstanding()
			if o.resetBusy == c {
				o.resetBusy, o.resetTick = nil, true
			} else {
				o.resetBusy = c
			}
		}
		if !c.acked && (c.verb == vDrain || c.verb == vFlush) {
			o.async = c
		}
	case messaging.HookPosPortMsgSend:
		rsp, ok := ctx.Item.(memcontrolprotocol.Rsp)
		if !ok {
			o.fail("ctl-port-foreign-msg", "agent sent %T on its Control port", ctx.Item)
			return
		}
		o.onAck(rsp)
	}
}

func (o *observer) onAck(rsp memcontrolprotocol.Rsp) {
	c := o.ctlByID[rsp.RspTo]
	if c == nil {
		o.fail("ctl-rsp-unknown-rspto", "control response %s (RspTo=%d) answers no request of the driver", rspText(rsp), rsp.RspTo)
		return
	}
	if c.acked {
		o.fail("ctl-rsp-duplicate:"+verbName[c.verb], "second response to control request of step %d", c.step)
		return
	}
	if o.nextAck >= len(o.ctl) || o.ctl[o.nextAck] != c {
		want := -1
		if o.nextAck < len(o.ctl) {
			want = o.ctl[o.nextAck].step
		}
		o.fail("ctl-rsp-out-of-order", "response to step %d (%s) sent before response to step %d", c.step, verbName[c.verb], want)
		return
	}
	o.nextAck++
	c.acked = true
	if int(rsp.Command) != c.verb {
		o.fail("ctl-rsp-wrong-command:"+verbName[c.verb], "response to step %d carries command %d, request was %d", c.step, rsp.Command, c.verb)
		return
	}
	o.land(c)
	if o.async == c {
		o.async = nil
	}

	// expected outcome: a pure function of the verb sequence
	supported := o.fx.support.Supports(memcontrolprotocol.Command(c.verb))
	switch {
	case !supported:
		if rsp.Success || rsp.Error != memcontrolprotocol.ErrUnsupported {
			o.fail("unsupported-verb-not-refused:"+verbName[c.verb], "step %d: unsupported %s answered %s", c.step, verbName[c.verb], rspText(rsp))
			return
		}
		o.cls["refused-unsupported"]++
	case (c.verb == vInvalidate || c.verb == vFlush) && !o.modelPaused:
		if rsp.Success || rsp.Error != memcontrolprotocol.ErrMustBePausedOrDrained {
			o.fail("illegal-"+verbName[c.verb]+"-while-enabled-not-refused", "step %d: %s while enabled answered %s", c.step, verbName[c.verb], rspText(rsp))
			return
		}
		o.cls["refused-illegal"]++
	default:
		if !rsp.Success {
			o.fail("legal-verb-failed:"+verbName[c.verb], "step %d: %s answered %s", c.step, verbName[c.verb], rspText(rsp))
			return
		}
		if c.verb == vInvalidate || c.verb == vFlush {
			o.cls[verbName[c.verb]+"-accepted-while-paused"]++
		}
	}

	if supported {
		switch c.verb {
		case vPause, vDrain:
			o.modelPaused = true
		case vEnable, vReset:
			o.modelPaused = false
		}
	}
	o.window = o.modelPaused

	switch c.verb {
	case vReset:
		o.killOutstanding()
		if o.resetBusy == c {
			o.resetBusy, o.resetTick = nil, true
		} else {
			o.resetBusy = c
		}
	case vDrain:
		if len(o.outstanding) != 0 {
			if o.soft("drain-ack:accepted-request-unanswered", "step %d: Drain acknowledged while %d accepted request(s) are unanswered (steps %v)", c.step, len(o.outstanding), o.outstandingSteps()) {
				return
			}
		}
		for _, x := range o.ctl {
			if x.delivered && !x.retrieved {
				o.cls["verb-queued-behind-drain"]++
				if c.inflight > 0 {
					o.cls["verb-queued-behind-drain-with-inflight"]++
				}
				break
			}
		}
	}
	if supported {
		o.check = &stateCheck{c: c}
	}
	if c.inflight > 0 && (c.verb == vPause || c.verb == vDrain || c.verb == vReset) {
		o.cls[verbName[c.verb]+"-with-inflight"]++
	}
}

func rspText(r memcontrolprotocol.Rsp) string {
	return fmt.Sprintf("{Command:%d Success:%v Error:%q}", r.Command, r.Success, r.Error)
}

func (o *observer) outstandingSteps() []int {
	var s []int
	for _, r := range o.outstanding {
		s = append(s, r.step)
	}
	sort.Ints(s)
	return s
}

// afterAgentTick runs the exported-State clauses once the tick that sent an
// acknowledgement is over (several agents send the ack first and update the
// state a few lines later).
func (o *observer) afterAgentTick() {
	o.resetTick = false
	o.tickAcc = 0
	if len(o.suspects) > 0 && o.viol == nil {
		x := o.suspects[0]
		o.soft("accepted-new-traffic-while-"+x.what, "the request of step %d was taken from the Top port while the agent was %s (no Reset in that tick)", x.r.step, x.what)
	}
	o.suspects = nil
	if o.resetBusy != nil {
		// only one of {ack, dequeue} happened for a Reset inside one tick
		o.fail("reset-not-synchronous", "Reset of step %d was dequeued and acknowledged in different ticks", o.resetBusy.step)
		o.resetBusy = nil
	}
	ck := o.check
	o.check = nil
	if ck == nil || o.viol != nil {
		return
	}
	if ck.cancelled {
		o.cls["state-check-skipped(next-verb-same-tick)"]++
		return
	}
	v := verbName[ck.c.verb]
	st := o.fx.ctlState()
	switch ck.c.verb {
	case vPause, vDrain:
		if st != "paused" {
			o.fail(v+"-ack:state-not-paused", "step %d: after the %s acknowledgement the exported control state is %q", ck.c.step, v, st)
			return
		}
	case vEnable, vReset:
		if st != "enabled" {
			o.fail(v+"-ack:state-not-enabled", "step %d: after the %s acknowledgement the exported control state is %q", ck.c.step, v, st)
			return
		}
	case vInvalidate, vFlush:
		if o.modelPaused && st != "paused" {
			o.fail(v+"-ack:state-not-paused", "step %d: after the %s acknowledgement the exported control state is %q", ck.c.step, v, st)
			return
		}
	}
	if ck.c.verb == vDrain || ck.c.verb == vReset {
		if ok, why := o.fx.quiescent(); !ok {
			o.fail(v+"-ack:not-quiescent", "step %d: after the %s acknowledgement the agent is not quiescent: %s", ck.c.step, v, why)
			return
		}
		o.cls[v+"-ack-state-checked"]++
	}
}

func (o *observer) onTopPort(ctx hooking.HookCtx) {
	o.seq++
	msg, ok := ctx.Item.(messaging.Msg)
	if !ok {
		return
	}
	switch ctx.Pos {
	case messaging.HookPosPortMsgRecvd:
		if r := o.data[msg.Meta().ID]; r != nil && r.state == rSent {
			r.state = rDelivered
			if o.window {
				r.duringPause = true
				o.cls["traffic-arrived-during-pause"]++
			}
		}
	case messaging.HookPosPortMsgRetrieveIncoming:
		r := o.data[msg.Meta().ID]
		if r == nil {
			return
		}
		switch {
		case o.resetBusy != nil:
			r.state = rDead
		case o.resetTick:
			r.state = rAmbiguous
			o.cls["retrieved-after-reset-same-tick"]++
			if o.check != nil && o.check.c.verb == vReset {
				o.check.cancelled = true
			}
		default:
			r.state = rAccepted
			o.outstanding[r.id] = r
			o.tickAcc++
			switch {
			case o.window:
				o.suspects = append(o.suspects, suspect{r, "paused"})
			case o.async != nil && o.async.verb == vDrain:
				o.suspects = append(o.suspects, suspect{r, "draining"})
			}
		}
	case messaging.HookPosPortMsgSend:
		rspTo := msg.Meta().RspTo
		r := o.data[rspTo]
		if r == nil && o.fx.resolveRspTo != nil {
			if id, ok := o.fx.resolveRspTo(rspTo); ok {
				if r = o.data[id]; r != nil {
					if o.soft("data-rsp-carries-foreign-rspto", "Top response %T to the request of step %d carries RspTo=%d, the request's ID is %d", msg, r.step, rspTo, id) {
						return
					}
				}
			}
		}
		if r == nil {
			o.fail("data-rsp-unknown-rspto", "Top response %T RspTo=%d answers no request of the driver", msg, rspTo)
			return
		}
		switch r.state {
		case rAnswered:
			o.fail("data-rsp-duplicate", "request of step %d answered twice", r.step)
			return
		case rDead:
			o.fail("reset:response-to-pre-reset-request", "request of step %d was wiped by a Reset but is answered afterwards", r.step)
			return
		case rSent, rDelivered:
			o.cls["answered-before-retrieve(noted)"]++
		}
		delete(o.outstanding, r.id)
		r.state = rAnswered
		if o.window {
			o.fail("data-rsp-in-paused-window", "response to step %d left Top while the agent is acknowledged paused", r.step)
			return
		}
		if r.duringPause {
			o.cls["served-after-arriving-during-pause"]++
		}
	}
}

// ---------------------------------------------------------------------------
// Execution
// ---------------------------------------------------------------------------

type outcome struct {
	viol    *violation
	cls     map[string]int
	known   map[string]int
	nontriv bool
}

// execC18 runs one case. tolerate (may be nil) tells which agent-qualified
// clause signatures are listed findings the oracle may step over.
func execC18(c c18Case, tolerate func(sig string) bool) (out outcome) {
	timing.ResetIDGenerator()
	engine := timing.NewSerialEngine()
	reg := modeling.NewStandaloneRegistrar(engine)
	conn := directconnection.MakeBuilder().WithRegistrar(reg).Build("Conn")
	drv := newDriver(engine, len(c.Steps)+1)
	conn.PlugIn(drv.data)
	conn.PlugIn(drv.ctl)
	e := &env{engine: engine, reg: reg, conn: conn, drv: drv, cfg: c.Cfg}

	build := fixtureBuilders[c.Agent]
	if build == nil {
		return outcome{viol: &violation{"harness:no-fixture", "no fixture for " + c.Agent}}
	}
	var fx *fixture
	if ok, sig, msg := kit.Guard(func() { fx = build(e) }); !ok {
		return outcome{viol: &violation{"harness:build-" + sig, msg}}
	}
	ob := newObserver(fx)
	if tolerate != nil {
		ob.tolerate = func(sig string) bool { return tolerate(c.Agent + ":" + sig) }
	}
	drv.fx, drv.ob = fx, ob
	drv.steps = append([]c18Step(nil), c.Steps...)
	if len(drv.steps) > 0 {
		drv.wait = drv.steps[0].Gap
	}
	ob.attach(engine)

	run := func(phase string) bool {
		var ll *livelock
		ok, sig, msg := kit.Guard(func() {
			defer func() {
				if r := recover(); r != nil {
					if l, isLL := r.(livelock); isLL {
						ll = &l
						return
					}
					panic(r)
				}
			}()
			drv.TickLater()
			_ = engine.Run()
		})
		if ob.viol != nil {
			return false
		}
		if ll != nil {
			ob.fail("no-quiescence:event-budget", "%s: the engine is still busy after %d events", phase, ll.events)
			return false
		}
		if !ok {
			// The frame of a crash that follows a Reset over in-flight work
			// varies with the history; the input class names it better.
			if ob.cls["reset-with-inflight"] > 0 {
				sig = "panic-after-reset-with-inflight"
			}
			ob.fail(sig, "%s: %s", phase, stablePanic(msg))
			return false
		}
		if drv.sendErr != "" {
			ob.fail("harness:"+drv.sendErr, "%s", drv.sendErr)
			return false
		}
		return true
	}

	finish := func() outcome {
		o := outcome{viol: ob.viol, cls: ob.cls, known: ob.known}
		if o.viol != nil {
			o.viol.sig = c.Agent + ":" + o.viol.sig
		}
		for _, k := range []string{"pause-with-inflight", "drain-with-inflight", "reset-with-inflight",
			"verb-queued-behind-drain", "traffic-arrived-during-pause"} {
			if ob.cls[k] > 0 {
				o.nontriv = true
			}
		}
		return o
	}

	if !run("history") {
		return finish()
	}
	for _, x := range ob.ctl {
		if !x.acked {
			ob.fail("ctl-req-unanswered:"+verbName[x.verb], "Run returned (empty event queue) but the %s of step %d was never answered (dequeued=%v)", verbName[x.verb], x.step, x.retrieved)
			return finish()
		}
	}
	// Epilogue: one closing Enable, then every live request must be served.
	drv.steps = append(drv.steps, c18Step{K: "ctl", Verb: vEnable})
	drv.wait = 0
	if !run("epilogue") {
		return finish()
	}
	last := ob.ctl[len(ob.ctl)-1]
	if !last.acked {
		ob.fail("ctl-req-unanswered:enable", "closing Enable never answered")
		return finish()
	}
	var lost, lostPause []int
	for _, r := range ob.data {
		switch r.state {
		case rAnswered, rDead, rAmbiguous:
		default:
			if r.duringPause {
				lostPause = append(lostPause, r.step)
			} else {
				lost = append(lost, r.step)
			}
		}
	}
	sort.Ints(lost)
	sort.Ints(lostPause)
	if len(lostPause) > 0 {
		ob.fail("request-arrived-during-pause-never-served", "after the closing Enable and Run the requests of steps %v (delivered while paused, no Reset after) are unanswered", lostPause)
	} else if len(lost) > 0 {
		ob.fail("request-never-served", "after the closing Enable and Run the requests of steps %v are unanswered (not wiped by any Reset)", lost)
	}
	return finish()
}

// stablePanic reduces a recovered panic + stack to text that is identical on
// every run of the same case (no goroutine numbers, no pointer values): rapid
// only shrinks failures whose message reproduces exactly.
func stablePanic(msg string) string {
	lines := strings.Split(msg, "\n")
	out := []string{lines[0]}
	for _, l := range lines[1:] {
		l = strings.TrimSpace(l)
		if !strings.HasPrefix(l, "github.com/sarchlab/akita/v5/") {
			continue
		}
		if i := strings.LastIndex(l, "("); i > 0 {
			l = l[:i]
		}
		out = append(out, "  at "+strings.TrimPrefix(l, "github.com/sarchlab/akita/v5/"))
		if len(out) > 8 {
			break
		}
	}
	return strings.Join(out, "\n")
}

// ---------------------------------------------------------------------------
// Tests
// ---------------------------------------------------------------------------

const c18Rule = "agent drawn uniformly from the 12 memory agents; fixture = agent + scripted Top/Control requester + real lower neighbours " +
	"(ideal memory controller / MMU with drawn latency) on a serial engine with one direct connection; knobs: internal latency 0..5 (TLB >= 2), " +
	"lower latency 0..12, width 1..4, Top buffer {1,2,4,8}, Control buffer {1,2,4}, variant 0..5; history 5..60 steps of " +
	"{control verb with filters, data request over a 12-slot pool, idle gap 0..120 cycles, response-drain stall}; verbs are issued without waiting for acks. " +
	"Oracle from hooks on the agent's own ports and its exported State (CONTROL_PROTOCOL.md): one in-order response per verb with its Command/RspTo and the Success/Error the verb sequence dictates; " +
	"no Top response and no Top intake inside a paused window (Pause/Drain/Flush ack .. dequeue of Enable/Reset/Drain/Flush), no Top intake while a Drain is pending; Drain ack => accepted requests all answered, state paused, documented quiescence; " +
	"Reset ack => enabled, quiescent, wiped requests never answered; after a closing Enable every live request is answered; Run returns with every verb answered. " +
	"Listed findings: Reset is preceded by a Drain for writethrough/datamover, the control link is never stalled for tlb/mmucache (counted as excluded); the other listed clauses are stepped over and counted. " +
	"Non-trivial: a Pause/Drain/Reset landed with >=1 accepted-unanswered request, or a verb waited behind a pending Drain, or traffic was delivered inside a paused window."

func runC18(s *kit.Session, f kit.Failer, c c18Case) {
	out := execC18(c, func(sig string) bool { _, ok := s.IsKnown(sig); return ok })
	for sig, n := range out.known {
		// listed and stepped over: count the hit (Fail returns for listed signatures)
		s.Fail(f, c, c.Agent+":"+sig, "tolerated %d time(s)", n)
	}
	if out.viol != nil {
		s.Fail(f, c, out.viol.sig, "%s", out.viol.msg)
		// listed known finding: count the case under its signature and stop
		s.Note(c, false, c.Agent+":known:"+out.viol.sig)
		return
	}
	classes := []string{"agent:" + c.Agent}
	keys := make([]string, 0, len(out.cls))
	for k := range out.cls {
		keys = append(keys, k)
	}
	sort.Strings(keys)
	for _, k := range keys {
		classes = append(classes, c.Agent+":"+k)
	}
	if out.nontriv {
		classes = append(classes, c.Agent+":nontrivial")
	}
	s.Note(c, out.nontriv, classes...)
}

func TestC18Protocol(t *testing.T) {
	s := kit.Begin(t, "C18", "protocol", c18Rule)
	defer s.End()
	s.Assume("port hooks fire at the documented positions (Send/Recvd/RetrieveIncoming) and the serial engine runs one handler at a time")
	s.Assume("'accepted' = retrieved from the agent's Top port outside a Reset handler; requests retrieved in the tick of a Reset after its handler are judged neither way")

	var c c18Case
	if ok, err := kit.LoadReplay("C18", "protocol", &c); ok {
		if err != nil {
			t.Fatal(err)
		}
		runC18(s, t, c)
		return
	} else if kit.ReplayMode() {
		t.Skip()
	}

	agents := c18Agents
	if v := os.Getenv("C18_AGENTS"); v != "" { // development / sensitivity runs only
		agents = strings.Split(v, ",")
	}
	kit.SetChecks(100*12, 400*12)
	rapid.Check(t, func(rt *rapid.T) {
		c := genC18(rt, agents)
		steerKnown(s, &c)
		runC18(s, rt, c)
	})
}

// Signatures of the findings listed in known.d/C18.txt (agent:clause).
const (
	sigWTResetPanic   = "writethrough:panic-after-reset-with-inflight"
	sigDMResetHang    = "datamover:request-never-served"
	sigTLBDrainOrder  = "tlb:ctl-rsp-out-of-order"
	sigMMUCDrainOrder = "mmucache:ctl-rsp-out-of-order"
	sigTLBDrainEarly  = "tlb:drain-ack:accepted-request-unanswered"
	sigMMUCRspTo      = "mmucache:data-rsp-carries-foreign-rspto"
	sigGMMURspTo      = "gmmu:data-rsp-carries-foreign-rspto"
)

// steerKnown rewrites a case away from the input classes of listed findings
// that end a case (crash / hang / lost ack), by construction, and counts it.
// Findings the oracle can step over (sigTLBDrainEarly, sig*RspTo) need no
// steering: they are counted as known hits and the rest of the history is
// still judged.
func steerKnown(s *kit.Session, c *c18Case) {
	known := func(sig string) bool { _, ok := s.IsKnown(sig); return ok }
	steered := false
	switch c.Agent {
	case "writethrough", "datamover":
		// A Reset that lands on in-flight work crashes the write-through cache
		// / can wedge the data mover: make every Reset land quiescent by
		// putting a Drain right in front of it.
		if (c.Agent == "writethrough" && known(sigWTResetPanic)) || (c.Agent == "datamover" && known(sigDMResetHang)) {
			var out []c18Step
			for _, st := range c.Steps {
				if st.K == "ctl" && st.Verb == vReset {
					out = append(out, c18Step{K: "ctl", Verb: vDrain, Gap: st.Gap})
					st.Gap = 0
					steered = true
				}
				out = append(out, st)
			}
			c.Steps = out
		}
	case "tlb", "mmucache":
		// Two Drains back to back while the Control port is back-pressured
		// lose the first acknowledgement: never stall the control link.
		if (c.Agent == "tlb" && known(sigTLBDrainOrder)) || (c.Agent == "mmucache" && known(sigMMUCDrainOrder)) {
			for i := range c.Steps {
				if c.Steps[i].K == "stall" && c.Steps[i].Verb != 0 {
					c.Steps[i].Verb = 0
					steered = true
				}
			}
		}
	}
	if steered {
		s.Excluded(1)
	}
}

// ---------------------------------------------------------------------------
// Dedicated reproductions of the listed findings
// ---------------------------------------------------------------------------

func c18Known(t *testing.T, name, sig string, c c18Case) {
	s := kit.Begin(t, "C18", "known-"+name, "dedicated deterministic reproduction of the finding with signature "+sig)
	defer s.End()
	if kit.ReplayMode() {
		t.Skip()
	}
	out := execC18(c, nil)
	switch {
	case out.viol != nil && out.viol.sig == sig:
		s.KnownStillFails(t, c, sig, out.viol.msg)
	case out.viol == nil:
		fmt.Printf("KNOWN-FINDING-GONE: property=C18 sig=%s no longer reproduces\n", sig)
	default:
		s.Fail(t, c, out.viol.sig, "%s", out.viol.msg)
	}
}

var cfgSmall = c18Cfg{Lat: 0, LowLat: 0, Width: 1, TopBuf: 1, CtlBuf: 1, Var: 0}

// A read is in the directory pipeline of the write-through cache when a Reset
// lands: handleReset clears DirBuf/BankBufs/Transactions but not DirPipeline,
// DirPostBuf, BankPipelines, BankPostBufs; the stale index crashes the next tick.
func TestC18Known_WriteThroughResetInflight(t *testing.T) {
	c18Known(t, "writethrough-reset-inflight", sigWTResetPanic, c18Case{Agent: "writethrough",
		Cfg:   c18Cfg{Lat: 2, LowLat: 3, Width: 1, TopBuf: 1, CtlBuf: 1},
		Steps: []c18Step{{K: "dat", N: 1}, {K: "ctl", Gap: 2, Verb: vReset}}})
}

// A move outside->inside is reset with reads in flight; their late responses
// sit at the head of the Outside port, where the next move (inside->outside)
// only looks for write acknowledgements: it never finishes.
func TestC18Known_DataMoverResetThenOppositeMove(t *testing.T) {
	c18Known(t, "datamover-reset-opposite-move", sigDMResetHang, c18Case{Agent: "datamover",
		Cfg:   c18Cfg{Lat: 3, LowLat: 3, Width: 1, TopBuf: 1, CtlBuf: 1},
		Steps: []c18Step{{K: "dat", N: 2}, {K: "ctl", Gap: 4, Verb: vReset}, {K: "dat", W: true, N: 1, Gap: 1}}})
}

func drainDrainBackpressure(agent string) c18Case {
	return c18Case{Agent: agent, Cfg: cfgSmall, Steps: []c18Step{
		{K: "stall", Verb: 1, N: 30},
		{K: "ctl", Verb: vPause}, {K: "ctl", Verb: vPause}, {K: "ctl", Verb: vPause}, {K: "ctl", Verb: vPause}, {K: "ctl", Verb: vPause},
		{K: "ctl", Verb: vDrain}, {K: "ctl", Verb: vDrain}}}
}

// The requester does not drain its control link for 30 cycles; five Pause acks
// fill the link, the first Drain completes but cannot send its ack, and the
// second Drain is dequeued meanwhile and overwrites CurrentCmdID: the first
// Drain is never acknowledged.
func TestC18Known_TLBDrainDrainBackpressure(t *testing.T) {
	c18Known(t, "tlb-drain-drain-backpressure", sigTLBDrainOrder, drainDrainBackpressure("tlb"))
}

func TestC18Known_MMUCacheDrainDrainBackpressure(t *testing.T) {
	c18Known(t, "mmucache-drain-drain-backpressure", sigMMUCDrainOrder, drainDrainBackpressure("mmucache"))
}

// A translation request is in the TLB lookup pipeline (MSHR empty) when the
// Drain is dequeued: the TLB pauses at once and acknowledges.
func TestC18Known_TLBDrainWithRequestInPipeline(t *testing.T) {
	c18Known(t, "tlb-drain-request-in-pipeline", sigTLBDrainEarly, c18Case{Agent: "tlb", Cfg: cfgSmall,
		Steps: []c18Step{{K: "dat", N: 1}, {K: "ctl", Gap: 2, Verb: vDrain}}})
}

func TestC18Known_MMUCacheRspTo(t *testing.T) {
	c18Known(t, "mmucache-rspto", sigMMUCRspTo, c18Case{Agent: "mmucache", Cfg: cfgSmall,
		Steps: []c18Step{{K: "dat", N: 1}}})
}

// page 0 lives on the remote device in the GMMU fixture: the walk is forwarded
// to the MMU below and the answer goes up with the bottom response's own ID.
func TestC18Known_GMMURemoteRspTo(t *testing.T) {
	c18Known(t, "gmmu-remote-rspto", sigGMMURspTo, c18Case{Agent: "gmmu", Cfg: cfgSmall,
		Steps: []c18Step{{K: "dat", Slot: 0, N: 1}}})
}
