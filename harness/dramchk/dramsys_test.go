package dramchk

// The system under test of C22: a real dram.Comp built from an exported preset
// (tweaked only through documented Spec fields), a real SerialEngine, a real
// direct connection and a harness requester that follows the idioms of
// mem/acceptancetests/memaccessagent (check CanSend before Send, keep unsent
// work in its own bookkeeping, return true from Tick exactly when something
// was done, rely on NotifyRecv / NotifyPortFree to be woken).

import (
	"fmt"

	"github.com/sarchlab/akita/v5/hooking"
	"github.com/sarchlab/akita/v5/mem"
	"github.com/sarchlab/akita/v5/mem/dram"
	"github.com/sarchlab/akita/v5/mem/memprotocol"
	"github.com/sarchlab/akita/v5/messaging"
	"github.com/sarchlab/akita/v5/modeling"
	"github.com/sarchlab/akita/v5/noc/directconnection"
	"github.com/sarchlab/akita/v5/timing"

	"verif/harness/kit"
)

// ------------------------------------------------------------------ the case

// c22Req is one scripted request. The location is given by DRAM coordinates
// (reduced modulo the built geometry), so a shrunk case stays meaningful.
type c22Req struct {
	W    bool   `json:"w,omitempty"`
	Rank int    `json:"rk,omitempty"`
	BG   int    `json:"bg,omitempty"`
	Bank int    `json:"bk,omitempty"`
	Row  int    `json:"row,omitempty"`
	Col  int    `json:"col,omitempty"`
	Off  int    `json:"off,omitempty"`  // byte offset inside the access unit
	Size int    `json:"size"`           // bytes, >= 1
	Mask int    `json:"mask,omitempty"` // writes: 0 nil mask, 1 all-true mask, 2 partial mask
	Seed uint32 `json:"seed,omitempty"` // data / mask pattern
	Gap  int    `json:"gap,omitempty"`  // requester cycles to wait after the previous send
}

type c22Case struct {
	Preset     string `json:"preset"`
	OpenPage   bool   `json:"open_page"`
	Ranks      int    `json:"ranks,omitempty"`       // 0 = preset
	BankGroups int    `json:"bank_groups,omitempty"` // 0 = preset
	Banks      int    `json:"banks,omitempty"`       // 0 = preset
	TAL        int    `json:"t_al,omitempty"`
	TREFI      int    `json:"t_refi,omitempty"` // 0 = preset
	TRFC       int    `json:"t_rfc,omitempty"`  // used when TREFI != 0
	TransQ     int    `json:"trans_q,omitempty"`
	CmdQ       int    `json:"cmd_q,omitempty"`
	ReadQ      int    `json:"read_q,omitempty"` // ReadQ>0 && WriteQ>0: separate queues
	WriteQ     int    `json:"write_q,omitempty"`
	HighWM     int    `json:"high_wm,omitempty"`
	LowWM      int    `json:"low_wm,omitempty"`
	TopBuf     int    `json:"top_buf"`
	ReqBuf     int    `json:"req_buf"`
	MaxOut     int    `json:"max_out"`
	RspEvery   int    `json:"rsp_every,omitempty"` // requester drains responses every k-th cycle
	ReqAt1GHz  bool   `json:"req_1ghz,omitempty"`  // requester clock: 1 GHz instead of the DRAM clock

	Reqs []c22Req `json:"reqs"`
}

var presetNames = []string{"DDR3-default", "DDR4", "DDR5", "HBM2", "HBM3", "GDDR6"}

func presetSpec(name string) (dram.Spec, bool) {
	switch name {
	case "DDR3-default":
		return dram.DefaultSpec(), true
	case "DDR4":
		return dram.DDR4Spec, true
	case "DDR5":
		return dram.DDR5Spec, true
	case "HBM2":
		return dram.HBM2Spec, true
	case "HBM3":
		return dram.HBM3Spec, true
	case "GDDR6":
		return dram.GDDR6Spec, true
	}
	return dram.Spec{}, false
}

// specOf applies the case's tweaks (all through fields the README lists as
// configuration: page policy, geometry counts, queue sizes, timing params).
func specOf(c c22Case) (dram.Spec, error) {
	s, ok := presetSpec(c.Preset)
	if !ok {
		return s, fmt.Errorf("unknown preset %q", c.Preset)
	}
	if c.OpenPage {
		s.PagePolicy = dram.PagePolicyOpen
	} else {
		s.PagePolicy = dram.PagePolicyClose
	}
	if c.Ranks > 0 {
		s.NumRank = c.Ranks
	}
	if c.BankGroups > 0 {
		s.NumBankGroup = c.BankGroups
	}
	if c.Banks > 0 {
		s.NumBank = c.Banks
	}
	if c.TAL > 0 {
		s.TAL = c.TAL
	}
	if c.TREFI > 0 {
		s.TREFI = c.TREFI
		s.TRFC = c.TRFC
	}
	if c.TransQ > 0 {
		s.TransactionQueueSize = c.TransQ
	}
	if c.CmdQ > 0 {
		s.CommandQueueCapacity = c.CmdQ
	}
	if c.ReadQ > 0 && c.WriteQ > 0 {
		s.ReadQueueSize = c.ReadQ
		s.WriteQueueSize = c.WriteQ
		s.WriteHighWatermark = c.HighWM
		s.WriteLowWatermark = c.LowWM
	}
	return s, nil
}

// --------------------------------------------------------- concrete requests

type liveReq struct {
	idx   int
	write bool
	addr  uint64
	size  uint64
	data  []byte
	mask  []bool
	units []uint64 // aligned access-unit addresses the request covers

	id       uint64
	sent     bool
	sentSeq  int
	answered bool
}

func mix32(x uint32) uint32 {
	x ^= x >> 16
	x *= 0x7feb352d
	x ^= x >> 15
	x *= 0x846ca68b
	x ^= x >> 16
	return x
}

func patternByte(seed uint32, i int) byte {
	b := byte(mix32(seed*2654435761+uint32(i)*40503+1) >> 8)
	if b == 0 {
		b = 0xA5 // never write the "never written" value, so a lost write shows
	}
	return b
}

func patternMask(seed uint32, n int) []bool {
	m := make([]bool, n)
	anyT, anyF := false, false
	for i := range m {
		m[i] = mix32(seed^0x9e3779b9+uint32(i)*2246822519)%3 != 0
		anyT = anyT || m[i]
		anyF = anyF || !m[i]
	}
	if !anyF {
		m[0] = false
	}
	if !anyT && n > 1 {
		m[n-1] = true
	}
	return m
}

// concretize turns the script into addresses for the built Spec.
func concretize(c c22Case, s dram.Spec, allowPartialMask bool) ([]*liveReq, bool) {
	unit := uint64(1) << s.Log2AccessUnitSize
	total := uint64(1) << uint(rowBits(s)+s.RowPos)
	steered := false
	out := make([]*liveReq, 0, len(c.Reqs))
	maxSub := s.TransactionQueueSize - 1 // n >= capacity is a documented panic
	for i, r := range c.Reqs {
		rank := uint64(r.Rank) % uint64(maxInt(s.NumRank, 1))
		bg := uint64(r.BG) % uint64(maxInt(s.NumBankGroup, 1))
		bank := uint64(r.Bank) % uint64(maxInt(s.NumBank, 1))
		row := uint64(r.Row) % uint64(maxInt(s.NumRow-1, 1)) // keep the last row free: no access near the capacity
		col := uint64(r.Col) & s.ColMask
		addr := row<<uint(s.RowPos) | (rank&s.RankMask)<<uint(s.RankPos) | (bank&s.BankMask)<<uint(s.BankPos) |
			(bg&s.BankGroupMask)<<uint(s.BankGroupPos) | col<<uint(s.ColPos) | uint64(r.Off)%unit
		size := uint64(maxInt(r.Size, 1))
		// sub-transactions = access units covered; keep below the queue size
		for {
			first := addr &^ (unit - 1)
			n := (addr + size - first + unit - 1) / unit
			if int(n) <= maxSub {
				break
			}
			if size <= unit {
				size = unit - addr%unit
				break
			}
			size -= unit
		}
		if addr+size > total-unit {
			continue
		}
		lr := &liveReq{idx: i, write: r.W, addr: addr, size: size}
		for a := addr &^ (unit - 1); a < addr+size; a += unit {
			lr.units = append(lr.units, a)
		}
		if r.W {
			lr.data = make([]byte, size)
			for k := range lr.data {
				lr.data[k] = patternByte(r.Seed, k)
			}
			switch r.Mask {
			case 1:
				lr.mask = make([]bool, size)
				for k := range lr.mask {
					lr.mask[k] = true
				}
			case 2:
				if allowPartialMask {
					lr.mask = patternMask(r.Seed, int(size))
				} else {
					steered = true
				}
			}
		}
		out = append(out, lr)
	}
	return out, steered
}

func rowBits(s dram.Spec) int {
	n := 0
	for (1 << uint(n)) < s.NumRow {
		n++
	}
	return n
}

// ------------------------------------------------------------ the requester

type reqSpec struct {
	Freq     uint64 `json:"freq"`
	MaxOut   int    `json:"max_out"`
	RspEvery int    `json:"rsp_every"`
}

type reqState struct {
	Next    int    `json:"next"`
	GapLeft int    `json:"gap_left"`
	TickNo  uint64 `json:"tick_no"`
}

type reqComp = modeling.Component[reqSpec, reqState, modeling.None]

type sysRun struct {
	c    c22Case
	spec dram.Spec // the built component's Spec
	eng  *timing.SerialEngine
	ctrl *dram.Comp
	top  messaging.Port
	port messaging.Port
	reqs []*liveReq

	seq      int
	cmds     []cmdRec
	period   uint64
	byID     map[uint64]*liveReq
	inflight []*liveReq
	ref      map[uint64]byte
	colSeen  map[[2]uint64][]int // (dir, unit address) -> seq numbers of column commands
	probs    []problem

	budget      *budgetPanic
	events      int
	eventBudget int
	cmdBudget   int

	maxInflight  int
	sendBlocked  int
	overlapStall int
	reads        int
	writes       int
	maskedWrites int
	multiUnit    int
	readOfWrite  int
	nonZeroReads int
	rspWhileBusy int
}

func (r *sysRun) addProblem(sig, format string, a ...any) {
	if len(r.probs) < 8 {
		r.probs = append(r.probs, problem{sig, fmt.Sprintf(format, a...)})
	}
}

func (r *sysRun) overlaps(q *liveReq) bool {
	for _, o := range r.inflight {
		if q.addr < o.addr+o.size && o.addr < q.addr+q.size {
			return true
		}
	}
	return false
}

func (r *sysRun) expected(addr, size uint64) []byte {
	out := make([]byte, size)
	for i := range out {
		out[i] = r.ref[addr+uint64(i)]
	}
	return out
}

func (r *sysRun) onResponse(msg messaging.Msg) {
	r.seq++
	meta := msg.Meta()
	q := r.byID[meta.RspTo]
	if q == nil {
		r.addProblem("rsp:unknown-rspto", "response %T id=%d refers to request id %d that was never sent", msg, meta.ID, meta.RspTo)
		return
	}
	if q.answered {
		r.addProblem("rsp:duplicate", "request #%d (id %d) answered twice", q.idx, q.id)
		return
	}
	if meta.Dst != r.port.AsRemote() {
		r.addProblem("rsp:wrong-dst", "response to request #%d has Dst %q, sender is %q", q.idx, meta.Dst, r.port.AsRemote())
	}
	// every access unit of the request must have seen a column command of the
	// request's direction between its send and its response
	dir := uint64(0)
	if q.write {
		dir = 1
	}
	for _, u := range q.units {
		ok := false
		for _, s := range r.colSeen[[2]uint64{dir, u}] {
			if s > q.sentSeq {
				ok = true
				break
			}
		}
		if !ok {
			r.addProblem("cmds:response-without-column-command", "request #%d (%s addr=%#x size=%d) answered although no %s command for its access unit %#x was issued after it was sent",
				q.idx, kindName(q.write), q.addr, q.size, kindName(q.write), u)
			break
		}
	}
	switch m := msg.(type) {
	case memprotocol.WriteDoneRsp:
		if !q.write {
			r.addProblem("rsp:wrong-kind", "read request #%d answered by WriteDoneRsp", q.idx)
		}
		for i, b := range q.data {
			if q.mask == nil || q.mask[i] {
				r.ref[q.addr+uint64(i)] = b
			}
		}
	case memprotocol.DataReadyRsp:
		if q.write {
			r.addProblem("rsp:wrong-kind", "write request #%d answered by DataReadyRsp", q.idx)
			break
		}
		want := r.expected(q.addr, q.size)
		if len(m.Data) != len(want) {
			r.addProblem("data:length", "read #%d addr=%#x size=%d returned %d bytes", q.idx, q.addr, q.size, len(m.Data))
			break
		}
		nz := false
		for i := range want {
			if want[i] != 0 {
				nz = true
			}
			if m.Data[i] != want[i] {
				sig := "data:mismatch"
				if r.maskedByteAt(q.addr + uint64(i)) {
					sig = sigDirtyMask
				}
				r.addProblem(sig, "read #%d addr=%#x size=%d: byte %d (addr %#x) = %#02x, flat memory holds %#02x", q.idx, q.addr, q.size, i, q.addr+uint64(i), m.Data[i], want[i])
				break
			}
		}
		if nz {
			r.nonZeroReads++
		}
	default:
		r.addProblem("rsp:wrong-kind", "request #%d answered by %T", q.idx, msg)
	}
	q.answered = true
	for i, o := range r.inflight {
		if o == q {
			r.inflight = append(r.inflight[:i], r.inflight[i+1:]...)
			break
		}
	}
}

const sigDirtyMask = "dram-write-ignores-dirtymask"

// maskedByteAt: the byte was covered by an acknowledged write whose DirtyMask
// said "do not write this byte" (classifies a data mismatch).
func (r *sysRun) maskedByteAt(a uint64) bool {
	for _, q := range r.reqs {
		if q.write && q.answered && q.mask != nil && a >= q.addr && a < q.addr+q.size && !q.mask[a-q.addr] {
			return true
		}
	}
	return false
}

func kindName(w bool) string {
	if w {
		return "write"
	}
	return "read"
}

type reqMW struct {
	comp *reqComp
	run  *sysRun
}

func (m *reqMW) Tick() bool {
	r := m.run
	st := &m.comp.State
	spec := m.comp.Spec()
	progress := false
	st.TickNo++

	if spec.RspEvery <= 1 || st.TickNo%uint64(spec.RspEvery) == 0 {
		for {
			msg := r.port.RetrieveIncoming()
			if msg == nil {
				break
			}
			r.onResponse(msg)
			progress = true
		}
	} else if r.port.PeekIncoming() != nil {
		progress = true // keep the clock running until the drain cycle
	}

	for st.Next < len(r.reqs) {
		if st.GapLeft > 0 {
			st.GapLeft--
			progress = true
			break
		}
		q := r.reqs[st.Next]
		if len(r.inflight) >= spec.MaxOut {
			break
		}
		if r.overlaps(q) {
			r.overlapStall++
			break
		}
		if !r.port.CanSend() {
			r.sendBlocked++
			break
		}
		r.send(q)
		st.Next++
		if st.Next < len(r.reqs) {
			st.GapLeft = r.c.Reqs[r.reqs[st.Next].idx].Gap
		}
		progress = true
	}
	return progress
}

func (r *sysRun) send(q *liveReq) {
	r.seq++
	q.id = timing.GetIDGenerator().Generate()
	q.sent = true
	q.sentSeq = r.seq
	r.byID[q.id] = q
	if q.write {
		w := memprotocol.WriteReq{}
		w.ID = q.id
		w.Src = r.port.AsRemote()
		w.Dst = r.top.AsRemote()
		w.Address = q.addr
		w.Data = append([]byte(nil), q.data...)
		if q.mask != nil {
			w.DirtyMask = append([]bool(nil), q.mask...)
		}
		w.TrafficBytes = len(q.data) + 12
		w.TrafficClass = "memprotocol.WriteReq"
		r.port.Send(w)
		r.writes++
		if q.mask != nil {
			r.maskedWrites++
		}
	} else {
		rd := memprotocol.ReadReq{}
		rd.ID = q.id
		rd.Src = r.port.AsRemote()
		rd.Dst = r.top.AsRemote()
		rd.Address = q.addr
		rd.AccessByteSize = q.size
		rd.TrafficBytes = 12
		rd.TrafficClass = "memprotocol.ReadReq"
		r.port.Send(rd)
		r.reads++
		for i := uint64(0); i < q.size; i++ {
			if _, ok := r.ref[q.addr+i]; ok {
				r.readOfWrite++
				break
			}
		}
	}
	if len(q.units) > 1 {
		r.multiUnit++
	}
	r.inflight = append(r.inflight, q)
	if len(r.inflight) > r.maxInflight {
		r.maxInflight = len(r.inflight)
	}
}

func (r *sysRun) observe(vc dram.VerifCommand) {
	r.seq++
	c := cmdRec{
		Seq: r.seq, Tick: vc.Tick, Cycle: uint64(r.eng.CurrentTime()) / r.period, Kind: vc.Kind,
		Rank: int(vc.Rank), BG: int(vc.BankGroup), Bank: int(vc.Bank), Row: vc.Row, Col: vc.Column, Addr: vc.Address,
	}
	r.cmds = append(r.cmds, c)
	if len(r.cmds) > r.cmdBudget {
		panic(budgetPanic{"nontermination:command-flood", fmt.Sprintf("%d commands issued for %d requests (%d access units); last: %v", len(r.cmds), len(r.reqs), r.totalUnits(), c)})
	}
	s := r.spec
	a := vc.Address
	if vc.Rank != (a>>uint(s.RankPos))&s.RankMask || vc.BankGroup != (a>>uint(s.BankGroupPos))&s.BankGroupMask ||
		vc.Bank != (a>>uint(s.BankPos))&s.BankMask || vc.Row != (a>>uint(s.RowPos))&s.RowMask || vc.Column != (a>>uint(s.ColPos))&s.ColMask {
		r.addProblem("cmd:location-differs-from-address", "%v: location is not the decode of the address under the built Spec", c)
	}
	if isCol(vc.Kind) {
		dir := uint64(0)
		if isWrite(vc.Kind) {
			dir = 1
		}
		k := [2]uint64{dir, a}
		r.colSeen[k] = append(r.colSeen[k], c.Seq)
	}
}

// budgetPanic aborts a run that cannot be a terminating execution of a sane
// controller: far more commands than any schedule needs (a sub-transaction
// needs at most PRE+ACT+column; the budget allows 24 per access unit), or far
// more engine events than the script can account for. It is a work bound, not
// a wall-clock limit; without it a livelocked controller would hang the check.
type budgetPanic struct{ sig, msg string }

type eventCounter struct{ r *sysRun }

func (h *eventCounter) Func(ctx hooking.HookCtx) {
	if ctx.Pos != timing.HookPosBeforeEvent {
		return
	}
	h.r.events++
	if h.r.events > h.r.eventBudget {
		panic(budgetPanic{"nontermination:event-budget", fmt.Sprintf("%d engine events for %d requests without reaching quiescence; %d commands so far", h.r.events, len(h.r.reqs), len(h.r.cmds))})
	}
}

func (r *sysRun) totalUnits() int {
	n := 0
	for _, q := range r.reqs {
		n += len(q.units)
	}
	return n
}

const dramName = "C22DRAM"

// execute builds the system for the case, runs it to completion and returns
// the run record. Panics of the code under test are returned via kit.Guard.
func execute(c c22Case, allowPartialMask bool) (r *sysRun, steered bool, ok bool, sig, msg string) {
	r = &sysRun{c: c, byID: map[uint64]*liveReq{}, ref: map[uint64]byte{}, colSeen: map[[2]uint64][]int{}}
	defer dram.VerifObserveCommands(dramName, nil)
	ok, sig, msg = kit.Guard(func() {
		defer func() {
			if p := recover(); p != nil {
				if b, isBudget := p.(budgetPanic); isBudget {
					r.budget = &b
					return
				}
				panic(p)
			}
		}()
		timing.ResetIDGenerator()
		in, err := specOf(c)
		if err != nil {
			panic("harness: " + err.Error())
		}
		eng := timing.NewSerialEngine()
		reg := modeling.NewStandaloneRegistrar(eng)
		r.eng = eng

		capBits := uint(0)
		{
			// total address space of the geometry: unit + column + bank group + bank + rank + row bits
			probe := in
			b := func(n int) uint {
				k := uint(0)
				for (1 << k) < n {
					k++
				}
				return k
			}
			capBits = b(probe.BusWidth/8*probe.BurstLength) + b(probe.NumCol/probe.BurstLength) + b(probe.NumBankGroup) + b(probe.NumBank) + b(probe.NumRank) + b(probe.NumRow)
		}
		storage := mem.MakeStorageBuilder().WithCapacity(uint64(1) << capBits).WithUnitSize(512).Build("")

		ctrl := dram.MakeBuilder().
			WithRegistrar(reg).
			WithSpec(in).
			WithResources(dram.Resources{Storage: storage}).
			Build(dramName)
		top := modeling.MakePortBuilder().WithRegistrar(reg).WithComponent(ctrl).
			WithSpec(modeling.PortSpec{BufSize: maxInt(c.TopBuf, 1)}).Build("Top")
		ctrl.AssignPort("Top", top)
		ctl := modeling.MakePortBuilder().WithRegistrar(reg).WithComponent(ctrl).
			WithSpec(modeling.PortSpec{BufSize: 4}).Build("Control")
		ctrl.AssignPort("Control", ctl)
		r.ctrl = ctrl
		r.top = ctrl.GetPortByName("Top")
		r.spec = ctrl.Spec()
		r.period = uint64(r.spec.Freq.Period())

		freq := uint64(r.spec.Freq)
		if c.ReqAt1GHz {
			freq = uint64(1 * timing.GHz)
		}
		rc := modeling.NewBuilder[reqSpec, reqState, modeling.None]().
			WithEngine(eng).
			WithFreq(timing.Freq(freq)).
			WithSpec(reqSpec{Freq: freq, MaxOut: maxInt(c.MaxOut, 1), RspEvery: c.RspEvery}).
			Build("C22Req")
		rc.DeclarePort("Mem", memprotocol.Requester)
		rp := modeling.MakePortBuilder().WithRegistrar(reg).WithComponent(rc).
			WithSpec(modeling.PortSpec{BufSize: maxInt(c.ReqBuf, 1)}).Build("Mem")
		rc.AssignPort("Mem", rp)
		r.port = rc.GetPortByName("Mem")
		rc.AddMiddleware(&reqMW{comp: rc, run: r})
		reg.RegisterComponent(rc)

		conn := directconnection.MakeBuilder().WithRegistrar(reg).Build("C22Conn")
		conn.PlugIn(r.port)
		conn.PlugIn(r.top)

		r.reqs, steered = concretize(c, r.spec, allowPartialMask)
		if len(r.reqs) > 0 {
			rc.State.GapLeft = c.Reqs[r.reqs[0].idx].Gap
		}

		gaps := 0
		for _, q := range r.reqs {
			gaps += c.Reqs[q.idx].Gap
		}
		r.cmdBudget = 64 + 24*r.totalUnits()
		// every controller cycle costs a handful of events (controller,
		// connection, requester); a request needs at most a few hundred cycles
		// plus refresh stalls; gaps are requester cycles.
		r.eventBudget = 50_000 + 5_000*len(r.reqs) + 10*gaps
		eng.AcceptHook(&eventCounter{r})
		dram.VerifObserveCommands(dramName, r.observe)
		rc.TickLater()
		if err := eng.Run(); err != nil {
			panic(fmt.Sprintf("Run returned %v", err))
		}
	})
	return r, steered, ok, sig, msg
}

// completionProblems is evaluated when Run has returned: the event queue is
// empty, nothing will ever happen again.
func (r *sysRun) completionProblems() {
	unsent, unanswered := 0, 0
	var first *liveReq
	for _, q := range r.reqs {
		if !q.sent {
			unsent++
			continue
		}
		if !q.answered {
			unanswered++
			if first == nil {
				first = q
			}
		}
	}
	if unanswered == 0 && unsent == 0 {
		return
	}
	st := &r.ctrl.State
	where := "inside-controller"
	switch {
	case unanswered == 0:
		where = "requester-stopped" // nothing in flight but script not finished: a lost wake-up of the harness component
	case r.port.NumOutgoing() > 0:
		where = "request-in-requester-port"
	case r.top.NumIncoming() > 0:
		where = "request-in-top-port"
	case r.top.NumOutgoing() > 0:
		where = "response-in-top-port"
	case r.port.NumIncoming() > 0:
		where = "response-in-requester-port"
	case len(st.Transactions) == 0:
		where = "controller-forgot-request"
	}
	desc := "none"
	if first != nil {
		desc = fmt.Sprintf("#%d %s addr=%#x size=%d", first.idx, kindName(first.write), first.addr, first.size)
	}
	r.addProblem("incomplete:"+where,
		"Run returned with %d request(s) unanswered and %d unsent (first unanswered: %s); controller: %d transactions, %d queued sub-transactions, %d queued commands, %d pending completions, refresh=%v; ports: req out=%d in=%d, top in=%d out=%d",
		unanswered, unsent, desc, len(st.Transactions), len(st.SubTransQueue.Entries), len(st.CommandQueues.Entries), len(st.PendingCompletions), st.RefreshInProgress,
		r.port.NumOutgoing(), r.port.NumIncoming(), r.top.NumIncoming(), r.top.NumOutgoing())
}
