package dramchk

// The command-stream oracles of C22: a per-bank reference state machine and a
// table of minimum command separations. Both are pure functions of the built
// component's exported Spec (base JEDEC parameters only; every derived value is
// recomputed here from the documented formulas, never read from the code's
// timing table) and of the observed command list.

import (
	"fmt"

	"github.com/sarchlab/akita/v5/mem/dram"
)

// cmdRec is one observed command (hook H1) plus the engine time at which the
// observer ran, expressed in controller clock cycles.
type cmdRec struct {
	Seq   int    `json:"seq"`
	Tick  uint64 `json:"tick"`
	Cycle uint64 `json:"cycle"`
	Kind  string `json:"kind"`
	Rank  int    `json:"rank"`
	BG    int    `json:"bg"`
	Bank  int    `json:"bank"`
	Row   uint64 `json:"row"`
	Col   uint64 `json:"col"`
	Addr  uint64 `json:"addr"`
}

func (c cmdRec) String() string {
	return fmt.Sprintf("#%d t=%d %s r%d g%d b%d row=%d col=%d addr=%#x", c.Seq, c.Tick, c.Kind, c.Rank, c.BG, c.Bank, c.Row, c.Col, c.Addr)
}

type problem struct {
	sig string
	msg string
}

// derived holds every bound the timing oracle asserts.
type derived struct {
	bc, trl, twl, trc int

	actToRd, actToWr, actToPre, actToAct int
	preToAct                             int
	rdToPre, wrToPre                     int
	rdaToAct, wraToAct                   int
	rrdL, rrdS, faw                      int

	ccdL, ccdS, rrO int // column to column of the same direction
	wwO             int
	rtw, rtwO       int
	wtrL, wtrS      int
	wtrO            int
}

// protocolFamilies tells whether the protocol number belongs to the GDDR or
// HBM family. The protocol constants are not exported; the numbers are taken
// from the exported presets, which is all the generator uses.
func isGDDRorHBM(protocol int) bool {
	return protocol == dram.GDDR6Spec.Protocol ||
		protocol == dram.HBM2Spec.Protocol ||
		protocol == dram.HBM3Spec.Protocol
}

func maxInt(a, b int) int {
	if a > b {
		return a
	}
	return b
}

func minInt(a, b int) int {
	if a < b {
		return a
	}
	return b
}

// derive recomputes the documented bounds (README "Tier 1" list and
// timing_crossvalidation_test.go computeExpectedTimings) from base parameters.
// Where the repository documents a deviation from the reference simulators
// (write delay = tRL + burst instead of tWL + burst) the smaller of the two
// readings is used, so the bound is sound under either.
func derive(s dram.Spec) derived {
	var d derived
	d.bc = s.BurstLength / 2
	if s.Protocol == dram.GDDR6Spec.Protocol {
		d.bc = s.BurstLength / 16
	}
	d.trl = s.TAL + s.TCL
	d.twl = s.TAL + s.TCWL
	d.trc = s.TRAS + s.TRP

	d.actToRd = s.TRCD - s.TAL
	d.actToWr = s.TRCD - s.TAL
	if isGDDRorHBM(s.Protocol) {
		d.actToRd = s.TRCDRD
		d.actToWr = s.TRCDWR
	}
	d.actToPre = s.TRAS
	d.actToAct = d.trc
	d.preToAct = s.TRP
	d.rdToPre = s.TAL + s.TRTP
	d.wrToPre = d.twl + d.bc + s.TWR
	// Auto-precharge = column command + implied precharge at the earliest
	// legal time, then tRP. (The code adds one more burst for RDA; the bound
	// used here is the smaller, certainly-required one.)
	d.rdaToAct = d.rdToPre + s.TRP
	d.wraToAct = d.wrToPre + s.TRP

	d.rrdL = s.TRRDL
	d.rrdS = s.TRRDS
	d.faw = s.TFAW

	d.ccdL = maxInt(d.bc, s.TCCDL)
	d.ccdS = maxInt(d.bc, s.TCCDS)
	d.rrO = d.bc + s.TRTRS
	d.wwO = d.bc
	d.rtw = d.trl + d.bc - d.twl + s.TRTRS
	// readToWriteO = readDelay + burst + tRTRS - writeDelay; writeDelay is
	// documented as tRL+burst (deviation) where the references use tWL+burst.
	d.rtwO = minInt(d.bc+s.TRTRS, d.trl-d.twl+d.bc+s.TRTRS)
	wd := minInt(d.trl, d.twl) + d.bc
	d.wtrL = wd + s.TWTRL
	d.wtrS = wd + s.TWTRS
	d.wtrO = minInt(d.bc+s.TRTRS, d.twl-d.trl+d.bc+s.TRTRS)
	if s.NumBankGroup == 1 {
		d.rrdL = s.TRRDS
		d.ccdL = d.ccdS
		d.wtrL = d.wtrS
	}
	for _, p := range []*int{&d.rtw, &d.rtwO, &d.wtrO, &d.actToRd, &d.actToWr} {
		if *p < 0 {
			*p = 0
		}
	}
	return d
}

const (
	scopeSameBank = iota
	scopeSameBG
	scopeSameRank
	scopeOtherRank
)

func isRead(k string) bool  { return k == "RD" || k == "RDA" }
func isWrite(k string) bool { return k == "WR" || k == "WRA" }
func isCol(k string) bool   { return isRead(k) || isWrite(k) }

// minSep returns the asserted minimum number of controller cycles between an
// earlier command of kind src and a later command of kind dst whose banks are
// related by scope. ok=false: no relation asserted.
func (d derived) minSep(src, dst string, scope int) (min int, name string, ok bool) {
	switch scope {
	case scopeSameBank:
		switch {
		case src == "ACT" && dst == "ACT":
			return d.actToAct, "same-bank ACT->ACT tRC", true
		case src == "ACT" && isRead(dst):
			return d.actToRd, "same-bank ACT->RD tRCD", true
		case src == "ACT" && isWrite(dst):
			return d.actToWr, "same-bank ACT->WR tRCD", true
		case src == "ACT" && dst == "PRE":
			return d.actToPre, "same-bank ACT->PRE tRAS", true
		case src == "PRE" && dst == "ACT":
			return d.preToAct, "same-bank PRE->ACT tRP", true
		case src == "RD" && dst == "PRE":
			return d.rdToPre, "same-bank RD->PRE tRTP", true
		case src == "WR" && dst == "PRE":
			return d.wrToPre, "same-bank WR->PRE tWR", true
		case src == "RDA" && dst == "ACT":
			return d.rdaToAct, "same-bank RDA->ACT tRTP+tRP", true
		case src == "WRA" && dst == "ACT":
			return d.wraToAct, "same-bank WRA->ACT tWR+tRP", true
		case src == "RD" && isRead(dst):
			return d.ccdL, "same-bank RD->RD tCCD_L", true
		case src == "WR" && isWrite(dst):
			return d.ccdL, "same-bank WR->WR tCCD_L", true
		case src == "RD" && isWrite(dst):
			return d.rtw, "same-bank RD->WR", true
		case src == "WR" && isRead(dst):
			return d.wtrL, "same-bank WR->RD tWTR_L", true
		}
	case scopeSameBG:
		switch {
		case src == "ACT" && dst == "ACT":
			return d.rrdL, "same-bank-group ACT->ACT tRRD_L", true
		case isRead(src) && isRead(dst):
			return d.ccdL, "same-bank-group RD->RD tCCD_L", true
		case isWrite(src) && isWrite(dst):
			return d.ccdL, "same-bank-group WR->WR tCCD_L", true
		case isRead(src) && isWrite(dst):
			return d.rtw, "same-bank-group RD->WR", true
		case isWrite(src) && isRead(dst):
			return d.wtrL, "same-bank-group WR->RD tWTR_L", true
		}
	case scopeSameRank:
		switch {
		case src == "ACT" && dst == "ACT":
			return d.rrdS, "same-rank ACT->ACT tRRD_S", true
		case isRead(src) && isRead(dst):
			return d.ccdS, "same-rank RD->RD tCCD_S", true
		case isWrite(src) && isWrite(dst):
			return d.ccdS, "same-rank WR->WR tCCD_S", true
		case isRead(src) && isWrite(dst):
			return d.rtw, "same-rank RD->WR", true
		case isWrite(src) && isRead(dst):
			return d.wtrS, "same-rank WR->RD tWTR_S", true
		}
	case scopeOtherRank:
		switch {
		case isRead(src) && isRead(dst):
			return d.rrO, "other-rank RD->RD", true
		case isWrite(src) && isWrite(dst):
			return d.wwO, "other-rank WR->WR", true
		case isRead(src) && isWrite(dst):
			return d.rtwO, "other-rank RD->WR", true
		case isWrite(src) && isRead(dst):
			return d.wtrO, "other-rank WR->RD", true
		}
	}
	return 0, "", false
}

var cmdKinds = []string{"ACT", "PRE", "RD", "RDA", "WR", "WRA"}

func kindIndex(k string) int {
	for i, s := range cmdKinds {
		if s == k {
			return i
		}
	}
	return -1
}

type bankModel struct {
	rank, bg, bank int
	open           bool
	row            uint64
	everOpened     bool
	lastRow        uint64
	colsSinceAct   int
	closedByPRE    bool
	last           [6]int64 // tick of the last command of each kind, -1 = none
	lastSeq        [6]int
}

// streamStats is what the execution did, measured on the command stream.
type streamStats struct {
	Cmds         int
	ByKind       map[string]int
	RowHits      int // column command on an activation that already served one
	RowConflicts int // explicit PRE of an open bank followed by ACT of another row
	Reopens      int // ACT on a bank that was activated before
	RowChanges   int // ACT with a row different from the bank's previous one
	MaxOpenBanks int
	BanksTouched int
	RanksTouched int
	PreOnClosed  int
	TightPairs   int // separations that exactly meet their bound
	CheckedPairs int
	Unmodelled   int
	LastTick     uint64
	FawWindows   int
	Tight        map[string]int // relation name -> separations exactly at the bound
	Judged       map[string]int // relation name -> separations judged
}

// judgeStream runs the state-machine and timing oracles over the commands.
func judgeStream(spec dram.Spec, cmds []cmdRec) ([]problem, streamStats) {
	d := derive(spec)
	st := streamStats{ByKind: map[string]int{}, Tight: map[string]int{}, Judged: map[string]int{}}
	var probs []problem
	add := func(sig, format string, a ...any) {
		if len(probs) < 8 {
			probs = append(probs, problem{sig, fmt.Sprintf(format, a...)})
		}
	}

	banks := map[[3]int]*bankModel{}
	var order [][3]int
	getBank := func(r, g, b int) *bankModel {
		k := [3]int{r, g, b}
		bm := banks[k]
		if bm == nil {
			bm = &bankModel{rank: r, bg: g, bank: b}
			for i := range bm.last {
				bm.last[i] = -1
			}
			banks[k] = bm
			order = append(order, k)
		}
		return bm
	}
	acts := map[int][]uint64{} // per rank ACT ticks
	ranks := map[int]bool{}
	openBanks := 0

	var prev *cmdRec
	for i := range cmds {
		c := cmds[i]
		st.Cmds++
		st.ByKind[c.Kind]++
		st.LastTick = c.Tick
		ki := kindIndex(c.Kind)
		if ki < 0 {
			// A command kind outside the modelled set (the tree never issues
			// one: refresh is a stall window). The reference model cannot
			// follow it, so judging stops here rather than guessing.
			st.Unmodelled++
			break
		}

		// Hook consistency: ticks never go backwards, at most one command per
		// controller cycle, and the tick counter never runs faster than the
		// controller clock (so tick separations are lower bounds on real ones).
		if prev != nil {
			if c.Tick <= prev.Tick {
				add("hook:tick-not-increasing", "%v issued at a tick not after %v", c, *prev)
			}
			if c.Cycle < prev.Cycle || c.Cycle-prev.Cycle < c.Tick-prev.Tick {
				add("hook:tick-faster-than-clock", "%v (cycle %d) vs %v (cycle %d): tick advanced more than the clock", c, c.Cycle, *prev, prev.Cycle)
			}
		}
		prev = &cmds[i]

		if c.Rank < 0 || c.Rank >= maxInt(spec.NumRank, 1) || c.BG < 0 || c.BG >= maxInt(spec.NumBankGroup, 1) ||
			c.Bank < 0 || c.Bank >= maxInt(spec.NumBank, 1) || c.Row >= uint64(maxInt(spec.NumRow, 1)) {
			add("cmd:location-out-of-range", "%v outside geometry %d/%d/%d/%d", c, spec.NumRank, spec.NumBankGroup, spec.NumBank, spec.NumRow)
			break
		}

		bm := getBank(c.Rank, c.BG, c.Bank)
		ranks[c.Rank] = true

		// ---- timing: against the last command of every kind on every bank
		for _, k := range order {
			o := banks[k]
			scope := scopeOtherRank
			if o.rank == c.Rank {
				scope = scopeSameRank
				if o.bg == c.BG {
					scope = scopeSameBG
					if o.bank == c.Bank {
						scope = scopeSameBank
					}
				}
			}
			for si, sk := range cmdKinds {
				t := o.last[si]
				if t < 0 {
					continue
				}
				min, name, ok := d.minSep(sk, c.Kind, scope)
				if !ok {
					continue
				}
				st.CheckedPairs++
				st.Judged[name]++
				sep := int64(c.Tick) - t
				if sep < int64(min) {
					add("timing:"+name, "%s: %v issued %d cycles after %s #%d (tick %d) on r%d g%d b%d; minimum %d", name, c, sep, sk, o.lastSeq[si], t, o.rank, o.bg, o.bank, min)
				} else if sep == int64(min) {
					st.TightPairs++
					st.Tight[name]++
				}
			}
		}
		if c.Kind == "ACT" {
			a := acts[c.Rank]
			if d.faw > 0 && len(a) >= 4 {
				st.FawWindows++
				st.Judged["tFAW"]++
				first := a[len(a)-4]
				if c.Tick-first < uint64(d.faw) {
					add("timing:tFAW", "fifth ACT %v only %d cycles after the ACT at tick %d of rank %d; tFAW=%d", c, c.Tick-first, first, c.Rank, d.faw)
				} else if c.Tick-first == uint64(d.faw) {
					st.TightPairs++
					st.Tight["tFAW"]++
				}
			}
			acts[c.Rank] = append(a, c.Tick)
		}

		// ---- state machine
		switch {
		case c.Kind == "ACT":
			if bm.open {
				add("sm:act-on-open-bank", "%v but the bank is open with row %d", c, bm.row)
			} else {
				openBanks++
			}
			if bm.everOpened {
				st.Reopens++
				if bm.lastRow != c.Row {
					st.RowChanges++
					if bm.closedByPRE {
						st.RowConflicts++
					}
				}
			}
			bm.open, bm.row, bm.everOpened, bm.lastRow = true, c.Row, true, c.Row
			bm.colsSinceAct = 0
			bm.closedByPRE = false
		case isCol(c.Kind):
			if !bm.open {
				add("sm:column-on-closed-bank", "%v but the bank is closed (no ACT since the last precharge)", c)
			} else if bm.row != c.Row {
				add("sm:column-on-wrong-row", "%v but the open row is %d", c, bm.row)
			} else {
				if bm.colsSinceAct > 0 {
					st.RowHits++
				}
				bm.colsSinceAct++
			}
			if c.Kind == "RDA" || c.Kind == "WRA" {
				if bm.open {
					openBanks--
				}
				bm.open = false
				bm.closedByPRE = false
			}
		case c.Kind == "PRE":
			if !bm.open {
				// Legal (a no-op) in the protocol and not forbidden by the
				// property statement: counted, not judged.
				st.PreOnClosed++
			} else {
				openBanks--
				bm.closedByPRE = true
			}
			bm.open = false
		}
		if openBanks > st.MaxOpenBanks {
			st.MaxOpenBanks = openBanks
		}
		bm.last[ki] = int64(c.Tick)
		bm.lastSeq[ki] = c.Seq
	}
	st.BanksTouched = len(banks)
	st.RanksTouched = len(ranks)
	return probs, st
}

// assertedRelations is the list written into the rule string / evidence.
const assertedRelations = "state machine per bank: ACT only on a closed bank, RD/WR/RDA/WRA only on an open bank whose open row equals the command's row, RDA/WRA/PRE close the bank (PRE on a closed bank is counted, not judged); " +
	"timing in controller ticks, every bound recomputed from the built Spec's base parameters (burst=BL/2, BL/16 for GDDR6; tRL=tAL+tCL; tWL=tAL+tCWL): " +
	"same bank ACT->RD/RDA >= tRCD-tAL (tRCDRD for GDDR/HBM), ACT->WR/WRA >= tRCD-tAL (tRCDWR), ACT->PRE >= tRAS, ACT->ACT >= tRAS+tRP, PRE->ACT >= tRP, RD->PRE >= tAL+tRTP, WR->PRE >= tWL+burst+tWR, RDA->ACT >= tAL+tRTP+tRP, WRA->ACT >= tWL+burst+tWR+tRP; " +
	"same rank ACT->ACT >= tRRD_L (same bank group; tRRD_S when there is one bank group) / tRRD_S (other group), any five consecutive ACTs of a rank span >= tFAW when tFAW>0; " +
	"column-to-column as documented in README Tier 1: RD->RD and WR->WR >= max(burst,tCCD_L) same bank / same group, max(burst,tCCD_S) other group, burst+tRTRS resp. burst other rank; RD->WR >= tRL+burst-tWL+tRTRS same rank, >= min(burst+tRTRS, tRL-tWL+burst+tRTRS) other rank; WR->RD >= min(tRL,tWL)+burst+tWTR_L/S same rank, min(burst+tRTRS, tWL-tRL+burst+tRTRS) other rank (min() because the repository documents write delay = tRL+burst as a deviation from tWL+burst); " +
	"not asserted: PRE->PRE tPPD, refresh/self-refresh relations (refresh is a stall window, no command), data-return latency"
