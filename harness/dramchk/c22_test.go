package dramchk

// C22 — DRAM issues commands in protocol-legal order and timing; every request
// completes and reads return the last written data (the DRAM part of C16 is a
// by-product of the same executions).

import (
	"testing"

	"pgregory.net/rapid"

	"verif/harness/kit"
)

// ------------------------------------------------------------- the generator

func genC22(rt *rapid.T) c22Case {
	c := c22Case{}
	c.Preset = rapid.SampledFrom(presetNames).Draw(rt, "preset")
	base, _ := presetSpec(c.Preset)
	c.OpenPage = rapid.IntRange(0, 2).Draw(rt, "page") != 0

	switch rapid.IntRange(0, 7).Draw(rt, "geometry") {
	case 4:
		c.Ranks = 2
	case 5:
		c.Ranks = rapid.SampledFrom([]int{2, 4}).Draw(rt, "ranks")
		c.BankGroups = rapid.SampledFrom([]int{1, 2, 4}).Draw(rt, "bgs")
	case 6:
		c.BankGroups = rapid.SampledFrom([]int{1, 2}).Draw(rt, "bgs")
		c.Banks = rapid.SampledFrom([]int{2, 4}).Draw(rt, "banks")
	case 7:
		c.Ranks = rapid.SampledFrom([]int{1, 2}).Draw(rt, "ranks")
		c.BankGroups = rapid.SampledFrom([]int{1, 2, 4, 8}).Draw(rt, "bgs")
		c.Banks = rapid.SampledFrom([]int{1, 2, 4, 8}).Draw(rt, "banks")
	}
	if rapid.IntRange(0, 9).Draw(rt, "al") == 9 {
		c.TAL = rapid.IntRange(1, minInt(base.TRCD-1, 8)).Draw(rt, "tal")
	}
	if rapid.IntRange(0, 2).Draw(rt, "refresh") == 2 {
		c.TREFI = rapid.IntRange(100, 900).Draw(rt, "trefi")
		c.TRFC = rapid.IntRange(4, 120).Draw(rt, "trfc")
	}
	c.TransQ = rapid.SampledFrom([]int{0, 0, 6, 8, 16}).Draw(rt, "transq")
	c.CmdQ = rapid.SampledFrom([]int{0, 0, 1, 2, 4}).Draw(rt, "cmdq")
	if rapid.IntRange(0, 2).Draw(rt, "sepq") == 2 {
		c.ReadQ = rapid.IntRange(1, 8).Draw(rt, "readq")
		c.WriteQ = rapid.IntRange(1, 8).Draw(rt, "writeq")
		ranks := base.NumRank
		if c.Ranks > 0 {
			ranks = c.Ranks
		}
		c.HighWM = rapid.IntRange(1, c.WriteQ*ranks).Draw(rt, "highwm")
		c.LowWM = rapid.IntRange(0, c.HighWM-1).Draw(rt, "lowwm")
	}
	c.TopBuf = rapid.SampledFrom([]int{1, 2, 4, 16}).Draw(rt, "topbuf")
	c.ReqBuf = rapid.SampledFrom([]int{1, 2, 4, 16}).Draw(rt, "reqbuf")
	c.MaxOut = rapid.IntRange(1, 16).Draw(rt, "maxout")
	if rapid.IntRange(0, 3).Draw(rt, "slowdrain") == 3 {
		c.RspEvery = rapid.IntRange(2, 9).Draw(rt, "rspevery")
	}
	c.ReqAt1GHz = rapid.Bool().Draw(rt, "req1ghz")

	unit := base.BusWidth / 8 * base.BurstLength
	var n int
	switch rapid.IntRange(0, 9).Draw(rt, "len") {
	case 0:
		n = rapid.IntRange(1, 10).Draw(rt, "n")
	case 1, 2:
		n = rapid.IntRange(90, 300).Draw(rt, "n")
	default:
		n = rapid.IntRange(8, 80).Draw(rt, "n")
	}
	rowPool := []int{0, 1, 2, 3, 5, base.NumRow - 2, base.NumRow / 2}
	gap := func() int {
		switch rapid.IntRange(0, 9).Draw(rt, "gapclass") {
		case 9:
			return rapid.IntRange(20, 200).Draw(rt, "gap")
		case 7, 8:
			return rapid.IntRange(1, 6).Draw(rt, "gap")
		}
		return 0
	}
	shape := func(q *c22Req) {
		q.W = rapid.Bool().Draw(rt, "write")
		switch rapid.IntRange(0, 5).Draw(rt, "shape") {
		case 0:
			q.Off = rapid.IntRange(0, unit-1).Draw(rt, "off")
			q.Size = rapid.IntRange(1, 8).Draw(rt, "size")
		case 1:
			q.Off = rapid.IntRange(0, unit-1).Draw(rt, "off")
			q.Size = rapid.IntRange(1, unit).Draw(rt, "size")
		case 2:
			q.Off = rapid.IntRange(0, unit-1).Draw(rt, "off")
			q.Size = rapid.IntRange(unit, 4*unit).Draw(rt, "size")
		case 3:
			q.Size = unit * rapid.IntRange(2, 4).Draw(rt, "units")
		default:
			q.Size = unit
		}
		if q.W {
			q.Mask = rapid.SampledFrom([]int{0, 0, 0, 1, 2, 2}).Draw(rt, "mask")
		}
		q.Seed = rapid.Uint32().Draw(rt, "seed")
	}
	for len(c.Reqs) < n {
		i := len(c.Reqs)
		var q c22Req
		mode := rapid.IntRange(0, 10).Draw(rt, "mode")
		switch {
		case mode == 10:
			// bank sweep: a back-to-back run over distinct banks of one rank,
			// distinct columns (no byte overlap, so nothing serialises it): the
			// traffic that makes tRRD and the four-activate window bind
			k := rapid.IntRange(5, 12).Draw(rt, "sweep")
			rank := rapid.IntRange(0, 3).Draw(rt, "rank")
			row := rapid.SampledFrom(rowPool).Draw(rt, "row")
			first := rapid.IntRange(0, 63).Draw(rt, "firstbank")
			write := rapid.IntRange(0, 2).Draw(rt, "sweepdir") // 0 reads, 1 writes, 2 mixed
			for j := 0; j < k; j++ {
				b := first + j
				s := c22Req{Rank: rank, BG: b % 8, Bank: b / 8, Row: row, Col: 16 + (i+j)%48, Size: unit}
				s.W = write == 1 || (write == 2 && rapid.Bool().Draw(rt, "write"))
				s.Seed = rapid.Uint32().Draw(rt, "seed")
				if j == 0 {
					s.Gap = gap()
				}
				c.Reqs = append(c.Reqs, s)
			}
			continue
		case mode <= 1 && i > 0 && rapid.Bool().Draw(rt, "readback"):
			// read back exactly what an earlier request touched
			p := c.Reqs[rapid.IntRange(maxInt(0, i-12), i-1).Draw(rt, "ref")]
			q = p
			q.W = false
			q.Mask = 0
		case mode <= 5 && i > 0:
			// same bank as a recent request: same row (hit) or another row (conflict)
			p := c.Reqs[rapid.IntRange(maxInt(0, i-4), i-1).Draw(rt, "near")]
			q.Rank, q.BG, q.Bank, q.Row = p.Rank, p.BG, p.Bank, p.Row
			if rapid.IntRange(0, 2).Draw(rt, "conflict") == 0 {
				q.Row = rapid.SampledFrom(rowPool).Draw(rt, "row")
			}
			q.Col = rapid.IntRange(0, 31).Draw(rt, "col")
			shape(&q)
		default:
			q.Rank = rapid.IntRange(0, 3).Draw(rt, "rank")
			q.BG = rapid.IntRange(0, 7).Draw(rt, "bg")
			q.Bank = rapid.IntRange(0, 7).Draw(rt, "bank")
			q.Row = rapid.SampledFrom(rowPool).Draw(rt, "row")
			q.Col = rapid.IntRange(0, 63).Draw(rt, "col")
			shape(&q)
		}
		q.Gap = gap()
		c.Reqs = append(c.Reqs, q)
	}
	return c
}

// ------------------------------------------------------------------ the check

const c22Rule = "case = exported preset (DefaultSpec/DDR3, DDR4, DDR5, HBM2, HBM3, GDDR6) x page policy x optional geometry tweak (ranks 1-4, bank groups 1-8, banks 1-8) x optional tAL>0 x optional scaled tREFI/tRFC x queue configuration (transaction queue 6-32, command queue 1-8, or separate read/write queues 1-8 with watermarks) x port buffers 1-16 x 1-16 outstanding x requester clock x slow response drain; script of 1-300 reads/writes (1 byte to 4 access units, unaligned, nil/all-true/partial dirty masks, read-backs of earlier ranges) placed by DRAM coordinates: same bank+row as a recent request (hit), same bank other row (conflict), random rank/group/bank, or a bank sweep (5-12 back-to-back unit-sized requests over distinct banks of one rank, which makes tRRD and tFAW bind); gaps 0-200 cycles; no two in-flight requests overlap in bytes (the requester stalls in script order). " +
	"Executed on the real dram.Comp + SerialEngine + direct connection; commands observed through hook H1. Oracles: " + assertedRelations +
	"; completion: exactly one response of the matching kind per request with RspTo=request ID and Dst=sender, nothing outstanding when Run returns, every access unit of a request got a column command of its direction before the response; data: reads equal a flat byte map updated at write acknowledgement honouring DirtyMask, never-written bytes read as zero. " +
	"Non-trivial (measured on the observed stream): open page: >=1 row conflict (PRE of an open bank then ACT of another row), >=1 row hit (second column command in one activation) and >=2 banks open at once; close page (auto-precharge, a row hit cannot exist): >=1 bank re-activated with another row and >=2 banks open at once"

type c22Outcome struct {
	probs   []problem
	steered bool
	run     *sysRun
	st      streamStats
}

func evaluate(c c22Case, allowPartialMask bool) (out c22Outcome) {
	r, steered, ok, sig, msg := execute(c, allowPartialMask)
	out.run, out.steered = r, steered
	if !ok {
		out.probs = []problem{{sig, msg}}
		return
	}
	probs, st := judgeStream(r.spec, r.cmds)
	out.st = st
	if r.budget != nil {
		// the run was cut: the stream so far is still judged (it usually shows
		// the cause), then the cut itself is reported
		out.probs = append(append(probs, r.probs...), problem{r.budget.sig, r.budget.msg})
		return
	}
	r.completionProblems()
	out.probs = append(probs, r.probs...)
	return
}

func TestC22Stream(t *testing.T) {
	s := kit.Begin(t, "C22", "stream", c22Rule)
	defer s.End()
	s.Assume("hook H1 (dram.VerifObserveCommands) reports each command at the moment bankTickMW.issue applies it, with Tick = State.TickCount (incremented once per controller tick); checked per case: ticks strictly increase between commands and never advance faster than the controller clock")
	s.Assume("bounds are computed from base parameters of the built component's Spec; the GDDR/HBM family is recognised by the protocol numbers of the exported presets")
	s.Assume("geometry is bounded to <= 4 ranks x 8 groups x 8 banks, scripts to <= 300 requests; production-size streams are not sampled")
	s.Extra("asserted_relations", assertedRelations)

	maxEventPct, maxCmdPct := 0, 0
	run := func(f kit.Failer, c c22Case) {
		_, maskKnown := s.IsKnown(sigDirtyMask)
		o := evaluate(c, !maskKnown)
		if len(o.probs) > 0 {
			p := o.probs[0]
			s.Fail(f, c, p.sig, "%s", p.msg)
			return
		}
		if o.steered {
			s.Excluded(1)
		}
		r, st := o.run, o.st
		spec := r.spec
		nt := false
		classes := []string{c.Preset}
		if c.OpenPage {
			classes = append(classes, "open-page")
			nt = st.RowConflicts >= 1 && st.RowHits >= 1 && st.MaxOpenBanks >= 2
		} else {
			classes = append(classes, "close-page")
			nt = st.RowChanges >= 1 && st.MaxOpenBanks >= 2
		}
		add := func(cond bool, name string) {
			if cond {
				classes = append(classes, name)
			}
		}
		add(spec.ReadQueueSize > 0 && spec.WriteQueueSize > 0, "separate-rw-queues")
		add(st.RowHits > 0, "row-hit")
		add(st.RowConflicts > 0, "row-conflict")
		add(st.MaxOpenBanks >= 2, "banks-open-concurrently")
		add(st.RanksTouched >= 2, "ranks>=2")
		add(st.FawWindows > 0, "tfaw-window-judged")
		add(st.TightPairs > 0, "separation-exactly-at-bound")
		add(spec.TREFI > 0 && st.LastTick > uint64(spec.TREFI), "command-after-refresh-window")
		add(c.TREFI > 0, "scaled-refresh")
		add(c.TREFI == 0 && spec.TREFI > 0 && st.LastTick > uint64(spec.TREFI), "preset-refresh-crossed")
		add(c.TAL > 0, "tal>0")
		add(r.maskedWrites > 0, "masked-write-sent")
		add(o.steered, "partial-mask-steered-away")
		add(r.multiUnit > 0, "multi-unit-request")
		add(r.readOfWrite > 0, "read-of-written-bytes")
		add(r.nonZeroReads > 0, "read-saw-written-data")
		add(r.sendBlocked > 0, "requester-backpressured")
		add(r.overlapStall > 0, "overlap-stall")
		add(r.maxInflight >= 8, "inflight>=8")
		add(st.PreOnClosed > 0, "pre-on-closed-bank")
		add(st.Unmodelled > 0, "unmodelled-command-kind")
		add(len(r.reqs) >= 90, "long-script")
		for k, v := range st.Judged {
			s.AddExtra("judged "+k, v)
		}
		for k, v := range st.Tight {
			s.AddExtra("at-bound "+k, v)
		}
		if r.events*1000/r.eventBudget > maxEventPct {
			maxEventPct = r.events * 1000 / r.eventBudget
			s.Extra("max_event_budget_used_permille", maxEventPct)
			s.Extra("max_event_budget_case", []int{r.events, len(r.reqs), r.eventBudget})
		}
		if len(r.cmds)*100/r.cmdBudget > maxCmdPct {
			maxCmdPct = len(r.cmds) * 100 / r.cmdBudget
			s.Extra("max_command_budget_used_pct", maxCmdPct)
		}
		s.AddExtra("commands_judged", st.Cmds)
		s.AddExtra("separations_checked", st.CheckedPairs)
		s.AddExtra("requests_completed", len(r.reqs))
		s.Note(c, nt, classes...)
	}

	var c c22Case
	if ok, err := kit.LoadReplay("C22", "stream", &c); ok {
		if err != nil {
			t.Fatal(err)
		}
		run(t, c)
		return
	} else if kit.ReplayMode() {
		t.Skip()
	}

	kit.SetChecks(1200, 4000)
	rapid.Check(t, func(rt *rapid.T) { run(rt, genC22(rt)) })
}

// dirtyMaskCase is the minimal input of the repaired finding
// dram-write-ignores-dirtymask (found by TestC22Stream, fixed by /repo commit
// b21559e3): one two-byte write whose DirtyMask excludes a byte, then a read of
// both bytes.
func dirtyMaskCase() c22Case {
	return c22Case{
		Preset: "DDR4", OpenPage: true, TopBuf: 4, ReqBuf: 4, MaxOut: 1,
		Reqs: []c22Req{
			{W: true, Size: 2, Mask: 2, Seed: 1},
			{W: false, Size: 2},
		},
	}
}

// TestC22DirtyMaskRegression is a plain regression: any failure is a violation.
func TestC22DirtyMaskRegression(t *testing.T) {
	s := kit.Begin(t, "C22", "dirtymask-regression",
		"deterministic regression of a repaired finding, every preset x both page policies: write of 2 bytes at address 0 with a partial DirtyMask, then read of the same 2 bytes; the byte excluded by the mask must still read as zero")
	defer s.End()
	check := func(c c22Case) bool {
		o := evaluate(c, true)
		for _, p := range o.probs {
			s.Fail(t, c, p.sig, "%s", p.msg)
			return false
		}
		if o.run.maskedWrites == 0 {
			t.Fatalf("harness: the regression did not send a masked write")
		}
		s.Note(c, false, c.Preset) // fixed tiny inputs: never counted as non-trivial
		return true
	}
	var rc c22Case
	if ok, err := kit.LoadReplay("C22", "dirtymask-regression", &rc); ok {
		if err != nil {
			t.Fatal(err)
		}
		check(rc)
		return
	} else if kit.ReplayMode() {
		t.Skip()
	}
	for _, preset := range presetNames {
		for _, open := range []bool{true, false} {
			c := dirtyMaskCase()
			c.Preset, c.OpenPage = preset, open
			if !check(c) {
				return
			}
		}
	}
}
