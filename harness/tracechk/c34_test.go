package tracechk

import (
	"fmt"
	"sort"
	"strings"
	"testing"

	"github.com/sarchlab/akita/v5/hooking"
	"github.com/sarchlab/akita/v5/timing"
	"github.com/sarchlab/akita/v5/tracing"
	"pgregory.net/rapid"

	"verif/harness/kit"
)

// ---------------------------------------------------------------------------
// shared by C34 and C36: a fake clock and a minimal tracing domain. Events are
// emitted the way components do it: tracing.StartTask(domain, ...) etc. with a
// tracer attached through tracing.CollectTrace; the tracing API stamps the event
// time from domain.CurrentTime().
// ---------------------------------------------------------------------------

type fakeClock struct{ now timing.VTimeInPicoSec }

func (c *fakeClock) CurrentTime() timing.VTimeInPicoSec { return c.now }

type fakeDomain struct {
	*hooking.HookableBase
	name string
	clk  *fakeClock
}

func newFakeDomain(name string, clk *fakeClock) *fakeDomain {
	return &fakeDomain{HookableBase: hooking.NewHookableBase(), name: name, clk: clk}
}

func (d *fakeDomain) Name() string                       { return d.name }
func (d *fakeDomain) CurrentTime() timing.VTimeInPicoSec { return d.clk.now }

// ---------------------------------------------------------------------------
// C34 case
// ---------------------------------------------------------------------------

type c34Ev struct {
	Op   string `json:"op"` // start | end | tag
	T    uint64 `json:"t"`
	ID   uint64 `json:"id"`
	Kind string `json:"kind,omitempty"`
	What string `json:"what,omitempty"` // task "what" for start, tag name for tag
}

type c34Case struct {
	FilterMode    string   `json:"filter_mode"` // all | kind | what | kindwhat | none
	FilterKind    string   `json:"filter_kind,omitempty"`
	FilterWhat    string   `json:"filter_what,omitempty"`
	NilBusyFilter bool     `json:"nil_busy_filter,omitempty"` // only with mode all: BusyTimeTracer accepts a nil filter
	Events        []c34Ev  `json:"events"`
	Terminate     bool     `json:"terminate,omitempty"` // BusyTimeTracer.TerminateAllTasks(TermT) after the last event
	TermT         uint64   `json:"term_t,omitempty"`
	Steer         []string `json:"steer,omitempty"`
}

func (c c34Case) pass(kind, what string) bool {
	switch c.FilterMode {
	case "all":
		return true
	case "kind":
		return kind == c.FilterKind
	case "what":
		return what == c.FilterWhat
	case "kindwhat":
		return kind == c.FilterKind && what == c.FilterWhat
	}
	return false
}

const (
	sigAvgTrunc = "average:running-mean-truncation"
	sigBusyChn  = "busy:chained-overlap"
)

type c34Verdict struct{ sig, msg string }

type c34Ival struct {
	id    uint64
	s, e  uint64
	ended bool
}

type c34Stats struct {
	tracked, trackedEnded, untracked int
	overlapPair, nested, abut, zero  bool
	chain, prefixInexact, sumNotDiv  bool
	ties, huge, unended              bool
	tagInflight, tagEnded, tagUntracked, tagUnknown,
	tagAmbiguous, endUnknown bool
	busyAsserted bool
}

func touch(a, b c34Ival) bool { return a.s <= b.e && b.s <= a.e }
func posOverlap(a, b c34Ival) bool {
	lo, hi := a.s, a.e
	if b.s > lo {
		lo = b.s
	}
	if b.e < hi {
		hi = b.e
	}
	return hi > lo
}

// hasChain: there are tracked intervals a, b, c, a the first started of the
// three, with a∩b ≠ ∅, b∩c of positive length and a∩c = ∅ (the "chained" shape
// of the property statement). It is the input class of the listed busy-time
// finding: taskBusyTime forms groups {first uncovered interval s + every
// uncovered interval touching s} and adds the hull of each group; every hull is
// inside the union, so the result is wrong iff two hulls overlap in positive
// length, i.e. some member b of one group overlaps some member c of another;
// with a = the seed of the group formed first, a touches b (or c), does not
// touch the other, and was started before both.
func hasChain(iv []c34Ival) bool {
	for i := range iv {
		for j := i + 1; j < len(iv); j++ {
			if !touch(iv[i], iv[j]) {
				continue
			}
			for k := i + 1; k < len(iv); k++ {
				if k == j || touch(iv[i], iv[k]) {
					continue
				}
				if posOverlap(iv[j], iv[k]) {
					return true
				}
			}
		}
	}
	return false
}

func unionLen(iv []c34Ival) uint64 {
	if len(iv) == 0 {
		return 0
	}
	s := append([]c34Ival(nil), iv...)
	sort.Slice(s, func(i, j int) bool {
		if s[i].s != s[j].s {
			return s[i].s < s[j].s
		}
		return s[i].e < s[j].e
	})
	var total uint64
	cs, ce := s[0].s, s[0].e
	for _, x := range s[1:] {
		if x.s > ce {
			total += ce - cs
			cs, ce = x.s, x.e
			continue
		}
		if x.e > ce {
			ce = x.e
		}
	}
	return total + (ce - cs)
}

// judge34 runs the four aggregate tracers on the case (all attached to one
// domain, as in tracing's ExampleTracer) and compares with the exact model.
// Each tracer is judged on its own: they share no state, so a failure of one
// does not invalidate the model of another.
func judge34(c c34Case) (vs []c34Verdict, st c34Stats) {
	clk := &fakeClock{}
	dom := newFakeDomain("Dom", clk)
	filter := func(t tracing.TaskStart) bool { return c.pass(t.Kind, t.What) }
	total := tracing.NewTotalTimeTracer(filter)
	avg := tracing.NewAverageTimeTracer(filter)
	var busy *tracing.BusyTimeTracer
	if c.NilBusyFilter && c.FilterMode == "all" {
		busy = tracing.NewBusyTimeTracer(nil)
	} else {
		busy = tracing.NewBusyTimeTracer(filter)
	}
	tags := tracing.NewTagCountTracer(filter)
	tracing.CollectTrace(dom, total)
	tracing.CollectTrace(dom, avg)
	tracing.CollectTrace(dom, busy)
	tracing.CollectTrace(dom, tags)

	// model
	type mt struct {
		ival     c34Ival
		inflight bool
	}
	tracked := map[uint64]*mt{}
	var order []*mt // start order
	var endOrder []*mt
	known := map[uint64]bool{} // every started task id (tracked or not)
	tagCount := map[string]uint64{}
	strict := map[string]map[uint64]bool{} // tag name -> tracked tasks tagged while in flight
	anyTime := map[string]map[uint64]bool{}
	seenT := map[uint64]bool{}
	var lastT uint64

	ok, psig, pmsg := kit.Guard(func() {
		for _, ev := range c.Events {
			clk.now = timing.VTimeInPicoSec(ev.T)
			if seenT[ev.T] {
				st.ties = true
			}
			seenT[ev.T] = true
			lastT = ev.T
			switch ev.Op {
			case "start":
				tracing.StartTask(dom, tracing.TaskStart{ID: ev.ID, Kind: ev.Kind, What: ev.What})
				known[ev.ID] = true
				if c.pass(ev.Kind, ev.What) {
					m := &mt{ival: c34Ival{id: ev.ID, s: ev.T}, inflight: true}
					tracked[ev.ID] = m
					order = append(order, m)
				} else {
					st.untracked++
				}
			case "end":
				tracing.EndTask(dom, tracing.TaskEnd{ID: ev.ID})
				if m, ok := tracked[ev.ID]; ok && m.inflight {
					m.inflight = false
					m.ival.e = ev.T
					m.ival.ended = true
					endOrder = append(endOrder, m)
				} else if !known[ev.ID] {
					st.endUnknown = true
				}
			case "tag":
				tracing.AddTaskTag(dom, tracing.TaskTag{TaskID: ev.ID, What: ev.What})
				tagCount[ev.What]++
				if anyTime[ev.What] == nil {
					anyTime[ev.What] = map[uint64]bool{}
					strict[ev.What] = map[uint64]bool{}
				}
				anyTime[ev.What][ev.ID] = true
				m, isTracked := tracked[ev.ID]
				switch {
				case isTracked && m.inflight:
					strict[ev.What][ev.ID] = true
					st.tagInflight = true
				case isTracked:
					st.tagEnded = true
				case known[ev.ID]:
					st.tagUntracked = true
				default:
					st.tagUnknown = true // unknown, or not yet started
				}
			}
		}
		if c.Terminate {
			busy.TerminateAllTasks(timing.VTimeInPicoSec(c.TermT))
		}
	})
	if !ok {
		return []c34Verdict{{psig, pmsg}}, st
	}
	_ = lastT

	// ---- oracles ----
	var sum uint64
	var n uint64
	running := uint64(0)
	for i, m := range endOrder {
		d := m.ival.e - m.ival.s
		sum += d
		n++
		running += d
		if running%uint64(i+1) != 0 {
			st.prefixInexact = true
		}
		if d == 0 {
			st.zero = true
		}
		if d >= 1<<39 {
			st.huge = true
		}
	}
	st.tracked = len(order)
	st.trackedEnded = int(n)
	st.sumNotDiv = n > 0 && sum%n != 0

	if got := uint64(total.TotalTime()); got != sum {
		vs = append(vs, c34Verdict{"total", fmt.Sprintf("TotalTime()=%d want %d (sum of %d filtered durations)", got, sum, n)})
	}

	wantAvg := uint64(0)
	if n > 0 {
		wantAvg = sum / n
	}
	if got := avg.TotalCount(); got != n {
		vs = append(vs, c34Verdict{"average:count", fmt.Sprintf("TotalCount()=%d want %d", got, n)})
	} else if got := uint64(avg.AverageTime()); got != wantAvg {
		sig := "average"
		if st.prefixInexact {
			sig = sigAvgTrunc
		}
		vs = append(vs, c34Verdict{sig, fmt.Sprintf("AverageTime()=%d want floor(%d/%d)=%d", got, sum, n, wantAvg)})
	}

	// busy: intervals of tracked tasks; a task still open is closed by
	// TerminateAllTasks at TermT. Without that call the interval of an open task
	// is undefined and busy time is not judged.
	var iv []c34Ival
	busyDefined := true
	for _, m := range order {
		x := m.ival
		if !x.ended {
			st.unended = true
			if !c.Terminate {
				busyDefined = false
			}
			x.e = c.TermT
		}
		iv = append(iv, x)
	}
	for i := range iv {
		for j := i + 1; j < len(iv); j++ {
			if posOverlap(iv[i], iv[j]) {
				st.overlapPair = true
				if (iv[i].s <= iv[j].s && iv[j].e <= iv[i].e) || (iv[j].s <= iv[i].s && iv[i].e <= iv[j].e) {
					st.nested = true
				}
			} else if iv[i].e == iv[j].s || iv[j].e == iv[i].s {
				st.abut = true
			}
		}
	}
	st.chain = hasChain(iv)
	st.busyAsserted = busyDefined
	if busyDefined {
		want := unionLen(iv)
		if got := uint64(busy.BusyTime()); got != want {
			sig := "busy"
			if st.chain {
				sig = sigBusyChn
			}
			vs = append(vs, c34Verdict{sig, fmt.Sprintf("BusyTime()=%d want %d (union of %d intervals)", got, want, len(iv))})
		}
	}

	// tag counts
	names := tags.GetTagNames()
	nameSet := map[string]bool{}
	for _, nm := range names {
		if nameSet[nm] {
			vs = append(vs, c34Verdict{"tagcount:names", fmt.Sprintf("GetTagNames() lists %q twice: %v", nm, names)})
		}
		nameSet[nm] = true
	}
	if len(nameSet) != len(tagCount) {
		vs = append(vs, c34Verdict{"tagcount:names", fmt.Sprintf("GetTagNames()=%v want the %d names %v", names, len(tagCount), keys(tagCount))})
	}
	for _, nm := range keys(tagCount) {
		if !nameSet[nm] {
			vs = append(vs, c34Verdict{"tagcount:names", fmt.Sprintf("GetTagNames()=%v lacks %q", names, nm)})
		}
		if got := tags.GetTagCount(nm); got != tagCount[nm] {
			vs = append(vs, c34Verdict{"tagcount:tags", fmt.Sprintf("GetTagCount(%q)=%d want %d", nm, got, tagCount[nm])})
		}
		// distinct tracked tasks carrying the tag. "Tracked" is what the tracer
		// documents: from StartTask of a task that passes the filter ("begins
		// tracking") to its EndTask ("stops tracking the task"); a tag that
		// reaches the id before its start or after its end is counted as a tag
		// but not as a task carrying it.
		want := uint64(len(strict[nm]))
		for id := range anyTime[nm] {
			if _, isTracked := tracked[id]; isTracked && !strict[nm][id] {
				st.tagAmbiguous = true
			}
		}
		if got := tags.GetTaskCount(nm); got != want {
			sig := "tagcount:tasks"
			if st.tagAmbiguous {
				sig = "tagcount:tasks:tag-outside-lifetime"
			}
			vs = append(vs, c34Verdict{sig, fmt.Sprintf("GetTaskCount(%q)=%d want %d", nm, got, want)})
		}
	}
	if got := tags.GetTagCount("never-used-name"); got != 0 {
		vs = append(vs, c34Verdict{"tagcount:tags", fmt.Sprintf("GetTagCount(unused)=%d want 0", got)})
	}
	return vs, st
}

func keys[V any](m map[string]V) []string {
	ks := make([]string, 0, len(m))
	for k := range m {
		ks = append(ks, k)
	}
	sort.Strings(ks)
	return ks
}

// ---------------------------------------------------------------------------
// generator
// ---------------------------------------------------------------------------

type gtask struct {
	s, e     uint64
	tbS, tbE int
	noise    bool
}

type gen34 struct {
	rt       *rapid.T
	u        uint64 // time unit of the case
	safe     bool   // busy steering: only chain-free shapes
	tasks    []gtask
	maxTasks int
}

func (g *gen34) room() bool { return len(g.tasks) < g.maxTasks }

func (g *gen34) mul(lo, hi int, label string) uint64 {
	return g.u * uint64(rapid.IntRange(lo, hi).Draw(g.rt, label))
}

func (g *gen34) add(s, e uint64) {
	tbS := rapid.IntRange(0, 3).Draw(g.rt, "tbS")
	tbE := rapid.IntRange(0, 3).Draw(g.rt, "tbE")
	if s == e && tbE < tbS {
		tbE = tbS
	}
	g.tasks = append(g.tasks, gtask{s: s, e: e, tbS: tbS, tbE: tbE})
}

// block lays one shape starting at `at` and returns the largest end time.
func (g *gen34) block(at uint64, depth int) uint64 {
	kinds := []string{"single", "disjoint", "abut", "clique", "nest", "zero"}
	if !g.safe {
		kinds = append(kinds, "chain", "chain", "soup")
	}
	if depth <= 0 {
		kinds = kinds[:4]
	}
	maxEnd := at
	up := func(e uint64) {
		if e > maxEnd {
			maxEnd = e
		}
	}
	switch rapid.SampledFrom(kinds).Draw(g.rt, "shape") {
	case "single":
		e := at + g.mul(0, 9, "len")
		g.add(at, e)
		up(e)
	case "zero":
		k := rapid.IntRange(1, 3).Draw(g.rt, "k")
		for i := 0; i < k && g.room(); i++ {
			g.add(at, at)
		}
	case "disjoint":
		k := rapid.IntRange(2, 4).Draw(g.rt, "k")
		cur := at
		for i := 0; i < k && g.room(); i++ {
			e := cur + g.mul(0, 6, "len")
			g.add(cur, e)
			up(e)
			cur = e + g.mul(1, 3, "gap")
		}
	case "abut":
		k := rapid.IntRange(2, 5).Draw(g.rt, "k")
		cur := at
		for i := 0; i < k && g.room(); i++ {
			e := cur + g.mul(0, 6, "len")
			g.add(cur, e)
			up(e)
			if rapid.IntRange(0, 4).Draw(g.rt, "junction-zero") == 0 && g.room() {
				g.add(e, e)
			}
			cur = e
		}
	case "clique":
		// all intervals contain the point p: pairwise intersecting
		k := rapid.IntRange(2, 5).Draw(g.rt, "k")
		p := at + g.mul(0, 6, "p")
		for i := 0; i < k && g.room(); i++ {
			back := g.mul(0, 6, "back")
			if back > p-at {
				back = p - at
			}
			e := p + g.mul(0, 6, "fwd")
			g.add(p-back, e)
			up(e)
		}
	case "nest":
		// hub first, children blocks inside it
		hubIdx := len(g.tasks)
		g.add(at, at) // end fixed below
		off := g.mul(0, 2, "off")
		if g.safe && off == 0 {
			off = g.u // the hub must be the first started
		}
		cur := at + off
		k := rapid.IntRange(1, 3).Draw(g.rt, "children")
		for i := 0; i < k && g.room(); i++ {
			e := g.block(cur, depth-1)
			up(e)
			gapLo := 0
			if g.safe {
				gapLo = 1
			}
			cur = e + g.mul(gapLo, 2, "gap")
		}
		end := maxEnd + g.mul(0, 3, "tail")
		g.tasks[hubIdx].e = end
		if end == at && g.tasks[hubIdx].tbE < g.tasks[hubIdx].tbS {
			g.tasks[hubIdx].tbE = g.tasks[hubIdx].tbS
		}
		up(end)
	case "chain":
		// [at+i*a, at+i*a+b], a < b < 2a: neighbours overlap, second neighbours do not
		k := rapid.IntRange(3, 6).Draw(g.rt, "k")
		m := rapid.IntRange(2, 5).Draw(g.rt, "m")
		a := g.u * uint64(m)
		b := a + g.u*uint64(rapid.IntRange(1, m-1).Draw(g.rt, "j"))
		for i := 0; i < k && g.room(); i++ {
			s := at + uint64(i)*a
			g.add(s, s+b)
			up(s + b)
		}
	case "soup":
		k := rapid.IntRange(2, 6).Draw(g.rt, "k")
		for i := 0; i < k && g.room(); i++ {
			s := at + g.mul(0, 8, "s")
			e := s + g.mul(0, 8, "len")
			g.add(s, e)
			up(e)
		}
	}
	return maxEnd
}

func lcmUpTo(n int) uint64 {
	l := uint64(1)
	for i := 2; i <= n; i++ {
		a, b := l, uint64(i)
		for b != 0 {
			a, b = b, a%b
		}
		l = l / a * uint64(i)
	}
	return l
}

var (
	c34Kinds = []string{"k0", "k0", "k1", "req_in"}
	c34Whats = []string{"w0", "w0", "w1"}
	c34Tags  = []string{"hit", "miss", "t2"}
)

func genC34(rt *rapid.T, steerAvg, steerBusy bool) c34Case {
	c := c34Case{}
	c.FilterMode = rapid.SampledFrom([]string{"all", "all", "kind", "kind", "kind", "what", "what", "kindwhat", "none"}).Draw(rt, "filter")
	c.FilterKind, c.FilterWhat = "k0", "w0"
	if c.FilterMode == "all" {
		c.NilBusyFilter = rapid.Bool().Draw(rt, "nilBusyFilter")
	}
	g := &gen34{rt: rt, safe: steerBusy, maxTasks: rapid.IntRange(1, 24).Draw(rt, "maxTasks")}
	units := []uint64{1, 1, 1, 3, 1000, 1 << 20, 1 << 36}
	if steerAvg {
		units = []uint64{1, 1, 1, 3, 1000, 1 << 20}
		if g.maxTasks > 16 {
			g.maxTasks = 16
		}
	}
	if steerBusy {
		c.Steer = append(c.Steer, "busy: chain-free shapes, separated blocks, no open tasks")
	}
	g.u = rapid.SampledFrom(units).Draw(rt, "unit")

	cur := g.mul(0, 3, "t0")
	var prevStart uint64
	for g.room() {
		prevStart = cur
		end := g.block(cur, 2)
		switch {
		case g.safe:
			cur = end + g.mul(1, 3, "gap")
		default:
			switch rapid.IntRange(0, 5).Draw(rt, "next") {
			case 0:
				cur = end // abutting blocks
			case 1: // reach back into the previous block
				cur = prevStart + g.mul(0, 4, "back")
			default:
				cur = end + g.mul(0, 3, "gap")
			}
		}
		if rapid.IntRange(0, 3).Draw(rt, "stop") == 0 {
			break
		}
	}
	if !steerAvg && !g.safe && rapid.IntRange(0, 7).Draw(rt, "huge") == 0 {
		// one task with a duration at the top of the range (2^40)
		d := uint64(1<<40) - uint64(rapid.IntRange(0, 3).Draw(rt, "hd"))
		g.add(cur, cur+d)
	}
	// noise tasks of a kind the k0/w0 filters reject: arbitrary shape
	if c.FilterMode != "all" || !g.safe {
		k := rapid.IntRange(0, 4).Draw(rt, "noise")
		for i := 0; i < k; i++ {
			s := g.mul(0, 20, "ns")
			g.add(s, s+g.mul(0, 20, "nlen"))
			g.tasks[len(g.tasks)-1].noise = true
		}
	}

	// events
	type kev struct {
		ev c34Ev
		tb int
	}
	var evs []kev
	someOpen := !g.safe && rapid.IntRange(0, 3).Draw(rt, "someOpen") == 0
	var maxT uint64
	for i, tk := range g.tasks {
		id := uint64(i + 1)
		kind := rapid.SampledFrom(c34Kinds).Draw(rt, "kind")
		what := rapid.SampledFrom(c34Whats).Draw(rt, "what")
		if tk.noise {
			kind, what = "noise", "noise"
		}
		evs = append(evs, kev{c34Ev{Op: "start", T: tk.s, ID: id, Kind: kind, What: what}, tk.tbS})
		if tk.s > maxT {
			maxT = tk.s
		}
		if someOpen && rapid.IntRange(0, 3).Draw(rt, "open") == 0 {
			continue
		}
		evs = append(evs, kev{c34Ev{Op: "end", T: tk.e, ID: id}, tk.tbE})
		if tk.e > maxT {
			maxT = tk.e
		}
	}
	// tags and ends of unknown ids at times of existing events (or just after)
	times := make([]uint64, 0, len(evs))
	for _, e := range evs {
		times = append(times, e.ev.T)
	}
	nx := rapid.IntRange(0, 10).Draw(rt, "extras")
	for i := 0; i < nx; i++ {
		t := rapid.SampledFrom(times).Draw(rt, "xt")
		if rapid.IntRange(0, 2).Draw(rt, "xshift") == 0 {
			t += g.mul(0, 2, "xd")
		}
		if t > maxT {
			maxT = t
		}
		id := uint64(rapid.IntRange(1, len(g.tasks)+1).Draw(rt, "xid")) // len+1: never started
		if rapid.IntRange(0, 5).Draw(rt, "xkind") == 0 {
			evs = append(evs, kev{c34Ev{Op: "end", T: t, ID: uint64(len(g.tasks) + 1)}, rapid.IntRange(0, 4).Draw(rt, "xtb")})
			continue
		}
		evs = append(evs, kev{c34Ev{Op: "tag", T: t, ID: id, What: rapid.SampledFrom(c34Tags).Draw(rt, "tag")}, rapid.IntRange(0, 4).Draw(rt, "xtb")})
	}
	sort.SliceStable(evs, func(i, j int) bool {
		if evs[i].ev.T != evs[j].ev.T {
			return evs[i].ev.T < evs[j].ev.T
		}
		return evs[i].tb < evs[j].tb
	})
	for _, e := range evs {
		c.Events = append(c.Events, e.ev)
	}
	c.Terminate = someOpen || rapid.IntRange(0, 7).Draw(rt, "term") == 0
	if c.Terminate {
		c.TermT = maxT + g.mul(0, 2, "termd")
	}
	if steerAvg {
		// every duration becomes a multiple of lcm(1..n): every prefix mean is exact
		l := lcmUpTo(len(g.tasks))
		top := maxT
		if c.TermT > top {
			top = c.TermT
		}
		if top < (1<<62)/(l*uint64(len(g.tasks)+1)) { // sums stay far below 2^64
			for i := range c.Events {
				c.Events[i].T *= l
			}
			c.TermT *= l
			c.Steer = append(c.Steer, "average: all times scaled by lcm(1..n)")
		}
	}
	return c
}

func c34Classes(c c34Case, st c34Stats) (bool, []string) {
	var cl []string
	add := func(b bool, s string) {
		if b {
			cl = append(cl, s)
		}
	}
	add(st.chain, "chained(a∩b,b∩c,¬a∩c)")
	add(st.chain && st.tracked >= 3, "chained>=3-tracked")
	add(st.sumNotDiv && st.trackedEnded >= 3, "sum-not-divisible-n>=3")
	add(st.prefixInexact, "some-prefix-mean-inexact")
	add(st.overlapPair, "overlap")
	add(st.nested, "nested")
	add(st.abut, "abutting")
	add(st.zero, "zero-length")
	add(st.ties, "same-instant-events")
	add(st.huge, "duration>=2^39")
	add(st.unended, "open-task+TerminateAllTasks")
	add(c.Terminate && !st.unended, "TerminateAllTasks-redundant")
	add(!st.busyAsserted, "busy-not-judged")
	add(st.untracked > 0 && st.tracked > 0, "filter-splits")
	add(st.tracked == 0, "nothing-tracked")
	add(st.tagInflight, "tag-on-tracked-inflight")
	add(st.tagEnded, "tag-on-ended")
	add(st.tagUntracked, "tag-on-untracked")
	add(st.tagUnknown, "tag-on-unknown-or-unstarted")
	add(st.tagAmbiguous, "tag-on-tracked-id-outside-its-lifetime")
	add(st.endUnknown, "end-of-unknown-id")
	add(len(c.Steer) > 0, "steered")
	cl = append(cl, "filter="+c.FilterMode)
	nt := st.trackedEnded >= 3 && st.overlapPair
	return nt, cl
}

func TestC34Aggregate(t *testing.T) {
	s := kit.Begin(t, "C34", "aggregate",
		"time-ordered start/end/tag streams (ties in every order) built from shape blocks: single, disjoint, abutting(+zero-length at junctions), clique, nested(recursive), zero-length, chained(k=3..6), soup; blocks abut/overlap/are apart; unit in {1,3,1e3,2^20,2^36}, one 2^40 task; filter all/kind/what/kind+what/none; tags and ends on in-flight, ended, untracked, unknown ids; some tasks left open and closed by TerminateAllTasks. All four tracers attached to one domain through tracing.CollectTrace and driven by tracing.StartTask/EndTask/AddTaskTag with a fake clock. Oracles: exact integer sum, floor(sum/n), sort-and-merge union, tag and distinct-task counts. Non-trivial: >=3 tracked completed tasks with at least one overlapping pair")
	defer s.End()
	s.Assume("task ids are unique (never reused), every task is started at most once and ended at most once after its start")
	s.Assume("busy time is judged only when every tracked task was ended or TerminateAllTasks was called (the interval of an open task is undefined)")
	s.Assume("'tracked task' is read as the tracer documents it: a task that passed the filter, between its StartTask and its EndTask; tags outside that lifetime count as tags, not as tasks carrying the tag")

	run := func(f kit.Failer, c c34Case) {
		vs, st := judge34(c)
		for _, st := range c.Steer {
			// harness self-check: a steered case must be outside the class of the listed finding
			for _, v := range vs {
				if (strings.HasPrefix(st, "average") && v.sig == sigAvgTrunc) || (strings.HasPrefix(st, "busy") && v.sig == sigBusyChn) {
					f.Fatalf("harness self-check: steered case (%s) still fails with %s: %s", st, v.sig, v.msg)
				}
			}
		}
		for _, v := range vs {
			// the tracers are independent objects: a listed finding of one does
			// not corrupt the judgement of the others, so keep going.
			s.Fail(f, c, v.sig, "%s", v.msg)
		}
		nt, cl := c34Classes(c, st)
		s.Note(c, nt, cl...)
	}

	var c c34Case
	if ok, err := kit.LoadReplay("C34", "aggregate", &c); ok {
		if err != nil {
			t.Fatal(err)
		}
		run(t, c)
		return
	} else if kit.ReplayMode() {
		t.Skip()
	}

	_, avgKnown := s.IsKnown(sigAvgTrunc)
	_, busyKnown := s.IsKnown(sigBusyChn)
	kit.SetChecks(20_000, 200_000)
	rapid.Check(t, func(rt *rapid.T) {
		// While a finding is listed, half of the cases are steered out of its
		// input class by construction so that the tracer keeps being judged.
		steerAvg := avgKnown && rapid.Bool().Draw(rt, "steerAvg")
		steerBusy := busyKnown && rapid.Bool().Draw(rt, "steerBusy")
		c := genC34(rt, steerAvg, steerBusy)
		s.Excluded(len(c.Steer))
		run(rt, c)
	})
}

// seq builds a case from explicit intervals (kind k0/what w0, filter kind=k0).
func c34FromIntervals(iv [][2]uint64) c34Case {
	c := c34Case{FilterMode: "kind", FilterKind: "k0", FilterWhat: "w0"}
	type kev struct {
		ev  c34Ev
		end bool
	}
	var evs []kev
	for i, x := range iv {
		evs = append(evs, kev{c34Ev{Op: "start", T: x[0], ID: uint64(i + 1), Kind: "k0", What: "w0"}, false})
		evs = append(evs, kev{c34Ev{Op: "end", T: x[1], ID: uint64(i + 1)}, true})
	}
	sort.SliceStable(evs, func(i, j int) bool { return evs[i].ev.T < evs[j].ev.T })
	for _, e := range evs {
		c.Events = append(c.Events, e.ev)
	}
	return c
}

func c34Known(t *testing.T, sub, sig string, c c34Case, what string) {
	if kit.ReplayMode() {
		t.Skip()
	}
	s := kit.Begin(t, "C34", sub, "dedicated reproduction of a listed finding: "+what)
	defer s.End()
	vs, st := judge34(c)
	_, cl := c34Classes(c, st)
	s.Note(c, false, cl...)
	for _, v := range vs {
		if v.sig == sig {
			s.KnownStillFails(t, c, sig, v.msg)
		} else {
			s.Fail(t, c, v.sig, "%s", v.msg)
		}
	}
	if len(vs) == 0 {
		t.Logf("C34 %s no longer reproduces", sig)
	}
}

func TestC34Known_AverageRunningMean(t *testing.T) {
	c34Known(t, "known-average", sigAvgTrunc,
		c34FromIntervals([][2]uint64{{0, 1}, {10, 12}, {20, 23}}),
		"three disjoint tasks of 1, 2 and 3 ps: exact mean 2")
}

func TestC34Known_BusyChain(t *testing.T) {
	c34Known(t, "known-busy", sigBusyChn,
		c34FromIntervals([][2]uint64{{0, 10}, {5, 15}, {12, 20}}),
		"chained tasks [0,10],[5,15],[12,20]: union 20")
}
