package tracechk

import (
	"context"
	"fmt"
	"os"
	"path/filepath"
	"reflect"
	"sort"
	"strings"
	"testing"

	"github.com/sarchlab/akita/v5/datarecording"
	"github.com/sarchlab/akita/v5/timing"
	"github.com/sarchlab/akita/v5/tracing"
	"pgregory.net/rapid"

	"verif/harness/kit"
)

// ---------------------------------------------------------------------------
// capturing datarecording.DataRecorder (the interface is public; DBTracer calls
// CreateTable at construction, InsertData per row, Flush in StopTracing and
// Terminate). Rows are kept as field-name -> value maps read by reflection (the
// entry struct types are unexported, their fields are exported).
// ---------------------------------------------------------------------------

type capRow map[string]any

type capRec struct {
	tables  map[string]bool
	rows    map[string][]capRow
	flushes int
	bad     []string
}

func newCapRec() *capRec {
	return &capRec{tables: map[string]bool{}, rows: map[string][]capRow{}}
}

func (r *capRec) CreateTable(name string, sample any) { r.tables[name] = true }
func (r *capRec) InsertData(name string, entry any) {
	if !r.tables[name] {
		r.bad = append(r.bad, "InsertData into table that was never created: "+name)
	}
	v := reflect.ValueOf(entry)
	for v.Kind() == reflect.Pointer {
		v = v.Elem()
	}
	row := capRow{}
	if v.Kind() == reflect.Struct {
		for i := 0; i < v.NumField(); i++ {
			if v.Type().Field(i).IsExported() {
				row[v.Type().Field(i).Name] = v.Field(i).Interface()
			}
		}
	} else {
		r.bad = append(r.bad, fmt.Sprintf("InsertData(%s) with non-struct %T", name, entry))
	}
	r.rows[name] = append(r.rows[name], row)
}
func (r *capRec) ListTables() []string { return keys(r.tables) }
func (r *capRec) Flush()               { r.flushes++ }
func (r *capRec) Close() error         { return nil }

func (w capRow) u(k string) uint64 {
	x, _ := w[k].(uint64)
	return x
}
func (w capRow) s(k string) string {
	x, _ := w[k].(string)
	return x
}
func (w capRow) f(k string) float64 {
	x, _ := w[k].(float64)
	return x
}

// ---------------------------------------------------------------------------
// C36 case: a history, interpreted event by event
// ---------------------------------------------------------------------------

type c36Ev struct {
	Op     string `json:"op"` // start | end | tag | ms | on | off
	T      uint64 `json:"t"`
	Dom    int    `json:"dom,omitempty"`
	ID     uint64 `json:"id,omitempty"` // task id
	Parent uint64 `json:"parent,omitempty"`
	Kind   string `json:"kind,omitempty"` // task kind / milestone kind
	What   string `json:"what,omitempty"`
	Loc    string `json:"loc,omitempty"`   // explicit task location; "" = derived by tracing.StartTask
	AID    uint64 `json:"aid,omitempty"`   // tag / milestone id
	Reset  bool   `json:"reset,omitempty"` // end: emitted through tracing.EndTaskOnReset (a reset path's blanket end)
}

type c36Case struct {
	Events []c36Ev  `json:"events"`
	TermT  uint64   `json:"term_t"` // Terminate() is called at this time after the last event
	Steer  []string `json:"steer,omitempty"`
}

var c36DomNames = []string{"GPU[0].L1", "Core"}

const (
	// a task that was first mentioned by a tag/milestone, was not started when
	// StartTracing ran, and then ran entirely outside every tracing window
	sigPlaceholder = "recorded-untraced:annotated-before-StartTask+StartTracing"
	// same root, the task is never started at all and EndTask is called for it
	sigGhost = "recorded-never-started:annotated+StartTracing+EndTask"
	// a task that started and ended outside every tracing window, a later
	// StartTracing, and then a second EndTask for the same id (as the reset
	// helpers emit): the finished task must stay unrecorded
	sigDupEndResurrects = "recorded-untraced:ended-while-off+later-StartTracing+duplicate-EndTask"
)

type c36Ann struct {
	ID, TaskID, T uint64
	Kind, What    string
}

type c36Task struct {
	id, parent       uint64
	kind, what, loc  string
	s, e             uint64
	started, ended   bool
	overlap          bool // running at some event point while tracing was on
	markedByOn       bool // overlap established by a StartTracing while in flight
	startedOn        bool
	poisoned         bool // had annotations but was not started when a StartTracing ran
	endedUnstarted   bool // EndTask arrived for it though it never started
	placeholder      bool // mentioned by an annotation while not started (and no EndTask since)
	ghostBug         bool // was poisoned when an EndTask arrived though it never started
	onAfterEnd       bool // a StartTracing ran after the task's (first) EndTask
	dupEnds          int  // EndTasks that arrived after the first one
	dupAfterOn       bool // a duplicate EndTask arrived after a StartTracing that followed the first end
	dupAfterOnOn     bool // ... and tracing was on when it arrived
	dupAfterOnOff    bool // ... and tracing was off (again) when it arrived
	postPlaceholder  bool // annotated after its end (and no EndTask since): a never-started placeholder in the tracer
	postPoisoned     bool // ... which a StartTracing has seen
	ghostDupBug      bool // ... and a duplicate EndTask arrived then (the input class of sigGhost)
	tagsReq, tagsOpt []c36Ann
	msReq, msOpt     []c36Ann
}

type c36Win struct{ s, e uint64 }

type c36Stats struct {
	windows, recorded, notRecorded, inflightAtTerm   int
	markedInFlight, spansWindow, dupInstant          bool
	edgeOverlap, edgeTouch, termWhileTracing         bool
	preStartAnn, postEndAnn, endUnknown, redundant   bool
	poisonedStarted, ghostEnd, tagsRecorded, derived bool
	zeroLenRecorded, neverStartedAnn                 bool

	// duplicate / blanket ends (README "Tearing down in-flight tasks on reset")
	dupEnd, dupSameInstant, dupLater, dupThird       bool
	dupWhileOn, dupWhileOff, dupViaReset             bool
	dupOfTraced, dupOfUntracedNoOn, dupAfterPostAnn  bool
	dupRecordedOnce, dupNotRecorded                  bool
	trigWhileOn, trigWhileOff, trigTouch             bool
	trigTasks                                        int
	endUnknownViaReset, firstEndViaReset, resetBurst bool
}

func expectedLoc(ev c36Ev) string {
	if ev.Loc != "" {
		return ev.Loc
	}
	name := c36DomNames[ev.Dom]
	switch ev.Kind {
	case "req_in", "req_out":
		return name + "." + ev.Kind
	case "pipeline":
		return ev.What
	}
	return name
}

// backend36 is where the DBTracer writes: the recorder handed to NewDBTracer
// and a function that returns the recorded rows after Terminate.
type backend36 struct {
	rec  datarecording.DataRecorder
	rows func() (map[string][]capRow, []string)
}

func capBackend() backend36 {
	rec := newCapRec()
	return backend36{rec: rec, rows: func() (map[string][]capRow, []string) { return rec.rows, rec.bad }}
}

func judge36(c c36Case) (vs []c34Verdict, st c36Stats) { return judge36On(c, capBackend()) }

func judge36On(c c36Case, be backend36) (vs []c34Verdict, st c36Stats) {
	clk := &fakeClock{}
	var tracer *tracing.DBTracer
	doms := []*fakeDomain{}
	fail := func(sig, format string, a ...any) { vs = append(vs, c34Verdict{sig, fmt.Sprintf(format, a...)}) }

	tasks := map[uint64]*c36Task{}
	get := func(id uint64) *c36Task {
		t := tasks[id]
		if t == nil {
			t = &c36Task{id: id}
			tasks[id] = t
		}
		return t
	}
	on := false
	var wins []c36Win
	var cur c36Win

	ok, psig, pmsg := kit.Guard(func() {
		tracer = tracing.NewDBTracer(clk, be.rec)
		for _, n := range c36DomNames {
			d := newFakeDomain(n, clk)
			tracing.CollectTrace(d, tracer)
			doms = append(doms, d)
		}
		for i, ev := range c.Events {
			clk.now = timing.VTimeInPicoSec(ev.T)
			switch ev.Op {
			case "on":
				tracer.StartTracing()
				for _, t := range tasks {
					if t.started && !t.ended {
						if !t.overlap {
							t.markedByOn = true
						}
						t.overlap = true
					} else if t.started && t.ended {
						// a finished task: nothing may change for it any more
						t.onAfterEnd = true
						t.postPoisoned = t.postPoisoned || t.postPlaceholder
					} else if !t.started && t.placeholder {
						t.poisoned = true
					}
				}
				if on {
					st.redundant = true
					break
				}
				on = true
				cur = c36Win{s: ev.T}
			case "off":
				tracer.StopTracing()
				if !on {
					st.redundant = true
					break
				}
				on = false
				cur.e = ev.T
				wins = append(wins, cur)
			case "start":
				tracing.StartTask(doms[ev.Dom], tracing.TaskStart{
					ID: ev.ID, ParentID: ev.Parent, Kind: ev.Kind, What: ev.What, Location: ev.Loc})
				t := get(ev.ID)
				if len(t.tagsReq)+len(t.msReq) > 0 {
					st.preStartAnn = true
				}
				t.started, t.s = true, ev.T
				t.parent, t.kind, t.what, t.loc = ev.Parent, ev.Kind, ev.What, expectedLoc(ev)
				t.overlap, t.startedOn = on, on
				if ev.Loc == "" {
					st.derived = true
				}
			case "end":
				if ev.Reset {
					tracing.EndTaskOnReset(doms[ev.Dom], ev.ID)
				} else {
					tracing.EndTask(doms[ev.Dom], tracing.TaskEnd{ID: ev.ID})
				}
				if i > 0 && ev.Reset && c.Events[i-1].Op == "end" && c.Events[i-1].Reset && c.Events[i-1].T == ev.T {
					st.resetBurst = true
				}
				t := tasks[ev.ID]
				switch {
				case t == nil:
					st.endUnknown = true
					st.endUnknownViaReset = st.endUnknownViaReset || ev.Reset
				case t.started && !t.ended:
					t.ended, t.e = true, ev.T
					st.firstEndViaReset = st.firstEndViaReset || ev.Reset
				case t.started && t.ended:
					// a duplicate end: the task ended at its first EndTask and there
					// is "no such task" any more, so this one is a no-op (README,
					// reset helpers). The model changes nothing; classes only.
					t.dupEnds++
					st.dupEnd = true
					t.ghostDupBug = t.ghostDupBug || t.postPoisoned
					t.postPlaceholder, t.postPoisoned = false, false
					st.dupThird = st.dupThird || t.dupEnds >= 2
					st.dupViaReset = st.dupViaReset || ev.Reset
					if ev.T == t.e {
						st.dupSameInstant = true
					} else {
						st.dupLater = true
					}
					if on {
						st.dupWhileOn = true
					} else {
						st.dupWhileOff = true
					}
					if len(t.tagsOpt)+len(t.msOpt) > 0 {
						st.dupAfterPostAnn = true
					}
					switch {
					case t.overlap:
						st.dupOfTraced = true
					case t.onAfterEnd:
						t.dupAfterOn = true
						if on {
							t.dupAfterOnOn = true
						} else {
							t.dupAfterOnOff = true
						}
					default:
						st.dupOfUntracedNoOn = true
					}
				case !t.started:
					// EndTask of an id that was only ever mentioned by annotations
					t.endedUnstarted = true
					st.ghostEnd = true
					if t.poisoned {
						t.ghostBug = true
					}
					t.poisoned, t.placeholder = false, false
				}
			case "tag":
				tracing.AddTaskTag(doms[ev.Dom], tracing.TaskTag{ID: ev.AID, TaskID: ev.ID, What: ev.What})
				t := get(ev.ID)
				t.placeholder = t.placeholder || !t.started
				a := c36Ann{ID: ev.AID, TaskID: ev.ID, T: ev.T, What: ev.What}
				if t.ended || t.endedUnstarted {
					t.postPlaceholder = t.postPlaceholder || t.ended
					t.tagsOpt = append(t.tagsOpt, a)
					st.postEndAnn = true
				} else {
					t.tagsReq = append(t.tagsReq, a)
				}
			case "ms":
				tracing.AddMilestone(doms[ev.Dom], tracing.Milestone{
					ID: ev.AID, TaskID: ev.ID, Kind: tracing.MilestoneKind(ev.Kind), What: ev.What})
				t := get(ev.ID)
				t.placeholder = t.placeholder || !t.started
				a := c36Ann{ID: ev.AID, TaskID: ev.ID, T: ev.T, Kind: ev.Kind, What: ev.What}
				if t.ended || t.endedUnstarted {
					t.postPlaceholder = t.postPlaceholder || t.ended
					t.msOpt = append(t.msOpt, a)
					st.postEndAnn = true
				} else {
					t.msReq = append(t.msReq, a)
				}
			}
		}
		clk.now = timing.VTimeInPicoSec(c.TermT)
		tracer.Terminate()
	})
	if !ok {
		return []c34Verdict{{psig, pmsg}}, st
	}
	if on {
		st.termWhileTracing = true
		cur.e = c.TermT
		wins = append(wins, cur)
	}
	st.windows = len(wins)
	var rows map[string][]capRow
	ok, psig, pmsg = kit.Guard(func() {
		var bad []string
		rows, bad = be.rows()
		for _, b := range bad {
			fail("recorder-misuse", "%s", b)
		}
	})
	if !ok {
		return []c34Verdict{{psig, pmsg}}, st
	}

	// ---- trace table ----
	rowsByID := map[uint64][]capRow{}
	for _, w := range rows["trace"] {
		rowsByID[w.u("ID")] = append(rowsByID[w.u("ID")], w)
	}
	recorded := map[uint64]bool{}
	ids := make([]uint64, 0, len(tasks))
	for id := range tasks {
		ids = append(ids, id)
	}
	sort.Slice(ids, func(i, j int) bool { return ids[i] < ids[j] })

	for _, id := range ids {
		t := tasks[id]
		rows := rowsByID[id]
		if t.ghostDupBug {
			// the placeholder that an annotation after the end created was
			// ended while marked: a row without kind/what/location is that
			// placeholder's (sigGhost's class), the rest is judged as usual
			var real []capRow
			for _, w := range rows {
				if w.s("Kind") == "" && w.s("What") == "" && w.s("Location") == "" {
					fail(sigGhost, "id %d: the placeholder left by an annotation after the task's end has a trace row %v", id, w)
				} else {
					real = append(real, w)
				}
			}
			rows = real
		}
		if len(rows) > 1 && t.started {
			fail("recorded-twice", "task %d has %d rows in the trace table", id, len(rows))
			continue
		}
		if !t.started {
			if len(t.tagsReq)+len(t.msReq)+len(t.tagsOpt)+len(t.msOpt) > 0 {
				st.neverStartedAnn = true
			}
			if len(rows) > 0 {
				sig := "recorded-never-started"
				if t.ghostBug {
					sig = sigGhost
				}
				fail(sig, "id %d was never started but has a trace row %v", id, rows[0])
			}
			continue
		}
		if !t.ended {
			st.inflightAtTerm++
			if len(rows) > 0 {
				fail("recorded-unended", "task %d had not ended at Terminate but has a trace row %v", id, rows[0])
			}
			continue
		}
		// started and ended before Terminate
		touchOnly, edgeOnly := false, t.overlap
		for _, w := range wins {
			if t.s <= w.e && w.s <= t.e { // closed intervals meet
				if !t.overlap {
					touchOnly = true
				}
				lo, hi := t.s, t.e
				if w.s > lo {
					lo = w.s
				}
				if w.e < hi {
					hi = w.e
				}
				if !(lo == hi && (lo == w.s || lo == w.e)) {
					edgeOnly = false
				}
			}
		}
		switch {
		case t.overlap:
			if edgeOnly {
				st.edgeOverlap = true
			}
			if len(rows) == 0 {
				sig := "missing:started-while-tracing"
				if t.markedByOn {
					sig = "missing:in-flight-at-StartTracing"
				}
				fail(sig, "task %d [%d,%d] ran while tracing was on (windows %v) but has no trace row", id, t.s, t.e, wins)
				continue
			}
		case touchOnly:
			// the task and a window meet only in one instant and the event order
			// puts the task outside: not determined by the statement
			st.edgeTouch = true
			if t.dupAfterOn {
				st.trigTouch = true
			}
		default:
			if t.dupAfterOn {
				st.trigTasks++
				st.trigWhileOn = st.trigWhileOn || t.dupAfterOnOn
				st.trigWhileOff = st.trigWhileOff || t.dupAfterOnOff
			}
			if len(rows) > 0 {
				sig := "recorded-untraced"
				if t.poisoned {
					sig = sigPlaceholder
				} else if t.dupAfterOn {
					sig = sigDupEndResurrects
				}
				fail(sig, "task %d [%d,%d] never ran while tracing was on (windows %v) but has a trace row %v", id, t.s, t.e, wins, rows[0])
				continue
			}
		}
		if len(rows) == 0 {
			st.notRecorded++
			if t.dupEnds > 0 {
				st.dupNotRecorded = true
			}
			continue
		}
		recorded[id] = true
		st.recorded++
		if t.dupEnds > 0 {
			// exactly one row (checked above); its end time is the first end's (below)
			st.dupRecordedOnce = true
		}
		if t.markedByOn {
			st.markedInFlight = true
		}
		if t.s == t.e {
			st.zeroLenRecorded = true
		}
		for _, w := range wins {
			if t.s < w.s && t.e > w.e {
				st.spansWindow = true
			}
		}
		if t.poisoned {
			st.poisonedStarted = true
		}
		w := rows[0]
		if w.u("ParentID") != t.parent || w.s("Kind") != t.kind || w.s("What") != t.what || w.s("Location") != t.loc ||
			w.f("StartTime") != float64(t.s) || w.f("EndTime") != float64(t.e) {
			fail("fields", "task %d row %v want parent=%d kind=%q what=%q location=%q start=%d end=%d",
				id, w, t.parent, t.kind, t.what, t.loc, t.s, t.e)
		}
	}
	for id, rows := range rowsByID {
		if tasks[id] == nil {
			fail("recorded-never-started", "trace row for id %d that was never mentioned: %v", id, rows[0])
		}
	}

	// ---- tag table ----
	annKey := func(a c36Ann) string { return fmt.Sprintf("%d|%d|%d|%s|%s", a.ID, a.TaskID, a.T, a.Kind, a.What) }
	tagRows := map[uint64][]c36Ann{}
	for _, w := range rows["tag"] {
		a := c36Ann{ID: w.u("ID"), TaskID: w.u("TaskID"), T: uint64(w.f("Time")), What: w.s("What")}
		if float64(a.T) != w.f("Time") {
			fail("annotation-fields", "tag row with non-integral time %v", w)
		}
		tagRows[a.TaskID] = append(tagRows[a.TaskID], a)
	}
	msRows := map[uint64][]c36Ann{}
	for _, w := range rows["milestone"] {
		a := c36Ann{ID: w.u("ID"), TaskID: w.u("TaskID"), T: uint64(w.f("Time")), Kind: w.s("Kind"), What: w.s("What")}
		if float64(a.T) != w.f("Time") {
			fail("annotation-fields", "milestone row with non-integral time %v", w)
		}
		msRows[a.TaskID] = append(msRows[a.TaskID], a)
	}
	for tid := range tagRows {
		if !recorded[tid] && len(rowsByID[tid]) == 0 {
			fail("orphan-annotation", "tag rows %v for task %d that has no trace row", tagRows[tid], tid)
		}
	}
	for tid := range msRows {
		if !recorded[tid] && len(rowsByID[tid]) == 0 {
			fail("orphan-annotation", "milestone rows %v for task %d that has no trace row", msRows[tid], tid)
		}
	}
	for _, id := range ids {
		if !recorded[id] {
			continue
		}
		t := tasks[id]
		// tags: every tag emitted before the task ended; tags emitted after the
		// end may or may not be there (the statement does not say)
		have := map[string]int{}
		for _, a := range tagRows[id] {
			have[annKey(a)]++
		}
		for _, a := range t.tagsReq {
			k := annKey(a)
			if have[k] == 0 {
				fail("tag-missing", "task %d: tag %+v not recorded (rows %v)", id, a, tagRows[id])
			}
			have[k]--
			st.tagsRecorded = true
		}
		for _, a := range t.tagsOpt {
			if k := annKey(a); have[k] > 0 {
				have[k]--
			}
		}
		for k, n := range have {
			if n > 0 {
				fail("tag-extra", "task %d: tag row %s was never emitted (or recorded too often)", id, k)
			}
		}
		// milestones: exactly one per instant at which one was emitted before the
		// end, and it is one of those emitted at that instant
		emitted := map[uint64]map[string]bool{}
		reqInstants := map[uint64]int{}
		for _, a := range t.msReq {
			if emitted[a.T] == nil {
				emitted[a.T] = map[string]bool{}
			}
			emitted[a.T][annKey(a)] = true
			reqInstants[a.T]++
		}
		optInstants := map[uint64]bool{}
		for _, a := range t.msOpt {
			if emitted[a.T] == nil {
				emitted[a.T] = map[string]bool{}
			}
			emitted[a.T][annKey(a)] = true
			optInstants[a.T] = true
		}
		got := map[uint64]int{}
		for _, a := range msRows[id] {
			got[a.T]++
			if !emitted[a.T][annKey(a)] {
				fail("milestone-fields", "task %d: milestone row %+v matches no milestone emitted at t=%d", id, a, a.T)
			}
		}
		for tm, n := range got {
			if n > 1 {
				fail("milestone-dup-instant", "task %d: %d milestones recorded at t=%d", id, n, tm)
			}
		}
		for tm, n := range reqInstants {
			if n > 1 {
				st.dupInstant = true
			}
			if got[tm] == 0 {
				fail("milestone-missing", "task %d: no milestone recorded for t=%d (%d emitted); rows %v", id, tm, n, msRows[id])
			}
		}
	}

	// ---- segments: one per window (not judged when StartTracing/StopTracing
	// were called redundantly: what a "window" is then is not stated) ----
	if !st.redundant {
		var got, want []string
		for _, w := range rows["daisen$segments"] {
			got = append(got, fmt.Sprintf("%.0f-%.0f", w.f("StartTime"), w.f("EndTime")))
		}
		for _, w := range wins {
			want = append(want, fmt.Sprintf("%d-%d", w.s, w.e))
		}
		sort.Strings(got)
		sort.Strings(want)
		if strings.Join(got, ",") != strings.Join(want, ",") {
			fail("segments", "segments recorded %v want %v", got, want)
		}
	}
	return vs, st
}

// ---------------------------------------------------------------------------
// generator: a sequential walk that keeps the history well formed
// ---------------------------------------------------------------------------

var (
	c36Kinds   = []string{"req_in", "req_out", "pipeline", "inst", "k"}
	c36Whats   = []string{"ReadReq", "Core.stage1", "w"}
	c36MsKinds = []string{string(tracing.MilestoneKindQueue), string(tracing.MilestoneKindData),
		string(tracing.MilestoneKindHardwareResource), string(tracing.MilestoneKindOther)}
)

// rawStep is drawn independently of the walk's state (so that rapid can drop
// and simplify steps); the walk maps the selectors onto what exists.
type rawStep struct {
	Dt  uint64
	Op  int
	Sel [8]int
}

func genRawStep(t *rapid.T) rawStep {
	r := rawStep{
		Dt: rapid.SampledFrom([]uint64{0, 0, 0, 0, 1, 1, 2, 7, 1000, 1 << 30}).Draw(t, "dt"),
		Op: rapid.IntRange(0, 23).Draw(t, "op"),
	}
	for i := range r.Sel {
		r.Sel[i] = rapid.IntRange(0, 59).Draw(t, "sel")
	}
	return r
}

func genC36(rt *rapid.T, steer bool) c36Case {
	c := c36Case{}
	if steer {
		c.Steer = append(c.Steer, "placeholder: an id annotated before a StartTracing is only started while tracing is on and never ended unstarted")
	}
	var now uint64
	on := false
	nextID, nextAID := uint64(1), uint64(1000)
	var open, ended, reserved []uint64
	ghosts := []uint64{9000, 9001}
	ghostAnnotated := map[uint64]bool{}
	poisoned := map[uint64]bool{}
	// the walk's own view of which tasks ran while tracing was on; it only
	// biases the choice of ids for duplicate ends (the judgement is the model's)
	traced := map[uint64]bool{}
	var cold, armed []uint64 // ended without ever running while tracing was on; armed: a StartTracing followed
	emit := func(ev c36Ev) { ev.T = now; c.Events = append(c.Events, ev) }
	poison := func() {
		for _, id := range reserved {
			poisoned[id] = true
		}
		for id := range ghostAnnotated {
			poisoned[id] = true
		}
		for _, id := range open {
			traced[id] = true
		}
		armed = append(armed, cold...)
		cold = nil
	}
	toggle := func() {
		if on {
			emit(c36Ev{Op: "off"})
		} else {
			emit(c36Ev{Op: "on"})
			poison()
		}
		on = !on
	}
	// the first (real) end of the open task at index j
	endOpen := func(j, dom int, reset bool) {
		id := open[j]
		open = append(open[:j], open[j+1:]...)
		ended = append(ended, id)
		if !traced[id] {
			cold = append(cold, id)
		}
		emit(c36Ev{Op: "end", ID: id, Dom: dom, Reset: reset})
	}
	unknownID := func(k int) uint64 { return uint64(8000 + k%3) }
	// a further end of an id that already ended: a no-op for the tracer. An
	// ended id that was annotated after its end is a placeholder in the tracer
	// (like the ghosts): a steered case leaves it alone once a StartTracing saw it
	dupEnd := func(id uint64, dom int, reset bool, alt int) {
		if steer && poisoned[id] {
			id = unknownID(alt)
		} else {
			delete(ghostAnnotated, id)
			delete(poisoned, id)
		}
		emit(c36Ev{Op: "end", ID: id, Dom: dom, Reset: reset})
	}
	if rapid.Bool().Draw(rt, "onAtStart") {
		toggle()
	}
	startTask := func(r rawStep) {
		var id uint64
		if len(reserved) > 0 && r.Sel[0]%2 == 1 {
			i := r.Sel[1] % len(reserved)
			if !(steer && poisoned[reserved[i]] && !on) {
				id = reserved[i]
				reserved = append(reserved[:i], reserved[i+1:]...)
			}
		}
		if id == 0 {
			id = nextID
			nextID++
		}
		var parent uint64
		switch r.Sel[2] % 3 {
		case 1:
			if len(open) > 0 {
				parent = open[r.Sel[3]%len(open)]
			}
		case 2:
			parent = uint64(r.Sel[3] + 1)
		}
		ev := c36Ev{Op: "start", ID: id, Parent: parent, Dom: r.Sel[4] % 2,
			Kind: c36Kinds[r.Sel[5]%len(c36Kinds)], What: c36Whats[r.Sel[6]%len(c36Whats)]}
		if r.Sel[7]%4 == 3 {
			ev.Loc = []string{"Port.In", "GPU[0].L1"}[r.Sel[7]/4%2]
		}
		emit(ev)
		open = append(open, id)
		traced[id] = on
	}
	reserve := func() uint64 {
		id := nextID
		nextID++
		reserved = append(reserved, id)
		return id
	}
	target := func(r rawStep) uint64 {
		switch k := r.Sel[0] % 10; {
		case k <= 5 && len(open) > 0:
			return open[r.Sel[1]%len(open)]
		case k == 6 && len(ended) > 0:
			id := ended[r.Sel[1]%len(ended)]
			ghostAnnotated[id] = true // the tracer now holds a never-started placeholder for it
			return id
		case k == 7:
			g := ghosts[r.Sel[1]%len(ghosts)]
			ghostAnnotated[g] = true
			return g
		case k == 8 || k == 9:
			if len(reserved) > 0 && r.Sel[1]%2 == 1 {
				return reserved[r.Sel[2]%len(reserved)]
			}
			return reserve()
		}
		if len(open) > 0 {
			return open[r.Sel[1]%len(open)]
		}
		return reserve()
	}
	// rapid's slices are short on average: draw a floor for the length too
	minSteps := rapid.IntRange(1, 40).Draw(rt, "minSteps")
	steps := rapid.SliceOfN(rapid.Custom(genRawStep), minSteps, 60).Draw(rt, "steps")
	for _, r := range steps {
		now += r.Dt
		switch op := r.Op; {
		case op <= 4:
			startTask(r)
		case op <= 8:
			if len(open) == 0 {
				startTask(r)
				break
			}
			endOpen(r.Sel[0]%len(open), r.Sel[4]%2, false)
		case op <= 10:
			emit(c36Ev{Op: "tag", ID: target(r), AID: nextAID, Dom: r.Sel[4] % 2,
				What: []string{"hit", "miss"}[r.Sel[5]%2]})
			nextAID++
		case op <= 13:
			id := target(r)
			k := 1
			if r.Sel[3]%3 == 2 {
				k = 2 + r.Sel[3]/3%2 // several milestones in one instant
			}
			for j := 0; j < k; j++ {
				aid := nextAID
				nextAID++
				kind, what := c36MsKinds[(r.Sel[5]+j)%len(c36MsKinds)], []string{"q", "slot", "data"}[(r.Sel[6]+j)%3]
				if j > 0 && r.Sel[7]%4 == 3 {
					// the identical milestone again
					aid--
					nextAID--
					kind, what = c36MsKinds[(r.Sel[5]+j-1)%len(c36MsKinds)], []string{"q", "slot", "data"}[(r.Sel[6]+j-1)%3]
				}
				emit(c36Ev{Op: "ms", ID: id, AID: aid, Dom: r.Sel[4] % 2, Kind: kind, What: what})
			}
		case op <= 17:
			if r.Sel[0] == 59 {
				// StartTracing while on / StopTracing while off (the monitor's
				// HTTP endpoints do not guard against it)
				if on {
					emit(c36Ev{Op: "on"})
					poison()
				} else {
					emit(c36Ev{Op: "off"})
				}
				break
			}
			toggle()
		case op <= 19:
			// EndTask of an id that is not running
			id := unknownID(r.Sel[1])
			if r.Sel[0]%2 == 1 {
				g := ghosts[r.Sel[2]%len(ghosts)]
				if !(steer && poisoned[g]) {
					id = g
					delete(ghostAnnotated, g) // the placeholder is gone after EndTask
					delete(poisoned, g)
				}
			}
			emit(c36Ev{Op: "end", ID: id, Dom: r.Sel[4] % 2, Reset: r.Sel[5]%4 == 3})
		case op <= 21:
			// a second (third, ...) EndTask for an id that already ended;
			// preferably one that ended without ever running while tracing was
			// on and has seen a StartTracing since
			var id uint64
			switch k := r.Sel[0] % 5; {
			case k <= 1 && len(armed) > 0:
				id = armed[r.Sel[1]%len(armed)]
			case k == 2 && len(ended) > 0:
				id = ended[len(ended)-1] // the latest end: often the same instant
			case len(ended) > 0:
				id = ended[r.Sel[1]%len(ended)]
			default:
				id = unknownID(r.Sel[1])
			}
			dupEnd(id, r.Sel[4]%2, r.Sel[5]%2 == 1, r.Sel[1])
		case op == 22:
			// a reset path's blanket: EndTaskOnReset, in one instant, for a few
			// ids it "could hold": open ones (their real end), finished ones
			// (duplicates) and ones that never existed
			for i, n := 0, 2+r.Sel[0]%3; i < n; i++ {
				sel := r.Sel[1+i]
				switch {
				case sel%3 == 0 && len(open) > 0:
					endOpen(sel/3%len(open), r.Sel[5]%2, true)
				case sel%3 == 1 && len(ended) > 0:
					dupEnd(ended[sel/3%len(ended)], r.Sel[5]%2, true, sel)
				default:
					emit(c36Ev{Op: "end", ID: unknownID(sel / 3), Dom: r.Sel[5] % 2, Reset: true})
				}
			}
		default:
			// a short task: started and ended within 0..2 ps
			startTask(r)
			now += []uint64{0, 0, 1, 2}[r.Sel[0]%4]
			endOpen(len(open)-1, r.Sel[4]%2, false)
		}
	}
	if rapid.Bool().Draw(rt, "endAll") {
		closing := rapid.SliceOfN(rapid.Custom(genRawStep), len(open), len(open)).Draw(rt, "closing")
		for _, r := range closing {
			if r.Dt > 7 {
				r.Dt = 1
			}
			now += r.Dt
			endOpen(r.Sel[0]%len(open), r.Sel[4]%2, false)
			if r.Sel[1]%6 == 5 {
				toggle()
			}
		}
	}
	// final blanket reset (EndTaskOnReset for most ids ever started, in start-id
	// order, in one instant), half of them after making sure tracing is on: every
	// task that finished before that StartTracing gets a duplicate end behind it
	if fr := rapid.IntRange(0, 3).Draw(rt, "finalReset"); fr >= 2 {
		dts := []uint64{0, 1, 1, 7}
		if fr == 3 && !on {
			now += rapid.SampledFrom(dts).Draw(rt, "dtOn")
			toggle()
		}
		now += rapid.SampledFrom(dts).Draw(rt, "dtReset")
		ids := append(append([]uint64{}, ended...), open...)
		sort.Slice(ids, func(i, j int) bool { return ids[i] < ids[j] })
		pick := rapid.SliceOfN(rapid.IntRange(0, 7), len(ids), len(ids)).Draw(rt, "blanket")
		for i, id := range ids {
			if pick[i] == 0 {
				continue // this one is not held by the resetting component
			}
			j := -1
			for k, o := range open {
				if o == id {
					j = k
				}
			}
			if j >= 0 {
				endOpen(j, pick[i]%2, true)
			} else {
				dupEnd(id, pick[i]%2, true, pick[i])
			}
		}
	}
	c.TermT = now + rapid.SampledFrom([]uint64{0, 0, 1, 100}).Draw(rt, "dtTerm")
	return c
}

func c36Classes(c c36Case, st c36Stats) (bool, []string) {
	var cl []string
	add := func(b bool, s string) {
		if b {
			cl = append(cl, s)
		}
	}
	add(st.windows >= 2, "windows>=2")
	add(st.windows == 0, "no-window")
	add(st.markedInFlight, "recorded:in-flight-at-StartTracing")
	add(st.spansWindow, "recorded:starts-before-ends-after-a-window")
	add(st.dupInstant, "recorded:milestones-same-instant")
	add(st.edgeOverlap, "edge-instant-overlap(asserted)")
	add(st.edgeTouch, "edge-instant-touch(not-asserted)")
	add(st.termWhileTracing, "terminate-while-tracing")
	add(st.inflightAtTerm > 0, "task-in-flight-at-Terminate")
	add(st.preStartAnn, "annotation-before-StartTask")
	add(st.postEndAnn, "annotation-after-EndTask(optional)")
	add(st.neverStartedAnn, "annotation-on-never-started-id")
	add(st.endUnknown, "end-of-unknown-id")
	add(st.ghostEnd, "end-of-annotated-never-started-id")
	add(st.redundant, "redundant-StartTracing/StopTracing(segments-not-judged)")
	add(st.poisonedStarted, "recorded:placeholder-marked-then-started-while-on")
	add(st.tagsRecorded, "tags-recorded")
	add(st.derived, "derived-location")
	add(st.zeroLenRecorded, "recorded:zero-length")
	add(st.recorded > 0 && st.notRecorded > 0, "recorded+not-recorded")
	// duplicate / blanket ends
	add(st.dupEnd, "dup-end")
	add(st.trigTasks > 0, "dup-end:of-task-ended-while-off,after-later-StartTracing(judged-absent)")
	add(st.trigTasks >= 2, "dup-end:of-task-ended-while-off,after-later-StartTracing(judged-absent),>=2-tasks")
	add(st.trigWhileOn, "dup-end:of-task-ended-while-off,after-later-StartTracing,inside-that-or-a-later-window")
	add(st.trigWhileOff, "dup-end:of-task-ended-while-off,after-later-StartTracing+StopTracing")
	add(st.trigTouch, "dup-end:of-task-ended-while-off,after-StartTracing-in-the-end-instant(presence-not-asserted)")
	add(st.dupOfUntracedNoOn, "dup-end:of-untraced-task,no-StartTracing-since-its-end")
	add(st.dupOfTraced, "dup-end:of-traced-task")
	add(st.dupRecordedOnce, "dup-end:task-recorded-once-with-first-end-time")
	add(st.dupNotRecorded, "dup-end:task-not-recorded")
	add(st.dupWhileOn, "dup-end:inside-window")
	add(st.dupWhileOff, "dup-end:outside-window")
	add(st.dupSameInstant, "dup-end:same-instant-as-first-end")
	add(st.dupLater, "dup-end:later-than-first-end")
	add(st.dupThird, "dup-end:third-or-later-end")
	add(st.dupAfterPostAnn, "dup-end:after-annotation-after-first-end")
	add(st.dupViaReset, "dup-end:via-EndTaskOnReset")
	add(st.firstEndViaReset, "first-end:via-EndTaskOnReset")
	add(st.endUnknownViaReset, "end-of-unknown-id:via-EndTaskOnReset")
	add(st.resetBurst, "reset-burst(>=2-EndTaskOnReset-in-one-instant)")
	add(len(c.Steer) > 0, "steered")
	add(len(c.Events) >= 20, "events>=20")
	add(len(c.Events) >= 40, "events>=40")
	nt := st.windows >= 2 && st.markedInFlight && st.notRecorded > 0
	return nt, cl
}

func TestC36DBTracer(t *testing.T) {
	s := kit.Begin(t, "C36", "dbtracer",
		"histories of 1..60 steps (+ closing ends) over a fake clock (dt in {0,1,2,7,1e3,2^30}): StartTask (new id or an id already mentioned by a tag/milestone; parent 0/open/any; 5 kinds incl. req_in/req_out/pipeline; derived or explicit location; two domains), EndTask of a random open task, tags and milestones (bursts in one instant, identical repeats) on open/ended/not-yet-started/never-started ids, StartTracing/StopTracing alternating (1/60 of the toggles redundant), EndTask of unknown and of annotated-but-never-started ids, duplicate EndTask/EndTaskOnReset of ids that already ended (biased to tasks that ended without running in a window and have seen a StartTracing since; also the latest end, same instant), reset bursts (2-4 EndTaskOnReset in one instant over open/ended/unknown ids), short tasks (0..2 ps), in half of the histories a final blanket EndTaskOnReset over 7/8 of all started ids (half of those after forcing tracing on), then Terminate (half the time with tasks in flight, sometimes while tracing). Real DBTracer on a capturing DataRecorder, events through tracing.StartTask/... + CollectTrace. Oracle: event-order model. Non-trivial: >=2 windows, a recorded task that was in flight at a StartTracing, and an ended task that is not recorded")
	defer s.End()
	s.Assume("task ids are unique; every task is started at most once (README and code do not define reuse of an id after its EndTask, so no StartTask is generated for an ended id); nothing is emitted after Terminate; times < 2^53 (the trace tables store float64)")
	s.Assume("a task ends at its first EndTask; further EndTask/EndTaskOnReset calls for the id are the README's 'no such task' no-ops: no row, no second row, end time unchanged (an id annotated but never started, or annotated before its StartTask, is never blanket-ended before that StartTask)")
	s.Assume("a task that meets a window only in a single instant and lies outside it in event order (EndTask then StartTracing at the same time, StopTracing then StartTask at the same time) is not judged for presence; the reverse orders are judged as traced")
	s.Assume("tags/milestones emitted after the task's EndTask may or may not be recorded; of several milestones of one task at one instant any one may be the recorded one")
	s.Assume("segments are judged only in histories where StartTracing/StopTracing strictly alternate")

	run := func(f kit.Failer, c c36Case) {
		vs, st := judge36(c)
		for _, v := range vs {
			if len(c.Steer) > 0 && (v.sig == sigPlaceholder || v.sig == sigGhost) {
				f.Fatalf("harness self-check: a steered case is in the class of a listed finding: %s", v.msg)
			}
			s.Fail(f, c, v.sig, "%s", v.msg)
			// a listed finding: its row is excluded from the rest of the
			// judgement inside judge36 (continue), other tasks stay judged
		}
		nt, cl := c36Classes(c, st)
		s.Note(c, nt, cl...)
	}

	var c c36Case
	if ok, err := kit.LoadReplay("C36", "dbtracer", &c); ok {
		if err != nil {
			t.Fatal(err)
		}
		run(t, c)
		return
	} else if kit.ReplayMode() {
		t.Skip()
	}

	_, k1 := s.IsKnown(sigPlaceholder)
	_, k2 := s.IsKnown(sigGhost)
	kit.SetChecks(10_000, 100_000)
	rapid.Check(t, func(rt *rapid.T) {
		steer := (k1 || k2) && rapid.IntRange(0, 3).Draw(rt, "steer") != 0
		c := genC36(rt, steer)
		s.Excluded(len(c.Steer))
		run(rt, c)
	})
}

func c36Known(t *testing.T, sub, sig string, c c36Case, what string) {
	if kit.ReplayMode() {
		t.Skip()
	}
	s := kit.Begin(t, "C36", sub, "dedicated reproduction of a listed finding: "+what)
	defer s.End()
	vs, st := judge36(c)
	_, cl := c36Classes(c, st)
	s.Note(c, false, cl...)
	for _, v := range vs {
		if v.sig == sig {
			s.KnownStillFails(t, c, sig, v.msg)
		} else {
			s.Fail(t, c, v.sig, "%s", v.msg)
		}
	}
	if len(vs) == 0 {
		t.Logf("C36 %s no longer reproduces", sig)
	}
}

func TestC36Known_PlaceholderMarked(t *testing.T) {
	c36Known(t, "known-placeholder", sigPlaceholder, c36Case{Events: []c36Ev{
		{Op: "ms", T: 0, ID: 2, AID: 1000, Kind: "queue", What: "q"},
		{Op: "on", T: 0},
		{Op: "off", T: 0},
		{Op: "start", T: 1, ID: 2, Kind: "req_in", What: "ReadReq"},
		{Op: "end", T: 1, ID: 2},
	}, TermT: 1}, "milestone for task 2, StartTracing, StopTracing, then task 2 runs [1,1] with tracing off")
}

func TestC36Known_GhostEnd(t *testing.T) {
	c36Known(t, "known-ghost", sigGhost, c36Case{Events: []c36Ev{
		{Op: "tag", T: 0, ID: 9001, AID: 1000, What: "hit"},
		{Op: "on", T: 0},
		{Op: "end", T: 0, ID: 9001},
	}, TermT: 0}, "tag for id 9001, StartTracing, EndTask(9001); the task never starts")
}

// ---------------------------------------------------------------------------
// sample through the real SQLite recorder: same histories, same judgement, rows
// read back from the database file with datarecording.NewReader (which resolves
// the interned location ids).
// ---------------------------------------------------------------------------

type sqlTask struct {
	ID, ParentID       uint64
	Kind, What         string
	Location           string `akita_data:"location"`
	StartTime, EndTime float64
}
type sqlMilestone struct {
	ID, TaskID uint64
	Time       float64
	Kind, What string
}
type sqlTag struct {
	ID, TaskID uint64
	Time       float64
	What       string
}
type sqlSegment struct{ StartTime, EndTime float64 }

func sqliteBackend(path string) backend36 {
	rec := datarecording.NewDataRecorder(path)
	return backend36{rec: rec, rows: func() (map[string][]capRow, []string) {
		if err := rec.Close(); err != nil {
			return nil, []string{"DataRecorder.Close: " + err.Error()}
		}
		rd := datarecording.NewReader(path + ".sqlite3")
		defer rd.Close()
		conv := newCapRec()
		var bad []string
		for name, sample := range map[string]any{"trace": sqlTask{}, "milestone": sqlMilestone{}, "tag": sqlTag{}, "daisen$segments": sqlSegment{}} {
			rd.MapTable(name, sample)
			conv.CreateTable(name, sample)
			res, _, err := rd.Query(context.Background(), name, datarecording.QueryParams{})
			if err != nil {
				bad = append(bad, fmt.Sprintf("reading table %s: %v", name, err))
				continue
			}
			for _, r := range res {
				conv.InsertData(name, r)
			}
		}
		return conv.rows, append(bad, conv.bad...)
	}}
}

func TestC36SQLite(t *testing.T) {
	s := kit.Begin(t, "C36", "sqlite",
		"the same generated histories as sub-check dbtracer, DBTracer writing through datarecording.NewDataRecorder into a SQLite file that is read back with datarecording.NewReader; same model oracle. Non-trivial: as dbtracer")
	defer s.End()
	s.Assume("trusts datarecording.NewReader (incl. its location-id resolution) to read the file back")
	dir := os.Getenv("VERIF_WORK")
	if dir == "" {
		dir = t.TempDir()
	}
	n := 0
	run := func(f kit.Failer, c c36Case) {
		n++
		path := filepath.Join(dir, fmt.Sprintf("c36-%d-%d", os.Getpid(), n))
		defer os.Remove(path + ".sqlite3")
		vs, st := judge36On(c, sqliteBackend(path))
		for _, v := range vs {
			s.Fail(f, c, v.sig, "%s", v.msg)
		}
		nt, cl := c36Classes(c, st)
		s.Note(c, nt, cl...)
	}
	var c c36Case
	if ok, err := kit.LoadReplay("C36", "sqlite", &c); ok {
		if err != nil {
			t.Fatal(err)
		}
		run(t, c)
		return
	} else if kit.ReplayMode() {
		t.Skip()
	}
	_, k1 := s.IsKnown(sigPlaceholder)
	_, k2 := s.IsKnown(sigGhost)
	kit.SetChecks(30, 150)
	rapid.Check(t, func(rt *rapid.T) {
		steer := (k1 || k2) && rapid.IntRange(0, 3).Draw(rt, "steer") != 0
		c := genC36(rt, steer)
		s.Excluded(len(c.Steer))
		run(rt, c)
	})
}
