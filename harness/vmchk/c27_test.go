package vmchk

import (
	"fmt"
	"strings"
	"testing"

	"github.com/sarchlab/akita/v5/hooking"
	"github.com/sarchlab/akita/v5/mem/vm"
	"github.com/sarchlab/akita/v5/mem/vm/mmu"
	"github.com/sarchlab/akita/v5/mem/vm/vmprotocol"
	"github.com/sarchlab/akita/v5/messaging"
	"github.com/sarchlab/akita/v5/modeling"
	"github.com/sarchlab/akita/v5/noc/directconnection"
	"github.com/sarchlab/akita/v5/timing"
	"pgregory.net/rapid"

	"verif/harness/kit"
)

// c27Pre is a page inserted before the run. Odd == "" is the shape the library
// itself creates (frame aligned to, and of, the table's page size); "unaligned"
// shifts PAddr by Delta inside the frame; "size" gives it PageSize Size (0 = the
// field left unset, as in the repository's gmmu tests). Invalid inserts the
// entry with Valid=false (it still names its frame).
type c27Pre struct {
	PID     uint32 `json:"pid"`
	VPN     uint64 `json:"vpn"`
	Frame   uint64 `json:"frame"`
	Odd     string `json:"odd,omitempty"`
	Delta   uint64 `json:"delta,omitempty"`
	Size    uint64 `json:"size,omitempty"`
	Invalid bool   `json:"invalid,omitempty"`
}

type c27Req struct {
	PID uint32 `json:"pid"`
	VPN uint64 `json:"vpn"`
	Off uint64 `json:"off,omitempty"` // VAddr = VPN<<log2 + Off (the MMU aligns)
	Gap int    `json:"gap,omitempty"`
}

type c27Case struct {
	Log2 uint64   `json:"log2"`
	Lat  int      `json:"lat"`
	Max  int      `json:"max"`
	Buf  int      `json:"buf"`
	Pre  []c27Pre `json:"pre"`
	Reqs []c27Req `json:"reqs"`
	// Stall > 0 (C03 only): the driver leaves responses unread during every
	// other window of Stall cycles.
	Stall int `json:"stall,omitempty"`
}

func (c *c27Case) prePage(p c27Pre) vm.Page {
	pg := vm.Page{PID: vm.PID(p.PID), VAddr: p.VPN << c.Log2, PAddr: p.Frame << c.Log2,
		PageSize: 1 << c.Log2, Valid: !p.Invalid, DeviceID: 1, Unified: true}
	switch p.Odd {
	case "unaligned":
		pg.PAddr += p.Delta
	case "size":
		pg.PageSize = p.Size
	}
	return pg
}

func (c *c27Case) validate() error { return c.validateWith(false) }

// validateWith(loose=true) is the C03 domain (Stall). Pre-inserted pages may
// share a frame; requests never name a pre-inserted page that is not Valid.
func (c *c27Case) validateWith(loose bool) error {
	if c.Stall < 0 || (c.Stall != 0 && !loose) {
		return fmt.Errorf("stall")
	}
	if c.Log2 < 12 || c.Log2 > 16 || c.Lat < 0 || c.Max < 1 || c.Buf < 1 || len(c.Reqs) == 0 {
		return fmt.Errorf("params")
	}
	keys, invalid := map[[2]uint64]bool{}, map[[2]uint64]bool{}
	for _, p := range c.Pre {
		k := [2]uint64{uint64(p.PID), p.VPN}
		if p.PID == 0 || keys[k] || p.Frame >= 1<<30 || p.VPN >= 1<<(63-c.Log2) {
			return fmt.Errorf("pre %+v", p)
		}
		switch p.Odd {
		case "":
		case "unaligned":
			if p.Delta == 0 || p.Delta >= 1<<c.Log2 {
				return fmt.Errorf("pre %+v", p)
			}
		case "size":
			if p.Size == 1<<c.Log2 || p.Size > 1<<20 {
				return fmt.Errorf("pre %+v", p)
			}
		default:
			return fmt.Errorf("pre %+v", p)
		}
		keys[k], invalid[k] = true, p.Invalid
	}
	for _, r := range c.Reqs {
		if r.PID == 0 || r.VPN >= 1<<(63-c.Log2) || r.Off >= 1<<c.Log2 || r.Gap < 0 {
			return fmt.Errorf("req %+v", r)
		}
		if invalid[[2]uint64{uint64(r.PID), r.VPN}] {
			return fmt.Errorf("req %+v names a pre-inserted page that is not Valid (behaviour undocumented)", r)
		}
	}
	return nil
}

type c27Rsp struct {
	req   int
	page  vm.Page
	tSent timing.VTimeInPicoSec // request sent by the driver
	tRecv timing.VTimeInPicoSec // request received at MMU.Top
	tRsp  timing.VTimeInPicoSec // response sent by the MMU
}

// c27Driver sends the request stream to MMU.Top and collects the answers.
type c27Driver struct {
	*modeling.TickingComponent
	c       *c27Case
	eng     *timing.SerialEngine
	port    messaging.Port
	dst     messaging.RemotePort
	pc      int
	gap     int
	loaded  bool
	out     map[uint64]int
	rsps    []*c27Rsp
	byReqID map[uint64]*c27Rsp
	viols   []violation
	maxOut  int
}

func (d *c27Driver) viol(sig, format string, a ...any) {
	d.viols = append(d.viols, violation{t: d.eng.CurrentTime(), sig: sig, msg: fmt.Sprintf(format, a...)})
}

func (d *c27Driver) Tick() bool {
	progress := false
	stalled := false
	if n := uint64(d.c.Stall); n > 0 && (uint64(d.eng.CurrentTime())/1000/n)%2 == 1 && d.port.NumIncoming() > 0 {
		stalled, progress = true, true // keep ticking until the window ends
	}
	for !stalled {
		m := d.port.RetrieveIncoming()
		if m == nil {
			break
		}
		progress = true
		rsp, ok := m.(vmprotocol.TranslationRsp)
		if !ok {
			d.viol("unexpected-msg", "driver received %T", m)
			continue
		}
		ri, ok := d.out[rsp.RspTo]
		if !ok {
			d.viol("rsp-unmatched:mmu", "driver received a TranslationRsp with RspTo=%d: no outstanding request has that ID (answered twice or wrong ID)", rsp.RspTo)
			continue
		}
		delete(d.out, rsp.RspTo)
		if rsp.Dst != d.port.AsRemote() {
			d.viol("rsp-wrong-dst:mmu", "response for request %d has Dst=%s", ri, rsp.Dst)
		}
		d.byReqID[rsp.RspTo].page = rsp.Page
	}
	for d.pc < len(d.c.Reqs) {
		r := d.c.Reqs[d.pc]
		if !d.loaded {
			d.loaded, d.gap = true, r.Gap
		}
		if d.gap > 0 {
			d.gap--
			return true
		}
		if !d.port.CanSend() {
			return progress
		}
		req := vmprotocol.TranslationReq{VAddr: r.VPN<<d.c.Log2 + r.Off, PID: vm.PID(r.PID), DeviceID: 1}
		req.ID = timing.GetIDGenerator().Generate()
		req.Src = d.port.AsRemote()
		req.Dst = d.dst
		req.TrafficClass = "vmprotocol.TranslationReq"
		d.port.Send(req)
		rec := &c27Rsp{req: d.pc, tSent: d.eng.CurrentTime(), tRecv: tInf, tRsp: tInf}
		d.out[req.ID] = d.pc
		if len(d.out) > d.maxOut {
			d.maxOut = len(d.out)
		}
		d.byReqID[req.ID] = rec
		d.rsps = append(d.rsps, rec)
		d.pc++
		d.loaded = false
		progress = true
	}
	return progress
}

type c27Result struct {
	Sig        string
	Msg        string
	Classes    []string
	Nontrivial bool
}

func overlap(a, b vm.Page) bool {
	return a.PAddr < b.PAddr+b.PageSize && b.PAddr < a.PAddr+a.PageSize
}

func execC27(c c27Case) (res c27Result) {
	if err := c.validate(); err != nil {
		return c27Result{Sig: "harness:invalid-case", Msg: err.Error()}
	}
	var sim *c27Sim
	ok, sig, msg := kit.Guard(func() { sim = buildC27(&c) })
	if !ok {
		return c27Result{Sig: "build-" + sig, Msg: msg}
	}
	eng, pt, pre, m, d := sim.eng, sim.pt, sim.pre, sim.m, sim.d
	return judgeC27(c, eng, pt, pre, m, d)
}

// c27Sim is the assembled C27 system: driver -> MMU (auto-allocation) over a
// pre-populated page table.
type c27Sim struct {
	eng  *timing.SerialEngine
	pt   vm.PageTable
	pre  map[[2]uint64]vm.Page
	m    *mmu.Comp
	d    *c27Driver
	conn *directconnection.Comp
}

func buildC27(cp *c27Case) *c27Sim {
	c := *cp
	timing.ResetIDGenerator()
	eng := timing.NewSerialEngine()
	reg := modeling.NewStandaloneRegistrar(eng)
	pt := vm.MakePageTableBuilder().WithLog2PageSize(c.Log2).Build("PageTable")
	pre := map[[2]uint64]vm.Page{}
	for _, p := range c.Pre {
		pg := c.prePage(p)
		pt.Insert(pg)
		pre[[2]uint64{uint64(p.PID), p.VPN}] = pg
	}

	var m *mmu.Comp
	var d *c27Driver
	var conn *directconnection.Comp
	{
		spec := mmu.DefaultSpec()
		spec.Log2PageSize = c.Log2
		spec.Latency = c.Lat
		spec.MaxRequestsInFlight = c.Max
		spec.AutoPageAllocation = true
		m = mmu.MakeBuilder().WithRegistrar(reg).WithSpec(spec).
			WithResources(mmu.Resources{PageTable: pt}).Build("MMU")
		for _, name := range []string{"Top", "Control"} {
			p := modeling.MakePortBuilder().WithRegistrar(reg).WithComponent(m).
				WithSpec(modeling.PortSpec{BufSize: c.Buf}).Build(name)
			m.AssignPort(name, p)
		}
		d = &c27Driver{c: cp, eng: eng, out: map[uint64]int{}, byReqID: map[uint64]*c27Rsp{}}
		d.TickingComponent = modeling.NewTickingComponent("Driver", eng, 1*timing.GHz, d)
		d.port = messaging.NewPort(d, c.Buf, c.Buf, "Driver.Tr")
		d.DeclarePort("Tr")
		d.AssignPort("Tr", d.port)
		d.dst = m.GetPortByName("Top").AsRemote()
		conn = directconnection.MakeBuilder().WithRegistrar(reg).Build("Conn")
		conn.PlugIn(d.port)
		conn.PlugIn(m.GetPortByName("Top"))
	}
	m.GetPortByName("Top").AcceptHook(&fnHook{func(ctx hooking.HookCtx) {
		switch ctx.Pos {
		case messaging.HookPosPortMsgRecvd:
			if req, ok := ctx.Item.(vmprotocol.TranslationReq); ok {
				if r := d.byReqID[req.ID]; r != nil {
					r.tRecv = eng.CurrentTime()
				}
			}
		case messaging.HookPosPortMsgSend:
			if rsp, ok := ctx.Item.(vmprotocol.TranslationRsp); ok {
				if r := d.byReqID[rsp.RspTo]; r != nil && r.tRsp == tInf {
					r.tRsp = eng.CurrentTime()
				}
			}
		}
	}})

	return &c27Sim{eng: eng, pt: pt, pre: pre, m: m, d: d, conn: conn}
}

func judgeC27(c c27Case, eng *timing.SerialEngine, pt vm.PageTable, pre map[[2]uint64]vm.Page, m *mmu.Comp, d *c27Driver) (res c27Result) {
	d.TickLater()
	ok, sig, msg := kit.Guard(func() {
		if err := eng.RunUntil(c25CycleBudget * 1000); err != nil {
			panic(err)
		}
	})
	if !ok {
		return c27Result{Sig: sig, Msg: msg}
	}
	if eng.CurrentTime() >= (c25CycleBudget-2)*1000 {
		return c27Result{Sig: "harness:cycle-budget", Msg: "still active"}
	}
	if len(d.viols) > 0 {
		return c27Result{Sig: d.viols[0].sig, Msg: d.viols[0].msg}
	}
	if d.pc < len(c.Reqs) || len(d.out) > 0 || len(m.State.WalkingTranslations) > 0 {
		return c27Result{Sig: "hang:mmu", Msg: fmt.Sprintf("event queue empty at %d with %d requests unsent, %d unanswered, %d walks in the MMU",
			eng.CurrentTime(), len(c.Reqs)-d.pc, len(d.out), len(m.State.WalkingTranslations))}
	}

	// one mapping per requested page, the same in every response and in the table
	type pageInfo struct {
		key   [2]uint64
		page  vm.Page
		auto  bool
		first *c27Rsp
	}
	byKey := map[[2]uint64]*pageInfo{}
	var order []*pageInfo
	psz := uint64(1) << c.Log2
	concurrentNew := false
	for _, r := range d.rsps {
		q := c.Reqs[r.req]
		k := [2]uint64{uint64(q.PID), q.VPN}
		pi := byKey[k]
		if pi == nil {
			_, isPre := pre[k]
			pi = &pageInfo{key: k, page: r.page, auto: !isPre, first: r}
			byKey[k] = pi
			order = append(order, pi)
		}
		if r.page != pi.page {
			return c27Result{Sig: "autoalloc-two-mappings", Msg: fmt.Sprintf(
				"request %d (pid=%d vaddr=%#x) was answered with %+v but request %d for the same page with %+v",
				r.req, q.PID, q.VPN<<c.Log2+q.Off, r.page, pi.first.req, pi.page)}
		}
	}
	// concurrency is judged from the MMU's own port: a second request for a new
	// page was received before the first answer for that page left
	firstRsp := map[[2]uint64]timing.VTimeInPicoSec{}
	for _, r := range d.rsps {
		q := c.Reqs[r.req]
		k := [2]uint64{uint64(q.PID), q.VPN}
		if t, ok := firstRsp[k]; !ok || r.tRsp < t {
			firstRsp[k] = r.tRsp
		}
	}
	for _, r := range d.rsps {
		q := c.Reqs[r.req]
		k := [2]uint64{uint64(q.PID), q.VPN}
		if byKey[k].auto && r != byKey[k].first && r.tRecv < firstRsp[k] {
			concurrentNew = true
		}
	}
	for _, pi := range order {
		want := vm.Page{}
		if p, isPre := pre[pi.key]; isPre {
			want = p
			if pi.page != want {
				return c27Result{Sig: "preinserted-page-changed", Msg: fmt.Sprintf("pre-inserted page pid=%d vpn=%#x answered as %+v, inserted as %+v", pi.key[0], pi.key[1], pi.page, want)}
			}
		} else {
			if pi.page.PID != vm.PID(pi.key[0]) || pi.page.VAddr != pi.key[1]<<c.Log2 || !pi.page.Valid || pi.page.PageSize != psz {
				return c27Result{Sig: "autoalloc-page-shape", Msg: fmt.Sprintf("auto-allocated page for pid=%d vpn=%#x is %+v (want that pid, the aligned vaddr %#x, valid, size %d)",
					pi.key[0], pi.key[1], pi.page, pi.key[1]<<c.Log2, psz)}
			}
		}
		got, found := pt.Find(vm.PID(pi.key[0]), pi.key[1]<<c.Log2)
		if !found || got != pi.page {
			return c27Result{Sig: "autoalloc-table-mismatch", Msg: fmt.Sprintf("page table holds (%v) %+v for pid=%d vpn=%#x but the responses carried %+v", found, got, pi.key[0], pi.key[1], pi.page)}
		}
	}

	// disjointness of every auto-allocated page from every other page. The
	// physical range of an entry is [PAddr, PAddr+PageSize); a pre-inserted entry
	// whose PageSize field is smaller than the table's page size (or unset) is
	// held to the whole frame at its PAddr, under its own signature.
	type tp struct {
		page  vm.Page
		auto  bool
		odd   bool // unaligned or larger than the table's page: overlap only labelled
		under bool // aligned, PageSize field < table page size
	}
	var all []tp
	for _, p := range c.Pre {
		t := tp{page: c.prePage(p)}
		switch {
		case p.Odd == "size" && p.Size < psz:
			t.under = true
		case p.Odd != "":
			t.odd = true
		}
		all = append(all, t)
	}
	for _, pi := range order {
		if pi.auto {
			all = append(all, tp{page: pi.page, auto: true})
		}
	}
	oddOverlap := false
	for i := range all {
		if !all[i].auto {
			continue
		}
		for j := range all {
			other := all[j].page
			if all[j].under {
				other.PageSize = psz
			}
			if i == j || (all[j].auto && j < i) || !overlap(all[i].page, other) {
				continue
			}
			if all[j].odd {
				oddOverlap = true // not asserted: legality of such tables is undocumented
				continue
			}
			kind := "pre-inserted"
			switch {
			case all[j].auto:
				kind = "auto-allocated"
			case all[j].under:
				kind = "pre-inserted-undersized"
			}
			return c27Result{Sig: "autoalloc-alias:" + kind, Msg: fmt.Sprintf(
				"auto-allocated page %+v overlaps the physical range of the %s page %+v (table page size %d)", all[i].page, kind, all[j].page, psz)}
		}
	}

	// classes
	var maxAuto uint64
	nAuto := 0
	for _, t := range all {
		if t.auto {
			nAuto++
			if t.page.PAddr > maxAuto {
				maxAuto = t.page.PAddr
			}
		}
	}
	// every frame below the final cursor was a candidate of the allocator
	// (reverse-looked-up and either handed out or stepped over)
	cursor := m.State.NextPhysicalPage
	probed := func(pg vm.Page) bool { return nAuto > 0 && pg.PAddr%psz == 0 && pg.PAddr < cursor }
	interleaved, hasOdd, hasUnder, hasSizeless := false, false, false, false
	hasInvalid, invalidProbed, sharedProbed, invalidFirstOfShared, underProbed := false, false, false, false, false
	for i, t := range all {
		if t.auto {
			continue
		}
		if !t.odd && nAuto > 0 && t.page.PAddr < maxAuto {
			interleaved = true // the cursor had to step over a pre-inserted frame
		}
		hasOdd = hasOdd || t.odd
		hasUnder = hasUnder || t.under
		hasSizeless = hasSizeless || t.page.PageSize == 0
		underProbed = underProbed || (t.under && probed(t.page))
		hasInvalid = hasInvalid || !t.page.Valid
		invalidProbed = invalidProbed || (!t.page.Valid && probed(t.page))
		for j, u := range all {
			if u.auto || i == j || u.page.PAddr != t.page.PAddr || !probed(t.page) {
				continue
			}
			sharedProbed = true
			// t is what ReverseLookup reports for the frame (lowest PID) and is
			// not Valid, while a Valid page of a higher PID lives there too
			lowest := true
			for _, w := range all {
				if !w.auto && w.page.PAddr == t.page.PAddr && w.page.PID < t.page.PID {
					lowest = false
				}
			}
			if lowest && !t.page.Valid && u.page.Valid {
				invalidFirstOfShared = true
			}
		}
	}
	procs := map[uint64]bool{}
	for _, pi := range order {
		procs[pi.key[0]] = true
	}
	cl := []string{fmt.Sprintf("page=%dK", psz/1024)}
	flag := func(b bool, s string) {
		if b {
			cl = append(cl, s)
		}
	}
	flag(nAuto > 0, "auto-allocated")
	flag(interleaved, "pre-inserted-frame-below-cursor")
	flag(concurrentNew, "concurrent-walks-of-new-page")
	flag(hasOdd, "odd-pre-inserted(non-asserted)")
	flag(oddOverlap, "odd-pre-inserted:overlap-observed(non-asserted)")
	flag(hasUnder, "undersized-pre-inserted")
	flag(hasSizeless, "sizeless-pre-inserted")
	flag(underProbed, "undersized-pre-inserted-frame-probed-by-allocator")
	flag(hasInvalid, "invalid-pre-inserted")
	flag(invalidProbed, "invalid-pre-inserted-frame-probed-by-allocator")
	flag(sharedProbed, "shared-pre-inserted-frame-probed-by-allocator")
	flag(invalidFirstOfShared, "probed-frame-shared-by-invalid-lowest-pid-and-valid-page")
	flag(len(procs) > 1, "several-processes")
	flag(len(order) < len(d.rsps), "repeated-page")
	res.Classes = cl
	res.Nontrivial = interleaved && concurrentNew
	return res
}

func genC27(rt *rapid.T) c27Case {
	c := c27Case{
		Log2: rapid.SampledFrom([]uint64{12, 12, 14, 16}).Draw(rt, "log2"),
		Lat:  rapid.IntRange(0, 5).Draw(rt, "lat"),
		Max:  rapid.IntRange(1, 8).Draw(rt, "max"),
		Buf:  rapid.IntRange(1, 4).Draw(rt, "buf"),
	}
	psz := uint64(1) << c.Log2
	procs := rapid.IntRange(1, 3).Draw(rt, "procs")
	vpnGen := rapid.OneOf(rapid.Uint64Range(0, 5), rapid.Uint64Range(0, 5), rapid.Uint64Range(0, 30),
		rapid.Map(rapid.Uint64Range(0, 3), func(k uint64) uint64 { return uint64(1)<<(63-16) - 1 - k }))
	vpns := rapid.SliceOfNDistinct(vpnGen, 1, 8, rapid.ID[uint64]).Draw(rt, "vpns")
	nReq := rapid.IntRange(1, 40).Draw(rt, "nreq")
	nPre := rapid.IntRange(0, 8).Draw(rt, "npre")
	if nPre > procs*len(vpns) {
		nPre = procs * len(vpns)
	}
	slots := rapid.SliceOfNDistinct(rapid.IntRange(0, procs*len(vpns)-1), nPre, nPre, rapid.ID[int]).Draw(rt, "preslots")
	// shape of the pre-inserted entries: 1 in 6 cases makes some unaligned or of
	// another size, 1 in 6 leaves PageSize unset on some, half of the cases mark
	// some as not Valid
	odd := rapid.IntRange(0, 5).Draw(rt, "oddcase") == 0
	sizeless := rapid.IntRange(0, 5).Draw(rt, "sizelesscase") == 0
	invalid := rapid.Bool().Draw(rt, "invalidcase")
	isPre, isInvalid := map[int]bool{}, map[int]bool{}
	for _, s := range slots {
		p := c27Pre{PID: uint32(s%procs) + 1, VPN: vpns[s/procs]}
		switch {
		case odd && rapid.Bool().Draw(rt, "odd"):
			if rapid.Bool().Draw(rt, "oddk") {
				p.Odd, p.Delta = "unaligned", rapid.Uint64Range(1, psz-1).Draw(rt, "delta")
			} else {
				p.Odd = "size"
				p.Size = rapid.SampledFrom([]uint64{0, 1 << 10, 1 << 12, 1 << 13, 1 << 14, 1 << 16, 1 << 18}).
					Filter(func(s uint64) bool { return s != psz }).Draw(rt, "psize")
			}
		case sizeless && rapid.Bool().Draw(rt, "nosize"):
			p.Odd, p.Size = "size", 0
		}
		if invalid && rapid.IntRange(0, 2).Draw(rt, "inv") == 0 {
			p.Invalid = true
		}
		isPre[s], isInvalid[s] = true, p.Invalid
		c.Pre = append(c.Pre, p)
	}
	// the request stream stays on pages whose handling is documented: pages not
	// in the table (auto-allocated) and Valid pre-inserted pages
	var askable []int
	for s := 0; s < procs*len(vpns); s++ {
		if !isInvalid[s] {
			askable = append(askable, s)
		}
	}
	if len(askable) == 0 { // every page of the pool is a pre-inserted invalid one
		c.Pre[0].Invalid = false
		askable = append(askable, slots[0])
	}
	var last c27Req
	newPages := map[int]bool{}
	for i := 0; i < nReq; i++ {
		r := c27Req{}
		if i > 0 && rapid.IntRange(0, 9).Draw(rt, "same") < 4 {
			r.PID, r.VPN = last.PID, last.VPN // the same page again, usually back to back
		} else {
			s := askable[rapid.IntRange(0, len(askable)-1).Draw(rt, "page")]
			r.PID, r.VPN = uint32(s%procs)+1, vpns[s/procs]
			if !isPre[s] {
				newPages[s] = true
			}
		}
		if rapid.Bool().Draw(rt, "unal") {
			r.Off = rapid.Uint64Range(0, psz-1).Draw(rt, "off")
		}
		if rapid.IntRange(0, 9).Draw(rt, "gapk") >= 7 {
			r.Gap = rapid.IntRange(1, 12).Draw(rt, "gap")
		}
		last = r
		c.Reqs = append(c.Reqs, r)
	}
	// pre-inserted frames land where the allocation cursor sweeps: it ends at
	// (#new pages + #frames stepped over), so most frames are drawn below that
	// and a quarter of the cases spread them up to 10 frames further. A quarter
	// of the cases let pre-inserted pages share frames.
	top := uint64(len(newPages) + nPre + 1)
	if rapid.IntRange(0, 3).Draw(rt, "spread") == 0 {
		top = uint64(nPre + 10)
	}
	var frames []uint64
	if rapid.IntRange(0, 3).Draw(rt, "sharecase") == 0 {
		frames = rapid.SliceOfN(rapid.Uint64Range(0, top), nPre, nPre).Draw(rt, "frames")
		for i := 1; i < nPre; i++ {
			if rapid.IntRange(0, 2).Draw(rt, "share") == 0 {
				frames[i] = frames[rapid.IntRange(0, i-1).Draw(rt, "with")]
			}
		}
	} else {
		frames = rapid.SliceOfNDistinct(rapid.Uint64Range(0, top), nPre, nPre, rapid.ID[uint64]).Draw(rt, "frames")
	}
	for i := range c.Pre {
		c.Pre[i].Frame = frames[i]
	}
	return c
}

const c27Rule = "MMU built with AutoPageAllocation, page 4K/16K/64K, latency 0-5, 1-8 walks in flight, port buffers 1-4, shared page table pre-populated with 0-8 pages (1-3 processes) whose frames are page-size aligned and of the table's page size and lie where the allocation cursor sweeps (frame numbers 0..#new pages+#pre-inserted+1; a quarter of the cases 0..n+10); " +
	"in half of the cases a third of the pre-inserted entries are inserted with Valid=false (they keep their frame); in a quarter of the cases pre-inserted entries may share frames (incl. a not-Valid entry of the lowest PID with a Valid entry of a higher PID); 1 in 6 cases leaves PageSize unset (0) on some entries; " +
	"1 in 6 cases additionally makes some pre-inserted pages unaligned or of another size (labelled; overlap with unaligned or oversized ones not asserted); stream of 1-40 TranslationReqs for pages not in the table and for Valid pre-inserted pages (never for a not-Valid entry), pool of 1-8 VPNs incl. the top of the address space, aligned or unaligned VAddr, 40% repeat the previous page, gaps 0-12 cycles. " +
	"Oracle: every request answered once (RspTo, Dst); all responses for one (pid, vpage) carry the identical page and the table's Find returns it; an auto-allocated page has that pid, the aligned vaddr, Valid and the table's page size; pre-inserted pages are answered unchanged; each auto-allocated page's [PAddr, PAddr+PageSize) is disjoint from every other page's range, Valid or not (an aligned pre-inserted entry whose PageSize field is 0 or smaller than the table's page size is held to its whole frame). " +
	"Non-trivial: a well-formed pre-inserted frame lies below an auto-allocated one (the cursor stepped over it) and a second request for a new page reached the MMU before the first answer for it left (port hook times)"

func TestC27AutoAlloc(t *testing.T) {
	s := kit.Begin(t, "C27", "autoalloc", c27Rule)
	defer s.End()
	s.Assume("a page-table entry occupies its physical range whether or not its Valid flag is set (the property speaks of every page in the table); what the MMU answers to a request for a not-Valid entry is not documented, so the request stream never names one")
	s.Assume("pre-inserted pages may share frames; which of the sharing pages ReverseLookup reports, and determinism of the chosen frames, is C26/C03 and not asserted here")
	s.Assume("pre-inserted pages that are unaligned or larger than the table's page size are generated but overlap with them is only labelled: the allocator probes ReverseLookup by exact frame address and the legality of such tables is undocumented")
	s.Assume("an aligned pre-inserted entry whose PageSize field is unset (0, as in the repository's gmmu tests) or smaller than the table's page size is held to occupy the whole frame at its PAddr, because every component translates with the table/spec page size and none reads Page.PageSize; violations of this reading carry their own signature autoalloc-alias:pre-inserted-undersized")

	run := func(f kit.Failer, c c27Case) {
		r := execC27(c)
		if strings.HasPrefix(r.Sig, "harness:") {
			f.Fatalf("harness problem [%s]: %s", r.Sig, r.Msg)
		}
		if r.Sig != "" {
			s.Fail(f, c, r.Sig, "%s", r.Msg)
			return
		}
		s.Note(c, r.Nontrivial, r.Classes...)
	}

	var c c27Case
	if ok, err := kit.LoadReplay("C27", "autoalloc", &c); ok {
		if err != nil {
			t.Fatal(err)
		}
		run(t, c)
		return
	} else if kit.ReplayMode() {
		t.Skip()
	}

	kit.SetChecks(20000, 100000)
	rapid.Check(t, func(rt *rapid.T) { run(rt, genC27(rt)) })
}

