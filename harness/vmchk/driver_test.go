package vmchk

import (
	"fmt"

	"github.com/sarchlab/akita/v5/mem/memcontrolprotocol"
	"github.com/sarchlab/akita/v5/mem/memprotocol"
	"github.com/sarchlab/akita/v5/mem/vm"
	"github.com/sarchlab/akita/v5/mem/vm/vmprotocol"
	"github.com/sarchlab/akita/v5/messaging"
	"github.com/sarchlab/akita/v5/modeling"
	"github.com/sarchlab/akita/v5/timing"
)

// reqRec is one request of the driver script and what came back for it.
type reqRec struct {
	op     int
	kind   string // rd | wr | tr
	id     uint64
	level  int
	port   messaging.Port
	tIssue timing.VTimeInPicoSec
	tRsp   timing.VTimeInPicoSec
	done   bool
	data   []byte
	page   vm.Page
	// effective write (after de-duplication of the chunk)
	off  uint64
	size int
}

type updRec struct {
	op   int
	page int
	t    timing.VTimeInPicoSec
	to   vm.Page
}

type roundRec struct {
	op        int
	mode      string
	start     timing.VTimeInPicoSec
	invalDone timing.VTimeInPicoSec
	done      bool
	pid       uint32
	addrs     []uint64
}

type ctrlStep struct {
	dst     messaging.RemotePort
	what    string
	cmd     memcontrolprotocol.Command
	lastInv bool
}

type roundState struct {
	rec     *roundRec
	steps   []ctrlStep
	idx     int
	pending uint64
}

// driver executes the script of a c25Case: a ticking component (1 GHz) that
// owns a memory port (to AT.Top), one translation port per injectable level and
// a control port. It follows the documented idioms: CanSend before Send, keeps
// unsent work in its own state, relies on NotifyPortFree/NotifyRecv.
type driver struct {
	*modeling.TickingComponent
	st       *stack
	memPort  messaging.Port
	ctrlPort messaging.Port
	ports    []messaging.Port

	pc        int
	gapLoaded bool
	gapLeft   int
	recs      []*reqRec
	out       map[uint64]*reqRec
	updates   []updRec
	rounds    []*roundRec
	round     *roundState
	waitRound bool
	cur       []vm.Page            // current page table content per page index
	written   map[[2]uint64]bool   // (page, chunk) already written → later writes become reads
	wrOfPage  map[int][]*reqRec    // writes per page (for read judgement)
	skipped   int
	maxOut    int
}

func newDriver(st *stack) *driver {
	d := &driver{st: st, out: map[uint64]*reqRec{}, written: map[[2]uint64]bool{}, wrOfPage: map[int][]*reqRec{}}
	d.TickingComponent = modeling.NewTickingComponent("Driver", st.eng, 1*timing.GHz, d)
	d.memPort = d.addPort("Mem", st.c.Buf)
	d.ctrlPort = d.addPort("Ctrl", 4)
	for _, p := range st.c.Pages {
		d.cur = append(d.cur, st.c.initialPage(p))
	}
	for _, p := range st.c.Unmapped { // addressable, not in the table
		d.cur = append(d.cur, vm.Page{PID: vm.PID(p.PID), VAddr: p.VPN << st.c.Log2})
	}
	return d
}

func (d *driver) addPort(name string, buf int) messaging.Port {
	p := messaging.NewPort(d, buf, buf, "Driver."+name)
	d.DeclarePort(name)
	d.AssignPort(name, p)
	d.ports = append(d.ports, p)
	d.st.allPorts = append(d.st.allPorts, p)
	return p
}

func (d *driver) now() timing.VTimeInPicoSec { return d.st.eng.CurrentTime() }

func (d *driver) Tick() bool {
	progress := false
	stalled := false
	if n := uint64(d.st.c.Stall); n > 0 && (uint64(d.now())/1000/n)%2 == 1 {
		for _, p := range d.ports {
			if p != d.ctrlPort && p.NumIncoming() > 0 {
				stalled, progress = true, true // keep ticking until the window ends
			}
		}
	}
	for _, p := range d.ports {
		if stalled && p != d.ctrlPort {
			continue
		}
		for {
			m := p.RetrieveIncoming()
			if m == nil {
				break
			}
			d.onMsg(p, m)
			progress = true
		}
	}
	progress = d.advanceRound() || progress
	progress = d.issue() || progress
	return progress
}

func (d *driver) onMsg(p messaging.Port, m messaging.Msg) {
	if p == d.ctrlPort {
		d.onCtrlRsp(m)
		return
	}
	r, ok := d.out[m.Meta().RspTo]
	if !ok {
		d.st.viol("driver-rsp-unmatched", "driver port %s received %T with RspTo=%d from %s: no outstanding request has that ID (duplicate or misaddressed response)",
			p.Name(), m, m.Meta().RspTo, m.Meta().Src)
		return
	}
	if r.port != p || m.Meta().Dst != p.AsRemote() {
		d.st.viol("driver-rsp-wrong-port", "response to request %d (sent from %s) arrived on %s with Dst=%s", r.id, r.port.Name(), p.Name(), m.Meta().Dst)
		return
	}
	delete(d.out, r.id)
	r.done, r.tRsp = true, d.now()
	switch rsp := m.(type) {
	case memprotocol.DataReadyRsp:
		if r.kind != "rd" {
			d.st.viol("driver-rsp-type", "op %d (%s) answered with DataReadyRsp", r.op, r.kind)
		}
		r.data = rsp.Data
	case memprotocol.WriteDoneRsp:
		if r.kind != "wr" {
			d.st.viol("driver-rsp-type", "op %d (%s) answered with WriteDoneRsp", r.op, r.kind)
		}
	case vmprotocol.TranslationRsp:
		if r.kind != "tr" {
			d.st.viol("driver-rsp-type", "op %d (%s) answered with TranslationRsp", r.op, r.kind)
		}
		r.page = rsp.Page
	default:
		d.st.viol("driver-rsp-type", "op %d answered with %T", r.op, m)
	}
}

func (d *driver) onCtrlRsp(m messaging.Msg) {
	rsp, ok := m.(memcontrolprotocol.Rsp)
	if !ok || d.round == nil || d.round.pending == 0 || rsp.RspTo != d.round.pending {
		d.st.viol("ctrl-rsp-unmatched", "control port received %T RspTo=%d from %s with no such command pending", m, m.Meta().RspTo, m.Meta().Src)
		return
	}
	step := d.round.steps[d.round.idx]
	if rsp.Command != step.cmd || !rsp.Success || rsp.Src != step.dst {
		d.st.viol("ctrl-ack:"+step.what, "round of op %d, step %d (%s to %s): ack Command=%v Success=%v Error=%q Src=%s",
			d.round.rec.op, d.round.idx, step.what, step.dst, rsp.Command, rsp.Success, rsp.Error, rsp.Src)
	}
	d.round.pending = 0
	if step.lastInv {
		d.round.rec.invalDone = d.now()
		d.round.rec.done = true
	}
	d.round.idx++
	if d.round.idx == len(d.round.steps) {
		d.round = nil
		d.waitRound = false
	}
}

func (d *driver) advanceRound() bool {
	r := d.round
	if r == nil || r.pending != 0 || !d.ctrlPort.CanSend() {
		return false
	}
	step := r.steps[r.idx]
	req := memcontrolprotocol.Req{Command: step.cmd}
	req.ID = timing.GetIDGenerator().Generate()
	req.Src = d.ctrlPort.AsRemote()
	req.Dst = step.dst
	req.TrafficClass = "memcontrolprotocol.Req"
	if step.cmd == memcontrolprotocol.CmdInvalidate {
		req.PID = vm.PID(r.rec.pid)
		req.Addresses = append([]uint64(nil), r.rec.addrs...)
	}
	if r.idx == 0 {
		r.rec.start = d.now()
	}
	d.ctrlPort.Send(req)
	r.pending = req.ID
	return true
}

func (d *driver) startRound(opIdx int, cfg invCfg) {
	st := d.st
	rec := &roundRec{op: opIdx, mode: cfg.Mode, start: tInf, invalDone: tInf, pid: cfg.PID, addrs: cfg.Addrs}
	rs := &roundState{rec: rec}
	atCtrl := st.at.GetPortByName("Control").AsRemote()
	add := func(dst messaging.RemotePort, what string, cmd memcontrolprotocol.Command) {
		rs.steps = append(rs.steps, ctrlStep{dst: dst, what: what, cmd: cmd})
	}
	drainAT := cfg.DrainAT && cfg.Mode == "drain"
	if drainAT {
		add(atCtrl, "at:drain", memcontrolprotocol.CmdDrain)
	}
	for _, l := range st.caches { // top-down
		if cfg.Mode == "drain" {
			add(l.ctrl.AsRemote(), l.kind+":drain", memcontrolprotocol.CmdDrain)
		} else {
			add(l.ctrl.AsRemote(), l.kind+":pause", memcontrolprotocol.CmdPause)
		}
	}
	for _, l := range st.caches {
		add(l.ctrl.AsRemote(), l.kind+":invalidate", memcontrolprotocol.CmdInvalidate)
	}
	rs.steps[len(rs.steps)-1].lastInv = true
	for i := len(st.caches) - 1; i >= 0; i-- { // bottom-up
		add(st.caches[i].ctrl.AsRemote(), st.caches[i].kind+":enable", memcontrolprotocol.CmdEnable)
	}
	if drainAT {
		add(atCtrl, "at:enable", memcontrolprotocol.CmdEnable)
	}
	d.round = rs
	d.rounds = append(d.rounds, rec)
	d.waitRound = cfg.Wait || cfg.Mode == "quiesce"
}

// injectLevel maps an op's Level to an injectable level (deterministically).
func (d *driver) injectLevel(l int) int {
	n := len(d.st.levels)
	l %= n
	for d.st.levels[l].inject == nil {
		l = (l + 1) % n
	}
	return l
}

func (d *driver) issue() bool {
	c := d.st.c
	progress := false
	for d.pc < len(c.Ops) {
		if d.waitRound && d.round != nil {
			return progress
		}
		op := c.Ops[d.pc]
		if !d.gapLoaded {
			d.gapLoaded, d.gapLeft = true, op.Gap
		}
		if d.gapLeft > 0 {
			d.gapLeft--
			return true
		}
		switch op.K {
		case "rd", "wr":
			if !d.memPort.CanSend() {
				return progress
			}
			d.sendAccess(d.pc, op)
		case "tr":
			li := d.injectLevel(op.Level)
			port := d.st.levels[li].inject
			if !port.CanSend() {
				return progress
			}
			pg := d.cur[op.Page]
			req := vmprotocol.TranslationReq{VAddr: pg.VAddr, PID: pg.PID, DeviceID: localDevice}
			req.ID = timing.GetIDGenerator().Generate()
			req.Src = port.AsRemote()
			req.Dst = d.st.levels[li].top.AsRemote()
			req.TrafficClass = "vmprotocol.TranslationReq"
			port.Send(req)
			d.track(&reqRec{op: d.pc, kind: "tr", id: req.ID, level: li, port: port})
		case "upd":
			np := d.cur[op.Page]
			np.PAddr = op.Frame << c.Log2
			np.DeviceID = localDevice
			if op.Remote {
				np.DeviceID = remoteDev
			}
			d.st.pt.Update(np)
			d.cur[op.Page] = np
			d.updates = append(d.updates, updRec{op: d.pc, page: op.Page, t: d.now(), to: np})
		case "inv":
			if len(d.st.caches) == 0 {
				d.skipped++
				break
			}
			if d.round != nil {
				return progress // one round at a time
			}
			if op.Inv.Mode == "quiesce" && len(d.out) > 0 {
				return progress // woken by the responses
			}
			d.startRound(d.pc, op.Inv)
			progress = d.advanceRound() || progress
		case "fence":
			if len(d.out) > 0 || d.round != nil {
				return progress
			}
		}
		d.pc++
		d.gapLoaded = false
		progress = true
	}
	return progress
}

func (d *driver) track(r *reqRec) {
	r.tIssue = d.now()
	d.recs = append(d.recs, r)
	d.out[r.id] = r
	if len(d.out) > d.maxOut {
		d.maxOut = len(d.out)
	}
}

func (d *driver) sendAccess(opIdx int, op opCfg) {
	pg := d.cur[op.Page]
	kind := op.K
	chunk := [2]uint64{uint64(op.Page), op.Off / 16}
	if kind == "wr" && d.written[chunk] {
		kind = "rd" // every chunk is written at most once, so the final image is order-independent
	}
	r := &reqRec{op: opIdx, kind: kind, port: d.memPort, off: op.Off, size: op.Size}
	if kind == "rd" {
		req := memprotocol.ReadReq{Address: pg.VAddr + op.Off, AccessByteSize: uint64(op.Size), PID: pg.PID}
		req.ID = timing.GetIDGenerator().Generate()
		req.Src = d.memPort.AsRemote()
		req.Dst = d.st.at.GetPortByName("Top").AsRemote()
		req.TrafficBytes = 12
		req.TrafficClass = "memprotocol.ReadReq"
		d.memPort.Send(req)
		r.id = req.ID
	} else {
		d.written[chunk] = true
		req := memprotocol.WriteReq{Address: pg.VAddr + op.Off, PID: pg.PID}
		req.Data = make([]byte, op.Size)
		for j := range req.Data {
			req.Data[j] = wrByte(opIdx, j)
		}
		if op.Mask != 0 {
			req.DirtyMask = make([]bool, op.Size)
			for j := range req.DirtyMask {
				req.DirtyMask[j] = op.Mask>>uint(j)&1 == 1
			}
		}
		req.ID = timing.GetIDGenerator().Generate()
		req.Src = d.memPort.AsRemote()
		req.Dst = d.st.at.GetPortByName("Top").AsRemote()
		req.TrafficBytes = len(req.Data) + 12
		req.TrafficClass = "memprotocol.WriteReq"
		d.memPort.Send(req)
		r.id = req.ID
		r.data = req.Data
		d.wrOfPage[op.Page] = append(d.wrOfPage[op.Page], r)
	}
	d.track(r)
}

func (r *reqRec) String() string {
	return fmt.Sprintf("op %d (%s) id=%d issued@%d answered@%d", r.op, r.kind, r.id, r.tIssue, r.tRsp)
}
