package vmchk

import (
	"bytes"
	"crypto/sha256"
	"encoding/hex"
	"encoding/json"
	"fmt"
	"hash/fnv"
	"io"
	"os"
	"os/exec"
	"path/filepath"
	"strings"
	"testing"

	"github.com/sarchlab/akita/v5/hooking"
	"github.com/sarchlab/akita/v5/mem"
	"github.com/sarchlab/akita/v5/mem/vm"
	"github.com/sarchlab/akita/v5/messaging"
	"github.com/sarchlab/akita/v5/timing"
	"pgregory.net/rapid"

	"verif/harness/kit"
)

// TestMain: a process started with VERIF_CHILD=<job file> is the child leg of
// C03 (one run of one case in a fresh process); anything else runs the tests.
func TestMain(m *testing.M) {
	if job := os.Getenv("VERIF_CHILD"); job != "" {
		os.Exit(c03ChildMain(job))
	}
	os.Exit(m.Run())
}

// c03Case is a C25 stack case in its widened domain (frames shared between
// processes, MMU auto-allocation of unmapped pages) or a C27 auto-allocation
// case (pre-inserted frames possibly shared).
type c03Case struct {
	Kind  string  `json:"kind"` // "stack" | "autoalloc"
	Stack c25Case `json:"stack"`
	Alloc c27Case `json:"alloc"`
}

type c03Final struct {
	Kind string `json:"kind"`
	Name string `json:"name"`
	Hash uint64 `json:"hash"`
	text string
}

// c03Trace is the fingerprint of one run, element by element.
type c03Trace struct {
	Events []uint64   `json:"events"`
	Msgs   []uint64   `json:"msgs"`
	Final  []c03Final `json:"final"`
	Digest string     `json:"digest"`
	Crash  string     `json:"crash,omitempty"`
	// what happened (for the non-triviality rule)
	MaxOut       int  `json:"max_out"`
	SharedProbed bool `json:"shared_probed"`
	AutoAllocs   int  `json:"auto_allocs"`

	evText, msgText []string
	keep            bool
	sum             io.Writer
}

func h64(s string) uint64 {
	h := fnv.New64a()
	h.Write([]byte(s))
	return h.Sum64()
}

func (tr *c03Trace) event(s string) {
	tr.Events = append(tr.Events, h64(s))
	io.WriteString(tr.sum, "E"+s+"\n")
	if tr.keep {
		tr.evText = append(tr.evText, s)
	}
}

func (tr *c03Trace) msg(s string) {
	tr.Msgs = append(tr.Msgs, h64(s))
	io.WriteString(tr.sum, "M"+s+"\n")
	if tr.keep {
		tr.msgText = append(tr.msgText, s)
	}
}

func (tr *c03Trace) final(kind, name string, body []byte) {
	f := c03Final{Kind: kind, Name: name}
	sum := sha256.Sum256(body)
	f.Hash = h64(string(sum[:]))
	if tr.keep {
		f.text = string(body)
		if len(f.text) > 1500 {
			f.text = f.text[:1500] + "…"
		}
	}
	tr.Final = append(tr.Final, f)
	fmt.Fprintf(tr.sum, "F%s|%s|%x\n", kind, name, sum)
}

func mustJSON(v any) []byte {
	b, err := json.Marshal(v)
	if err != nil {
		panic(fmt.Sprintf("harness: cannot marshal %T: %v", v, err))
	}
	return b
}

// attach records every handled event and every message sent on any port.
func (tr *c03Trace) attach(eng *timing.SerialEngine, ports []messaging.Port) {
	eng.AcceptHook(&fnHook{func(ctx hooking.HookCtx) {
		if ctx.Pos != timing.HookPosBeforeEvent {
			return
		}
		evt := ctx.Item.(timing.Event)
		tr.event(fmt.Sprintf("%d|%s|%T|%v|%s", evt.Time(), evt.HandlerID(), evt, evt.IsSecondary(), mustJSON(evt)))
	}})
	for _, p := range ports {
		port := p
		port.AcceptHook(&fnHook{func(ctx hooking.HookCtx) {
			if ctx.Pos != messaging.HookPosPortMsgSend {
				return
			}
			m := ctx.Item.(messaging.Msg)
			mt := m.Meta()
			tr.msg(fmt.Sprintf("%d|%s|%T|id=%d src=%s dst=%s class=%s bytes=%d rspto=%d|%s",
				eng.CurrentTime(), port.Name(), m, mt.ID, mt.Src, mt.Dst, mt.TrafficClass, mt.TrafficBytes, mt.RspTo, mustJSON(m)))
		}})
	}
}

type ckptSaver interface{ SaveCheckpoint(w io.Writer) error }

func (tr *c03Trace) finalResources(pt vm.PageTable, store *mem.Storage, frames []uint64) {
	var b bytes.Buffer
	if err := pt.(ckptSaver).SaveCheckpoint(&b); err != nil {
		panic(err)
	}
	tr.final("pagetable", "PageTable", b.Bytes())
	// the table's answers to reverse lookups are part of its observable state
	var rl []string
	for _, f := range frames {
		pg, found := pt.ReverseLookup(f)
		rl = append(rl, fmt.Sprintf("%#x->%v %+v", f, found, pg))
	}
	tr.final("pagetable-reverse-lookup", "PageTable", []byte(strings.Join(rl, "\n")))
	if store != nil {
		b.Reset()
		if err := store.SaveCheckpoint(&b); err != nil {
			panic(err)
		}
		tr.final("storage", "MemCtrl.Storage", b.Bytes())
	}
	tr.final("id-generator", "timing", []byte(fmt.Sprint(timing.GetIDGeneratorNextID())))
}

// runC03 executes the case once, from a reset ID generator, and fingerprints it.
func runC03(c *c03Case, keep bool) (tr *c03Trace) {
	sum := sha256.New()
	tr = &c03Trace{keep: keep, sum: sum}
	defer func() { tr.Digest = hex.EncodeToString(sum.Sum(nil)) }()

	if c.Kind == "autoalloc" {
		var sim *c27Sim
		ok, sig, msg := kit.Guard(func() {
			sim = buildC27(&c.Alloc)
			tr.attach(sim.eng, []messaging.Port{sim.d.port, sim.m.GetPortByName("Top"), sim.m.GetPortByName("Control")})
			sim.d.TickLater()
			if err := sim.eng.RunUntil(c25CycleBudget * 1000); err != nil {
				panic(err)
			}
		})
		if !ok {
			tr.Crash = sig + ": " + firstLine(msg)
			tr.final("crash", "run", []byte(tr.Crash))
			return tr
		}
		tr.final("mmu", "MMU", mustJSON(sim.m.State))
		tr.final("connection", "Conn", mustJSON(sim.conn.State))
		psz := uint64(1) << c.Alloc.Log2
		cursor := sim.m.State.NextPhysicalPage
		seen, shared := map[uint64]bool{}, map[uint64]bool{}
		var frames []uint64
		for _, p := range c.Alloc.Pre {
			pa := c.Alloc.prePage(p).PAddr
			if seen[pa] {
				shared[pa] = true
			}
			seen[pa] = true
		}
		for f := uint64(0); f < cursor+psz; f += psz {
			frames = append(frames, f)
		}
		for _, p := range c.Alloc.Pre {
			frames = append(frames, c.Alloc.prePage(p).PAddr)
		}
		for pa := range shared {
			if pa < cursor {
				tr.SharedProbed = true
			}
		}
		tr.AutoAllocs = int(cursor / psz)
		tr.MaxOut = sim.d.maxOut
		tr.finalResources(sim.pt, nil, frames)
		return tr
	}

	var st *stack
	ok, sig, msg := kit.Guard(func() {
		st = buildStack(&c.Stack)
		tr.attach(st.eng, st.allPorts)
		st.drv.TickLater()
		if err := st.eng.RunUntil(c25CycleBudget * 1000); err != nil {
			panic(err)
		}
	})
	if !ok {
		tr.Crash = sig + ": " + firstLine(msg)
		tr.final("crash", "run", []byte(tr.Crash))
		return tr
	}
	tr.final("addresstranslator", "AT", mustJSON(st.at.State))
	for i, t := range st.tlbs {
		tr.final("tlb", fmt.Sprintf("TLB%d", i), mustJSON(t.State))
	}
	if st.mc != nil {
		tr.final("mmucache", "MMUCache", mustJSON(st.mc.State))
	}
	if st.gmmu != nil {
		tr.final("gmmu", "GMMU", mustJSON(st.gmmu.State))
	}
	tr.final("mmu", "MMU", mustJSON(st.mmu.State))
	tr.final("idealmemcontroller", "MemCtrl", mustJSON(st.memc.State))
	for _, cn := range st.conns {
		tr.final("connection", cn.Name(), mustJSON(cn.State))
	}
	psz := c.Stack.pageSize()
	cursor := st.mmu.State.NextPhysicalPage
	seen, shared := map[uint64]bool{}, map[uint64]bool{}
	var frames []uint64
	for _, p := range c.Stack.Pages {
		pa := p.Frame << c.Stack.Log2
		if seen[pa] {
			shared[pa] = true
		}
		seen[pa] = true
		frames = append(frames, pa)
	}
	for _, o := range c.Stack.Ops {
		if o.K == "upd" {
			frames = append(frames, o.Frame<<c.Stack.Log2)
		}
	}
	for f := uint64(0); f < cursor+psz && c.Stack.AutoAlloc; f += psz {
		frames = append(frames, f)
	}
	for pa := range shared {
		if c.Stack.AutoAlloc && cursor > 0 && pa < cursor {
			tr.SharedProbed = true
		}
	}
	tr.AutoAllocs = int(cursor / psz)
	tr.MaxOut = st.drv.maxOut
	tr.finalResources(st.pt, st.store, frames)
	return tr
}

// c03Diff names the first element in which two runs of one case differ.
func c03Diff(a, b *c03Trace, la, lb string) (sig, msg string) {
	txt := func(t *c03Trace, l []string, i int) string {
		if i < len(l) {
			return l[i]
		}
		return "(text not kept in this leg)"
	}
	cmp := func(what string, x, y []uint64, tx, ty []string) (string, string) {
		n := len(x)
		if len(y) < n {
			n = len(y)
		}
		for i := 0; i < n; i++ {
			if x[i] != y[i] {
				return "nondeterministic:" + what, fmt.Sprintf("%s #%d differs between %s and %s:\n  %s: %s\n  %s: %s", what, i, la, lb, la, txt(a, tx, i), lb, txt(b, ty, i))
			}
		}
		if len(x) != len(y) {
			return "nondeterministic:" + what, fmt.Sprintf("%s: %s has %d elements, %s has %d (first %d equal)", what, la, len(x), lb, len(y), n)
		}
		return "", ""
	}
	if s, m := cmp("events", a.Events, b.Events, a.evText, b.evText); s != "" {
		return s, m
	}
	if s, m := cmp("messages", a.Msgs, b.Msgs, a.msgText, b.msgText); s != "" {
		return s, m
	}
	for i := range a.Final {
		if i >= len(b.Final) || a.Final[i].Kind != b.Final[i].Kind || a.Final[i].Name != b.Final[i].Name || a.Final[i].Hash != b.Final[i].Hash {
			bt := "(missing)"
			if i < len(b.Final) {
				bt = b.Final[i].Kind + " " + b.Final[i].Name + ": " + b.Final[i].text
			}
			return "nondeterministic:final-state:" + a.Final[i].Kind, fmt.Sprintf("final state of %s %s differs between %s and %s:\n  %s: %s\n  %s: %s",
				a.Final[i].Kind, a.Final[i].Name, la, lb, la, a.Final[i].text, lb, bt)
		}
	}
	if len(a.Final) != len(b.Final) || a.Digest != b.Digest {
		return "nondeterministic:final-state:shape", fmt.Sprintf("fingerprints differ (%s vs %s) with equal elements", a.Digest, b.Digest)
	}
	return "", ""
}

// ---------------------------------------------------------------- child leg

type c03Job struct {
	Case   c03Case `json:"case"`
	Result string  `json:"result"`
}

func c03ChildMain(jobFile string) int {
	b, err := os.ReadFile(jobFile)
	if err != nil {
		fmt.Fprintln(os.Stderr, err)
		return 3
	}
	var j c03Job
	if err := json.Unmarshal(b, &j); err != nil {
		fmt.Fprintln(os.Stderr, err)
		return 3
	}
	tr := runC03(&j.Case, false)
	if err := os.WriteFile(j.Result, mustJSON(tr), 0o644); err != nil {
		fmt.Fprintln(os.Stderr, err)
		return 3
	}
	return 0
}

// c03StartChild launches the child leg (it runs while the parent does its own
// repeats); the returned function waits for it and returns its trace.
func c03StartChild(dir string, c *c03Case) (wait func() (*c03Trace, error), err error) {
	jobFile := filepath.Join(dir, "job.json")
	j := c03Job{Case: *c, Result: filepath.Join(dir, "result.json")}
	_ = os.Remove(j.Result)
	if err := os.WriteFile(jobFile, mustJSON(j), 0o644); err != nil {
		return nil, err
	}
	cmd := exec.Command(os.Args[0], "-test.run", "^$")
	cmd.Env = append(os.Environ(), "VERIF_CHILD="+jobFile, "VERIF_EVIDENCE_OUT=")
	var out bytes.Buffer
	cmd.Stdout, cmd.Stderr = &out, &out
	if err := cmd.Start(); err != nil {
		return nil, err
	}
	return func() (*c03Trace, error) {
		if err := cmd.Wait(); err != nil {
			return nil, fmt.Errorf("child failed: %v\n%s", err, out.String())
		}
		rb, err := os.ReadFile(j.Result)
		if err != nil {
			return nil, fmt.Errorf("child wrote no result: %v\n%s", err, out.String())
		}
		tr := &c03Trace{}
		return tr, json.Unmarshal(rb, tr)
	}, nil
}

// ---------------------------------------------------------------- generator

func genC03(rt *rapid.T) c03Case {
	if rapid.IntRange(0, 3).Draw(rt, "kind") == 0 {
		c := c03Case{Kind: "autoalloc", Alloc: genC27(rt)}
		c.Alloc.Stall = rapid.SampledFrom([]int{0, 0, 2, 5, 11}).Draw(rt, "stall")
		if len(c.Alloc.Pre) >= 2 && rapid.IntRange(0, 3).Draw(rt, "share") > 0 {
			for i := 1; i < len(c.Alloc.Pre); i++ {
				if i == 1 || rapid.IntRange(0, 2).Draw(rt, "sh") == 0 {
					c.Alloc.Pre[i].Frame = c.Alloc.Pre[rapid.IntRange(0, i-1).Draw(rt, "with")].Frame
				}
			}
		}
		return c
	}
	st, _ := genC25(rt, c25Steer{})
	c := c03Case{Kind: "stack", Stack: st}
	s := &c.Stack
	s.Stall = rapid.SampledFrom([]int{0, 0, 2, 5, 11}).Draw(rt, "stall")
	auto := s.Bottom == "mmu" && rapid.IntRange(0, 2).Draw(rt, "auto") > 0
	if auto {
		s.AutoAlloc = true
		// put the mapped frames where the allocation cursor sweeps
		for i := range s.Pages {
			s.Pages[i].Frame = uint64(i) + 1
		}
		used := map[[2]uint64]bool{}
		for _, p := range s.Pages {
			used[[2]uint64{uint64(p.PID), p.VPN}] = true
		}
		for n := rapid.IntRange(2, 6).Draw(rt, "nunmapped"); n > 0; n-- {
			p := pageCfg{PID: uint32(rapid.IntRange(1, 4).Draw(rt, "upid")), VPN: rapid.Uint64Range(0, 60).Draw(rt, "uvpn")}
			if k := [2]uint64{uint64(p.PID), p.VPN}; !used[k] {
				used[k] = true
				s.Unmapped = append(s.Unmapped, p)
			}
		}
		for i := range s.Ops {
			o := &s.Ops[i]
			if len(s.Unmapped) > 0 && (o.K == "rd" || o.K == "wr" || o.K == "tr") && rapid.Bool().Draw(rt, "tounmapped") {
				o.Page = len(s.Pages) + rapid.IntRange(0, len(s.Unmapped)-1).Draw(rt, "ui")
			}
		}
	}
	if len(s.Pages) >= 2 && rapid.IntRange(0, 3).Draw(rt, "share") > 0 {
		for i := 1; i < len(s.Pages); i++ {
			if i == 1 || rapid.IntRange(0, 2).Draw(rt, "sh") == 0 {
				s.Pages[i].Frame = s.Pages[rapid.IntRange(0, i-1).Draw(rt, "with")].Frame
			}
		}
	}
	return c
}

func (c *c03Case) validate() error {
	switch c.Kind {
	case "stack":
		return c.Stack.validateWith(true)
	case "autoalloc":
		return c.Alloc.validateWith(true)
	}
	return fmt.Errorf("kind %q", c.Kind)
}

const c03Rule = "3 of 4 cases: a C25 translation stack case (driver -> AT -> 0-2 TLBs -> optional mmuCache -> MMU | GMMU->MMU, scripted reads/writes/direct TranslationReqs/page-table Updates/Drain- and Pause-Invalidate-Enable rounds, no steering) widened for C03: in half of them pages of different processes share physical frames, and on MMU-bottomed stacks half enable auto-allocation with 1-5 unmapped pages that a quarter of the accesses target (mapped frames then sit at 1..n where the allocation cursor sweeps); " +
	"1 of 4 cases: a C27 auto-allocation case (MMU alone, concurrent walks) whose pre-inserted pages may share frames. In 3 of 5 cases the driver leaves its incoming messages unread during every other window of 2/5/11 cycles (backpressure, so arbitration and retry orders become observable). Each case is built and run to an empty event queue R times in this process (R=3 quick, 6 thorough; timing.ResetIDGenerator before each build) and once in a fresh child process (re-exec with VERIF_CHILD). " +
	"Fingerprint, compared element by element: every handled event (time, handler, Go type, secondary, JSON incl. ID; engine BeforeEvent hook), every message sent on every port (time, port, type, all MsgMeta fields, JSON body; port Send hook), final json State of every component and connection, page table SaveCheckpoint bytes, the table's ReverseLookup answer for every frame of the case and every frame below the allocation cursor, storage SaveCheckpoint bytes, next ID of the generator. " +
	"Non-trivial: >= 50 handled events and (the auto-allocation cursor passed a frame shared by several pages, i.e. that frame was reverse-looked-up, or >= 2 driver requests were in flight at once)"

func TestC03VM(t *testing.T) {
	s := kit.Begin(t, "C03", "vm-stacks", c03Rule)
	defer s.End()
	s.Assume("the harness' own driver is deterministic (plain slices and maps only used for lookup by ID); the child leg shares the binary and environment with the parent, so only process-level influences (address layout, hash seeds, leftover global state) differ")
	s.Assume("a crash (panic) of a run is folded into the fingerprint instead of being judged: C03 only asks that all runs agree")

	work := os.Getenv("VERIF_WORK")
	if work == "" {
		work = t.TempDir()
	}
	dir, err := os.MkdirTemp(work, "c03vm")
	if err != nil {
		t.Fatal(err)
	}
	defer os.RemoveAll(dir)
	repeats := 3
	if kit.Thorough() {
		repeats = 6
	}

	run := func(f kit.Failer, c c03Case) {
		if err := c.validate(); err != nil {
			f.Fatalf("harness problem [invalid-case]: %v", err)
		}
		waitChild, err := c03StartChild(dir, &c)
		if err != nil {
			f.Fatalf("harness problem [child]: %v", err)
		}
		first := runC03(&c, true)
		for r := 1; r < repeats; r++ {
			again := runC03(&c, true)
			if sig, msg := c03Diff(first, again, "run 1", fmt.Sprintf("run %d (same process)", r+1)); sig != "" {
				_, _ = waitChild()
				s.Fail(f, c, sig, "%s", msg)
				return
			}
		}
		child, err := waitChild()
		if err != nil {
			f.Fatalf("harness problem [child]: %v", err)
		}
		if sig, msg := c03Diff(first, child, "run 1", "the child process"); sig != "" {
			s.Fail(f, c, sig+"(cross-process)", "%s", msg)
			return
		}
		cl := []string{"kind=" + c.Kind}
		flag := func(b bool, name string) {
			if b {
				cl = append(cl, name)
			}
		}
		flag(first.SharedProbed, "shared-frame-reverse-looked-up-by-autoalloc")
		flag(first.AutoAllocs > 0, "auto-allocated")
		flag(first.MaxOut >= 2, "requests-in-flight>=2")
		flag(first.Crash != "", "crashed-identically")
		flag(len(first.Events) >= 50, "events>=50")
		if c.Kind == "stack" {
			flag(c.Stack.Bottom == "gmmu", "gmmu")
			flag(c.Stack.HasMC, "mmucache")
			flag(len(c.Stack.TLBs) > 0, "tlb")
			inv := false
			for _, o := range c.Stack.Ops {
				inv = inv || o.K == "inv"
			}
			flag(inv && len(c.Stack.TLBs)+btoi(c.Stack.HasMC) > 0, "invalidation-round")
		}
		s.AddExtra("events", len(first.Events))
		s.AddExtra("messages", len(first.Msgs))
		s.Note(c, len(first.Events) >= 50 && (first.SharedProbed || first.MaxOut >= 2), cl...)
	}

	var c c03Case
	if ok, err := kit.LoadReplay("C03", "vm-stacks", &c); ok {
		if err != nil {
			t.Fatal(err)
		}
		run(t, c)
		return
	} else if kit.ReplayMode() {
		t.Skip()
	}

	kit.SetChecks(160, 800)
	rapid.Check(t, func(rt *rapid.T) { run(rt, genC03(rt)) })
}

func btoi(b bool) int {
	if b {
		return 1
	}
	return 0
}
