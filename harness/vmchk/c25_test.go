package vmchk

import (
	"fmt"
	"sort"
	"strings"
	"testing"

	"github.com/sarchlab/akita/v5/mem/vm"
	"github.com/sarchlab/akita/v5/timing"
	"pgregory.net/rapid"

	"verif/harness/kit"
)

// Signatures of the listed findings (input class / call site).
const (
	sigTLBLat1    = "tlb-latency-1-hang"        // a TLB built with Latency=1 never answers (queueing.Pipeline, C15)
	sigMCRspTo    = "rsp-unmatched:mmucache"    // mmuCache answers with RspTo = its own bottom request ID
	sigGMMURemote = "rsp-unmatched:gmmu-remote" // gmmu answers a remote walk with RspTo = the MMU response's ID
	// Pause (not Drain) -> Invalidate -> Enable while a miss is in flight: the late fill re-installs the old mapping
	sigPauseInval = "stale-after-pause-invalidate"
)

const c25CycleBudget = 2_000_000 // simulated cycles; legitimate runs need < 50k

type c25Result struct {
	Sig        string
	Msg        string
	Classes    []string
	Nontrivial bool
}

type version struct {
	page      vm.Page
	start     timing.VTimeInPicoSec
	end       timing.VTimeInPicoSec // time of the superseding Update, tInf if current
	invalDone timing.VTimeInPicoSec // completion of the first covering round started at/after end
}

type c25Judge struct {
	st   *stack
	c    *c25Case
	hist [][]version
}

func (j *c25Judge) covers(r *roundRec, pageIdx int) bool {
	p := j.c.Pages[pageIdx]
	if r.pid != 0 && r.pid != p.PID {
		return false
	}
	if len(r.addrs) == 0 {
		return true
	}
	for _, a := range r.addrs {
		if a>>j.c.Log2 == p.VPN {
			return true
		}
	}
	return false
}

func (j *c25Judge) buildHistory() {
	d := j.st.drv
	j.hist = make([][]version, len(j.c.Pages))
	for i, p := range j.c.Pages {
		j.hist[i] = []version{{page: j.c.initialPage(p), start: 0, end: tInf, invalDone: tInf}}
	}
	for _, u := range d.updates {
		h := j.hist[u.page]
		h[len(h)-1].end = u.t
		j.hist[u.page] = append(h, version{page: u.to, start: u.t, end: tInf, invalDone: tInf})
	}
	for pi := range j.hist {
		for vi := range j.hist[pi] {
			v := &j.hist[pi][vi]
			if v.end == tInf {
				continue
			}
			for _, r := range d.rounds {
				if r.done && r.start >= v.end && j.covers(r, pi) && r.invalDone < v.invalDone {
					v.invalDone = r.invalDone
				}
			}
		}
	}
}

// allowed returns the versions of page pi a request received at tRecv and
// answered at tRsp may legitimately observe. A version must exist by the time
// of the answer; it may be observed if it was still the table's content after
// the request was received, or — only on a path with a translation-caching
// level — if no acknowledged covering invalidation of all caches had completed
// when the request was received.
func (j *c25Judge) allowed(pi int, tRecv, tRsp timing.VTimeInPicoSec, cached bool) []int {
	var out []int
	for vi, v := range j.hist[pi] {
		if v.start > tRsp {
			continue
		}
		if v.end > tRecv || (cached && v.invalDone > tRecv) {
			out = append(out, vi)
		}
	}
	return out
}

// staleSig names a stale observation by the kind of round that had forbidden
// the old version: rounds that only Pause a busy cache are their own class.
func (j *c25Judge) staleSig(base string, v version) string {
	for _, r := range j.st.drv.rounds {
		if r.done && r.invalDone == v.invalDone && r.mode == "pause" {
			return sigPauseInval
		}
	}
	return base
}

func (j *c25Judge) cachedFrom(level int) bool {
	for i := level; i < len(j.st.levels); i++ {
		if j.st.levels[i].kind == "tlb" {
			return true
		}
	}
	return false
}

func (j *c25Judge) versionsStr(pi int, idx []int) string {
	var s []string
	for _, vi := range idx {
		v := j.hist[pi][vi]
		s = append(s, fmt.Sprintf("v%d{paddr=%#x dev=%d from=%d}", vi, v.page.PAddr, v.page.DeviceID, v.start))
	}
	return strings.Join(s, ",")
}

// judgeTranslations checks every answered translation seen at any level's Top.
func (j *c25Judge) judgeTranslations(res *c25Result, stats *c25Stats) bool {
	trs := j.st.trs
	sort.SliceStable(trs, func(a, b int) bool { return trs[a].tRsp < trs[b].tRsp })
	for _, tr := range trs {
		l := j.st.levels[tr.level]
		kind := j.st.levelKindOf(l, tr.page)
		pi, ok := j.st.pageIdx[[2]uint64{uint64(tr.req.pid), tr.req.vaddr >> j.c.Log2}]
		if !ok {
			res.Sig = "req-unknown-page:" + l.kind
			res.Msg = fmt.Sprintf("%s received a translation request for pid=%d vaddr=%#x which no requester asked for", l.name, tr.req.pid, tr.req.vaddr)
			return false
		}
		cached := j.cachedFrom(tr.level)
		al := j.allowed(pi, tr.req.tRecv, tr.tRsp, cached)
		match := -1
		for _, vi := range al {
			if j.hist[pi][vi].page == tr.page {
				match = vi
			}
		}
		if match < 0 {
			res.Sig = "wrong-translation:" + kind
			for _, v := range j.hist[pi] {
				if v.page == tr.page {
					res.Sig = j.staleSig("stale-translation:"+kind, v)
				}
			}
			res.Msg = fmt.Sprintf("%s answered request %d (pid=%d vaddr=%#x from %s, received@%d) at %d with page %+v; page table history allows only [%s] (cached path=%v)",
				l.name, tr.reqID, tr.req.pid, tr.req.vaddr, tr.req.src, tr.req.tRecv, tr.tRsp, tr.page, j.versionsStr(pi, al), cached)
			return false
		}
		j.noteWindow(stats, pi, match, al, tr.req.tRecv, cached)
		if l.kind == "gmmu" && tr.page.DeviceID != localDevice {
			stats.gmmuRemote++
		}
		if l.kind == "mmucache" {
			stats.mcAnswers++
		}
	}
	return true
}

// noteWindow classifies how the update/invalidate part of the oracle was exercised.
func (j *c25Judge) noteWindow(stats *c25Stats, pi, match int, al []int, tRecv timing.VTimeInPicoSec, cached bool) {
	h := j.hist[pi]
	if len(h) == 1 {
		return
	}
	if match < len(h)-1 && h[match].end <= tRecv {
		stats.oldSeen++ // an old mapping served from a cache inside its allowed window
	}
	for vi := range h {
		v := h[vi]
		if v.end <= tRecv && cached && v.invalDone <= tRecv {
			stats.strictAfterInval++ // an acknowledged invalidation forbade an old mapping for this request
			break
		}
	}
	if h[0].end <= tRecv {
		stats.afterUpdate++
	}
}

func (j *c25Judge) opMask(r *reqRec, k int) bool {
	m := j.c.Ops[r.op].Mask
	return m == 0 || m>>uint(k)&1 == 1
}

// judgeReads: the data of a read must be the content of one allowed physical
// location (pattern, or the bytes of a write to the same virtual bytes).
func (j *c25Judge) judgeReads(res *c25Result, stats *c25Stats) bool {
	d := j.st.drv
	cached := len(j.c.TLBs) > 0
	for _, r := range d.recs {
		if r.kind != "rd" {
			continue
		}
		op := j.c.Ops[r.op]
		if len(r.data) != r.size {
			res.Sig = "read-size"
			res.Msg = fmt.Sprintf("%v: asked for %d bytes, got %d", r, r.size, len(r.data))
			return false
		}
		matchAt := func(base uint64) bool {
			for k := 0; k < r.size; k++ {
				o := r.off + uint64(k)
				if r.data[k] == patByte(base+o) {
					continue
				}
				ok := false
				for _, w := range d.wrOfPage[op.Page] {
					if w.tIssue <= r.tRsp && o >= w.off && o < w.off+uint64(w.size) && j.opMask(w, int(o-w.off)) && w.data[o-w.off] == r.data[k] {
						ok = true
					}
				}
				if !ok {
					return false
				}
			}
			return true
		}
		al := j.allowed(op.Page, r.tIssue, r.tRsp, cached)
		match := -1
		for _, vi := range al {
			if matchAt(j.hist[op.Page][vi].page.PAddr) {
				match = vi
			}
		}
		if match < 0 {
			res.Sig = "access-wrong-location"
			where := j.locate(r.data, r.off, op.Page)
			for _, v := range j.hist[op.Page] {
				if matchAt(v.page.PAddr) {
					res.Sig = j.staleSig("stale-access", v)
				}
			}
			p := j.c.Pages[op.Page]
			res.Msg = fmt.Sprintf("%v: read pid=%d vaddr=%#x+%#x size=%d returned %x; allowed locations [%s]; the data is %s; memory saw %s",
				r, p.PID, p.VPN<<j.c.Log2, r.off, r.size, r.data, j.versionsStr(op.Page, al), where, j.memNear(r))
			return false
		}
		j.noteWindow(stats, op.Page, match, al, r.tIssue, cached)
		stats.reads++
	}
	return true
}

// locate says which physical location a read's data is the pattern of (diagnostics).
func (j *c25Judge) locate(data []byte, off uint64, page int) string {
	eq := func(base uint64) bool {
		for k := range data {
			if data[k] != patByte(base+uint64(k)) {
				return false
			}
		}
		return true
	}
	for pi := range j.hist {
		for vi, v := range j.hist[pi] {
			if eq(v.page.PAddr + off) {
				tag := "the pattern of"
				if pi == page {
					tag = "STALE: the pattern of a disallowed version of the same page:"
				}
				return fmt.Sprintf("%s pid=%d vpn=%#x v%d paddr=%#x + the same offset", tag, j.c.Pages[pi].PID, j.c.Pages[pi].VPN, vi, v.page.PAddr)
			}
		}
	}
	for pi := range j.hist {
		for vi, v := range j.hist[pi] {
			for o := uint64(0); o+uint64(len(data)) <= j.c.pageSize(); o++ {
				if eq(v.page.PAddr + o) {
					return fmt.Sprintf("the pattern of pid=%d vpn=%#x v%d paddr=%#x + offset %#x (offset not preserved)", j.c.Pages[pi].PID, j.c.Pages[pi].VPN, vi, v.page.PAddr, o)
				}
			}
		}
	}
	return "not the pattern of any mapped location"
}

func (j *c25Judge) memNear(r *reqRec) string {
	var s []string
	for _, m := range j.st.memLog {
		if m.t >= r.tIssue && m.t <= r.tRsp && m.size == uint64(r.size) {
			s = append(s, fmt.Sprintf("%#x@%d", m.addr, m.t))
		}
	}
	if len(s) > 6 {
		s = s[:6]
	}
	return "[" + strings.Join(s, " ") + "]"
}

// judgeWrites: every acknowledged write is found at one of its allowed physical
// locations; every other byte of every mapped frame still holds the pattern.
func (j *c25Judge) judgeWrites(res *c25Result, stats *c25Stats) bool {
	d := j.st.drv
	cached := len(j.c.TLBs) > 0
	psz := j.c.pageSize()
	frames := map[uint64][]byte{}
	load := func(base uint64) []byte {
		if b, ok := frames[base]; ok {
			return b
		}
		b, err := j.st.store.Read(base, psz)
		if err != nil {
			panic(err)
		}
		frames[base] = b
		return b
	}
	explained := map[uint64]bool{}
	for _, r := range d.recs {
		if r.kind != "wr" {
			continue
		}
		op := j.c.Ops[r.op]
		al := j.allowed(op.Page, r.tIssue, r.tRsp, cached)
		found := false
		for _, vi := range al {
			base := j.hist[op.Page][vi].page.PAddr
			m := load(base)
			ok := true
			for k := 0; k < r.size; k++ {
				want := patByte(base + r.off + uint64(k))
				if j.opMask(r, k) {
					want = r.data[k]
				}
				if m[r.off+uint64(k)] != want {
					ok = false
				}
			}
			if ok {
				found = true
				for k := 0; k < r.size; k++ {
					if j.opMask(r, k) {
						explained[base+r.off+uint64(k)] = true
					}
				}
				j.noteWindow(stats, op.Page, vi, al, r.tIssue, cached)
			}
		}
		if !found {
			p := j.c.Pages[op.Page]
			res.Sig = "write-wrong-location"
			res.Msg = fmt.Sprintf("%v: write pid=%d vaddr=%#x+%#x data=%x mask=%#x acknowledged but none of the allowed locations [%s] holds it; memory saw %s",
				r, p.PID, p.VPN<<j.c.Log2, r.off, r.data, op.Mask, j.versionsStr(op.Page, al), j.memNear(r))
			return false
		}
		stats.writes++
	}
	var bases []uint64
	for pi := range j.hist {
		for _, v := range j.hist[pi] {
			bases = append(bases, v.page.PAddr)
		}
	}
	for _, o := range j.c.Ops { // frames of updates that were never executed do not exist in hist
		if o.K == "upd" {
			bases = append(bases, o.Frame<<j.c.Log2)
		}
	}
	sort.Slice(bases, func(a, b int) bool { return bases[a] < bases[b] })
	for _, base := range bases {
		m := load(base)
		for k := uint64(0); k < psz; k++ {
			if m[k] != patByte(base+k) && !explained[base+k] {
				res.Sig = "stray-write"
				res.Msg = fmt.Sprintf("physical byte %#x holds %#x, expected the fill pattern %#x: some write reached a location no acknowledged write is allowed to reach", base+k, m[k], patByte(base+k))
				return false
			}
		}
	}
	return true
}

type c25Stats struct {
	reads, writes     int
	gmmuRemote        int
	mcAnswers         int
	oldSeen           int
	strictAfterInval  int
	afterUpdate       int
}

// execC25 builds the stack of the case, runs the script to the end of the
// event queue and judges the recorded history. Pure function of the case.
func execC25(c c25Case) (res c25Result) {
	if err := c.validate(); err != nil {
		return c25Result{Sig: "harness:invalid-case", Msg: err.Error()}
	}
	var st *stack
	ok, sig, msg := kit.Guard(func() { st = buildStack(&c) })
	if !ok {
		return c25Result{Sig: "build-" + sig, Msg: msg}
	}
	st.drv.TickLater()
	ok, sig, msg = kit.Guard(func() {
		if err := st.eng.RunUntil(c25CycleBudget * 1000); err != nil {
			panic(err)
		}
	})
	if !ok {
		if len(st.viols) > 0 { // an earlier protocol violation explains the crash
			return c25Result{Sig: st.viols[0].sig, Msg: st.viols[0].msg + " (later: " + firstLine(msg) + ")"}
		}
		return c25Result{Sig: sig, Msg: msg}
	}
	if st.eng.CurrentTime() >= (c25CycleBudget-2)*1000 {
		return c25Result{Sig: "harness:cycle-budget", Msg: fmt.Sprintf("still active after %d cycles", c25CycleBudget)}
	}
	if len(st.viols) > 0 {
		v := st.viols[0]
		return c25Result{Sig: v.sig, Msg: fmt.Sprintf("@%d %s", v.t, v.msg)}
	}
	d := st.drv
	stuckSig, stuck := st.describeStuck()
	if d.pc < len(c.Ops) || len(d.out) > 0 || d.round != nil || stuck != "" {
		var open []string
		for _, r := range d.recs {
			if !r.done {
				open = append(open, fmt.Sprintf("op%d(%s)", r.op, r.kind))
			}
		}
		if stuckSig == "" {
			stuckSig = "hang:driver"
		}
		rs := ""
		if d.round != nil {
			s := d.round.steps[d.round.idx]
			rs = fmt.Sprintf("; control round of op %d waits at step %d (%s)", d.round.rec.op, d.round.idx, s.what)
			if stuckSig != sigTLBLat1 {
				stuckSig = "hang:ctrl:" + s.what
			}
		}
		return c25Result{Sig: stuckSig, Msg: fmt.Sprintf("event queue empty at %d ps with work outstanding: script at op %d/%d, unanswered driver requests [%s]%s; %s",
			st.eng.CurrentTime(), d.pc, len(c.Ops), strings.Join(open, " "), rs, stuck)}
	}

	j := &c25Judge{st: st, c: &c}
	j.buildHistory()
	stats := &c25Stats{}
	if !j.judgeTranslations(&res, stats) || !j.judgeReads(&res, stats) {
		return res
	}
	ok, sig, msg = kit.Guard(func() { j.judgeWrites(&res, stats) })
	if !ok {
		return c25Result{Sig: "harness:" + sig, Msg: msg}
	}
	if res.Sig != "" {
		return res
	}

	// classes, judged from what happened
	cl := []string{fmt.Sprintf("tlbs=%d", len(c.TLBs)), "bottom=" + c.Bottom, fmt.Sprintf("page=%dK", c.pageSize()/1024)}
	hit, miss, mh, ev, inval, tkPairs, tkLookups := 0, 0, 0, 0, 0, 0, 0
	for _, ts := range st.stats {
		hit += ts.hits()
		miss += ts.misses
		mh += ts.mshrHits
		ev += ts.evicts
		inval += ts.invalid
		tkPairs += ts.textKeyPairs
		tkLookups += ts.textKeyLookups
	}
	pidDigits, pidFamily := map[int]bool{}, false
	for _, p := range c.Pages {
		pidDigits[len(fmt.Sprint(p.PID))] = true
		for _, q := range c.Pages {
			pidFamily = pidFamily || (q.PID >= 10 && q.PID/10 == p.PID)
		}
	}
	flag := func(b bool, name string) {
		if b {
			cl = append(cl, name)
		}
	}
	flag(hit > 0, "tlb-hit")
	flag(miss > 0, "tlb-miss")
	flag(mh > 0, "tlb-mshr-hit")
	flag(ev > 0, "tlb-eviction")
	flag(inval > 0, "tlb-entry-invalidated")
	flag(c.HasMC && len(c.TLBs) > 0 && stats.mcAnswers > 0, "mmucache-between-tlb-and-mmu")
	flag(c.HasMC && len(c.TLBs) == 0 && stats.mcAnswers > 0, "mmucache-under-at")
	flag(stats.gmmuRemote > 0, "gmmu-remote-path")
	flag(stats.reads > 0, "reads")
	flag(stats.writes > 0, "writes")
	flag(len(d.updates) > 0, "pt-update")
	nRound := map[string]int{}
	for _, r := range d.rounds {
		nRound[r.mode]++
	}
	flag(nRound["drain"] > 0, "round-drain")
	flag(nRound["quiesce"] > 0, "round-quiesce")
	flag(nRound["pause"] > 0, "round-pause-busy")
	flag(stats.oldSeen > 0, "old-mapping-served-in-window")
	flag(stats.strictAfterInval > 0, "request-after-acked-invalidation")
	flag(stats.afterUpdate > 0, "request-after-update")
	direct := 0
	for _, r := range d.recs {
		if r.kind == "tr" {
			direct++
		}
	}
	flag(direct > 0, "direct-translation-reqs")
	flag(len(pidDigits) > 1, "pids-of-different-decimal-width")
	flag(pidFamily, "pid-family(p,10p+d)")
	flag(tkPairs > 0, "tlb-set-holds-two-processes'-entries-with-equal-unpadded-pid+vaddr-text")
	flag(tkLookups > 0, classTextKeyLookup)
	res.Classes = cl
	res.Nontrivial = hit > 0 && miss > 0 && mh > 0 && ev > 0
	return res
}

func firstLine(s string) string {
	if i := strings.IndexByte(s, '\n'); i >= 0 {
		return s[:i]
	}
	return s
}

// ---------------------------------------------------------------- generator

type c25Steer struct{ lat1, mc, gmmuRemote, pause bool }

func genC25(rt *rapid.T, steer c25Steer) (c c25Case, excluded int) {
	c.Log2 = rapid.SampledFrom([]uint64{12, 12, 14, 16}).Draw(rt, "log2")
	nTLB := rapid.SampledFrom([]int{0, 1, 1, 2, 2, 2}).Draw(rt, "ntlb")
	for i := 0; i < nTLB; i++ {
		t := tlbCfg{
			Sets: rapid.SampledFrom([]int{1, 1, 2, 2, 3, 4}).Draw(rt, "sets"),
			Ways: rapid.SampledFrom([]int{1, 1, 2, 2, 3}).Draw(rt, "ways"),
			MSHR: rapid.IntRange(1, 4).Draw(rt, "mshr"),
			Lat:  rapid.IntRange(1, 5).Draw(rt, "lat"),
			RPC:  rapid.IntRange(1, 4).Draw(rt, "rpc"),
		}
		if t.Lat == 1 && steer.lat1 {
			t.Lat = 2
			excluded++
		}
		c.TLBs = append(c.TLBs, t)
	}
	c.HasMC = rapid.IntRange(0, 2).Draw(rt, "mc") == 0
	if c.HasMC {
		c.MC = mcCfg{
			Levels:      rapid.IntRange(1, 5).Draw(rt, "mclevels"),
			Blocks:      rapid.IntRange(1, 4).Draw(rt, "mcblocks"),
			LatPerLevel: rapid.IntRange(0, 5).Draw(rt, "mclat"),
			RPC:         rapid.IntRange(1, 4).Draw(rt, "mcrpc"),
		}
		if steer.mc {
			c.HasMC, c.MC = false, mcCfg{}
			excluded++
		}
	}
	c.Bottom = rapid.SampledFrom([]string{"mmu", "mmu", "gmmu"}).Draw(rt, "bottom")
	c.MMULat = rapid.IntRange(0, 8).Draw(rt, "mmulat")
	c.MMUMax = rapid.IntRange(1, 8).Draw(rt, "mmumax")
	if c.Bottom == "gmmu" {
		c.GMMULat = rapid.IntRange(0, 5).Draw(rt, "gmmulat")
		c.GMMUMax = rapid.IntRange(1, 8).Draw(rt, "gmmumax")
	}
	c.ATRPC = rapid.IntRange(1, 4).Draw(rt, "atrpc")
	c.MemLat = rapid.IntRange(0, 5).Draw(rt, "memlat")
	c.MemWidth = rapid.IntRange(1, 4).Draw(rt, "memwidth")
	c.Buf = rapid.IntRange(1, 8).Draw(rt, "buf")

	// page table: 1-4 processes over a small VPN pool (so processes share VPNs
	// and TLB sets collide), distinct frames.
	// Process IDs: half of the cases use 1..n; the others draw them from ranges
	// with 1, 2, 3 and up to 10 decimal digits. When there are several processes,
	// half of the cases make one PID a decimal extension of another (p and
	// 10p+d: 1/13, 2/27, 13/131 ...).
	procs := rapid.IntRange(1, 4).Draw(rt, "procs")
	pids := make([]uint32, procs)
	for i := range pids {
		pids[i] = uint32(i) + 1
	}
	if rapid.Bool().Draw(rt, "pidpool") {
		pidGen := rapid.OneOf(rapid.Uint32Range(1, 9), rapid.Uint32Range(1, 9), rapid.Uint32Range(10, 39),
			rapid.Uint32Range(100, 139), rapid.Uint32Range(1, 999), rapid.Uint32Range(1<<31, 1<<32-1))
		pids = rapid.SliceOfNDistinct(pidGen, procs, procs, rapid.ID[uint32]).Draw(rt, "pids")
	}
	famBase, famExt, famDigit := -1, -1, uint64(0)
	if procs >= 2 && rapid.Bool().Draw(rt, "pidfamily") {
		b := rapid.IntRange(0, procs-1).Draw(rt, "fambase")
		e := (b + rapid.IntRange(1, procs-1).Draw(rt, "famext")) % procs
		d := rapid.Uint32Range(1, 9).Draw(rt, "famdigit")
		ext := uint64(pids[b])*10 + uint64(d)
		dup := ext > 1<<32-1
		for i, p := range pids {
			dup = dup || (i != e && uint64(p) == ext)
		}
		if !dup {
			pids[e] = uint32(ext)
			famBase, famExt, famDigit = b, e, uint64(d)
		}
	}
	maxVPN := uint64(1)<<(63-c.Log2) - 1
	vpnGen := rapid.OneOf(
		rapid.Uint64Range(0, 7), rapid.Uint64Range(0, 7), rapid.Uint64Range(0, 40), rapid.Uint64Range(0, 0x3f),
		rapid.Map(rapid.Uint64Range(0, 7), func(k uint64) uint64 { return 1<<20 + k }),
		rapid.Map(rapid.Uint64Range(0, 7), func(k uint64) uint64 { return maxVPN - k }),
	)
	vpns := rapid.SliceOfNDistinct(vpnGen, 1, 8, rapid.ID[uint64]).Draw(rt, "vpns")
	// With a PID family (p, 10p+d): for 1-2 pool pages v add the page whose
	// address reads, in hex, as the digit d followed by the address of v (0x1000
	// -> 0x11000 for d=1), so that the decimal PID followed by the hex address is
	// the same text for (p, that page) and (10p+d, v). The two differ by a
	// multiple of 16 pages, i.e. share a TLB set for 1, 2 and 4 sets.
	type vpnPair struct{ long, short uint64 }
	var twins []vpnPair
	if famBase >= 0 && rapid.IntRange(0, 3).Draw(rt, "twins") > 0 {
		for n := rapid.IntRange(1, 2).Draw(rt, "ntwins"); n > 0; n-- {
			v := vpns[rapid.IntRange(0, len(vpns)-1).Draw(rt, "twinof")]
			if v == 0 {
				continue
			}
			hexLen := uint64(0)
			for a := v << c.Log2; a > 0; a >>= 4 {
				hexLen++
			}
			if 4*hexLen >= 60 {
				continue
			}
			w := v + famDigit<<(4*hexLen-c.Log2)
			if w > maxVPN {
				continue
			}
			have := false
			for _, x := range vpns {
				have = have || x == w
			}
			if !have {
				vpns = append(vpns, w)
			}
			twins = append(twins, vpnPair{long: w, short: v})
		}
	}
	vpnIdx := func(v uint64) int {
		for i, x := range vpns {
			if x == v {
				return i
			}
		}
		panic("vpn not in pool")
	}
	maxPages := procs * len(vpns)
	if maxPages > 14 {
		maxPages = 14
	}
	slots := rapid.SliceOfNDistinct(rapid.IntRange(0, procs*len(vpns)-1), 1, maxPages, rapid.ID[int]).Draw(rt, "pages")
	var twinSlots []int // (p, long) and (10p+d, short) are mapped
	for _, tw := range twins {
		for _, want := range []int{vpnIdx(tw.long)*procs + famBase, vpnIdx(tw.short)*procs + famExt} {
			have := false
			for _, s := range slots {
				have = have || s == want
			}
			if !have {
				slots = append(slots, want)
			}
			twinSlots = append(twinSlots, want)
		}
	}
	nOps := rapid.IntRange(3, 70).Draw(rt, "nops")
	frames := rapid.SliceOfNDistinct(rapid.Uint64Range(1, 250), len(slots)+8, len(slots)+8, rapid.ID[uint64]).Draw(rt, "frames")
	steeredRemote, steeredPause := false, false
	var recent []int // recently used pages (locality → hits, MSHR hits)
	for i, s := range slots {
		p := pageCfg{PID: pids[s%procs], VPN: vpns[s/procs], Frame: frames[i]}
		if c.Bottom == "gmmu" {
			p.Remote = rapid.IntRange(0, 2).Draw(rt, "remote") == 0
			if p.Remote && steer.gmmuRemote {
				p.Remote, steeredRemote = false, true
			}
		}
		c.Pages = append(c.Pages, p)
		for _, ts := range twinSlots {
			if ts == s && len(recent) < 4 {
				recent = append(recent, i) // the script starts with these pages being the recent ones
			}
		}
	}
	spare := frames[len(slots):]

	// script
	var updated []int // pages updated since the last covering-all round
	pickPage := func() int {
		if len(recent) > 0 && rapid.IntRange(0, 9).Draw(rt, "loc") < 6 {
			return recent[rapid.IntRange(0, len(recent)-1).Draw(rt, "ri")]
		}
		p := rapid.IntRange(0, len(c.Pages)-1).Draw(rt, "pi")
		recent = append(recent, p)
		for len(recent) > 3 {
			recent = recent[1:]
		}
		return p
	}
	psz := c.pageSize()
	genOff := func(size int) uint64 {
		switch rapid.IntRange(0, 3).Draw(rt, "offk") {
		case 0:
			return rapid.Uint64Range(0, 64).Draw(rt, "off") % (psz - uint64(size) + 1)
		case 1:
			return psz - uint64(size) - rapid.Uint64Range(0, 64).Draw(rt, "off")%(psz-uint64(size)+1)
		default:
			return rapid.Uint64Range(0, psz-uint64(size)).Draw(rt, "off")
		}
	}
	// touch is a request for page p: a read through the translator or a
	// TranslationReq at a drawn level.
	touch := func(p, gap int) opCfg {
		if rapid.IntRange(0, 2).Draw(rt, "tk") == 0 {
			return opCfg{K: "tr", Page: p, Gap: gap, Level: rapid.IntRange(0, 4).Draw(rt, "level")}
		}
		o := opCfg{K: "rd", Page: p, Gap: gap, Size: 8}
		o.Off = genOff(o.Size)
		return o
	}
	for len(c.Ops) < nOps {
		o := opCfg{}
		if rapid.IntRange(0, 9).Draw(rt, "gapk") >= 7 {
			o.Gap = rapid.IntRange(1, 25).Draw(rt, "gap")
		}
		k := rapid.IntRange(0, 99).Draw(rt, "k")
		if k >= 96 && len(spare) > 0 && nTLB > 0 && len(c.Ops)+6 < nOps {
			// remap scenario: warm the caches with page p, (fence), Update p,
			// requests for p in flight, a covering invalidation round a few
			// cycles later, then more requests for p
			p := pickPage()
			for n := rapid.IntRange(0, 2).Draw(rt, "warm"); n > 0; n-- {
				c.Ops = append(c.Ops, touch(p, 0))
			}
			if rapid.Bool().Draw(rt, "wfence") {
				c.Ops = append(c.Ops, opCfg{K: "fence"})
			}
			u := opCfg{K: "upd", Page: p, Frame: spare[0], Gap: rapid.IntRange(0, 12).Draw(rt, "ugap")}
			spare = spare[1:]
			c.Ops = append(c.Ops, u)
			for n := rapid.IntRange(0, 3).Draw(rt, "inflight"); n > 0; n-- {
				c.Ops = append(c.Ops, touch(p, 0))
			}
			iv := opCfg{K: "inv", Gap: rapid.IntRange(0, 8).Draw(rt, "igap")}
			iv.Inv.Mode = rapid.SampledFrom([]string{"drain", "drain", "drain", "quiesce", "pause"}).Draw(rt, "mode")
			if iv.Inv.Mode == "pause" && steer.pause {
				iv.Inv.Mode, steeredPause = "drain", true
			}
			iv.Inv.DrainAT = rapid.IntRange(0, 3).Draw(rt, "drainat") == 0
			iv.Inv.Wait = rapid.Bool().Draw(rt, "wait")
			iv.Inv.Addrs = []uint64{}
			if rapid.Bool().Draw(rt, "byaddr") {
				iv.Inv.Addrs = append(iv.Inv.Addrs, c.Pages[p].VPN<<c.Log2+rapid.Uint64Range(0, psz-1).Draw(rt, "ao"))
			}
			c.Ops = append(c.Ops, iv)
			for n := rapid.IntRange(1, 3).Draw(rt, "post"); n > 0; n-- {
				c.Ops = append(c.Ops, touch(p, rapid.IntRange(0, 30).Draw(rt, "pgap")))
			}
			continue
		}
		switch {
		case k < 40:
			o.K, o.Page = "rd", pickPage()
			o.Size = rapid.SampledFrom([]int{1, 3, 4, 8, 8, 16, 32, 64, 64}).Draw(rt, "size")
			o.Off = genOff(o.Size)
		case k < 55:
			o.K, o.Page = "wr", pickPage()
			o.Size = rapid.IntRange(1, 16).Draw(rt, "size")
			sub := rapid.Uint64Range(0, uint64(16-o.Size)).Draw(rt, "sub")
			o.Off = genOff(16)/16*16 + sub
			if rapid.IntRange(0, 3).Draw(rt, "maskk") == 0 {
				o.Mask = rapid.Uint32Range(1, 1<<uint(o.Size)-1).Draw(rt, "mask")
			}
		case k < 82:
			o.K, o.Page = "tr", pickPage()
			o.Level = rapid.IntRange(0, 4).Draw(rt, "level")
		case k < 89:
			if len(spare) == 0 {
				continue
			}
			o.K, o.Page = "upd", pickPage()
			o.Frame, spare = spare[0], spare[1:]
			if c.Bottom == "gmmu" {
				o.Remote = rapid.IntRange(0, 2).Draw(rt, "remote") == 0
				if o.Remote && steer.gmmuRemote {
					o.Remote, steeredRemote = false, true
				}
			}
			updated = append(updated, o.Page)
		case k < 96:
			o.K = "inv"
			o.Inv.Mode = rapid.SampledFrom([]string{"drain", "drain", "quiesce", "pause"}).Draw(rt, "mode")
			if o.Inv.Mode == "pause" && steer.pause {
				o.Inv.Mode, steeredPause = "drain", true
			}
			o.Inv.DrainAT = rapid.Bool().Draw(rt, "drainat")
			o.Inv.Wait = rapid.Bool().Draw(rt, "wait")
			o.Inv.Addrs = []uint64{}
			target := -1
			if len(updated) > 0 {
				target = updated[rapid.IntRange(0, len(updated)-1).Draw(rt, "ui")]
			}
			switch f := rapid.IntRange(0, 5).Draw(rt, "filter"); {
			case f <= 1 || target < 0: // everything
				updated = nil
			case f == 2: // by process
				o.Inv.PID = c.Pages[target].PID
			default: // by address (any offset inside the page), with or without the process
				for _, u := range updated {
					if u == target || rapid.Bool().Draw(rt, "also") {
						o.Inv.Addrs = append(o.Inv.Addrs, c.Pages[u].VPN<<c.Log2+rapid.Uint64Range(0, psz-1).Draw(rt, "ao"))
					}
				}
				if f == 4 {
					o.Inv.PID = c.Pages[target].PID
				}
				if f == 5 { // a filter that may not cover the update at all
					o.Inv.Addrs = []uint64{c.Pages[rapid.IntRange(0, len(c.Pages)-1).Draw(rt, "np")].VPN << c.Log2}
				}
			}
		default:
			o.K = "fence"
		}
		c.Ops = append(c.Ops, o)
	}
	if steeredRemote {
		excluded++
	}
	if steeredPause {
		excluded++
	}
	return c, excluded
}

const c25Rule = "stack = driver -> address translator -> 0-2 TLBs (sets 1-4, ways 1-3, MSHR 1-4, latency 1-5, 1-4 req/cycle) -> optional mmuCache (1-5 levels, 1-4 blocks) -> MMU (latency 0-8, 1-8 walks) or GMMU -> MMU for remote pages; " +
	"built with the repository's builders/port/connection idioms, all 1 GHz, port buffers 1-8; page 4K/16K/64K; 1-18 pages of 1-4 processes over a shared pool of 1-10 VPNs (low incl. a dense 0..0x3f range, 2^20+k, top of the address space) with distinct frames; " +
	"process IDs 1..n in half of the cases, otherwise drawn from 1-9, 10-39, 100-139, 1-999 and 2^31..2^32-1; with several processes half of the cases make one PID a decimal extension of another (p, 10p+d) and 3 in 4 of those also map 1-2 page pairs whose decimal-PID + hex-address texts concatenate to the same string ((1,0x11000)/(11,0x1000); the pages differ by a multiple of 16 pages, so they share a TLB set for 1, 2 and 4 sets) and start the script with them as the recently used pages; " +
	"ideal memory (latency 0-5) pre-filled so each aligned 8-byte word holds a bijective mix of its own physical address; script of 3-70 ops: reads (1-64 B, any offset inside the page), writes (1-16 B inside a 16-byte chunk written at most once, optional dirty mask), " +
	"TranslationReqs injected at any level's Top, page-table Updates to never-used frames, invalidation rounds over all caches (Drain top-down with traffic in flight, or Pause of an idle (quiesced) stack, or Pause of a busy stack; then Invalidate(all | pid | addresses incl. non-covering filters), then Enable), remap scenarios (warm, Update, requests in flight, covering round 0-8 cycles later, more requests), fences; gaps 0-25 cycles. " +
	"Oracle per request: the observed page/physical location must be a page-table version that existed by the answer and was either still current after the request was received or (path with a TLB) not yet covered by an acknowledged invalidation round started after the update; " +
	"every level answers each request exactly once, Dst=requester, RspTo=request ID (port hooks); final memory = pattern + each acknowledged write at one allowed location; the event queue empties with nothing outstanding. " +
	"Non-trivial: TLB hit, miss, MSHR hit and eviction of a valid entry all occurred in the run (read from TLB State at fill time and port counts)"

func c25Steering(s *kit.Session) c25Steer {
	var st c25Steer
	_, st.lat1 = s.IsKnown(sigTLBLat1)
	_, st.mc = s.IsKnown(sigMCRspTo)
	_, st.gmmuRemote = s.IsKnown(sigGMMURemote)
	_, st.pause = s.IsKnown(sigPauseInval)
	return st
}

func TestC25Stack(t *testing.T) {
	s := kit.Begin(t, "C25", "stack", c25Rule)
	defer s.End()
	s.Assume("direct TranslationReqs carry page-aligned VAddr (what the address translator sends; the TLB keys its MSHR by the raw VAddr) and only mapped pages are requested (the MMU panics on an unmapped page without auto-allocation)")
	s.Assume("requests in flight between a page-table Update and the last Invalidate ack of a covering round may observe either mapping; a round covers an Update only if it started at or after it and its filter matches the page; rounds go top-down, one command at a time, each acknowledged (Success) before the next")
	s.Assume("while a finding is listed the generator avoids its input class by construction: TLB latency 1 -> 2 (" + sigTLBLat1 + "), no mmuCache (" + sigMCRspTo + "), no remote pages under a GMMU (" + sigGMMURemote + "), busy-Pause rounds become Drain rounds (" + sigPauseInval + "); each steered case is counted in excluded_known")
	s.Assume("a run that is still active after 2M simulated cycles is reported as harness failure (inconclusive), not as a violation")

	run := func(f kit.Failer, c c25Case) {
		r := execC25(c)
		if strings.HasPrefix(r.Sig, "harness:") {
			f.Fatalf("harness problem [%s]: %s", r.Sig, r.Msg)
		}
		if r.Sig != "" {
			s.Fail(f, c, r.Sig, "%s", r.Msg)
			return
		}
		s.Note(c, r.Nontrivial, r.Classes...)
	}

	var c c25Case
	if ok, err := kit.LoadReplay("C25", "stack", &c); ok {
		if err != nil {
			t.Fatal(err)
		}
		run(t, c)
		return
	} else if kit.ReplayMode() {
		t.Skip()
	}

	steer := c25Steering(s)
	kit.SetChecks(3000, 20000)
	rapid.Check(t, func(rt *rapid.T) {
		c, ex := genC25(rt, steer)
		if ex > 0 {
			s.Excluded(1)
		}
		run(rt, c)
	})
}

// ---------------------------------------------------------------- crafted family

const classTextKeyLookup = "tlb-request-while-other-process'-entry-with-equal-unpadded-pid+vaddr-text-resident"

// TestC25CraftedPIDWidths enumerates a small family the random generator only
// samples: two processes p and 10p+d and two pages whose (decimal PID, hex
// address) texts concatenate to the same string, translated one after the other
// through one or two TLBs in which both land in the same set. Same oracle as
// TestC25Stack.
func TestC25CraftedPIDWidths(t *testing.T) {
	s := kit.Begin(t, "C25", "crafted-pid-widths",
		"deterministic: AT -> 1-2 TLBs (1/2/4 sets, 1-2 ways) -> MMU; page 4K/16K/64K; processes p in {1,2,12} and 10p+d, d in {1,3,9}; pages v in {1,5} of process 10p+d and the page of process p whose hex address is the digit d followed by the hex address of v; both pages translated (TranslationReq at the top TLB, then reads) in both orders with fences between. Non-trivial: a request reached a TLB while the other process's entry with the same unpadded PID+address text was resident in its set")
	defer s.End()
	if kit.ReplayMode() {
		t.Skip()
	}
	s.Exhaustive()
	for _, log2 := range []uint64{12, 14, 16} {
		for _, p := range []uint32{1, 2, 12} {
			for _, d := range []uint32{1, 3, 9} {
				for _, v := range []uint64{1, 5} {
					for _, sets := range []int{1, 2, 4} {
						for ways := 1; ways <= 2; ways++ {
							for order := 0; order < 2; order++ {
								hexLen := uint64(0)
								for a := v << log2; a > 0; a >>= 4 {
									hexLen++
								}
								w := v + uint64(d)<<(4*hexLen-log2)
								c := c25Case{Log2: log2, Bottom: "mmu", MMULat: 1, MMUMax: 4, ATRPC: 1, MemLat: 1, MemWidth: 1, Buf: 4,
									TLBs:  []tlbCfg{{Sets: sets, Ways: ways, MSHR: 2, Lat: 2, RPC: 1}},
									Pages: []pageCfg{{PID: p, VPN: w, Frame: 3}, {PID: p*10 + d, VPN: v, Frame: 5}}}
								if (sets+ways)%2 == 1 {
									c.TLBs = append(c.TLBs, tlbCfg{Sets: 1, Ways: 2, MSHR: 1, Lat: 3, RPC: 2})
								}
								a, b := order, 1-order
								c.Ops = []opCfg{{K: "tr", Page: a}, {K: "fence"}, {K: "tr", Page: b}, {K: "fence"},
									{K: "rd", Page: a, Off: 8, Size: 8}, {K: "fence"}, {K: "rd", Page: b, Off: 16, Size: 8}, {K: "rd", Page: a, Off: 24, Size: 4}}
								r := execC25(c)
								if strings.HasPrefix(r.Sig, "harness:") {
									t.Fatalf("harness problem [%s]: %s", r.Sig, r.Msg)
								}
								if r.Sig != "" {
									s.Fail(t, c, r.Sig, "%s", r.Msg)
									return
								}
								reached := false
								for _, cl := range r.Classes {
									reached = reached || cl == classTextKeyLookup
								}
								s.Note(c, reached, r.Classes...)
							}
						}
					}
				}
			}
		}
	}
}

// ---------------------------------------------------------------- reproductions of listed findings

func onePageCase() c25Case {
	return c25Case{Log2: 12, Bottom: "mmu", MMULat: 1, MMUMax: 4, ATRPC: 1, MemLat: 1, MemWidth: 1, Buf: 4,
		Pages: []pageCfg{{PID: 1, VPN: 0, Frame: 1}}}
}

func reproduce(t *testing.T, sub, rule, sig string, cases []c25Case, what string) {
	s := kit.Begin(t, "C25", sub, rule)
	defer s.End()
	if kit.ReplayMode() {
		t.Skip()
	}
	s.Exhaustive()
	var first *c25Case
	firstMsg := ""
	for i := range cases {
		r := execC25(cases[i])
		switch r.Sig {
		case "":
			s.Note(cases[i], true, "holds")
		case sig:
			s.Note(cases[i], true, "reproduces")
			if first == nil {
				first, firstMsg = &cases[i], r.Msg
			}
		default:
			s.Fail(t, cases[i], r.Sig, "%s", r.Msg)
			return
		}
	}
	if first != nil {
		s.KnownStillFails(t, *first, sig, what+": "+firstLine(firstMsg))
	}
}

// TestC25Known_TLBLatency1: AT -> TLB(latency 1) -> MMU, one read.
func TestC25Known_TLBLatency1(t *testing.T) {
	var cases []c25Case
	for _, k := range []string{"rd", "tr"} {
		for rpc := 1; rpc <= 2; rpc++ {
			c := onePageCase()
			c.TLBs = []tlbCfg{{Sets: 1, Ways: 1, MSHR: 1, Lat: 1, RPC: rpc}}
			c.Ops = []opCfg{{K: k, Page: 0, Size: 8}}
			cases = append(cases, c)
		}
	}
	reproduce(t, "known-tlb-latency-1",
		"deterministic: AT -> TLB(1 set, 1 way, latency 1, 1-2 req/cycle) -> MMU, one mapped page, a single read through the translator / a single TranslationReq at the TLB's Top",
		sigTLBLat1, cases, "a TLB with Latency=1 never answers (its one-stage pipeline strands the request)")
}

// TestC25Known_MMUCacheRspTo: the mmuCache below the AT and below a TLB.
func TestC25Known_MMUCacheRspTo(t *testing.T) {
	var cases []c25Case
	for n := 0; n <= 1; n++ {
		c := onePageCase()
		for i := 0; i < n; i++ {
			c.TLBs = append(c.TLBs, tlbCfg{Sets: 1, Ways: 1, MSHR: 1, Lat: 2, RPC: 1})
		}
		c.HasMC, c.MC = true, mcCfg{Levels: 1, Blocks: 1, LatPerLevel: 0, RPC: 1}
		c.Ops = []opCfg{{K: "rd", Page: 0, Size: 8}}
		cases = append(cases, c)
	}
	reproduce(t, "known-mmucache-rspto",
		"deterministic: AT -> [TLB] -> mmuCache(1 level, 1 block) -> MMU, one mapped page, a single read through the translator",
		sigMCRspTo, cases, "mmuCache.handleRsp answers the upper level with RspTo = the ID of its own forwarded request instead of the ID of the request it received")
}

// TestC25Known_GMMURemoteRspTo: a remote page below a GMMU.
func TestC25Known_GMMURemoteRspTo(t *testing.T) {
	var cases []c25Case
	for _, k := range []string{"tr", "rd"} {
		c := onePageCase()
		c.Bottom, c.GMMULat, c.GMMUMax = "gmmu", 1, 4
		c.Pages[0].Remote = true
		c.Ops = []opCfg{{K: k, Page: 0, Size: 8}}
		cases = append(cases, c)
	}
	reproduce(t, "known-gmmu-remote-rspto",
		"deterministic: [AT ->] GMMU -> MMU, one mapped page owned by another device, a single TranslationReq at the GMMU's Top / a single read through the translator",
		sigGMMURemote, cases, "gmmu respondMW answers a remote walk with RspTo = the ID of the MMU's response instead of the ID of the request it received")
}

// pauseInvalCases: Update of page 0 while a miss for it is in flight, then
// Pause -> Invalidate(all) -> Enable on every TLB (no Drain), then one more
// request for the page well after the round.
func pauseInvalCases() []c25Case {
	var cases []c25Case
	// (a) one TLB over the MMU: the MMU read the table just before the Update
	for g := 0; g <= 20; g++ {
		c := onePageCase()
		c.MMULat = 4
		c.TLBs = []tlbCfg{{Sets: 1, Ways: 1, MSHR: 1, Lat: 2, RPC: 1}}
		c.Ops = []opCfg{
			{K: "tr", Page: 0, Level: 0},
			{K: "upd", Page: 0, Frame: 2, Gap: g},
			{K: "inv", Inv: invCfg{Mode: "pause", Addrs: []uint64{}, Wait: true}},
			{K: "tr", Page: 0, Level: 0, Gap: 40},
		}
		cases = append(cases, c)
	}
	// (b) two TLBs: the lower one is warm and still answers the old mapping
	// until it is invalidated itself
	for g := 0; g <= 20; g++ {
		c := onePageCase()
		c.TLBs = []tlbCfg{{Sets: 1, Ways: 1, MSHR: 1, Lat: 2, RPC: 1}, {Sets: 1, Ways: 1, MSHR: 1, Lat: 3, RPC: 1}}
		c.Ops = []opCfg{
			{K: "tr", Page: 0, Level: 1}, // warms TLB1 only
			{K: "fence"},
			{K: "upd", Page: 0, Frame: 2},
			{K: "tr", Page: 0, Level: 0},
			{K: "inv", Gap: g, Inv: invCfg{Mode: "pause", Addrs: []uint64{}, Wait: true}},
			{K: "tr", Page: 0, Level: 0, Gap: 40},
		}
		cases = append(cases, c)
	}
	return cases
}

// TestC25Known_PauseInvalidateInflight: Pause (instead of Drain) before the
// Invalidate, with a miss in flight.
func TestC25Known_PauseInvalidateInflight(t *testing.T) {
	reproduce(t, "known-pause-invalidate-inflight",
		"deterministic: AT -> TLB -> MMU(latency 4) with the Update 0-8 cycles after a TranslationReq, and AT -> TLB0 -> TLB1(warm) -> MMU with the round 0-8 cycles after a TranslationReq; round = Pause, Invalidate(all), Enable on every TLB (no Drain); one more TranslationReq 40 cycles after the round",
		sigPauseInval, pauseInvalCases(),
		"Pause -> Invalidate -> Enable (all acknowledged) while a TLB miss is in flight: the late fill installs the mapping fetched before the page-table change and later requests hit it")
}
