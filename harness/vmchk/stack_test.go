// Package vmchk decides C25 (translation stacks translate correctly) and C27
// (MMU auto-allocation never aliases) by generated-input search.
//
// stack_test.go: the case grammar of C25, the assembly of a translation stack
// with the repository's own builders (same idioms as
// mem/acceptancetests/virtualmemcheckpoint), and the port observers.
package vmchk

import (
	"fmt"
	"sort"
	"strconv"
	"strings"

	"github.com/sarchlab/akita/v5/hooking"
	"github.com/sarchlab/akita/v5/mem"
	"github.com/sarchlab/akita/v5/mem/idealmemcontroller"
	"github.com/sarchlab/akita/v5/mem/memprotocol"
	"github.com/sarchlab/akita/v5/mem/vm"
	"github.com/sarchlab/akita/v5/mem/vm/addresstranslator"
	"github.com/sarchlab/akita/v5/mem/vm/gmmu"
	"github.com/sarchlab/akita/v5/mem/vm/mmu"
	"github.com/sarchlab/akita/v5/mem/vm/mmuCache"
	"github.com/sarchlab/akita/v5/mem/vm/tlb"
	"github.com/sarchlab/akita/v5/mem/vm/vmprotocol"
	"github.com/sarchlab/akita/v5/messaging"
	"github.com/sarchlab/akita/v5/modeling"
	"github.com/sarchlab/akita/v5/noc/directconnection"
	"github.com/sarchlab/akita/v5/timing"
)

const (
	tInf        = ^timing.VTimeInPicoSec(0)
	localDevice = uint64(1) // DeviceID of the GMMU / address translator
	remoteDev   = uint64(2) // DeviceID of pages the GMMU forwards to the MMU
	memCapacity = 4 * mem.GB
)

// ---------------------------------------------------------------- case (plain data)

type tlbCfg struct {
	Sets int `json:"sets"`
	Ways int `json:"ways"`
	MSHR int `json:"mshr"`
	Lat  int `json:"lat"`
	RPC  int `json:"rpc"`
}

type mcCfg struct {
	Levels      int `json:"levels"`
	Blocks      int `json:"blocks"`
	LatPerLevel int `json:"lat_per_level"`
	RPC         int `json:"rpc"`
}

type pageCfg struct {
	PID    uint32 `json:"pid"`
	VPN    uint64 `json:"vpn"`
	Frame  uint64 `json:"frame"`
	Remote bool   `json:"remote,omitempty"`
}

// invCfg is one invalidation round over every cache (TLBs, MMU cache) of the
// stack. Mode "drain": [Drain AT] → Drain each cache top-down → Invalidate each →
// Enable each bottom-up → [Enable AT], each step waiting for its ack, traffic
// may be in flight. Mode "quiesce" (the idiom of acceptancetests/pagemigration):
// the driver stops issuing and waits until nothing is outstanding, then Pause
// each cache → Invalidate each → Enable each. Mode "pause": the same Pause →
// Invalidate → Enable sequence but on a busy stack (what CONTROL_PROTOCOL.md
// literally allows: "Component must be paused or drained first").
type invCfg struct {
	Mode    string   `json:"mode"`
	DrainAT bool     `json:"drain_at,omitempty"`
	PID     uint32   `json:"pid"`   // Invalidate filter, 0 = all
	Addrs   []uint64 `json:"addrs"` // Invalidate filter (virtual addresses, any offset), empty = all
	Wait    bool     `json:"wait,omitempty"`
}

// opCfg is one step of the driver script. K:
//
//	rd    read Size bytes at page Page, offset Off, through the address translator
//	wr    write Size (<=16) bytes inside the 16-byte chunk containing Off (Mask: bit j set = byte j dirty; 0 = no mask)
//	tr    TranslationReq for page Page injected at translation level Level
//	upd   page table Update of page Page to frame Frame (and Remote)
//	inv   start an invalidation round
//	fence wait until nothing of the driver is outstanding and no round is running
type opCfg struct {
	K      string `json:"k"`
	Gap    int    `json:"gap,omitempty"`
	Page   int    `json:"page,omitempty"`
	Off    uint64 `json:"off,omitempty"`
	Size   int    `json:"size,omitempty"`
	Mask   uint32 `json:"mask,omitempty"`
	Level  int    `json:"level,omitempty"`
	Frame  uint64 `json:"frame,omitempty"`
	Remote bool   `json:"remote,omitempty"`
	Inv    invCfg `json:"inv,omitempty"`
}

type c25Case struct {
	Log2     uint64    `json:"log2"`
	TLBs     []tlbCfg  `json:"tlbs"`
	HasMC    bool      `json:"has_mc"`
	MC       mcCfg     `json:"mc"`
	Bottom   string    `json:"bottom"` // "mmu" | "gmmu" (gmmu forwards remote pages to an mmu)
	MMULat   int       `json:"mmu_lat"`
	MMUMax   int       `json:"mmu_max"`
	GMMULat  int       `json:"gmmu_lat"`
	GMMUMax  int       `json:"gmmu_max"`
	ATRPC    int       `json:"at_rpc"`
	MemLat   int       `json:"mem_lat"`
	MemWidth int       `json:"mem_width"`
	Buf      int       `json:"buf"`
	Pages    []pageCfg `json:"pages"`
	Ops      []opCfg   `json:"ops"`
	// C03 only (C25 rejects them): MMU auto-allocation, and pages that ops may
	// name (index len(Pages)+k) although they are not in the table at start.
	AutoAlloc bool      `json:"auto_alloc,omitempty"`
	// Stall > 0: the driver leaves its incoming messages unread during every
	// other window of Stall cycles (backpressure into the stack). C03 only.
	Stall int `json:"stall,omitempty"`
	Unmapped  []pageCfg `json:"unmapped,omitempty"`
}

func (c *c25Case) pageSize() uint64 { return 1 << c.Log2 }

func (c *c25Case) validate() error { return c.validateWith(false) }

// validateWith(loose=true) is the C03 domain: frames may be shared between
// pages, and with AutoAlloc (MMU bottom only) ops may touch unmapped pages.
func (c *c25Case) validateWith(loose bool) error {
	if !loose && (c.AutoAlloc || len(c.Unmapped) > 0 || c.Stall != 0) {
		return fmt.Errorf("auto-allocation is outside the C25 domain")
	}
	if len(c.Unmapped) > 0 && (!c.AutoAlloc || c.Bottom != "mmu") {
		return fmt.Errorf("unmapped pages need an auto-allocating MMU at the bottom")
	}
	if c.Stall < 0 {
		return fmt.Errorf("stall")
	}
	nAddr := len(c.Pages) + len(c.Unmapped)
	if c.Log2 != 12 && c.Log2 != 14 && c.Log2 != 16 {
		return fmt.Errorf("log2 %d", c.Log2)
	}
	if len(c.TLBs) > 2 || len(c.Pages) == 0 {
		return fmt.Errorf("shape")
	}
	if c.Bottom != "mmu" && c.Bottom != "gmmu" {
		return fmt.Errorf("bottom %q", c.Bottom)
	}
	for _, t := range c.TLBs {
		if t.Sets < 1 || t.Ways < 1 || t.MSHR < 1 || t.Lat < 1 || t.RPC < 1 {
			return fmt.Errorf("tlb %+v", t)
		}
	}
	if c.HasMC && (c.MC.Levels < 1 || c.MC.Blocks < 1 || c.MC.RPC < 1 || c.MC.LatPerLevel < 0) {
		return fmt.Errorf("mc %+v", c.MC)
	}
	if c.MMUMax < 1 || c.ATRPC < 1 || c.MemWidth < 1 || c.Buf < 1 || c.MMULat < 0 || c.MemLat < 0 {
		return fmt.Errorf("params")
	}
	if c.Bottom == "gmmu" && (c.GMMUMax < 1 || c.GMMULat < 0) {
		return fmt.Errorf("gmmu params")
	}
	frames := map[uint64]bool{}
	keys := map[[2]uint64]bool{}
	for _, p := range c.Pages {
		k := [2]uint64{uint64(p.PID), p.VPN}
		if p.PID == 0 || keys[k] || (frames[p.Frame] && !loose) || p.Frame == 0 ||
			p.Frame<<c.Log2 >= memCapacity/2 || p.VPN >= 1<<(63-c.Log2) {
			return fmt.Errorf("page %+v", p)
		}
		keys[k], frames[p.Frame] = true, true
	}
	for _, p := range c.Unmapped {
		k := [2]uint64{uint64(p.PID), p.VPN}
		if p.PID == 0 || keys[k] || p.VPN >= 1<<(63-c.Log2) {
			return fmt.Errorf("unmapped %+v", p)
		}
		keys[k] = true
	}
	for i, o := range c.Ops {
		switch o.K {
		case "rd", "wr":
			if o.Page < 0 || o.Page >= nAddr || o.Size < 1 || o.Size > 64 || o.Off+uint64(o.Size) > c.pageSize() {
				return fmt.Errorf("op %d %+v", i, o)
			}
			if o.K == "wr" && (o.Off%16+uint64(o.Size) > 16) {
				return fmt.Errorf("op %d write leaves its chunk", i)
			}
		case "tr":
			if o.Page < 0 || o.Page >= nAddr || o.Level < 0 {
				return fmt.Errorf("op %d %+v", i, o)
			}
		case "upd":
			if o.Page < 0 || o.Page >= len(c.Pages) || (frames[o.Frame] && !loose) || o.Frame == 0 || o.Frame<<c.Log2 >= memCapacity/2 {
				return fmt.Errorf("op %d %+v (frames must never repeat)", i, o)
			}
			frames[o.Frame] = true
		case "inv":
			if o.Inv.Mode != "drain" && o.Inv.Mode != "quiesce" && o.Inv.Mode != "pause" {
				return fmt.Errorf("op %d inv mode", i)
			}
		case "fence":
		default:
			return fmt.Errorf("op %d kind %q", i, o.K)
		}
		if o.Gap < 0 {
			return fmt.Errorf("op %d gap", i)
		}
	}
	return nil
}

// ---------------------------------------------------------------- memory pattern

// patWord is the content of the aligned 8-byte word with index w (= physical
// address / 8). It is a bijection of the word's physical address (splitmix64
// finaliser), so a word still identifies its own location, and every byte lane
// varies (a plain address would leave the upper lanes constant).
func patWord(w uint64) uint64 {
	z := w*0x9E3779B97F4A7C15 + 0x6A09E667F3BCC909
	z = (z ^ (z >> 30)) * 0xBF58476D1CE4E5B9
	z = (z ^ (z >> 27)) * 0x94D049BB133111EB
	return z ^ (z >> 31)
}

func patByte(p uint64) byte { return byte(patWord(p>>3) >> (8 * (p & 7))) }

func fillFrame(s *mem.Storage, base, size uint64) {
	buf := make([]byte, size)
	for i := uint64(0); i < size; i += 8 {
		w := patWord((base + i) >> 3)
		for j := uint64(0); j < 8; j++ {
			buf[i+j] = byte(w >> (8 * j))
		}
	}
	if err := s.Write(base, buf); err != nil {
		panic(err)
	}
}

func wrByte(op, j int) byte { return byte(patWord(uint64(op)*64+uint64(j)+0xABCDEF) >> 17) }

// ---------------------------------------------------------------- observers

type hookFn func(ctx hooking.HookCtx)

type fnHook struct{ f hookFn }

func (h *fnHook) Func(ctx hooking.HookCtx) { h.f(ctx) }

type violation struct {
	t   timing.VTimeInPicoSec
	sig string
	msg string
}

type pendTr struct {
	src   messaging.RemotePort
	pid   vm.PID
	vaddr uint64
	tRecv timing.VTimeInPicoSec
}

// trRecord is one answered translation observed at a level's Top port.
type trRecord struct {
	level       int
	req         pendTr
	page        vm.Page
	tRsp        timing.VTimeInPicoSec
	reqID, rspT uint64
}

type level struct {
	kind    string // tlb | mmucache | mmu | gmmu
	name    string
	tlbIdx  int
	top     messaging.Port
	ctrl    messaging.Port
	inject  messaging.Port // driver port plugged next to Top; nil when the level answers a fixed upper port
	isCache bool
	pending map[uint64]pendTr
}

type tlbStats struct {
	comp     *tlb.Comp
	topRsps  int
	misses   int
	mshrHits int
	evicts   int
	fills    int
	dropped  int
	invalid  int // entries found invalidated by an Invalidate
	shadow   [][]vm.Page
	// textual-key reach (see textKey): fills that left two valid entries of
	// different processes with equal textKey in one set, and requests received
	// while such an entry of another process was resident in the request's set
	textKeyPairs   int
	textKeyLookups int
}

// textKey is the unpadded textual concatenation of a process ID (decimal) and a
// virtual address (hex). Distinct (pid, vaddr) pairs can share it, e.g.
// (1, 0x11000) and (11, 0x1000); it is only used to label how often the
// generator makes such pairs meet in one TLB set.
func textKey(pid vm.PID, vaddr uint64) string {
	return strconv.FormatUint(uint64(pid), 10) + strconv.FormatUint(vaddr, 16)
}

func (ts *tlbStats) refresh() {
	for si := range ts.comp.State.Sets {
		for wi := range ts.comp.State.Sets[si].Blocks {
			cur := ts.comp.State.Sets[si].Blocks[wi].Page
			if ts.shadow[si][wi].Valid && !cur.Valid {
				ts.invalid++
			}
			ts.shadow[si][wi] = cur
		}
	}
}

func (ts *tlbStats) hits() int { return ts.topRsps - ts.misses - ts.mshrHits }

type memAccess struct {
	t     timing.VTimeInPicoSec
	addr  uint64
	size  uint64
	write bool
}

type stack struct {
	c      *c25Case
	eng    *timing.SerialEngine
	reg    modeling.Registrar
	pt     vm.PageTable
	store  *mem.Storage
	at     *addresstranslator.Comp
	tlbs   []*tlb.Comp
	mc     *mmuCache.Comp
	mmu    *mmu.Comp
	gmmu   *gmmu.Comp
	memc   *idealmemcontroller.Comp
	levels []*level
	caches []*level // levels with a cache, top-down
	stats  []*tlbStats
	drv    *driver

	allPorts []messaging.Port
	conns    []*directconnection.Comp
	viols    []violation
	trs      []trRecord
	atPend   map[uint64]messaging.Msg
	memLog   []memAccess
	pageIdx  map[[2]uint64]int
}

func (st *stack) now() timing.VTimeInPicoSec { return st.eng.CurrentTime() }

func (st *stack) viol(sig, format string, a ...any) {
	st.viols = append(st.viols, violation{t: st.now(), sig: sig, msg: fmt.Sprintf(format, a...)})
}

func (st *stack) port(comp messaging.Component, name string, buf int) messaging.Port {
	p := modeling.MakePortBuilder().
		WithRegistrar(st.reg).
		WithComponent(comp).
		WithSpec(modeling.PortSpec{BufSize: buf}).
		Build(name)
	comp.AssignPort(name, p)
	st.allPorts = append(st.allPorts, p)
	return p
}

func (st *stack) connect(name string, ports ...messaging.Port) {
	conn := directconnection.MakeBuilder().WithRegistrar(st.reg).Build(name)
	st.conns = append(st.conns, conn)
	for _, p := range ports {
		if p != nil {
			conn.PlugIn(p)
		}
	}
}

func (c *c25Case) initialPage(p pageCfg) vm.Page {
	dev := localDevice
	if p.Remote {
		dev = remoteDev
	}
	return vm.Page{
		PID: vm.PID(p.PID), VAddr: p.VPN << c.Log2, PAddr: p.Frame << c.Log2,
		PageSize: c.pageSize(), Valid: true, DeviceID: dev, Unified: true,
	}
}

// buildStack assembles: driver → AT → TLB* → [mmuCache] → MMU | (GMMU → MMU),
// AT.Bottom → ideal memory controller. The driver additionally owns one port per
// injectable translation level (plugged into the connection in front of that
// level's Top) and one control port connected to every Control port.
func buildStack(c *c25Case) *stack {
	timing.ResetIDGenerator()
	st := &stack{c: c, atPend: map[uint64]messaging.Msg{}, pageIdx: map[[2]uint64]int{}}
	st.eng = timing.NewSerialEngine()
	st.reg = modeling.NewStandaloneRegistrar(st.eng)
	buf := c.Buf

	st.pt = vm.MakePageTableBuilder().WithLog2PageSize(c.Log2).Build("PageTable")
	st.store = mem.NewStorage(memCapacity)
	for i, p := range c.Pages {
		st.pt.Insert(c.initialPage(p))
		fillFrame(st.store, p.Frame<<c.Log2, c.pageSize())
		st.pageIdx[[2]uint64{uint64(p.PID), p.VPN}] = i
	}
	for _, o := range c.Ops {
		if o.K == "upd" {
			fillFrame(st.store, o.Frame<<c.Log2, c.pageSize())
		}
	}

	// memory below the translator
	ms := idealmemcontroller.DefaultSpec()
	ms.Capacity = memCapacity
	ms.Latency = c.MemLat
	ms.Width = c.MemWidth
	st.memc = idealmemcontroller.MakeBuilder().WithRegistrar(st.reg).WithSpec(ms).
		WithResources(idealmemcontroller.Resources{Storage: st.store}).Build("MemCtrl")
	st.port(st.memc, "Top", buf)
	st.port(st.memc, "Control", 4)

	// bottom of the translation path
	ms2 := mmu.DefaultSpec()
	ms2.Log2PageSize = c.Log2
	ms2.Latency = c.MMULat
	ms2.MaxRequestsInFlight = c.MMUMax
	ms2.AutoPageAllocation = c.AutoAlloc
	st.mmu = mmu.MakeBuilder().WithRegistrar(st.reg).WithSpec(ms2).
		WithResources(mmu.Resources{PageTable: st.pt}).Build("MMU")
	st.port(st.mmu, "Top", buf)
	st.port(st.mmu, "Control", 4)
	mmuLevel := &level{kind: "mmu", name: "MMU", top: st.mmu.GetPortByName("Top"), ctrl: st.mmu.GetPortByName("Control")}

	var bottomLevels []*level
	if c.Bottom == "gmmu" {
		gs := gmmu.DefaultSpec()
		gs.DeviceID = localDevice
		gs.Log2PageSize = c.Log2
		gs.Latency = c.GMMULat
		gs.MaxRequestsInFlight = c.GMMUMax
		gs.LowModule = st.mmu.GetPortByName("Top").AsRemote()
		st.gmmu = gmmu.MakeBuilder().WithRegistrar(st.reg).WithSpec(gs).
			WithResources(gmmu.Resources{PageTable: st.pt}).Build("GMMU")
		st.port(st.gmmu, "Top", buf)
		st.port(st.gmmu, "Bottom", buf)
		st.port(st.gmmu, "Control", 4)
		bottomLevels = []*level{
			{kind: "gmmu", name: "GMMU", top: st.gmmu.GetPortByName("Top"), ctrl: st.gmmu.GetPortByName("Control")},
			mmuLevel,
		}
	} else {
		bottomLevels = []*level{mmuLevel}
	}

	// the level right below the TLBs: mmuCache (if any) or the bottom
	var belowTLBs messaging.Port = bottomLevels[0].top
	var mcLevel *level
	if c.HasMC {
		// built after its upper neighbour's port is known (it answers a fixed
		// UpModulePort), so only reserve the slot here
		mcLevel = &level{kind: "mmucache", name: "MMUCache", isCache: true}
	}

	// TLBs bottom-up (each needs the remote port of the level below)
	st.tlbs = make([]*tlb.Comp, len(c.TLBs))
	tlbLevels := make([]*level, len(c.TLBs))
	mcTopName := messaging.RemotePort("MMUCache.Top")
	for i := len(c.TLBs) - 1; i >= 0; i-- {
		var below messaging.RemotePort
		switch {
		case i < len(c.TLBs)-1:
			below = st.tlbs[i+1].GetPortByName("Top").AsRemote()
		case c.HasMC:
			below = mcTopName
		default:
			below = belowTLBs.AsRemote()
		}
		ts := tlb.DefaultSpec()
		ts.NumSets = c.TLBs[i].Sets
		ts.NumWays = c.TLBs[i].Ways
		ts.MSHRSize = c.TLBs[i].MSHR
		ts.Latency = c.TLBs[i].Lat
		ts.NumReqPerCycle = c.TLBs[i].RPC
		ts.Log2PageSize = c.Log2
		name := fmt.Sprintf("TLB%d", i)
		t := tlb.MakeBuilder().WithRegistrar(st.reg).WithSpec(ts).
			WithResources(tlb.Resources{TranslationProviderMapper: &mem.SinglePortMapper{Port: below}}).
			Build(name)
		st.port(t, "Top", buf)
		st.port(t, "Bottom", buf)
		st.port(t, "Control", 4)
		st.tlbs[i] = t
		tlbLevels[i] = &level{kind: "tlb", name: name, tlbIdx: i, isCache: true,
			top: t.GetPortByName("Top"), ctrl: t.GetPortByName("Control")}
	}

	// address translator
	var firstTop messaging.RemotePort
	switch {
	case len(c.TLBs) > 0:
		firstTop = st.tlbs[0].GetPortByName("Top").AsRemote()
	case c.HasMC:
		firstTop = mcTopName
	default:
		firstTop = belowTLBs.AsRemote()
	}
	as := addresstranslator.DefaultSpec()
	as.Log2PageSize = c.Log2
	as.NumReqPerCycle = c.ATRPC
	as.DeviceID = localDevice
	st.at = addresstranslator.MakeBuilder().WithRegistrar(st.reg).WithSpec(as).
		WithResources(addresstranslator.Resources{
			MemProviderMapper:         &mem.SinglePortMapper{Port: st.memc.GetPortByName("Top").AsRemote()},
			TranslationProviderMapper: &mem.SinglePortMapper{Port: firstTop},
		}).Build("AT")
	st.port(st.at, "Top", buf)
	st.port(st.at, "Bottom", buf)
	st.port(st.at, "Translation", buf)
	st.port(st.at, "Control", 4)

	if c.HasMC {
		var up messaging.Port
		if len(c.TLBs) > 0 {
			up = st.tlbs[len(c.TLBs)-1].GetPortByName("Bottom")
		} else {
			up = st.at.GetPortByName("Translation")
		}
		cs := mmuCache.DefaultSpec()
		cs.NumLevels = c.MC.Levels
		cs.NumBlocks = c.MC.Blocks
		cs.LatencyPerLevel = uint64(c.MC.LatPerLevel)
		cs.NumReqPerCycle = c.MC.RPC
		cs.Log2PageSize = c.Log2
		cs.PageSize = c.pageSize()
		st.mc = mmuCache.MakeBuilder().WithRegistrar(st.reg).WithSpec(cs).
			WithResources(mmuCache.Resources{
				LowModulePort: belowTLBs.AsRemote(),
				UpModulePort:  up.AsRemote(),
			}).Build("MMUCache")
		st.port(st.mc, "Top", buf)
		st.port(st.mc, "Bottom", buf)
		st.port(st.mc, "Control", 4)
		mcLevel.top = st.mc.GetPortByName("Top")
		mcLevel.ctrl = st.mc.GetPortByName("Control")
	}

	st.levels = append(st.levels, tlbLevels...)
	if mcLevel != nil {
		st.levels = append(st.levels, mcLevel)
	}
	st.levels = append(st.levels, bottomLevels...)
	for _, l := range st.levels {
		l.pending = map[uint64]pendTr{}
		if l.isCache {
			st.caches = append(st.caches, l)
		}
	}

	// driver
	st.drv = newDriver(st)
	for i, l := range st.levels {
		if l.kind == "mmucache" {
			continue // answers its fixed UpModulePort only
		}
		l.inject = st.drv.addPort(fmt.Sprintf("Tr%d", i), buf)
	}

	// connections (one per hop, as in the acceptance tests; the driver's
	// injection port is a further party on the hop's connection)
	st.connect("ConnMem", st.drv.memPort, st.at.GetPortByName("Top"))
	st.connect("ConnATBottom", st.at.GetPortByName("Bottom"), st.memc.GetPortByName("Top"))
	upper := st.at.GetPortByName("Translation")
	for i, l := range st.levels {
		st.connect(fmt.Sprintf("ConnTr%d", i), upper, l.top, l.inject)
		switch l.kind {
		case "tlb":
			upper = st.tlbs[l.tlbIdx].GetPortByName("Bottom")
		case "mmucache":
			upper = st.mc.GetPortByName("Bottom")
		case "gmmu":
			upper = st.gmmu.GetPortByName("Bottom")
		}
	}
	ctrlPorts := []messaging.Port{st.drv.ctrlPort, st.at.GetPortByName("Control"),
		st.memc.GetPortByName("Control")}
	for _, l := range st.levels {
		ctrlPorts = append(ctrlPorts, l.ctrl)
	}
	st.connect("ConnCtrl", ctrlPorts...)

	st.attachObservers()
	return st
}

func (st *stack) attachObservers() {
	for i, l := range st.levels {
		li, lv := i, l
		lv.top.AcceptHook(&fnHook{func(ctx hooking.HookCtx) { st.onLevelTop(li, lv, ctx) }})
	}
	st.at.GetPortByName("Top").AcceptHook(&fnHook{st.onATTop})
	st.memc.GetPortByName("Top").AcceptHook(&fnHook{func(ctx hooking.HookCtx) {
		if ctx.Pos != messaging.HookPosPortMsgRecvd {
			return
		}
		switch m := ctx.Item.(type) {
		case memprotocol.ReadReq:
			st.memLog = append(st.memLog, memAccess{st.now(), m.Address, m.AccessByteSize, false})
		case memprotocol.WriteReq:
			st.memLog = append(st.memLog, memAccess{st.now(), m.Address, uint64(len(m.Data)), true})
		}
	}})
	for i, t := range st.tlbs {
		ts := &tlbStats{comp: t}
		ts.shadow = make([][]vm.Page, st.c.TLBs[i].Sets)
		for s := range ts.shadow {
			ts.shadow[s] = make([]vm.Page, st.c.TLBs[i].Ways)
		}
		st.stats = append(st.stats, ts)
		sets := uint64(st.c.TLBs[i].Sets)
		t.GetPortByName("Top").AcceptHook(&fnHook{func(ctx hooking.HookCtx) {
			switch ctx.Pos {
			case messaging.HookPosPortMsgSend:
				ts.topRsps++
			case messaging.HookPosPortMsgRecvd:
				req, ok := ctx.Item.(vmprotocol.TranslationReq)
				if !ok {
					return
				}
				k := textKey(req.PID, req.VAddr)
				for _, b := range ts.comp.State.Sets[int(req.VAddr/st.c.pageSize()%sets)].Blocks {
					if b.Page.Valid && b.Page.PID != req.PID && textKey(b.Page.PID, b.Page.VAddr) == k {
						ts.textKeyLookups++
						break
					}
				}
			}
		}})
		t.GetPortByName("Control").AcceptHook(&fnHook{func(ctx hooking.HookCtx) {
			if ctx.Pos == messaging.HookPosPortMsgRetrieveIncoming {
				ts.refresh()
			}
		}})
		t.GetPortByName("Bottom").AcceptHook(&fnHook{func(ctx hooking.HookCtx) {
			switch ctx.Pos {
			case messaging.HookPosPortMsgSend:
				ts.misses++
			case messaging.HookPosPortMsgRetrieveIncoming:
				rsp, ok := ctx.Item.(vmprotocol.TranslationRsp)
				if !ok {
					return
				}
				s := &ts.comp.State
				if !s.HasRespondingMSHR || s.RespondingMSHRData.ReqToBottom.ID != rsp.RspTo {
					ts.dropped++
					return
				}
				ts.fills++
				ts.mshrHits += len(s.RespondingMSHRData.Requests) - 1
				si := int(rsp.Page.VAddr / st.c.pageSize() % sets)
				for wi := range s.Sets[si].Blocks {
					cur, old := s.Sets[si].Blocks[wi].Page, ts.shadow[si][wi]
					if cur != old && old.Valid && (old.PID != cur.PID || old.VAddr != cur.VAddr) {
						ts.evicts++
					}
					ts.shadow[si][wi] = cur
				}
				for wi, a := range s.Sets[si].Blocks {
					for _, b := range s.Sets[si].Blocks[wi+1:] {
						if a.Page.Valid && b.Page.Valid && a.Page.PID != b.Page.PID &&
							textKey(a.Page.PID, a.Page.VAddr) == textKey(b.Page.PID, b.Page.VAddr) {
							ts.textKeyPairs++
						}
					}
				}
			}
		}})
	}
}

func (st *stack) levelKindOf(l *level, page vm.Page) string {
	if l.kind == "gmmu" {
		if page.DeviceID != localDevice {
			return "gmmu-remote"
		}
		return "gmmu-local"
	}
	return l.kind
}

func (st *stack) onLevelTop(li int, l *level, ctx hooking.HookCtx) {
	switch ctx.Pos {
	case messaging.HookPosPortMsgRecvd:
		req, ok := ctx.Item.(vmprotocol.TranslationReq)
		if !ok {
			st.viol("unexpected-msg:"+l.kind, "%s.Top received %T", l.name, ctx.Item)
			return
		}
		if _, dup := l.pending[req.ID]; dup {
			st.viol("dup-req-id:"+l.kind, "%s.Top received request id %d twice", l.name, req.ID)
			return
		}
		l.pending[req.ID] = pendTr{src: req.Src, pid: req.PID, vaddr: req.VAddr, tRecv: st.now()}
	case messaging.HookPosPortMsgSend:
		rsp, ok := ctx.Item.(vmprotocol.TranslationRsp)
		if !ok {
			st.viol("unexpected-msg:"+l.kind, "%s.Top sent %T", l.name, ctx.Item)
			return
		}
		kind := st.levelKindOf(l, rsp.Page)
		req, found := l.pending[rsp.RspTo]
		if !found {
			var open []string
			for id, p := range l.pending {
				open = append(open, fmt.Sprintf("id=%d(pid=%d vaddr=%#x from %s)", id, p.pid, p.vaddr, p.src))
			}
			sort.Strings(open)
			st.viol("rsp-unmatched:"+kind,
				"%s answered on Top with RspTo=%d (Dst=%s, page pid=%d vaddr=%#x) but no unanswered request with that ID was received there; unanswered: [%s]",
				l.name, rsp.RspTo, rsp.Dst, rsp.Page.PID, rsp.Page.VAddr, strings.Join(open, " "))
			return
		}
		delete(l.pending, rsp.RspTo)
		if rsp.Dst != req.src {
			st.viol("rsp-wrong-dst:"+kind, "%s answered request %d from %s to Dst=%s", l.name, rsp.RspTo, req.src, rsp.Dst)
			return
		}
		st.trs = append(st.trs, trRecord{level: li, req: req, page: rsp.Page, tRsp: st.now(), reqID: rsp.RspTo, rspT: rsp.ID})
	}
}

func (st *stack) onATTop(ctx hooking.HookCtx) {
	switch ctx.Pos {
	case messaging.HookPosPortMsgRecvd:
		m := ctx.Item.(messaging.Msg)
		st.atPend[m.Meta().ID] = m
	case messaging.HookPosPortMsgSend:
		m := ctx.Item.(messaging.Msg)
		req, found := st.atPend[m.Meta().RspTo]
		if !found {
			st.viol("rsp-unmatched:at", "AT answered on Top with RspTo=%d (%T) but no unanswered request has that ID", m.Meta().RspTo, m)
			return
		}
		delete(st.atPend, m.Meta().RspTo)
		if m.Meta().Dst != req.Meta().Src {
			st.viol("rsp-wrong-dst:at", "AT answered request %d from %s to %s", req.Meta().ID, req.Meta().Src, m.Meta().Dst)
		}
		_, isRead := req.(memprotocol.ReadReq)
		_, isData := m.(memprotocol.DataReadyRsp)
		if isRead != isData {
			st.viol("rsp-wrong-type:at", "AT answered %T with %T", req, m)
		}
	}
}

// describeStuck lists everything still outstanding inside the stack; sig is the
// hang signature derived from where work is stranded.
func (st *stack) describeStuck() (sig string, desc string) {
	var parts []string
	first := ""
	add := func(kind, format string, a ...any) {
		parts = append(parts, fmt.Sprintf(format, a...))
		if first == "" {
			first = kind
		}
	}
	if n, m := len(st.at.State.Transactions), len(st.at.State.InflightReqToBottom); n+m > 0 {
		add("at", "AT: %d awaiting translation, %d awaiting memory, state=%v", n, m, st.at.State.ControlState)
	}
	lat1 := false
	for i, t := range st.tlbs {
		s := &t.State
		pn, bn := len(s.Pipeline.Stages()), s.BufferItems.Size()
		if pn+bn+len(s.MSHREntries) > 0 || s.HasRespondingMSHR || s.TLBState != "enable" {
			var ms []string
			for _, e := range s.MSHREntries {
				ms = append(ms, fmt.Sprintf("pid=%d vaddr=%#x waiters=%d bottomReq=%d", e.PID, e.VAddr, len(e.Requests), e.ReqToBottom.ID))
			}
			add("tlb", "TLB%d(lat=%d): state=%s pipeline=%d buffer=%d responding=%v mshr=[%s] droppedBottomRsps=%d",
				i, st.c.TLBs[i].Lat, s.TLBState, pn, bn, s.HasRespondingMSHR, strings.Join(ms, "; "), st.stats[i].dropped)
			if pn > 0 && st.c.TLBs[i].Lat == 1 {
				lat1 = true
			}
		}
	}
	if st.mc != nil {
		if n := len(st.mc.State.OutstandingBottomReqs); n > 0 || st.mc.State.CurrentState != "enable" {
			add("mmucache", "MMUCache: state=%s outstanding=%d", st.mc.State.CurrentState, n)
		}
	}
	if st.gmmu != nil {
		if n, m := len(st.gmmu.State.WalkingTranslations), len(st.gmmu.State.RemoteMemReqs); n+m > 0 {
			add("gmmu", "GMMU: walking=%d remote=%d", n, m)
		}
	}
	if n := len(st.mmu.State.WalkingTranslations); n > 0 {
		add("mmu", "MMU: walking=%d", n)
	}
	if n := len(st.memc.State.InflightTransactions); n > 0 {
		add("mem", "MemCtrl: inflight=%d", n)
	}
	for _, p := range st.allPorts {
		if in, out := p.NumIncoming(), p.NumOutgoing(); in+out > 0 {
			add("port", "port %s: incoming=%d outgoing=%d", p.Name(), in, out)
		}
	}
	for _, l := range st.levels {
		if len(l.pending) > 0 {
			add(l.kind, "%s: %d translation requests received and never answered", l.name, len(l.pending))
		}
	}
	if len(st.atPend) > 0 {
		add("at", "AT: %d accesses received and never answered", len(st.atPend))
	}
	if len(parts) == 0 {
		return "", ""
	}
	sig = "hang:" + first
	if lat1 {
		sig = sigTLBLat1
	}
	return sig, strings.Join(parts, " | ")
}
