package memsyschk

import (
	"fmt"
	"sort"
	"testing"

	"github.com/sarchlab/akita/v5/mem/cache/writeback"
	"github.com/sarchlab/akita/v5/mem/memcontrolprotocol"
	"github.com/sarchlab/akita/v5/timing"
	"pgregory.net/rapid"

	"verif/harness/kit"
	"verif/harness/memsys"
)

type c17Case struct {
	Spec memsys.AssemblySpec `json:"spec"`
	// MidFlush > 0: at MidFlush/16 of the uninterrupted run's end time every
	// cache is drained and flushed (top-down) and enabled again, then the
	// workload continues.
	MidFlush int `json:"mid_flush"`
}

func controlTarget(a *memsys.Assembly, level int) string {
	return string(a.LevelComps[level].GetPortByName("Control").AsRemote())
}

// flushAllSteps drains and flushes every cache, top level first.
func flushAllSteps(a *memsys.Assembly, enableAfter bool) []memsys.CtlStep {
	var steps []memsys.CtlStep
	for i, l := range a.Spec.Levels {
		if l.Kind == "rob" {
			continue
		}
		steps = append(steps,
			memsys.CtlStep{Target: controlTarget(a, i), Cmd: int(memcontrolprotocol.CmdDrain)},
			memsys.CtlStep{Target: controlTarget(a, i), Cmd: int(memcontrolprotocol.CmdFlush)})
	}
	if enableAfter {
		for i := len(a.Spec.Levels) - 1; i >= 0; i-- {
			if a.Spec.Levels[i].Kind == "rob" {
				continue
			}
			steps = append(steps, memsys.CtlStep{Target: controlTarget(a, i), Cmd: int(memcontrolprotocol.CmdEnable)})
		}
	}
	return steps
}

func ctlFailure(a *memsys.Assembly) *memsys.Failure {
	st := &a.Ctl.State
	if len(st.Errors) > 0 {
		return &memsys.Failure{Sig: "ctl-protocol", Msg: st.Errors[0]}
	}
	if !a.Ctl.Done() {
		return &memsys.Failure{Sig: "ctl-unanswered", Msg: fmt.Sprintf("run ended with control step %d/%d unanswered (%+v)", st.Next, len(st.Steps), st.Steps[st.Next-1])}
	}
	for _, r := range st.Log {
		if !r.Success {
			return &memsys.Failure{Sig: "ctl-refused", Msg: fmt.Sprintf("control step %d (%+v) refused: %s", r.Step, st.Steps[r.Step], r.Error)}
		}
	}
	return nil
}

func newRun(spec memsys.AssemblySpec) (*timing.SerialEngine, *memsys.Assembly) {
	timing.ResetIDGenerator()
	engine := timing.NewSerialEngine()
	a := memsys.Build(memsys.NewReg(engine), spec)
	return engine, a
}

func TestC17FlushAll(t *testing.T) {
	s := kit.Begin(t, "C17", "flush-all",
		"C16 assemblies with >=1 write-back cache; workload runs to quiescence (optionally interrupted at k/16 of its length by Drain+Flush of every cache top-down followed by Enable bottom-up); then every cache is drained and flushed top-down. Oracle: every control request acknowledged with Success, and for every address ever written the backing storage holds the byte of the most recent acknowledged write (flat reference built from the requesters' acknowledgement logs). Cases whose data oracle (C16) fails with a listed C16 signature are counted and not judged. Non-trivial: at the final flush some write-back cache held >=2 dirty lines")
	defer s.End()
	s.Assume("assemblies are linear chains (requesters -> level 0 -> ... -> bottom); trees with sibling caches sharing a lower level are not generated (DESIGN 11.3, seeded change C17-C)")
	run := func(f kit.Failer, c c17Case) {
		var fail *memsys.Failure
		dirtyAtFlush := 0
		midInFlight := false
		skipped := ""
		ok, sig, msg := kit.Guard(func() {
			var endT timing.VTimeInPicoSec
			if c.MidFlush > 0 {
				e0, a0 := newRun(c.Spec)
				a0.Kick()
				_ = e0.Run()
				endT = e0.CurrentTime()
			}
			engine, a := newRun(c.Spec)
			a.Kick()
			if c.MidFlush > 0 {
				_ = engine.RunUntil(endT * timing.VTimeInPicoSec(c.MidFlush) / 16)
				for _, d := range a.Drivers {
					if len(d.State.Outstanding) > 0 {
						midInFlight = true
					}
				}
				a.Ctl.State.Steps = append(a.Ctl.State.Steps, flushAllSteps(a, true)...)
				a.Ctl.TickLater()
			}
			_ = engine.Run()
			if c.MidFlush > 0 {
				if fail = ctlFailure(a); fail != nil {
					return
				}
			}
			ref, df := memsys.CheckDrivers(a)
			if df != nil {
				dsig := c16Sig(c16Case{Spec: c.Spec}, df)
				if _, known := (&kit.Session{ID: "C16"}).IsKnown(dsig); known {
					skipped = "c16-known:" + dsig
					return
				}
				fail = &memsys.Failure{Sig: "c16:" + dsig, Msg: df.Msg}
				return
			}
			for _, wb := range a.WB {
				n := 0
				for _, set := range wb.State.DirectoryState.Sets {
					for _, b := range set.Blocks {
						if b.IsValid && b.IsDirty {
							n++
						}
					}
				}
				if n > dirtyAtFlush {
					dirtyAtFlush = n
				}
			}
			a.Ctl.State.Steps = append(a.Ctl.State.Steps, flushAllSteps(a, false)...)
			a.Ctl.TickLater()
			_ = engine.Run()
			if fail = ctlFailure(a); fail != nil {
				return
			}
			addrs := make([]uint64, 0, len(ref))
			for ad := range ref {
				addrs = append(addrs, ad)
			}
			sort.Slice(addrs, func(i, j int) bool { return addrs[i] < addrs[j] })
			for _, ad := range addrs {
				got, err := a.Storage.Read(ad, 1)
				if err != nil {
					fail = &memsys.Failure{Sig: "storage-read", Msg: err.Error()}
					return
				}
				if got[0] != ref[ad] {
					fail = &memsys.Failure{Sig: "backing-stale", Msg: fmt.Sprintf("after draining and flushing every cache, backing memory byte %#x is %#02x, most recent acknowledged write wrote %#02x [%s]", ad, got[0], ref[ad], shape(c.Spec))}
					return
				}
			}
			if df := a.CheckAllDirectories(); df != nil {
				fail = &memsys.Failure{Sig: "c19:" + df.Sig, Msg: df.Msg}
			}
		})
		if !ok {
			s.Fail(f, c, sig, "%s", msg)
			return
		}
		if fail != nil {
			s.Fail(f, c, fail.Sig, "%s", fail.Msg)
			return
		}
		classes := []string{}
		if skipped != "" {
			classes = append(classes, skipped)
		}
		if c.MidFlush > 0 {
			classes = append(classes, "mid-run-flush")
			if midInFlight {
				classes = append(classes, "mid-run-flush-with-requests-in-flight")
			}
		}
		if dirtyAtFlush > 0 {
			classes = append(classes, "dirty-at-final-flush")
		}
		s.Note(c, skipped == "" && dirtyAtFlush >= 2, classes...)
	}
	var c c17Case
	if ok, err := kit.LoadReplay("C17", "flush-all", &c); ok {
		if err != nil {
			t.Fatal(err)
		}
		run(t, c)
		return
	} else if kit.ReplayMode() {
		t.Skip()
	}
	kit.SetChecks(250, 2500)
	rapid.Check(t, func(rt *rapid.T) {
		steered := 0
		o := genOpts(&kit.Session{ID: "C16"}, &steered, memsys.GenOpts{NeedWB: true})
		c := c17Case{Spec: memsys.GenAssembly(rt, o)}
		if rapid.Bool().Draw(rt, "mid") {
			c.MidFlush = rapid.IntRange(1, 15).Draw(rt, "midAt")
		}
		if steered > 0 {
			s.Excluded(1)
		}
		run(rt, c)
	})
}

type c17fCase struct {
	Spec      memsys.AssemblySpec `json:"spec"`
	Addresses []uint64            `json:"addresses"`
	PID       uint32              `json:"pid"`
	// Pick selects filter addresses relative to the dirty set found at flush
	// time (index modulo its size, byte offset modulo the line), so that the
	// strict-subset class is reached by construction; PIDOf (k>0) takes the
	// PID filter from the k-th dirty line. Both resolve deterministically from
	// the case, so replay is unaffected.
	Pick  []c17Pick `json:"pick,omitempty"`
	PIDOf int       `json:"pid_of,omitempty"`
}

type c17Pick struct {
	Idx int    `json:"idx"`
	Off uint64 `json:"off"`
}

type dirtyLine struct {
	Set, Way int
	Tag      uint64
	PID      uint32
}

func TestC17Filtered(t *testing.T) {
	s := kit.Begin(t, "C17", "filtered",
		"one write-back cache over an ideal controller; after the workload the cache is drained, D = dirty valid lines read from State.DirectoryState, then Flush with a drawn filter (none / address list incl. unaligned and absent addresses / PID / both). Oracle after the ack: exactly the lines of D matching the filter (PID zero = all, addresses aligned down to the line) are clean and the backing storage holds the reference bytes of those whole lines; every line valid before is still valid; non-matching lines of D are still dirty and the backing bytes under them are unchanged. Non-trivial: >=2 dirty lines of which a non-empty strict subset matches")
	defer s.End()
	run := func(f kit.Failer, c c17fCase) {
		var fail *memsys.Failure
		nD, nMatch := 0, 0
		effAddrs, effPID := 0, c.PID
		ok, sig, msg := kit.Guard(func() {
			engine, a := newRun(c.Spec)
			a.Kick()
			_ = engine.Run()
			ref, df := memsys.CheckDrivers(a)
			if df != nil {
				fail = &memsys.Failure{Sig: "c16:" + df.Sig, Msg: df.Msg}
				return
			}
			wb := a.WB[0]
			spec := wb.Spec()
			line := uint64(1) << spec.Log2BlockSize
			a.Ctl.State.Steps = append(a.Ctl.State.Steps, memsys.CtlStep{Target: controlTarget(a, 0), Cmd: int(memcontrolprotocol.CmdDrain)})
			a.Ctl.TickLater()
			_ = engine.Run()
			if fail = ctlFailure(a); fail != nil {
				return
			}
			var dirty, valid []dirtyLine
			for si, set := range wb.State.DirectoryState.Sets {
				for wi, b := range set.Blocks {
					if b.IsValid {
						valid = append(valid, dirtyLine{si, wi, b.Tag, b.PID})
						if b.IsDirty {
							dirty = append(dirty, dirtyLine{si, wi, b.Tag, b.PID})
						}
					}
				}
			}
			before := map[uint64][]byte{}
			for _, d := range dirty {
				before[d.Tag], _ = a.Storage.Read(d.Tag, line)
			}
			addrs, pid := append([]uint64(nil), c.Addresses...), c.PID
			if len(dirty) > 0 {
				for _, pk := range c.Pick {
					addrs = append(addrs, dirty[pk.Idx%len(dirty)].Tag+pk.Off%line)
				}
				if c.PIDOf > 0 {
					pid = dirty[(c.PIDOf-1)%len(dirty)].PID
				}
			}
			effAddrs, effPID = len(addrs), pid
			match := func(d dirtyLine) bool {
				if pid != 0 && d.PID != pid {
					return false
				}
				if len(addrs) == 0 {
					return true
				}
				for _, ad := range addrs {
					if ad/line*line == d.Tag {
						return true
					}
				}
				return false
			}
			a.Ctl.State.Steps = append(a.Ctl.State.Steps, memsys.CtlStep{Target: controlTarget(a, 0), Cmd: int(memcontrolprotocol.CmdFlush), Addresses: addrs, PID: pid})
			a.Ctl.TickLater()
			_ = engine.Run()
			if fail = ctlFailure(a); fail != nil {
				return
			}
			fail = judgeFiltered(wb, a, ref, line, dirty, valid, before, match, &nMatch)
			nD = len(dirty)
		})
		if !ok {
			s.Fail(f, c, sig, "%s", msg)
			return
		}
		if fail != nil {
			s.Fail(f, c, fail.Sig, "%s", fail.Msg)
			return
		}
		cl := "filter:none"
		switch {
		case effAddrs > 0 && effPID != 0:
			cl = "filter:both"
		case effAddrs > 0:
			cl = "filter:addresses"
		case effPID != 0:
			cl = "filter:pid"
		}
		s.Note(c, nD >= 2 && nMatch > 0 && nMatch < nD, cl, fmt.Sprintf("dirty-lines:%d", min(nD, 4)))
	}
	var c c17fCase
	if ok, err := kit.LoadReplay("C17", "filtered", &c); ok {
		if err != nil {
			t.Fatal(err)
		}
		run(t, c)
		return
	} else if kit.ReplayMode() {
		t.Skip()
	}
	kit.SetChecks(400, 4000)
	rapid.Check(t, func(rt *rapid.T) {
		spec := memsys.GenAssembly(rt, memsys.GenOpts{NeedWB: true, Bottoms: []string{"ideal"}, SingleLevel: true})
		c := c17fCase{Spec: spec}
		line := spec.TopLine()
		switch rapid.IntRange(0, 3).Draw(rt, "filter") {
		case 1, 3:
			n := rapid.IntRange(1, 4).Draw(rt, "nAddr")
			for i := 0; i < n; i++ {
				c.Addresses = append(c.Addresses, uint64(rapid.IntRange(0, 63).Draw(rt, "fl"))*line+uint64(rapid.IntRange(0, int(line)-1).Draw(rt, "fo")))
			}
		}
		switch rapid.IntRange(0, 3).Draw(rt, "pidf") {
		case 1:
			c.PID = 1
		case 2:
			c.PID = 2
		case 3:
			c.PIDOf = rapid.IntRange(1, 8).Draw(rt, "pidOf")
		}
		if rapid.IntRange(0, 2).Draw(rt, "pickDirty") > 0 {
			n := rapid.IntRange(1, 3).Draw(rt, "nPick")
			for i := 0; i < n; i++ {
				c.Pick = append(c.Pick, c17Pick{Idx: rapid.IntRange(0, 15).Draw(rt, "pi"), Off: uint64(rapid.IntRange(0, int(line)-1).Draw(rt, "po"))})
			}
		}
		run(rt, c)
	})
}

func judgeFiltered(wb *writeback.Comp, a *memsys.Assembly, ref memsys.Ref, line uint64, dirty, valid []dirtyLine,
	before map[uint64][]byte, match func(dirtyLine) bool, nMatch *int) *memsys.Failure {
	for _, v := range valid {
		b := wb.State.DirectoryState.Sets[v.Set].Blocks[v.Way]
		if !b.IsValid || b.Tag != v.Tag {
			return &memsys.Failure{Sig: "flush-invalidated-line", Msg: fmt.Sprintf("line %#x was valid before the flush and is not afterwards", v.Tag)}
		}
	}
	for _, d := range dirty {
		b := wb.State.DirectoryState.Sets[d.Set].Blocks[d.Way]
		now, _ := a.Storage.Read(d.Tag, line)
		if match(d) {
			*nMatch++
			if b.IsDirty {
				return &memsys.Failure{Sig: "flush-left-dirty", Msg: fmt.Sprintf("dirty line %#x (pid %d) matches the flush filter but is still dirty after the acknowledgement", d.Tag, d.PID)}
			}
			for i := uint64(0); i < line; i++ {
				if now[i] != ref[d.Tag+i] {
					return &memsys.Failure{Sig: "flush-backing-stale", Msg: fmt.Sprintf("line %#x flushed but backing byte +%d is %#02x, reference %#02x", d.Tag, i, now[i], ref[d.Tag+i])}
				}
			}
		} else {
			if !b.IsDirty {
				return &memsys.Failure{Sig: "flush-cleaned-nonmatching", Msg: fmt.Sprintf("dirty line %#x (pid %d) does not match the filter but is clean after the flush", d.Tag, d.PID)}
			}
			for i := uint64(0); i < line; i++ {
				if now[i] != before[d.Tag][i] {
					return &memsys.Failure{Sig: "flush-wrote-nonmatching", Msg: fmt.Sprintf("line %#x does not match the filter but backing byte +%d changed %#02x -> %#02x", d.Tag, i, before[d.Tag][i], now[i])}
				}
			}
		}
	}
	return nil
}
