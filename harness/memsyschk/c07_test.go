package memsyschk

import (
	"archive/tar"
	"bytes"
	"compress/gzip"
	"encoding/binary"
	"encoding/json"
	"fmt"
	"os"
	"path/filepath"
	"sort"
	"strings"
	"testing"

	"github.com/sarchlab/akita/v5/timing"
	"pgregory.net/rapid"

	"verif/harness/kit"
	"verif/harness/memsys"
)

const c07BuildID = "verif-c07"

// makeSource builds spec, runs it to the cut and saves a checkpoint. The cut is
// CutSel/1000 of the way through the run's own event times.
func makeSource(spec memsys.AssemblySpec, cutSel int, dir string) (path string, buffered, inflight int, err error) {
	// first pass: event times
	timing.ResetIDGenerator()
	e0 := timing.NewSerialEngine()
	a0 := memsys.Build(memsys.NewReg(e0), spec)
	rec := &memsys.TraceRecorder{}
	e0.AcceptHook(rec)
	a0.Kick()
	_ = e0.Run()
	var times []uint64
	for _, ev := range rec.Events {
		if len(times) == 0 || times[len(times)-1] != ev.Time {
			times = append(times, ev.Time)
		}
	}
	cut := uint64(0)
	if len(times) > 0 {
		cut = times[cutSel*len(times)/1001]
	}
	sim, a := memsys.BuildSim(spec, dir, true)
	defer memsys.CloseSim(sim, dir)
	a.Kick()
	_ = sim.GetEngine().(*timing.SerialEngine).RunUntil(timing.VTimeInPicoSec(cut))
	for _, d := range a.Drivers {
		inflight += len(d.State.Outstanding)
	}
	for _, p := range a.AllPorts {
		buffered += p.NumIncoming() + p.NumOutgoing()
	}
	path = filepath.Join(dir, fmt.Sprintf("src-%d.tar.gz", cutSel))
	err = sim.SaveCheckpoint(path, c07BuildID)
	return
}

// tryLoad rebuilds spec and loads the archive. It reports the load error (nil =
// accepted) and whether the load panicked.
func tryLoad(spec memsys.AssemblySpec, dir, path, buildID string) (loadErr error, panicked bool, sig, msg string) {
	ok, sig, msg := kit.Guard(func() {
		sim, _ := memsys.BuildSim(spec, dir, true)
		defer memsys.CloseSim(sim, dir)
		loadErr = sim.LoadCheckpoint(path, buildID)
	})
	return loadErr, !ok, sig, msg
}

type c07aCase struct {
	Spec   memsys.AssemblySpec `json:"spec"`
	CutSel int                 `json:"cut_sel"`
}

func c07Dir(t testing.TB) string {
	if d := os.Getenv("VERIF_WORK"); d != "" {
		if p, err := os.MkdirTemp(d, "c07-"); err == nil {
			return p
		}
	}
	return t.TempDir()
}

func genC07Spec(rt *rapid.T) memsys.AssemblySpec {
	spec := memsys.GenAssembly(rt, memsys.GenOpts{MaxOps: 30, Bottoms: []string{"ideal", "banked", "dram"}})
	if rapid.Bool().Draw(rt, "pt") {
		spec.PTLog2 = uint64(rapid.SampledFrom([]int{12, 14, 16}).Draw(rt, "ptLog2"))
		spec.PTPages = rapid.IntRange(0, 6).Draw(rt, "ptPages")
	}
	if rapid.Bool().Draw(rt, "unit") {
		spec.StorageUnit = uint64(rapid.SampledFrom([]int{64, 256, 4096}).Draw(rt, "storageUnit"))
	}
	return spec
}

// TestC07Canonical: save -> load into a rebuilt simulation -> save again gives
// byte-identical archives, at any cut.
func TestC07Canonical(t *testing.T) {
	s := kit.Begin(t, "C07", "canonical",
		"C16/C06 assemblies (+ optional page-table resource and storage unit size) in a real simulation.Simulation; cut drawn from the run's own event times; SaveCheckpoint -> rebuild -> LoadCheckpoint -> SaveCheckpoint must be byte-identical. Non-trivial: at the cut >=1 request in flight and >=1 message buffered in a port")
	defer s.End()
	run := func(f kit.Failer, c c07aCase) {
		dir := c07Dir(t)
		defer os.RemoveAll(dir)
		var fail *memsys.Failure
		var buffered, inflight int
		ok, sig, msg := kit.Guard(func() {
			src, b, i, err := makeSource(c.Spec, c.CutSel, dir)
			buffered, inflight = b, i
			if err != nil {
				fail = &memsys.Failure{Sig: "save-error", Msg: err.Error()}
				return
			}
			sim, _ := memsys.BuildSim(c.Spec, dir, true)
			defer memsys.CloseSim(sim, dir)
			if err := sim.LoadCheckpoint(src, c07BuildID); err != nil {
				fail = &memsys.Failure{Sig: "load-own-archive:" + firstWord(err.Error()), Msg: err.Error()}
				return
			}
			again := filepath.Join(dir, "again.tar.gz")
			if err := sim.SaveCheckpoint(again, c07BuildID); err != nil {
				fail = &memsys.Failure{Sig: "resave-error", Msg: err.Error()}
				return
			}
			b1, _ := os.ReadFile(src)
			b2, _ := os.ReadFile(again)
			if !bytes.Equal(b1, b2) {
				d := diffArchives(src, again)
				kind := "container"
				if i := strings.Index(d, "first "); i >= 0 {
					kind = entityKind(strings.Fields(d[i+6:])[0])
				}
				fail = &memsys.Failure{Sig: "resave-differs:" + kind, Msg: d}
			}
		})
		if !ok {
			s.Fail(f, c, sig, "%s", msg)
			return
		}
		if fail != nil {
			s.Fail(f, c, fail.Sig, "%s", fail.Msg)
			return
		}
		s.Note(c, inflight > 0 && buffered > 0, "bottom:"+c.Spec.Bottom.Kind)
	}
	var c c07aCase
	if ok, err := kit.LoadReplay("C07", "canonical", &c); ok {
		if err != nil {
			t.Fatal(err)
		}
		run(t, c)
		return
	} else if kit.ReplayMode() {
		t.Skip()
	}
	kit.SetChecks(60, 300)
	rapid.Check(t, func(rt *rapid.T) {
		run(rt, c07aCase{Spec: genC07Spec(rt), CutSel: rapid.IntRange(0, 1000).Draw(rt, "cutSel")})
	})
}

// ---- (b) single-point configuration mutations ----

type specMutation struct {
	Name  string
	Apply func(*memsys.AssemblySpec) bool // false = not applicable to this spec
}

func specMutations() []specMutation {
	var ms []specMutation
	add := func(name string, f func(*memsys.AssemblySpec) bool) { ms = append(ms, specMutation{name, f}) }
	lvl := func(kinds string, name string, f func(*memsys.LevelSpec)) {
		for i := 0; i < 3; i++ {
			i := i
			add(fmt.Sprintf("level%d.%s", i, name), func(s *memsys.AssemblySpec) bool {
				if i >= len(s.Levels) || !strings.Contains(kinds, s.Levels[i].Kind) {
					return false
				}
				f(&s.Levels[i])
				return true
			})
		}
	}
	lvl("rob wb wt", "freq", func(l *memsys.LevelSpec) { l.Freq += 1_000_000 })
	lvl("rob wb wt", "num_req_per_cycle", func(l *memsys.LevelSpec) { l.NumReqPerCycle++ })
	lvl("rob", "buffer_size", func(l *memsys.LevelSpec) { l.BufferSize++ })
	lvl("wb wt", "ways", func(l *memsys.LevelSpec) { l.Ways++ })
	lvl("wb wt", "sets", func(l *memsys.LevelSpec) { l.Sets++ })
	lvl("wb wt", "banks", func(l *memsys.LevelSpec) { l.Banks++ })
	lvl("wb wt", "mshr", func(l *memsys.LevelSpec) { l.MSHR++ })
	lvl("wb wt", "bank_latency", func(l *memsys.LevelSpec) { l.BankLatency++ })
	lvl("wb wt", "dir_latency", func(l *memsys.LevelSpec) { l.DirLatency++ })
	lvl("wt", "max_trans", func(l *memsys.LevelSpec) { l.MaxTrans++ })
	lvl("wt", "write_policy", func(l *memsys.LevelSpec) {
		if l.WritePolicy == "write-around" {
			l.WritePolicy = "write-evict"
		} else {
			l.WritePolicy = "write-around"
		}
	})
	lvl("wb", "write_buf_cap", func(l *memsys.LevelSpec) { l.WriteBufCap++ })
	lvl("wb", "max_fetch", func(l *memsys.LevelSpec) { l.MaxFetch++ })
	lvl("wb", "max_evict", func(l *memsys.LevelSpec) { l.MaxEvict++ })
	lvl("rob wb wt", "port_capacity", func(l *memsys.LevelSpec) { l.PortBuf++ })
	bot := func(kinds, name string, f func(*memsys.BottomSpec)) {
		add("bottom."+name, func(s *memsys.AssemblySpec) bool {
			if !strings.Contains(kinds, s.Bottom.Kind) {
				return false
			}
			f(&s.Bottom)
			return true
		})
	}
	bot("ideal banked", "freq", func(b *memsys.BottomSpec) { b.Freq += 1_000_000 })
	bot("ideal", "latency", func(b *memsys.BottomSpec) { b.Latency++ })
	bot("ideal", "width", func(b *memsys.BottomSpec) { b.Width++ })
	bot("banked", "num_banks", func(b *memsys.BottomSpec) { b.NumBanks++ })
	bot("banked", "pipe_width", func(b *memsys.BottomSpec) { b.PipeWidth++ })
	bot("banked", "pipe_depth", func(b *memsys.BottomSpec) { b.PipeDepth++ })
	bot("banked", "stage_latency", func(b *memsys.BottomSpec) { b.StageLatency++ })
	bot("banked", "post_buf", func(b *memsys.BottomSpec) { b.PostBuf++ })
	bot("banked", "bank_interleave", func(b *memsys.BottomSpec) { b.Log2BankIntlv++ })
	bot("dram", "preset", func(b *memsys.BottomSpec) {
		if b.Preset == "DDR4" {
			b.Preset = "DDR5"
		} else {
			b.Preset = "DDR4"
		}
	})
	bot("dram", "trans_queue", func(b *memsys.BottomSpec) { b.TransQ++ })
	bot("dram", "cmd_queue", func(b *memsys.BottomSpec) { b.CmdQ++ })
	bot("dram", "page_policy", func(b *memsys.BottomSpec) {
		if b.PagePolicy == "open" {
			b.PagePolicy = "close"
		} else {
			b.PagePolicy = "open"
		}
	})
	bot("ideal banked dram", "port_capacity", func(b *memsys.BottomSpec) { b.PortBuf++ })
	add("bottom.count(entity set)", func(s *memsys.AssemblySpec) bool {
		s.Bottom.N++
		return len(s.Levels) == 0 || s.Levels[len(s.Levels)-1].Kind != "rob"
	})
	add("driver.freq", func(s *memsys.AssemblySpec) bool { s.Drivers[0].Freq += 1_000_000; return true })
	add("driver.max_out", func(s *memsys.AssemblySpec) bool { s.Drivers[0].MaxOut++; return true })
	add("driver.script", func(s *memsys.AssemblySpec) bool {
		s.Drivers[0].Script = append([]memsys.Op{}, s.Drivers[0].Script...)
		s.Drivers[0].Script = append(s.Drivers[0].Script, memsys.Op{Addr: 0, Size: 1})
		return true
	})
	add("driver.port_capacity", func(s *memsys.AssemblySpec) bool { s.Drivers[0].PortBuf++; return true })
	add("driver.added(entity set)", func(s *memsys.AssemblySpec) bool {
		s.Drivers = append(append([]memsys.DriverCfg{}, s.Drivers...), memsys.DriverCfg{Freq: 1e9, MaxOut: 1, PortBuf: 1, RspPerTick: 1})
		return true
	})
	add("driver.removed(entity set)", func(s *memsys.AssemblySpec) bool {
		if len(s.Drivers) < 2 {
			return false
		}
		s.Drivers = s.Drivers[:len(s.Drivers)-1]
		return true
	})
	add("level.removed(entity set)", func(s *memsys.AssemblySpec) bool {
		if len(s.Levels) == 0 {
			return false
		}
		s.Levels = s.Levels[:len(s.Levels)-1]
		// the harness can only build a ROB over exactly one unit
		if n := len(s.Levels); n > 0 && s.Levels[n-1].Kind == "rob" && s.Bottom.N != 1 {
			return false
		}
		return true
	})
	add("connections.renamed(entity set)", func(s *memsys.AssemblySpec) bool {
		if s.ConnMode == "single" {
			s.ConnMode = "perlink"
		} else {
			s.ConnMode = "single"
		}
		return true
	})
	add("connection.freq", func(s *memsys.AssemblySpec) bool { s.ConnFreq += 1_000_000; return true })
	add("storage.capacity", func(s *memsys.AssemblySpec) bool { s.Capacity *= 2; return s.Bottom.Kind != "dram" })
	add("storage.unit_size", func(s *memsys.AssemblySpec) bool {
		if s.StorageUnit == 0 {
			s.StorageUnit = 128
		} else {
			s.StorageUnit *= 2
		}
		return true
	})
	add("pagetable.log2_page_size", func(s *memsys.AssemblySpec) bool {
		if s.PTLog2 == 0 {
			return false
		}
		s.PTLog2++
		return true
	})
	add("pagetable.removed(entity set)", func(s *memsys.AssemblySpec) bool {
		if s.PTLog2 == 0 {
			return false
		}
		s.PTLog2 = 0
		return true
	})
	return ms
}

type c07bCase struct {
	Spec     memsys.AssemblySpec `json:"spec"`
	CutSel   int                 `json:"cut_sel"`
	Mutation string              `json:"mutation"` // "" = all applicable
}

func cloneSpec(s memsys.AssemblySpec) memsys.AssemblySpec {
	b, _ := json.Marshal(s)
	var c memsys.AssemblySpec
	_ = json.Unmarshal(b, &c)
	return c
}

// TestC07ConfigMismatch: every single-point mutation of the rebuilt
// configuration must make LoadCheckpoint return an error (never panic, never
// succeed).
func TestC07ConfigMismatch(t *testing.T) {
	s := kit.Begin(t, "C07", "config-mismatch",
		"one generated source checkpoint per case; the rebuilt simulation differs from the saved one in exactly one point, enumerated over every applicable site: other build id; entity added/removed/renamed (requester, level, bottom count, connection naming, page table); one Spec field of one component (each field of each component kind is a site); one port capacity; storage capacity or unit size; page-table page size. LoadCheckpoint must return an error: a panic or a nil error is a violation. Each (case, site) is one evaluation; non-trivial = the site changes a component Spec/port/storage/page-table (i.e. not the build id)")
	defer s.End()
	muts := specMutations()
	run := func(f kit.Failer, c c07bCase) {
		dir := c07Dir(t)
		defer os.RemoveAll(dir)
		src, _, _, err := makeSource(c.Spec, c.CutSel, dir)
		if err != nil {
			s.Fail(f, c, "save-error", "%v", err)
			return
		}
		// sanity: the unmutated rebuild loads
		if lerr, pan, sig, msg := tryLoad(c.Spec, dir, src, c07BuildID); pan {
			s.Fail(f, c, sig, "%s", msg)
			return
		} else if lerr != nil {
			s.Fail(f, c, "load-own-archive:"+firstWord(lerr.Error()), "%v", lerr)
			return
		}
		judge := func(name string, spec memsys.AssemblySpec, buildID string) bool {
			cc := c
			cc.Mutation = name
			lerr, pan, sig, msg := tryLoad(spec, dir, src, buildID)
			if pan {
				s.Fail(f, cc, "mismatch-panic:"+name+":"+sig, "rebuilt configuration differs in %s: LoadCheckpoint panicked: %s", name, msg)
				return false
			}
			if lerr == nil {
				s.Fail(f, cc, "mismatch-accepted:"+siteClass(name), "rebuilt configuration differs in %s but LoadCheckpoint returned nil", name)
				return false
			}
			s.Note(cc, name != "build_id", "site:"+siteClass(name))
			return true
		}
		if c.Mutation == "" || c.Mutation == "build_id" {
			if !judge("build_id", c.Spec, c07BuildID+"-other") {
				return
			}
		}
		for _, m := range muts {
			if c.Mutation != "" && c.Mutation != m.Name {
				continue
			}
			spec := cloneSpec(c.Spec)
			if !m.Apply(&spec) {
				continue
			}
			if !judge(m.Name, spec, c07BuildID) {
				return
			}
		}
	}
	var c c07bCase
	if ok, err := kit.LoadReplay("C07", "config-mismatch", &c); ok {
		if err != nil {
			t.Fatal(err)
		}
		run(t, c)
		return
	} else if kit.ReplayMode() {
		t.Skip()
	}
	kit.SetChecks(8, 30)
	rapid.Check(t, func(rt *rapid.T) {
		run(rt, c07bCase{Spec: genC07Spec(rt), CutSel: rapid.IntRange(0, 1000).Draw(rt, "cutSel")})
	})
}

func siteClass(name string) string {
	if i := strings.Index(name, "."); i > 0 {
		head := name[:i]
		if strings.HasPrefix(head, "level") {
			head = "level"
		}
		return head + "." + name[i+1:]
	}
	return name
}

// ---- (c) hand-crafted archives ----

type entry struct {
	Name string
	Data []byte
	Type byte // tar type flag; 0 = regular
}

func readEntries(path string) ([]entry, error) {
	m, err := readArchive(path)
	if err != nil {
		return nil, err
	}
	var names []string
	for n := range m {
		names = append(names, n)
	}
	sort.Strings(names)
	// build_id first, as the writer does
	out := []entry{}
	if b, ok := m["build_id"]; ok {
		out = append(out, entry{Name: "build_id", Data: b})
	}
	for _, n := range names {
		if n != "build_id" {
			out = append(out, entry{Name: n, Data: m[n]})
		}
	}
	return out, nil
}

func writeEntries(path string, es []entry) error {
	var buf bytes.Buffer
	gz := gzip.NewWriter(&buf)
	tw := tar.NewWriter(gz)
	for _, e := range es {
		h := &tar.Header{Name: e.Name, Mode: 0o644, Size: int64(len(e.Data)), Typeflag: tar.TypeReg}
		if e.Type != 0 {
			h.Typeflag = e.Type
			if e.Type == tar.TypeDir || e.Type == tar.TypeSymlink || e.Type == tar.TypeLink {
				h.Size = 0
				h.Linkname = "build_id"
			}
		}
		if err := tw.WriteHeader(h); err != nil {
			return err
		}
		if h.Size > 0 {
			if _, err := tw.Write(e.Data); err != nil {
				return err
			}
		}
	}
	_ = tw.Close()
	_ = gz.Close()
	return os.WriteFile(path, buf.Bytes(), 0o644)
}

type c07cCase struct {
	Spec   memsys.AssemblySpec `json:"spec"`
	CutSel int                 `json:"cut_sel"`
	Edit   string              `json:"edit"`   // which structured edit
	Target int                 `json:"target"` // index into the candidate entries of that edit
	Arg    int                 `json:"arg"`
}

var c07Edits = []string{
	"engine:unknown-handler", "engine:unknown-event-type", "engine:event-shape", "engine:time-shape",
	"port:unknown-msg-type", "port:overfull", "port:capacity-changed", "port:elements-shape", "port:msg-payload-shape",
	"component:state-shape", "component:spec-hash", "component:scheduler-shape", "component:truncated-json",
	"storage:truncated", "storage:capacity", "storage:unit-size", "storage:unit-count-huge", "storage:extra-bytes",
	"idgen:kind", "idgen:shape",
	"pagetable:page-size", "pagetable:shape",
	"archive:missing-entry", "archive:extra-entry", "archive:duplicate-entry", "archive:renamed-entry",
	"archive:dir-entry", "archive:symlink-entry", "archive:no-build-id", "archive:empty-payload", "archive:not-gzip", "archive:truncated-file",
}

// mustReject lists the edits after which the archive is malformed or references
// something unknown, so the load must fail. For the others (e.g. extra trailing
// bytes after a storage stream) rejection is not demanded by the property; only
// "never panics" is.
var mustReject = map[string]bool{
	"engine:unknown-handler": true, "engine:unknown-event-type": true, "engine:event-shape": true, "engine:time-shape": true,
	"port:unknown-msg-type": true, "port:overfull": true, "port:capacity-changed": true, "port:elements-shape": true,
	"component:state-shape": true, "component:spec-hash": true, "component:truncated-json": true,
	"storage:truncated": true, "storage:capacity": true, "storage:unit-size": true, "storage:unit-count-huge": true,
	"pagetable:page-size": true, "pagetable:shape": true,
	"archive:missing-entry": true, "archive:extra-entry": true, "archive:renamed-entry": true,
	"archive:no-build-id": true, "archive:empty-payload": true, "archive:not-gzip": true, "archive:truncated-file": true,
}

func isPort(name string) bool {
	n := strings.TrimPrefix(name, "entities/")
	return strings.Contains(n, ".") && !strings.Contains(n, ".Storage")
}
func isStorage(name string) bool { return strings.Contains(name, ".Storage") }
func isComponent(name string) bool {
	n := strings.TrimPrefix(name, "entities/")
	return name != "build_id" && !isPort(name) && !isStorage(name) && n != "Engine" && n != "IDGenerator" && n != "PT"
}

// applyEdit returns the edited entry list, or nil when the edit does not apply.
func applyEdit(es []entry, edit string, target, arg int) []entry {
	out := make([]entry, len(es))
	copy(out, es)
	pick := func(pred func(entry) bool) int {
		var idx []int
		for i, e := range out {
			if pred(e) {
				idx = append(idx, i)
			}
		}
		if len(idx) == 0 {
			return -1
		}
		return idx[target%len(idx)]
	}
	named := func(n string) func(entry) bool { return func(e entry) bool { return e.Name == "entities/"+n } }
	editJSON := func(i int, f func(m map[string]any) bool) []entry {
		var m map[string]any
		if json.Unmarshal(out[i].Data, &m) != nil {
			return nil
		}
		if !f(m) {
			return nil
		}
		b, _ := json.Marshal(m)
		out[i].Data = append(b, '\n')
		return out
	}
	switch edit {
	case "engine:unknown-handler", "engine:unknown-event-type", "engine:event-shape":
		i := pick(named("Engine"))
		if i < 0 {
			return nil
		}
		return editJSON(i, func(m map[string]any) bool {
			// arg picks which queue is tried first, so both the primary and the
			// secondary queue get edited
			queues := []string{"primary", "secondary"}
			if (arg/2)%2 == 1 {
				queues = []string{"secondary", "primary"}
			}
			for _, q := range queues {
				evs, _ := m[q].([]any)
				if len(evs) == 0 {
					continue
				}
				ev, _ := evs[arg%len(evs)].(map[string]any)
				switch edit {
				case "engine:unknown-handler":
					if p, ok := ev["payload"].(map[string]any); ok {
						p["handler_id"] = "NoSuchHandler"
						return true
					}
				case "engine:unknown-event-type":
					ev["type"] = "example.com/nosuch.Event"
					return true
				case "engine:event-shape":
					ev["payload"] = []any{1, 2, 3}
					return true
				}
			}
			return false
		})
	case "engine:time-shape":
		i := pick(named("Engine"))
		if i < 0 {
			return nil
		}
		return editJSON(i, func(m map[string]any) bool { m["time"] = "soon"; return true })
	case "port:unknown-msg-type", "port:overfull", "port:msg-payload-shape":
		i := pick(func(e entry) bool { return isPort(e.Name) && bytes.Contains(e.Data, []byte(`"type"`)) })
		if i < 0 {
			return nil
		}
		return editJSON(i, func(m map[string]any) bool {
			for _, q := range []string{"incoming", "outgoing"} {
				b, _ := m[q].(map[string]any)
				els, _ := b["elements"].([]any)
				if len(els) == 0 {
					continue
				}
				switch edit {
				case "port:unknown-msg-type":
					els[0].(map[string]any)["type"] = "example.com/nosuch.Msg"
				case "port:msg-payload-shape":
					els[0].(map[string]any)["payload"] = "not-an-object"
				case "port:overfull":
					capacity := int(b["capacity"].(float64))
					for len(els) <= capacity {
						els = append(els, els[0])
					}
					b["elements"] = els
				}
				return true
			}
			return false
		})
	case "port:capacity-changed", "port:elements-shape":
		i := pick(func(e entry) bool { return isPort(e.Name) })
		if i < 0 {
			return nil
		}
		return editJSON(i, func(m map[string]any) bool {
			b, _ := m[[]string{"incoming", "outgoing"}[arg%2]].(map[string]any)
			if b == nil {
				return false
			}
			if edit == "port:capacity-changed" {
				b["capacity"] = b["capacity"].(float64) + 1
			} else {
				b["elements"] = map[string]any{"a": 1}
			}
			return true
		})
	case "component:state-shape", "component:spec-hash", "component:scheduler-shape":
		i := pick(func(e entry) bool { return isComponent(e.Name) })
		if i < 0 {
			return nil
		}
		return editJSON(i, func(m map[string]any) bool {
			switch edit {
			case "component:state-shape":
				m["state"] = []any{"x"}
			case "component:spec-hash":
				m["spec_hash"] = strings.Repeat("0", 64)
			case "component:scheduler-shape":
				m["scheduler"] = "never"
			}
			return true
		})
	case "component:truncated-json":
		i := pick(func(e entry) bool { return isComponent(e.Name) })
		if i < 0 || len(out[i].Data) < 4 {
			return nil
		}
		out[i].Data = out[i].Data[:len(out[i].Data)/2]
		return out
	case "storage:truncated", "storage:capacity", "storage:unit-size", "storage:unit-count-huge", "storage:extra-bytes":
		i := pick(func(e entry) bool { return isStorage(e.Name) })
		if i < 0 {
			return nil
		}
		d := append([]byte{}, out[i].Data...)
		switch edit {
		case "storage:truncated":
			if len(d) <= 24 {
				d = d[:len(d)-3]
			} else {
				d = d[:24+(len(d)-24)/2]
			}
		case "storage:capacity":
			binary.LittleEndian.PutUint64(d[0:], binary.LittleEndian.Uint64(d[0:])+1)
		case "storage:unit-size":
			binary.LittleEndian.PutUint64(d[8:], binary.LittleEndian.Uint64(d[8:])*2)
		case "storage:unit-count-huge":
			binary.LittleEndian.PutUint64(d[16:], []uint64{1 << 20, 1 << 33, 1<<63 + 5, ^uint64(0)}[arg%4])
		case "storage:extra-bytes":
			d = append(d, 1, 2, 3)
		}
		out[i].Data = d
		return out
	case "idgen:kind", "idgen:shape":
		i := pick(named("IDGenerator"))
		if i < 0 {
			return nil
		}
		return editJSON(i, func(m map[string]any) bool {
			if edit == "idgen:kind" {
				m["kind"] = "parallel"
			} else {
				m["next_id"] = "many"
			}
			return true
		})
	case "pagetable:page-size", "pagetable:shape":
		i := pick(named("PT"))
		if i < 0 {
			return nil
		}
		return editJSON(i, func(m map[string]any) bool {
			if edit == "pagetable:page-size" {
				m["log2_page_size"] = m["log2_page_size"].(float64) + 1
			} else {
				m["tables"] = "none"
			}
			return true
		})
	case "archive:missing-entry":
		i := pick(func(e entry) bool { return e.Name != "build_id" })
		return append(out[:i], out[i+1:]...)
	case "archive:extra-entry":
		return append(out, entry{Name: "entities/Ghost", Data: []byte("{}\n")})
	case "archive:duplicate-entry":
		i := pick(func(e entry) bool { return e.Name != "build_id" })
		return append(out, out[i])
	case "archive:renamed-entry":
		i := pick(func(e entry) bool { return e.Name != "build_id" })
		out[i].Name += "X"
		return out
	case "archive:dir-entry":
		return append(out, entry{Name: "entities/", Type: tar.TypeDir})
	case "archive:symlink-entry":
		i := pick(func(e entry) bool { return e.Name != "build_id" })
		out[i].Type = tar.TypeSymlink
		return out
	case "archive:no-build-id":
		return out[1:]
	case "archive:empty-payload":
		i := pick(func(e entry) bool { return e.Name != "build_id" })
		out[i].Data = nil
		return out
	}
	return nil
}

// TestC07Crafted: structured edits of one payload / of the container.
func TestC07Crafted(t *testing.T) {
	s := kit.Begin(t, "C07", "crafted",
		"a valid generated archive is re-packed (public format: gzip'd tar, build_id entry, entities/<escaped name>) after one structured edit: unknown handler id, unknown event/message type tag, wrong JSON shapes, more buffered messages than the (unchanged) capacity, changed capacity field, zeroed spec hash, truncated JSON, truncated/shape-changed storage stream, huge storage unit count, ID generator kind, page-table page size, missing/extra/duplicate/renamed entries, directory/symlink tar entries, no build id, empty payload, non-gzip and truncated files. LoadCheckpoint must never panic; for the edits that make the archive malformed or reference something unknown it must return an error. Non-trivial: the edit was applicable and reached entity decoding (error not produced by gzip/tar framing or the entity-set check)")
	defer s.End()
	run := func(f kit.Failer, c c07cCase) {
		dir := c07Dir(t)
		defer os.RemoveAll(dir)
		src, _, _, err := makeSource(c.Spec, c.CutSel, dir)
		if err != nil {
			s.Fail(f, c, "save-error", "%v", err)
			return
		}
		crafted := filepath.Join(dir, "crafted.tar.gz")
		switch c.Edit {
		case "archive:not-gzip":
			_ = os.WriteFile(crafted, []byte("this is not a gzip stream at all, just text\n"), 0o644)
		case "archive:truncated-file":
			b, _ := os.ReadFile(src)
			_ = os.WriteFile(crafted, b[:len(b)*(1+c.Arg%3)/4], 0o644)
		default:
			es, err := readEntries(src)
			if err != nil {
				s.Fail(f, c, "harness-read-archive", "%v", err)
				return
			}
			edited := applyEdit(es, c.Edit, c.Target, c.Arg)
			if edited == nil {
				s.Note(c, false, "inapplicable:"+c.Edit)
				return
			}
			if err := writeEntries(crafted, edited); err != nil {
				s.Fail(f, c, "harness-write-archive", "%v", err)
				return
			}
		}
		lerr, pan, sig, msg := tryLoad(c.Spec, dir, crafted, c07BuildID)
		if pan {
			s.Fail(f, c, "crafted-panic:"+c.Edit+":"+sig, "edit %s: LoadCheckpoint panicked: %s", c.Edit, msg)
			return
		}
		if lerr == nil && mustReject[c.Edit] {
			s.Fail(f, c, "crafted-accepted:"+c.Edit, "edit %s produced a malformed/mismatching archive but LoadCheckpoint returned nil", c.Edit)
			return
		}
		deep := lerr != nil && (strings.Contains(lerr.Error(), "load entity") || strings.Contains(lerr.Error(), "checkpoint: load"))
		cl := "rejected"
		if lerr == nil {
			cl = "accepted(allowed)"
		}
		s.Note(c, deep, "edit:"+c.Edit, cl)
	}
	var c c07cCase
	if ok, err := kit.LoadReplay("C07", "crafted", &c); ok {
		if err != nil {
			t.Fatal(err)
		}
		run(t, c)
		return
	} else if kit.ReplayMode() {
		t.Skip()
	}
	kit.SetChecks(150, 800)
	rapid.Check(t, func(rt *rapid.T) {
		c := c07cCase{Spec: genC07Spec(rt), CutSel: rapid.IntRange(0, 1000).Draw(rt, "cutSel"),
			Edit: rapid.SampledFrom(c07Edits).Draw(rt, "edit"), Target: rapid.IntRange(0, 40).Draw(rt, "target"), Arg: rapid.IntRange(0, 7).Draw(rt, "arg")}
		run(rt, c)
	})
}

// ---- (d) arbitrary byte mutations ----

type byteMut struct {
	Kind string `json:"k"` // flip | set | truncate | dup | splice | insert
	Pos  int    `json:"p"` // per-mille position
	Len  int    `json:"l"`
	Val  byte   `json:"v"`
}

type c07dCase struct {
	Spec   memsys.AssemblySpec `json:"spec"`
	CutSel int                 `json:"cut_sel"`
	Layer  string              `json:"layer"`  // file | tar | payload
	Target int                 `json:"target"` // payload index for layer=payload
	Muts   []byteMut           `json:"muts"`
}

func mutateBytes(b []byte, ms []byteMut) []byte {
	out := append([]byte{}, b...)
	for _, m := range ms {
		if len(out) == 0 {
			break
		}
		pos := m.Pos * len(out) / 1001
		n := m.Len
		if pos+n > len(out) {
			n = len(out) - pos
		}
		switch m.Kind {
		case "flip":
			out[pos] ^= 1 << (m.Val % 8)
		case "set":
			for i := 0; i < n; i++ {
				out[pos+i] = m.Val
			}
		case "truncate":
			out = out[:pos]
		case "dup":
			out = append(out[:pos+n], append(append([]byte{}, out[pos:pos+n]...), out[pos+n:]...)...)
		case "splice":
			src := (int(m.Val) * len(out)) / 256
			if src+n > len(out) {
				n = len(out) - src
			}
			if pos+n > len(out) {
				n = len(out) - pos
			}
			copy(out[pos:pos+n], append([]byte{}, out[src:src+n]...))
		case "insert":
			ins := bytes.Repeat([]byte{m.Val}, m.Len)
			out = append(out[:pos], append(ins, out[pos:]...)...)
		}
	}
	return out
}

func gunzip(b []byte) ([]byte, error) {
	r, err := gzip.NewReader(bytes.NewReader(b))
	if err != nil {
		return nil, err
	}
	var buf bytes.Buffer
	_, err = buf.ReadFrom(r)
	return buf.Bytes(), err
}

func gz(b []byte) []byte {
	var buf bytes.Buffer
	w := gzip.NewWriter(&buf)
	_, _ = w.Write(b)
	_ = w.Close()
	return buf.Bytes()
}

// TestC07Bytes: arbitrary byte mutations at three layers never make
// LoadCheckpoint panic (a successful load of a benign mutation is allowed).
func TestC07Bytes(t *testing.T) {
	s := kit.Begin(t, "C07", "bytes",
		"1-4 byte-level mutations (bit flip, overwrite run, truncate, duplicate run, splice, insert) of a valid generated archive at one of three layers: the .tar.gz file, the uncompressed tar stream (re-gzipped), or one entity payload (re-packed). LoadCheckpoint must not panic; an error or a successful load are both accepted. Non-trivial: the mutated archive passed gzip/tar framing (the load error, if any, came from entity handling, or the load succeeded)")
	defer s.End()
	run := func(f kit.Failer, c c07dCase) {
		dir := c07Dir(t)
		defer os.RemoveAll(dir)
		src, _, _, err := makeSource(c.Spec, c.CutSel, dir)
		if err != nil {
			s.Fail(f, c, "save-error", "%v", err)
			return
		}
		raw, _ := os.ReadFile(src)
		mutated := filepath.Join(dir, "mutated.tar.gz")
		switch c.Layer {
		case "file":
			_ = os.WriteFile(mutated, mutateBytes(raw, c.Muts), 0o644)
		case "tar":
			tb, err := gunzip(raw)
			if err != nil {
				s.Fail(f, c, "harness-gunzip", "%v", err)
				return
			}
			_ = os.WriteFile(mutated, gz(mutateBytes(tb, c.Muts)), 0o644)
		default:
			es, err := readEntries(src)
			if err != nil || len(es) < 2 {
				s.Fail(f, c, "harness-read-archive", "%v", err)
				return
			}
			i := 1 + c.Target%(len(es)-1)
			es[i].Data = mutateBytes(es[i].Data, c.Muts)
			_ = writeEntries(mutated, es)
		}
		lerr, pan, sig, msg := tryLoad(c.Spec, dir, mutated, c07BuildID)
		if pan {
			s.Fail(f, c, "bytes-panic:"+sig, "layer %s: LoadCheckpoint panicked on mutated bytes: %s", c.Layer, msg)
			return
		}
		deep := lerr == nil || strings.Contains(lerr.Error(), "load entity") || strings.Contains(lerr.Error(), "checkpoint:")
		cl := "rejected"
		if lerr == nil {
			cl = "accepted"
		}
		s.Note(c, deep, "layer:"+c.Layer, cl)
	}
	var c c07dCase
	if ok, err := kit.LoadReplay("C07", "bytes", &c); ok {
		if err != nil {
			t.Fatal(err)
		}
		run(t, c)
		return
	} else if kit.ReplayMode() {
		t.Skip()
	}
	kit.SetChecks(200, 1000)
	rapid.Check(t, func(rt *rapid.T) {
		c := c07dCase{Spec: genC07Spec(rt), CutSel: rapid.IntRange(0, 1000).Draw(rt, "cutSel"),
			Layer: rapid.SampledFrom([]string{"file", "tar", "payload", "payload"}).Draw(rt, "layer"), Target: rapid.IntRange(0, 40).Draw(rt, "target")}
		n := rapid.IntRange(1, 4).Draw(rt, "nMuts")
		for i := 0; i < n; i++ {
			c.Muts = append(c.Muts, byteMut{Kind: rapid.SampledFrom([]string{"flip", "set", "truncate", "dup", "splice", "insert"}).Draw(rt, "kind"),
				Pos: rapid.IntRange(0, 1000).Draw(rt, "pos"), Len: rapid.IntRange(1, 24).Draw(rt, "len"), Val: rapid.Byte().Draw(rt, "val")})
		}
		run(rt, c)
	})
}
