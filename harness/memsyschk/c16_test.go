package memsyschk

import (
	"fmt"
	"testing"

	"pgregory.net/rapid"

	"verif/harness/kit"
	"verif/harness/memsys"
)

type c16Case struct {
	Spec    memsys.AssemblySpec `json:"spec"`
	Observe bool                `json:"observe"`
}

func shape(spec memsys.AssemblySpec) string {
	s := ""
	for _, l := range spec.Levels {
		k := l.Kind
		if k == "wt" {
			k = l.WritePolicy
		}
		s += k + ">"
	}
	return fmt.Sprintf("%s%s*%d", s, spec.Bottom.Kind, spec.Bottom.N)
}

func runC16(s *kit.Session, f kit.Failer, c c16Case) {
	var a *memsys.Assembly
	var st *memsys.Stats
	var dirFail *memsys.Failure
	ok, sig, msg := kit.Guard(func() { a, st, dirFail = memsys.Run(c.Spec, memsys.RunOpts{Observe: c.Observe}) })
	if !ok {
		s.Fail(f, c, sig, "%s", msg)
		return
	}
	if dirFail != nil {
		// C19's business, but a malformed directory makes the C16 verdict moot.
		s.Fail(f, c, "c19:"+dirFail.Sig, "%s", dirFail.Msg)
		return
	}
	if _, fail := memsys.CheckDrivers(a); fail != nil {
		sig := c16Sig(c, fail)
		s.Fail(f, c, sig, "%s [%s]", fail.Msg, shape(c.Spec))
		return
	}
	nt := c.Observe && st.MSHRCoalesce > 0 && st.MaskedWrites > 0 && st.Backpressure > 0 &&
		(st.DirtyEvictions > 0 || len(a.WB) == 0) && len(c.Spec.Levels) > 0
	classes := []string{"shape:" + shape(c.Spec)}
	if st.MSHRCoalesce > 0 {
		classes = append(classes, "mshr-coalesce")
	}
	if st.DirtyEvictions > 0 {
		classes = append(classes, "wb-eviction")
	}
	if st.Backpressure > 0 {
		classes = append(classes, "backpressure")
	}
	if st.LockedOrReading > 0 {
		classes = append(classes, "locked-or-reading-block")
	}
	if len(c.Spec.Drivers) > 1 {
		classes = append(classes, "multi-requester")
	}
	if c.Observe {
		classes = append(classes, "observed")
	}
	s.Note(c, nt, classes...)
}

const sigWTZeroLatency = "wt-zero-latency-hang"
const sigWTLineRace = "wt-same-line-read-write-race"

func hasWT(spec memsys.AssemblySpec) bool {
	for _, l := range spec.Levels {
		if l.Kind == "wt" {
			return true
		}
	}
	return false
}

func wtZeroLatency(spec memsys.AssemblySpec) bool {
	for _, l := range spec.Levels {
		if l.Kind == "wt" && (l.BankLatency == 0 || l.DirLatency == 0) {
			return true
		}
	}
	return false
}

// genOpts steers the generator away from listed findings by construction.
func genOpts(s *kit.Session, steered *int, o memsys.GenOpts) memsys.GenOpts {
	if _, known := s.IsKnown(sigWTZeroLatency); known {
		o.WTMinLatency = 1
		o.Steered = steered
	}
	if _, known := s.IsKnown(sigWTLineRace); known {
		o.WTLineExcl = true
		o.Steered = steered
	}
	return o
}

// shapeKinds names the component kinds involved, for failure signatures.
func shapeKinds(spec memsys.AssemblySpec) string {
	seen := map[string]bool{}
	out := ""
	for _, l := range spec.Levels {
		k := l.Kind
		if k == "wt" {
			k = l.WritePolicy
		}
		if !seen[k] {
			seen[k] = true
			out += k + "+"
		}
	}
	return out + spec.Bottom.Kind
}

func TestC16Hierarchy(t *testing.T) {
	s := kit.Begin(t, "C16", "hierarchy",
		"assemblies: 1-3 scripted requesters (own clock, 1-16 outstanding, port buffers 1-8) -> 0-3 levels of {ROB, write-around/write-evict/write-through cache, write-back cache} (1-8 sets, 1-4 ways, 16-128 B lines not shrinking downwards, 1-4 MSHRs, 1-2 banks, latencies 0-5, 1-4 req/cycle) -> 1-4 interleaved {ideal controller, simple banked memory} over one global storage; one shared or per-boundary direct connections; workload of up to 60 ops per requester over <=12 lines (full-line, word, arbitrary sub-range, masked writes; with >1 requester bytes are owned per 8-byte chunk so no two in-flight requests touch one byte). Oracle: flat reference memory applied at acknowledgement, exactly one response of the matching kind per request to its sender, nothing unanswered when Run returns. Non-trivial: observed run with an MSHR coalesce, a masked write, requester backpressure and (when a write-back cache is present) an eviction in flight")
	defer s.End()
	s.Assume("assemblies are linear chains (requesters -> level 0 -> ... -> bottom); trees with sibling caches sharing a lower level are not generated (DESIGN 11.3, seeded change C17-C)")
	var c c16Case
	if ok, err := kit.LoadReplay("C16", "hierarchy", &c); ok {
		if err != nil {
			t.Fatal(err)
		}
		runC16(s, t, c)
		return
	} else if kit.ReplayMode() {
		t.Skip()
	}
	kit.SetChecks(400, 4000)
	rapid.Check(t, func(rt *rapid.T) {
		steered := 0
		c := c16Case{Spec: memsys.GenAssembly(rt, genOpts(s, &steered, memsys.GenOpts{})), Observe: rapid.IntRange(0, 3).Draw(rt, "observe") != 0}
		if steered > 0 {
			s.Excluded(1)
		}
		runC16(s, rt, c)
	})
}

// TestC16Known re-runs the committed reproduction of every listed C16 finding.
// A reproduction that still fails with its listed signature prints
// KNOWN-FINDING; one that fails with an unlisted signature is a violation; one
// that passes (defect repaired) prints nothing.
func TestC16Known(t *testing.T) {
	if kit.ReplayMode() {
		t.Skip()
	}
	s := kit.Begin(t, "C16", "known", "committed reproductions of listed findings (known/C16/*.json)")
	defer s.End()
	for _, p := range kit.KnownReplays("C16") {
		var c c16Case
		r, err := kit.LoadReplayFile(p, &c)
		if err != nil {
			t.Fatal(err)
		}
		sig, msg := verdictC16(c)
		if sig == "" {
			continue
		}
		s.KnownStillFails(t, c, sig, fmt.Sprintf("%s reproduces: %s", r.Sig, firstLine(msg)))
	}
}

func firstLine(s string) string {
	for i := 0; i < len(s); i++ {
		if s[i] == '\n' {
			return s[:i]
		}
	}
	return s
}

// verdictC16 runs a case and returns the failure signature ("" = holds).
func verdictC16(c c16Case) (string, string) {
	var a *memsys.Assembly
	var dirFail *memsys.Failure
	ok, sig, msg := kit.Guard(func() { a, _, dirFail = memsys.Run(c.Spec, memsys.RunOpts{Observe: c.Observe}) })
	if !ok {
		return sig, msg
	}
	if dirFail != nil {
		return "c19:" + dirFail.Sig, dirFail.Msg
	}
	if _, fail := memsys.CheckDrivers(a); fail != nil {
		return c16Sig(c, fail), fail.Msg
	}
	return "", ""
}

func c16Sig(c c16Case, fail *memsys.Failure) string {
	sig := fail.Sig + "@" + shapeKinds(c.Spec)
	if fail.Sig == "unanswered" && wtZeroLatency(c.Spec) {
		sig = sigWTZeroLatency
	}
	if fail.Sig == "read-data" && c.Spec.WTOverReordering() {
		sig = sigWTLineRace
	}
	return sig
}
