package memsyschk

import (
	"bytes"
	"crypto/sha256"
	"encoding/hex"
	"encoding/json"
	"fmt"
	"io"
	"os"
	"path/filepath"
	"testing"

	"github.com/sarchlab/akita/v5/hooking"
	"github.com/sarchlab/akita/v5/messaging"
	"github.com/sarchlab/akita/v5/timing"
	"pgregory.net/rapid"

	"verif/harness/kit"
	"verif/harness/memsys"
)

type c03Case struct {
	Spec memsys.AssemblySpec `json:"spec"`
	// MidCtl: at MidCtl/16 of the run every level is reset through its control
	// port while traffic is in flight (the paths that walk transaction maps).
	MidReset int `json:"mid_reset"`
	// EndSteps: control requests issued one at a time after the workload
	// (Drain + address-filtered Flush of every write-back cache).
	EndSteps []memsys.CtlStep `json:"end_steps"`
}

type msgRec struct {
	w io.Writer
	e *timing.SerialEngine
}

func (m *msgRec) Func(ctx hooking.HookCtx) {
	if ctx.Pos != messaging.HookPosPortMsgSend {
		return
	}
	msg, ok := ctx.Item.(messaging.Msg)
	if !ok {
		return
	}
	b, _ := json.Marshal(msg)
	fmt.Fprintf(m.w, "%d %T %s\n", m.e.CurrentTime(), msg, b)
}

type fingerprint struct {
	Events   string
	Messages string
	Final    string
	NEvents  int
	firstEv  []string
	finalMap map[string]string
}

func runFingerprint(c c03Case) fingerprint {
	engine, a := newRun(c.Spec)
	rec := &memsys.TraceRecorder{}
	engine.AcceptHook(rec)
	mh := sha256.New()
	mr := &msgRec{w: mh, e: engine}
	for _, p := range a.AllPorts {
		p.AcceptHook(mr)
	}
	a.Kick()
	_ = engine.Run()
	if len(c.EndSteps) > 0 {
		a.Ctl.State.Steps = append(a.Ctl.State.Steps, c.EndSteps...)
		a.Ctl.TickLater()
		_ = engine.Run()
	}
	eh := sha256.New()
	var lines []string
	for _, e := range rec.Events {
		l := fmt.Sprintf("%d %s %s %v %s", e.Time, e.Handler, e.Type, e.Secondary, e.Body)
		eh.Write([]byte(l + "\n"))
		lines = append(lines, l)
	}
	fh := sha256.New()
	fm := map[string]string{}
	reg := a.Reg.(*memsys.Reg)
	save := func(kind string, list []any) {
		for _, x := range list {
			ck, ok := x.(ckpt)
			if !ok {
				continue
			}
			var b bytes.Buffer
			_ = ck.SaveCheckpoint(&b)
			name := x.(interface{ Name() string }).Name()
			fmt.Fprintf(fh, "%s %s\n", name, b.Bytes())
			s := sha256.Sum256(b.Bytes())
			fm[kind+":"+name] = hex.EncodeToString(s[:8])
		}
	}
	toAny := func(n int, get func(i int) any) []any {
		out := make([]any, n)
		for i := range out {
			out[i] = get(i)
		}
		return out
	}
	save("component", toAny(len(reg.Components), func(i int) any { return reg.Components[i] }))
	save("connection", toAny(len(reg.Connections), func(i int) any { return reg.Connections[i] }))
	save("port", toAny(len(reg.Ports), func(i int) any { return reg.Ports[i] }))
	save("resource", toAny(len(reg.Resources), func(i int) any { return reg.Resources[i] }))
	var eb bytes.Buffer
	_ = engine.SaveCheckpoint(&eb)
	fmt.Fprintf(fh, "engine %s next-id %d\n", eb.Bytes(), timing.GetIDGeneratorNextID())
	fm["engine"] = fmt.Sprintf("%x", sha256.Sum256(eb.Bytes()))[:16]
	fm["next-id"] = fmt.Sprint(timing.GetIDGeneratorNextID())
	return fingerprint{Events: hex.EncodeToString(eh.Sum(nil)), Messages: hex.EncodeToString(mh.Sum(nil)),
		Final: hex.EncodeToString(fh.Sum(nil)), NEvents: len(rec.Events), firstEv: lines, finalMap: fm}
}

func TestC03Hierarchy(t *testing.T) {
	s := kit.Begin(t, "C03", "hierarchy",
		"C16 assemblies (incl. DRAM bottoms, multiple requesters on one connection, optional page-table resource). Each case is executed R times in one process (R=3 quick, 6 thorough; timing.ResetIDGenerator before each build) and twice in fresh child processes through a real simulation.Simulation. Fingerprints: (a) every handled event in order with its JSON body incl. IDs, (b) every message sent on every port in order incl. IDs, (c) every entity's checkpoint payload + engine queue + ID counter at the end. In-process fingerprints must all be equal; the two child runs must have equal event traces and byte-identical final archives; the in-process event trace must equal the child trace (registration without tracer hooks). Go randomises map iteration per range statement, so order dependence shows between repeats. Non-trivial: >=50 events and (>=2 requesters or >=2 requests in flight)")
	defer s.End()
	run := func(f kit.Failer, c c03Case) { runC03(s, f, t, c) }
	var c c03Case
	if ok, err := kit.LoadReplay("C03", "hierarchy", &c); ok {
		if err != nil {
			t.Fatal(err)
		}
		run(t, c)
		return
	} else if kit.ReplayMode() {
		t.Skip()
	}
	kit.SetChecks(60, 150)
	rapid.Check(t, func(rt *rapid.T) {
		spec := memsys.GenAssembly(rt, memsys.GenOpts{MaxOps: 40, Bottoms: []string{"ideal", "banked", "dram"}})
		if rapid.Bool().Draw(rt, "pt") {
			spec.PTLog2, spec.PTPages = 12, rapid.IntRange(0, 6).Draw(rt, "ptPages")
		}
		c := c03Case{Spec: spec}
		// after the workload: drain every write-back cache and flush it with an
		// address filter naming several (written) lines - the control paths that
		// walk directories and transaction tables
		var written []uint64
		for _, d := range spec.Drivers {
			for _, op := range d.Script {
				if op.Write {
					written = append(written, op.Addr)
				}
			}
		}
		for i, l := range spec.Levels {
			if l.Kind != "wb" || len(written) == 0 || !rapid.Bool().Draw(rt, "endFlush") {
				continue
			}
			target := fmt.Sprintf("L%d.Control", i)
			n := rapid.IntRange(1, 6).Draw(rt, "nFlushAddr")
			var addrs []uint64
			for k := 0; k < n; k++ {
				addrs = append(addrs, written[rapid.IntRange(0, len(written)-1).Draw(rt, "flushAddr")])
			}
			c.EndSteps = append(c.EndSteps, memsys.CtlStep{Target: target, Cmd: 1}, memsys.CtlStep{Target: target, Cmd: 5, Addresses: addrs})
		}
		run(rt, c)
	})
}

func hasKind(spec memsys.AssemblySpec, k string) bool {
	for _, l := range spec.Levels {
		if l.Kind == k {
			return true
		}
	}
	return false
}

// TestC03Known re-runs the committed reproductions of listed C03 findings.
func TestC03Known(t *testing.T) {
	if kit.ReplayMode() {
		t.Skip()
	}
	s := kit.Begin(t, "C03", "known", "committed reproductions of listed findings (known/C03/*.json)")
	defer s.End()
	for _, p := range kit.KnownReplays("C03") {
		var c c03Case
		r, err := kit.LoadReplayFile(p, &c)
		if err != nil {
			t.Fatal(err)
		}
		rec := &kit.KnownRecorder{}
		probe := kit.BeginProbe(t, "C03", "known-probe")
		runC03(probe, rec, t, c)
		if rec.Failed {
			s.KnownStillFails(t, c, r.Sig, firstLine(rec.Msg))
		}
	}
}

func runC03(s *kit.Session, f kit.Failer, t testing.TB, c c03Case) {
	reps := kit.Scale(3, 6)
	var fps []fingerprint
	ok, sig, msg := kit.Guard(func() {
		for i := 0; i < reps; i++ {
			fps = append(fps, runFingerprint(c))
		}
	})
	if !ok {
		s.Fail(f, c, sig, "%s", msg)
		return
	}
	for i := 1; i < len(fps); i++ {
		if fps[i].Events != fps[0].Events {
			d := "lengths differ"
			for k := 0; k < len(fps[0].firstEv) && k < len(fps[i].firstEv); k++ {
				if fps[0].firstEv[k] != fps[i].firstEv[k] {
					d = fmt.Sprintf("event %d: run 0 %q, run %d %q", k, fps[0].firstEv[k], i, fps[i].firstEv[k])
					break
				}
			}
			s.Fail(f, c, "nondeterministic:events", "two in-process runs of the same case handled different event sequences: %s", d)
			return
		}
		if fps[i].Messages != fps[0].Messages {
			s.Fail(f, c, "nondeterministic:messages", "two in-process runs sent different message sequences (events equal)")
			return
		}
		if fps[i].Final != fps[0].Final {
			d := ""
			for k, v := range fps[0].finalMap {
				if fps[i].finalMap[k] != v {
					d = k
				}
			}
			s.Fail(f, c, "nondeterministic:final-state", "two in-process runs ended in different final states (entity %s)", d)
			return
		}
	}
	// different processes
	dir := workDir(t)
	defer os.RemoveAll(dir)
	var res [2]memsys.Result
	for i := 0; i < 2; i++ {
		r, err := memsys.RunChild(memsys.Job{Spec: c.Spec, EndSteps: c.EndSteps, NoTraceHooks: true, Dir: filepath.Join(dir, fmt.Sprint("p", i)), BuildID: "verif-c03",
			SaveFinal: filepath.Join(dir, fmt.Sprint("final", i, ".tar.gz"))})
		if err != nil {
			s.Fail(f, c, "harness-child", "%v", err)
			return
		}
		if r.Error != "" {
			s.Fail(f, c, "child-run:"+firstWord(r.Error), "%s", r.Error)
			return
		}
		res[i] = r
	}
	if sg, m := compareTraces(res[0].Events, res[1].Events); sg != "" {
		s.Fail(f, c, "nondeterministic-across-processes:"+sg, "two fresh processes ran the same case differently: %s", m)
		return
	}
	if res[0].FinalSHA != res[1].FinalSHA {
		s.Fail(f, c, "nondeterministic-across-processes:final-state", "final archives of two fresh processes differ: %s",
			diffArchives(filepath.Join(dir, "final0.tar.gz"), filepath.Join(dir, "final1.tar.gz")))
		return
	}
	// two traced (default registration: idle DBTracer hook on every
	// component) simulations one after the other in ONE fresh process
	rr, err := memsys.RunChild(memsys.Job{Spec: c.Spec, EndSteps: c.EndSteps, NoTraceHooks: false, Dir: filepath.Join(dir, "rep"), BuildID: "verif-c03", Repeat: 2})
	if err != nil {
		s.Fail(f, c, "harness-child", "%v", err)
		return
	}
	if rr.Error != "" {
		s.Fail(f, c, "child-run:"+firstWord(rr.Error), "%s", rr.Error)
		return
	}
	if len(rr.Repeats) == 2 {
		if sg, m := compareTraces(rr.Repeats[0], rr.Repeats[1]); sg != "" {
			sig := "same-process-second-simulation-differs:" + sg
			s.Fail(f, c, sig, "the second of two identical simulations run in one process (default Simulation registration, tracing never started) handled a different event sequence: %s", m)
			return
		}
	}
	// in-process vs child event trace
	if len(res[0].Events) != fps[0].NEvents {
		s.Fail(f, c, "nondeterministic-across-processes:length", "in-process run handled %d events, child process %d", fps[0].NEvents, len(res[0].Events))
		return
	}
	for k, e := range res[0].Events {
		l := fmt.Sprintf("%d %s %s %v %s", e.Time, e.Handler, e.Type, e.Secondary, e.Body)
		if l != fps[0].firstEv[k] {
			s.Fail(f, c, "nondeterministic-across-processes:in-process-vs-child", "event %d: in-process %q, child %q", k, fps[0].firstEv[k], l)
			return
		}
	}
	maxOut := 0
	for _, d := range c.Spec.Drivers {
		if d.MaxOut > maxOut {
			maxOut = d.MaxOut
		}
	}
	classes := []string{"bottom:" + c.Spec.Bottom.Kind}
	if len(c.Spec.Drivers) > 1 {
		classes = append(classes, "multi-requester")
	}
	s.AddExtra("events_compared", fps[0].NEvents*(reps+2))
	s.Note(c, fps[0].NEvents >= 50 && (len(c.Spec.Drivers) > 1 || maxOut > 1), classes...)
}
