package memsyschk

import (
	"testing"

	"github.com/sarchlab/akita/v5/mem/cache"
	"github.com/sarchlab/akita/v5/mem/vm"
	"pgregory.net/rapid"

	"verif/harness/kit"
	"verif/harness/memsys"
)

// TestC19Runs checks the directory invariants after every handled event of
// generated hierarchies that contain at least one cache (same generator as C16,
// observer always attached).
func TestC19Runs(t *testing.T) {
	s := kit.Begin(t, "C19", "runs",
		"C16's assembly+workload generator restricted to assemblies with >=1 cache; after every handled event the exported State.DirectoryState of every write-back and write-through cache is checked: each set's LRUOrder is a permutation of its ways, no two valid blocks share (PID,Tag), every valid block sits in set DirectorySetID(Tag), SetID/WayID fields equal the position, ReadCount >= 0. Non-trivial: some event left a block locked or with readers AND (an MSHR held >1 transaction or a write-back eviction was in flight)")
	defer s.End()
	run := func(f kit.Failer, c c16Case) {
		var a *memsys.Assembly
		var st *memsys.Stats
		var dirFail *memsys.Failure
		ok, sig, msg := kit.Guard(func() { a, st, dirFail = memsys.Run(c.Spec, memsys.RunOpts{Observe: true}) })
		if !ok {
			s.Fail(f, c, sig, "%s", msg)
			return
		}
		if dirFail != nil {
			s.Fail(f, c, dirFail.Sig, "%s [%s]", dirFail.Msg, shape(c.Spec))
			return
		}
		_ = a
		classes := []string{}
		if st.LockedOrReading > 0 {
			classes = append(classes, "locked-or-reading-block")
		}
		if st.MSHRCoalesce > 0 {
			classes = append(classes, "mshr-coalesce")
		}
		if st.DirtyEvictions > 0 {
			classes = append(classes, "wb-eviction")
		}
		s.AddExtra("events_checked", st.Events)
		s.Note(c, st.LockedOrReading > 0 && (st.MSHRCoalesce > 0 || st.DirtyEvictions > 0), classes...)
	}
	var c c16Case
	if ok, err := kit.LoadReplay("C19", "runs", &c); ok {
		if err != nil {
			t.Fatal(err)
		}
		run(t, c)
		return
	} else if kit.ReplayMode() {
		t.Skip()
	}
	kit.SetChecks(300, 3000)
	rapid.Check(t, func(rt *rapid.T) {
		steered := 0
		o := genOpts16(&steered)
		spec := memsys.GenAssembly(rt, o)
		if len(spec.Levels) == 0 || !hasCache(spec) {
			// cheap re-draw: put one cache on top
			spec = memsys.GenAssembly(rt, withCache(o))
		}
		run(rt, c16Case{Spec: spec, Observe: true})
	})
}

func hasCache(spec memsys.AssemblySpec) bool {
	for _, l := range spec.Levels {
		if l.Kind != "rob" {
			return true
		}
	}
	return false
}

func withCache(o memsys.GenOpts) memsys.GenOpts { o.NeedWB = true; return o }

// genOpts16 are C16's generator options without steering: C19 asserts nothing
// about data, so the listed C16 findings need no exclusion except the
// zero-latency hang, which would end runs early (fewer states), so write-through
// latencies start at 1 here.
func genOpts16(steered *int) memsys.GenOpts {
	return memsys.GenOpts{Steered: steered}
}

type dirOp struct {
	Kind string `json:"k"` // visit | lock | unlock | read | unread | fill | invalidate | victim | lookup
	Set  int    `json:"s"`
	Way  int    `json:"w"`
	Addr uint64 `json:"a"`
	PID  uint32 `json:"p"`
}

type c19DirCase struct {
	Sets  int     `json:"sets"`
	Ways  int     `json:"ways"`
	Block int     `json:"block"`
	Ops   []dirOp `json:"ops"`
}

// TestC19Victim drives the exported directory operations directly.
func TestC19Victim(t *testing.T) {
	s := kit.Begin(t, "C19", "victim",
		"generated histories on cache.DirectoryState (1-8 sets, 1-4 ways): DirectoryVisit, lock/unlock, reader count up/down, fill of the way chosen by DirectoryFindVictim, invalidate, lookup. After every op LRUOrder is a permutation; DirectoryFindVictim returns a way of set DirectorySetID(addr) that is neither locked nor being read unless every way of that set is busy (documented fallback: the LRU way), and among free ways the least recently visited one; DirectoryLookup finds exactly the valid block with that (PID,Tag). Non-trivial: a victim was requested from a set with >=1 locked and >=1 being-read way and >=1 free way")
	defer s.End()
	run := func(f kit.Failer, c c19DirCase) {
		var ds cache.DirectoryState
		cache.DirectoryReset(&ds, c.Sets, c.Ways, c.Block)
		// model of recency per set: order of ways, least recent first
		rec := make([][]int, c.Sets)
		for i := range rec {
			for w := 0; w < c.Ways; w++ {
				rec[i] = append(rec[i], w)
			}
		}
		touch := func(set, way int) {
			r := rec[set]
			for i, w := range r {
				if w == way {
					r = append(r[:i], r[i+1:]...)
					break
				}
			}
			rec[set] = append(r, way)
		}
		nt := false
		for i, op := range c.Ops {
			var fail *memsys.Failure
			ok, sig, msg := kit.Guard(func() {
				switch op.Kind {
				case "visit":
					cache.DirectoryVisit(&ds, op.Set, op.Way)
					touch(op.Set, op.Way)
				case "lock":
					ds.Sets[op.Set].Blocks[op.Way].IsLocked = true
				case "unlock":
					ds.Sets[op.Set].Blocks[op.Way].IsLocked = false
				case "read":
					ds.Sets[op.Set].Blocks[op.Way].ReadCount++
				case "unread":
					if ds.Sets[op.Set].Blocks[op.Way].ReadCount > 0 {
						ds.Sets[op.Set].Blocks[op.Way].ReadCount--
					}
				case "invalidate":
					ds.Sets[op.Set].Blocks[op.Way].IsValid = false
				case "victim", "fill":
					line := op.Addr / uint64(c.Block) * uint64(c.Block)
					setID, wayID := cache.DirectoryFindVictim(&ds, c.Sets, c.Block, line)
					want := cache.DirectorySetID(line, c.Block, c.Sets)
					if setID != want {
						fail = &memsys.Failure{Sig: "victim-wrong-set", Msg: "victim set differs from DirectorySetID"}
						return
					}
					set := &ds.Sets[setID]
					locked, reading, free := 0, 0, 0
					firstFree := -1
					for _, w := range rec[setID] {
						b := &set.Blocks[w]
						switch {
						case b.IsLocked:
							locked++
						case b.ReadCount > 0:
							reading++
						default:
							if firstFree < 0 {
								firstFree = w
							}
							free++
						}
					}
					if locked > 0 && reading > 0 && free > 0 {
						nt = true
					}
					b := &set.Blocks[wayID]
					if free > 0 {
						if b.IsLocked || b.ReadCount > 0 {
							fail = &memsys.Failure{Sig: "victim-busy-block", Msg: "DirectoryFindVictim chose a locked/being-read way while a free way exists"}
							return
						}
						if wayID != firstFree {
							fail = &memsys.Failure{Sig: "victim-not-lru", Msg: "DirectoryFindVictim did not choose the least recently visited free way"}
							return
						}
					} else if wayID != rec[setID][0] {
						fail = &memsys.Failure{Sig: "victim-fallback", Msg: "all ways busy: documented fallback is the LRU way"}
						return
					}
					if op.Kind == "fill" && free > 0 {
						// a second valid block for the same (pid, tag) would be the caller's bug: only fill when absent
						if _, _, found := cache.DirectoryLookup(&ds, c.Sets, c.Block, vm.PID(op.PID), line); !found {
							b.Tag, b.PID, b.IsValid = line, op.PID, true
							cache.DirectoryVisit(&ds, setID, wayID)
							touch(setID, wayID)
						}
					}
				case "lookup":
					line := op.Addr / uint64(c.Block) * uint64(c.Block)
					setID, wayID, found := cache.DirectoryLookup(&ds, c.Sets, c.Block, vm.PID(op.PID), line)
					wantSet := cache.DirectorySetID(line, c.Block, c.Sets)
					wantWay := -1
					for w, b := range ds.Sets[wantSet].Blocks {
						if b.IsValid && b.Tag == line && b.PID == op.PID {
							wantWay = w
						}
					}
					if found != (wantWay >= 0) || (found && (setID != wantSet || wayID != wantWay)) {
						fail = &memsys.Failure{Sig: "lookup-mismatch", Msg: "DirectoryLookup disagrees with a scan of the set"}
					}
				}
			})
			if !ok {
				s.Fail(f, c, sig, "op %d %+v: %s", i, op, msg)
				return
			}
			if fail != nil {
				s.Fail(f, c, fail.Sig, "op %d %+v: %s", i, op, fail.Msg)
				return
			}
			if df := memsys.CheckDirectory("dir", &ds, c.Sets, c.Ways, c.Block); df != nil {
				s.Fail(f, c, df.Sig, "after op %d %+v: %s", i, op, df.Msg)
				return
			}
			for si := range rec {
				for k, w := range rec[si] {
					if ds.Sets[si].LRUOrder[k] != w {
						s.Fail(f, c, "lru-order-model", "after op %d %+v: set %d LRUOrder %v, model %v", i, op, si, ds.Sets[si].LRUOrder, rec[si])
						return
					}
				}
			}
		}
		s.Note(c, nt)
	}
	var c c19DirCase
	if ok, err := kit.LoadReplay("C19", "victim", &c); ok {
		if err != nil {
			t.Fatal(err)
		}
		run(t, c)
		return
	} else if kit.ReplayMode() {
		t.Skip()
	}
	kit.SetChecks(20_000, 200_000)
	rapid.Check(t, func(rt *rapid.T) {
		c := c19DirCase{Sets: rapid.IntRange(1, 8).Draw(rt, "sets"), Ways: rapid.IntRange(1, 4).Draw(rt, "ways"),
			Block: rapid.SampledFrom([]int{16, 32, 64, 128}).Draw(rt, "block")}
		n := rapid.IntRange(1, 60).Draw(rt, "n")
		kinds := []string{"visit", "lock", "unlock", "read", "unread", "fill", "fill", "invalidate", "victim", "victim", "lookup"}
		for i := 0; i < n; i++ {
			op := dirOp{Kind: rapid.SampledFrom(kinds).Draw(rt, "kind"), Set: rapid.IntRange(0, c.Sets-1).Draw(rt, "set"),
				Way: rapid.IntRange(0, c.Ways-1).Draw(rt, "way"), Addr: uint64(rapid.IntRange(0, 40).Draw(rt, "line")*c.Block + rapid.IntRange(0, c.Block-1).Draw(rt, "off")),
				PID: uint32(rapid.IntRange(0, 2).Draw(rt, "pid"))}
			c.Ops = append(c.Ops, op)
		}
		run(rt, c)
	})
}
