package memsyschk

import (
	"fmt"
	"os"
	"testing"

	"pgregory.net/rapid"

	"verif/harness/kit"
	"verif/harness/memsys"
)

type c33Case struct {
	Spec memsys.AssemblySpec `json:"spec"`
	Sets []memsys.Observers  `json:"sets"`
	// ResetAt > 0: every bottom and level is Reset through its control port
	// (bottom-up, one acknowledged Reset at a time) at ResetAt/16 of the
	// unobserved, uninterrupted run's length, with traffic in flight.
	ResetAt int `json:"reset_at,omitempty"`
}

func obsName(o memsys.Observers) string {
	s := ""
	add := func(b bool, n string) {
		if b {
			s += n + "+"
		}
	}
	add(o.Sim, "sim")
	add(o.VisTracing, "vis")
	add(o.RecTracer, "rec")
	add(o.Aggregate, "agg")
	add(o.EngineHook, "engine-hook")
	add(o.PortHooks, "port-hooks")
	add(o.BufHooks, "buffer-hooks")
	if s == "" {
		return "none"
	}
	return s[:len(s)-1]
}

func TestC33Observers(t *testing.T) {
	s := kit.Begin(t, "C33", "observers",
		"C16 assemblies; the same case is run with no observer at all (capturing registrar, NumHooks()==0 fast paths everywhere) and with 3 (quick) drawn observer sets out of: real simulation.Simulation (idle DBTracer hook on every component, incoming/outgoing port buffer tracers), DBTracer recording into SQLite from the start, a recording tracer on every component and connection, total/average/busy/tag-count tracers, an engine hook, a hook on every port, a hook on every queueing.Buffer inside the State of every level and bottom. In 1 of 3 cases every bottom and level is additionally Reset through its control port (bottom-up, one acknowledged Reset at a time) at k/16 of the unobserved run's length, so flush/reset paths (Buffer.Clear, port drains, task teardown) run with traffic in flight in both legs. Outcome = per requester the ordered (simulated time, request index, response kind, data) list + end time + control acknowledgement times + final backing bytes of every written line; generated IDs never enter the comparison. Every observed outcome must equal the unobserved one. Non-trivial: some set traced >=100 tasks and the assembly has a cache and requester backpressure")
	defer s.End()
	run := func(f kit.Failer, c c33Case) {
		dir := workDir(t)
		defer os.RemoveAll(dir)
		var base memsys.Outcome
		ctlAt := uint64(0)
		if c.ResetAt > 0 {
			var plain memsys.Outcome
			ok, sig, msg := kit.Guard(func() { plain, _ = memsys.RunObserved(c.Spec, memsys.Observers{}, dir) })
			if !ok {
				s.Fail(f, c, sig, "%s", msg)
				return
			}
			ctlAt = plain.EndTime * uint64(c.ResetAt) / 16
		}
		ok, sig, msg := kit.Guard(func() { base, _ = memsys.RunObservedCtl(c.Spec, memsys.Observers{}, dir, ctlAt, nil) })
		if !ok {
			s.Fail(f, c, sig, "%s", msg)
			return
		}
		maxTasks := 0
		for _, o := range c.Sets {
			var out memsys.Outcome
			ok, sig, msg := kit.Guard(func() { out, _ = memsys.RunObservedCtl(c.Spec, o, dir, ctlAt, nil) })
			if !ok {
				s.Fail(f, c, "observed-run-"+sig, "observers %s: %s", obsName(o), msg)
				return
			}
			if d := memsys.DiffOutcome(base, out); d != "" {
				s.Fail(f, c, "outcome-changed-by:"+obsName(o), "attaching %s changed the outcome: %s [%s]", obsName(o), d, shape(c.Spec))
				return
			}
			if out.Tasks > maxTasks {
				maxTasks = out.Tasks
			}
		}
		hasCache := hasCache(c.Spec)
		classes := []string{}
		for _, o := range c.Sets {
			classes = append(classes, "set:"+obsName(o))
		}
		if base.Err != "" {
			classes = append(classes, "base-run-incomplete")
		}
		if ctlAt > 0 {
			classes = append(classes, "mid-run-reset")
			if base.Err != "" {
				classes = append(classes, "mid-run-reset-dropped-requests")
			}
			for _, o := range c.Sets {
				if o.BufHooks {
					classes = append(classes, "mid-run-reset+buffer-hooks")
					break
				}
			}
		}
		s.Note(c, maxTasks >= 100 && hasCache, classes...)
	}
	var c c33Case
	if ok, err := kit.LoadReplay("C33", "observers", &c); ok {
		if err != nil {
			t.Fatal(err)
		}
		run(t, c)
		return
	} else if kit.ReplayMode() {
		t.Skip()
	}
	kit.SetChecks(100, 600)
	rapid.Check(t, func(rt *rapid.T) {
		spec := memsys.GenAssembly(rt, memsys.GenOpts{Bottoms: []string{"ideal", "banked", "dram"}})
		c := c33Case{Spec: spec}
		if rapid.IntRange(0, 2).Draw(rt, "reset") == 0 {
			c.ResetAt = rapid.IntRange(1, 15).Draw(rt, "resetAt")
		}
		n := kit.Scale(3, 5)
		for i := 0; i < n; i++ {
			o := memsys.Observers{}
			switch rapid.IntRange(0, 7).Draw(rt, "kind") {
			case 0:
				o.Sim = true
			case 1:
				o.Sim, o.VisTracing = true, true
			case 2:
				o.RecTracer = true
			case 3:
				o.Aggregate = true
			case 4:
				o.EngineHook = true
			case 5:
				o.PortHooks = true
			case 6:
				o.BufHooks = true
			default:
				o = memsys.Observers{Sim: rapid.Bool().Draw(rt, "sim"), RecTracer: rapid.Bool().Draw(rt, "rec"), Aggregate: rapid.Bool().Draw(rt, "agg"),
					EngineHook: rapid.Bool().Draw(rt, "eh"), PortHooks: rapid.Bool().Draw(rt, "ph"), BufHooks: rapid.Bool().Draw(rt, "bh")}
				if o.Sim {
					o.VisTracing = rapid.Bool().Draw(rt, "vis")
				}
			}
			c.Sets = append(c.Sets, o)
		}
		run(rt, c)
	})
}

var _ = fmt.Sprint
