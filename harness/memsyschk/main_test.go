package memsyschk

import (
	"os"
	"testing"

	"verif/harness/memsys"
)

func TestMain(m *testing.M) {
	memsys.ChildMain() // exits when this process is a child worker
	os.Exit(m.Run())
}
