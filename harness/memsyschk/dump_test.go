package memsyschk

import (
	"fmt"
	"os"
	"path/filepath"
	"sort"
	"testing"

	"github.com/sarchlab/akita/v5/timing"

	"verif/harness/memsys"
)

func TestDumpArchive(t *testing.T) {
	if os.Getenv("VERIF_DUMP") == "" {
		t.Skip()
	}
	spec := memsys.AssemblySpec{Capacity: 1 << 20, ConnMode: "single", ConnFreq: 1e9,
		Drivers: []memsys.DriverCfg{{Freq: 1e9, MaxOut: 4, PortBuf: 2, RspPerTick: 1, Script: []memsys.Op{{Write: true, Addr: 0, Size: 4, Data: []byte{1, 2, 3, 4}}, {Addr: 64, Size: 8}, {Addr: 0, Size: 4}}}},
		Levels:  []memsys.LevelSpec{{Kind: "wb", Freq: 1e9, NumReqPerCycle: 2, Log2Block: 6, Ways: 2, Sets: 2, Banks: 1, MSHR: 2, BankLatency: 2, DirLatency: 1, WriteBufCap: 4, MaxFetch: 4, MaxEvict: 4, PortBuf: 2}},
		Bottom:  memsys.BottomSpec{Kind: "ideal", N: 1, Interleave: 64, Freq: 1e9, PortBuf: 2, Latency: 3, Width: 1}}
	dir := t.TempDir()
	sim, a := memsys.BuildSim(spec, dir, true)
	a.Kick()
	e := sim.GetEngine().(*timing.SerialEngine)
	_ = e.RunUntil(6000)
	p := filepath.Join(dir, "ck.tar.gz")
	if err := sim.SaveCheckpoint(p, "x"); err != nil {
		t.Fatal(err)
	}
	m, _ := readArchive(p)
	var names []string
	for n := range m {
		names = append(names, n)
	}
	sort.Strings(names)
	for _, n := range names {
		s := string(m[n])
		if len(s) > 700 {
			s = s[:700] + "…"
		}
		fmt.Printf("== %s (%d)\n%s\n", n, len(m[n]), s)
	}
}
