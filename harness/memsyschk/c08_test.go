package memsyschk

import (
	"bytes"
	"fmt"
	"io"
	"reflect"
	"testing"

	"github.com/sarchlab/akita/v5/timing"
	"pgregory.net/rapid"

	"verif/harness/kit"
	"verif/harness/memsys"
)

type ckpt interface {
	SaveCheckpoint(w io.Writer) error
	LoadCheckpoint(r io.Reader) error
}

type c08Case struct {
	Spec   memsys.AssemblySpec `json:"spec"`
	CutSel int                 `json:"cut_sel"`
	// UsedTarget >= 0: the entities are loaded into an assembly that has itself
	// run to UsedTarget/1000 of the event list (a non-fresh target, as in a
	// rollback); -1: freshly built target.
	UsedTarget int `json:"used_target"`
}

// stateOf returns the exported State field of a modeling.Component value.
func stateOf(c any) (reflect.Value, bool) {
	v := reflect.ValueOf(c)
	for v.Kind() == reflect.Ptr || v.Kind() == reflect.Interface {
		v = v.Elem()
	}
	if v.Kind() != reflect.Struct {
		return reflect.Value{}, false
	}
	f := v.FieldByName("State")
	return f, f.IsValid()
}

// firstDiff names the first path at which two values differ (DeepEqual
// semantics), so a nil-vs-empty divergence can be told from a changed value.
func firstDiff(a, b reflect.Value, path string) string {
	if a.Type() != b.Type() {
		return fmt.Sprintf("%s: type %s vs %s", path, a.Type(), b.Type())
	}
	switch a.Kind() {
	case reflect.Struct:
		for i := 0; i < a.NumField(); i++ {
			if d := firstDiff(a.Field(i), b.Field(i), path+"."+a.Type().Field(i).Name); d != "" {
				return d
			}
		}
	case reflect.Slice:
		if a.IsNil() != b.IsNil() {
			return fmt.Sprintf("%s: nil-vs-empty (saved nil=%v len=%d, restored nil=%v len=%d)", path, a.IsNil(), a.Len(), b.IsNil(), b.Len())
		}
		fallthrough
	case reflect.Array:
		if a.Len() != b.Len() {
			return fmt.Sprintf("%s: len %d vs %d", path, a.Len(), b.Len())
		}
		for i := 0; i < a.Len(); i++ {
			if d := firstDiff(a.Index(i), b.Index(i), fmt.Sprintf("%s[%d]", path, i)); d != "" {
				return d
			}
		}
	case reflect.Map:
		if a.IsNil() != b.IsNil() {
			return fmt.Sprintf("%s: nil-vs-empty map (saved nil=%v, restored nil=%v)", path, a.IsNil(), b.IsNil())
		}
		if a.Len() != b.Len() {
			return fmt.Sprintf("%s: map len %d vs %d", path, a.Len(), b.Len())
		}
		for _, k := range a.MapKeys() {
			bv := b.MapIndex(k)
			if !bv.IsValid() {
				return fmt.Sprintf("%s[%v]: missing after restore", path, k)
			}
			if d := firstDiff(a.MapIndex(k), bv, fmt.Sprintf("%s[%v]", path, k)); d != "" {
				return d
			}
		}
	case reflect.Interface, reflect.Ptr:
		if a.IsNil() != b.IsNil() {
			return path + ": nil-ness differs"
		}
		if !a.IsNil() {
			return firstDiff(a.Elem(), b.Elem(), path)
		}
	default:
		if !reflect.DeepEqual(valueInterface(a), valueInterface(b)) {
			return fmt.Sprintf("%s: %v vs %v", path, valueInterface(a), valueInterface(b))
		}
	}
	return ""
}

func valueInterface(v reflect.Value) any {
	switch v.Kind() {
	case reflect.Bool:
		return v.Bool()
	case reflect.Int, reflect.Int8, reflect.Int16, reflect.Int32, reflect.Int64:
		return v.Int()
	case reflect.Uint, reflect.Uint8, reflect.Uint16, reflect.Uint32, reflect.Uint64, reflect.Uintptr:
		return v.Uint()
	case reflect.Float32, reflect.Float64:
		return v.Float()
	case reflect.String:
		return v.String()
	}
	return fmt.Sprint(v)
}

// TestC08States: states reached by workloads round-trip through each library
// component's own checkpoint into a rebuilt component.
func TestC08States(t *testing.T) {
	s := kit.Begin(t, "C08", "workload-states",
		"C16 assemblies run to a cut drawn from their own event times; every library component (write-back and write-through caches, ROB, ideal controller, banked memory, DRAM, direct connections) and every port is saved with its own SaveCheckpoint and loaded into the corresponding entity of an identical assembly that is either freshly built or has itself run to another point of the workload (a non-fresh target, as in a rollback); the restored State must equal the saved one (reflect.DeepEqual, i.e. same concrete type, nil distinguished from empty) and re-saving must give identical bytes. Embedded buffers, pipelines and MSHR/directory state are part of those States. Non-trivial: at the cut some component state holds a non-empty buffer/pipeline/transaction list and some port holds a message")
	defer s.End()
	run := func(f kit.Failer, c c08Case) {
		var fail *memsys.Failure
		nonEmptyPorts, busyStates := 0, 0
		ok, sig, msg := kit.Guard(func() {
			// event times
			e0, a0 := newRun(c.Spec)
			rec := &memsys.TraceRecorder{}
			e0.AcceptHook(rec)
			a0.Kick()
			_ = e0.Run()
			cut := uint64(0)
			if n := len(rec.Events); n > 0 {
				cut = rec.Events[c.CutSel*n/1001].Time
			}
			e1, a1 := newRun(c.Spec)
			a1.Kick()
			_ = e1.RunUntil(timing.VTimeInPicoSec(cut))
			reg1 := a1.Reg.(*memsys.Reg)
			// a second, identical build (same process: IDs restart, irrelevant here)
			e2 := timing.NewSerialEngine()
			reg2 := memsys.NewReg(e2)
			a2 := memsys.Build(reg2, c.Spec)
			if c.UsedTarget >= 0 {
				// make the target non-fresh: run it to another point of the same workload
				ids := timing.GetIDGeneratorNextID()
				a2.Kick()
				cut2 := uint64(0)
				if n := len(rec.Events); n > 0 {
					cut2 = rec.Events[c.UsedTarget*n/1001].Time
				}
				_ = e2.RunUntil(timing.VTimeInPicoSec(cut2))
				timing.SetIDGeneratorNextID(ids)
			}
			pairs := func(x, y []any) {
				for i := range x {
					src, okS := x[i].(ckpt)
					dst, okD := y[i].(ckpt)
					if !okS || !okD {
						continue
					}
					name := fmt.Sprintf("%T", x[i])
					if n, ok := x[i].(interface{ Name() string }); ok {
						name = n.Name()
					}
					var b1 bytes.Buffer
					if err := src.SaveCheckpoint(&b1); err != nil {
						fail = &memsys.Failure{Sig: "save-error:" + kindOf(name), Msg: name + ": " + err.Error()}
						return
					}
					if err := dst.LoadCheckpoint(bytes.NewReader(b1.Bytes())); err != nil {
						fail = &memsys.Failure{Sig: "load-error:" + kindOf(name), Msg: name + ": " + err.Error()}
						return
					}
					var b2 bytes.Buffer
					if err := dst.SaveCheckpoint(&b2); err != nil {
						fail = &memsys.Failure{Sig: "resave-error:" + kindOf(name), Msg: name + ": " + err.Error()}
						return
					}
					sv, ok1 := stateOf(x[i])
					dv, ok2 := stateOf(y[i])
					if ok1 && ok2 {
						if d := firstDiff(sv, dv, "State"); d != "" {
							k := "state-altered:"
							if bytes.Contains([]byte(d), []byte("nil-vs-empty")) {
								k = "state-nil-vs-empty:"
							}
							fail = &memsys.Failure{Sig: k + kindOf(name) + ":" + pathOnly(d), Msg: fmt.Sprintf("%s at t=%d: %s", name, cut, d)}
							return
						}
						if b1.Len() > 600 {
							busyStates++
						}
					}
					if !bytes.Equal(b1.Bytes(), b2.Bytes()) {
						fail = &memsys.Failure{Sig: "reencode-differs:" + kindOf(name), Msg: fmt.Sprintf("%s: re-saved checkpoint differs from the saved one (%d vs %d bytes)", name, b1.Len(), b2.Len())}
						return
					}
				}
			}
			toAny := func(n int, get func(i int) any) []any {
				out := make([]any, n)
				for i := range out {
					out[i] = get(i)
				}
				return out
			}
			pairs(toAny(len(reg1.Components), func(i int) any { return reg1.Components[i] }), toAny(len(reg2.Components), func(i int) any { return reg2.Components[i] }))
			if fail != nil {
				return
			}
			pairs(toAny(len(reg1.Connections), func(i int) any { return reg1.Connections[i] }), toAny(len(reg2.Connections), func(i int) any { return reg2.Connections[i] }))
			if fail != nil {
				return
			}
			pairs(toAny(len(reg1.Ports), func(i int) any { return reg1.Ports[i] }), toAny(len(reg2.Ports), func(i int) any { return reg2.Ports[i] }))
			if fail != nil {
				return
			}
			pairs(toAny(len(reg1.Resources), func(i int) any { return reg1.Resources[i] }), toAny(len(reg2.Resources), func(i int) any { return reg2.Resources[i] }))
			for _, p := range a1.AllPorts {
				if p.NumIncoming()+p.NumOutgoing() > 0 {
					nonEmptyPorts++
				}
			}
		})
		if !ok {
			s.Fail(f, c, sig, "%s", msg)
			return
		}
		if fail != nil {
			s.Fail(f, c, fail.Sig, "%s", fail.Msg)
			return
		}
		classes := []string{"bottom:" + c.Spec.Bottom.Kind}
		for _, l := range c.Spec.Levels {
			classes = append(classes, "has:"+l.Kind)
		}
		if c.UsedTarget >= 0 {
			classes = append(classes, "loaded-into-used-target")
		}
		s.Note(c, nonEmptyPorts > 0 && busyStates > 0, classes...)
	}
	var c c08Case
	if ok, err := kit.LoadReplay("C08", "workload-states", &c); ok {
		if err != nil {
			t.Fatal(err)
		}
		run(t, c)
		return
	} else if kit.ReplayMode() {
		t.Skip()
	}
	kit.SetChecks(300, 2000)
	rapid.Check(t, func(rt *rapid.T) {
		spec := memsys.GenAssembly(rt, memsys.GenOpts{MaxOps: 40, Bottoms: []string{"ideal", "banked", "dram"}})
		c := c08Case{Spec: spec, CutSel: rapid.IntRange(0, 1000).Draw(rt, "cutSel"), UsedTarget: -1}
		if rapid.Bool().Draw(rt, "usedTarget") {
			c.UsedTarget = rapid.IntRange(0, 1000).Draw(rt, "targetCut")
		}
		run(rt, c)
	})
}

func kindOf(name string) string {
	switch {
	case len(name) >= 3 && name[:3] == "Drv", len(name) >= 3 && name[:3] == "Ctl" && !bytes.Contains([]byte(name), []byte("Conn")):
		return "harness"
	case bytes.Contains([]byte(name), []byte("Conn")):
		return "directconnection"
	case bytes.Contains([]byte(name), []byte(".Storage")):
		return "storage"
	case bytes.Contains([]byte(name), []byte(".")):
		return "port"
	case len(name) >= 3 && name[:3] == "Mem":
		return "bottom"
	}
	return "level"
}

func pathOnly(d string) string {
	for i := 0; i < len(d); i++ {
		if d[i] == ':' {
			d = d[:i]
			break
		}
	}
	// strip indices
	out := make([]byte, 0, len(d))
	skip := false
	for i := 0; i < len(d); i++ {
		switch {
		case d[i] == '[':
			skip = true
		case d[i] == ']':
			skip = false
		case !skip:
			out = append(out, d[i])
		}
	}
	return string(out)
}
