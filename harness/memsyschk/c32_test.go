package memsyschk

import (
	"fmt"
	"os"
	"path/filepath"
	"strings"
	"testing"

	"github.com/sarchlab/akita/v5/hooking"
	"github.com/sarchlab/akita/v5/mem/memcontrolprotocol"
	"github.com/sarchlab/akita/v5/messaging"
	"github.com/sarchlab/akita/v5/timing"
	"pgregory.net/rapid"

	"verif/harness/kit"
	"verif/harness/memsys"
)

type c32Case struct {
	Spec memsys.AssemblySpec `json:"spec"`
	// ResetAt > 0: at ResetAt/16 of the uninterrupted run's length every level
	// and bottom receives Reset through its control port (traffic in flight).
	ResetAt int `json:"reset_at"`
}

// resetWatch records when a component acknowledges a Reset (the instant it
// handled it).
type resetWatch struct {
	name   string
	engine *timing.SerialEngine
	out    map[string]map[uint64]bool
}

func (w *resetWatch) Func(ctx hooking.HookCtx) {
	if ctx.Pos != messaging.HookPosPortMsgSend {
		return
	}
	if rsp, ok := ctx.Item.(memcontrolprotocol.Rsp); ok && rsp.Command == memcontrolprotocol.CmdReset {
		if w.out[w.name] == nil {
			w.out[w.name] = map[uint64]bool{}
		}
		w.out[w.name][uint64(w.engine.CurrentTime())] = true
	}
}

type taskInfo struct {
	start, end       uint64
	nStart, nEnd     int
	kind, what, loc  string
	startSeq, endSeq int
}

// judgeTrace checks the well-formedness of a recorded trace at quiescence.
func judgeTrace(evs []memsys.TraceEv, resets map[string]map[uint64]bool) (sig, msg string, kinds map[string]bool, resetEnded int) {
	// onReset reports whether the component hosting loc handled a Reset at time t.
	onReset := func(loc string, t uint64) bool {
		for comp, times := range resets {
			if times[t] && (loc == comp || strings.HasPrefix(loc, comp+".")) {
				return true
			}
		}
		return false
	}
	tasks := map[uint64]*taskInfo{}
	kinds = map[string]bool{}
	locKind := map[string]string{}
	for _, e := range evs {
		switch e.Op {
		case "start":
			ti := tasks[e.ID]
			if ti == nil {
				ti = &taskInfo{}
				tasks[e.ID] = ti
			}
			ti.nStart++
			if ti.nStart > 1 {
				return "task-started-twice:" + e.Kind, fmt.Sprintf("task %d (%s %s at %s) started twice (t=%d and t=%d)", e.ID, e.Kind, e.What, e.Location, ti.start, e.Time), kinds, 0
			}
			ti.start, ti.kind, ti.what, ti.loc, ti.startSeq = e.Time, e.Kind, e.What, e.Location, e.Seq
			kinds[e.Kind] = true
			if k, ok := locKind[e.Location]; ok && k != e.Kind {
				return "location-two-kinds", fmt.Sprintf("location %q hosts tasks of kind %q and %q", e.Location, k, e.Kind), kinds, 0
			}
			locKind[e.Location] = e.Kind
		case "end":
			ti := tasks[e.ID]
			if ti == nil || ti.nStart == 0 {
				// ending a task that was never opened is explicitly allowed on the
				// reset path (EndTaskOnReset) and not covered by the property.
				continue
			}
			if ti.nEnd >= 1 && onReset(ti.loc, e.Time) {
				// documented reset teardown: a reset path "may end every task a
				// transaction could hold without tracking which were actually
				// opened" (tracing/README.md) - a repeated end at the instant of
				// the component's own Reset is that teardown, not a second end.
				resetEnded++
				continue
			}
			ti.nEnd++
			if ti.nEnd > 1 {
				return "task-ended-twice:" + ti.kind, fmt.Sprintf("task %d (%s %s at %s, started t=%d) ended twice (t=%d and t=%d)", e.ID, ti.kind, ti.what, ti.loc, ti.start, ti.end, e.Time), kinds, 0
			}
			ti.end, ti.endSeq = e.Time, e.Seq
			if e.Time < ti.start {
				return "task-ends-before-start:" + ti.kind, fmt.Sprintf("task %d (%s %s) ends at %d before its start %d", e.ID, ti.kind, ti.what, e.Time, ti.start), kinds, 0
			}
		}
	}
	for id, ti := range tasks {
		if ti.nStart == 1 && ti.nEnd == 0 {
			return "task-never-ended:" + ti.kind, fmt.Sprintf("at quiescence task %d (%s %s at %s, started t=%d) has not ended", id, ti.kind, ti.what, ti.loc, ti.start), kinds, 0
		}
	}
	for _, e := range evs {
		if e.Op != "tag" && e.Op != "milestone" {
			continue
		}
		ti := tasks[e.ID]
		if ti == nil || ti.nStart == 0 {
			return e.Op + "-on-unstarted-task:" + whatSuffix(e.What), fmt.Sprintf("%s %q (kind %q) at t=%d refers to task %d, which was never started", e.Op, e.What, e.Kind, e.Time, e.ID), kinds, 0
		}
		if e.Time < ti.start || e.Time > ti.end {
			return e.Op + "-outside-lifetime:" + ti.kind + ":" + whatSuffix(e.What), fmt.Sprintf("%s %q at t=%d lies outside the lifetime [%d,%d] of task %d (%s %s at %s)", e.Op, e.What, e.Time, ti.start, ti.end, e.ID, ti.kind, ti.what, ti.loc), kinds, 0
		}
	}
	return "", "", kinds, 0
}

func TestC32Traces(t *testing.T) {
	s := kit.Begin(t, "C32", "traces",
		"C16 assemblies run in a fresh child process (the tracing task-id side tables are process-global and leak entries across simulations, which would otherwise make IDs of one case collide with leftovers of another) inside a real simulation.Simulation (so the incoming/outgoing port buffer tracers are attached as in production) with one recording tracer on every library component and connection; optionally every bottom and level is Reset through its control port, bottom-up and one acknowledged Reset at a time, at k/16 of the run with traffic in flight. At quiescence (empty event queue) over the recorded stream: every started ID started once and ended exactly once, end >= start; every tag and milestone names a started task and its time lies in [start,end]; all tasks of one Location share one Kind. Conventions applied before judging (tracing/README.md, 'Tearing down in-flight tasks on reset'): an EndTask for an ID that was never started is ignored, and a repeated EndTask at the very instant the hosting component acknowledges a Reset is the documented blanket teardown, not a second end. Non-trivial: >=3 task kinds and >=50 tasks; class 'reset-with-open-tasks' counts resets that landed with tasks open")
	defer s.End()
	run := func(f kit.Failer, c c32Case) {
		dir := workDir(t)
		defer os.RemoveAll(dir)
		res, err := memsys.RunChild(memsys.Job{Spec: c.Spec, Dir: filepath.Join(dir, "run"), TraceAll: true, ResetAt: c.ResetAt})
		if err != nil {
			s.Fail(f, c, "harness-child", "%v", err)
			return
		}
		if res.Error != "" {
			s.Fail(f, c, "traced-run:"+firstWord(res.Error), "%s", res.Error)
			return
		}
		resets := map[string]map[uint64]bool{}
		for comp, ts := range res.Resets {
			resets[comp] = map[uint64]bool{}
			for _, t := range ts {
				resets[comp][t] = true
			}
		}
		openAtReset := res.OpenAtReset
		rec := &memsys.RecTracer{Events: res.Trace}
		if os.Getenv("VERIF_DEBUG_TRACE_ID") != "" {
			fmt.Printf("TRACE resets=%v\n", resets)
			ends, starts := map[uint64]int{}, map[uint64]int{}
			for _, e := range rec.Events {
				if e.Op == "end" {
					ends[e.ID]++
				}
				if e.Op == "start" {
					starts[e.ID]++
				}
			}
			for _, e := range rec.Events {
				if ends[e.ID] > 1 || starts[e.ID] > 1 || (starts[e.ID] > 0 && ends[e.ID] == 0) {
					fmt.Printf("TRACE %+v\n", e)
				}
			}
		}
		sg, m, kinds, _ := judgeTrace(rec.Events, resets)
		if sg != "" {
			when := ""
			if c.ResetAt > 0 {
				when = " (run with a mid-run bottom-up Reset)"
			}
			s.Fail(f, c, sg, "%s%s [%s]", m, when, shape(c.Spec))
			return
		}
		nTasks := 0
		for _, e := range rec.Events {
			if e.Op == "start" {
				nTasks++
			}
		}
		classes := []string{}
		if c.ResetAt > 0 {
			classes = append(classes, "with-reset")
			if openAtReset > 0 {
				classes = append(classes, "reset-with-open-tasks")
			}
		}
		for k := range kinds {
			classes = append(classes, "kind:"+k)
		}
		s.AddExtra("trace_events", len(rec.Events))
		s.Note(c, len(kinds) >= 3 && nTasks >= 50, classes...)
	}
	var c c32Case
	if ok, err := kit.LoadReplay("C32", "traces", &c); ok {
		if err != nil {
			t.Fatal(err)
		}
		run(t, c)
		return
	} else if kit.ReplayMode() {
		t.Skip()
	}
	kit.SetChecks(60, 400)
	rapid.Check(t, func(rt *rapid.T) {
		spec := memsys.GenAssembly(rt, memsys.GenOpts{Bottoms: []string{"ideal", "banked", "dram"}})
		c := c32Case{Spec: spec}
		if rapid.IntRange(0, 1).Draw(rt, "reset") == 0 {
			c.ResetAt = rapid.IntRange(1, 15).Draw(rt, "resetAt")
		}
		run(rt, c)
	})
}

// whatSuffix drops the component-name prefix of a milestone/tag name
// ("L1.evict" -> "evict") so signatures name the call site, not the instance.
func whatSuffix(w string) string {
	for i := len(w) - 1; i >= 0; i-- {
		if w[i] == '.' {
			return w[i+1:]
		}
	}
	return w
}
