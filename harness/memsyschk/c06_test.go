package memsyschk

import (
	"archive/tar"
	"bytes"
	"compress/gzip"
	"fmt"
	"io"
	"os"
	"path/filepath"
	"sort"
	"strings"
	"testing"

	"pgregory.net/rapid"

	"verif/harness/kit"
	"verif/harness/memsys"
)

type c06Case struct {
	Spec memsys.AssemblySpec `json:"spec"`
	// CutSel selects the cut among the distinct event times of the reference
	// run (CutSel/1000 of the way through); CutMode places it at that event time,
	// one picosecond after it, before the first event or after the last.
	CutSel  int    `json:"cut_sel"`
	CutMode string `json:"cut_mode"`
	// Hooked: components are registered the default way, which attaches the
	// simulation's idle DBTracer hook to every component (tracing not started).
	// Otherwise components are registered without that hook.
	Hooked bool `json:"hooked"`
}

func workDir(t testing.TB) string {
	if d := os.Getenv("VERIF_WORK"); d != "" {
		p, err := os.MkdirTemp(d, "c06-")
		if err == nil {
			return p
		}
	}
	return t.TempDir()
}

// readArchive lists the entries of a checkpoint archive.
func readArchive(path string) (map[string][]byte, error) {
	f, err := os.Open(path)
	if err != nil {
		return nil, err
	}
	defer f.Close()
	gz, err := gzip.NewReader(f)
	if err != nil {
		return nil, err
	}
	tr := tar.NewReader(gz)
	out := map[string][]byte{}
	for {
		h, err := tr.Next()
		if err == io.EOF {
			break
		}
		if err != nil {
			return nil, err
		}
		b, _ := io.ReadAll(tr)
		out[h.Name] = b
	}
	return out, nil
}

func diffArchives(a, b string) string {
	ea, err1 := readArchive(a)
	eb, err2 := readArchive(b)
	if err1 != nil || err2 != nil {
		return fmt.Sprintf("unreadable archives: %v %v", err1, err2)
	}
	var names []string
	for n := range ea {
		names = append(names, n)
	}
	for n := range eb {
		if _, ok := ea[n]; !ok {
			names = append(names, n)
		}
	}
	sort.Strings(names)
	var diffs []string
	for _, n := range names {
		if !bytes.Equal(ea[n], eb[n]) {
			diffs = append(diffs, n)
		}
	}
	if len(diffs) == 0 {
		return "entries equal, container bytes differ"
	}
	first := diffs[0]
	x, y := string(ea[first]), string(eb[first])
	i := 0
	for i < len(x) && i < len(y) && x[i] == y[i] {
		i++
	}
	lo := max(0, i-60)
	return fmt.Sprintf("%d entries differ %v; first %s at byte %d: …%s… vs …%s…", len(diffs), diffs, first, i, x[lo:min(len(x), i+60)], y[lo:min(len(y), i+60)])
}

func entityKind(name string) string {
	n := strings.TrimPrefix(name, "entities/")
	switch {
	case n == "Engine", n == "IDGenerator":
		return n
	case strings.Contains(n, ".Storage"):
		return "storage"
	case strings.HasPrefix(n, "Conn"), strings.HasPrefix(n, "CtlConn"):
		return "connection"
	case strings.Contains(n, "."):
		return "port"
	case strings.HasPrefix(n, "Drv"), strings.HasPrefix(n, "Ctl"):
		return "harness-component"
	}
	return "component"
}

func runC06(s *kit.Session, f kit.Failer, t testing.TB, c c06Case) {
	dir := workDir(t)
	defer os.RemoveAll(dir)
	const buildID = "verif-c06"
	refFinal := filepath.Join(dir, "ref-final.tar.gz")
	ref, err := memsys.RunChild(memsys.Job{Spec: c.Spec, NoTraceHooks: !c.Hooked, Dir: filepath.Join(dir, "ref"), BuildID: buildID, SaveFinal: refFinal})
	if err != nil {
		s.Fail(f, c, "harness-child", "%v", err)
		return
	}
	if ref.Error != "" {
		s.Fail(f, c, "reference-run:"+firstWord(ref.Error), "reference run: %s", ref.Error)
		return
	}
	if len(ref.Events) == 0 {
		s.Note(c, false, "empty-run")
		return
	}
	var times []uint64
	for _, e := range ref.Events {
		if len(times) == 0 || times[len(times)-1] != e.Time {
			times = append(times, e.Time)
		}
	}
	var cut uint64
	switch c.CutMode {
	case "before":
		cut = 0
		if times[0] > 0 {
			cut = times[0] - 1
		}
	case "after":
		cut = times[len(times)-1] + 1000
	case "between":
		cut = times[c.CutSel*len(times)/1001] + 1
	default:
		cut = times[c.CutSel*len(times)/1001]
	}
	k := 0
	for k < len(ref.Events) && ref.Events[k].Time <= cut {
		k++
	}
	ckpt := filepath.Join(dir, "cut.tar.gz")
	src, err := memsys.RunChild(memsys.Job{Spec: c.Spec, NoTraceHooks: !c.Hooked, Dir: filepath.Join(dir, "src"), BuildID: buildID, CutAt: &cut, SaveCut: ckpt})
	if err != nil {
		s.Fail(f, c, "harness-child", "%v", err)
		return
	}
	if src.Error != "" {
		s.Fail(f, c, "source-run:"+firstWord(src.Error), "source run (RunUntil(%d) + SaveCheckpoint): %s", cut, src.Error)
		return
	}
	if sig, msg := compareTraces(ref.Events[:k], src.Events); sig != "" {
		s.Fail(f, c, "source-prefix:"+sig, "RunUntil(%d) did not handle the same %d events as the uninterrupted run: %s", cut, k, msg)
		return
	}
	rstFinal := filepath.Join(dir, "rst-final.tar.gz")
	rst, err := memsys.RunChild(memsys.Job{Spec: c.Spec, NoTraceHooks: !c.Hooked, Dir: filepath.Join(dir, "rst"), BuildID: buildID, LoadFrom: ckpt, SaveFinal: rstFinal})
	if err != nil {
		s.Fail(f, c, "harness-child", "%v", err)
		return
	}
	if rst.Error != "" {
		s.Fail(f, c, "restore:"+firstWord(rst.Error), "restore leg (cut at %d, %d requests in flight): %s", cut, src.InFlightAtCut, rst.Error)
		return
	}
	if sig, msg := compareTraces(ref.Events[k:], rst.Events); sig != "" {
		if sig == "ids" && c.Hooked {
			sig = sigIdleTracerIDs
		} else {
			sig = "resume-trace:" + sig
		}
		s.Fail(f, c, sig, "after a checkpoint at t=%d (%d requests in flight, %d messages buffered) the resumed run diverges from the uninterrupted run: %s", cut, src.InFlightAtCut, src.BufferedAtCut, msg)
		return
	}
	if ref.FinalSHA != rst.FinalSHA {
		d := diffArchives(refFinal, rstFinal)
		kind := "unknown"
		if i := strings.Index(d, "first "); i >= 0 {
			kind = entityKind(strings.Fields(d[i+6:])[0])
		}
		s.Fail(f, c, "final-state:"+kind, "final state after resume from t=%d differs from the uninterrupted run: %s", cut, d)
		return
	}
	if ref.NextID != rst.NextID || ref.EndTime != rst.EndTime {
		s.Fail(f, c, "final-counter", "end time/ID counter differ: uninterrupted (%d,%d) resumed (%d,%d)", ref.EndTime, ref.NextID, rst.EndTime, rst.NextID)
		return
	}
	if c.Hooked {
		classes0 := "hooked"
		_ = classes0
	}
	classes := []string{"cut:" + c.CutMode, fmt.Sprintf("hooked:%v", c.Hooked), "shape-bottom:" + c.Spec.Bottom.Kind}
	if src.InFlightAtCut > 0 {
		classes = append(classes, "requests-in-flight-at-cut")
	}
	if src.BufferedAtCut > 0 {
		classes = append(classes, "messages-buffered-at-cut")
	}
	for _, l := range c.Spec.Levels {
		classes = append(classes, "has:"+l.Kind)
	}
	s.AddExtra("events_compared", len(ref.Events))
	s.Note(c, src.InFlightAtCut > 0 && src.BufferedAtCut > 0 && len(c.Spec.Levels) > 0, classes...)
}

// sigIdleTracerIDs: with the default registration the simulation attaches its
// idle DBTracer hook to every component, so the tracing task-ID side tables
// (process-global, not part of a checkpoint) hand out IDs; a message that is
// buffered or being processed at the cut gets a fresh task ID after the
// restore, shifting every later ID.
const sigIdleTracerIDs = "ids-shifted-by-idle-tracer-side-tables"

func firstWord(s string) string {
	if i := strings.IndexAny(s, ": "); i > 0 {
		return s[:i]
	}
	return s
}

// compareTraces returns ("", "") when equal, otherwise a signature saying
// whether only event bodies (IDs) differ or the event sequence itself.
func compareTraces(want, got []memsys.EvRec) (string, string) {
	n := min(len(want), len(got))
	for i := 0; i < n; i++ {
		w, g := want[i], got[i]
		if w.Time != g.Time || w.Handler != g.Handler || w.Type != g.Type || w.Secondary != g.Secondary {
			return "events", fmt.Sprintf("event %d: want t=%d %s %s, got t=%d %s %s", i, w.Time, w.Handler, w.Type, g.Time, g.Handler, g.Type)
		}
		if w.Body != g.Body {
			return "ids", fmt.Sprintf("event %d (t=%d %s): want %s, got %s", i, w.Time, w.Handler, w.Body, g.Body)
		}
	}
	if len(want) != len(got) {
		return "length", fmt.Sprintf("want %d events, got %d", len(want), len(got))
	}
	return "", ""
}

func TestC06Resume(t *testing.T) {
	s := kit.Begin(t, "C06", "resume",
		"C16's assembly+workload generator built in a real simulation.Simulation (monitor off, no tracer started). Three legs, each in its own fresh process (process-global ID generator and tracing side tables): reference (Run to the end, record every handled event incl. its JSON body with IDs, save final archive); source (RunUntil(t), SaveCheckpoint); restore (rebuild, LoadCheckpoint, Run, save final archive). t is drawn from the distinct event times of the reference run (at the event time, 1 ps after it, before the first, after the last). Oracle: source trace = reference prefix (events with time <= t); resumed trace = reference suffix; final archives byte-identical; end time and ID counter equal. Non-trivial: >=1 request in flight and >=1 message buffered in a port at the cut, and >=1 level between requester and memory")
	defer s.End()
	var c c06Case
	if ok, err := kit.LoadReplay("C06", "resume", &c); ok {
		if err != nil {
			t.Fatal(err)
		}
		runC06(s, t, t, c)
		return
	} else if kit.ReplayMode() {
		t.Skip()
	}
	kit.SetChecks(40, 150)
	rapid.Check(t, func(rt *rapid.T) {
		steered := 0
		o := genOpts(&kit.Session{ID: "C16"}, &steered, memsys.GenOpts{MaxOps: 40, Bottoms: []string{"ideal", "banked", "dram"}})
		c := c06Case{Spec: memsys.GenAssembly(rt, o), CutSel: rapid.IntRange(0, 1000).Draw(rt, "cutSel"),
			CutMode: rapid.SampledFrom([]string{"at", "at", "at", "between", "between", "before", "after"}).Draw(rt, "cutMode")}
		c.Hooked = rapid.IntRange(0, 4).Draw(rt, "hooked") == 0
		if _, known := s.IsKnown(sigIdleTracerIDs); known && c.Hooked {
			// the listed finding makes almost every hooked case diverge in IDs:
			// keep them rare so the search spends its budget behind the finding
			c.Hooked = rapid.IntRange(0, 3).Draw(rt, "hookedAnyway") == 0
			if !c.Hooked {
				s.Excluded(1)
			}
		}
		runC06(s, rt, t, c)
	})
}

// TestC06Known re-runs the committed reproductions of listed C06 findings.
func TestC06Known(t *testing.T) {
	if kit.ReplayMode() {
		t.Skip()
	}
	s := kit.Begin(t, "C06", "known", "committed reproductions of listed findings (known/C06/*.json)")
	defer s.End()
	for _, p := range kit.KnownReplays("C06") {
		var c c06Case
		r, err := kit.LoadReplayFile(p, &c)
		if err != nil {
			t.Fatal(err)
		}
		rec := &kit.KnownRecorder{}
		probe := kit.BeginProbe(t, "C06", "known-probe")
		runC06(probe, rec, t, c)
		if rec.Failed {
			s.KnownStillFails(t, c, r.Sig, firstLine(rec.Msg))
		}
	}
}
