package memsyschk

import (
	"encoding/json"
	"os"
	"testing"

	"github.com/sarchlab/akita/v5/timing"

	"verif/harness/kit"
	"verif/harness/memsys"
)

// TestDebugTrace prints the message trace of the replay case in VERIF_DEBUG_CASE.
func TestDebugTrace(t *testing.T) {
	p := os.Getenv("VERIF_DEBUG_CASE")
	if p == "" {
		t.Skip()
	}
	b, _ := os.ReadFile(p)
	var r kit.Replay
	if err := json.Unmarshal(b, &r); err != nil {
		t.Fatal(err)
	}
	var c c16Case
	if err := json.Unmarshal(r.Case, &c); err != nil {
		t.Fatal(err)
	}
	timing.ResetIDGenerator()
	engine := timing.NewSerialEngine()
	a := memsys.Build(memsys.NewReg(engine), c.Spec)
	a.TraceMessages(os.Stdout)
	a.Kick()
	_ = engine.Run()
	_, f := memsys.CheckDrivers(a)
	t.Log(f)
}
