package memsyschk

import (
	"encoding/json"
	"fmt"
	"os"
	"testing"

	"github.com/sarchlab/akita/v5/timing"

	"verif/harness/kit"
	"verif/harness/memsys"
)

// TestDebugTrace prints the message trace of the replay case in VERIF_DEBUG_CASE.
func TestDebugTrace(t *testing.T) {
	p := os.Getenv("VERIF_DEBUG_CASE")
	if p == "" {
		t.Skip()
	}
	b, _ := os.ReadFile(p)
	var r kit.Replay
	if err := json.Unmarshal(b, &r); err != nil {
		t.Fatal(err)
	}
	var c c16Case
	if err := json.Unmarshal(r.Case, &c); err != nil {
		t.Fatal(err)
	}
	timing.ResetIDGenerator()
	engine := timing.NewSerialEngine()
	a := memsys.Build(memsys.NewReg(engine), c.Spec)
	a.TraceMessages(os.Stdout)
	a.Kick()
	_ = engine.Run()
	_, f := memsys.CheckDrivers(a)
	t.Log(f)
}

// TestDebugC32 prints the trace events of one task id for a C32 replay.
func TestDebugC32(t *testing.T) {
	p := os.Getenv("VERIF_DEBUG_C32")
	if p == "" {
		t.Skip()
	}
	b, _ := os.ReadFile(p)
	var r kit.Replay
	_ = json.Unmarshal(b, &r)
	var c c32Case
	_ = json.Unmarshal(r.Case, &c)
	fmt.Println("case:", string(r.Case)[:min(len(r.Case), 1500)])
}
