// Package nocchk holds the checks of the network-on-chip properties C29
// (delivery), C30 (routing tables) and C31 (packetisation).
//
// This file is the shared machinery: a capturing modeling.Registrar (so the
// switches and endpoints that the connectors build internally can be reached),
// scripted device agents, port recorders, the plain-data description of a
// network (connector configuration + topology) for the four builders, the code
// that builds it through the public builder API exactly like
// /repo/noc/acceptance does, and the harness' own graph model of what was
// asked for (used by the oracles: BFS distances, tree-ness, Manhattan
// distance).
package nocchk

import (
	"fmt"
	"io"

	"github.com/sarchlab/akita/v5/hooking"
	"github.com/sarchlab/akita/v5/messaging"
	"github.com/sarchlab/akita/v5/modeling"
	"github.com/sarchlab/akita/v5/naming"
	"github.com/sarchlab/akita/v5/noc/networking/mesh"
	nc "github.com/sarchlab/akita/v5/noc/networking/networkconnector"
	"github.com/sarchlab/akita/v5/noc/networking/nvlink"
	"github.com/sarchlab/akita/v5/noc/networking/pcie"
	"github.com/sarchlab/akita/v5/noc/networking/switching/endpoint"
	"github.com/sarchlab/akita/v5/noc/networking/switching/switches"
	"github.com/sarchlab/akita/v5/simulation"
	"github.com/sarchlab/akita/v5/timing"
	"pgregory.net/rapid"

	"verif/harness/kit"
)

// ---------------------------------------------------------------------------
// Capturing registrar
// ---------------------------------------------------------------------------

// capReg is a modeling.Registrar that keeps what it is handed. With sim set
// it also forwards every registration to a real simulation.Simulation (whose
// engine it then uses), so that the network becomes part of that simulation's
// checkpoint inventory.
type capReg struct {
	engine    *timing.SerialEngine
	switches  []*switches.Comp
	endpoints []*endpoint.Comp
	conns     []naming.Named
	ports     []messaging.Port
	others    []naming.Named

	// inv (with keepInv): every registered entity in registration order, the
	// engine and the process-wide ID generator first - the inventory that
	// simulation.Simulation keeps and walks in SaveCheckpoint/LoadCheckpoint.
	keepInv bool
	inv     []naming.Named

	sim *simulation.Simulation
	// plain: components are handed to the simulation behind a wrapper that
	// exposes only Name/SaveCheckpoint/LoadCheckpoint, so the simulation does
	// not attach its (idle) DBTracer hook to them.
	plain bool
}

func newCapReg() *capReg {
	return &capReg{engine: timing.NewSerialEngine()}
}

// newInvReg: a bare serial engine plus the entity inventory (call it after
// timing.ResetIDGenerator so that the live generator is listed).
func newInvReg() *capReg {
	r := newCapReg()
	r.keepInv = true
	r.inv = append(r.inv, r.engine, timing.GetIDGenerator().(naming.Named))
	return r
}

// registers reports whether the harness' own devices and their ports are to
// be registered (they are part of a checkpoint inventory then).
func (r *capReg) registers() bool { return r.sim != nil || r.keepInv }

// newSimReg wraps a simulation (serial engine).
func newSimReg(sim *simulation.Simulation, plain bool) *capReg {
	return &capReg{engine: sim.GetEngine().(*timing.SerialEngine), sim: sim, plain: plain}
}

func (r *capReg) GetEngine() timing.Engine { return r.engine }

type checkpointable interface {
	SaveCheckpoint(w io.Writer) error
	LoadCheckpoint(r io.Reader) error
}

// plainEntity exposes only the name and the checkpoint methods of a component.
type plainEntity struct{ inner naming.Named }

func (p plainEntity) Name() string { return p.inner.Name() }
func (p plainEntity) SaveCheckpoint(w io.Writer) error {
	return p.inner.(checkpointable).SaveCheckpoint(w)
}
func (p plainEntity) LoadCheckpoint(rd io.Reader) error {
	return p.inner.(checkpointable).LoadCheckpoint(rd)
}

func (r *capReg) RegisterComponent(c naming.Named) {
	switch v := c.(type) {
	case *switches.Comp:
		r.switches = append(r.switches, v)
	case *endpoint.Comp:
		r.endpoints = append(r.endpoints, v)
	default:
		r.others = append(r.others, c)
	}
	if r.keepInv {
		r.inv = append(r.inv, c)
	}
	if r.sim != nil {
		if _, ok := c.(checkpointable); ok && r.plain {
			r.sim.RegisterComponent(plainEntity{inner: c})
		} else {
			r.sim.RegisterComponent(c)
		}
	}
}

func (r *capReg) RegisterConnection(c naming.Named) {
	r.conns = append(r.conns, c)
	if r.keepInv {
		r.inv = append(r.inv, c)
	}
	if r.sim != nil {
		r.sim.RegisterConnection(c)
	}
}

func (r *capReg) RegisterResource(c naming.Named) {
	r.others = append(r.others, c)
	if r.keepInv {
		r.inv = append(r.inv, c)
	}
	if r.sim != nil {
		r.sim.RegisterResource(c)
	}
}

func (r *capReg) RegisterPort(p naming.Named) {
	if port, ok := p.(messaging.Port); ok {
		r.ports = append(r.ports, port)
	}
	if r.keepInv {
		r.inv = append(r.inv, p)
	}
	if r.sim != nil {
		r.sim.RegisterPort(p)
	}
}

// cleanSig strips the argument list that kit.Guard leaves on signatures of
// functions with value receivers ("pkg.T.f({}, {0xc000...})" -> "pkg.T.f"),
// so signatures never contain addresses.
func cleanSig(sig string) string {
	for i := 0; i < len(sig); i++ {
		if sig[i] == '(' && (i+1 >= len(sig) || sig[i+1] != '*') {
			return sig[:i]
		}
	}
	return sig
}

// guard is kit.Guard with the signature cleaned.
func guard(fn func()) (bool, string, string) {
	ok, sig, msg := kit.Guard(fn)
	return ok, cleanSig(sig), msg
}

// ---------------------------------------------------------------------------
// Traffic message + device agent
// ---------------------------------------------------------------------------

// trafficMsg is what the harness devices send (same shape as the acceptance
// programs' TrafficMsg).
type trafficMsg struct {
	messaging.MsgMeta
}

// agentSpec is the plain-data description of a device.
type agentSpec struct {
	NPorts      int `json:"nports"`
	BufSize     int `json:"buf"`           // device port buffer capacity (both directions)
	SendPerTick int `json:"send_per_tick"` // messages the device may hand to its ports per tick
	RecvPerTick int `json:"recv_per_tick"` // messages retrieved per port per draining tick
	DrainPeriod int `json:"drain_period"`  // the device drains on every DrainPeriod-th tick (1 = always)
	InitStall   int `json:"init_stall"`    // ticks during which the device does not drain at all
	FreqMHz     int `json:"freq_mhz"`      // 0 = the network's clock
}

// agentState is the whole mutable state of a device: plain JSON data, so the
// device is checkpointable like a library component (modeling.Component saves
// and restores exactly this struct plus its tick-scheduler guard). The script
// is part of the state; a device resumed from a checkpoint continues at Next.
type agentState struct {
	Script   []messaging.MsgMeta `json:"script"`
	Next     int                 `json:"next"`     // Script[Next:] is still to be sent
	Ticks    int                 `json:"ticks"`    // ticks handled so far
	Blocked  int                 `json:"blocked"`  // ticks on which the head of the script could not be sent
	Received int                 `json:"received"` // messages retrieved from the ports
}

// agent is a scripted device: it sends its script in order (head-of-line
// blocking on a full port, like the acceptance Agent) and drains its ports
// according to the stall plan. It keeps ticking while anything is waiting in
// one of its ports, so a stall always ends. It has no runtime field besides
// State (ports and spec are rebuilt by setup).
type agent struct {
	*modeling.Component[agentSpec, agentState, modeling.None]
	spec  agentSpec
	ports []messaging.Port
}

var _ = func() bool { messaging.RegisterMsg(trafficMsg{}); return true }()

// newAgent builds a device on a bare engine (its ports are not registered
// anywhere).
func newAgent(engine timing.Engine, name string, sp agentSpec, netFreq timing.Freq) *agent {
	return buildAgent(modeling.NewStandaloneRegistrar(engine), name, sp, netFreq)
}

// buildAgent builds a device and registers it and its ports with reg (a no-op
// for the capturing registrar without a simulation behind it).
func buildAgent(reg modeling.Registrar, name string, sp agentSpec, netFreq timing.Freq) *agent {
	a := &agent{spec: sp}
	f := netFreq
	if sp.FreqMHz > 0 {
		f = timing.Freq(sp.FreqMHz) * timing.MHz
	}
	a.Component = modeling.NewBuilder[agentSpec, agentState, modeling.None]().
		WithEngine(reg.GetEngine()).WithFreq(f).WithSpec(sp).Build(name)
	a.AddMiddleware(&agentMW{a: a})
	if cr, isCap := reg.(*capReg); !isCap || cr.registers() {
		reg.RegisterComponent(a)
	}
	for j := 0; j < sp.NPorts; j++ {
		p := messaging.NewPort(a, sp.BufSize, sp.BufSize, fmt.Sprintf("%s.Port[%d]", name, j))
		a.ports = append(a.ports, p)
		if cr, isCap := reg.(*capReg); !isCap || cr.registers() {
			reg.RegisterPort(p)
		}
	}
	return a
}

// push appends a message to the device's script.
func (a *agent) push(m messaging.MsgMeta) { a.State.Script = append(a.State.Script, m) }

// unsent: messages of the script that were not handed to a port yet.
func (a *agent) unsent() int { return len(a.State.Script) - a.State.Next }

type agentMW struct{ a *agent }

func (mw *agentMW) Tick() bool {
	a := mw.a
	st := &a.State
	progress := false
	st.Ticks++

	for k := 0; k < a.spec.SendPerTick && st.Next < len(st.Script); k++ {
		m := st.Script[st.Next]
		var src messaging.Port
		for _, p := range a.ports {
			if p.AsRemote() == m.Src {
				src = p
			}
		}
		if !src.CanSend() {
			st.Blocked++
			break
		}
		src.Send(trafficMsg{MsgMeta: m})
		st.Next++
		progress = true
	}

	draining := st.Ticks > a.spec.InitStall &&
		(a.spec.DrainPeriod <= 1 || st.Ticks%a.spec.DrainPeriod == 0)
	pending := false
	for _, p := range a.ports {
		if draining {
			for k := 0; k < a.spec.RecvPerTick; k++ {
				if p.RetrieveIncoming() == nil {
					break
				}
				st.Received++
				progress = true
			}
		}
		if p.NumIncoming() > 0 {
			pending = true
		}
	}

	// A stalled device must wake up again by itself.
	return progress || pending
}

// ---------------------------------------------------------------------------
// Port recorder
// ---------------------------------------------------------------------------

type portEvent struct {
	Seq  int
	Time timing.VTimeInPicoSec
	Port string
	Pos  *hooking.HookPos
	Msg  messaging.Msg
}

// recorder is a hook that logs sends and deliveries on the ports it is attached
// to. Seq gives one total order over everything recorded by one recorder.
type recorder struct {
	engine timing.TimeTeller
	events []portEvent
}

func (r *recorder) Func(ctx hooking.HookCtx) {
	if ctx.Pos != messaging.HookPosPortMsgSend && ctx.Pos != messaging.HookPosPortMsgRecvd {
		return
	}
	p := ctx.Domain.(messaging.Port)
	m, _ := ctx.Item.(messaging.Msg)
	r.events = append(r.events, portEvent{
		Seq: len(r.events), Time: r.engine.CurrentTime(), Port: p.Name(), Pos: ctx.Pos, Msg: m,
	})
}

// ---------------------------------------------------------------------------
// Plain-data network description
// ---------------------------------------------------------------------------

// connSpec configures the connector object (one per case; reused across the
// networks of a C30 case).
type connSpec struct {
	Kind     string `json:"kind"` // generic | pcie | nvlink | mesh
	FreqMHz  int    `json:"freq_mhz"`
	FlitSize int    `json:"flit"`
	Router   string `json:"router,omitempty"` // generic: "" (default = Floyd-Warshall), "fw" (WithRouter(FloydWarshallRouter)), "bw"
	SwLat    int    `json:"sw_lat"`           // pcie / mesh switch latency, nvlink: PCIe switch latency
	NvLat    int    `json:"nv_lat,omitempty"` // nvlink switch latency
	NvVer    int    `json:"nv_ver,omitempty"`
	MeshBW2  int    `json:"mesh_bw2,omitempty"` // mesh link bandwidth in half transfers per cycle (1 => 0.5)
	PCIeVer  [2]int `json:"pcie_ver,omitempty"` // if non-zero: WithVersion(ver,width) instead of WithBandwidth
}

type edgeSpec struct {
	A, B       int
	LatA, LatB int
	ChA, ChB   int // channels (in = out) at each end
	BufA, BufB int
}

type devSpec struct {
	Sw    int       `json:"sw"`            // generic/pcie/nvlink: index of the switch named in the build call
	Loc   [3]int    `json:"loc,omitempty"` // mesh
	Agent agentSpec `json:"agent"`
	Lat   int       `json:"lat,omitempty"`   // generic: switch-end latency
	SwCh  int       `json:"sw_ch,omitempty"` // generic: switch-end channels
	SwBuf int       `json:"sw_buf,omitempty"`
	EpCh  int       `json:"ep_ch,omitempty"` // generic: endpoint channels
	EpBuf int       `json:"ep_buf,omitempty"`
}

// opSpec is one build call of the PCIe / NVLink connectors.
//
//	pcie:   "sw" A=base switch            -> AddSwitch(A)
//	        "dev" A=switch, Dev=device    -> PlugInDevice(A, ports of Dev)
//	nvlink: "psw" A=switch to link with   -> AddPCIeSwitch + ConnectSwitchesWithPCIeLink(A, new)
//	        "plink" A,B                   -> ConnectSwitchesWithPCIeLink(A,B) (extra link)
//	        "dev" A=pcie switch/root      -> PlugInDevice(A, ports)
//	        "nvl" A,B devices, N links    -> ConnectDevicesWithNVLink(A,B,N)
//
// The first device (Dev 0) always goes to AddRootComplex.
type opSpec struct {
	Op  string `json:"op"`
	A   int    `json:"a"`
	B   int    `json:"b,omitempty"`
	N   int    `json:"n,omitempty"`
	Dev int    `json:"dev,omitempty"`
}

// roundSpec: how much of a generic topology exists when EstablishRoute() is
// called at the end of a build round: the first NSw switches, the first NEdges
// entries of Edges and the first NDevs entries of Devs.
type roundSpec struct {
	NSw    int `json:"nsw"`
	NEdges int `json:"nedges"`
	NDevs  int `json:"ndevs"`
}

type topoSpec struct {
	Shape    string     `json:"shape"`
	NSw      int        `json:"nsw,omitempty"`   // generic
	Edges    []edgeSpec `json:"edges,omitempty"` // generic
	DevFirst bool       `json:"dev_first,omitempty"`
	Devs     []devSpec  `json:"devs"`
	Ops      []opSpec   `json:"ops,omitempty"` // pcie, nvlink
	Dim      [3]int     `json:"dim,omitempty"` // mesh
	AddRev   bool       `json:"add_rev,omitempty"`
	// Rounds (generic connector): the network is built in len(Rounds)+1 rounds
	// on the same connector and network, each ended by EstablishRoute(); the
	// last round completes the topology. Empty = everything, then one
	// EstablishRoute().
	Rounds []roundSpec `json:"rounds,omitempty"`
}

// prefix is the topology that exists at the end of round rd.
func (tp topoSpec) prefix(rd roundSpec) topoSpec {
	out := tp
	out.NSw = rd.NSw
	out.Edges = tp.Edges[:rd.NEdges]
	out.Devs = tp.Devs[:rd.NDevs]
	out.Rounds = nil
	return out
}

// netModel is the harness' own picture of the network that the build calls
// describe: an undirected multigraph over switch indices (index = order of
// creation = the ID the connector hands out) and the host switch of every
// device.
type netModel struct {
	N       int
	Edges   [][2]int
	DevHost []int
}

func (m netModel) adj() [][]int {
	adj := make([][]int, m.N)
	for _, e := range m.Edges {
		adj[e[0]] = append(adj[e[0]], e[1])
		adj[e[1]] = append(adj[e[1]], e[0])
	}
	return adj
}

// bfs returns the switch-to-switch distance matrix (-1 = unreachable).
func (m netModel) bfs() [][]int {
	adj := m.adj()
	d := make([][]int, m.N)
	for s := 0; s < m.N; s++ {
		d[s] = make([]int, m.N)
		for i := range d[s] {
			d[s][i] = -1
		}
		d[s][s] = 0
		q := []int{s}
		for len(q) > 0 {
			u := q[0]
			q = q[1:]
			for _, v := range adj[u] {
				if d[s][v] < 0 {
					d[s][v] = d[s][u] + 1
					q = append(q, v)
				}
			}
		}
	}
	return d
}

// isTree: connected and exactly N-1 links (a doubled link counts as a cycle).
func (m netModel) isTree() bool {
	if len(m.Edges) != m.N-1 {
		return false
	}
	d := m.bfs()
	for _, x := range d[0] {
		if x < 0 {
			return false
		}
	}
	return true
}

func (m netModel) hasEdge(a, b int) bool {
	for _, e := range m.Edges {
		if (e[0] == a && e[1] == b) || (e[0] == b && e[1] == a) {
			return true
		}
	}
	return false
}

// model computes the netModel from the description alone (never from the code
// under test).
func model(cs connSpec, tp topoSpec) netModel {
	var m netModel
	switch cs.Kind {
	case "generic":
		m.N = tp.NSw
		for _, e := range tp.Edges {
			m.Edges = append(m.Edges, [2]int{e.A, e.B})
		}
		for _, d := range tp.Devs {
			m.DevHost = append(m.DevHost, d.Sw)
		}
	case "pcie":
		m.N = 1 // root complex
		m.DevHost = make([]int, len(tp.Devs))
		m.DevHost[0] = 0
		for _, op := range tp.Ops {
			switch op.Op {
			case "sw":
				m.Edges = append(m.Edges, [2]int{op.A, m.N})
				m.N++
			case "dev":
				m.DevHost[op.Dev] = op.A
			}
		}
	case "nvlink":
		// AddRootComplex: RootComplex=0, DeviceSwitch[0]=1, NVLinkSwitch[0]=2.
		m.N = 1
		m.DevHost = make([]int, len(tp.Devs))
		var nvsw []int
		plug := func(dev, base int) {
			dsw, nsw := m.N, m.N+1
			m.N += 2
			m.Edges = append(m.Edges, [2]int{dsw, nsw}, [2]int{dsw, base})
			m.DevHost[dev] = dsw
			nvsw = append(nvsw, nsw)
		}
		plug(0, 0)
		for _, op := range tp.Ops {
			switch op.Op {
			case "psw":
				m.Edges = append(m.Edges, [2]int{op.A, m.N})
				m.N++
			case "plink":
				m.Edges = append(m.Edges, [2]int{op.A, op.B})
			case "dev":
				plug(op.Dev, op.A)
			case "nvl":
				m.Edges = append(m.Edges, [2]int{nvsw[op.A], nvsw[op.B]})
			}
		}
	case "mesh":
		dx, dy, dz := tp.Dim[0], tp.Dim[1], tp.Dim[2]
		m.N = dx * dy * dz
		idx := func(x, y, z int) int { return (x*dy+y)*dz + z }
		for x := 0; x < dx; x++ {
			for y := 0; y < dy; y++ {
				for z := 0; z < dz; z++ {
					if z > 0 {
						m.Edges = append(m.Edges, [2]int{idx(x, y, z-1), idx(x, y, z)})
					}
					if y > 0 {
						m.Edges = append(m.Edges, [2]int{idx(x, y-1, z), idx(x, y, z)})
					}
					if x > 0 {
						m.Edges = append(m.Edges, [2]int{idx(x-1, y, z), idx(x, y, z)})
					}
				}
			}
		}
		for _, d := range tp.Devs {
			m.DevHost = append(m.DevHost, idx(d.Loc[0], d.Loc[1], d.Loc[2]))
		}
	}
	return m
}

// ---------------------------------------------------------------------------
// Building through the public builder API
// ---------------------------------------------------------------------------

// connHolder owns one connector object (kept across the networks of a case).
type connHolder struct {
	// afterRound, if set, is called after the EstablishRoute() that ends every
	// round but the last of a multi-round build, with the network as it is then.
	afterRound func(round int, partial topoSpec, b *built)

	cs      connSpec
	reg     *capReg
	freq    timing.Freq
	generic nc.Connector
	pcie    *pcie.Connector
	nvlink  *nvlink.Connector
	mesh    *mesh.Connector
}

func newConnHolder(cs connSpec, reg *capReg) *connHolder {
	h := &connHolder{cs: cs, reg: reg, freq: timing.Freq(cs.FreqMHz) * timing.MHz}
	switch cs.Kind {
	case "generic":
		c := nc.MakeConnector().WithRegistrar(reg).WithDefaultFreq(h.freq).WithFlitSize(cs.FlitSize)
		switch cs.Router {
		case "fw":
			c = c.WithRouter(nc.FloydWarshallRouter{})
		case "bw":
			c = c.WithRouter(&nc.BandwidthFirstRouter{FlitSize: cs.FlitSize})
		}
		h.generic = c
	case "pcie":
		c := pcie.NewConnector().WithRegistrar(reg).WithFrequency(h.freq)
		if cs.PCIeVer[0] != 0 {
			c = c.WithVersion(cs.PCIeVer[0], cs.PCIeVer[1])
		} else {
			c = c.WithBandwidth(uint64(cs.FlitSize) * uint64(h.freq))
		}
		h.pcie = c.WithSwitchLatency(cs.SwLat)
	case "nvlink":
		c := nvlink.NewConnector().WithRegistrar(reg).WithFrequency(h.freq)
		if cs.PCIeVer[0] != 0 {
			c = c.WithPCIeVersion(cs.PCIeVer[0], cs.PCIeVer[1])
		} else {
			c = c.WithPCIeBandwidth(uint64(cs.FlitSize) * uint64(h.freq))
		}
		h.nvlink = c.WithPCIeSwitchLatency(cs.SwLat).
			WithNVLinkVersion(cs.NvVer).
			WithNVLinkSwitchLatency(cs.NvLat)
	case "mesh":
		h.mesh = mesh.NewConnector().WithRegistrar(reg).WithFreq(h.freq).
			WithFlitSize(cs.FlitSize).
			WithBandwidth(float64(cs.MeshBW2) / 2).
			WithSwitchLatency(cs.SwLat)
	default:
		panic("harness: unknown connector kind " + cs.Kind)
	}
	return h
}

// built is one network as built: the captured components of that network only.
type built struct {
	name   string
	agents []*agent
	sw     []*switches.Comp
	eps    []*endpoint.Comp
	model  netModel
}

func ideal(f timing.Freq) nc.LinkParameter { return nc.LinkParameter{IsIdeal: true, Frequency: f} }

// build issues the build calls for one network named `name` (a valid akita
// name, unique per engine). Panics of the code under test propagate.
func (h *connHolder) build(name string, tp topoSpec) *built {
	b := &built{name: name, model: model(h.cs, tp)}
	sw0, ep0 := len(h.reg.switches), len(h.reg.endpoints)
	ports := make([][]messaging.Port, len(tp.Devs))
	for i, d := range tp.Devs {
		a := buildAgent(h.reg, fmt.Sprintf("%sDev[%d]", name, i), d.Agent, h.freq)
		b.agents = append(b.agents, a)
		ports[i] = a.ports
	}

	switch h.cs.Kind {
	case "generic":
		c := &h.generic
		c.NewNetwork(name)
		connectDev := func(i int) {
			d := tp.Devs[i]
			c.ConnectDevice(d.Sw, ports[i], nc.DeviceToSwitchLinkParameter{
				DeviceEndParam: nc.LinkEndDeviceParameter{
					IncomingBufSize: d.EpBuf, OutgoingBufSize: d.EpBuf,
					NumInputChannel: d.EpCh, NumOutputChannel: d.EpCh,
				},
				SwitchEndParam: nc.LinkEndSwitchParameter{
					IncomingBufSize: d.SwBuf, OutgoingBufSize: d.SwBuf,
					NumInputChannel: d.SwCh, NumOutputChannel: d.SwCh,
					Latency: d.Lat,
				},
				LinkParam: ideal(h.freq),
			})
		}
		connectSw := func(e edgeSpec) {
			c.ConnectSwitches(e.A, e.B, nc.SwitchToSwitchLinkParameter{
				LeftEndParam: nc.LinkEndSwitchParameter{
					IncomingBufSize: e.BufA, OutgoingBufSize: e.BufA,
					NumInputChannel: e.ChA, NumOutputChannel: e.ChA, Latency: e.LatA,
				},
				RightEndParam: nc.LinkEndSwitchParameter{
					IncomingBufSize: e.BufB, OutgoingBufSize: e.BufB,
					NumInputChannel: e.ChB, NumOutputChannel: e.ChB, Latency: e.LatB,
				},
				LinkParam: ideal(h.freq),
			})
		}
		// One round = the new switches, then the new devices and links (devices
		// first if DevFirst), then EstablishRoute(). Without Rounds this is the
		// single-shot build: all switches, devices/links, EstablishRoute().
		rounds := append(append([]roundSpec{}, tp.Rounds...), roundSpec{NSw: tp.NSw, NEdges: len(tp.Edges), NDevs: len(tp.Devs)})
		var prev roundSpec
		for r, rd := range rounds {
			for i := prev.NSw; i < rd.NSw; i++ {
				c.AddSwitch()
			}
			if tp.DevFirst {
				for i := prev.NDevs; i < rd.NDevs; i++ {
					connectDev(i)
				}
			}
			for _, e := range tp.Edges[prev.NEdges:rd.NEdges] {
				connectSw(e)
			}
			if !tp.DevFirst {
				for i := prev.NDevs; i < rd.NDevs; i++ {
					connectDev(i)
				}
			}
			c.EstablishRoute()
			if r < len(rounds)-1 && h.afterRound != nil {
				part := tp.prefix(rd)
				pb := &built{name: name, model: model(h.cs, part), agents: b.agents[:rd.NDevs]}
				pb.sw = append(pb.sw, h.reg.switches[sw0:]...)
				pb.eps = append(pb.eps, h.reg.endpoints[ep0:]...)
				h.afterRound(r, part, pb)
			}
			prev = rd
		}

	case "pcie":
		c := h.pcie
		c.CreateNetwork(name)
		ids := []int{c.AddRootComplex(ports[0])}
		for _, op := range tp.Ops {
			switch op.Op {
			case "sw":
				ids = append(ids, c.AddSwitch(ids[op.A]))
			case "dev":
				c.PlugInDevice(ids[op.A], ports[op.Dev])
			}
		}
		c.EstablishRoute()

	case "nvlink":
		c := h.nvlink
		c.CreateNetwork(name)
		// sws: the switches a "psw"/"dev" op may name, by model index.
		sws := map[int]int{0: c.AddRootComplex(ports[0])}
		devIDs := []int{0} // AddRootComplex plugs device 0 in (its ID is not returned)
		next := 3
		for _, op := range tp.Ops {
			switch op.Op {
			case "psw":
				id := c.AddPCIeSwitch()
				sws[next] = id
				next++
				c.ConnectSwitchesWithPCIeLink(sws[op.A], id)
			case "plink":
				c.ConnectSwitchesWithPCIeLink(sws[op.A], sws[op.B])
			case "dev":
				devIDs = append(devIDs, c.PlugInDevice(sws[op.A], ports[op.Dev]))
				next += 2
			case "nvl":
				c.ConnectDevicesWithNVLink(devIDs[op.A], devIDs[op.B], op.N)
			}
		}
		c.EstablishRoute()

	case "mesh":
		c := h.mesh
		c.CreateNetwork(name)
		order := make([]int, 0, len(tp.Devs))
		for i := range tp.Devs {
			order = append(order, i)
		}
		if tp.AddRev {
			for i, j := 0, len(order)-1; i < j; i, j = i+1, j-1 {
				order[i], order[j] = order[j], order[i]
			}
		}
		for _, i := range order {
			if len(ports[i]) > 0 { // a tile that is never added is a hole
				c.AddTile(tp.Devs[i].Loc, ports[i])
			}
		}
		c.EstablishNetwork()
	}

	b.sw = append(b.sw, h.reg.switches[sw0:]...)
	b.eps = append(b.eps, h.reg.endpoints[ep0:]...)
	return b
}

// hostEndpoint returns the endpoint a device port is plugged into (nil if none).
func hostEndpoint(p messaging.Port) *endpoint.Comp {
	pc, ok := p.(interface{ Connection() messaging.Connection })
	if !ok {
		return nil
	}
	ep, _ := pc.Connection().(*endpoint.Comp)
	return ep
}

// ---------------------------------------------------------------------------
// Generators
// ---------------------------------------------------------------------------

func genAgent(rt *rapid.T, nports int, stalls bool) agentSpec {
	a := agentSpec{
		NPorts:      nports,
		BufSize:     rapid.SampledFrom([]int{1, 1, 2, 4}).Draw(rt, "abuf"),
		SendPerTick: rapid.IntRange(1, 3).Draw(rt, "aspt"),
		RecvPerTick: rapid.IntRange(1, 2).Draw(rt, "arpt"),
		DrainPeriod: 1,
	}
	if stalls {
		a.DrainPeriod = rapid.SampledFrom([]int{1, 1, 2, 3, 7}).Draw(rt, "adrain")
		a.InitStall = rapid.SampledFrom([]int{0, 0, 0, 5, 40, 150}).Draw(rt, "astall")
	}
	if rapid.IntRange(0, 9).Draw(rt, "aclk") == 0 {
		a.FreqMHz = rapid.SampledFrom([]int{500, 1500, 2000, 700}).Draw(rt, "afreq")
	}
	return a
}

func genPortCount(rt *rapid.T) int {
	return rapid.SampledFrom([]int{1, 1, 1, 2, 3}).Draw(rt, "nports")
}

func genConn(rt *rapid.T, kind string) connSpec {
	cs := connSpec{
		Kind:     kind,
		FreqMHz:  rapid.SampledFrom([]int{1000, 1000, 2000, 500, 1500}).Draw(rt, "freq"),
		FlitSize: rapid.SampledFrom([]int{1, 2, 3, 4, 8, 16, 16, 32, 64, 100}).Draw(rt, "flit"),
	}
	switch kind {
	case "generic":
		cs.Router = rapid.SampledFrom([]string{"", "", "", "fw", "bw"}).Draw(rt, "router")
	case "pcie":
		cs.SwLat = rapid.SampledFrom([]int{0, 1, 2, 5, 20, 140}).Draw(rt, "swlat")
		if rapid.IntRange(0, 4).Draw(rt, "usever") == 0 {
			// version/width pairs whose byte-per-cycle is at least 1 at the drawn clock
			cs.PCIeVer = [2]int{rapid.IntRange(3, 5).Draw(rt, "pver"), rapid.SampledFrom([]int{8, 16}).Draw(rt, "pwidth")}
			cs.FlitSize = 0
		}
	case "nvlink":
		cs.SwLat = rapid.SampledFrom([]int{0, 1, 2, 5, 20, 140}).Draw(rt, "swlat")
		cs.NvLat = rapid.SampledFrom([]int{0, 1, 3, 10, 140}).Draw(rt, "nvlat")
		cs.NvVer = rapid.IntRange(1, 3).Draw(rt, "nvver")
		if rapid.IntRange(0, 4).Draw(rt, "usever") == 0 {
			cs.PCIeVer = [2]int{rapid.IntRange(3, 5).Draw(rt, "pver"), rapid.SampledFrom([]int{8, 16}).Draw(rt, "pwidth")}
			cs.FlitSize = 0
		}
	case "mesh":
		cs.SwLat = rapid.IntRange(0, 5).Draw(rt, "swlat")
		cs.MeshBW2 = rapid.SampledFrom([]int{2, 2, 2, 1, 3, 4, 6}).Draw(rt, "bw2")
	}
	return cs
}

// flitSizeOf is the flit size the connector ends up with (the PCIe-version
// table is part of the documented API: bandwidth = 2^(ver) GiB/s * width / 8,
// flit = round(bandwidth / freq)).
func flitSizeOf(cs connSpec) int {
	if cs.PCIeVer[0] == 0 {
		return cs.FlitSize
	}
	bw := (uint64(1) << 30) * (uint64(1) << uint(cs.PCIeVer[0])) * uint64(cs.PCIeVer[1]) / 8
	f := float64(bw) / float64(uint64(cs.FreqMHz)*1_000_000)
	return int(f + 0.5)
}

func genGenericTopo(rt *rapid.T, stalls bool, maxSw int) topoSpec {
	shape := rapid.SampledFrom([]string{"single", "line", "tree", "tree", "star", "ring", "clique", "random", "random", "multi"}).Draw(rt, "shape")
	tp := topoSpec{Shape: shape}
	n := 1
	switch shape {
	case "single":
	case "clique":
		n = rapid.IntRange(3, min(5, maxSw)).Draw(rt, "n")
	case "ring":
		n = rapid.IntRange(3, maxSw).Draw(rt, "n")
	default:
		n = rapid.IntRange(2, maxSw).Draw(rt, "n")
	}
	tp.NSw = n
	add := func(a, b int) {
		if rapid.Bool().Draw(rt, "flip") {
			a, b = b, a
		}
		tp.Edges = append(tp.Edges, edgeSpec{
			A: a, B: b,
			LatA: rapid.SampledFrom([]int{0, 1, 1, 2, 4}).Draw(rt, "latA"),
			LatB: rapid.SampledFrom([]int{0, 1, 1, 2, 4}).Draw(rt, "latB"),
			ChA:  rapid.IntRange(1, 2).Draw(rt, "chA"), ChB: rapid.IntRange(1, 2).Draw(rt, "chB"),
			BufA: rapid.SampledFrom([]int{1, 1, 2, 4}).Draw(rt, "bufA"), BufB: rapid.SampledFrom([]int{1, 1, 2, 4}).Draw(rt, "bufB"),
		})
	}
	switch shape {
	case "line":
		for i := 1; i < n; i++ {
			add(i-1, i)
		}
	case "star":
		for i := 1; i < n; i++ {
			add(0, i)
		}
	case "tree":
		for i := 1; i < n; i++ {
			add(rapid.IntRange(0, i-1).Draw(rt, "parent"), i)
		}
	case "ring":
		for i := 0; i < n; i++ {
			add(i, (i+1)%n)
		}
	case "clique":
		for i := 0; i < n; i++ {
			for j := i + 1; j < n; j++ {
				add(i, j)
			}
		}
	case "random", "multi":
		// a random spanning tree over a random labelling, then extra links
		perm := rapid.Permutation(seq(n)).Draw(rt, "perm")
		for i := 1; i < n; i++ {
			add(perm[rapid.IntRange(0, i-1).Draw(rt, "parent")], perm[i])
		}
		extra := rapid.IntRange(1, n+1).Draw(rt, "extra")
		for k := 0; k < extra; k++ {
			a := rapid.IntRange(0, n-1).Draw(rt, "ea")
			b := rapid.IntRange(0, n-2).Draw(rt, "eb")
			if b >= a {
				b++
			}
			if shape == "random" && (model(connSpec{Kind: "generic"}, tp).hasEdge(a, b)) {
				continue // "random" stays a simple graph; "multi" may double links
			}
			add(a, b)
		}
	}
	if n > 1 && rapid.Bool().Draw(rt, "shuffleEdges") {
		tp.Edges = rapid.Permutation(tp.Edges).Draw(rt, "edgeOrder")
	}
	tp.DevFirst = rapid.Bool().Draw(rt, "devFirst")

	ndev := rapid.IntRange(2, max(2, min(8, n+2))).Draw(rt, "ndev")
	for i := 0; i < ndev; i++ {
		tp.Devs = append(tp.Devs, devSpec{
			Sw:    rapid.IntRange(0, n-1).Draw(rt, "dsw"),
			Agent: genAgent(rt, genPortCount(rt), stalls),
			Lat:   rapid.SampledFrom([]int{0, 1, 1, 3}).Draw(rt, "dlat"),
			SwCh:  rapid.IntRange(1, 2).Draw(rt, "dswch"),
			SwBuf: rapid.SampledFrom([]int{1, 1, 2, 4}).Draw(rt, "dswbuf"),
			EpCh:  rapid.IntRange(1, 2).Draw(rt, "depch"),
			EpBuf: rapid.SampledFrom([]int{1, 1, 2, 4}).Draw(rt, "depbuf"),
		})
	}
	return tp
}

func seq(n int) []int {
	s := make([]int, n)
	for i := range s {
		s[i] = i
	}
	return s
}

func genPCIeTopo(rt *rapid.T, stalls bool) topoSpec {
	tp := topoSpec{Shape: "pcie-tree"}
	tp.Devs = append(tp.Devs, devSpec{Sw: 0, Agent: genAgent(rt, genPortCount(rt), stalls)})
	depth := []int{0} // depth of each switch; tree depth <= 3
	nops := rapid.IntRange(1, 9).Draw(rt, "nops")
	for k := 0; k < nops; k++ {
		var cand []int
		for i, d := range depth {
			if d < 3 {
				cand = append(cand, i)
			}
		}
		if rapid.IntRange(0, 2).Draw(rt, "opkind") == 0 && len(depth) < 7 && len(cand) > 0 {
			base := rapid.SampledFrom(cand).Draw(rt, "base")
			tp.Ops = append(tp.Ops, opSpec{Op: "sw", A: base})
			depth = append(depth, depth[base]+1)
		} else {
			sw := rapid.IntRange(0, len(depth)-1).Draw(rt, "dsw")
			tp.Ops = append(tp.Ops, opSpec{Op: "dev", A: sw, Dev: len(tp.Devs)})
			tp.Devs = append(tp.Devs, devSpec{Sw: sw, Agent: genAgent(rt, genPortCount(rt), stalls)})
		}
	}
	if len(tp.Devs) < 2 {
		sw := rapid.IntRange(0, len(depth)-1).Draw(rt, "dsw")
		tp.Ops = append(tp.Ops, opSpec{Op: "dev", A: sw, Dev: len(tp.Devs)})
		tp.Devs = append(tp.Devs, devSpec{Sw: sw, Agent: genAgent(rt, genPortCount(rt), stalls)})
	}
	return tp
}

func genNVLinkTopo(rt *rapid.T, stalls bool) topoSpec {
	tp := topoSpec{Shape: "nvlink"}
	tp.Devs = append(tp.Devs, devSpec{Agent: genAgent(rt, genPortCount(rt), stalls)})
	pcieSws := []int{0} // model indices of root complex + PCIe switches
	next := 3
	nops := rapid.IntRange(1, 6).Draw(rt, "nops")
	for k := 0; k < nops; k++ {
		if rapid.IntRange(0, 2).Draw(rt, "opkind") == 0 && len(pcieSws) < 4 {
			base := rapid.SampledFrom(pcieSws).Draw(rt, "base")
			tp.Ops = append(tp.Ops, opSpec{Op: "psw", A: base})
			pcieSws = append(pcieSws, next)
			next++
		} else {
			sw := rapid.SampledFrom(pcieSws).Draw(rt, "dsw")
			tp.Ops = append(tp.Ops, opSpec{Op: "dev", A: sw, Dev: len(tp.Devs)})
			tp.Devs = append(tp.Devs, devSpec{Sw: sw, Agent: genAgent(rt, genPortCount(rt), stalls)})
			next += 2
		}
	}
	if len(tp.Devs) < 2 {
		sw := rapid.SampledFrom(pcieSws).Draw(rt, "dsw")
		tp.Ops = append(tp.Ops, opSpec{Op: "dev", A: sw, Dev: len(tp.Devs)})
		tp.Devs = append(tp.Devs, devSpec{Sw: sw, Agent: genAgent(rt, genPortCount(rt), stalls)})
	}
	if len(pcieSws) >= 3 && rapid.IntRange(0, 4).Draw(rt, "xlink") == 0 {
		a := rapid.IntRange(1, len(pcieSws)-1).Draw(rt, "xa")
		b := rapid.IntRange(0, a-1).Draw(rt, "xb")
		tp.Ops = append(tp.Ops, opSpec{Op: "plink", A: pcieSws[a], B: pcieSws[b]})
	}
	nd := len(tp.Devs)
	nl := rapid.IntRange(0, nd+1).Draw(rt, "nnvl")
	for k := 0; k < nl; k++ {
		a := rapid.IntRange(0, nd-1).Draw(rt, "na")
		b := rapid.IntRange(0, nd-2).Draw(rt, "nb")
		if b >= a {
			b++
		}
		tp.Ops = append(tp.Ops, opSpec{Op: "nvl", A: a, B: b, N: rapid.IntRange(1, 2).Draw(rt, "nlinks")})
	}
	if nl == 0 {
		tp.Shape = "nvlink-nolinks"
	}
	return tp
}

func genMeshTopo(rt *rapid.T, stalls bool) topoSpec {
	tp := topoSpec{Shape: "mesh"}
	tp.Dim = [3]int{
		rapid.IntRange(1, 4).Draw(rt, "dx"),
		rapid.IntRange(1, 4).Draw(rt, "dy"),
		rapid.SampledFrom([]int{1, 1, 2}).Draw(rt, "dz"),
	}
	if rapid.IntRange(0, 19).Draw(rt, "grow") == 0 {
		// beyond the default 8x8x2 capacity: the documented automatic growth
		axis := rapid.IntRange(0, 2).Draw(rt, "axis")
		tp.Dim = [3]int{1, 1, 1}
		tp.Dim[axis] = []int{9, 9, 3}[axis]
		tp.Dim[(axis+1)%3] = rapid.IntRange(1, 2).Draw(rt, "other")
		tp.Shape = "mesh-grown"
	}
	withPorts := 0
	for x := 0; x < tp.Dim[0]; x++ {
		for y := 0; y < tp.Dim[1]; y++ {
			for z := 0; z < tp.Dim[2]; z++ {
				np := rapid.SampledFrom([]int{1, 1, 1, 1, 2, 3, 0}).Draw(rt, "tports")
				corner := x == tp.Dim[0]-1 && y == tp.Dim[1]-1 && z == tp.Dim[2]-1
				if corner && np == 0 {
					np = 1 // the far corner fixes the grid size
				}
				if np > 0 {
					withPorts++
				}
				tp.Devs = append(tp.Devs, devSpec{Loc: [3]int{x, y, z}, Agent: genAgent(rt, np, stalls)})
			}
		}
	}
	if withPorts < 2 {
		if tp.Devs[0].Agent.NPorts == 0 {
			tp.Devs[0].Agent.NPorts = 1
		} else {
			tp.Devs[0].Agent.NPorts++ // 1x1x1: a second port on the only tile
		}
	}
	tp.AddRev = rapid.Bool().Draw(rt, "addRev")
	return tp
}

func genTopo(rt *rapid.T, kind string, stalls bool) topoSpec {
	switch kind {
	case "generic":
		return genGenericTopo(rt, stalls, 8)
	case "pcie":
		return genPCIeTopo(rt, stalls)
	case "nvlink":
		return genNVLinkTopo(rt, stalls)
	default:
		return genMeshTopo(rt, stalls)
	}
}

func genKind(rt *rapid.T) string {
	return rapid.SampledFrom([]string{"generic", "generic", "generic", "pcie", "nvlink", "mesh", "mesh"}).Draw(rt, "kind")
}
