package nocchk

import (
	"os"
	"testing"
)

func TestMain(m *testing.M) {
	c03ChildMain() // exits when this process is a C03 child worker (VERIF_CHILD set)
	os.Exit(m.Run())
}
