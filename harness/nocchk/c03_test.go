package nocchk

import (
	"bufio"
	"bytes"
	"crypto/sha256"
	"encoding/hex"
	"encoding/json"
	"fmt"
	"io"
	"os"
	"os/exec"
	"reflect"
	"testing"

	"github.com/sarchlab/akita/v5/hooking"
	"github.com/sarchlab/akita/v5/messaging"
	"github.com/sarchlab/akita/v5/timing"
	"pgregory.net/rapid"

	"verif/harness/kit"
)

// c03Trace is everything one execution of a case exposes: the handled events,
// the messages handed to ports, and the final state, each as a list of
// canonical text elements (so the first differing element can be shown).
type c03Trace struct {
	Events []string   `json:"events,omitempty"`
	Msgs   []string   `json:"msgs,omitempty"`
	Final  [][]string `json:"final,omitempty"` // one list per kind, see c03Kinds
	Digest [3]string  `json:"digest"`          // sha256 of events / messages / final state
	Counts [3]int     `json:"counts"`
	Sig    string     `json:"sig,omitempty"` // panic of the code under test, if any
	Msg    string     `json:"msg,omitempty"`
}

var c03Kinds = []string{"switch", "endpoint", "connection", "port", "agent", "engine+idgen"}

// c03Hook records handled events (on the engine) and sent messages (on ports).
type c03Hook struct {
	engine timing.TimeTeller
	tr     *c03Trace
}

func (h *c03Hook) Func(ctx hooking.HookCtx) {
	switch ctx.Pos {
	case timing.HookPosBeforeEvent:
		evt := ctx.Item.(timing.Event)
		body, err := json.Marshal(evt)
		if err != nil {
			body = []byte("unmarshalable:" + err.Error())
		}
		h.tr.Events = append(h.tr.Events, fmt.Sprintf("t=%d handler=%s type=%s secondary=%v %s",
			evt.Time(), evt.HandlerID(), reflect.TypeOf(evt), evt.IsSecondary(), body))
	case messaging.HookPosPortMsgSend:
		p := ctx.Domain.(messaging.Port)
		m := ctx.Item.(messaging.Msg)
		body, err := json.Marshal(m)
		if err != nil {
			body = []byte("unmarshalable:" + err.Error())
		}
		h.tr.Msgs = append(h.tr.Msgs, fmt.Sprintf("t=%d port=%s type=%s %s", h.engine.CurrentTime(), p.Name(), reflect.TypeOf(m), body))
	}
}

// stateOf: the component's checkpoint form (exported State plus the tick
// scheduler guard) when it offers one, else json.Marshal of the value.
func stateOf(name string, v any) string {
	if cp, ok := v.(interface{ SaveCheckpoint(io.Writer) error }); ok {
		var buf bytes.Buffer
		if err := cp.SaveCheckpoint(&buf); err == nil {
			return name + " " + string(bytes.TrimSpace(buf.Bytes()))
		}
	}
	b, err := json.Marshal(v)
	if err != nil {
		return name + " unmarshalable:" + err.Error()
	}
	return name + " " + string(b)
}

// c03Run executes the case once in this process and returns its trace.
func c03Run(c c29Case) (tr c03Trace, res c29Result) {
	hook := &c03Hook{tr: &tr}
	var allPorts []messaging.Port
	res, sig, msg := c29ExecuteWith(c, func(reg *capReg, b *built) {
		hook.engine = reg.engine
		reg.engine.AcceptHook(hook)
		allPorts = append(allPorts, reg.ports...) // switch ports and endpoint network ports (registration order)
		for _, a := range b.agents {
			allPorts = append(allPorts, a.ports...)
		}
		for _, p := range allPorts {
			p.AcceptHook(hook)
		}
	})
	tr.Sig, tr.Msg = sig, msg
	tr.Final = make([][]string, len(c03Kinds))
	if res.built != nil {
		b, reg := res.built, res.reg
		for _, sw := range b.sw {
			tr.Final[0] = append(tr.Final[0], stateOf(sw.Name(), sw))
		}
		for _, ep := range b.eps {
			tr.Final[1] = append(tr.Final[1], stateOf(ep.Name(), ep.Component))
		}
		for _, cn := range reg.conns {
			tr.Final[2] = append(tr.Final[2], stateOf(cn.Name(), cn))
		}
		for _, p := range allPorts {
			tr.Final[3] = append(tr.Final[3], fmt.Sprintf("%s incoming=%d outgoing=%d", p.Name(), p.NumIncoming(), p.NumOutgoing()))
		}
		for _, a := range b.agents {
			tr.Final[4] = append(tr.Final[4], fmt.Sprintf("%s ticks=%d unsent=%d blocked=%d received=%d", a.Name(), a.State.Ticks, a.unsent(), a.State.Blocked, a.State.Received))
		}
		tr.Final[5] = append(tr.Final[5], fmt.Sprintf("now=%d nextID=%d timedOut=%v", reg.engine.CurrentTime(), timing.GetIDGeneratorNextID(), res.timedOut))
	}
	for i, list := range [][]string{tr.Events, tr.Msgs, flatten(tr.Final)} {
		h := sha256.New()
		for _, e := range list {
			h.Write([]byte(e))
			h.Write([]byte{'\n'})
		}
		tr.Digest[i] = hex.EncodeToString(h.Sum(nil))
		tr.Counts[i] = len(list)
	}
	return tr, res
}

func first(a, _ string) string  { return a }
func second(_, b string) string { return b }

func flatten(ll [][]string) []string {
	var out []string
	for _, l := range ll {
		out = append(out, l...)
	}
	return out
}

// firstDiff returns the index and the two elements where a and b first differ
// ("<end>" when one list is a prefix of the other); idx<0 if equal.
func firstDiff(a, b []string) (int, string, string) {
	for i := 0; i < len(a) || i < len(b); i++ {
		ea, eb := "<end>", "<end>"
		if i < len(a) {
			ea = a[i]
		}
		if i < len(b) {
			eb = b[i]
		}
		if ea != eb {
			return i, ea, eb
		}
	}
	return -1, "", ""
}

// c03Diff compares two traces; returns "" if equal, else (signature suffix, description).
func c03Diff(a, b c03Trace, na, nb string) (sig, msg string) {
	if a.Sig != b.Sig {
		return "panic-differs", fmt.Sprintf("%s: %q, %s: %q", na, a.Sig, nb, b.Sig)
	}
	if i, ea, eb := firstDiff(a.Events, b.Events); i >= 0 {
		return "events", fmt.Sprintf("handled event #%d differs (%d vs %d events):\n  %s: %s\n  %s: %s", i, len(a.Events), len(b.Events), na, first(clipPair(ea, eb)), nb, second(clipPair(ea, eb)))
	}
	if i, ea, eb := firstDiff(a.Msgs, b.Msgs); i >= 0 {
		return "messages", fmt.Sprintf("sent message #%d differs (%d vs %d messages):\n  %s: %s\n  %s: %s", i, len(a.Msgs), len(b.Msgs), na, first(clipPair(ea, eb)), nb, second(clipPair(ea, eb)))
	}
	for k := range c03Kinds {
		var la, lb []string
		if k < len(a.Final) {
			la = a.Final[k]
		}
		if k < len(b.Final) {
			lb = b.Final[k]
		}
		if i, ea, eb := firstDiff(la, lb); i >= 0 {
			return "final-state:" + c03Kinds[k], fmt.Sprintf("final state of %s #%d differs:\n  %s: %s\n  %s: %s", c03Kinds[k], i, na, first(clipPair(ea, eb)), nb, second(clipPair(ea, eb)))
		}
	}
	return "", ""
}

// clipPair shortens two long elements to a window around their first
// differing byte.
func clipPair(a, b string) (string, string) {
	p := 0
	for p < len(a) && p < len(b) && a[p] == b[p] {
		p++
	}
	win := func(s string) string {
		lo, hi := max(0, p-120), min(len(s), p+280)
		out := s[lo:hi]
		if lo > 0 {
			out = fmt.Sprintf("…(+%d)", lo) + out
		}
		if hi < len(s) {
			out += "…"
		}
		return out
	}
	if len(a) <= 400 && len(b) <= 400 {
		return a, b
	}
	return win(a), win(b)
}

// --- child process ---------------------------------------------------------
//
// Starting the test binary costs ~125 ms, so the "other process" is a worker
// that serves several cases over stdin/stdout (one JSON job per line, one
// "C03RESULT <json>" line back) and is replaced by a fresh process every
// c03ChildCases cases. Every job starts with timing.ResetIDGenerator() and a
// fresh engine, exactly like a run in the parent.

const c03ChildCases = 20

type c03Job struct {
	Case c29Case `json:"case"`
	Dump bool    `json:"dump"` // return the full element lists, not only digests
	// Resume != nil: not a C03 job but the resume half of C29's checkpoint leg
	// (answered with a "C29RESULT <json>" line).
	Resume *c29ResumeJob `json:"resume,omitempty"`
}

// c03ChildMain is called from TestMain: with VERIF_CHILD=c03-worker this
// process serves jobs until stdin closes, then exits.
func c03ChildMain() {
	if os.Getenv("VERIF_CHILD") != "c03-worker" {
		return
	}
	in := bufio.NewReaderSize(os.Stdin, 1<<20)
	out := bufio.NewWriter(os.Stdout)
	for {
		line, err := in.ReadBytes('\n')
		if len(line) > 1 {
			var j c03Job
			if jerr := json.Unmarshal(line, &j); jerr != nil {
				fmt.Fprintln(os.Stderr, jerr)
				os.Exit(3)
			}
			if j.Resume != nil {
				b, _ := json.Marshal(c29ResumeRun(*j.Resume))
				out.WriteString("C29RESULT ")
				out.Write(b)
				out.WriteByte('\n')
				out.Flush()
			} else {
				tr, _ := c03Run(j.Case)
				if !j.Dump {
					tr.Events, tr.Msgs, tr.Final = nil, nil, nil
				}
				b, _ := json.Marshal(tr)
				out.WriteString("C03RESULT ")
				out.Write(b)
				out.WriteByte('\n')
				out.Flush()
			}
		}
		if err != nil {
			os.Exit(0)
		}
	}
}

type c03Worker struct {
	cmd        *exec.Cmd
	stdin      io.WriteCloser
	out        *bufio.Reader
	served     int
	spawns     int
	perProcess int // jobs served by one process (0 = c03ChildCases)
}

func (w *c03Worker) stop() {
	if w.cmd != nil {
		_ = w.stdin.Close()
		_ = w.cmd.Wait()
		w.cmd = nil
	}
}

func (w *c03Worker) start() error {
	w.stop()
	cmd := exec.Command(os.Args[0], "-test.run", "^$")
	cmd.Env = append(os.Environ(), "VERIF_CHILD=c03-worker", "VERIF_EVIDENCE_OUT=", "VERIF_REPLAY=")
	cmd.Stderr = io.Discard
	stdin, err := cmd.StdinPipe()
	if err != nil {
		return err
	}
	stdout, err := cmd.StdoutPipe()
	if err != nil {
		return err
	}
	if err := cmd.Start(); err != nil {
		return err
	}
	w.cmd, w.stdin, w.out, w.served = cmd, stdin, bufio.NewReaderSize(stdout, 1<<20), 0
	w.spawns++
	return nil
}

// ask runs the case in the worker process (a fresh one every c03ChildCases jobs).
func (w *c03Worker) ask(c c29Case, dump bool) (c03Trace, error) {
	var tr c03Trace
	raw, err := w.askRaw(c03Job{Case: c, Dump: dump}, "C03RESULT ")
	if err != nil {
		return tr, err
	}
	return tr, json.Unmarshal(raw, &tr)
}

// askRaw sends one job and returns the JSON that follows prefix on the
// worker's result line.
func (w *c03Worker) askRaw(j c03Job, prefix string) ([]byte, error) {
	limit := w.perProcess
	if limit <= 0 {
		limit = c03ChildCases
	}
	if w.cmd == nil || w.served >= limit {
		if err := w.start(); err != nil {
			return nil, err
		}
	}
	w.served++
	b, _ := json.Marshal(j)
	if _, err := w.stdin.Write(append(b, '\n')); err != nil {
		w.stop()
		return nil, fmt.Errorf("child worker: %v", err)
	}
	for {
		line, err := w.out.ReadBytes('\n')
		if bytes.HasPrefix(line, []byte(prefix)) {
			return line[len(prefix):], nil
		}
		if err != nil {
			w.stop()
			return nil, fmt.Errorf("child worker ended without a result: %v", err)
		}
		// anything else the code under test printed is skipped
	}
}

// --- the check ---------------------------------------------------------------

func TestC03NoC(t *testing.T) {
	s := kit.Begin(t, "C03", "networks",
		"C29's generator (all four network builders, devices with stalls/other clocks, scripted traffic) capped at 60 messages / 400 flits per case. "+
			"Each case is built and run R times in this process (R=3 quick, 6 thorough; timing.ResetIDGenerator before each build, fresh engine/registrar/connector) and once more in another process (re-exec of the test binary as a worker that serves 20 cases over a pipe and is then replaced by a fresh process; each job resets the ID generator and builds from scratch). "+
			"Every run yields (a) every handled event in order (engine hook BeforeEvent): time, handler id, Go type, secondary flag, JSON body incl. event ID; (b) every message handed to any port (device ports, endpoint network ports, switch ports; hook PortMsgSend) in order: time, port, Go type, JSON body incl. all MsgMeta fields, flit SeqID/NumFlitInMsg/carried Msg/MsgTaskID; "+
			"(c) final state: SaveCheckpoint form (exported State + tick-scheduler guard) of every switch, endpoint and connection, buffer occupancy of every port, the devices' counters, engine time and timing.GetIDGeneratorNextID(). "+
			"All runs of a case must agree element by element (the child is compared by sha256 of the three lists; on a digest mismatch it is asked again for the full lists to show the first differing element). "+
			"Non-trivial: >=50 handled events, a message crossing >=2 switch-to-switch links, and contention (flits of two messages interleaved at an endpoint, or a back-pressured sender)")
	defer s.End()
	s.Assume("the harness' own devices, hooks and build order are deterministic (plain slices, no maps, no goroutines); goroutine scheduling and wall clock are only exercised as far as the serial engine and these components use them (they do not)")

	worker := &c03Worker{}
	defer worker.stop()
	defer func() { s.Extra("child_processes_started", worker.spawns) }()
	R := kit.Scale(3, 6)
	if os.Getenv("VERIF_SCALE") != "" {
		R = 3
		if kit.Thorough() {
			R = 6
		}
	}

	run := func(f kit.Failer, c c29Case) {
		first, res := c03Run(c)
		if first.Sig != "" {
			// A panic is C29's business; here only its reproducibility counts.
			s.Note(c, false, "panics")
		}
		if res.timedOut {
			f.Fatalf("harness: engine not idle at the virtual-time bound")
		}
		for r := 1; r < R; r++ {
			again, _ := c03Run(c)
			if sig, msg := c03Diff(first, again, "run 1", fmt.Sprintf("run %d", r+1)); sig != "" {
				s.Fail(f, c, "nondeterministic:"+sig, "same process, %s", msg)
				return
			}
		}
		child, err := worker.ask(c, false)
		if err != nil {
			f.Fatalf("harness: %v", err)
		}
		if child.Digest != first.Digest || child.Counts != first.Counts || child.Sig != first.Sig {
			full, err := worker.ask(c, true)
			if err != nil {
				f.Fatalf("harness: %v", err)
			}
			sig, msg := c03Diff(first, full, "parent", "child process")
			if sig == "" {
				// the second child agreed with the parent; the first did not
				for i, name := range []string{"events", "messages", "final-state:digest"} {
					if child.Digest[i] != first.Digest[i] {
						sig = name
						break
					}
				}
				msg = fmt.Sprintf("digests parent %v, first child %v (a second child run agreed with the parent)", first.Digest, child.Digest)
			}
			s.Fail(f, c, "nondeterministic:"+sig, "other process, %s", msg)
			return
		}

		st := c29Classify(c, res, nil)
		classes := []string{"kind:" + c.Conn.Kind, "shape:" + c.Topo.Shape}
		switch n := len(first.Events); {
		case n < 50:
			classes = append(classes, "events<50")
		case n < 1000:
			classes = append(classes, "events<1000")
		default:
			classes = append(classes, "events>=1000")
		}
		if st.interleaved || st.backpressure {
			classes = append(classes, "contention")
		}
		if st.maxHops >= 2 {
			classes = append(classes, "hops>=2")
		}
		if st.stalled {
			classes = append(classes, "stalled-receiver")
		}
		s.AddExtra("handled_events_compared", len(first.Events)*(R+1))
		s.AddExtra("messages_compared", len(first.Msgs)*(R+1))
		s.Note(c, len(first.Events) >= 50 && st.maxHops >= 2 && (st.interleaved || st.backpressure), classes...)
	}

	var c c29Case
	if ok, err := kit.LoadReplay("C03", "networks", &c); ok {
		if err != nil {
			t.Fatal(err)
		}
		run(t, c)
		return
	} else if kit.ReplayMode() {
		t.Skip()
	}

	kit.SetChecks(500, 3000)
	rapid.Check(t, func(rt *rapid.T) { c := genC29Sized(rt, 400, 60); run(rt, c) })
}
