package nocchk

import (
	"fmt"
	"testing"

	"github.com/sarchlab/akita/v5/messaging"
	"github.com/sarchlab/akita/v5/modeling"
	"github.com/sarchlab/akita/v5/noc/networking/switching/endpoint"
	"github.com/sarchlab/akita/v5/noc/packetization"
	"github.com/sarchlab/akita/v5/timing"
	"pgregory.net/rapid"

	"verif/harness/kit"
)

// c31Msg: Dir 0 = from a device port of endpoint A to one of B, 1 = B to A.
type c31Msg struct {
	Dir   int    `json:"dir"`
	SP    int    `json:"sp"`
	DP    int    `json:"dp"`
	Bytes int    `json:"bytes"`
	Class string `json:"class"`
	Rsp   int    `json:"rsp"` // as in msgSpec
}

type c31Side struct {
	InCh   int       `json:"in_ch"`
	OutCh  int       `json:"out_ch"`
	NetBuf int       `json:"net_buf"`
	Agent  agentSpec `json:"agent"`
}

type c31Case struct {
	FlitSize int `json:"flit"`
	// EncodingOverhead = OvNum / 2^OvShift (dyadic, exact in float64).
	OvNum   int        `json:"ov_num"`
	OvShift int        `json:"ov_shift"`
	Sides   [2]c31Side `json:"sides"`
	IDBase  uint64     `json:"id_base"`
	Msgs    []c31Msg   `json:"msgs"`
	// The wire between the two network ports: it holds captured flits until it
	// has Window of them for a direction (all of them once the senders are
	// idle), then releases up to Burst per tick, each time the pooled flit
	// number Picks[i] mod pool size (no Picks = oldest first), and stays idle
	// Gaps[i] ticks after a release.
	Window int   `json:"window"`
	Burst  int   `json:"burst"`
	Picks  []int `json:"picks"`
	Gaps   []int `json:"gaps"`
}

const c31FlitBudget = 1500

// wire is the harness connection between the two endpoints' network ports.
type wire struct {
	*modeling.TickingComponent
	c       *c31Case
	ports   [2]messaging.Port // network port of A, of B
	pool    [2][]messaging.Msg
	flush   bool
	pick    int
	gapIdx  int
	gap     int
	foreign string // something that is not a flit for the peer showed up
}

func (w *wire) PlugIn(p messaging.Port)        { p.SetConnection(w) }
func (w *wire) Unplug(messaging.Port)          { panic("harness: not used") }
func (w *wire) NotifyAvailable(messaging.Port) { w.TickLater() }
func (w *wire) NotifySend()                    { w.TickLater() }

func (w *wire) Tick() bool {
	progress := false
	for i, p := range w.ports {
		for p.PeekOutgoing() != nil {
			m := p.RetrieveOutgoing()
			if m.Meta().Dst != w.ports[1-i].AsRemote() {
				w.foreign = fmt.Sprintf("%T to %q left %s", m, m.Meta().Dst, p.Name())
			}
			w.pool[1-i] = append(w.pool[1-i], m)
			progress = true
		}
	}
	if w.gap > 0 {
		w.gap--
		return true
	}
	for d := 0; d < 2; d++ {
		for k := 0; k < w.c.Burst; k++ {
			n := len(w.pool[d])
			if n == 0 || (!w.flush && n < w.c.Window) {
				break
			}
			if !w.ports[d].CanDeliver() {
				break // NotifyAvailable wakes the wire
			}
			idx := 0
			if len(w.c.Picks) > 0 {
				idx = w.c.Picks[w.pick%len(w.c.Picks)] % n
				w.pick++
			}
			m := w.pool[d][idx]
			w.pool[d] = append(w.pool[d][:idx:idx], w.pool[d][idx+1:]...)
			w.ports[d].Deliver(m)
			progress = true
			if len(w.c.Gaps) > 0 {
				w.gap = w.c.Gaps[w.gapIdx%len(w.c.Gaps)]
				w.gapIdx++
				if w.gap > 0 {
					return true
				}
			}
		}
	}
	return progress
}

func genC31(rt *rapid.T) c31Case {
	c := c31Case{
		FlitSize: rapid.OneOf(rapid.IntRange(1, 256), rapid.SampledFrom([]int{1, 2, 7, 8, 16, 32, 64, 255, 256})).Draw(rt, "flit"),
		OvShift:  rapid.IntRange(0, 6).Draw(rt, "ovshift"),
		IDBase:   rapid.SampledFrom([]uint64{0, 0, 1000, 1 << 32, 1<<53 + 7, 1<<63 + 11}).Draw(rt, "idbase"),
		Burst:    rapid.IntRange(1, 4).Draw(rt, "burst"),
	}
	switch rapid.IntRange(0, 3).Draw(rt, "ovclass") {
	case 0:
		c.OvNum, c.OvShift = 0, 0
	case 1:
		c.OvNum, c.OvShift = 1, 2 // the default 0.25
	default:
		c.OvNum = rapid.IntRange(0, 2<<c.OvShift).Draw(rt, "ovnum") // 0 .. 2.0
	}
	for i := range c.Sides {
		c.Sides[i] = c31Side{
			InCh:   rapid.IntRange(1, 4).Draw(rt, "inch"),
			OutCh:  rapid.IntRange(1, 4).Draw(rt, "outch"),
			NetBuf: rapid.SampledFrom([]int{1, 2, 4, 4, 8}).Draw(rt, "netbuf"),
			Agent:  genAgent(rt, rapid.IntRange(1, 3).Draw(rt, "nports"), rapid.IntRange(0, 3).Draw(rt, "stalls") == 0),
		}
		c.Sides[i].Agent.FreqMHz = 0
	}

	ncls := rapid.SampledFrom([]int{1, 3, 6, 12, 24, 40}).Draw(rt, "nmsgClass")
	nmsg := rapid.IntRange(max(1, ncls/2), ncls).Draw(rt, "nmsg")
	bidir := rapid.IntRange(0, 3).Draw(rt, "bidir") == 0
	budget := c31FlitBudget
	perMsg := c31FlitBudget / nmsg
	for i := 0; i < nmsg; i++ {
		m := c31Msg{Class: rapid.SampledFrom([]string{"", "mem.ReadReq", "X"}).Draw(rt, "class")}
		if bidir {
			m.Dir = rapid.IntRange(0, 1).Draw(rt, "dir")
		}
		m.SP = rapid.IntRange(0, c.Sides[m.Dir].Agent.NPorts-1).Draw(rt, "sp")
		m.DP = rapid.IntRange(0, c.Sides[1-m.Dir].Agent.NPorts-1).Draw(rt, "dp")
		// byte counts: boundaries of the flit grid, small, and up to 10000
		switch rapid.IntRange(0, 5).Draw(rt, "bclass") {
		case 0:
			m.Bytes = rapid.IntRange(0, 3).Draw(rt, "bytes")
		case 1:
			k := rapid.IntRange(1, 12).Draw(rt, "k")
			m.Bytes = max(0, k*c.FlitSize+rapid.IntRange(-2, 2).Draw(rt, "d"))
		case 2, 3:
			m.Bytes = rapid.IntRange(0, min(10000, 16*c.FlitSize)).Draw(rt, "bytes")
		default:
			m.Bytes = rapid.IntRange(0, 10000).Draw(rt, "bytes")
		}
		// keep the case within the flit budget (bytes scaled down, never the formula bent)
		for expFlits(m.Bytes, c.FlitSize, c.OvNum, c.OvShift) > max(2, min(perMsg*3, budget)) {
			m.Bytes /= 2
		}
		budget -= expFlits(m.Bytes, c.FlitSize, c.OvNum, c.OvShift)
		if rapid.IntRange(0, 2).Draw(rt, "isrsp") == 0 {
			m.Rsp = rapid.IntRange(1, nmsg+3).Draw(rt, "rsp")
		}
		c.Msgs = append(c.Msgs, m)
		if budget <= 2 {
			break
		}
	}

	switch rapid.IntRange(0, 5).Draw(rt, "wclass") {
	case 0:
		c.Window = 1 // pass-through
	case 1, 2:
		c.Window = rapid.IntRange(2, 40).Draw(rt, "window")
	default:
		c.Window = 1 << 20 // capture everything first, then release
	}
	if rapid.IntRange(0, 4).Draw(rt, "fifo") != 0 {
		c.Picks = rapid.SliceOfN(rapid.IntRange(0, 4000), 1, 64).Draw(rt, "picks")
	}
	if rapid.IntRange(0, 2).Draw(rt, "gaps") == 0 {
		c.Gaps = rapid.SliceOfN(rapid.SampledFrom([]int{0, 0, 0, 1, 2, 5, 17}), 1, 8).Draw(rt, "gapl")
	}
	return c
}

func TestC31Packetization(t *testing.T) {
	s := kit.Begin(t, "C31", "packetize",
		"two endpoints (endpoint.MakeBuilder, 1 GHz, flit size 1-256, EncodingOverhead = k/2^j with j<=6 and 0<=overhead<=2, 1-4 input and output channels, network port buffers 1-8, 1-3 device ports each) joined by a harness connection that captures every flit leaving a network port and re-injects it at the peer's network port: pass-through, sliding window of 2-40 pooled flits, or capture-everything-then-release; released flit = drawn index into the pool (so flits of different messages interleave and flits of one message arrive permuted), 1-4 per tick, drawn idle gaps 0-17 ticks; "+
			"1-40 messages one way or both ways, 0-10000 bytes weighted to multiples of the flit size +-2 (case capped at 1500 flits by halving byte counts), IDs from the library generator; devices drain always or with stalls. "+
			"Oracle: encoded size = bytes + ceil(bytes*overhead) (outgoingmw.go / endpoint README), flits(m) = max(1, ceil(encoded/flit size)); the sending endpoint emits exactly flits(m) flits whose Msg equals m's six metadata fields and whose NumFlitInMsg = flits(m), and no other flit; "+
			"the receiving endpoint hands m (packetization.AssembledMsg, metadata equal) to the port named by Dst exactly once, and at that moment all flits(m) flits of m have been handed to its network port; every delivered object matches one sent message; when the engine is idle after the wire has released everything, every message has been delivered. "+
			"Non-trivial: at least 3 multi-flit messages were partially received at the same time at one endpoint and one message's flits arrived out of SeqID order")
	defer s.End()
	s.Assume("SeqID is used only to classify cases (arrival out of order), not asserted")

	run := func(f kit.Failer, c c31Case) {
		timing.ResetIDGenerator()
		timing.GetIDGenerator()
		timing.SetIDGeneratorNextID(c.IDBase)
		reg := newCapReg()
		freq := 1 * timing.GHz

		var eps [2]*endpoint.Comp
		var agents [2]*agent
		w := &wire{c: &c}
		ok, sig, msg := guard(func() {
			for i := range eps {
				name := []string{"A", "B"}[i]
				agents[i] = newAgent(reg.engine, "Dev"+name, c.Sides[i].Agent, freq)
				spec := endpoint.DefaultSpec()
				spec.Freq = freq
				spec.FlitByteSize = c.FlitSize
				spec.EncodingOverhead = float64(c.OvNum) / float64(int(1)<<c.OvShift)
				spec.NumInputChannels = c.Sides[i].InCh
				spec.NumOutputChannels = c.Sides[i].OutCh
				eps[i] = endpoint.MakeBuilder().WithRegistrar(reg).WithSpec(spec).
					WithResources(endpoint.Resources{DevicePorts: agents[i].ports}).Build("EP" + name)
				eps[i].SetNetworkPort(modeling.MakePortBuilder().WithRegistrar(reg).WithComponent(eps[i]).
					WithSpec(modeling.PortSpec{BufSize: c.Sides[i].NetBuf}).Build("NetworkPort"))
			}
			eps[0].SetDefaultSwitchDst(eps[1].NetworkPort().AsRemote())
			eps[1].SetDefaultSwitchDst(eps[0].NetworkPort().AsRemote())
			w.TickingComponent = modeling.NewTickingComponent("Wire", reg.engine, freq, w)
			for i := range eps {
				w.ports[i] = eps[i].NetworkPort()
				w.PlugIn(w.ports[i])
			}
		})
		if !ok {
			s.Fail(f, c, "build:"+sig, "%s", msg)
			return
		}

		rec := &recorder{engine: reg.engine}
		for i := range eps {
			eps[i].NetworkPort().AcceptHook(rec)
			for _, p := range agents[i].ports {
				p.AcceptHook(rec)
			}
		}

		var sent []messaging.MsgMeta
		byID := map[uint64]int{}
		want := map[uint64]int{} // expected flit count
		for i, m := range c.Msgs {
			meta := messaging.MsgMeta{
				ID:           timing.GetIDGenerator().Generate(),
				Src:          agents[m.Dir].ports[m.SP].AsRemote(),
				Dst:          agents[1-m.Dir].ports[m.DP].AsRemote(),
				TrafficClass: m.Class,
				TrafficBytes: m.Bytes,
			}
			if m.Rsp > 0 {
				if m.Rsp-1 < i {
					meta.RspTo = sent[m.Rsp-1].ID
				} else {
					meta.RspTo = uint64(m.Rsp)
				}
			}
			sent = append(sent, meta)
			byID[meta.ID] = i
			want[meta.ID] = expFlits(m.Bytes, c.FlitSize, c.OvNum, c.OvShift)
			agents[m.Dir].push(meta)
		}
		for _, a := range agents {
			a.TickLater()
		}

		total := 0
		for _, n := range want {
			total += n
		}
		gapMax := 0
		for _, g := range c.Gaps {
			gapMax = max(gapMax, g)
		}
		bound := timing.VTimeInPicoSec(uint64(5000+50*(total+len(sent))*(gapMax+8)) * 1000)
		timedOut := false
		ok, sig, msg = guard(func() {
			_ = reg.engine.RunUntil(bound) // phase 1: senders run dry, the wire holds back what its window keeps
			w.flush = true
			w.TickLater()
			_ = reg.engine.RunUntil(2 * bound) // phase 2: the wire releases the rest
			_ = reg.engine.RunUntil(2*bound + 10_000)
			timedOut = reg.engine.CurrentTime() > 2*bound
		})
		if !ok {
			s.Fail(f, c, "run:"+sig, "%s", msg)
			return
		}
		if timedOut {
			f.Fatalf("harness: engine not idle at the virtual-time bound")
		}
		if w.foreign != "" {
			s.Fail(f, c, "flit-envelope", "not addressed to the peer network port: %s", w.foreign)
			return
		}

		netPort := map[string]int{eps[0].NetworkPort().Name(): 0, eps[1].NetworkPort().Name(): 1}
		emitted := map[uint64]int{}
		arrived := map[uint64]int{}
		delivered := map[uint64]int{}
		partial := [2]map[uint64]int{{}, {}} // per receiving endpoint: multi-flit messages partially arrived
		lastSeq := map[uint64]int{}
		maxPartial, permuted := 0, false
		for _, e := range rec.events {
			side, isNet := netPort[e.Port]
			if isNet {
				fl, isFlit := e.Msg.(packetization.Flit)
				if !isFlit {
					s.Fail(f, c, "not-a-flit", "%T on network port %s", e.Msg, e.Port)
					return
				}
				i, known := byID[fl.Msg.ID]
				if !known {
					s.Fail(f, c, "phantom-flit", "flit for unknown message %d: %+v", fl.Msg.ID, fl)
					return
				}
				if e.Pos == messaging.HookPosPortMsgSend {
					if c.Msgs[i].Dir != side {
						s.Fail(f, c, "flit-wrong-side", "flit of message %+v emitted by the endpoint of side %d", sent[i], side)
						return
					}
					if fl.Msg != sent[i] {
						s.Fail(f, c, "flit-identity:"+diffMeta(sent[i], fl.Msg), "flit carries %+v, message is %+v", fl.Msg, sent[i])
						return
					}
					if fl.NumFlitInMsg != want[fl.Msg.ID] {
						s.Fail(f, c, "flit-count-field", "message %+v (flit size %d, overhead %d/2^%d): NumFlitInMsg=%d, encoded size requires %d",
							sent[i], c.FlitSize, c.OvNum, c.OvShift, fl.NumFlitInMsg, want[fl.Msg.ID])
						return
					}
					emitted[fl.Msg.ID]++
					if emitted[fl.Msg.ID] > want[fl.Msg.ID] {
						s.Fail(f, c, "too-many-flits", "message %+v: flit number %d emitted, encoded size requires %d", sent[i], emitted[fl.Msg.ID], want[fl.Msg.ID])
						return
					}
				} else {
					arrived[fl.Msg.ID]++
					if fl.NumFlitInMsg > 1 {
						partial[side][fl.Msg.ID]++
						if partial[side][fl.Msg.ID] >= fl.NumFlitInMsg {
							delete(partial[side], fl.Msg.ID)
						}
						maxPartial = max(maxPartial, len(partial[side]))
					}
					if prev, seen := lastSeq[fl.Msg.ID]; seen && fl.SeqID < prev {
						permuted = true
					}
					lastSeq[fl.Msg.ID] = fl.SeqID
				}
				continue
			}
			// device port
			if e.Pos != messaging.HookPosPortMsgRecvd {
				continue
			}
			am, isAssembled := e.Msg.(packetization.AssembledMsg)
			if !isAssembled {
				s.Fail(f, c, "delivered-type", "port %s received a %T", e.Port, e.Msg)
				return
			}
			meta := am.Meta()
			i, known := byID[meta.ID]
			if !known {
				s.Fail(f, c, "phantom", "port %s received unknown message %+v", e.Port, meta)
				return
			}
			if meta != sent[i] {
				s.Fail(f, c, "merged-or-changed:"+diffMeta(sent[i], meta), "sent %+v, delivered %+v", sent[i], meta)
				return
			}
			if string(meta.Dst) != e.Port {
				s.Fail(f, c, "wrong-port", "message %+v delivered at %s", meta, e.Port)
				return
			}
			if arrived[meta.ID] < want[meta.ID] {
				s.Fail(f, c, "early-delivery", "message %+v delivered when %d of its %d flits had arrived", meta, arrived[meta.ID], want[meta.ID])
				return
			}
			delivered[meta.ID]++
			if delivered[meta.ID] > 1 {
				s.Fail(f, c, "duplicate", "message %+v delivered %d times", meta, delivered[meta.ID])
				return
			}
		}
		for i, m := range sent {
			if emitted[m.ID] != want[m.ID] {
				s.Fail(f, c, "too-few-flits", "message %+v (flit size %d, overhead %d/2^%d): %d flits emitted, encoded size requires %d",
					m, c.FlitSize, c.OvNum, c.OvShift, emitted[m.ID], want[m.ID])
				return
			}
			if delivered[m.ID] != 1 {
				s.Fail(f, c, "never-delivered", "message %d %+v: all %d flits arrived (%d), engine idle, not delivered", i, m, want[m.ID], arrived[m.ID])
				return
			}
		}

		multi := 0
		for _, n := range want {
			if n > 1 {
				multi++
			}
		}
		classes := []string{fmt.Sprintf("partial-at-once:%d", min(maxPartial, 4))}
		for name, on := range map[string]bool{"permuted": permuted, "overhead=0": c.OvNum == 0, "pass-through": c.Window == 1 && len(c.Picks) == 0,
			"capture-all": c.Window > 1000, "gaps": len(c.Gaps) > 0, "bidirectional": len(emitted) > 0 && func() bool {
				a, b := false, false
				for _, m := range c.Msgs {
					if m.Dir == 0 {
						a = true
					} else {
						b = true
					}
				}
				return a && b
			}(), "multi-flit>=3": multi >= 3, "flits>=500": total >= 500} {
			if on {
				classes = append(classes, name)
			}
		}
		s.Note(c, maxPartial >= 3 && permuted, classes...)
	}

	var c c31Case
	if ok, err := kit.LoadReplay("C31", "packetize", &c); ok {
		if err != nil {
			t.Fatal(err)
		}
		run(t, c)
		return
	} else if kit.ReplayMode() {
		t.Skip()
	}

	kit.SetChecks(3000, 30000)
	rapid.Check(t, func(rt *rapid.T) { c := genC31(rt); run(rt, c) })
}

// TestC31FlitCountGrid enumerates the flit-count formula on a grid around the
// flit-size boundaries (see the rule string): one message per case through a
// pass-through wire.
func TestC31FlitCountGrid(t *testing.T) {
	s := kit.Begin(t, "C31", "flit-count-grid",
		"grid enumeration through a real endpoint pair: flit size in {1..16,31,32,33,63,64,255,256} x overhead k/8 (k=0..16) x bytes in {0..min(40,3*flit+2)} + {m*flit+d : m=1..3, d=-2..2} + {4095,4096,9999,10000} (combinations needing more than 3000 flits are skipped): one message A -> pass-through wire -> B; the number of flits emitted and every NumFlitInMsg must equal max(1, ceil((bytes+ceil(bytes*overhead))/flit)) and the message is delivered exactly once. Non-trivial: bytes>0 and overhead>0")
	defer s.End()
	if kit.ReplayMode() {
		t.Skip()
	}
	flits := []int{31, 32, 33, 63, 64, 255, 256}
	for f := 1; f <= 16; f++ {
		flits = append(flits, f)
	}
	n := 0
	for _, fs := range flits {
		for k := 0; k <= 16; k++ {
			var bytes []int
			for b := 0; b <= min(40, 3*fs+2); b++ {
				bytes = append(bytes, b)
			}
			for m := 1; m <= 3; m++ {
				for d := -2; d <= 2; d++ {
					if m*fs+d > 40 {
						bytes = append(bytes, m*fs+d)
					}
				}
			}
			bytes = append(bytes, 4095, 4096, 9999, 10000)
			for _, b := range bytes {
				if expFlits(b, fs, k, 3) > 3000 {
					continue
				}
				n++
				c := c31Case{FlitSize: fs, OvNum: k, OvShift: 3, Window: 1, Burst: 4,
					Msgs: []c31Msg{{Bytes: b}}}
				for i := range c.Sides {
					c.Sides[i] = c31Side{InCh: 4, OutCh: 4, NetBuf: 8, Agent: agentSpec{NPorts: 1, BufSize: 1, SendPerTick: 1, RecvPerTick: 1, DrainPeriod: 1}}
				}
				got, delivered, sig, msg := c31One(c)
				if sig != "" {
					s.Fail(t, c, sig, "%s", msg)
					return
				}
				if want := expFlits(b, fs, k, 3); got != want || delivered != 1 {
					s.Fail(t, c, "flit-count-grid", "bytes=%d flit=%d overhead=%d/8: %d flits emitted (want %d), delivered %d times", b, fs, k, got, want, delivered)
					return
				}
				s.Note(c, b > 0 && k > 0, fmt.Sprintf("flit:%d", fs))
			}
		}
	}
}

// c31One sends the single message of c through a pass-through wire and
// returns the number of flits emitted and the number of deliveries.
func c31One(c c31Case) (emitted, delivered int, sig, msg string) {
	timing.ResetIDGenerator()
	reg := newCapReg()
	freq := 1 * timing.GHz
	var eps [2]*endpoint.Comp
	var agents [2]*agent
	w := &wire{c: &c}
	rec := &recorder{engine: reg.engine}
	ok, sig, msg := guard(func() {
		for i := range eps {
			name := []string{"A", "B"}[i]
			agents[i] = newAgent(reg.engine, "Dev"+name, c.Sides[i].Agent, freq)
			spec := endpoint.DefaultSpec()
			spec.Freq = freq
			spec.FlitByteSize = c.FlitSize
			spec.EncodingOverhead = float64(c.OvNum) / float64(int(1)<<c.OvShift)
			spec.NumInputChannels = c.Sides[i].InCh
			spec.NumOutputChannels = c.Sides[i].OutCh
			eps[i] = endpoint.MakeBuilder().WithRegistrar(reg).WithSpec(spec).
				WithResources(endpoint.Resources{DevicePorts: agents[i].ports}).Build("EP" + name)
			eps[i].SetNetworkPort(modeling.MakePortBuilder().WithRegistrar(reg).WithComponent(eps[i]).
				WithSpec(modeling.PortSpec{BufSize: c.Sides[i].NetBuf}).Build("NetworkPort"))
		}
		eps[0].SetDefaultSwitchDst(eps[1].NetworkPort().AsRemote())
		eps[1].SetDefaultSwitchDst(eps[0].NetworkPort().AsRemote())
		w.TickingComponent = modeling.NewTickingComponent("Wire", reg.engine, freq, w)
		for i := range eps {
			w.ports[i] = eps[i].NetworkPort()
			w.PlugIn(w.ports[i])
		}
		eps[0].NetworkPort().AcceptHook(rec)
		agents[1].ports[0].AcceptHook(rec)
		meta := messaging.MsgMeta{ID: timing.GetIDGenerator().Generate(), Src: agents[0].ports[0].AsRemote(),
			Dst: agents[1].ports[0].AsRemote(), TrafficBytes: c.Msgs[0].Bytes}
		agents[0].push(meta)
		agents[0].TickLater()
		_ = reg.engine.RunUntil(timing.VTimeInPicoSec(20_000_000_000))
	})
	if !ok {
		return 0, 0, "run:" + sig, msg
	}
	for _, e := range rec.events {
		if fl, isFlit := e.Msg.(packetization.Flit); isFlit && e.Pos == messaging.HookPosPortMsgSend {
			emitted++
			if fl.NumFlitInMsg != expFlits(c.Msgs[0].Bytes, c.FlitSize, c.OvNum, c.OvShift) {
				return emitted, 0, "flit-count-field", fmt.Sprintf("NumFlitInMsg=%d for bytes=%d flit=%d overhead=%d/2^%d", fl.NumFlitInMsg, c.Msgs[0].Bytes, c.FlitSize, c.OvNum, c.OvShift)
			}
		}
		if _, isAsm := e.Msg.(packetization.AssembledMsg); isAsm && e.Pos == messaging.HookPosPortMsgRecvd {
			delivered++
		}
	}
	return emitted, delivered, "", ""
}
