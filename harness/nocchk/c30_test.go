package nocchk

import (
	"fmt"
	"strings"
	"testing"

	"github.com/sarchlab/akita/v5/messaging"
	"github.com/sarchlab/akita/v5/noc/networking/switching/switches"
	"github.com/sarchlab/akita/v5/timing"
	"pgregory.net/rapid"

	"verif/harness/kit"
)

// c30Case: one connector object, a sequence of networks built with it.
type c30Case struct {
	Conn connSpec   `json:"conn"`
	Nets []topoSpec `json:"nets"`
}

// sigReuse is the signature of the known finding "NewNetwork keeps the device
// nodes of the previous network".
const sigReuse = "reuse-after-network-with-devices:EstablishRoute-panic"

// route is the result of following the routing tables from one switch towards
// one device port.
type route struct {
	Path []int  // switch indices visited, starting switch first
	EP   int    // index of the endpoint reached (-1 if none)
	Err  string // "" if the walk ended at an endpoint
}

// portOwners maps every switch port / endpoint network port of a built network
// to its owner. Switch i is encoded as i, endpoint j as -(j+1).
func portOwners(b *built) map[messaging.RemotePort]int {
	own := map[messaging.RemotePort]int{}
	for i, sw := range b.sw {
		for _, p := range sw.PortsInGroup("Port") {
			own[p.AsRemote()] = i
		}
	}
	for j, ep := range b.eps {
		own[ep.NetworkPort().AsRemote()] = -(j + 1)
	}
	return own
}

// follow walks hop by hop: the switch's table (switches.GetRoutingTable) names
// one of the switch's own ports (State.PortComplexes[i].LocalPortName); that
// port complex's RemotePort is the peer the flit is sent to.
func follow(b *built, own map[messaging.RemotePort]int, from int, dst messaging.RemotePort) route {
	r := route{EP: -1, Path: []int{from}}
	seen := map[int]bool{from: true}
	cur := from
	for {
		out := switches.GetRoutingTable(b.sw[cur]).FindPort(dst)
		if out == "" {
			r.Err = fmt.Sprintf("switch %d has no route", cur)
			return r
		}
		var remote messaging.RemotePort
		found := false
		for _, pc := range b.sw[cur].State.PortComplexes {
			if pc.LocalPortName == string(out) {
				remote, found = pc.RemotePort, true
				break
			}
		}
		if !found {
			r.Err = fmt.Sprintf("switch %d routes to %q which is not one of its ports", cur, out)
			return r
		}
		o, known := own[remote]
		if !known {
			r.Err = fmt.Sprintf("switch %d port %q leads to %q which is not part of this network", cur, out, remote)
			return r
		}
		if o < 0 {
			r.EP = -o - 1
			return r
		}
		if seen[o] {
			r.Path = append(r.Path, o)
			r.Err = fmt.Sprintf("loop: switch %d visited twice", o)
			return r
		}
		seen[o] = true
		r.Path = append(r.Path, o)
		cur = o
	}
}

// checkRoutes judges one built network; returns (sig, message) of the first
// violation, and statistics for the classification.
type routeStats struct {
	pairs, maxHops, cyclicChoice int
}

func checkRoutes(cs connSpec, tp topoSpec, b *built) (sig, msg string, st routeStats) {
	m := b.model
	if len(b.sw) != m.N {
		return "built-switch-count", fmt.Sprintf("the build calls describe %d switches, the connector built %d", m.N, len(b.sw)), st
	}
	if len(b.eps) != len(tp.Devs) {
		return "built-endpoint-count", fmt.Sprintf("the build calls describe %d devices, the connector built %d endpoints", len(tp.Devs), len(b.eps)), st
	}
	own := portOwners(b)
	dist := m.bfs()
	shortest := cs.Kind == "pcie" || cs.Kind == "mesh" || (cs.Kind == "generic" && cs.Router != "bw")
	for from := 0; from < m.N; from++ {
		for d, a := range b.agents {
			for _, p := range a.ports {
				var r route
				ok, psig, pmsg := guard(func() { r = follow(b, own, from, p.AsRemote()) })
				if !ok {
					return "walk:" + psig, pmsg, st
				}
				where := fmt.Sprintf("%s: from switch %d to %s (device %d on switch %d)", cs.Kind, from, p.Name(), d, m.DevHost[d])
				if r.Err != "" {
					s := "no-route"
					if strings.HasPrefix(r.Err, "loop") {
						s = "loop"
					}
					return s + ":" + cs.Kind + routerTag(cs), fmt.Sprintf("%s: %s; path %v", where, r.Err, r.Path), st
				}
				if b.eps[r.EP] != hostEndpoint(p) || r.EP != d {
					return "wrong-endpoint:" + cs.Kind + routerTag(cs), fmt.Sprintf("%s: walk %v ends at endpoint %d (%s)", where, r.Path, r.EP, b.eps[r.EP].Name()), st
				}
				for k := 1; k < len(r.Path); k++ {
					if !m.hasEdge(r.Path[k-1], r.Path[k]) {
						return "phantom-link:" + cs.Kind, fmt.Sprintf("%s: hop %d->%d is not a link that was built", where, r.Path[k-1], r.Path[k]), st
					}
				}
				hops := len(r.Path) - 1 // switch-to-switch links; the final hop switch->endpoint is not counted
				want := dist[from][m.DevHost[d]]
				if cs.Kind == "mesh" {
					// Manhattan distance between the tile of `from` and the destination tile.
					dy, dz := tp.Dim[1], tp.Dim[2]
					fx, fy, fz := from/(dy*dz), (from/dz)%dy, from%dz
					l := tp.Devs[d].Loc
					want = abs(fx-l[0]) + abs(fy-l[1]) + abs(fz-l[2])
				}
				if shortest && hops != want {
					return "not-shortest:" + cs.Kind + routerTag(cs), fmt.Sprintf("%s: %d switch-to-switch hops %v, shortest is %d", where, hops, r.Path, want), st
				}
				st.pairs++
				if hops > st.maxHops {
					st.maxHops = hops
				}
				if want >= 2 {
					st.cyclicChoice++
				}
			}
		}
	}
	return "", "", st
}

func routerTag(cs connSpec) string {
	if cs.Router == "" {
		return ""
	}
	return "/" + cs.Router
}

func abs(x int) int {
	if x < 0 {
		return -x
	}
	return x
}

// allRoutes: every (switch, device port) walk of a network, for the reuse comparison.
func allRoutes(b *built) [][]int {
	own := portOwners(b)
	var out [][]int
	for from := range b.sw {
		for _, a := range b.agents {
			for _, p := range a.ports {
				r := follow(b, own, from, p.AsRemote())
				row := append([]int{}, r.Path...)
				row = append(row, -(r.EP + 1))
				if r.Err != "" {
					row = append(row, -1000)
				}
				out = append(out, row)
			}
		}
	}
	return out
}

func hasDevices(tp topoSpec) bool { return len(tp.Devs) > 0 }

func firstDiffRows(a, b [][]int) (int, []int, []int) {
	for i := 0; i < len(a) || i < len(b); i++ {
		var ra, rb []int
		if i < len(a) {
			ra = a[i]
		}
		if i < len(b) {
			rb = b[i]
		}
		if fmt.Sprint(ra) != fmt.Sprint(rb) {
			return i, ra, rb
		}
	}
	return -1, nil, nil
}

func netName(k int) string { return "Net" + string(rune('A'+k)) }

func genC30(rt *rapid.T, steer bool) (c c30Case, excluded bool) {
	kind := genKind(rt)
	c.Conn = genConn(rt, kind)
	n := rapid.SampledFrom([]int{1, 1, 2, 2, 3}).Draw(rt, "nnets")
	if kind == "nvlink" {
		n = 1 // see the rule: reuse of the NVLink wrapper is not judged
	}
	for k := 0; k < n; k++ {
		tp := genTopo(rt, kind, false)
		if kind == "generic" && rapid.Bool().Draw(rt, "grow") {
			tp = growTopo(rt, tp)
		}
		c.Nets = append(c.Nets, tp)
	}
	if steer && n > 1 && kind != "mesh" {
		// Known finding: a router-based connector reused after a network with
		// devices. Steer the case out of that class: earlier networks get no
		// devices (generic) / the sequence is cut to the last network (pcie,
		// whose root complex always has a device).
		excluded = true
		if kind == "pcie" {
			c.Nets = c.Nets[n-1:]
		} else {
			for k := 0; k < n-1; k++ {
				c.Nets[k].Devs = nil
				if c.Nets[k].NSw == 1 { // a lone switch without any link is not a network one can route
					c.Nets[k].NSw = 2
					c.Nets[k].Edges = []edgeSpec{{A: 0, B: 1, LatA: 1, LatB: 1, ChA: 1, ChB: 1, BufA: 1, BufB: 1}}
				}
				c.Nets[k].Rounds = nil
			}
		}
	}
	return c, excluded
}

// growTopo turns a generic topology into a multi-round build of the same
// topology: 1-3 intermediate EstablishRoute() calls, each on a connected part
// (every switch of a part has a link or a device, as the routers require).
//
// The switches are relabelled in a drawn connected order (every switch but the
// first has a link to an earlier one), so that "the first k switches" is a
// connected part for every k. Each switch has one drawn anchor link to an
// earlier switch that is built in the round that adds the switch; every other
// link (a chord: it closes a cycle or doubles a link) and every device is
// built in a drawn round at or after the first one in which its switches
// exist. Links and devices are then ordered by round (stable), so a round is a
// prefix of both lists and a one-go build issues the links among themselves
// and the devices among themselves in the same order as the rounds do.
func growTopo(rt *rapid.T, tp topoSpec) topoSpec {
	n := tp.NSw
	nr := rapid.IntRange(1, 3).Draw(rt, "extraRounds")

	// connected order
	adj := model(connSpec{Kind: "generic"}, tp).adj()
	order := []int{rapid.IntRange(0, n-1).Draw(rt, "growStart")}
	placed := map[int]bool{order[0]: true}
	for len(order) < n {
		var cand []int
		seen := map[int]bool{}
		for _, u := range order {
			for _, v := range adj[u] {
				if !placed[v] && !seen[v] {
					seen[v] = true
					cand = append(cand, v)
				}
			}
		}
		v := rapid.SampledFrom(cand).Draw(rt, "growNext")
		placed[v] = true
		order = append(order, v)
	}
	label := make([]int, n)
	for pos, old := range order {
		label[old] = pos
	}
	edges := append([]edgeSpec{}, tp.Edges...)
	for i := range edges {
		edges[i].A, edges[i].B = label[edges[i].A], label[edges[i].B]
	}
	devs := append([]devSpec{}, tp.Devs...)
	for i := range devs {
		devs[i].Sw = label[devs[i].Sw]
	}

	// switches per round
	k := make([]int, nr+1)
	for r := 0; r < nr; r++ {
		k[r] = rapid.IntRange(1, n).Draw(rt, "roundSw")
	}
	k[nr] = n
	for i := 1; i < nr; i++ { // insertion sort of k[:nr]
		for j := i; j > 0 && k[j-1] > k[j]; j-- {
			k[j-1], k[j] = k[j], k[j-1]
		}
	}
	devOn0 := -1
	for i, d := range devs {
		if d.Sw == 0 {
			devOn0 = i
			break
		}
	}
	if k[0] == 1 && devOn0 < 0 {
		// a lone switch without link or device cannot be routed (n >= 2 here:
		// the devices sit elsewhere)
		for r := 0; r < nr; r++ {
			k[r] = max(k[r], 2)
		}
	}
	earliest := func(sw int) int {
		for r := 0; r <= nr; r++ {
			if k[r] > sw {
				return r
			}
		}
		return nr
	}

	// rounds of links and devices
	anchor := make([]int, n) // index of the anchor link of each switch
	for i := range anchor {
		anchor[i] = -1
	}
	for sw := 1; sw < n; sw++ {
		var mine []int
		for i, e := range edges {
			if max(e.A, e.B) == sw {
				mine = append(mine, i)
			}
		}
		anchor[sw] = rapid.SampledFrom(mine).Draw(rt, "anchor")
	}
	eRound := make([]int, len(edges))
	for i, e := range edges {
		sw := max(e.A, e.B)
		eRound[i] = earliest(sw)
		if anchor[sw] != i {
			eRound[i] = rapid.IntRange(eRound[i], nr).Draw(rt, "linkRound")
		}
	}
	dRound := make([]int, len(devs))
	for i, d := range devs {
		dRound[i] = rapid.IntRange(earliest(d.Sw), nr).Draw(rt, "devRound")
	}
	if k[0] == 1 {
		dRound[devOn0] = 0
	}

	out := tp
	out.Edges, out.Devs, out.Rounds = nil, nil, nil
	for r := 0; r <= nr; r++ {
		for i, e := range edges {
			if eRound[i] == r {
				out.Edges = append(out.Edges, e)
			}
		}
		for i, d := range devs {
			if dRound[i] == r {
				out.Devs = append(out.Devs, d)
			}
		}
		if r < nr {
			out.Rounds = append(out.Rounds, roundSpec{NSw: k[r], NEdges: len(out.Edges), NDevs: len(out.Devs)})
		}
	}
	return out
}

// routeMap: every (switch, device port) walk of a network by name.
func routeMap(b *built) map[string]string {
	own := portOwners(b)
	out := map[string]string{}
	for from := range b.sw {
		for _, a := range b.agents {
			for _, p := range a.ports {
				r := follow(b, own, from, p.AsRemote())
				out[fmt.Sprintf("%d>%s", from, p.Name())] = fmt.Sprint(r.Path, r.EP, r.Err)
			}
		}
	}
	return out
}

func TestC30Routing(t *testing.T) {
	s := kit.Begin(t, "C30", "routing",
		"C29's connector configurations and topologies without traffic; 1-3 networks built one after the other with the same connector object (NVLink: one network only - nvlink.Connector.CreateNetwork does not promise a reset and keeps its own device/PCIe-switch numbering, so reuse of that wrapper is outside what is judged). "+
			"Walk: from every switch to every device port follow switches.GetRoutingTable(sw).FindPort -> the switch's port complex with that local port -> its RemotePort, until an endpoint's network port is reached. "+
			"Asserted for every kind: the walk ends at the endpoint the port is plugged into, uses only links that were built, never visits a switch twice. "+
			"Hop count = number of switch-to-switch links walked (the last hop switch->endpoint is not counted): equals the harness' BFS distance for the generic connector with the default/explicit Floyd-Warshall router and for PCIe, equals the Manhattan distance between the tiles for the mesh; not asserted for the bandwidth-first router (generic 'bw', NVLink). "+
			"Reuse: for the 2nd/3rd network of a sequence a fresh connector in a fresh registrar gets the same build calls and all walks must be identical (switch indices; names play no role). "+
			"Multi-round builds (half of the generic networks, classes 'grown:*'): the topology is built on one connector/network in 2-4 rounds, each = AddSwitch for the new switches, ConnectSwitches/ConnectDevice for a drawn part of the links and devices, EstablishRoute(); every intermediate network is connected (switches relabelled in a drawn connected order; each switch comes with one anchor link to an earlier switch; all other links - chords that close a cycle or double a link - and all devices come in a drawn later-or-same round; a round may also add nothing). "+
			"After every EstablishRoute() the network as built so far is judged by the same walk oracle, and the final tables must equal those of a fresh connector that builds the final topology in one go (same order of links among themselves and of devices among themselves). "+
			"While the finding '"+sigReuse+"' is listed, generic sequences are steered to device-less earlier networks and PCIe sequences are cut to one network (counted as excluded). "+
			"Non-trivial: a network whose switch graph has a cycle and a device >=2 links away from some switch, or a reuse comparison that was carried out, or a multi-round build in which a later round changed the walk of a (switch, device port) pair that was already routed")
	defer s.End()
	s.Assume("switch index = order of creation = the ID the connector returns; endpoint index = order of the ConnectDevice/PlugInDevice/tile calls")
	s.Assume("calling Connector.EstablishRoute() again after adding switches, links or devices to the same network is supported use: the connector is an accumulating builder without a 'finished' state, EstablishRoute is documented as 'run the router to populate every switch's routing table' / 'sets the routing table for all the nodes' and routing.Table.DefineRoute as 'records that traffic whose final destination is finalDst should leave through outputPort' (a map store: the last definition holds); nothing restricts it to one call")

	_, steer := s.IsKnown(sigReuse)

	run := func(f kit.Failer, c c30Case) {
		timing.ResetIDGenerator()
		reg := newCapReg()
		var h *connHolder
		if ok, sig, msg := guard(func() { h = newConnHolder(c.Conn, reg) }); !ok {
			s.Fail(f, c, "connector:"+sig, "%s", msg)
			return
		}
		nontrivial := false
		classes := []string{"kind:" + c.Conn.Kind, fmt.Sprintf("nets:%d", len(c.Nets))}
		prevDevices := false
		for k, tp := range c.Nets {
			var b *built
			// multi-round build: every intermediate network is judged like a
			// finished one
			var roundSig, roundMsg string
			var before []map[string]string
			h.afterRound = func(r int, part topoSpec, pb *built) {
				if roundSig != "" {
					return
				}
				if sig, msg, _ := checkRoutes(c.Conn, part, pb); sig != "" {
					roundSig, roundMsg = "round:"+sig, fmt.Sprintf("after EstablishRoute() #%d of %d (%d switches, %d links, %d devices so far): %s",
						r+1, len(tp.Rounds)+1, part.NSw, len(part.Edges), len(part.Devs), msg)
					return
				}
				before = append(before, routeMap(pb))
			}
			ok, sig, msg := guard(func() { b = h.build(netName(k), tp) })
			h.afterRound = nil
			if !ok {
				if k > 0 && prevDevices && c.Conn.Kind != "mesh" && strings.HasSuffix(sig, ".tableToRoute") && len(tp.Rounds) == 0 {
					s.Fail(f, c, sigReuse, "network %d of a reused %s connector (an earlier network had devices): %s", k+1, c.Conn.Kind, msg)
					return
				}
				if len(tp.Rounds) > 0 {
					sig = "grown:" + sig
				}
				s.Fail(f, c, "build:"+sig, "network %d: %s", k+1, msg)
				return
			}
			if roundSig != "" {
				s.Fail(f, c, roundSig, "network %d of %d: %s", k+1, len(c.Nets), roundMsg)
				return
			}
			sig, msg, st := checkRoutes(c.Conn, tp, b)
			if sig != "" {
				if len(tp.Rounds) > 0 {
					sig = "grown:" + sig
					msg = fmt.Sprintf("after the last of %d EstablishRoute() calls on this network (rounds %+v): %s", len(tp.Rounds)+1, tp.Rounds, msg)
				}
				if k > 0 {
					sig = "reused:" + sig
				}
				s.Fail(f, c, sig, "network %d of %d: %s", k+1, len(c.Nets), msg)
				return
			}
			classes = append(classes, "shape:"+tp.Shape, fmt.Sprintf("maxhops:%d", min(st.maxHops, 5)))
			if !b.model.isTree() && st.cyclicChoice > 0 {
				nontrivial = true
				classes = append(classes, "cyclic-with-choice")
			}
			if len(tp.Rounds) > 0 {
				classes = append(classes, fmt.Sprintf("grown:establish-route-calls=%d", len(tp.Rounds)+1))
				last := tp.Rounds[len(tp.Rounds)-1]
				if last.NSw < tp.NSw {
					classes = append(classes, "grown:switches-added-after-routing")
				}
				if last.NDevs < len(tp.Devs) {
					classes = append(classes, "grown:devices-added-after-routing")
				}
				// a link added after a routing round in which both of its switches
				// already existed (so they were connected without it)
				lateChord := false
				for i, e := range tp.Edges {
					for _, rd := range tp.Rounds {
						if rd.NEdges <= i && max(e.A, e.B) < rd.NSw {
							lateChord = true
						}
					}
				}
				if lateChord {
					classes = append(classes, "grown:chord-added-after-routing")
				}
				final := routeMap(b)
				changed := false
				for _, m := range before {
					for key, was := range m {
						if final[key] != was {
							changed = true
						}
					}
				}
				if changed {
					nontrivial = true
					classes = append(classes, "grown:existing-route-changed-by-later-round")
				}
			}
			if k > 0 || len(tp.Rounds) > 0 {
				// the same topology on a fresh connector, built in one go
				oneGo := tp
				oneGo.Rounds = nil
				var fb *built
				ok, sig, msg := guard(func() {
					fb = newConnHolder(c.Conn, newCapReg()).build(netName(k), oneGo)
				})
				if !ok {
					s.Fail(f, c, "build:"+sig, "network %d on a fresh connector: %s", k+1, msg)
					return
				}
				got, want := allRoutes(b), allRoutes(fb)
				if fmt.Sprint(got) != fmt.Sprint(want) {
					dsig, how := "reuse-differs:", "the reused connector"
					if len(tp.Rounds) > 0 {
						dsig, how = "grown-differs:", fmt.Sprintf("the network grown in %d rounds %+v", len(tp.Rounds)+1, tp.Rounds)
					}
					i, eg, ew := firstDiffRows(got, want)
					s.Fail(f, c, dsig+c.Conn.Kind+routerTag(c.Conn), "network %d: walk #%d (switch path, -(endpoint+1)) with %s %v, with a fresh connector building the final topology in one go %v", k+1, i, how, eg, ew)
					return
				}
				if k > 0 {
					nontrivial = true
					classes = append(classes, "reuse-compared")
					if prevDevices {
						classes = append(classes, "reuse-after-devices")
					}
				}
				if len(tp.Rounds) > 0 {
					classes = append(classes, "grown-compared-with-one-go-build")
				}
			}
			prevDevices = prevDevices || hasDevices(tp)
		}
		s.Note(c, nontrivial, classes...)
	}

	var c c30Case
	if ok, err := kit.LoadReplay("C30", "routing", &c); ok {
		if err != nil {
			t.Fatal(err)
		}
		run(t, c)
		return
	} else if kit.ReplayMode() {
		t.Skip()
	}

	kit.SetChecks(4000, 40000)
	rapid.Check(t, func(rt *rapid.T) {
		c, excluded := genC30(rt, steer)
		if excluded {
			s.Excluded(1)
		}
		run(rt, c)
	})
}

// TestC30SmallGraphs enumerates every labelled connected simple graph on 1..5
// switches (edges added in lexicographic order), one single-port device per
// switch, default router.
func TestC30SmallGraphs(t *testing.T) {
	s := kit.Begin(t, "C30", "small-graphs",
		"complete enumeration: all labelled connected simple graphs with 1-5 switches (links added in lexicographic order, in the generic connector with its default Floyd-Warshall router), one one-port device per switch; oracle as in 'routing' (BFS shortest, loop-free, right endpoint). Non-trivial: graph has a cycle and a pair at distance >=2")
	defer s.End()
	if kit.ReplayMode() {
		t.Skip()
	}
	s.Exhaustive()
	cs := connSpec{Kind: "generic", FreqMHz: 1000, FlitSize: 16}
	ag := agentSpec{NPorts: 1, BufSize: 1, SendPerTick: 1, RecvPerTick: 1, DrainPeriod: 1}
	for n := 1; n <= 5; n++ {
		var pairs [][2]int
		for i := 0; i < n; i++ {
			for j := i + 1; j < n; j++ {
				pairs = append(pairs, [2]int{i, j})
			}
		}
		for mask := 0; mask < 1<<len(pairs); mask++ {
			tp := topoSpec{Shape: fmt.Sprintf("n%d", n), NSw: n}
			for k, p := range pairs {
				if mask>>k&1 == 1 {
					tp.Edges = append(tp.Edges, edgeSpec{A: p[0], B: p[1], LatA: 1, LatB: 1, ChA: 1, ChB: 1, BufA: 1, BufB: 1})
				}
			}
			for i := 0; i < n; i++ {
				tp.Devs = append(tp.Devs, devSpec{Sw: i, Agent: ag, Lat: 1, SwCh: 1, SwBuf: 1, EpCh: 1, EpBuf: 1})
			}
			m := model(cs, tp)
			connected := true
			for _, d := range m.bfs()[0] {
				if d < 0 {
					connected = false
				}
			}
			if !connected {
				continue
			}
			c := c30Case{Conn: cs, Nets: []topoSpec{tp}}
			timing.ResetIDGenerator()
			var b *built
			ok, sig, msg := guard(func() { b = newConnHolder(cs, newCapReg()).build("NetA", tp) })
			if !ok {
				s.Fail(t, c, "build:"+sig, "%s", msg)
				return
			}
			sig, msg, st := checkRoutes(cs, tp, b)
			if sig != "" {
				s.Fail(t, c, sig, "%s", msg)
				return
			}
			s.Note(c, !m.isTree() && st.cyclicChoice > 0, tp.Shape)
		}
	}
}

// TestC30Known_ReuseStaleDevices is the deterministic reproduction of the
// listed finding: one generic connector, two one-switch networks with two
// one-port devices each.
func TestC30Known_ReuseStaleDevices(t *testing.T) {
	s := kit.Begin(t, "C30", "known-reuse",
		"deterministic reproduction: generic connector (defaults), network A = 1 switch + 1 one-port device, then NewNetwork + network B = the same; B's EstablishRoute must give the tables of a fresh connector")
	defer s.End()
	if kit.ReplayMode() {
		t.Skip()
	}
	ag := agentSpec{NPorts: 1, BufSize: 1, SendPerTick: 1, RecvPerTick: 1, DrainPeriod: 1}
	tp := topoSpec{Shape: "single", NSw: 1, Devs: []devSpec{{Sw: 0, Agent: ag, SwCh: 1, SwBuf: 1, EpCh: 1, EpBuf: 1}}}
	c := c30Case{Conn: connSpec{Kind: "generic", FreqMHz: 1000, FlitSize: 16}, Nets: []topoSpec{tp, tp}}
	timing.ResetIDGenerator()
	h := newConnHolder(c.Conn, newCapReg())
	h.build("NetA", tp)
	var b *built
	ok, sig, msg := guard(func() { b = h.build("NetB", tp) })
	if !ok {
		first := msg
		if i := strings.IndexByte(first, '\n'); i > 0 {
			first = first[:i]
		}
		s.KnownStillFails(t, c, sigReuse, fmt.Sprintf("second network of a reused connector: %s in %s", first, strings.TrimPrefix(sig, "panic:")))
		s.Note(c, true, "still-fails")
		return
	}
	if sig, msg, _ := checkRoutes(c.Conn, tp, b); sig != "" {
		s.Fail(t, c, "reused:"+sig, "%s", msg)
		return
	}
	s.Note(c, true, "holds-now")
}
