package nocchk

import (
	"fmt"
	"strings"
	"testing"

	"github.com/sarchlab/akita/v5/messaging"
	"github.com/sarchlab/akita/v5/noc/networking/switching/switches"
	"github.com/sarchlab/akita/v5/timing"
	"pgregory.net/rapid"

	"verif/harness/kit"
)

// c30Case: one connector object, a sequence of networks built with it.
type c30Case struct {
	Conn connSpec   `json:"conn"`
	Nets []topoSpec `json:"nets"`
}

// sigReuse is the signature of the known finding "NewNetwork keeps the device
// nodes of the previous network".
const sigReuse = "reuse-after-network-with-devices:EstablishRoute-panic"

// route is the result of following the routing tables from one switch towards
// one device port.
type route struct {
	Path []int  // switch indices visited, starting switch first
	EP   int    // index of the endpoint reached (-1 if none)
	Err  string // "" if the walk ended at an endpoint
}

// portOwners maps every switch port / endpoint network port of a built network
// to its owner. Switch i is encoded as i, endpoint j as -(j+1).
func portOwners(b *built) map[messaging.RemotePort]int {
	own := map[messaging.RemotePort]int{}
	for i, sw := range b.sw {
		for _, p := range sw.PortsInGroup("Port") {
			own[p.AsRemote()] = i
		}
	}
	for j, ep := range b.eps {
		own[ep.NetworkPort().AsRemote()] = -(j + 1)
	}
	return own
}

// follow walks hop by hop: the switch's table (switches.GetRoutingTable) names
// one of the switch's own ports (State.PortComplexes[i].LocalPortName); that
// port complex's RemotePort is the peer the flit is sent to.
func follow(b *built, own map[messaging.RemotePort]int, from int, dst messaging.RemotePort) route {
	r := route{EP: -1, Path: []int{from}}
	seen := map[int]bool{from: true}
	cur := from
	for {
		out := switches.GetRoutingTable(b.sw[cur]).FindPort(dst)
		if out == "" {
			r.Err = fmt.Sprintf("switch %d has no route", cur)
			return r
		}
		var remote messaging.RemotePort
		found := false
		for _, pc := range b.sw[cur].State.PortComplexes {
			if pc.LocalPortName == string(out) {
				remote, found = pc.RemotePort, true
				break
			}
		}
		if !found {
			r.Err = fmt.Sprintf("switch %d routes to %q which is not one of its ports", cur, out)
			return r
		}
		o, known := own[remote]
		if !known {
			r.Err = fmt.Sprintf("switch %d port %q leads to %q which is not part of this network", cur, out, remote)
			return r
		}
		if o < 0 {
			r.EP = -o - 1
			return r
		}
		if seen[o] {
			r.Path = append(r.Path, o)
			r.Err = fmt.Sprintf("loop: switch %d visited twice", o)
			return r
		}
		seen[o] = true
		r.Path = append(r.Path, o)
		cur = o
	}
}

// checkRoutes judges one built network; returns (sig, message) of the first
// violation, and statistics for the classification.
type routeStats struct {
	pairs, maxHops, cyclicChoice int
}

func checkRoutes(cs connSpec, tp topoSpec, b *built) (sig, msg string, st routeStats) {
	m := b.model
	if len(b.sw) != m.N {
		return "built-switch-count", fmt.Sprintf("the build calls describe %d switches, the connector built %d", m.N, len(b.sw)), st
	}
	if len(b.eps) != len(tp.Devs) {
		return "built-endpoint-count", fmt.Sprintf("the build calls describe %d devices, the connector built %d endpoints", len(tp.Devs), len(b.eps)), st
	}
	own := portOwners(b)
	dist := m.bfs()
	shortest := cs.Kind == "pcie" || cs.Kind == "mesh" || (cs.Kind == "generic" && cs.Router != "bw")
	for from := 0; from < m.N; from++ {
		for d, a := range b.agents {
			for _, p := range a.ports {
				var r route
				ok, psig, pmsg := guard(func() { r = follow(b, own, from, p.AsRemote()) })
				if !ok {
					return "walk:" + psig, pmsg, st
				}
				where := fmt.Sprintf("%s: from switch %d to %s (device %d on switch %d)", cs.Kind, from, p.Name(), d, m.DevHost[d])
				if r.Err != "" {
					s := "no-route"
					if strings.HasPrefix(r.Err, "loop") {
						s = "loop"
					}
					return s + ":" + cs.Kind + routerTag(cs), fmt.Sprintf("%s: %s; path %v", where, r.Err, r.Path), st
				}
				if b.eps[r.EP] != hostEndpoint(p) || r.EP != d {
					return "wrong-endpoint:" + cs.Kind + routerTag(cs), fmt.Sprintf("%s: walk %v ends at endpoint %d (%s)", where, r.Path, r.EP, b.eps[r.EP].Name()), st
				}
				for k := 1; k < len(r.Path); k++ {
					if !m.hasEdge(r.Path[k-1], r.Path[k]) {
						return "phantom-link:" + cs.Kind, fmt.Sprintf("%s: hop %d->%d is not a link that was built", where, r.Path[k-1], r.Path[k]), st
					}
				}
				hops := len(r.Path) - 1 // switch-to-switch links; the final hop switch->endpoint is not counted
				want := dist[from][m.DevHost[d]]
				if cs.Kind == "mesh" {
					// Manhattan distance between the tile of `from` and the destination tile.
					dy, dz := tp.Dim[1], tp.Dim[2]
					fx, fy, fz := from/(dy*dz), (from/dz)%dy, from%dz
					l := tp.Devs[d].Loc
					want = abs(fx-l[0]) + abs(fy-l[1]) + abs(fz-l[2])
				}
				if shortest && hops != want {
					return "not-shortest:" + cs.Kind + routerTag(cs), fmt.Sprintf("%s: %d switch-to-switch hops %v, shortest is %d", where, hops, r.Path, want), st
				}
				st.pairs++
				if hops > st.maxHops {
					st.maxHops = hops
				}
				if want >= 2 {
					st.cyclicChoice++
				}
			}
		}
	}
	return "", "", st
}

func routerTag(cs connSpec) string {
	if cs.Router == "" {
		return ""
	}
	return "/" + cs.Router
}

func abs(x int) int {
	if x < 0 {
		return -x
	}
	return x
}

// allRoutes: every (switch, device port) walk of a network, for the reuse comparison.
func allRoutes(b *built) [][]int {
	own := portOwners(b)
	var out [][]int
	for from := range b.sw {
		for _, a := range b.agents {
			for _, p := range a.ports {
				r := follow(b, own, from, p.AsRemote())
				row := append([]int{}, r.Path...)
				row = append(row, -(r.EP + 1))
				if r.Err != "" {
					row = append(row, -1000)
				}
				out = append(out, row)
			}
		}
	}
	return out
}

func hasDevices(tp topoSpec) bool { return len(tp.Devs) > 0 }

func netName(k int) string { return "Net" + string(rune('A'+k)) }

func genC30(rt *rapid.T, steer bool) (c c30Case, excluded bool) {
	kind := genKind(rt)
	c.Conn = genConn(rt, kind)
	n := rapid.SampledFrom([]int{1, 1, 2, 2, 3}).Draw(rt, "nnets")
	if kind == "nvlink" {
		n = 1 // see the rule: reuse of the NVLink wrapper is not judged
	}
	for k := 0; k < n; k++ {
		c.Nets = append(c.Nets, genTopo(rt, kind, false))
	}
	if steer && n > 1 && kind != "mesh" {
		// Known finding: a router-based connector reused after a network with
		// devices. Steer the case out of that class: earlier networks get no
		// devices (generic) / the sequence is cut to the last network (pcie,
		// whose root complex always has a device).
		excluded = true
		if kind == "pcie" {
			c.Nets = c.Nets[n-1:]
		} else {
			for k := 0; k < n-1; k++ {
				c.Nets[k].Devs = nil
				if c.Nets[k].NSw == 1 { // a lone switch without any link is not a network one can route
					c.Nets[k].NSw = 2
					c.Nets[k].Edges = []edgeSpec{{A: 0, B: 1, LatA: 1, LatB: 1, ChA: 1, ChB: 1, BufA: 1, BufB: 1}}
				}
			}
		}
	}
	return c, excluded
}

func TestC30Routing(t *testing.T) {
	s := kit.Begin(t, "C30", "routing",
		"C29's connector configurations and topologies without traffic; 1-3 networks built one after the other with the same connector object (NVLink: one network only - nvlink.Connector.CreateNetwork does not promise a reset and keeps its own device/PCIe-switch numbering, so reuse of that wrapper is outside what is judged). "+
			"Walk: from every switch to every device port follow switches.GetRoutingTable(sw).FindPort -> the switch's port complex with that local port -> its RemotePort, until an endpoint's network port is reached. "+
			"Asserted for every kind: the walk ends at the endpoint the port is plugged into, uses only links that were built, never visits a switch twice. "+
			"Hop count = number of switch-to-switch links walked (the last hop switch->endpoint is not counted): equals the harness' BFS distance for the generic connector with the default/explicit Floyd-Warshall router and for PCIe, equals the Manhattan distance between the tiles for the mesh; not asserted for the bandwidth-first router (generic 'bw', NVLink). "+
			"Reuse: for the 2nd/3rd network of a sequence a fresh connector in a fresh registrar gets the same build calls and all walks must be identical (switch indices; names play no role). "+
			"While the finding '"+sigReuse+"' is listed, generic sequences are steered to device-less earlier networks and PCIe sequences are cut to one network (counted as excluded). "+
			"Non-trivial: a network whose switch graph has a cycle and a device >=2 links away from some switch, or a reuse comparison that was carried out")
	defer s.End()
	s.Assume("switch index = order of creation = the ID the connector returns; endpoint index = order of the ConnectDevice/PlugInDevice/tile calls")

	_, steer := s.IsKnown(sigReuse)

	run := func(f kit.Failer, c c30Case) {
		timing.ResetIDGenerator()
		reg := newCapReg()
		var h *connHolder
		if ok, sig, msg := guard(func() { h = newConnHolder(c.Conn, reg) }); !ok {
			s.Fail(f, c, "connector:"+sig, "%s", msg)
			return
		}
		nontrivial := false
		classes := []string{"kind:" + c.Conn.Kind, fmt.Sprintf("nets:%d", len(c.Nets))}
		prevDevices := false
		for k, tp := range c.Nets {
			var b *built
			ok, sig, msg := guard(func() { b = h.build(netName(k), tp) })
			if !ok {
				if k > 0 && prevDevices && c.Conn.Kind != "mesh" && strings.HasSuffix(sig, ".tableToRoute") {
					s.Fail(f, c, sigReuse, "network %d of a reused %s connector (an earlier network had devices): %s", k+1, c.Conn.Kind, msg)
					return
				}
				s.Fail(f, c, "build:"+sig, "network %d: %s", k+1, msg)
				return
			}
			sig, msg, st := checkRoutes(c.Conn, tp, b)
			if sig != "" {
				if k > 0 {
					sig = "reused:" + sig
				}
				s.Fail(f, c, sig, "network %d of %d: %s", k+1, len(c.Nets), msg)
				return
			}
			classes = append(classes, "shape:"+tp.Shape, fmt.Sprintf("maxhops:%d", min(st.maxHops, 5)))
			if !b.model.isTree() && st.cyclicChoice > 0 {
				nontrivial = true
				classes = append(classes, "cyclic-with-choice")
			}
			if k > 0 {
				// the same build calls on a fresh connector
				var fb *built
				ok, sig, msg := guard(func() {
					fb = newConnHolder(c.Conn, newCapReg()).build(netName(k), tp)
				})
				if !ok {
					s.Fail(f, c, "build:"+sig, "network %d on a fresh connector: %s", k+1, msg)
					return
				}
				got, want := allRoutes(b), allRoutes(fb)
				if fmt.Sprint(got) != fmt.Sprint(want) {
					s.Fail(f, c, "reuse-differs:"+c.Conn.Kind, "network %d: walks with the reused connector %v, with a fresh one %v", k+1, got, want)
					return
				}
				nontrivial = true
				classes = append(classes, "reuse-compared")
				if prevDevices {
					classes = append(classes, "reuse-after-devices")
				}
			}
			prevDevices = prevDevices || hasDevices(tp)
		}
		s.Note(c, nontrivial, classes...)
	}

	var c c30Case
	if ok, err := kit.LoadReplay("C30", "routing", &c); ok {
		if err != nil {
			t.Fatal(err)
		}
		run(t, c)
		return
	} else if kit.ReplayMode() {
		t.Skip()
	}

	kit.SetChecks(4000, 40000)
	rapid.Check(t, func(rt *rapid.T) {
		c, excluded := genC30(rt, steer)
		if excluded {
			s.Excluded(1)
		}
		run(rt, c)
	})
}

// TestC30SmallGraphs enumerates every labelled connected simple graph on 1..5
// switches (edges added in lexicographic order), one single-port device per
// switch, default router.
func TestC30SmallGraphs(t *testing.T) {
	s := kit.Begin(t, "C30", "small-graphs",
		"complete enumeration: all labelled connected simple graphs with 1-5 switches (links added in lexicographic order, in the generic connector with its default Floyd-Warshall router), one one-port device per switch; oracle as in 'routing' (BFS shortest, loop-free, right endpoint). Non-trivial: graph has a cycle and a pair at distance >=2")
	defer s.End()
	if kit.ReplayMode() {
		t.Skip()
	}
	s.Exhaustive()
	cs := connSpec{Kind: "generic", FreqMHz: 1000, FlitSize: 16}
	ag := agentSpec{NPorts: 1, BufSize: 1, SendPerTick: 1, RecvPerTick: 1, DrainPeriod: 1}
	for n := 1; n <= 5; n++ {
		var pairs [][2]int
		for i := 0; i < n; i++ {
			for j := i + 1; j < n; j++ {
				pairs = append(pairs, [2]int{i, j})
			}
		}
		for mask := 0; mask < 1<<len(pairs); mask++ {
			tp := topoSpec{Shape: fmt.Sprintf("n%d", n), NSw: n}
			for k, p := range pairs {
				if mask>>k&1 == 1 {
					tp.Edges = append(tp.Edges, edgeSpec{A: p[0], B: p[1], LatA: 1, LatB: 1, ChA: 1, ChB: 1, BufA: 1, BufB: 1})
				}
			}
			for i := 0; i < n; i++ {
				tp.Devs = append(tp.Devs, devSpec{Sw: i, Agent: ag, Lat: 1, SwCh: 1, SwBuf: 1, EpCh: 1, EpBuf: 1})
			}
			m := model(cs, tp)
			connected := true
			for _, d := range m.bfs()[0] {
				if d < 0 {
					connected = false
				}
			}
			if !connected {
				continue
			}
			c := c30Case{Conn: cs, Nets: []topoSpec{tp}}
			timing.ResetIDGenerator()
			var b *built
			ok, sig, msg := guard(func() { b = newConnHolder(cs, newCapReg()).build("NetA", tp) })
			if !ok {
				s.Fail(t, c, "build:"+sig, "%s", msg)
				return
			}
			sig, msg, st := checkRoutes(cs, tp, b)
			if sig != "" {
				s.Fail(t, c, sig, "%s", msg)
				return
			}
			s.Note(c, !m.isTree() && st.cyclicChoice > 0, tp.Shape)
		}
	}
}

// TestC30Known_ReuseStaleDevices is the deterministic reproduction of the
// listed finding: one generic connector, two one-switch networks with two
// one-port devices each.
func TestC30Known_ReuseStaleDevices(t *testing.T) {
	s := kit.Begin(t, "C30", "known-reuse",
		"deterministic reproduction: generic connector (defaults), network A = 1 switch + 1 one-port device, then NewNetwork + network B = the same; B's EstablishRoute must give the tables of a fresh connector")
	defer s.End()
	if kit.ReplayMode() {
		t.Skip()
	}
	ag := agentSpec{NPorts: 1, BufSize: 1, SendPerTick: 1, RecvPerTick: 1, DrainPeriod: 1}
	tp := topoSpec{Shape: "single", NSw: 1, Devs: []devSpec{{Sw: 0, Agent: ag, SwCh: 1, SwBuf: 1, EpCh: 1, EpBuf: 1}}}
	c := c30Case{Conn: connSpec{Kind: "generic", FreqMHz: 1000, FlitSize: 16}, Nets: []topoSpec{tp, tp}}
	timing.ResetIDGenerator()
	h := newConnHolder(c.Conn, newCapReg())
	h.build("NetA", tp)
	var b *built
	ok, sig, msg := guard(func() { b = h.build("NetB", tp) })
	if !ok {
		first := msg
		if i := strings.IndexByte(first, '\n'); i > 0 {
			first = first[:i]
		}
		s.KnownStillFails(t, c, sigReuse, fmt.Sprintf("second network of a reused connector: %s in %s", first, strings.TrimPrefix(sig, "panic:")))
		s.Note(c, true, "still-fails")
		return
	}
	if sig, msg, _ := checkRoutes(c.Conn, tp, b); sig != "" {
		s.Fail(t, c, "reused:"+sig, "%s", msg)
		return
	}
	s.Note(c, true, "holds-now")
}
