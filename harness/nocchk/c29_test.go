package nocchk

import (
	"fmt"
	"testing"

	"github.com/sarchlab/akita/v5/messaging"
	"github.com/sarchlab/akita/v5/noc/packetization"
	"github.com/sarchlab/akita/v5/timing"
	"pgregory.net/rapid"

	"verif/harness/kit"
)

// msgSpec is one scripted message. Messages are sent by the source device in
// list order (several devices send concurrently).
type msgSpec struct {
	SD    int    `json:"sd"` // source device / port
	SP    int    `json:"sp"`
	DD    int    `json:"dd"` // destination device / port
	DP    int    `json:"dp"`
	Bytes int    `json:"bytes"`
	Class string `json:"class"`
	// Rsp: 0 = not a response; k>0 = responds to message k-1 of this list when
	// that index is smaller than the message's own, otherwise RspTo is the
	// arbitrary non-zero number k.
	Rsp int `json:"rsp"`
}

type c29Case struct {
	Conn   connSpec  `json:"conn"`
	Topo   topoSpec  `json:"topo"`
	IDBase uint64    `json:"id_base"` // the process-wide ID generator starts here
	Msgs   []msgSpec `json:"msgs"`
	// Ckpt != nil: after the plain run the case is run again, checkpointed at a
	// cut, rebuilt in another process, loaded and resumed (see c29ckpt_test.go).
	Ckpt *ckptSpec `json:"ckpt,omitempty"`
}

const c29FlitBudget = 1500

// expFlits: the documented flit count (endpoint README / outgoingmw.go); used
// only to bound the size of a case and to label it, never as the C29 oracle.
func expFlits(bytes, flit int, ovNum, ovShift int) int {
	if bytes <= 0 {
		return 1
	}
	enc := bytes + (bytes*ovNum+(1<<ovShift)-1)>>ovShift
	return (enc + flit - 1) / flit
}

func genC29(rt *rapid.T) c29Case {
	c := genC29Sized(rt, c29FlitBudget, 300)
	if n := ckptOneIn(); n > 0 && rapid.IntRange(0, n-1).Draw(rt, "ckpt") == 0 {
		c.Ckpt = &ckptSpec{
			Mode:  rapid.SampledFrom([]string{"reassembly", "reassembly", "reassembly", "any"}).Draw(rt, "cutMode"),
			Sel:   rapid.IntRange(0, 999).Draw(rt, "cutSel"),
			Plain: rapid.Bool().Draw(rt, "plainReg"),
			Sim:   rapid.IntRange(0, simOneIn()-1).Draw(rt, "realSim") == 0,
		}
	}
	return c
}

// genC29Sized: at most maxMsgs messages and flitBudget flits.
func genC29Sized(rt *rapid.T, flitBudget, maxMsgs int) c29Case {
	kind := genKind(rt)
	stalls := rapid.IntRange(0, 2).Draw(rt, "stalls") == 0
	c := c29Case{Conn: genConn(rt, kind)}
	c.Topo = genTopo(rt, kind, stalls)
	c.IDBase = rapid.SampledFrom([]uint64{0, 0, 1000, 1 << 32, 1<<53 + 7, 1<<63 + 11}).Draw(rt, "idbase")

	type pt struct{ d, p int }
	var pts []pt
	for d, dv := range c.Topo.Devs {
		for p := 0; p < dv.Agent.NPorts; p++ {
			pts = append(pts, pt{d, p})
		}
	}
	flit := flitSizeOf(c.Conn)
	nmsg := rapid.SampledFrom([]int{1, 2, 5, 10, 20, 40, 80, 150, 300}).Draw(rt, "nmsgClass")
	nmsg = min(maxMsgs, rapid.IntRange(max(1, nmsg/2), nmsg).Draw(rt, "nmsg"))
	hot := -1
	if rapid.IntRange(0, 3).Draw(rt, "hotspot") == 0 {
		hot = rapid.IntRange(0, len(pts)-1).Draw(rt, "hot")
	}
	budget := flitBudget
	for i := 0; i < nmsg; i++ {
		s := rapid.IntRange(0, len(pts)-1).Draw(rt, "src")
		var d int
		if hot >= 0 && hot != s && rapid.IntRange(0, 3).Draw(rt, "tohot") != 0 {
			d = hot
		} else {
			d = rapid.IntRange(0, len(pts)-2).Draw(rt, "dst")
			if d >= s {
				d++
			}
		}
		var bytes int
		switch rapid.IntRange(0, 5).Draw(rt, "bclass") {
		case 0:
			bytes = 0
		case 1:
			bytes = rapid.IntRange(0, 2*flit).Draw(rt, "bytes")
		case 2, 3:
			bytes = rapid.IntRange(0, min(4096, 12*flit)).Draw(rt, "bytes")
		default:
			bytes = rapid.IntRange(0, min(4096, 64*flit)).Draw(rt, "bytes")
		}
		if rapid.IntRange(0, 30).Draw(rt, "big") == 0 {
			bytes = rapid.IntRange(0, 4096).Draw(rt, "bytes")
		}
		n := expFlits(bytes, flit, 1, 2)
		if n > budget {
			if i == 0 {
				bytes, n = flit, 2
			} else {
				break
			}
		}
		budget -= n
		m := msgSpec{
			SD: pts[s].d, SP: pts[s].p, DD: pts[d].d, DP: pts[d].p, Bytes: bytes,
			Class: rapid.SampledFrom([]string{"", "mem.ReadReq", "mem.WriteReq", "X", "ctl/Δ"}).Draw(rt, "class"),
		}
		if rapid.IntRange(0, 2).Draw(rt, "isrsp") == 0 {
			m.Rsp = rapid.IntRange(1, nmsg+3).Draw(rt, "rsp")
		}
		c.Msgs = append(c.Msgs, m)
	}
	return c
}

// c29Result is what one execution produced (also used by the sensitivity
// self-test).
type c29Result struct {
	reg      *capReg
	built    *built
	sent     []messaging.MsgMeta
	rec      *recorder
	netRec   *recorder
	runErr   string
	timedOut bool
	estPs    uint64 // the serial estimate the time bound is derived from
	endPs    uint64 // virtual time when the engine went idle
	bound    timing.VTimeInPicoSec
}

// c29Execute builds the network, loads the scripts, runs the engine until it
// is idle. Panics of the code under test are returned as (sig,msg).
func c29Execute(c c29Case) (res c29Result, sig, msg string) { return c29ExecuteWith(c, nil) }

// c29Setup resets the process-wide ID generator, obtains the registrar (mkReg
// runs after the reset, so a simulation built there registers the live
// generator), builds the network "Net" in it, attaches the recorders and loads
// the scripts into the devices' State. Nothing is scheduled yet.
func c29Setup(c c29Case, mkReg func() *capReg) (res c29Result, sig, msg string) {
	timing.ResetIDGenerator()
	timing.GetIDGenerator()
	timing.SetIDGeneratorNextID(c.IDBase)

	reg := mkReg()
	var b *built
	ok, sig, msg := guard(func() {
		h := newConnHolder(c.Conn, reg)
		b = h.build("Net", c.Topo)
	})
	if !ok {
		return res, "build:" + sig, msg
	}
	res.built = b
	res.reg = reg

	res.rec = &recorder{engine: reg.engine}
	res.netRec = &recorder{engine: reg.engine}
	for _, a := range b.agents {
		for _, p := range a.ports {
			p.AcceptHook(res.rec)
		}
	}
	for _, ep := range b.eps {
		ep.NetworkPort().AcceptHook(res.netRec)
	}

	// IDs come from the library's generator in script order, like the
	// acceptance programs' GenerateMsgs.
	for i, m := range c.Msgs {
		meta := messaging.MsgMeta{
			ID:           timing.GetIDGenerator().Generate(),
			Src:          b.agents[m.SD].ports[m.SP].AsRemote(),
			Dst:          b.agents[m.DD].ports[m.DP].AsRemote(),
			TrafficClass: m.Class,
			TrafficBytes: m.Bytes,
		}
		if m.Rsp > 0 {
			if m.Rsp-1 < i {
				meta.RspTo = res.sent[m.Rsp-1].ID
			} else {
				meta.RspTo = uint64(m.Rsp)
			}
		}
		res.sent = append(res.sent, meta)
		b.agents[m.SD].push(meta)
	}

	// Virtual-time bound. est = a pessimistic serial estimate in network
	// cycles (4 cycles per flit through one bottleneck, every message waiting
	// for a 7-tick drain period on a half-speed device, all initial stalls,
	// one traversal of every switch pipeline); the bound is 25 x est. Reaching
	// it is reported as an inconclusive harness failure, never as a verdict.
	// The largest observed (run length / est) is written to the evidence.
	flits := 0
	for _, m := range c.Msgs {
		flits += expFlits(m.Bytes, max(1, flitSizeOf(c.Conn)), 1, 2)
	}
	maxLat := max(c.Conn.SwLat, c.Conn.NvLat, 4)
	est := uint64(4*flits + 28*len(c.Msgs) + 600 + (b.model.N+2)*(maxLat+8))
	period := uint64(1_000_000_000_000) / (uint64(c.Conn.FreqMHz) * 1_000_000)
	res.estPs = est * period
	res.bound = timing.VTimeInPicoSec(25 * est * max(period, 2000))
	return res, "", ""
}

// c29RunToIdle runs the engine up to the virtual-time bound and decides whether
// it went idle.
func c29RunToIdle(res *c29Result) (sig, msg string) {
	reg, bound := res.reg, res.bound
	ok, sig, msg := guard(func() {
		if err := reg.engine.RunUntil(bound); err != nil {
			res.runErr = err.Error()
		}
		// Anything still scheduled? Every component here re-schedules itself at
		// most one of its own periods (<= 2000 ps) ahead, so a non-idle system
		// processes an event within the next 10000 ps.
		_ = reg.engine.RunUntil(bound + 10_000)
		if reg.engine.CurrentTime() > bound {
			res.timedOut = true
		}
		res.endPs = uint64(reg.engine.CurrentTime())
	})
	if !ok {
		return "run:" + sig, msg
	}
	return "", ""
}

// c29ExecuteWith additionally calls instr after the network is built and before
// any traffic is scheduled (C03 attaches its fingerprint hooks there).
func c29ExecuteWith(c c29Case, instr func(reg *capReg, b *built)) (res c29Result, sig, msg string) {
	res, sig, msg = c29Setup(c, newCapReg)
	if sig != "" {
		return res, sig, msg
	}
	if instr != nil {
		instr(res.reg, res.built)
	}
	for _, a := range res.built.agents {
		a.TickLater()
	}
	sig, msg = c29RunToIdle(&res)
	return res, sig, msg
}

// dlvEvent is one port event as plain data (so that the part of a run that
// happened in another process can be judged together with this process' part).
type dlvEvent struct {
	T         uint64            `json:"t"`
	Port      string            `json:"port"`
	Recv      bool              `json:"recv"` // false: the device handed the message to its port
	Type      string            `json:"type"`
	Assembled bool              `json:"assembled"` // the object is a packetization.AssembledMsg
	Meta      messaging.MsgMeta `json:"meta"`
}

func toDlv(events []portEvent) []dlvEvent {
	out := make([]dlvEvent, 0, len(events))
	for _, e := range events {
		d := dlvEvent{T: uint64(e.Time), Port: e.Port, Recv: e.Pos == messaging.HookPosPortMsgRecvd, Type: fmt.Sprintf("%T", e.Msg)}
		if e.Msg != nil {
			d.Meta = e.Msg.Meta()
		}
		_, d.Assembled = e.Msg.(packetization.AssembledMsg)
		out = append(out, d)
	}
	return out
}

// c29Judge is the C29 oracle over the device-port events of one history
// (uninterrupted, or the part before a checkpoint followed by the part after
// the resume). It returns the delivery count per message ID and whether the
// history was accepted (false: s.Fail returned for a listed finding).
// sigPrefix/where distinguish the checkpoint leg in signatures and messages.
func c29Judge(s *kit.Session, f kit.Failer, c c29Case, sigPrefix, where string, sent []messaging.MsgMeta, events []dlvEvent,
	unsent int, m netModel, endPs uint64) (delivered map[uint64]int, live, ok bool) {
	byID := map[uint64]int{}
	for i, mm := range sent {
		byID[mm.ID] = i
	}
	sentAt := map[uint64]bool{}
	delivered = map[uint64]int{}
	for _, e := range events {
		if !e.Recv {
			sentAt[e.Meta.ID] = true
			continue
		}
		if !e.Assembled {
			s.Fail(f, c, sigPrefix+"delivered-type", "%sport %s received a %s, documented form is packetization.AssembledMsg", where, e.Port, e.Type)
			return delivered, false, false
		}
		meta := e.Meta
		i, known := byID[meta.ID]
		if !known {
			s.Fail(f, c, sigPrefix+"phantom", "%sport %s received message ID %d that no device sent: %+v", where, e.Port, meta.ID, meta)
			return delivered, false, false
		}
		if string(meta.Dst) != e.Port || sent[i].Dst != meta.Dst {
			s.Fail(f, c, sigPrefix+"wrong-port", "%smessage %+v was delivered at port %s", where, sent[i], e.Port)
			return delivered, false, false
		}
		if meta != sent[i] {
			s.Fail(f, c, sigPrefix+"metadata:"+diffMeta(sent[i], meta), "%ssent %+v, delivered %+v", where, sent[i], meta)
			return delivered, false, false
		}
		if !sentAt[meta.ID] {
			s.Fail(f, c, sigPrefix+"before-send", "%smessage %d delivered before its device handed it to the port", where, meta.ID)
			return delivered, false, false
		}
		delivered[meta.ID]++
		if delivered[meta.ID] > 1 {
			s.Fail(f, c, sigPrefix+"duplicate", "%smessage %+v delivered %d times", where, meta, delivered[meta.ID])
			return delivered, false, false
		}
	}

	missing := len(sent) - len(delivered)
	tree := m.isTree()
	live = c.Conn.Kind == "mesh" || tree
	if live && (missing > 0 || unsent > 0) {
		var first messaging.MsgMeta
		for _, mm := range sent {
			if delivered[mm.ID] == 0 {
				first = mm
				break
			}
		}
		kindSig := c.Conn.Kind
		if tree && kindSig != "mesh" {
			kindSig += "-tree"
		}
		s.Fail(f, c, sigPrefix+"undelivered:"+kindSig, "%sengine idle at %d ps with %d of %d messages undelivered (%d never left their device); first: %+v",
			where, endPs, missing, len(sent), unsent, first)
		return delivered, live, false
	}
	return delivered, live, true
}

func TestC29Delivery(t *testing.T) {
	s := kit.Begin(t, "C29", "delivery",
		"connector kind in {generic x3, pcie, nvlink, mesh x2}; clock {0.5,1,1.5,2 GHz}; flit size {1..100 B} (or PCIe version/width); "+
			"generic: 1-8 switches as single/line/star/tree/ring/clique(<=5)/random connected/multigraph, per-link latency 0-4, channels 1-2, port buffers 1-4, default/explicit Floyd-Warshall or bandwidth-first router, 2-8 devices; "+
			"pcie: root complex + <=6 switches, depth <=3, switch latency {0..140}; nvlink: root + <=3 PCIe switches + devices with 0..n+1 NVLinks; "+
			"mesh: 1-4 x 1-4 x 1-2 (5%: 9-wide / 3-deep grids that outgrow the 8x8x2 default), holes (tiles never added), bandwidth 0.5-3 transfers/cycle, switch latency 0-5; "+
			"devices: 1-3 ports (buffers 1-4), 1-3 sends/tick, in 1/3 of the cases drain only every 2nd/3rd/7th tick and/or not at all for the first 5/40/150 ticks, 10% run on another clock; "+
			"traffic: 1-300 messages (case capped at 1500 flits), src!=dst port (also on the same device), 0-4096 bytes, 5 traffic classes, 1/3 with RspTo (earlier message's ID or arbitrary), optional hotspot destination, message IDs from the library generator started at {0,1000,2^32,2^53+7,2^63+11}. "+
			"Oracle: every object delivered at a device port is a packetization.AssembledMsg whose MsgMeta equals a sent message's (all six fields) and whose Dst is that port, at most once per ID; "+
			"liveness (mesh, and every topology whose switch multigraph is a tree): when the engine is idle every message was delivered and every script fully sent. "+
			"Checkpoint leg (1 case in 3, classes 'ckpt:*'): the same network + devices (modeling.Components whose whole state - script, position, counters - is plain-JSON State) + traffic are built again, run to a cut, saved and torn down; another process (re-exec of the test binary, replaced every 40 jobs) builds the same assembly again from the case, schedules nothing, loads, runs until idle. "+
			"1 in 10 of these (class 'ckpt:simulation.Simulation/*') inside a real simulation.Simulation (connector registrar = the simulation; default registration or, 50%, without the idle DBTracer hooks) with Simulation.SaveCheckpoint/LoadCheckpoint; the others (class 'ckpt:entity-level') on a registrar that keeps the inventory a Simulation keeps (engine, ID generator, every component/port/connection in registration order) and, like Simulation.Save/LoadCheckpoint, lets every entity write/read its own payload through its SaveCheckpoint/LoadCheckpoint after checking that the saved and rebuilt entity sets are equal (no archive file, no recorders: building+terminating a Simulation costs 100-300 ms). "+
			"The cut is one of the uninterrupted run's own event times (RunUntil(t) handles all events <= t): 3 in 4 drawn among the instants at which some endpoint's State.AssemblingMsgs holds a message with some but not all flits arrived (measured again at the cut in the simulation: class 'ckpt:cut-mid-reassembly'), 1 in 4 among all event times. "+
			"The same oracle judges the device-port events before the cut followed by those after the resume (exactly once, six metadata fields, right port, nothing else; everything delivered and every script finished for mesh/tree), plus: devices retrieved exactly the delivered messages. "+
			"Additionally (signature prefix 'ckpt-vs-uninterrupted:', C06's promise for this assembly rather than C29's): the same set of messages is delivered, every device port sees the same sequence of sends/deliveries at the same virtual times, and the engine goes idle at the same time as in the uninterrupted run. "+
			"Non-trivial: a delivered message crossed >=2 switch-to-switch links, a multi-flit message was sent, and flits of two messages interleaved at one endpoint's network port or a sender was back-pressured")
	defer s.End()
	s.Assume("the engine going idle (no scheduled event) is the decision point for liveness; a case that is not idle after a virtual-time bound of 25x a pessimistic serial estimate (largest observed run length is in extra) is reported as harness failure (inconclusive), never as a verdict")
	s.Assume("cyclic switch graphs (rings, cliques, NVLink hybrids): only the safety part is judged; undelivered messages there are counted in class 'cyclic-incomplete'")
	s.Assume("checkpoint leg: the harness devices are checkpoint-clean (State is all they have); port hooks are re-attached in the rebuilt simulation and see nothing of what sits in a restored buffer, so a message delivered to a device port before the cut counts once (its pre-cut delivery event)")

	maxRatio := 0
	ck := newCkptLeg(t, s)
	defer ck.close()
	run := func(f kit.Failer, c c29Case) {
		var probe *cutProbe
		var instr func(reg *capReg, b *built)
		if c.Ckpt != nil {
			// the plain run doubles as the probe that finds the instants a
			// checkpoint can be cut at
			instr = func(reg *capReg, b *built) {
				probe = &cutProbe{eps: b.eps}
				reg.engine.AcceptHook(probe)
			}
		}
		res, sig, msg := c29ExecuteWith(c, instr)
		if sig != "" {
			s.Fail(f, c, sig, "%s", msg)
			return
		}
		if res.timedOut {
			f.Fatalf("harness: engine not idle at the virtual-time bound (livelock or bound too small)")
		}
		b := res.built
		if r := int(100 * res.endPs / res.estPs); r > maxRatio {
			maxRatio = r
			s.Extra("max_run_length_percent_of_estimate(bound=2500)", r)
		}

		unsent := 0
		for _, a := range b.agents {
			unsent += a.unsent()
		}
		events := toDlv(res.rec.events)
		delivered, live, ok := c29Judge(s, f, c, "", "", res.sent, events, unsent, b.model, res.endPs)
		if !ok {
			return
		}
		missing := len(res.sent) - len(delivered)

		// --- classification, from what happened ---
		st := c29Classify(c, res, delivered)
		maxHops, sameEP, multiFlit, interleaved, backpressure, stalled :=
			st.maxHops, st.sameEP, st.multiFlit, st.interleaved, st.backpressure, st.stalled
		classes := []string{"kind:" + c.Conn.Kind, "shape:" + c.Topo.Shape, fmt.Sprintf("hops:%d", min(maxHops, 4))}
		if c.Conn.Router != "" {
			classes = append(classes, "router:"+c.Conn.Router)
		}
		if live {
			classes = append(classes, "liveness-judged")
		} else if missing > 0 || unsent > 0 {
			classes = append(classes, "cyclic-incomplete")
		}
		for name, on := range map[string]bool{"multi-flit": multiFlit, "interleaved": interleaved, "backpressure": backpressure,
			"stalled-receiver": stalled, "same-endpoint-pair": sameEP, "msgs>=50": len(c.Msgs) >= 50} {
			if on {
				classes = append(classes, name)
			}
		}
		nontrivial := maxHops >= 2 && multiFlit && (interleaved || backpressure)
		if c.Ckpt != nil {
			ckClasses, ckOK := ck.run(f, c, res, events, delivered, probe)
			if !ckOK {
				return
			}
			classes = append(classes, ckClasses...)
		}
		s.Note(c, nontrivial, classes...)
	}

	var c c29Case
	if ok, err := kit.LoadReplay("C29", "delivery", &c); ok {
		if err != nil {
			t.Fatal(err)
		}
		run(t, c)
		return
	} else if kit.ReplayMode() {
		t.Skip()
	}

	kit.SetChecks(2000, 12000)
	rapid.Check(t, func(rt *rapid.T) { c := genC29(rt); run(rt, c) })
}

// c29Stats is what a run did, for the non-triviality rules of C29 and C03.
type c29Stats struct {
	maxHops                                               int
	sameEP, multiFlit, interleaved, backpressure, stalled bool
}

// c29Classify: delivered == nil counts every scripted message.
func c29Classify(c c29Case, res c29Result, delivered map[uint64]int) (st c29Stats) {
	b := res.built
	dist := b.model.bfs()
	for i, m := range c.Msgs {
		if delivered != nil && delivered[res.sent[i].ID] == 0 {
			continue
		}
		if m.SD == m.DD {
			st.sameEP = true
		}
		if h := dist[b.model.DevHost[m.SD]][b.model.DevHost[m.DD]]; h > st.maxHops {
			st.maxHops = h
		}
	}
	open := map[string]map[uint64]int{} // per network port: partially arrived messages
	for _, e := range res.netRec.events {
		fl, isFlit := e.Msg.(packetization.Flit)
		if !isFlit {
			continue
		}
		if fl.NumFlitInMsg > 1 {
			st.multiFlit = true
		}
		if e.Pos != messaging.HookPosPortMsgRecvd {
			continue
		}
		if open[e.Port] == nil {
			open[e.Port] = map[uint64]int{}
		}
		o := open[e.Port]
		for id := range o {
			if id != fl.Msg.ID {
				st.interleaved = true // another message is partially here
			}
		}
		o[fl.Msg.ID]++
		if o[fl.Msg.ID] >= fl.NumFlitInMsg {
			delete(o, fl.Msg.ID)
		}
	}
	for i, a := range b.agents {
		if a.State.Blocked > 0 {
			st.backpressure = true
		}
		sp := c.Topo.Devs[i].Agent
		if (sp.DrainPeriod > 1 || sp.InitStall > 0) && a.State.Received > 0 {
			st.stalled = true
		}
	}
	return st
}

func diffMeta(a, b messaging.MsgMeta) string {
	switch {
	case a.ID != b.ID:
		return "ID"
	case a.Src != b.Src:
		return "Src"
	case a.Dst != b.Dst:
		return "Dst"
	case a.RspTo != b.RspTo:
		return "RspTo"
	case a.TrafficClass != b.TrafficClass:
		return "TrafficClass"
	case a.TrafficBytes != b.TrafficBytes:
		return "TrafficBytes"
	}
	return "none"
}
