package nocchk

import (
	"bytes"
	"encoding/json"
	"fmt"
	"os"
	"path/filepath"
	"sort"
	"strconv"
	"strings"
	"testing"

	"github.com/sarchlab/akita/v5/hooking"
	"github.com/sarchlab/akita/v5/noc/networking/switching/endpoint"
	"github.com/sarchlab/akita/v5/simulation"
	"github.com/sarchlab/akita/v5/timing"

	"verif/harness/kit"
)

// The checkpoint leg of C29.
//
// One case in c29CkptOneIn (in expectation) is, after its plain run, executed
// a second time with a checkpoint in the middle (the devices are
// modeling.Components with a plain-JSON State):
//
//	this process    build, schedule, RunUntil(cut), save, tear down
//	other process   build the same assembly again from the case (nothing
//	                scheduled), load, run until idle
//
// and the C29 oracle is applied to the device-port events recorded before the
// cut followed by those recorded after the resume. The cut is one of the plain
// run's own event times (RunUntil(t) handles every event with time <= t, so the
// cut lies between two time steps).
//
// Two ways of saving/loading:
//
//	Sim=true   inside a real simulation.Simulation (the connector's registrar
//	           is the simulation): Simulation.SaveCheckpoint / LoadCheckpoint.
//	           Building and terminating a Simulation costs 100-300 ms (SQLite
//	           recorder tables), twice per case, so this is 1 in c29SimOneIn
//	           of the checkpoint cases.
//	Sim=false  entity level: the harness' registrar keeps the same inventory a
//	           Simulation keeps (engine, ID generator, then every component,
//	           port and connection in registration order) and does what
//	           Simulation.Save/LoadCheckpoint do - every entity writes/reads
//	           its own payload through its SaveCheckpoint/LoadCheckpoint, the
//	           saved and the rebuilt entity sets must be equal - without the
//	           archive file and without the simulation's recorders.

const (
	c29CkptOneIn    = 3
	c29SimOneIn     = 10
	c29BuildID      = "verif-nocchk-c29"
	c29WorkerCases  = 40 // resume jobs served by one child process before it is replaced
	sigCkptDiffers  = "ckpt-vs-uninterrupted:"
	sigCkptPrefix   = "ckpt:"
	c29CkptMaxSteps = 1 << 20
)

// ckptOneIn: every n-th case (in expectation) gets a checkpoint leg; the
// environment variable VERIF_C29_CKPT_ONE_IN overrides the default (0 = none;
// used to measure the cost of the leg).
func ckptOneIn() int { return envInt("VERIF_C29_CKPT_ONE_IN", c29CkptOneIn) }

// simOneIn: every n-th checkpoint case runs in a real simulation.Simulation
// (VERIF_C29_SIM_ONE_IN overrides; 1 = all of them).
func simOneIn() int { return max(1, envInt("VERIF_C29_SIM_ONE_IN", c29SimOneIn)) }

func envInt(name string, def int) int {
	if v := os.Getenv(name); v != "" {
		if n, err := strconv.Atoi(v); err == nil {
			return n
		}
	}
	return def
}

// ckptSpec: where to cut and how the simulation is assembled.
type ckptSpec struct {
	// Mode "reassembly": the cut is drawn among the instants at which some
	// endpoint holds a message of which at least one but not all flits have
	// arrived (all event times if there is no such instant); "any": among all
	// event times of the run.
	Mode string `json:"mode"`
	Sel  int    `json:"sel"` // 0..999, position in the candidate list
	// Plain: components reach the simulation behind a wrapper that hides their
	// Hookable side, so the simulation's idle DBTracer is not attached; false =
	// the default registration every simulator uses.
	Plain bool `json:"plain"`
	// Sim: real simulation.Simulation (else entity-level save/load, see above).
	Sim bool `json:"sim"`
}

// partialCount: messages of which some but not all flits arrived, over all
// endpoints; total: all entries of State.AssemblingMsgs.
func partialCount(eps []*endpoint.Comp) (partial, total int) {
	for _, ep := range eps {
		for _, a := range ep.State.AssemblingMsgs {
			total++
			if a.NumFlitArrived < a.NumFlitRequired {
				partial++
			}
		}
	}
	return
}

// cutProbe is an engine hook of the plain run: it notes every distinct event
// time but the last, and which of them end with a partially reassembled
// message somewhere.
type cutProbe struct {
	eps     []*endpoint.Comp
	started bool
	last    timing.VTimeInPicoSec
	all     []uint64
	partial []uint64
}

func (p *cutProbe) Func(ctx hooking.HookCtx) {
	if ctx.Pos != timing.HookPosBeforeEvent {
		return
	}
	t := ctx.Item.(timing.Event).Time()
	if p.started && t > p.last && len(p.all) < c29CkptMaxSteps {
		p.all = append(p.all, uint64(p.last))
		if n, _ := partialCount(p.eps); n > 0 {
			p.partial = append(p.partial, uint64(p.last))
		}
	}
	p.started, p.last = true, t
}

// pick returns the cut instant of the case (ok=false: the run had one time
// step only) and whether it was taken from the reassembly candidates.
func (p *cutProbe) pick(ck ckptSpec) (cut uint64, fromPartial, ok bool) {
	cands := p.all
	if ck.Mode == "reassembly" && len(p.partial) > 0 {
		cands, fromPartial = p.partial, true
	}
	if len(cands) == 0 {
		return 0, false, false
	}
	return cands[ck.Sel*len(cands)/1000], fromPartial, true
}

// --- the other process ------------------------------------------------------

type c29ResumeJob struct {
	Case c29Case `json:"case"`
	Path string  `json:"path"` // checkpoint archive
	Dir  string  `json:"dir"`  // scratch directory for the rebuilt simulation's output file
}

type c29ResumeResult struct {
	Sig      string     `json:"sig,omitempty"` // panic of the code under test / load error
	Msg      string     `json:"msg,omitempty"`
	Events   []dlvEvent `json:"events"`
	Unsent   int        `json:"unsent"`
	Received int        `json:"received"` // messages the devices retrieved (whole history: the counter is part of their State)
	Buffered int        `json:"buffered"` // messages left in device ports when idle
	LeftOpen int        `json:"left_open"`
	TimedOut bool       `json:"timed_out"`
	EndPs    uint64     `json:"end_ps"`
	Pid      int        `json:"pid"`
}

// ckWorld is one built assembly that can be saved and loaded.
type ckWorld struct {
	sim       *simulation.Simulation // nil: entity level
	reg       *capReg
	dir, base string
}

func (w *ckWorld) close() {
	if w == nil || w.sim == nil {
		return
	}
	w.sim.Terminate()
	m, _ := filepath.Glob(filepath.Join(w.dir, w.base+"*"))
	for _, f := range m {
		_ = os.Remove(f)
	}
}

// c29WorldSetup is c29Setup inside a fresh simulation.Simulation or on a
// registrar that keeps the entity inventory.
func c29WorldSetup(c c29Case, dir, base string) (w *ckWorld, res c29Result, sig, msg string) {
	w = &ckWorld{dir: dir, base: base}
	res, sig, msg = c29Setup(c, func() *capReg {
		if c.Ckpt.Sim {
			w.sim = simulation.MakeBuilder().WithoutMonitoring().
				WithOutputFileName(filepath.Join(dir, base)).Build()
			w.reg = newSimReg(w.sim, c.Ckpt.Plain)
		} else {
			w.reg = newInvReg()
		}
		return w.reg
	})
	return w, res, sig, msg
}

type entityPayload struct {
	Name string `json:"name"`
	Data string `json:"data"`
}

type entityFile struct {
	BuildID  string          `json:"build_id"`
	Entities []entityPayload `json:"entities"`
}

func (w *ckWorld) save(path string) error {
	if w.sim != nil {
		return w.sim.SaveCheckpoint(path, c29BuildID)
	}
	out := entityFile{BuildID: c29BuildID}
	for _, e := range w.reg.inv {
		cp, ok := e.(checkpointable)
		if !ok {
			return fmt.Errorf("entity %q (%T) has no checkpoint serializer", e.Name(), e)
		}
		var buf bytes.Buffer
		if err := cp.SaveCheckpoint(&buf); err != nil {
			return fmt.Errorf("save entity %q: %w", e.Name(), err)
		}
		out.Entities = append(out.Entities, entityPayload{Name: e.Name(), Data: buf.String()})
	}
	b, err := json.Marshal(out)
	if err != nil {
		return err
	}
	return os.WriteFile(path, b, 0o644)
}

func (w *ckWorld) load(path string) error {
	if w.sim != nil {
		return w.sim.LoadCheckpoint(path, c29BuildID)
	}
	b, err := os.ReadFile(path)
	if err != nil {
		return err
	}
	var in entityFile
	if err := json.Unmarshal(b, &in); err != nil {
		return err
	}
	saved := map[string]string{}
	for _, e := range in.Entities {
		if _, dup := saved[e.Name]; dup {
			return fmt.Errorf("duplicate entity %q", e.Name)
		}
		saved[e.Name] = e.Data
	}
	rebuilt := map[string]bool{}
	for _, e := range w.reg.inv {
		rebuilt[e.Name()] = true
		if _, found := saved[e.Name()]; !found {
			return fmt.Errorf("rebuilt entity %q is missing from the checkpoint", e.Name())
		}
	}
	for name := range saved {
		if !rebuilt[name] {
			return fmt.Errorf("saved entity %q is not rebuilt", name)
		}
	}
	for _, e := range w.reg.inv {
		if err := e.(checkpointable).LoadCheckpoint(strings.NewReader(saved[e.Name()])); err != nil {
			return fmt.Errorf("load entity %q: %w", e.Name(), err)
		}
	}
	return nil
}

// c29ResumeRun: rebuild, load, run until idle. Runs in the worker process.
func c29ResumeRun(j c29ResumeJob) (out c29ResumeResult) {
	out.Pid = os.Getpid()
	w, res, sig, msg := c29WorldSetup(j.Case, j.Dir, "load")
	defer w.close()
	if sig != "" {
		out.Sig, out.Msg = "rebuild:"+sig, msg
		return
	}
	var err error
	if ok, psig, pmsg := guard(func() { err = w.load(j.Path) }); !ok {
		out.Sig, out.Msg = "load:"+psig, pmsg
		return
	}
	if err != nil {
		out.Sig, out.Msg = "load-error", err.Error()
		return
	}
	if sig, msg := c29RunToIdle(&res); sig != "" {
		out.Sig, out.Msg = sig, msg
		return
	}
	out.Events = toDlv(res.rec.events)
	for _, a := range res.built.agents {
		out.Unsent += a.unsent()
		out.Received += a.State.Received
		for _, p := range a.ports {
			out.Buffered += p.NumIncoming()
		}
	}
	_, out.LeftOpen = partialCount(res.built.eps)
	out.TimedOut, out.EndPs = res.timedOut, res.endPs
	return
}

// --- this process -----------------------------------------------------------

type ckptLeg struct {
	s      *kit.Session
	dir    string
	worker *c03Worker
	n      int
}

// newCkptLeg: the scratch directory holds the checkpoint archive and the two
// SQLite output files every simulation.Simulation creates. Creating those on
// a disk costs 50-400 ms per simulation (two per case), on tmpfs a fifth of
// that, so the directory is made under /dev/shm when that is writable and
// under $VERIF_WORK (or the test's temp dir) otherwise; it is removed by close.
func newCkptLeg(t testing.TB, s *kit.Session) *ckptLeg {
	name := fmt.Sprintf("verif-nocchk-c29ckpt-%d", os.Getpid())
	dir := filepath.Join("/dev/shm", name)
	if os.Getenv("VERIF_NO_SHM") != "" || os.MkdirAll(dir, 0o755) != nil {
		dir = os.Getenv("VERIF_WORK")
		if dir == "" {
			dir = t.TempDir()
		}
		dir = filepath.Join(dir, name)
		_ = os.MkdirAll(dir, 0o755)
	}
	return &ckptLeg{s: s, dir: dir, worker: &c03Worker{perProcess: c29WorkerCases}}
}

func (k *ckptLeg) close() {
	k.worker.stop()
	k.s.Extra("checkpoint_leg_child_processes", k.worker.spawns)
	_ = os.RemoveAll(k.dir)
}

// portSeqs: per device port, the sequence of its events (time, direction,
// metadata) in recording order.
func portSeqs(events []dlvEvent) map[string][]string {
	out := map[string][]string{}
	for _, e := range events {
		out[e.Port] = append(out[e.Port], fmt.Sprintf("t=%d recv=%v %+v", e.T, e.Recv, e.Meta))
	}
	return out
}

// run executes the checkpoint leg of a case whose plain run (res, with its
// device-port events and delivery counts) was accepted. ok=false: s.Fail
// returned for a listed finding.
func (k *ckptLeg) run(f kit.Failer, c c29Case, plain c29Result, plainEvents []dlvEvent, plainDelivered map[uint64]int, probe *cutProbe) (classes []string, ok bool) {
	s := k.s
	cut, fromPartial, have := probe.pick(*c.Ckpt)
	if !have {
		return []string{"ckpt:no-cut(single-time-step)"}, true
	}
	k.n++
	path := filepath.Join(k.dir, "cut.tar.gz")
	reg := "entity-level"
	if c.Ckpt.Sim {
		reg = "simulation.Simulation/default-registration"
		if c.Ckpt.Plain {
			reg = "simulation.Simulation/no-tracer-hooks"
		}
	}

	// --- before the cut: in a simulation, in this process ---
	w, res, sig, msg := c29WorldSetup(c, k.dir, "save")
	if sig != "" {
		w.close()
		s.Fail(f, c, sigCkptPrefix+sig, "building the same case for the checkpoint leg (%s): %s", reg, msg)
		return nil, false
	}
	for _, a := range res.built.agents {
		a.TickLater()
	}
	var runErr, saveErr error
	gok, gsig, gmsg := guard(func() { runErr = res.reg.engine.RunUntil(timing.VTimeInPicoSec(cut)) })
	if !gok || runErr != nil {
		w.close()
		if !gok {
			s.Fail(f, c, sigCkptPrefix+"run:"+gsig, "checkpoint leg (%s), before the cut at %d ps: %s", reg, cut, gmsg)
			return nil, false
		}
		f.Fatalf("harness: RunUntil: %v", runErr)
	}
	partial, assembling := partialCount(res.built.eps)
	var flitsQueued, msgsWaiting, unsentAtCut, buffered int
	for _, ep := range res.built.eps {
		flitsQueued += len(ep.State.FlitsToSend)
		msgsWaiting += len(ep.State.MsgOutBuf) + len(ep.State.AssembledMsgs)
	}
	for _, a := range res.built.agents {
		unsentAtCut += a.unsent()
	}
	for _, p := range res.reg.ports {
		buffered += p.NumIncoming() + p.NumOutgoing()
	}
	pre := toDlv(res.rec.events)
	gok, gsig, gmsg = guard(func() { saveErr = w.save(path) })
	w.close()
	if !gok {
		s.Fail(f, c, sigCkptPrefix+"save:"+gsig, "SaveCheckpoint at %d ps (%s): %s", cut, reg, gmsg)
		return nil, false
	}
	if saveErr != nil {
		s.Fail(f, c, sigCkptPrefix+"save-error", "SaveCheckpoint at %d ps (%s): %v", cut, reg, saveErr)
		return nil, false
	}

	// --- after the cut: rebuilt and resumed in another process ---
	raw, err := k.worker.askRaw(c03Job{Resume: &c29ResumeJob{Case: c, Path: path, Dir: k.dir}}, "C29RESULT ")
	_ = os.Remove(path)
	if err != nil {
		f.Fatalf("harness: %v", err)
	}
	var post c29ResumeResult
	if err := json.Unmarshal(raw, &post); err != nil {
		f.Fatalf("harness: child result: %v", err)
	}
	if post.Pid == os.Getpid() {
		f.Fatalf("harness: the resume leg ran in the saving process")
	}
	where := fmt.Sprintf("after a checkpoint at %d ps (%d partially reassembled messages, %d flits queued in endpoints, %d messages buffered in ports, %d not yet sent; %s) and a resume in a rebuilt assembly in another process: ",
		cut, partial, flitsQueued, buffered, unsentAtCut, reg)
	if post.Sig != "" {
		s.Fail(f, c, sigCkptPrefix+post.Sig, "%s%s", where, post.Msg)
		return nil, false
	}
	if post.TimedOut {
		// the uninterrupted run of the same case went idle within the same bound
		s.Fail(f, c, sigCkptDiffers+"not-idle", "%sthe engine is still busy at the virtual-time bound %d ps; the uninterrupted run went idle at %d ps", where, uint64(plain.bound), plain.endPs)
		return nil, false
	}

	union := append(append([]dlvEvent{}, pre...), post.Events...)
	delivered, _, jok := c29Judge(s, f, c, sigCkptPrefix, where, plain.sent, union, post.Unsent, res.built.model, post.EndPs)
	if !jok {
		return nil, false
	}
	// Every delivered message is retrieved by its device once the engine is
	// idle (devices keep ticking while a port holds a message), and the
	// devices' counters are part of their checkpointed State.
	if post.Received+post.Buffered != len(delivered) {
		s.Fail(f, c, sigCkptPrefix+"retrieved-count", "%s%d messages were delivered at device ports, the devices retrieved %d and %d are still in their ports", where, len(delivered), post.Received, post.Buffered)
		return nil, false
	}

	// --- the same history as the uninterrupted run? ---
	// Not part of the C29 statement (it is property C06's promise for this
	// assembly); kept under its own signature prefix.
	if len(delivered) != len(plainDelivered) {
		var firstID uint64
		for _, m := range plain.sent {
			if plainDelivered[m.ID] != delivered[m.ID] {
				firstID = m.ID
				break
			}
		}
		s.Fail(f, c, sigCkptDiffers+"delivered-set", "%s%d messages delivered, the uninterrupted run delivered %d (first difference: message %d)", where, len(delivered), len(plainDelivered), firstID)
		return nil, false
	}
	want, got := portSeqs(plainEvents), portSeqs(union)
	ports := make([]string, 0, len(want))
	for p := range want {
		ports = append(ports, p)
	}
	for p := range got {
		if _, dup := want[p]; !dup {
			ports = append(ports, p)
		}
	}
	sort.Strings(ports)
	for _, p := range ports {
		if i, ew, eg := firstDiff(want[p], got[p]); i >= 0 {
			s.Fail(f, c, sigCkptDiffers+"port-history", "%sevent #%d at device port %s differs:\n  uninterrupted: %s\n  resumed:       %s", where, i, p, ew, eg)
			return nil, false
		}
	}
	if post.EndPs != plain.endPs {
		s.Fail(f, c, sigCkptDiffers+"end-time", "%sengine idle at %d ps, the uninterrupted run at %d ps", where, post.EndPs, plain.endPs)
		return nil, false
	}

	classes = []string{"ckpt", "ckpt:" + reg}
	if fromPartial {
		classes = append(classes, "ckpt:cut-drawn-from-reassembly-instants")
	}
	switch {
	case partial > 0:
		classes = append(classes, "ckpt:cut-mid-reassembly")
		if partial >= 2 {
			classes = append(classes, "ckpt:cut-mid-reassembly>=2msgs")
		}
	case assembling > 0 || flitsQueued > 0 || msgsWaiting > 0 || buffered > 0:
		classes = append(classes, "ckpt:cut-traffic-in-flight")
	case unsentAtCut > 0:
		classes = append(classes, "ckpt:cut-network-empty-scripts-unfinished")
	default:
		classes = append(classes, "ckpt:cut-all-quiet")
	}
	nrecv := func(ev []dlvEvent) (n int) {
		for _, e := range ev {
			if e.Recv {
				n++
			}
		}
		return
	}
	if nrecv(pre) > 0 && nrecv(post.Events) > 0 {
		classes = append(classes, "ckpt:deliveries-on-both-sides")
	}
	if unsentAtCut > 0 {
		classes = append(classes, "ckpt:script-continued-after-resume")
	}
	s.AddExtra("checkpoint_leg_cases", 1)
	return classes, true
}
