package enginechk

import (
	"fmt"
	"runtime"
	"sort"
	"sync"
	"sync/atomic"

	"github.com/sarchlab/akita/v5/hooking"
	"github.com/sarchlab/akita/v5/timing"
)

// stampRec records a run of a program on either engine with one global logical
// clock (an atomic counter). Every stamp is taken by the goroutine performing
// the stamped step, so stamp order is consistent with real-time order:
//
//	sched[n]  after engine.Schedule(event of n) returned
//	enter[n]  first action of n's handler body
//	exit[n]   last action of n's handler body
//
// "An event starts" is read as "its handler body begins executing" — the only
// notion of start a simulation can observe.
type stampRec struct {
	p    *program
	kids [][]int
	eng  timing.Engine

	clk     atomic.Int64
	count   []atomic.Int32
	enter   []atomic.Int64
	exit    []atomic.Int64
	sched   []atomic.Int64
	hookB   []atomic.Int64
	hookA   []atomic.Int64
	running atomic.Int32 // handlers currently inside their body
	handled atomic.Int64 // handler bodies completed

	mu      sync.Mutex
	anomaly []string

	// errAt (C33): per node 0 = handler returns nil, 1 = returns an error after
	// scheduling its children, 2 = returns an error instead of scheduling them.
	errAt []int
}

var spinSink atomic.Int64

func spin(n int) {
	var x int64
	for i := 0; i < n; i++ {
		x += spinSink.Load() + int64(i)
	}
	if x == -1 {
		spinSink.Store(x)
	}
}

func (r *stampRec) note(sig, format string, a ...any) {
	r.mu.Lock()
	if len(r.anomaly) < 8 {
		r.anomaly = append(r.anomaly, sig+"\x00"+fmt.Sprintf(format, a...))
	}
	r.mu.Unlock()
}

type stampHandler struct {
	id string
	r  *stampRec
}

func (h *stampHandler) Handle(e timing.Event) error {
	r := h.r
	ne, ok := e.(nodeEvt)
	if !ok {
		r.note("foreign-event", "handler %s got an event of type %T", h.id, e)
		return nil
	}
	r.running.Add(1)
	r.enter[ne.node].Store(r.clk.Add(1))
	r.count[ne.node].Add(1)
	if ne.h != h.id {
		r.note("wrong-handler", "node %d addressed to %s dispatched to %s", ne.node, ne.h, h.id)
	}
	if now := r.eng.CurrentTime(); now != ne.t {
		r.note("currenttime-in-handler", "node %d@%d: CurrentTime()=%d inside its handler", ne.node, ne.t, now)
	}
	nd := r.p.Nodes[ne.node]
	spin(nd.Spin)
	for i := 0; i < nd.Yld; i++ {
		runtime.Gosched()
	}
	fail := 0
	if r.errAt != nil {
		fail = r.errAt[ne.node]
	}
	if fail != 2 {
		for _, k := range r.kids[ne.node] {
			r.eng.Schedule(r.p.event(k, uint64(ne.t)+r.p.Nodes[k].T))
			r.sched[k].Store(r.clk.Add(1))
		}
	}
	spin(nd.Post)
	r.handled.Add(1)
	r.exit[ne.node].Store(r.clk.Add(1))
	r.running.Add(-1)
	if fail != 0 {
		return fmt.Errorf("handler of node %d failed", ne.node)
	}
	return nil
}

type stampHook struct{ r *stampRec }

func (h *stampHook) Func(ctx hooking.HookCtx) {
	ne, ok := ctx.Item.(nodeEvt)
	if !ok {
		h.r.note("hook-item", "hook item of type %T", ctx.Item)
		return
	}
	switch ctx.Pos {
	case timing.HookPosBeforeEvent:
		h.r.hookB[ne.node].Store(h.r.clk.Add(1))
	case timing.HookPosAfterEvent:
		h.r.hookA[ne.node].Store(h.r.clk.Add(1))
	}
}

// newStampRec builds the engine (parallel or serial), registers handlers and
// schedules the roots from the calling goroutine.
func newStampRec(p *program, parallel bool) *stampRec {
	return newStampRecErr(p, parallel, nil)
}

// newStampRecErr is newStampRec with handlers that return an error at the
// nodes marked in errAt (C33).
func newStampRecErr(p *program, parallel bool, errAt []int) *stampRec {
	n := len(p.Nodes)
	r := &stampRec{p: p, kids: p.kids(), errAt: errAt,
		count: make([]atomic.Int32, n), enter: make([]atomic.Int64, n), exit: make([]atomic.Int64, n),
		sched: make([]atomic.Int64, n), hookB: make([]atomic.Int64, n), hookA: make([]atomic.Int64, n)}
	var reg timing.HandlerRegistrar
	if parallel {
		e := timing.NewParallelEngine()
		r.eng, reg = e, e
	} else {
		e := timing.NewSerialEngine()
		r.eng, reg = e, e
	}
	for i := 0; i < p.NH; i++ {
		reg.RegisterHandler(handlerName(i), &stampHandler{id: handlerName(i), r: r})
	}
	if p.Hook {
		r.eng.AcceptHook(&stampHook{r})
	}
	for i, nd := range p.Nodes {
		if nd.P < 0 {
			r.eng.Schedule(p.event(i, nd.T))
			r.sched[i].Store(r.clk.Add(1))
		}
	}
	return r
}

// history is the plain-data copy of the stamps (goes into failure messages).
type history struct {
	Enter []int64 `json:"enter"`
	Exit  []int64 `json:"exit"`
	Sched []int64 `json:"sched"`
	Count []int32 `json:"count"`
}

func (r *stampRec) history() history {
	n := len(r.p.Nodes)
	h := history{make([]int64, n), make([]int64, n), make([]int64, n), make([]int32, n)}
	for i := 0; i < n; i++ {
		h.Enter[i], h.Exit[i], h.Sched[i], h.Count[i] = r.enter[i].Load(), r.exit[i].Load(), r.sched[i].Load(), r.count[i].Load()
	}
	return h
}

// judgeOrder applies the interleaving-independent invariants of C04 to a
// finished run. abs are the nodes' event times. It returns the first violated
// invariant ("" when none) and, separately, violations of the one listed
// input class (sibling secondaries, see c04_test.go).
func judgeOrder(p *program, abs []uint64, h history, hookB, hookA []int64) (sig, msg string, sibling string) {
	n := len(p.Nodes)
	for i := 0; i < n; i++ {
		switch {
		case h.Count[i] == 0:
			return "missing-events", fmt.Sprintf("node %d@%d (secondary=%v) was never handled although Run returned", i, abs[i], p.Nodes[i].Sec), ""
		case h.Count[i] > 1:
			return "handled-twice", fmt.Sprintf("node %d@%d was handled %d times", i, abs[i], h.Count[i]), ""
		case h.Sched[i] == 0 || h.Sched[i] > h.Enter[i] && p.Nodes[i].P < 0:
			return "harness-stamps", fmt.Sprintf("node %d: sched=%d enter=%d", i, h.Sched[i], h.Enter[i]), ""
		case h.Exit[i] <= h.Enter[i]:
			return "harness-stamps", fmt.Sprintf("node %d: enter=%d exit=%d", i, h.Enter[i], h.Exit[i]), ""
		}
		if p.Hook && hookB != nil && (hookB[i] == 0 || hookB[i] > h.Enter[i] || hookA[i] < h.Exit[i]) {
			return "hook-bracketing", fmt.Sprintf("node %d: beforeHook=%d enter=%d exit=%d afterHook=%d", i, hookB[i], h.Enter[i], h.Exit[i], hookA[i]), ""
		}
	}
	idx := make([]int, n)
	for i := range idx {
		idx[i] = i
	}
	sort.Slice(idx, func(a, b int) bool { return abs[idx[a]] < abs[idx[b]] || abs[idx[a]] == abs[idx[b]] && idx[a] < idx[b] })
	// time order: every event of an earlier time exits before any later-time event enters.
	var maxExit int64
	maxExitNode := -1
	for i := 0; i < n; {
		j := i
		for j < n && abs[idx[j]] == abs[idx[i]] {
			j++
		}
		for k := i; k < j; k++ {
			if b := idx[k]; maxExitNode >= 0 && h.Enter[b] < maxExit {
				return "time-order", fmt.Sprintf("node %d@%d entered (stamp %d) before node %d@%d exited (stamp %d)",
					b, abs[b], h.Enter[b], maxExitNode, abs[maxExitNode], maxExit), ""
			}
		}
		for k := i; k < j; k++ {
			if a := idx[k]; h.Exit[a] > maxExit {
				maxExit, maxExitNode = h.Exit[a], a
			}
		}
		// phase order inside the instant
		for k := i; k < j; k++ {
			sN := idx[k]
			if !p.Nodes[sN].Sec {
				continue
			}
			for l := i; l < j; l++ {
				pN := idx[l]
				if p.Nodes[pN].Sec {
					continue
				}
				if h.Sched[pN] < h.Enter[sN] && h.Exit[pN] > h.Enter[sN] {
					m := fmt.Sprintf("instant %d: secondary node %d entered at stamp %d although primary node %d (scheduled at stamp %d by node %d) only finished at stamp %d (entered %d)",
						abs[sN], sN, h.Enter[sN], pN, h.Sched[pN], p.Nodes[pN].P, h.Exit[pN], h.Enter[pN])
					par := p.Nodes[pN].P
					if par >= 0 && par != sN && p.Nodes[par].Sec && abs[par] == abs[pN] {
						// the primary was scheduled by another secondary of this same instant
						if sibling == "" {
							sibling = m
						}
						continue
					}
					if h.Enter[pN] < h.Enter[sN] {
						return "phase-overlap", m, sibling
					}
					return "secondary-before-pending-primary", m, sibling
				}
			}
		}
		i = j
	}
	return "", "", sibling
}

// concurrency reports whether two handler bodies overlapped in the history.
func concurrency(h history) bool {
	n := len(h.Enter)
	idx := make([]int, n)
	for i := range idx {
		idx[i] = i
	}
	sort.Slice(idx, func(a, b int) bool { return h.Enter[idx[a]] < h.Enter[idx[b]] })
	var maxExit int64
	for _, i := range idx {
		if h.Enter[i] < maxExit {
			return true
		}
		if h.Exit[i] > maxExit {
			maxExit = h.Exit[i]
		}
	}
	return false
}

func loadAll(a []atomic.Int64) []int64 {
	out := make([]int64, len(a))
	for i := range a {
		out[i] = a[i].Load()
	}
	return out
}

// withProcs runs fn with GOMAXPROCS set to n and restores the old value.
func withProcs(n int, fn func()) {
	old := runtime.GOMAXPROCS(n)
	defer runtime.GOMAXPROCS(old)
	fn()
}
