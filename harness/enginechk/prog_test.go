// Package enginechk decides C01, C02, C04, C05 (discrete-event engines) and
// C41 (ID generator) of /repo/timing by generated handler programs judged by an
// independently written reference scheduler / history invariants.
package enginechk

import (
	"fmt"
	"math"
	"sort"

	"github.com/sarchlab/akita/v5/hooking"
	"github.com/sarchlab/akita/v5/timing"
	"pgregory.net/rapid"
)

// ---------------------------------------------------------------------------
// The handler program: plain data.
// ---------------------------------------------------------------------------

// pNode is one event of a program. Node i is scheduled exactly once: before the
// run at absolute time T when P < 0 (a root, roots are scheduled in index
// order), otherwise by the handler of node P at (time of P)+T; a handler
// schedules its children in index order.
type pNode struct {
	P    int    `json:"p"`
	T    uint64 `json:"t"`
	H    int    `json:"h"`
	Sec  bool   `json:"sec,omitempty"`
	Spin int    `json:"spin,omitempty"` // busy iterations before scheduling the children (C04/C05)
	Post int    `json:"post,omitempty"` // busy iterations after scheduling the children
	Yld  int    `json:"yld,omitempty"`  // runtime.Gosched calls before scheduling the children
}

type program struct {
	NH    int     `json:"nh"`
	Hook  bool    `json:"hook"`
	Nodes []pNode `json:"nodes"`
}

func (p *program) kids() [][]int {
	k := make([][]int, len(p.Nodes))
	for i, nd := range p.Nodes {
		if nd.P >= 0 {
			k[nd.P] = append(k[nd.P], i)
		}
	}
	return k
}

// absTimes returns every node's event time; ok=false when the program is not
// well-formed (parent index not smaller, handler out of range, a sum that
// leaves [0, limit]).
func (p *program) absTimes(limit uint64) (abs []uint64, ok bool) {
	abs = make([]uint64, len(p.Nodes))
	if p.NH < 1 || len(p.Nodes) == 0 {
		return nil, false
	}
	for i, nd := range p.Nodes {
		if nd.H < 0 || nd.H >= p.NH || nd.P >= i {
			return nil, false
		}
		if nd.P < 0 {
			if nd.T > limit {
				return nil, false
			}
			abs[i] = nd.T
			continue
		}
		if nd.T > limit-abs[nd.P] {
			return nil, false
		}
		abs[i] = abs[nd.P] + nd.T
	}
	return abs, true
}

func handlerName(i int) string { return fmt.Sprintf("h%d", i) }

// nodeEvt is the custom event type (the engines are generic over timing.Event).
type nodeEvt struct {
	t    timing.VTimeInPicoSec
	h    string
	sec  bool
	node int
}

func (e nodeEvt) Time() timing.VTimeInPicoSec { return e.t }
func (e nodeEvt) HandlerID() string           { return e.h }
func (e nodeEvt) IsSecondary() bool           { return e.sec }

func (p *program) event(node int, t uint64) nodeEvt {
	nd := p.Nodes[node]
	return nodeEvt{t: timing.VTimeInPicoSec(t), h: handlerName(nd.H), sec: nd.Sec, node: node}
}

// ---------------------------------------------------------------------------
// Reference scheduler (the oracle). Deliberately naive: a pending list scanned
// linearly; next = earliest time, primaries before secondaries at equal time,
// schedule order within (time, class).
// ---------------------------------------------------------------------------

type entry struct {
	Node int    `json:"n"`
	T    uint64 `json:"t"`
}

type refPending struct {
	node int
	t    uint64
	sec  bool
	seq  int
}

func refBefore(a, b refPending) bool {
	if a.t != b.t {
		return a.t < b.t
	}
	if a.sec != b.sec {
		return !a.sec
	}
	return a.seq < b.seq
}

func refSchedule(p *program) []entry {
	kids := p.kids()
	var pending []refPending
	seq := 0
	push := func(n int, t uint64) {
		pending = append(pending, refPending{n, t, p.Nodes[n].Sec, seq})
		seq++
	}
	for i, nd := range p.Nodes {
		if nd.P < 0 {
			push(i, nd.T)
		}
	}
	out := make([]entry, 0, len(p.Nodes))
	for len(pending) > 0 {
		best := 0
		for i := 1; i < len(pending); i++ {
			if refBefore(pending[i], pending[best]) {
				best = i
			}
		}
		e := pending[best]
		pending[best] = pending[len(pending)-1]
		pending = pending[:len(pending)-1]
		out = append(out, entry{e.node, e.t})
		for _, k := range kids[e.node] {
			push(k, e.t+p.Nodes[k].T)
		}
	}
	return out
}

// diffLogs explains the first divergence of the real log from the reference.
func diffLogs(p *program, ref, got []entry) (sig, msg string) {
	seen := map[int]int{}
	for i, g := range got {
		if g.Node < 0 || g.Node >= len(p.Nodes) {
			return "invented-event", fmt.Sprintf("log[%d] names node %d which does not exist", i, g.Node)
		}
		if j, dup := seen[g.Node]; dup {
			return "handled-twice", fmt.Sprintf("node %d handled at log[%d] and again at log[%d]", g.Node, j, i)
		}
		seen[g.Node] = i
	}
	for i := 1; i < len(got); i++ {
		if got[i].T < got[i-1].T {
			return "time-decreased", fmt.Sprintf("log[%d] time %d after log[%d] time %d", i, got[i].T, i-1, got[i-1].T)
		}
	}
	n := len(ref)
	if len(got) < n {
		n = len(got)
	}
	for i := 0; i < n; i++ {
		r, g := ref[i], got[i]
		if r == g {
			continue
		}
		if r.Node == g.Node {
			return "event-time", fmt.Sprintf("log[%d]: node %d handled at time %d, scheduled for %d", i, g.Node, g.T, r.T)
		}
		switch {
		case g.T != r.T:
			return "time-order", fmt.Sprintf("log[%d]: node %d@%d handled while node %d@%d was pending", i, g.Node, g.T, r.Node, r.T)
		case p.Nodes[g.Node].Sec != p.Nodes[r.Node].Sec:
			return "phase-order", fmt.Sprintf("log[%d] (time %d): node %d (secondary=%v) handled while node %d (secondary=%v) was pending",
				i, g.T, g.Node, p.Nodes[g.Node].Sec, r.Node, p.Nodes[r.Node].Sec)
		default:
			return "fifo-order", fmt.Sprintf("log[%d] (time %d, secondary=%v): node %d handled before node %d which was scheduled first",
				i, g.T, p.Nodes[g.Node].Sec, g.Node, r.Node)
		}
	}
	if len(got) < len(ref) {
		return "missing-events", fmt.Sprintf("%d of %d events handled; first missing node %d@%d", len(got), len(ref), ref[len(got)].Node, ref[len(got)].T)
	}
	if len(got) > len(ref) {
		return "extra-events", fmt.Sprintf("%d events handled, %d scheduled", len(got), len(ref))
	}
	return "", ""
}

// features of a program's reference execution, used for the non-triviality
// rules (judged on the executed schedule, not on what was asked for).
type progFeatures struct {
	both       bool // both classes handled
	tie3       bool // >= 3 events in one (time, class)
	chain      bool // some event scheduled at dt=0 by an event of the same instant
	secToPrim0 bool // a secondary scheduled a primary at its own instant
	instants   int
	maxInstant int
}

func features(p *program, ref []entry) progFeatures {
	var f progFeatures
	type key struct {
		t   uint64
		sec bool
	}
	groups := map[key]int{}
	inst := map[uint64]int{}
	var prim, sec bool
	for _, e := range ref {
		nd := p.Nodes[e.Node]
		groups[key{e.T, nd.Sec}]++
		inst[e.T]++
		if nd.Sec {
			sec = true
		} else {
			prim = true
		}
		if nd.P >= 0 && nd.T == 0 {
			f.chain = true
			if p.Nodes[nd.P].Sec && !nd.Sec {
				f.secToPrim0 = true
			}
		}
	}
	f.both = prim && sec
	for _, c := range groups {
		if c >= 3 {
			f.tie3 = true
		}
	}
	f.instants = len(inst)
	for _, c := range inst {
		if c > f.maxInstant {
			f.maxInstant = c
		}
	}
	return f
}

func sizeClass(n int) string {
	switch {
	case n <= 8:
		return "n<=8"
	case n <= 40:
		return "n<=40"
	default:
		return "n>40"
	}
}

// ---------------------------------------------------------------------------
// Generator.
// ---------------------------------------------------------------------------

type genOpts struct {
	limit   uint64 // largest event time that may arise
	maxN    int
	spin    bool // draw spin/yield amounts
	maxSpin int
}

func minU(a, b uint64) uint64 {
	if a < b {
		return a
	}
	return b
}

func genProgram(rt *rapid.T, o genOpts) program {
	var p program
	p.NH = rapid.IntRange(1, 5).Draw(rt, "nh")
	p.Hook = rapid.Bool().Draw(rt, "hook")
	var n int
	switch sc := rapid.IntRange(0, 9).Draw(rt, "sizeclass"); {
	case sc <= 4 || o.maxN <= 8:
		n = rapid.IntRange(1, minI(8, o.maxN)).Draw(rt, "n")
	case sc <= 7 || o.maxN <= 40:
		n = rapid.IntRange(9, minI(40, o.maxN)).Draw(rt, "n")
	default:
		n = rapid.IntRange(41, o.maxN).Draw(rt, "n")
	}
	tmode := rapid.IntRange(0, 4).Draw(rt, "tmode")
	period := rapid.SampledFrom([]uint64{1000, 500, 333333, 1}).Draw(rt, "period")
	secMode := rapid.IntRange(0, 5).Draw(rt, "secmode") // 0 all primary, 1 all secondary, else mixed
	abs := make([]uint64, n)
	for i := 0; i < n; i++ {
		var nd pNode
		nd.H = rapid.IntRange(0, p.NH-1).Draw(rt, "h")
		switch secMode {
		case 0:
		case 1:
			nd.Sec = true
		default:
			nd.Sec = rapid.Bool().Draw(rt, "sec")
		}
		nd.P = -1
		if i > 0 && rapid.IntRange(0, 3).Draw(rt, "root") != 0 {
			switch rapid.IntRange(0, 2).Draw(rt, "pmode") {
			case 0:
				nd.P = i - 1
			case 1:
				nd.P = rapid.IntRange(0, i-1).Draw(rt, "parent")
			default:
				lo := i - 4
				if lo < 0 {
					lo = 0
				}
				nd.P = rapid.IntRange(lo, i-1).Draw(rt, "parent")
			}
		}
		mode := tmode
		if mode == 4 {
			mode = rapid.IntRange(0, 3).Draw(rt, "nmode")
		}
		if nd.P < 0 {
			switch mode {
			case 0:
				nd.T = rapid.Uint64Range(0, 3).Draw(rt, "t")
			case 1:
				nd.T = period * rapid.Uint64Range(0, 4).Draw(rt, "k")
			case 2:
				nd.T = o.limit - rapid.Uint64Range(0, 8).Draw(rt, "k")
			default:
				nd.T = rapid.Uint64Range(0, o.limit).Draw(rt, "t")
			}
			abs[i] = nd.T
		} else {
			room := o.limit - abs[nd.P]
			var dt uint64
			switch mode {
			case 0:
				dt = rapid.SampledFrom([]uint64{0, 0, 0, 0, 0, 1, 1, 2}).Draw(rt, "dt")
			case 1:
				dt = rapid.SampledFrom([]uint64{0, 0, 0, 0, period, period, period, 2 * period, period / 2}).Draw(rt, "dt")
			case 2:
				dt = rapid.SampledFrom([]uint64{0, 0, 0, 1, 1, 2, 3}).Draw(rt, "dt")
			default:
				switch rapid.IntRange(0, 3).Draw(rt, "dtclass") {
				case 0, 1:
					dt = 0
				case 2:
					dt = rapid.Uint64Range(0, 5).Draw(rt, "dt")
				default:
					dt = rapid.Uint64Range(0, room).Draw(rt, "dt")
				}
			}
			nd.T = minU(dt, room)
			abs[i] = abs[nd.P] + nd.T
		}
		if o.spin {
			switch rapid.IntRange(0, 3).Draw(rt, "spinclass") {
			case 0:
			case 1:
				nd.Spin = rapid.IntRange(0, o.maxSpin/10).Draw(rt, "spin")
			default:
				nd.Spin = rapid.IntRange(0, o.maxSpin).Draw(rt, "spin")
				nd.Post = rapid.IntRange(0, o.maxSpin/4).Draw(rt, "post")
			}
			if rapid.IntRange(0, 2).Draw(rt, "yldclass") == 0 {
				nd.Yld = rapid.IntRange(0, 3).Draw(rt, "yld")
			}
		}
		p.Nodes = append(p.Nodes, nd)
	}
	return p
}

func minI(a, b int) int {
	if a < b {
		return a
	}
	return b
}

// ---------------------------------------------------------------------------
// Running a program on the real SerialEngine (single goroutine).
// ---------------------------------------------------------------------------

type obsEntry struct {
	Kind byte // 'B' before-hook, 'H' handler, 'A' after-hook
	Node int
	T    uint64
}

type serialRun struct {
	p       *program
	kids    [][]int
	eng     *timing.SerialEngine
	obs     []obsEntry
	anomaly []string // "sig\x00message"
}

func (r *serialRun) note(sig, format string, a ...any) {
	if len(r.anomaly) < 8 {
		r.anomaly = append(r.anomaly, sig+"\x00"+fmt.Sprintf(format, a...))
	}
}

type serialHandler struct {
	id string
	r  *serialRun
}

func (h *serialHandler) Handle(e timing.Event) error {
	r := h.r
	ne, ok := e.(nodeEvt)
	if !ok {
		r.note("foreign-event", "handler %s got an event of type %T", h.id, e)
		return nil
	}
	if ne.h != h.id {
		r.note("wrong-handler", "node %d addressed to %s dispatched to %s", ne.node, ne.h, h.id)
	}
	if now := r.eng.CurrentTime(); now != ne.t {
		r.note("currenttime-in-handler", "node %d@%d: CurrentTime()=%d inside its handler", ne.node, ne.t, now)
	}
	r.obs = append(r.obs, obsEntry{'H', ne.node, uint64(ne.t)})
	for _, k := range r.kids[ne.node] {
		r.eng.Schedule(r.p.event(k, uint64(ne.t)+r.p.Nodes[k].T))
	}
	return nil
}

type serialHook struct{ r *serialRun }

func (h *serialHook) Func(ctx hooking.HookCtx) {
	r := h.r
	ne, ok := ctx.Item.(nodeEvt)
	if !ok {
		r.note("hook-item", "hook item of type %T", ctx.Item)
		return
	}
	if ctx.Domain != hooking.Hookable(r.eng) {
		r.note("hook-domain", "hook domain is not the engine")
	}
	switch ctx.Pos {
	case timing.HookPosBeforeEvent:
		r.obs = append(r.obs, obsEntry{'B', ne.node, uint64(ne.t)})
	case timing.HookPosAfterEvent:
		r.obs = append(r.obs, obsEntry{'A', ne.node, uint64(ne.t)})
	default:
		r.note("hook-pos", "unknown hook position %v", ctx.Pos)
	}
}

func newSerialRun(p *program) *serialRun {
	r := &serialRun{p: p, kids: p.kids(), eng: timing.NewSerialEngine()}
	for i := 0; i < p.NH; i++ {
		r.eng.RegisterHandler(handlerName(i), &serialHandler{id: handlerName(i), r: r})
	}
	if p.Hook {
		r.eng.AcceptHook(&serialHook{r})
	}
	for i, nd := range p.Nodes {
		if nd.P < 0 {
			r.eng.Schedule(p.event(i, nd.T))
		}
	}
	return r
}

// log extracts the handler invocations and checks the hook bracketing
// (Before, handler, After per event) when a hook is attached.
func (r *serialRun) log() (out []entry, hookSig, hookMsg string) {
	for i := 0; i < len(r.obs); i++ {
		o := r.obs[i]
		if o.Kind == 'H' {
			out = append(out, entry{o.Node, o.T})
		}
	}
	if !r.p.Hook {
		for _, o := range r.obs {
			if o.Kind != 'H' {
				return out, "hook-unexpected", "hook invoked although none was attached"
			}
		}
		return out, "", ""
	}
	if len(r.obs)%3 != 0 {
		return out, "hook-bracketing", fmt.Sprintf("%d hook/handler observations, not a multiple of 3", len(r.obs))
	}
	for i := 0; i+2 < len(r.obs); i += 3 {
		b, h, a := r.obs[i], r.obs[i+1], r.obs[i+2]
		if b.Kind != 'B' || h.Kind != 'H' || a.Kind != 'A' || b.Node != h.Node || a.Node != h.Node {
			return out, "hook-bracketing", fmt.Sprintf("observations %d..%d are %c%d %c%d %c%d, want B,H,A of one event",
				i, i+2, b.Kind, b.Node, h.Kind, h.Node, a.Kind, a.Node)
		}
	}
	return out, "", ""
}

func splitAnomaly(a string) (sig, msg string) {
	for i := 0; i < len(a); i++ {
		if a[i] == 0 {
			return a[:i], a[i+1:]
		}
	}
	return "anomaly", a
}

// distinctTimes returns the sorted distinct event times of a reference log.
func distinctTimes(ref []entry) []uint64 {
	var ts []uint64
	for _, e := range ref {
		if len(ts) == 0 || ts[len(ts)-1] != e.T {
			ts = append(ts, e.T)
		}
	}
	sort.Slice(ts, func(i, j int) bool { return ts[i] < ts[j] })
	return ts
}

const maxTime = math.MaxUint64
