package enginechk

import (
	"testing"

	"github.com/sarchlab/akita/v5/timing"
	"pgregory.net/rapid"

	"verif/harness/kit"
)

type c01Case struct {
	Prog program `json:"prog"`
}

func TestC01(t *testing.T) {
	s := kit.Begin(t, "C01", "serial-order",
		"program = forest of 1..300 events over 1..5 handlers; node = (parent|root, dt|abs time, handler, primary/secondary); time modes: tiny ints (ties), "+
			"clock multiples, within 8 of 2^64-1 (sums never overflow, by construction), wide, mixed; dt=0 weighted >= 50%; engine hook attached or not (drawn). "+
			"Run on the real SerialEngine with a custom event type; the handler log must equal an independently written naive reference scheduler "+
			"(linear scan: earliest time, primaries first, schedule order). Non-trivial: the executed schedule has both classes, a tie of >= 3 events in one "+
			"(time,class) and a secondary that schedules a primary at its own instant")
	defer s.End()
	s.Assume("'primaries scheduled during the instant' is read as: no secondary starts while a primary of that instant is pending (a primary scheduled by a secondary necessarily follows that secondary)")
	s.Assume("hook positions BeforeEvent/AfterEvent are taken to bracket each handler call (hook.go comments)")

	run := func(f kit.Failer, c c01Case) {
		p := &c.Prog
		if _, ok := p.absTimes(maxTime); !ok {
			f.Fatalf("harness: malformed program")
		}
		ref := refSchedule(p)
		timing.ResetIDGenerator()

		var r *serialRun
		var runErr, runErr2 error
		var afterFirst int
		var timeAfter timing.VTimeInPicoSec
		ok, sig, msg := kit.Guard(func() {
			r = newSerialRun(p)
			runErr = r.eng.Run()
			afterFirst = len(r.obs)
			timeAfter = r.eng.CurrentTime()
			runErr2 = r.eng.Run()
		})
		if !ok {
			s.Fail(f, c, sig, "%s", msg)
			return
		}
		if runErr != nil || runErr2 != nil {
			s.Fail(f, c, "run-error", "Run returned %v / %v", runErr, runErr2)
			return
		}
		for _, a := range r.anomaly {
			sg, m := splitAnomaly(a)
			s.Fail(f, c, sg, "%s", m)
			return
		}
		got, hs, hm := r.log()
		if sg, m := diffLogs(p, ref, got); sg != "" {
			s.Fail(f, c, sg, "%s", m)
			return
		}
		if hs != "" {
			s.Fail(f, c, hs, "%s", hm)
			return
		}
		if len(r.obs) != afterFirst {
			s.Fail(f, c, "run-returned-early", "a second Run handled %d more observations: the first Run returned with events queued", len(r.obs)-afterFirst)
			return
		}
		if want := timing.VTimeInPicoSec(ref[len(ref)-1].T); timeAfter != want {
			s.Fail(f, c, "currenttime-after-run", "CurrentTime()=%d after Run, last event at %d", timeAfter, want)
			return
		}

		ft := features(p, ref)
		cls := []string{sizeClass(len(p.Nodes))}
		if p.Hook {
			cls = append(cls, "hook")
		} else {
			cls = append(cls, "no-hook")
		}
		if ft.both {
			cls = append(cls, "both-classes")
		}
		if ft.tie3 {
			cls = append(cls, "tie>=3")
		}
		if ft.chain {
			cls = append(cls, "same-instant-chain")
		}
		if ft.secToPrim0 {
			cls = append(cls, "secondary->primary@dt0")
		}
		if ref[len(ref)-1].T > maxTime-16 {
			cls = append(cls, "near-2^64")
		}
		if ref[len(ref)-1].T == maxTime {
			cls = append(cls, "at-2^64-1")
		}
		s.Note(c, ft.both && ft.tie3 && ft.secToPrim0, cls...)
	}

	var c c01Case
	if ok, err := kit.LoadReplay("C01", "serial-order", &c); ok {
		if err != nil {
			t.Fatal(err)
		}
		run(t, c)
		return
	} else if kit.ReplayMode() {
		t.Skip()
	}

	kit.SetChecks(60_000, 400_000)
	rapid.Check(t, func(rt *rapid.T) {
		c := c01Case{Prog: genProgram(rt, genOpts{limit: maxTime, maxN: 300})}
		run(rt, c)
	})
}
